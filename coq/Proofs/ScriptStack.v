(* Proofs/ScriptStack.v – the Python stack (list, top at the END) seen as [rev s] of a
   head-topped list s: how check_args, stack[-k], pop, del, item assignment, insert and
   append act through [rev]. *)
From BV Require Import Common.Base Common.PyList Common.Tx Common.ScriptFlags
  Gen.ScriptConsts Gen.EvalConsts Model.Script Model.FindAndDelete Model.ScriptEval Spec.ScriptRef.

Lemma len_cons {A} (x : A) l : len (x :: l) = len l + 1.
Proof. unfold len. cbn [length]. lia. Qed.
Lemma len_nil {A} : len (@nil A) = 0.
Proof. reflexivity. Qed.
Lemma len_nonneg {A} (l : list A) : 0 <= len l.
Proof. unfold len. lia. Qed.
Lemma len_app {A} (a b : list A) : len (a ++ b) = len a + len b.
Proof. unfold len. rewrite app_length. lia. Qed.

Lemma check_args_rev_ok s n : n <= len s -> check_args (rev s) n = Ok tt.
Proof. intros H. unfold check_args. rewrite len_rev. destruct (Z.ltb_spec (len s) n); [lia|reflexivity]. Qed.
Lemma check_args_rev_fail s n : len s < n -> check_args (rev s) n = Err EvalErr.
Proof. intros H. unfold check_args. rewrite len_rev. destruct (Z.ltb_spec (len s) n); [reflexivity|lia]. Qed.

Lemma push_rev (s : list bytes) x : push (rev s) x = rev (x :: s).
Proof. reflexivity. Qed.

Lemma pop_n_rev k : forall s, (k <= length s)%nat -> pop_n k (rev s) = Ok (rev (skipn k s)).
Proof.
  induction k as [|k IH]; intros s H; [reflexivity|].
  destruct s as [|x s]; [simpl in H; lia|]. cbn [pop_n]. rewrite py_pop_rev. cbn [bind snd skipn].
  apply IH. simpl in H. lia.
Qed.

Lemma py_del_rev {A} (s : list A) k : 0 < k <= len s ->
  py_del (rev s) (- k) = Ok (rev (firstn (Z.to_nat (k - 1)) s ++ skipn (Z.to_nat k) s)).
Proof.
  intros H. unfold py_del. rewrite norm_idx_rev_neg by exact H. cbn [bind]. f_equal.
  rewrite rev_app_distr. unfold len in *.
  rewrite firstn_rev, skipn_rev. f_equal; f_equal; f_equal; lia.
Qed.
Lemma py_set_rev {A} (s : list A) k x : 0 < k <= len s ->
  py_set (rev s) (- k) x = Ok (rev (firstn (Z.to_nat (k - 1)) s ++ x :: skipn (Z.to_nat k) s)).
Proof.
  intros H. unfold py_set. rewrite norm_idx_rev_neg by exact H. cbn [bind]. f_equal.
  rewrite rev_app_distr. cbn [rev]. rewrite <- app_assoc. cbn [app]. unfold len in *.
  rewrite firstn_rev, skipn_rev. f_equal; [f_equal; f_equal; lia|]. f_equal. f_equal. f_equal. lia.
Qed.
(* TUCK: stack.insert(len(stack) - 2, v) *)
Lemma py_insert_rev_tuck {A} (x2 x1 : A) r v :
  py_insert (rev (x2 :: x1 :: r)) (len (rev (x2 :: x1 :: r)) - 2) v = rev (x2 :: x1 :: v :: r).
Proof.
  unfold py_insert. rewrite len_rev, !len_cons.
  destruct (Z.ltb_spec (len r + 1 + 1 - 2) 0); [pose proof (len_nonneg r); lia|].
  rewrite Z.min_l by lia. replace (len r + 1 + 1 - 2) with (len r) by lia.
  cbn [rev]. rewrite <- !app_assoc. cbn [app].
  unfold len. rewrite Nat2Z.id. rewrite <- (rev_length r).
  rewrite firstn_app, Nat.sub_diag, firstn_all, skipn_app, Nat.sub_diag, skipn_all. cbn [firstn skipn app].
  now rewrite app_nil_r.
Qed.

(* _CastToBool is the reference bool() *)
Lemma ref_bool_cons_nonnil b c t : ref_bool (b :: c :: t) = negb (b2z b =? 0) || ref_bool (c :: t).
Proof. reflexivity. Qed.
Lemma cast_to_bool_ref v : cast_to_bool v = ref_bool v.
Proof.
  unfold cast_to_bool. induction v as [|b t IH]; [reflexivity|].
  cbn [cast_to_bool_loop]. destruct t as [|c t'].
  - cbn [is_nil andb ref_bool cast_to_bool_loop]. destruct (b2z b =? 0) eqn:E0; cbn [negb orb]; [reflexivity|].
    destruct (b2z b =? 128); reflexivity.
  - rewrite ref_bool_cons_nonnil. cbn [is_nil andb]. destruct (b2z b =? 0); cbn [negb orb]; [exact IH|reflexivity].
Qed.
