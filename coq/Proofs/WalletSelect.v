(* Proofs/WalletSelect.v – C12: the chain-selection state machine.
   * [select_params_spec]  one SelectParams call: a name of the table sets BOTH globals to
     that chain, any other name raises ValueError and leaves BOTH unchanged (the code calls
     _SelectCoreParams first, which raises before anything is assigned);
   * [run_history_spec]    by induction over an arbitrary history: both globals name the last
     valid selection (Spec.Wallet.spec_selected), the per-call outcomes are Ok / ValueError
     according to validity of the name;
   * [selected_chain]      the selected index always denotes a chain of the table;
   * [selected_last]       a history ending in the name of chain i selects i. *)
From BV Require Import Common.Base Gen.Core Model.Wallet Spec.Wallet.
From BV Require Model.Bech32 Spec.Bech32.

Lemma zlist_zeqb a : forall b, Model.Bech32.zlist_eqb a b = Spec.Bech32.zeqb_list a b.
Proof. induction a as [|x a IH]; intros [|y b]; cbn; try reflexivity; rewrite IH; reflexivity. Qed.

Lemma name_index_spec name l : forall i, name_index name l i = chain_of_name name l i.
Proof.
  induction l as [|p t IH]; intros i; cbn [name_index chain_of_name]; [reflexivity|].
  rewrite zlist_zeqb, IH. reflexivity.
Qed.

Definition both (i : Z) : pstate := {| st_core := i; st_params := i |}.

(* the names of the regenerated table are the reference names *)
Lemma names_eq : map cp_name chains = map cp_name ref_chains.
Proof. reflexivity. Qed.
Lemma chain_of_name_names name l : forall l' i, map cp_name l = map cp_name l' ->
  chain_of_name name l i = chain_of_name name l' i.
Proof.
  induction l as [|p t IH]; intros [|q t'] i E; try discriminate; [reflexivity|].
  cbn [map] in E. injection E as E1 E2. cbn [chain_of_name]. rewrite E1, (IH t' (i + 1) E2). reflexivity.
Qed.

Theorem select_params_spec st name :
  select_params st name =
  match chain_of_name name ref_chains 0 with
  | Some i => (both i, Ok tt)
  | None => (st, Err ValueError)
  end.
Proof.
  unfold select_params, select_core_params. rewrite name_index_spec.
  rewrite (chain_of_name_names name chains ref_chains 0 names_eq).
  destruct (chain_of_name name ref_chains 0); reflexivity.
Qed.

Lemma find_app_one {A} (f : A -> bool) l x :
  find f (l ++ [x]) = match find f l with Some y => Some y | None => if f x then Some x else None end.
Proof. induction l as [|a l IH]; cbn [app find]; [reflexivity|]. destruct (f a); [reflexivity|exact IH]. Qed.

(* the chain selected after hist, starting from chain c *)
Definition selected_from (c : Z) (hist : list text) : Z :=
  match find valid_name (rev hist) with
  | Some n => match chain_of_name n ref_chains 0 with Some i => i | None => c end
  | None => c
  end.
Lemma spec_selected_from hist : spec_selected hist = selected_from 0 hist.
Proof. reflexivity. Qed.

Definition step_result (n : text) : res unit := if valid_name n then Ok tt else Err ValueError.

Theorem run_history_from hist : forall c,
  run_history (both c) hist = (both (selected_from c hist), map step_result hist).
Proof.
  induction hist as [|n t IH]; intros c; [reflexivity|].
  cbn [run_history]. rewrite select_params_spec. cbn [map].
  assert (S : selected_from c (n :: t) =
              match chain_of_name n ref_chains 0 with Some i => selected_from i t | None => selected_from c t end).
  { unfold selected_from. cbn [rev]. rewrite find_app_one.
    assert (V : valid_name n = match chain_of_name n ref_chains 0 with Some _ => true | None => false end) by reflexivity.
    destruct (chain_of_name n ref_chains 0) as [i|] eqn:E; rewrite V.
    - destruct (find valid_name (rev t)) as [m|] eqn:F; [|cbv beta iota; rewrite E; reflexivity].
      apply find_some in F as [_ Vm]. unfold valid_name in Vm.
      destruct (chain_of_name m ref_chains 0); [reflexivity|discriminate].
    - destruct (find valid_name (rev t)); reflexivity. }
  rewrite S. unfold step_result at 1. unfold valid_name.
  destruct (chain_of_name n ref_chains 0) as [i|]; rewrite IH; reflexivity.
Qed.

Theorem run_history_spec hist :
  run_history st_init hist = (both (spec_selected hist), map step_result hist).
Proof. exact (run_history_from hist 0). Qed.

(* chain_of_name returns an index of the table *)
Lemma chain_of_name_some name l : forall s i, chain_of_name name l s = Some i ->
  s <= i /\ exists p, nth_error l (Z.to_nat (i - s)) = Some p /\ cp_name p = name.
Proof.
  induction l as [|q t IH]; intros s i H; cbn [chain_of_name] in H; [discriminate|].
  destruct (Spec.Bech32.zeqb_list name (cp_name q)) eqn:E.
  - injection H as <-. split; [lia|]. exists q. rewrite Z.sub_diag. split; [reflexivity|].
    rewrite <- zlist_zeqb in E. clear -E. revert E. generalize (cp_name q). intros m.
    revert m. induction name as [|x a IHa]; intros [|y m] E; cbn in E; try discriminate; [reflexivity|].
    apply andb_true_iff in E as [E1 E2]. apply Z.eqb_eq in E1. subst y. f_equal. apply IHa, E2.
  - apply IH in H as (Hs & p & Hn & Hp). split; [lia|]. exists p. split; [|exact Hp].
    replace (Z.to_nat (i - s)) with (S (Z.to_nat (i - (s + 1)))) by lia. exact Hn.
Qed.

Theorem selected_chain hist : exists p, 0 <= spec_selected hist /\
  nth_error chains (Z.to_nat (spec_selected hist)) = Some p /\ In p chains /\
  params_of (both (spec_selected hist)) = Ok p.
Proof.
  assert (G : forall i p, 0 <= i -> nth_error chains (Z.to_nat i) = Some p ->
              0 <= i /\ nth_error chains (Z.to_nat i) = Some p /\ In p chains /\ params_of (both i) = Ok p).
  { intros i p Hi Hn. repeat split; auto; [eapply nth_error_In, Hn|].
    unfold params_of, both. cbn [st_params]. destruct (Z.ltb_spec i 0); [lia|]. rewrite Hn. reflexivity. }
  unfold spec_selected.
  destruct (find valid_name (rev hist)) as [n|] eqn:F.
  - destruct (chain_of_name n ref_chains 0) as [i|] eqn:E.
    + apply chain_of_name_some in E as (Hs & pr & Hn & _). rewrite Z.sub_0_r in Hn.
      assert (Lt : (Z.to_nat i < length chains)%nat).
      { rewrite <- (map_length cp_name chains), names_eq, map_length. apply nth_error_Some. congruence. }
      assert (Ex : exists p, nth_error chains (Z.to_nat i) = Some p).
      { destruct (nth_error chains (Z.to_nat i)) as [p|] eqn:Hc; [eauto|apply nth_error_None in Hc; lia]. }
      destruct Ex as [p Hc]. exists p. apply G; assumption.
    + apply find_some in F as [_ V]. unfold valid_name in V. rewrite E in V. discriminate.
  - exists (hd (Build_chain_params [] 0 0 [] 0 0 0 []) chains). apply G; [lia|]. reflexivity.
Qed.

(* a history ending in the name of chain number i selects i (the names are distinct) *)
Theorem selected_last hist i p : nth_error chains i = Some p ->
  spec_selected (hist ++ [cp_name p]) = Z.of_nat i.
Proof.
  intros Hn. unfold spec_selected. rewrite rev_app_distr. cbn [rev app find].
  assert (E : chain_of_name (cp_name p) ref_chains 0 = Some (Z.of_nat i)).
  { do 4 (destruct i as [|i]; [injection Hn as <-; vm_compute; reflexivity|]).
    destruct i; discriminate Hn. }
  unfold valid_name at 1. rewrite E. cbv beta iota. rewrite E. reflexivity.
Qed.
