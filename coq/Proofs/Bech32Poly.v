(* Proofs/Bech32Poly.v – C11: the checksum arithmetic.
   * explicit form of one bech32_polymod iteration; GF(2)-linearity of the step and of
     the fold over equal-length value lists;
   * the 30-bit polymod state is the remainder polynomial of Spec/Bech32.v (six GF(32)
     coefficients) – for every list of 5-bit values;
   * bech32_verify_checksum = checksum_ok, bech32_create_checksum = spec_checksum, and the
     created checksum verifies. *)
From BV Require Import Common.Base Gen.Bech32 Model.Bech32 Spec.Bech32.

(* ---------- small bit facts ---------- *)
Lemma testbit_high a n k : 0 <= a < 2^n -> n <= k -> Z.testbit a k = false.
Proof.
  intros Ha Hk. destruct (Z.eq_dec a 0) as [->|Hne]; [apply Z.bits_0|].
  apply Z.bits_above_log2; [lia|]. apply Z.log2_lt_pow2; [lia|].
  eapply Z.lt_le_trans; [apply Ha|]. apply Z.pow_le_mono_r; lia.
Qed.

Lemma lxor_bound n a b : 0 <= n -> 0 <= a < 2^n -> 0 <= b < 2^n -> 0 <= Z.lxor a b < 2^n.
Proof.
  intros Hn Ha Hb. assert (N : 0 <= Z.lxor a b) by (apply Z.lxor_nonneg; lia). split; [exact N|].
  destruct (Z.eq_dec (Z.lxor a b) 0) as [->|Hne]; [apply Z.pow_pos_nonneg; lia|].
  apply Z.log2_lt_pow2; [lia|].
  destruct (Z.le_gt_cases n (Z.log2 (Z.lxor a b))) as [C|C]; [exfalso|exact C].
  assert (T : Z.testbit (Z.lxor a b) (Z.log2 (Z.lxor a b)) = true) by (apply Z.bit_log2; lia).
  rewrite Z.lxor_spec, (testbit_high a n), (testbit_high b n) in T by lia. discriminate.
Qed.

Lemma land_lxor_r a b m : Z.land (Z.lxor a b) m = Z.lxor (Z.land a m) (Z.land b m).
Proof.
  apply Z.bits_inj'. intros n Hn. rewrite !Z.land_spec, !Z.lxor_spec, !Z.land_spec.
  destruct (Z.testbit a n), (Z.testbit b n), (Z.testbit m n); reflexivity.
Qed.

Lemma land1_odd x : negb (Z.land x 1 =? 0) = Z.odd x.
Proof.
  change 1 with (Z.ones 1) at 1. rewrite Z.land_ones by lia. change (2^1) with 2.
  rewrite Zodd_mod. destruct (Z.eqb_spec (x mod 2) 0) as [E|E]; simpl.
  - rewrite E. reflexivity.
  - assert (x mod 2 = 1) by lia. rewrite H. reflexivity.
Qed.

Lemma In_zrange n x : In x (zrange n) <-> 0 <= x < n.
Proof.
  unfold zrange. rewrite in_map_iff. split.
  - intros (k & <- & Hk). apply in_seq in Hk. lia.
  - intros H. exists (Z.to_nat x). split; [lia|]. apply in_seq. lia.
Qed.

(* ---------- explicit form of the step ---------- *)
Definition sel (top i g : Z) : Z := if Z.testbit top i then g else 0.
Definition gen_sel (top : Z) : Z :=
  Z.lxor (Z.lxor (Z.lxor (Z.lxor (sel top 0 bech32_gen0) (sel top 1 bech32_gen1)) (sel top 2 bech32_gen2))
                 (sel top 3 bech32_gen3)) (sel top 4 bech32_gen4).

Lemma step_eq chk v :
  polymod_step chk v =
  Z.lxor (Z.lxor (Z.shiftl (Z.land chk 33554431) 5) v) (gen_sel (Z.shiftr chk 25)).
Proof.
  unfold polymod_step, gen_sel, sel.
  change (zrange bech32_gen_range) with [0; 1; 2; 3; 4].
  change bech32_top_shift with 25. change bech32_mask with 33554431. change bech32_shift with 5.
  change bech32_bit_mask with 1.
  cbn [fold_left]. rewrite !land1_odd, <- !Z.testbit_odd.
  change (nth (Z.to_nat 0) bech32_generator 0) with bech32_gen0.
  change (nth (Z.to_nat 1) bech32_generator 0) with bech32_gen1.
  change (nth (Z.to_nat 2) bech32_generator 0) with bech32_gen2.
  change (nth (Z.to_nat 3) bech32_generator 0) with bech32_gen3.
  change (nth (Z.to_nat 4) bech32_generator 0) with bech32_gen4.
  set (A := Z.lxor _ v). set (top := Z.shiftr chk 25).
  rewrite !Z.lxor_assoc. reflexivity.
Qed.

(* ---------- GF(2)-linearity ---------- *)
Lemma sel_xor a b i g : sel (Z.lxor a b) i g = Z.lxor (sel a i g) (sel b i g).
Proof.
  unfold sel. rewrite Z.lxor_spec.
  destruct (Z.testbit a i), (Z.testbit b i); cbn [xorb];
    rewrite ?Z.lxor_nilpotent, ?Z.lxor_0_r, ?Z.lxor_0_l; reflexivity.
Qed.

Lemma gen_sel_xor a b : gen_sel (Z.lxor a b) = Z.lxor (gen_sel a) (gen_sel b).
Proof.
  unfold gen_sel. rewrite !sel_xor.
  apply Z.bits_inj'. intros n Hn. rewrite !Z.lxor_spec.
  repeat match goal with |- context [Z.testbit ?x n] => is_var x; fail 1 | |- context [Z.testbit (sel ?t ?i ?g) n] =>
    generalize (Z.testbit (sel t i g) n); intro end.
  repeat match goal with b : bool |- _ => destruct b end; reflexivity.
Qed.

Lemma step_xor c1 c2 v1 v2 :
  polymod_step (Z.lxor c1 c2) (Z.lxor v1 v2) = Z.lxor (polymod_step c1 v1) (polymod_step c2 v2).
Proof.
  rewrite !step_eq. rewrite Z.shiftr_lxor, gen_sel_xor, land_lxor_r, Z.shiftl_lxor.
  set (A1 := Z.shiftl (Z.land c1 33554431) 5). set (A2 := Z.shiftl (Z.land c2 33554431) 5).
  set (G1 := gen_sel (Z.shiftr c1 25)). set (G2 := gen_sel (Z.shiftr c2 25)).
  apply Z.bits_inj'. intros n Hn. rewrite !Z.lxor_spec.
  destruct (Z.testbit A1 n), (Z.testbit A2 n), (Z.testbit v1 n), (Z.testbit v2 n),
           (Z.testbit G1 n), (Z.testbit G2 n); reflexivity.
Qed.

Theorem polymod_from_xor vs : forall ws c1 c2, length vs = length ws ->
  polymod_from (Z.lxor c1 c2) (map2 Z.lxor vs ws) = Z.lxor (polymod_from c1 vs) (polymod_from c2 ws).
Proof.
  induction vs as [|v vs IH]; intros [|w ws] c1 c2 L; cbn [length] in L; try discriminate.
  - reflexivity.
  - cbn [map2 polymod_from fold_left]. rewrite step_xor. apply IH. lia.
Qed.

Lemma step_0_0 : polymod_step 0 0 = 0.
Proof. reflexivity. Qed.
Lemma polymod_from_zeros n : polymod_from 0 (repeat 0 n) = 0.
Proof. induction n; cbn [repeat polymod_from fold_left]; [reflexivity|]. rewrite step_0_0. exact IHn. Qed.
Lemma polymod_from_app c a b : polymod_from c (a ++ b) = polymod_from (polymod_from c a) b.
Proof. apply fold_left_app. Qed.

(* ---------- the state as six GF(32) coefficients ---------- *)
Definition field (k x : Z) : Z := Z.land (Z.shiftr x k) 31.
Definition unpack (x : Z) : list Z := [field 25 x; field 20 x; field 15 x; field 10 x; field 5 x; field 0 x].

Lemma field_arith k x : 0 <= k -> field k x = (x / 2^k) mod 32.
Proof.
  intros Hk. unfold field. rewrite Z.shiftr_div_pow2 by lia.
  change 31 with (Z.ones 5). rewrite Z.land_ones by lia. reflexivity.
Qed.
Lemma field_xor k a b : field k (Z.lxor a b) = Z.lxor (field k a) (field k b).
Proof. unfold field. rewrite Z.shiftr_lxor. apply land_lxor_r. Qed.
Lemma unpack_xor a b : unpack (Z.lxor a b) = map2 Z.lxor (unpack a) (unpack b).
Proof. unfold unpack. rewrite !field_xor. reflexivity. Qed.
Lemma field_range k x : 0 <= k -> 0 <= field k x < 32.
Proof. intros. rewrite field_arith by lia. apply Z.mod_pos_bound. lia. Qed.

Lemma pack6 a b c d e f : pack [a; b; c; d; e; f] = 32 * (32 * (32 * (32 * (32 * (32 * 0 + a) + b) + c) + d) + e) + f.
Proof. reflexivity. Qed.
Lemma pack_unpack x : 0 <= x < 2^30 -> pack (unpack x) = x.
Proof.
  intros H. unfold unpack. rewrite pack6, !field_arith by lia.
  change (2^30) with 1073741824 in H.
  change (2^25) with 33554432. change (2^20) with 1048576. change (2^15) with 32768.
  change (2^10) with 1024. change (2^5) with 32. change (2^0) with 1. lia.
Qed.
Lemma unpack_inj x y : 0 <= x < 2^30 -> 0 <= y < 2^30 -> unpack x = unpack y -> x = y.
Proof. intros Hx Hy E. rewrite <- (pack_unpack x Hx), <- (pack_unpack y Hy), E. reflexivity. Qed.
Lemma unpack_pack a b c d e f :
  0 <= a < 32 -> 0 <= b < 32 -> 0 <= c < 32 -> 0 <= d < 32 -> 0 <= e < 32 -> 0 <= f < 32 ->
  unpack (pack [a; b; c; d; e; f]) = [a; b; c; d; e; f] /\ 0 <= pack [a; b; c; d; e; f] < 2^30.
Proof.
  intros. unfold unpack. rewrite pack6, !field_arith by lia.
  change (2^30) with 1073741824.
  change (2^25) with 33554432. change (2^20) with 1048576. change (2^15) with 32768.
  change (2^10) with 1024. change (2^5) with 32. change (2^0) with 1.
  split; [|lia]. repeat f_equal; lia.
Qed.

(* the generator words are the GF(32) multiples 1,2,4,8,16 of g(x): finite sweep over the
   32 possible values of top *)
Lemma gen_sel_sweep :
  forallb (fun top => zeqb_list (unpack (gen_sel top)) (map (gf_mul top) GENPOLY) && (gen_sel top <? 2^30) && (0 <=? gen_sel top))
          (zrange 32) = true.
Proof. vm_compute. reflexivity. Qed.

Lemma zeqb_list_eq a : forall b, zeqb_list a b = true <-> a = b.
Proof.
  induction a as [|x a IH]; intros [|y b]; cbn [zeqb_list]; split; intros H; try discriminate; try reflexivity.
  - apply andb_true_iff in H as [H1 H2]. apply Z.eqb_eq in H1. apply IH in H2. congruence.
  - injection H as -> ->. rewrite Z.eqb_refl. apply IH. reflexivity.
Qed.

Lemma gen_sel_poly top : 0 <= top < 32 ->
  unpack (gen_sel top) = map (gf_mul top) GENPOLY /\ 0 <= gen_sel top < 2^30.
Proof.
  intros H. pose proof gen_sel_sweep as S. rewrite forallb_forall in S.
  specialize (S top (proj2 (In_zrange 32 top) H)).
  apply andb_true_iff in S as [S S3]. apply andb_true_iff in S as [S1 S2].
  apply zeqb_list_eq in S1. split; [exact S1|]. lia.
Qed.

Lemma shl_mask_arith chk : Z.shiftl (Z.land chk 33554431) 5 = (chk mod 2^25) * 32.
Proof.
  change 33554431 with (Z.ones 25). rewrite Z.land_ones by lia.
  rewrite Z.shiftl_mul_pow2 by lia. reflexivity.
Qed.

Theorem step_poly chk v : 0 <= chk < 2^30 -> 0 <= v < 32 ->
  unpack (polymod_step chk v) = poly_step (unpack chk) v /\ 0 <= polymod_step chk v < 2^30.
Proof.
  intros Hc Hv. rewrite step_eq.
  assert (Ht : Z.shiftr chk 25 = field 25 chk).
  { rewrite field_arith, Z.shiftr_div_pow2 by lia. change (2^30) with 1073741824 in Hc.
    change (2^25) with 33554432. lia. }
  assert (Htr : 0 <= Z.shiftr chk 25 < 32) by (rewrite Ht; apply field_range; lia).
  destruct (gen_sel_poly _ Htr) as [G Gr].
  assert (Ar : 0 <= Z.shiftl (Z.land chk 33554431) 5 < 2^30).
  { rewrite shl_mask_arith. change (2^30) with 1073741824. change (2^25) with 33554432. lia. }
  assert (Vr : 0 <= v < 2^30) by (change (2^30) with 1073741824; lia).
  split.
  - rewrite !unpack_xor, G, Ht. unfold unpack at 3. cbn [poly_step app].
    f_equal. unfold unpack. rewrite shl_mask_arith. rewrite !field_arith by lia.
    change (2^30) with 1073741824 in *.
    change (2^25) with 33554432. change (2^20) with 1048576. change (2^15) with 32768.
    change (2^10) with 1024. change (2^5) with 32. change (2^0) with 1.
    cbn [map2].
    replace (chk mod 33554432 * 32 / 33554432 mod 32) with (chk / 1048576 mod 32) by lia.
    replace (chk mod 33554432 * 32 / 1048576 mod 32) with (chk / 32768 mod 32) by lia.
    replace (chk mod 33554432 * 32 / 32768 mod 32) with (chk / 1024 mod 32) by lia.
    replace (chk mod 33554432 * 32 / 1024 mod 32) with (chk / 32 mod 32) by lia.
    replace (chk mod 33554432 * 32 / 32 mod 32) with (chk / 1 mod 32) by lia.
    replace (chk mod 33554432 * 32 / 1 mod 32) with 0 by lia.
    replace (v / 33554432 mod 32) with 0 by lia. replace (v / 1048576 mod 32) with 0 by lia.
    replace (v / 32768 mod 32) with 0 by lia. replace (v / 1024 mod 32) with 0 by lia.
    replace (v / 32 mod 32) with 0 by lia. replace (v / 1 mod 32) with v by lia.
    rewrite !Z.lxor_0_r, Z.lxor_0_l. reflexivity.
  - apply lxor_bound; [lia| |exact Gr]. apply lxor_bound; [lia|exact Ar|exact Vr].
Qed.

Lemma poly_step_range r v : Forall is5 r -> length r = 6%nat -> is5 v ->
  exists x, 0 <= x < 2^30 /\ r = unpack x.
Proof.
  intros F L _. destruct r as [|a [|b [|c [|d [|e [|f [|? ?]]]]]]]; try discriminate.
  repeat match goal with H : Forall _ (_ :: _) |- _ => inversion H; subst; clear H end.
  unfold is5 in *. exists (pack [a; b; c; d; e; f]).
  destruct (unpack_pack a b c d e f) as [U R]; auto.
Qed.

Theorem polymod_from_poly vs : forall chk, 0 <= chk < 2^30 -> Forall is5 vs ->
  unpack (polymod_from chk vs) = fold_left poly_step vs (unpack chk) /\ 0 <= polymod_from chk vs < 2^30.
Proof.
  induction vs as [|v vs IH]; intros chk Hc F.
  - cbn. split; [reflexivity|exact Hc].
  - inversion F; subst. cbn [polymod_from fold_left].
    destruct (step_poly chk v Hc H1) as [E R]. rewrite <- E. apply IH; assumption.
Qed.

Theorem polymod_poly vs : Forall is5 vs ->
  unpack (bech32_polymod vs) = poly_rem (1 :: vs) /\ 0 <= bech32_polymod vs < 2^30.
Proof.
  intros F. unfold bech32_polymod, poly_rem. change bech32_polymod_init with 1.
  cbn [fold_left]. change (poly_step [0; 0; 0; 0; 0; 0] 1) with (unpack 1).
  apply polymod_from_poly; [|exact F]. change (2^30) with 1073741824. lia.
Qed.
Corollary polymod_pack vs : Forall is5 vs -> bech32_polymod vs = pack (poly_rem (1 :: vs)).
Proof. intros F. destruct (polymod_poly vs F) as [E R]. rewrite <- E. symmetry. apply pack_unpack, R. Qed.

(* ---------- hrp expansion ---------- *)
Lemma hrp_expand_eq hrp : bech32_hrp_expand hrp = hrp_expand hrp.
Proof.
  unfold bech32_hrp_expand, hrp_expand. change bech32_hrp_shift with 5. change bech32_hrp_mask with 31.
  f_equal; [|f_equal]; apply map_ext; intros c.
  - rewrite Z.shiftr_div_pow2 by lia. reflexivity.
  - change 31 with (Z.ones 5). rewrite Z.land_ones by lia. reflexivity.
Qed.
Lemma hrp_expand_is5 hrp : Forall printable hrp -> Forall is5 (hrp_expand hrp).
Proof.
  intros F. unfold hrp_expand. apply Forall_app. split; [|apply Forall_app; split].
  - apply Forall_map. eapply Forall_impl; [|exact F]. unfold printable, is5. intros c H. lia.
  - repeat constructor; unfold is5; lia.
  - apply Forall_map. eapply Forall_impl; [|exact F]. unfold printable, is5. intros c H. lia.
Qed.
Lemma hrp_expand_length hrp : length (hrp_expand hrp) = (2 * length hrp + 1)%nat.
Proof. unfold hrp_expand. rewrite !app_length, !map_length. cbn. lia. Qed.

(* ---------- verify / create ---------- *)
Theorem verify_checksum_ok hrp vals : Forall printable hrp -> Forall is5 vals ->
  (bech32_verify_checksum hrp vals = true <-> checksum_ok hrp vals).
Proof.
  intros Fh Fv. unfold bech32_verify_checksum, checksum_ok. change bech32_verify_target with 1.
  rewrite hrp_expand_eq.
  assert (F : Forall is5 (hrp_expand hrp ++ vals)) by (apply Forall_app; split; [apply hrp_expand_is5|]; assumption).
  destruct (polymod_poly _ F) as [E R]. rewrite <- E. rewrite Z.eqb_eq. split.
  - intros ->. reflexivity.
  - intros U. apply unpack_inj; [exact R|change (2^30) with 1073741824; lia|exact U].
Qed.

Lemma zrange6 : zrange bech32_chk_syms = [0; 1; 2; 3; 4; 5].
Proof. reflexivity. Qed.

Theorem create_checksum_spec hrp data : Forall printable hrp -> Forall is5 data ->
  bech32_create_checksum hrp data = spec_checksum hrp data.
Proof.
  intros Fh Fd. unfold bech32_create_checksum, spec_checksum. rewrite zrange6, hrp_expand_eq.
  change bech32_chk_target with 1. change bech32_chk_width with 5. change bech32_chk_last with 5.
  change bech32_chk_mask with 31. change (repeat 0 (Z.to_nat bech32_chk_zeros)) with [0; 0; 0; 0; 0; 0].
  rewrite <- app_assoc.
  assert (F : Forall is5 (hrp_expand hrp ++ data ++ [0; 0; 0; 0; 0; 0])).
  { apply Forall_app; split; [apply hrp_expand_is5; assumption|]. apply Forall_app; split; [assumption|].
    repeat constructor; unfold is5; lia. }
  destruct (polymod_poly _ F) as [E R]. rewrite <- E. change ONE with (unpack 1).
  rewrite <- unpack_xor. reflexivity.
Qed.

(* feeding six symbols into a state below 2^25... : from state 0 they are simply packed *)
Lemma step_small x v : 0 <= x < 2^25 -> 0 <= v < 32 -> polymod_step x v = 32 * x + v.
Proof.
  intros Hx Hv. rewrite step_eq. change (2^25) with 33554432 in Hx.
  assert (T : Z.shiftr x 25 = 0) by (rewrite Z.shiftr_div_pow2 by lia; change (2^25) with 33554432; lia).
  rewrite T. change (gen_sel 0) with 0. rewrite Z.lxor_0_r, shl_mask_arith.
  change (2^25) with 33554432. rewrite Z.mod_small by lia.
  rewrite <- Z.add_nocarry_lxor; [lia|].
  apply Z.bits_inj'. intros n Hn. rewrite Z.land_spec, Z.bits_0.
  destruct (Z.ltb_spec n 5).
  - replace (x * 32) with (x * 2^5) by (change (2^5) with 32; lia). rewrite Z.mul_pow2_bits_low by lia. reflexivity.
  - rewrite (testbit_high v 5 n) by (change (2^5) with 32; lia). apply andb_false_r.
Qed.

Lemma polymod_from_0_six a b c d e f :
  0 <= a < 32 -> 0 <= b < 32 -> 0 <= c < 32 -> 0 <= d < 32 -> 0 <= e < 32 -> 0 <= f < 32 ->
  polymod_from 0 [a; b; c; d; e; f] = pack [a; b; c; d; e; f].
Proof.
  intros. cbn [polymod_from fold_left]. rewrite pack6. change (2^25) with 33554432 in *.
  rewrite (step_small 0 a) by (change (2^25) with 33554432; lia).
  rewrite (step_small _ b) by (change (2^25) with 33554432; lia).
  rewrite (step_small _ c) by (change (2^25) with 33554432; lia).
  rewrite (step_small _ d) by (change (2^25) with 33554432; lia).
  rewrite (step_small _ e) by (change (2^25) with 33554432; lia).
  rewrite (step_small _ f) by (change (2^25) with 33554432; lia).
  reflexivity.
Qed.

(* appending six symbols cs to a state c: the zero-extended state xor the packed symbols *)
Lemma polymod_from_six c cs : Forall is5 cs -> length cs = 6%nat ->
  polymod_from c cs = Z.lxor (polymod_from c [0; 0; 0; 0; 0; 0]) (pack cs).
Proof.
  intros F L. destruct cs as [|a [|b [|c0 [|d [|e [|f [|? ?]]]]]]]; try discriminate.
  repeat match goal with H : Forall _ (_ :: _) |- _ => inversion H; subst; clear H end. unfold is5 in *.
  rewrite <- (polymod_from_0_six a b c0 d e f) by assumption.
  rewrite <- polymod_from_xor by reflexivity. rewrite Z.lxor_0_r. cbn [map2]. rewrite !Z.lxor_0_l. reflexivity.
Qed.

Theorem created_checksum_verifies hrp data : Forall printable hrp -> Forall is5 data ->
  bech32_verify_checksum hrp (data ++ bech32_create_checksum hrp data) = true /\
  Forall is5 (bech32_create_checksum hrp data) /\ length (bech32_create_checksum hrp data) = 6%nat.
Proof.
  intros Fh Fd.
  assert (F : Forall is5 (bech32_hrp_expand hrp ++ data)).
  { rewrite hrp_expand_eq. apply Forall_app; split; [apply hrp_expand_is5|]; assumption. }
  set (cs := bech32_create_checksum hrp data).
  assert (CS : cs = unpack (Z.lxor (bech32_polymod ((bech32_hrp_expand hrp ++ data) ++ [0;0;0;0;0;0])) 1)).
  { unfold cs, bech32_create_checksum. rewrite zrange6. reflexivity. }
  assert (C5 : Forall is5 cs /\ length cs = 6%nat).
  { rewrite CS. split; [|reflexivity]. unfold unpack. repeat constructor; apply field_range; lia. }
  split; [|exact C5]. destruct C5 as [C5 CL].
  unfold bech32_verify_checksum. change bech32_verify_target with 1. apply Z.eqb_eq.
  rewrite app_assoc. unfold bech32_polymod. rewrite polymod_from_app.
  rewrite (polymod_from_six _ cs C5 CL). rewrite <- polymod_from_app. fold (bech32_polymod ((bech32_hrp_expand hrp ++ data) ++ [0;0;0;0;0;0])).
  set (P := bech32_polymod _) in *.
  assert (PR : 0 <= P < 2^30).
  { apply polymod_poly. apply Forall_app; split; [exact F|]. repeat constructor; unfold is5; lia. }
  rewrite CS, pack_unpack.
  - rewrite <- Z.lxor_assoc, Z.lxor_nilpotent, Z.lxor_0_l. reflexivity.
  - apply lxor_bound; [lia|exact PR|change (2^30) with 1073741824; lia].
Qed.
