(* Proofs/RpcNum.v – the JSON number scanner and the decimal arithmetic of the receiving
   path (Model/Rpc.v) against the spelled value of Spec/Rpc.v. *)
From BV Require Import Common.Base Gen.Rpc Model.Rpc Spec.Rpc.
From Coq Require Import QArith Qabs Qpower Qfield.
Require Coq.Strings.String.
Import String.StringSyntax.
Open Scope Z_scope.

(* ====================================================================================
   Q helpers
   ==================================================================================== *)
Lemma pow10_pos e : 0 < 10 ^ e \/ e < 0.
Proof. destruct (Z_lt_le_dec e 0); [right; lia | left; apply Z.pow_pos_nonneg; lia]. Qed.
Lemma pow10_gt0 e : 0 <= e -> 0 < 10 ^ e.
Proof. intros. apply Z.pow_pos_nonneg; lia. Qed.

Lemma inject_Z_nonzero z : z <> 0 -> ~ (inject_Z z == 0)%Q.
Proof. intros H E. unfold Qeq, inject_Z in E. cbn in E. lia. Qed.

Lemma pow10q_Qpower e : (pow10q e == (inject_Z 10) ^ e)%Q.
Proof.
  unfold pow10q. destruct (0 <=? e) eqn:E.
  - apply Z.leb_le in E. apply Zpower_Qpower. exact E.
  - apply Z.leb_gt in E. rewrite Zpower_Qpower by lia.
    rewrite <- Qpower_opp. rewrite Z.opp_involutive. reflexivity.
Qed.
Lemma pow10q_plus a b : (pow10q (a + b) == pow10q a * pow10q b)%Q.
Proof.
  rewrite !pow10q_Qpower. apply Qpower_plus. apply inject_Z_nonzero. lia.
Qed.
Lemma pow10q_nonzero e : ~ (pow10q e == 0)%Q.
Proof.
  unfold pow10q. destruct (0 <=? e) eqn:E.
  - apply Z.leb_le in E. apply inject_Z_nonzero. pose proof (pow10_gt0 e E). lia.
  - apply Z.leb_gt in E. intros H. apply (inject_Z_nonzero (10 ^ (- e))).
    + pose proof (pow10_gt0 (- e)). lia.
    + rewrite <- (Qinv_involutive (inject_Z (10 ^ - e))). rewrite H. reflexivity.
Qed.
Lemma pow10q_nonneg e : 0 <= e -> (pow10q e == inject_Z (10 ^ e))%Q.
Proof. intros H. unfold pow10q. apply Z.leb_le in H. rewrite H. reflexivity. Qed.
Lemma pow10q_neg e : 0 <= e -> (pow10q (- e) == / inject_Z (10 ^ e))%Q.
Proof.
  intros H. replace (- e) with (0 + - e) by lia. rewrite pow10q_Qpower.
  replace (0 + - e) with (- e) by lia. rewrite Qpower_opp. rewrite Zpower_Qpower by lia. reflexivity.
Qed.

(* cross-multiplication on integers *)
Lemma Qdiv_eq_iff s P a D : 0 < P -> 0 < D ->
  (inject_Z s / inject_Z P == inject_Z a / inject_Z D)%Q <-> s * D = a * P.
Proof.
  intros HP HD. destruct P as [|p|p]; try lia. destruct D as [|d|d]; try lia.
  unfold Qeq, Qdiv, Qmult, Qinv, inject_Z. cbn [Qnum Qden]. rewrite !Pos.mul_1_l. rewrite !Z.mul_1_r. reflexivity.
Qed.

(* ====================================================================================
   A. the scanner reads every well-formed spelling as the Python number of that value
   ==================================================================================== *)
Lemma dchar_val d : is_dig d = true -> b2z (dchar d) = 48 + d.
Proof.
  unfold is_dig, dchar. intros H. apply andb_true_iff in H as [H1 H2].
  apply Z.leb_le in H1, H2. rewrite b2z_z2b. apply Z.mod_small. lia.
Qed.
Lemma dchar_is_digit d : is_dig d = true -> is_digit (dchar d) = true.
Proof.
  intros H. unfold is_digit. rewrite (dchar_val d H).
  unfold is_dig in H. apply andb_true_iff in H as [H1 H2]. apply Z.leb_le in H1, H2.
  apply andb_true_iff. split; apply Z.leb_le; lia.
Qed.

Ltac norm_T :=
  repeat match goal with
  | |- context [String.list_byte_of_string ?s] =>
      let v := eval vm_compute in (String.list_byte_of_string s) in
      change (String.list_byte_of_string s) with v
  end.

Definition starts_nondigit (t : text) : bool :=
  match t with [] => true | c :: _ => negb (is_digit c) end.

Lemma span_digits_app ds rest : forallb is_dig ds = true -> starts_nondigit rest = true ->
  span_digits (map dchar ds ++ rest) = (map dchar ds, rest).
Proof.
  intros Hd Hr. induction ds as [|d ds IH].
  - cbn [map app]. destruct rest as [|c r]; [reflexivity|].
    cbn [span_digits]. cbn [starts_nondigit] in Hr. apply negb_true_iff in Hr. rewrite Hr. reflexivity.
  - cbn [forallb] in Hd. apply andb_true_iff in Hd as [H1 H2].
    cbn [map app span_digits]. rewrite (dchar_is_digit d H1). rewrite (IH H2). reflexivity.
Qed.

Lemma digits_val_acc ds : forall acc, forallb is_dig ds = true ->
  fold_left (fun a c => 10 * a + (b2z c - 48)) (map dchar ds) acc = fold_left (fun a d => 10 * a + d) ds acc.
Proof.
  induction ds as [|d ds IH]; intros acc H; [reflexivity|].
  cbn [forallb] in H. apply andb_true_iff in H as [H1 H2].
  cbn [map fold_left]. rewrite (dchar_val d H1). replace (48 + d - 48) with d by lia. apply IH. exact H2.
Qed.
Lemma digits_val_dval ds : forallb is_dig ds = true -> digits_val (map dchar ds) = dval ds.
Proof. intros H. apply digits_val_acc. exact H. Qed.

Lemma dval_acc ds : forall acc, fold_left (fun a d => 10 * a + d) ds acc = acc * 10 ^ lenZ ds + dval ds.
Proof.
  unfold dval, lenZ. induction ds as [|d ds IH]; intros acc.
  - cbn. lia.
  - cbn [fold_left length]. rewrite IH. rewrite (IH (10 * 0 + d)).
    rewrite Nat2Z.inj_succ, Z.pow_succ_r by lia. lia.
Qed.
Lemma dval_app a b : dval (a ++ b) = dval a * 10 ^ lenZ b + dval b.
Proof. unfold dval at 1. rewrite fold_left_app. rewrite dval_acc. reflexivity. Qed.
Lemma dval_nonneg_acc ds : forall acc, 0 <= acc -> forallb is_dig ds = true ->
  0 <= fold_left (fun a d => 10 * a + d) ds acc.
Proof.
  induction ds as [|d ds IH]; intros acc H0 H; [cbn; lia|].
  cbn [forallb] in H. apply andb_true_iff in H as [H1 H2]. cbn [fold_left]. apply IH; [|exact H2].
  unfold is_dig in H1. apply andb_true_iff in H1 as [H1 _]. apply Z.leb_le in H1. lia.
Qed.
Lemma dval_nonneg ds : forallb is_dig ds = true -> 0 <= dval ds.
Proof. apply dval_nonneg_acc. lia. Qed.

(* the Python number a spelling is read as *)
Definition pynum_of_spelling (s : spelling) : pynum :=
  match sp_frac s, sp_exp s with
  | None, None => PInt (if sp_neg s then - dval (sp_int s) else dval (sp_int s))
  | fp, _ => let f := match fp with Some f => f | None => [] end in
             PDec (sp_neg s) (dval (sp_int s ++ f)) (exp_value s - lenZ f)
  end.
Definition pynum_q (p : pynum) : Q :=
  match p with
  | PInt z => inject_Z z
  | PDec neg c e => ((if neg then - (1) else 1) * inject_Z c * pow10q e)%Q
  end.

Lemma map_dchar_length ds : lenZ (map dchar ds) = lenZ ds.
Proof. unfold lenZ. rewrite map_length. reflexivity. Qed.

Lemma wf_digits1_inv ds : wf_digits1 ds = true -> forallb is_dig ds = true /\ exists d r, ds = d :: r.
Proof.
  unfold wf_digits1. intros H. apply andb_true_iff in H as [H1 H2]. split; [exact H1|].
  destruct ds; [discriminate H2|]. eauto.
Qed.

Lemma scan_frac_spell fp rest : match fp with Some f => wf_digits1 f = true | None => True end ->
  starts_nondigit rest = true ->
  (match rest with c :: _ => negb (b2z c =? 46) | [] => true end) = true ->
  scan_frac (match fp with Some f => T "." ++ map dchar f | None => [] end ++ rest)
  = Some (match fp with Some f => Some (map dchar f) | None => None end, rest).
Proof.
  intros Hf Hr Hdot. destruct fp as [f|].
  - apply wf_digits1_inv in Hf as [Hd (d & r & ->)].
    change (T "." ++ map dchar (d :: r)) with ("."%byte :: map dchar (d :: r)).
    cbn [app scan_frac]. change (b2z "."%byte =? 46) with true. cbv iota.
    rewrite (span_digits_app (d :: r) rest Hd Hr). reflexivity.
  - cbn [app]. destruct rest as [|c r]; [reflexivity|]. cbn [scan_frac].
    apply negb_true_iff in Hdot. rewrite Hdot. reflexivity.
Qed.

Definition exp_text (ex : option (bool * option bool * list Z)) : bytes :=
  match ex with
  | Some (up, sg, ds) =>
      (if up then T "E" else T "e") ++
      match sg with Some true => T "-" | Some false => T "+" | None => [] end ++ map dchar ds
  | None => []
  end.
Definition exp_val (ex : option (bool * option bool * list Z)) : Z :=
  match ex with
  | Some (_, Some true, ds) => - dval ds
  | Some (_, _, ds) => dval ds
  | None => 0
  end.

Lemma dchar_not_sign d : is_dig d = true -> (b2z (dchar d) =? 45) = false /\ (b2z (dchar d) =? 43) = false.
Proof.
  intros H. rewrite (dchar_val d H). unfold is_dig in H. apply andb_true_iff in H as [H1 H2].
  apply Z.leb_le in H1, H2. split; apply Z.eqb_neq; lia.
Qed.

Lemma scan_exp_spell ex : match ex with Some (_, _, ds) => wf_digits1 ds = true | None => True end ->
  scan_exp (exp_text ex) = Some (match ex with Some _ => Some (exp_val ex) | None => None end, []).
Proof.
  intros H. destruct ex as [[[up sg] ds]|]; [|reflexivity].
  apply wf_digits1_inv in H as [Hd (d & r & ->)].
  assert (Hs : span_digits (map dchar (d :: r)) = (map dchar (d :: r), [])).
  { rewrite <- (app_nil_r (map dchar (d :: r))) at 1. apply span_digits_app; [exact Hd|reflexivity]. }
  assert (Hv : digits_val (map dchar (d :: r)) = dval (d :: r)) by (apply digits_val_dval; exact Hd).
  assert (Hd1 : is_dig d = true) by (cbn [forallb] in Hd; apply andb_true_iff in Hd; tauto).
  destruct (dchar_not_sign d Hd1) as [N1 N2].
  unfold exp_text, exp_val. norm_T.
  destruct up; destruct sg as [[|]|]; cbn [app scan_exp];
    repeat match goal with
    | |- context [b2z "E"%byte =? 101] => change (b2z "E"%byte =? 101) with false
    | |- context [b2z "E"%byte =? 69] => change (b2z "E"%byte =? 69) with true
    | |- context [b2z "e"%byte =? 101] => change (b2z "e"%byte =? 101) with true
    | |- context [b2z "-"%byte =? 45] => change (b2z "-"%byte =? 45) with true
    | |- context [b2z "+"%byte =? 45] => change (b2z "+"%byte =? 45) with false
    | |- context [b2z "+"%byte =? 43] => change (b2z "+"%byte =? 43) with true
    end; cbn [orb]; cbv iota;
    try (cbn [map] in *; rewrite ?N1, ?N2); try rewrite Hs; try rewrite Hv; reflexivity.
Qed.

Lemma exp_text_start ex : match ex with Some (_, _, ds) => wf_digits1 ds = true | None => True end ->
  starts_nondigit (exp_text ex) = true /\
  (match exp_text ex with c :: _ => negb (b2z c =? 46) | [] => true end) = true.
Proof.
  intros _. destruct ex as [[[up sg] ds]|]; [|split; reflexivity].
  unfold exp_text. norm_T. destruct up; split; reflexivity.
Qed.

Lemma wf_int_inv ip : wf_int ip = true ->
  forallb is_dig ip = true /\ exists d r, ip = d :: r /\ is_dig d = true /\ (r = [] \/ d <> 0).
Proof.
  unfold wf_int. intros H. apply andb_true_iff in H as [H1 H2]. split; [exact H1|].
  destruct ip as [|d r]; [discriminate H2|]. exists d, r. split; [reflexivity|].
  split; [cbn [forallb] in H1; apply andb_true_iff in H1; tauto|].
  destruct r as [|d' r']; [left; reflexivity|right]. apply negb_true_iff in H2. apply Z.eqb_neq in H2. exact H2.
Qed.

Theorem scan_spell s : wf_spelling s = true -> scan_number (spell s) = Some (pynum_of_spelling s).
Proof.
  destruct s as [neg ip fp ex]. unfold wf_spelling. cbn [sp_int sp_frac sp_exp]. intros H.
  apply andb_true_iff in H as [H Hex]. apply andb_true_iff in H as [Hip Hfp].
  assert (Hex' : match ex with Some (_, _, ds) => wf_digits1 ds = true | None => True end).
  { destruct ex as [[[? ?] ?]|]; [exact Hex|exact I]. }
  assert (Hfp' : match fp with Some f => wf_digits1 f = true | None => True end).
  { destruct fp; [exact Hfp|exact I]. }
  clear Hex Hfp.
  destruct (wf_int_inv ip Hip) as (Hd & d0 & r0 & -> & Hd0 & Hlead).
  destruct (exp_text_start ex Hex') as [Hs1 Hs2].
  set (fracT := match fp with Some f => T "." ++ map dchar f | None => [] end).
  assert (Hspell : spell {| sp_neg := neg; sp_int := d0 :: r0; sp_frac := fp; sp_exp := ex |}
                   = (if neg then T "-" else []) ++ map dchar (d0 :: r0) ++ fracT ++ exp_text ex) by reflexivity.
  rewrite Hspell. clear Hspell.
  unfold scan_number.
  (* sign *)
  assert (Hsign : scan_sign ((if neg then T "-" else []) ++ map dchar (d0 :: r0) ++ fracT ++ exp_text ex)
                  = (neg, map dchar (d0 :: r0) ++ fracT ++ exp_text ex)).
  { destruct neg.
    - norm_T. reflexivity.
    - cbn [app map scan_sign]. destruct (dchar_not_sign d0 Hd0) as [N _]. rewrite N. reflexivity. }
  rewrite Hsign. clear Hsign.
  (* integer part *)
  assert (Hnd : starts_nondigit (fracT ++ exp_text ex) = true).
  { subst fracT. destruct fp; [norm_T; reflexivity|exact Hs1]. }
  rewrite (span_digits_app (d0 :: r0) _ Hd Hnd).
  cbn [map]. rewrite (dchar_val d0 Hd0).
  assert (Hlz : ((48 + d0 =? 48) && negb (is_nil (map dchar r0))) = false).
  { destruct Hlead as [-> | Hn]; [cbn; apply andb_false_r|].
    replace (48 + d0 =? 48) with false; [reflexivity|]. symmetry. apply Z.eqb_neq. lia. }
  rewrite Hlz. clear Hlz.
  (* fraction, exponent *)
  subst fracT. rewrite (scan_frac_spell fp (exp_text ex) Hfp' Hs1 Hs2).
  rewrite (scan_exp_spell ex Hex'). cbn [is_nil negb].
  change (dchar d0 :: map dchar r0) with (map dchar (d0 :: r0)).
  unfold pynum_of_spelling. cbn [sp_int sp_frac sp_exp sp_neg exp_value].
  change (exp_value {| sp_neg := neg; sp_int := d0 :: r0; sp_frac := fp; sp_exp := ex |}) with (exp_val ex).
  assert (Hall : forall f, forallb is_dig f = true ->
            digits_val (map dchar (d0 :: r0) ++ map dchar f) = dval ((d0 :: r0) ++ f)).
  { intros f Hf. rewrite <- map_app. apply digits_val_dval. rewrite forallb_app, Hd, Hf. reflexivity. }
  destruct fp as [f|]; destruct ex as [[[up sg] ds]|].
  - apply wf_digits1_inv in Hfp' as [Hf _]. rewrite (Hall f Hf), map_dchar_length. reflexivity.
  - apply wf_digits1_inv in Hfp' as [Hf _]. rewrite (Hall f Hf), map_dchar_length. reflexivity.
  - f_equal. f_equal. exact (Hall [] eq_refl).
  - rewrite digits_val_dval by exact Hd. reflexivity.
Qed.

(* ... and that Python number has the spelled value *)
Lemma pynum_of_spelling_value s : wf_spelling s = true -> (pynum_q (pynum_of_spelling s) == spell_value s)%Q.
Proof.
  destruct s as [neg ip fp ex]. intros H.
  unfold pynum_of_spelling, spell_value, mantissa_value. cbn [sp_int sp_frac sp_exp sp_neg].
  set (E := exp_value {| sp_neg := neg; sp_int := ip; sp_frac := fp; sp_exp := ex |}).
  assert (HE0 : fp = None -> ex = None -> E = 0) by (intros -> ->; reflexivity).
  destruct fp as [f|].
  - cbn [pynum_q]. rewrite dval_app.
    replace (E - lenZ f) with (E + - lenZ f) by lia. rewrite pow10q_plus.
    rewrite pow10q_neg by (unfold lenZ; lia).
    rewrite inject_Z_plus, inject_Z_mult.
    assert (Hnz : ~ (inject_Z (10 ^ lenZ f) == 0)%Q).
    { apply inject_Z_nonzero. pose proof (pow10_gt0 (lenZ f)). unfold lenZ in *. lia. }
    destruct neg; field; exact Hnz.
  - destruct ex as [e|].
    + cbn [pynum_q]. rewrite app_nil_r. change (lenZ (@nil Z)) with 0. rewrite Z.sub_0_r.
      destruct neg; ring.
    + rewrite (HE0 eq_refl eq_refl). cbn [pynum_q]. change (pow10q 0) with (inject_Z 1).
      destruct neg; [rewrite inject_Z_opp|]; ring.
Qed.

(* ====================================================================================
   B. Decimal * COIN under the 28-digit context, int()
   ==================================================================================== *)
Lemma ndigits_f_spec fuel : forall c, 0 < c < 2 ^ Z.of_nat fuel ->
  10 ^ (ndigits_f fuel c - 1) <= c < 10 ^ (ndigits_f fuel c) /\ 1 <= ndigits_f fuel c.
Proof.
  induction fuel as [|f IH]; intros c H.
  - change (2 ^ Z.of_nat 0) with 1 in H. lia.
  - cbn [ndigits_f]. destruct (c <? 10) eqn:E.
    + apply Z.ltb_lt in E. change (10 ^ (1 - 1)) with 1. change (10 ^ 1) with 10. lia.
    + apply Z.ltb_ge in E. rewrite Nat2Z.inj_succ, Z.pow_succ_r in H by lia.
      destruct (IH (c / 10)) as [[L U] P]; [lia|].
      replace (1 + ndigits_f f (c / 10) - 1) with (Z.succ (ndigits_f f (c / 10) - 1)) by lia.
      replace (1 + ndigits_f f (c / 10)) with (Z.succ (ndigits_f f (c / 10))) by lia.
      rewrite !Z.pow_succ_r by lia. lia.
Qed.
Lemma ndigits_spec c : 0 < c -> 10 ^ (ndigits c - 1) <= c < 10 ^ (ndigits c) /\ 1 <= ndigits c.
Proof.
  intros H. unfold ndigits. replace (c <=? 0) with false by (symmetry; apply Z.leb_gt; exact H).
  apply ndigits_f_spec. split; [exact H|].
  rewrite Nat2Z.inj_succ, Z2Nat.id by (apply Z.log2_nonneg).
  apply Z.log2_spec in H. lia.
Qed.
Lemma ndigits_unique c n : 10 ^ (n - 1) <= c < 10 ^ n -> 1 <= n -> ndigits c = n.
Proof.
  intros H Hn. assert (Hc : 0 < c) by (pose proof (pow10_gt0 (n - 1)); lia).
  destruct (ndigits_spec c Hc) as [[L U] P].
  destruct (Z_lt_le_dec (ndigits c) n) as [A|A].
  - assert (10 ^ ndigits c <= 10 ^ (n - 1)) by (apply Z.pow_le_mono_r; lia). lia.
  - destruct (Z_lt_le_dec n (ndigits c)) as [B|B]; [|lia].
    assert (10 ^ n <= 10 ^ (ndigits c - 1)) by (apply Z.pow_le_mono_r; lia). lia.
Qed.
Lemma ndigits_le c n : 0 < c -> c < 10 ^ n -> 0 <= n -> ndigits c <= n.
Proof.
  intros Hc H Hn. destruct (ndigits_spec c Hc) as [[L U] P].
  destruct (Z_lt_le_dec n (ndigits c)) as [B|B]; [|lia].
  assert (10 ^ n <= 10 ^ (ndigits c - 1)) by (apply Z.pow_le_mono_r; lia). lia.
Qed.

(* a positive coefficient C with exponent e that denotes the integer A < 10^28:
   rounding to 28 digits loses nothing and int() returns A *)
Lemma dec_int_exact C e A : 0 < C -> 0 <= A < 10 ^ 28 ->
  (if 0 <=? e then C * 10 ^ e = A else C = A * 10 ^ (- e)) ->
  let '(c, e') := dec_round C e in
  c <> 0 /\ e' + ndigits c - 1 <= 27 /\ (if 0 <=? e' then c * 10 ^ e' else c / 10 ^ (- e')) = A.
Proof.
  intros HC HA Hden. unfold dec_round, DEC_PREC.
  destruct (ndigits_spec C HC) as [[L U] P]. set (n := ndigits C) in *.
  destruct (n <=? 28) eqn:En.
  - (* fits *)
    apply Z.leb_le in En. split; [lia|]. fold n.
    destruct (0 <=? e) eqn:Ee.
    + apply Z.leb_le in Ee. split; [|exact Hden].
      (* 10^(n-1+e) <= A < 10^28 *)
      destruct (Z_lt_le_dec 27 (e + n - 1)) as [B|B]; [|lia]. exfalso.
      assert (10 ^ 28 <= 10 ^ (n - 1 + e)) by (apply Z.pow_le_mono_r; lia).
      rewrite Z.pow_add_r in H by lia.
      pose proof (pow10_gt0 e Ee). nia.
    + apply Z.leb_gt in Ee. split; [lia|]. rewrite Hden. apply Z.div_mul.
      pose proof (pow10_gt0 (- e)). lia.
  - (* more than 28 digits: only possible through trailing zeros *)
    apply Z.leb_gt in En.
    destruct (0 <=? e) eqn:Ee.
    { exfalso. apply Z.leb_le in Ee.
      assert (10 ^ 28 <= 10 ^ (n - 1)) by (apply Z.pow_le_mono_r; lia).
      pose proof (pow10_gt0 e Ee). nia. }
    apply Z.leb_gt in Ee.
    set (k := n - 28). assert (Hk : 0 < k) by (unfold k; lia).
    (* k <= - e *)
    assert (Hke : k <= - e).
    { destruct (Z_lt_le_dec (- e) k) as [B|B]; [|exact B]. exfalso.
      assert (10 ^ (28 + - e) <= 10 ^ (n - 1)) by (apply Z.pow_le_mono_r; unfold k in *; lia).
      rewrite Z.pow_add_r in H by lia. pose proof (pow10_gt0 (- e)). nia. }
    assert (Hsplit : 10 ^ (- e) = 10 ^ (- e - k) * 10 ^ k).
    { rewrite <- Z.pow_add_r by lia. f_equal. lia. }
    pose proof (pow10_gt0 k) as Pk. pose proof (pow10_gt0 (- e - k)) as Pek.
    assert (HCk : C = (A * 10 ^ (- e - k)) * 10 ^ k) by (rewrite Hden, Hsplit; ring).
    assert (Hq : C / 10 ^ k = A * 10 ^ (- e - k)) by (rewrite HCk; apply Z.div_mul; lia).
    assert (Hr : C mod 10 ^ k = 0) by (rewrite HCk; apply Z.mod_mul; lia).
    rewrite Hr, Hq. 
    replace (2 * 0 >? 10 ^ k) with false by (symmetry; rewrite Z.gtb_ltb; apply Z.ltb_ge; lia).
    replace (2 * 0 =? 10 ^ k) with false by (symmetry; apply Z.eqb_neq; lia).
    cbn [orb andb].
    (* the quotient has exactly 28 digits *)
    assert (Hq28 : 10 ^ 27 <= A * 10 ^ (- e - k) < 10 ^ 28).
    { rewrite <- Hq. split.
      - apply Z.div_le_lower_bound; [lia|]. rewrite <- Z.pow_add_r by lia.
        replace (k + 27) with (n - 1) by (unfold k; lia). exact L.
      - apply Z.div_lt_upper_bound; [lia|]. rewrite <- Z.pow_add_r by lia.
        replace (k + 28) with n by (unfold k; lia). exact U. }
    replace (A * 10 ^ (- e - k) =? 10 ^ 28) with false by (symmetry; apply Z.eqb_neq; lia).
    split; [lia|].
    rewrite (ndigits_unique (A * 10 ^ (- e - k)) 28) by (change (28 - 1) with 27; lia).
    split; [lia|].
    destruct (0 <=? e + k) eqn:Eek.
    + apply Z.leb_le in Eek. replace (- e - k) with 0 by lia. replace (e + k) with 0 by lia.
      change (10 ^ 0) with 1. ring.
    + apply Z.leb_gt in Eek. replace (- (e + k)) with (- e - k) by lia. apply Z.div_mul. lia.
Qed.

(* the value of a Python number as a pair of integers *)
Lemma pynum_q_dec_iff neg c e a :
  (pynum_q (PDec neg c e) == btc_of_sat a)%Q <->
  (if 0 <=? e then (if neg then - c else c) * 10 ^ e * 100000000 = a
   else (if neg then - c else c) * 100000000 = a * 10 ^ (- e)).
Proof.
  unfold pynum_q, btc_of_sat, SATOSHI_PER_COIN.
  set (s := if neg then - c else c).
  assert (Hs : ((if neg then - (1) else 1) * inject_Z c == inject_Z s)%Q).
  { subst s. destruct neg; [rewrite inject_Z_opp|]; ring. }
  rewrite Hs. clear Hs.
  destruct (0 <=? e) eqn:Ee.
  - apply Z.leb_le in Ee. rewrite pow10q_nonneg by exact Ee. rewrite <- inject_Z_mult.
    split; intros H.
    + assert (X : (inject_Z (s * 10 ^ e) / inject_Z 1 == inject_Z a / inject_Z 100000000)%Q)
        by (rewrite <- H; change (inject_Z 1) with 1%Q; field).
      apply (proj1 (Qdiv_eq_iff (s * 10 ^ e) 1 a 100000000 ltac:(lia) ltac:(lia))) in X. lia.
    + assert (X : s * 10 ^ e * 100000000 = a * 1) by lia.
      apply (proj2 (Qdiv_eq_iff (s * 10 ^ e) 1 a 100000000 ltac:(lia) ltac:(lia))) in X. rewrite <- X. change (inject_Z 1) with 1%Q. field.
  - apply Z.leb_gt in Ee. replace e with (- (- e)) at 1 by lia. rewrite pow10q_neg by lia.
    pose proof (pow10_gt0 (- e)).
    rewrite <- (Qdiv_eq_iff s (10 ^ (- e)) a 100000000) by lia. reflexivity.
Qed.

Lemma amount_of_pynum_exact p a :
  match p with PDec _ c _ => 0 <= c | PInt _ => True end ->
  (pynum_q p == btc_of_sat a)%Q -> Z.abs a < 10 ^ 28 -> amount_of_pynum p = Ok a.
Proof.
  intros Hc Hq Ha. destruct p as [z | neg c e].
  - cbn [amount_of_pynum pynum_q] in *. unfold btc_of_sat, SATOSHI_PER_COIN in Hq.
    assert (z * 100000000 = a * 1).
    { apply (Qdiv_eq_iff z 1 a 100000000); [lia|lia|]. rewrite <- Hq. change (inject_Z 1) with 1%Q. field. }
    unfold RPC_COIN. f_equal. lia.
  - apply pynum_q_dec_iff in Hq. cbn [amount_of_pynum]. unfold dec_mul_int_to_int.
    change (RPC_COIN <? 0) with false. rewrite xorb_false_r. change (Z.abs RPC_COIN) with 100000000.
    destruct (Z.eq_dec c 0) as [-> | Hc0].
    + (* zero coefficient *)
      assert (a = 0).
      { destruct (0 <=? e) eqn:Ee; destruct neg; cbn in Hq; try lia.
        all: apply Z.leb_gt in Ee; pose proof (pow10_gt0 (- e)); nia. }
      subst a. reflexivity.
    + assert (HC : 0 < c * 100000000) by lia.
      pose proof (dec_int_exact (c * 100000000) e (Z.abs a) HC) as X.
      destruct (dec_round (c * 100000000) e) as [c' e'].
      destruct X as (N & O & V).
      * lia.
      * destruct (0 <=? e) eqn:Ee; destruct neg; try lia.
        all: apply Z.leb_gt in Ee; pose proof (pow10_gt0 (- e)); nia.
      * replace (c' =? 0) with false by (symmetry; apply Z.eqb_neq; exact N).
        unfold DEC_EMAX. replace (e' + ndigits c' - 1 >? 999999) with false
          by (symmetry; rewrite Z.gtb_ltb; apply Z.ltb_ge; lia).
        rewrite V. f_equal.
        destruct (0 <=? e) eqn:Ee; destruct neg; try lia.
        all: apply Z.leb_gt in Ee; pose proof (pow10_gt0 (- e)); nia.
Qed.

(* ====================================================================================
   C. receiving: every spelling of a/10^8 converts to exactly a
   ==================================================================================== *)
Lemma pynum_of_spelling_coef s : wf_spelling s = true ->
  match pynum_of_spelling s with PDec _ c _ => 0 <= c | PInt _ => True end.
Proof.
  destruct s as [neg ip fp ex]. unfold wf_spelling, pynum_of_spelling. cbn [sp_int sp_frac sp_exp sp_neg].
  intros H. apply andb_true_iff in H as [H Hex]. apply andb_true_iff in H as [Hip Hfp].
  destruct (wf_int_inv ip Hip) as [Hd _].
  destruct fp as [f|].
  - apply wf_digits1_inv in Hfp as [Hf _]. apply dval_nonneg. rewrite forallb_app, Hd, Hf. reflexivity.
  - destruct ex; [|exact I]. apply dval_nonneg. rewrite forallb_app, Hd. reflexivity.
Qed.

(* the general form: exact for every integral satoshi value of up to 28 digits ... *)
Theorem recv_exact_28 s a : wf_spelling s = true -> denotes_sat s a -> Z.abs a < 10 ^ 28 ->
  amount_of_json (JNum (spell s)) = Ok a.
Proof.
  intros Hwf Hden Ha. cbn [amount_of_json]. rewrite (scan_spell s Hwf).
  apply amount_of_pynum_exact.
  - apply pynum_of_spelling_coef. exact Hwf.
  - rewrite (pynum_of_spelling_value s Hwf). exact Hden.
  - exact Ha.
Qed.
(* ... in particular on the money range (the 28-digit context never comes into play) *)
Theorem recv_exact s a : wf_spelling s = true -> denotes_sat s a -> 0 <= a <= MAX_MONEY ->
  amount_of_json (JNum (spell s)) = Ok a.
Proof.
  intros Hwf Hden Ha. apply recv_exact_28; [exact Hwf|exact Hden|].
  unfold MAX_MONEY, SATOSHI_PER_COIN in Ha. change (10 ^ 28) with 10000000000000000000000000000. lia.
Qed.

(* the context does matter beyond 28 digits: a value on the satoshi grid that is NOT
   converted exactly *)
Lemma recv_inexact_29_digits :
  exists s a, wf_spelling s = true /\ denotes_sat s a /\ amount_of_json (JNum (spell s)) <> Ok a.
Proof.
  exists {| sp_neg := false; sp_int := [1;2;3;4;5;6;7;8;9;0;1;2;3;4;5;6;7;8;9;0;1];
            sp_frac := Some [1;2;3;4;5;6;7;8]; sp_exp := None |}, 12345678901234567890112345678.
  split; [reflexivity|]. split; [vm_compute; reflexivity|]. vm_compute. intros H. discriminate H.
Qed.

(* every well-formed spelling is accepted by the document check, nothing else over the
   number alphabet is *)
Lemma json_ok_spell s : wf_spelling s = true -> json_ok (JNum (spell s)) = true.
Proof. intros H. cbn [json_ok]. rewrite (scan_spell s H). reflexivity. Qed.
