(* Proofs/RpcNum.v – the JSON number scanner and the decimal arithmetic of the receiving
   path (Model/Rpc.v) against the spelled value of Spec/Rpc.v. *)
From BV Require Import Common.Base Gen.Rpc Model.Rpc Spec.Rpc.
From Coq Require Import QArith Qabs Qpower Qfield.
Require Coq.Strings.String.
Import String.StringSyntax.
Open Scope Z_scope.

(* ====================================================================================
   Q helpers
   ==================================================================================== *)
Lemma pow10_pos e : 0 < 10 ^ e \/ e < 0.
Proof. destruct (Z_lt_le_dec e 0); [right; lia | left; apply Z.pow_pos_nonneg; lia]. Qed.
Lemma pow10_gt0 e : 0 <= e -> 0 < 10 ^ e.
Proof. intros. apply Z.pow_pos_nonneg; lia. Qed.

Lemma inject_Z_nonzero z : z <> 0 -> ~ (inject_Z z == 0)%Q.
Proof. intros H E. unfold Qeq, inject_Z in E. cbn in E. lia. Qed.

Lemma pow10q_Qpower e : (pow10q e == (inject_Z 10) ^ e)%Q.
Proof.
  unfold pow10q. destruct (0 <=? e) eqn:E.
  - apply Z.leb_le in E. apply Zpower_Qpower. exact E.
  - apply Z.leb_gt in E. rewrite Zpower_Qpower by lia.
    rewrite <- Qpower_opp. rewrite Z.opp_involutive. reflexivity.
Qed.
Lemma pow10q_plus a b : (pow10q (a + b) == pow10q a * pow10q b)%Q.
Proof.
  rewrite !pow10q_Qpower. apply Qpower_plus. apply inject_Z_nonzero. lia.
Qed.
Lemma pow10q_nonzero e : ~ (pow10q e == 0)%Q.
Proof.
  unfold pow10q. destruct (0 <=? e) eqn:E.
  - apply Z.leb_le in E. apply inject_Z_nonzero. pose proof (pow10_gt0 e E). lia.
  - apply Z.leb_gt in E. intros H. apply (inject_Z_nonzero (10 ^ (- e))).
    + pose proof (pow10_gt0 (- e)). lia.
    + rewrite <- (Qinv_involutive (inject_Z (10 ^ - e))). rewrite H. reflexivity.
Qed.
Lemma pow10q_nonneg e : 0 <= e -> (pow10q e == inject_Z (10 ^ e))%Q.
Proof. intros H. unfold pow10q. apply Z.leb_le in H. rewrite H. reflexivity. Qed.
Lemma pow10q_neg e : 0 <= e -> (pow10q (- e) == / inject_Z (10 ^ e))%Q.
Proof.
  intros H. replace (- e) with (0 + - e) by lia. rewrite pow10q_Qpower.
  replace (0 + - e) with (- e) by lia. rewrite Qpower_opp. rewrite Zpower_Qpower by lia. reflexivity.
Qed.

(* cross-multiplication on integers *)
Lemma Qdiv_eq_iff s P a D : 0 < P -> 0 < D ->
  (inject_Z s / inject_Z P == inject_Z a / inject_Z D)%Q <-> s * D = a * P.
Proof.
  intros HP HD. destruct P as [|p|p]; try lia. destruct D as [|d|d]; try lia.
  unfold Qeq, Qdiv, Qmult, Qinv, inject_Z. cbn [Qnum Qden]. rewrite !Pos.mul_1_l. rewrite !Z.mul_1_r. reflexivity.
Qed.

(* ====================================================================================
   A. the scanner reads every well-formed spelling as the Python number of that value
   ==================================================================================== *)
Lemma dchar_val d : is_dig d = true -> b2z (dchar d) = 48 + d.
Proof.
  unfold is_dig, dchar. intros H. apply andb_true_iff in H as [H1 H2].
  apply Z.leb_le in H1, H2. rewrite b2z_z2b. apply Z.mod_small. lia.
Qed.
Lemma dchar_is_digit d : is_dig d = true -> is_digit (dchar d) = true.
Proof.
  intros H. unfold is_digit. rewrite (dchar_val d H).
  unfold is_dig in H. apply andb_true_iff in H as [H1 H2]. apply Z.leb_le in H1, H2.
  apply andb_true_iff. split; apply Z.leb_le; lia.
Qed.

Ltac norm_T :=
  repeat match goal with
  | |- context [String.list_byte_of_string ?s] =>
      let v := eval vm_compute in (String.list_byte_of_string s) in
      change (String.list_byte_of_string s) with v
  end.

Definition starts_nondigit (t : text) : bool :=
  match t with [] => true | c :: _ => negb (is_digit c) end.

Lemma span_digits_app ds rest : forallb is_dig ds = true -> starts_nondigit rest = true ->
  span_digits (map dchar ds ++ rest) = (map dchar ds, rest).
Proof.
  intros Hd Hr. induction ds as [|d ds IH].
  - cbn [map app]. destruct rest as [|c r]; [reflexivity|].
    cbn [span_digits]. cbn [starts_nondigit] in Hr. apply negb_true_iff in Hr. rewrite Hr. reflexivity.
  - cbn [forallb] in Hd. apply andb_true_iff in Hd as [H1 H2].
    cbn [map app span_digits]. rewrite (dchar_is_digit d H1). rewrite (IH H2). reflexivity.
Qed.

Lemma digits_val_acc ds : forall acc, forallb is_dig ds = true ->
  fold_left (fun a c => 10 * a + (b2z c - 48)) (map dchar ds) acc = fold_left (fun a d => 10 * a + d) ds acc.
Proof.
  induction ds as [|d ds IH]; intros acc H; [reflexivity|].
  cbn [forallb] in H. apply andb_true_iff in H as [H1 H2].
  cbn [map fold_left]. rewrite (dchar_val d H1). replace (48 + d - 48) with d by lia. apply IH. exact H2.
Qed.
Lemma digits_val_dval ds : forallb is_dig ds = true -> digits_val (map dchar ds) = dval ds.
Proof. intros H. apply digits_val_acc. exact H. Qed.

Lemma dval_acc ds : forall acc, fold_left (fun a d => 10 * a + d) ds acc = acc * 10 ^ lenZ ds + dval ds.
Proof.
  unfold dval, lenZ. induction ds as [|d ds IH]; intros acc.
  - cbn. lia.
  - cbn [fold_left length]. rewrite IH. rewrite (IH (10 * 0 + d)).
    rewrite Nat2Z.inj_succ, Z.pow_succ_r by lia. lia.
Qed.
Lemma dval_app a b : dval (a ++ b) = dval a * 10 ^ lenZ b + dval b.
Proof. unfold dval at 1. rewrite fold_left_app. rewrite dval_acc. reflexivity. Qed.
Lemma dval_nonneg_acc ds : forall acc, 0 <= acc -> forallb is_dig ds = true ->
  0 <= fold_left (fun a d => 10 * a + d) ds acc.
Proof.
  induction ds as [|d ds IH]; intros acc H0 H; [cbn; lia|].
  cbn [forallb] in H. apply andb_true_iff in H as [H1 H2]. cbn [fold_left]. apply IH; [|exact H2].
  unfold is_dig in H1. apply andb_true_iff in H1 as [H1 _]. apply Z.leb_le in H1. lia.
Qed.
Lemma dval_nonneg ds : forallb is_dig ds = true -> 0 <= dval ds.
Proof. apply dval_nonneg_acc. lia. Qed.

(* the Python number a spelling is read as *)
Definition pynum_of_spelling (s : spelling) : pynum :=
  match sp_frac s, sp_exp s with
  | None, None => PInt (if sp_neg s then - dval (sp_int s) else dval (sp_int s))
  | fp, _ => let f := match fp with Some f => f | None => [] end in
             PDec (sp_neg s) (dval (sp_int s ++ f)) (exp_value s - lenZ f)
  end.
Definition pynum_q (p : pynum) : Q :=
  match p with
  | PInt z => inject_Z z
  | PDec neg c e => ((if neg then - (1) else 1) * inject_Z c * pow10q e)%Q
  end.

Lemma map_dchar_length ds : lenZ (map dchar ds) = lenZ ds.
Proof. unfold lenZ. rewrite map_length. reflexivity. Qed.

Lemma wf_digits1_inv ds : wf_digits1 ds = true -> forallb is_dig ds = true /\ exists d r, ds = d :: r.
Proof.
  unfold wf_digits1. intros H. apply andb_true_iff in H as [H1 H2]. split; [exact H1|].
  destruct ds; [discriminate H2|]. eauto.
Qed.

Lemma scan_frac_spell fp rest : match fp with Some f => wf_digits1 f = true | None => True end ->
  starts_nondigit rest = true ->
  (match rest with c :: _ => negb (b2z c =? 46) | [] => true end) = true ->
  scan_frac (match fp with Some f => T "." ++ map dchar f | None => [] end ++ rest)
  = Some (match fp with Some f => Some (map dchar f) | None => None end, rest).
Proof.
  intros Hf Hr Hdot. destruct fp as [f|].
  - apply wf_digits1_inv in Hf as [Hd (d & r & ->)].
    change (T "." ++ map dchar (d :: r)) with ("."%byte :: map dchar (d :: r)).
    cbn [app scan_frac]. change (b2z "."%byte =? 46) with true. cbv iota.
    rewrite (span_digits_app (d :: r) rest Hd Hr). reflexivity.
  - cbn [app]. destruct rest as [|c r]; [reflexivity|]. cbn [scan_frac].
    apply negb_true_iff in Hdot. rewrite Hdot. reflexivity.
Qed.

Definition exp_text (ex : option (bool * option bool * list Z)) : bytes :=
  match ex with
  | Some (up, sg, ds) =>
      (if up then T "E" else T "e") ++
      match sg with Some true => T "-" | Some false => T "+" | None => [] end ++ map dchar ds
  | None => []
  end.
Definition exp_val (ex : option (bool * option bool * list Z)) : Z :=
  match ex with
  | Some (_, Some true, ds) => - dval ds
  | Some (_, _, ds) => dval ds
  | None => 0
  end.

Lemma dchar_not_sign d : is_dig d = true -> (b2z (dchar d) =? 45) = false /\ (b2z (dchar d) =? 43) = false.
Proof.
  intros H. rewrite (dchar_val d H). unfold is_dig in H. apply andb_true_iff in H as [H1 H2].
  apply Z.leb_le in H1, H2. split; apply Z.eqb_neq; lia.
Qed.

Lemma scan_exp_spell ex : match ex with Some (_, _, ds) => wf_digits1 ds = true | None => True end ->
  scan_exp (exp_text ex) = Some (match ex with Some _ => Some (exp_val ex) | None => None end, []).
Proof.
  intros H. destruct ex as [[[up sg] ds]|]; [|reflexivity].
  apply wf_digits1_inv in H as [Hd (d & r & ->)].
  assert (Hs : span_digits (map dchar (d :: r)) = (map dchar (d :: r), [])).
  { rewrite <- (app_nil_r (map dchar (d :: r))) at 1. apply span_digits_app; [exact Hd|reflexivity]. }
  assert (Hv : digits_val (map dchar (d :: r)) = dval (d :: r)) by (apply digits_val_dval; exact Hd).
  assert (Hd1 : is_dig d = true) by (cbn [forallb] in Hd; apply andb_true_iff in Hd; tauto).
  destruct (dchar_not_sign d Hd1) as [N1 N2].
  unfold exp_text, exp_val. norm_T.
  destruct up; destruct sg as [[|]|]; cbn [app scan_exp];
    repeat match goal with
    | |- context [b2z "E"%byte =? 101] => change (b2z "E"%byte =? 101) with false
    | |- context [b2z "E"%byte =? 69] => change (b2z "E"%byte =? 69) with true
    | |- context [b2z "e"%byte =? 101] => change (b2z "e"%byte =? 101) with true
    | |- context [b2z "-"%byte =? 45] => change (b2z "-"%byte =? 45) with true
    | |- context [b2z "+"%byte =? 45] => change (b2z "+"%byte =? 45) with false
    | |- context [b2z "+"%byte =? 43] => change (b2z "+"%byte =? 43) with true
    end; cbn [orb]; cbv iota;
    try (cbn [map] in *; rewrite ?N1, ?N2); try rewrite Hs; try rewrite Hv; reflexivity.
Qed.

Lemma exp_text_start ex : match ex with Some (_, _, ds) => wf_digits1 ds = true | None => True end ->
  starts_nondigit (exp_text ex) = true /\
  (match exp_text ex with c :: _ => negb (b2z c =? 46) | [] => true end) = true.
Proof.
  intros _. destruct ex as [[[up sg] ds]|]; [|split; reflexivity].
  unfold exp_text. norm_T. destruct up; split; reflexivity.
Qed.

Lemma wf_int_inv ip : wf_int ip = true ->
  forallb is_dig ip = true /\ exists d r, ip = d :: r /\ is_dig d = true /\ (r = [] \/ d <> 0).
Proof.
  unfold wf_int. intros H. apply andb_true_iff in H as [H1 H2]. split; [exact H1|].
  destruct ip as [|d r]; [discriminate H2|]. exists d, r. split; [reflexivity|].
  split; [cbn [forallb] in H1; apply andb_true_iff in H1; tauto|].
  destruct r as [|d' r']; [left; reflexivity|right]. apply negb_true_iff in H2. apply Z.eqb_neq in H2. exact H2.
Qed.

Theorem scan_spell s : wf_spelling s = true -> scan_number (spell s) = Some (pynum_of_spelling s).
Proof.
  destruct s as [neg ip fp ex]. unfold wf_spelling. cbn [sp_int sp_frac sp_exp]. intros H.
  apply andb_true_iff in H as [H Hex]. apply andb_true_iff in H as [Hip Hfp].
  assert (Hex' : match ex with Some (_, _, ds) => wf_digits1 ds = true | None => True end).
  { destruct ex as [[[? ?] ?]|]; [exact Hex|exact I]. }
  assert (Hfp' : match fp with Some f => wf_digits1 f = true | None => True end).
  { destruct fp; [exact Hfp|exact I]. }
  clear Hex Hfp.
  destruct (wf_int_inv ip Hip) as (Hd & d0 & r0 & -> & Hd0 & Hlead).
  destruct (exp_text_start ex Hex') as [Hs1 Hs2].
  set (fracT := match fp with Some f => T "." ++ map dchar f | None => [] end).
  assert (Hspell : spell {| sp_neg := neg; sp_int := d0 :: r0; sp_frac := fp; sp_exp := ex |}
                   = (if neg then T "-" else []) ++ map dchar (d0 :: r0) ++ fracT ++ exp_text ex) by reflexivity.
  rewrite Hspell. clear Hspell.
  unfold scan_number.
  (* sign *)
  assert (Hsign : scan_sign ((if neg then T "-" else []) ++ map dchar (d0 :: r0) ++ fracT ++ exp_text ex)
                  = (neg, map dchar (d0 :: r0) ++ fracT ++ exp_text ex)).
  { destruct neg.
    - norm_T. reflexivity.
    - cbn [app map scan_sign]. destruct (dchar_not_sign d0 Hd0) as [N _]. rewrite N. reflexivity. }
  rewrite Hsign. clear Hsign.
  (* integer part *)
  assert (Hnd : starts_nondigit (fracT ++ exp_text ex) = true).
  { subst fracT. destruct fp; [norm_T; reflexivity|exact Hs1]. }
  rewrite (span_digits_app (d0 :: r0) _ Hd Hnd).
  cbn [map]. rewrite (dchar_val d0 Hd0).
  assert (Hlz : ((48 + d0 =? 48) && negb (is_nil (map dchar r0))) = false).
  { destruct Hlead as [-> | Hn]; [cbn; apply andb_false_r|].
    replace (48 + d0 =? 48) with false; [reflexivity|]. symmetry. apply Z.eqb_neq. lia. }
  rewrite Hlz. clear Hlz.
  (* fraction, exponent *)
  subst fracT. rewrite (scan_frac_spell fp (exp_text ex) Hfp' Hs1 Hs2).
  rewrite (scan_exp_spell ex Hex'). cbn [is_nil negb].
  change (dchar d0 :: map dchar r0) with (map dchar (d0 :: r0)).
  unfold pynum_of_spelling. cbn [sp_int sp_frac sp_exp sp_neg exp_value].
  change (exp_value {| sp_neg := neg; sp_int := d0 :: r0; sp_frac := fp; sp_exp := ex |}) with (exp_val ex).
  assert (Hall : forall f, forallb is_dig f = true ->
            digits_val (map dchar (d0 :: r0) ++ map dchar f) = dval ((d0 :: r0) ++ f)).
  { intros f Hf. rewrite <- map_app. apply digits_val_dval. rewrite forallb_app, Hd, Hf. reflexivity. }
  destruct fp as [f|]; destruct ex as [[[up sg] ds]|].
  - apply wf_digits1_inv in Hfp' as [Hf _]. rewrite (Hall f Hf), map_dchar_length. reflexivity.
  - apply wf_digits1_inv in Hfp' as [Hf _]. rewrite (Hall f Hf), map_dchar_length. reflexivity.
  - f_equal. f_equal. exact (Hall [] eq_refl).
  - rewrite digits_val_dval by exact Hd. reflexivity.
Qed.

(* ... and that Python number has the spelled value *)
Lemma pynum_of_spelling_value s : wf_spelling s = true -> (pynum_q (pynum_of_spelling s) == spell_value s)%Q.
Proof.
  destruct s as [neg ip fp ex]. intros H.
  unfold pynum_of_spelling, spell_value, mantissa_value. cbn [sp_int sp_frac sp_exp sp_neg].
  set (E := exp_value {| sp_neg := neg; sp_int := ip; sp_frac := fp; sp_exp := ex |}).
  assert (HE0 : fp = None -> ex = None -> E = 0) by (intros -> ->; reflexivity).
  destruct fp as [f|].
  - cbn [pynum_q]. rewrite dval_app.
    replace (E - lenZ f) with (E + - lenZ f) by lia. rewrite pow10q_plus.
    rewrite pow10q_neg by (unfold lenZ; lia).
    rewrite inject_Z_plus, inject_Z_mult.
    assert (Hnz : ~ (inject_Z (10 ^ lenZ f) == 0)%Q).
    { apply inject_Z_nonzero. pose proof (pow10_gt0 (lenZ f)). unfold lenZ in *. lia. }
    destruct neg; field; exact Hnz.
  - destruct ex as [e|].
    + cbn [pynum_q]. rewrite app_nil_r. change (lenZ (@nil Z)) with 0. rewrite Z.sub_0_r.
      destruct neg; ring.
    + rewrite (HE0 eq_refl eq_refl). cbn [pynum_q]. change (pow10q 0) with (inject_Z 1).
      destruct neg; [rewrite inject_Z_opp|]; ring.
Qed.
