(* Proofs/CheckTx.v – C16, transaction level: the model of CheckTransaction decides the
   reference predicate valid_tx, and every error it raises is in the validation family.
   [decides r P]: the check r accepts exactly when P holds and otherwise raises an error of
   the ValidationError family – the shape of every lemma of the C16 development. *)
From BV Require Import Common.Base Common.PyList Common.Codec Common.Tx Gen.Core.
From BV Require Import Spec.Wire Spec.Script Spec.Check.
From BV Require Import Model.Wire Model.Ident Model.Script Model.Check.
From BV Require Import Proofs.Wire Proofs.Ident Proofs.ScriptPred.

Definition decides (r : res unit) (P : Prop) : Prop :=
  (r = Ok tt /\ P) \/ (exists e, r = Err e /\ is_validation e = true /\ ~ P).

Lemma decides_ok r P : decides r P -> (r = Ok tt <-> P).
Proof.
  intros [[E p] | [e [E [_ np]]]]; split; intros X; auto; try congruence; try contradiction.
Qed.
Lemma decides_err r P e : decides r P -> r = Err e -> is_validation e = true.
Proof. intros [[E _] | [e' [E [V _]]]] E2; congruence. Qed.
Lemma decides_iff r P Q : (P <-> Q) -> decides r P -> decides r Q.
Proof. intros I [[E p] | [e [E [V np]]]]; [left | right; exists e]; tauto. Qed.
Lemma decides_cases r P : decides r P -> r = Ok tt \/ exists e, r = Err e /\ is_validation e = true.
Proof. intros [[E _] | [e [E [V _]]]]; [left | right; exists e]; auto. Qed.

Ltac accept := left; split; [reflexivity|].
Ltac reject := right; eexists; split; [reflexivity | split; [reflexivity|]].

(* ---------- small bridges ---------- *)
Lemma gtb_false a b : (a >? b) = false <-> a <= b.
Proof. rewrite Z.gtb_ltb, Z.ltb_ge. tauto. Qed.
Lemma gtb_true a b : (a >? b) = true <-> b < a.
Proof. rewrite Z.gtb_ltb, Z.ltb_lt. tauto. Qed.

Lemma app_inj_len {A} : forall (a c b d : list A), length a = length c -> a ++ b = c ++ d -> a = c /\ b = d.
Proof.
  induction a as [|x a IH]; intros [|y c] b d L E; try discriminate; [auto|].
  cbn [app] in E. injection E as -> E. injection L as L. destruct (IH c b d L E) as [-> ->]. auto.
Qed.
Lemma le_enc_inj n a b : 0 <= a < 256 ^ Z.of_nat n -> 0 <= b < 256 ^ Z.of_nat n -> le_enc n a = le_enc n b -> a = b.
Proof. intros Ha Hb E. rewrite <- (le_dec_enc n a Ha), <- (le_dec_enc n b Hb), E. reflexivity. Qed.

(* COutPoint.__eq__ (equality of serialisations) is equality of the fields, in wire range *)
Lemma outpoint_eq_iff a b : wf_outpoint a -> wf_outpoint b -> (outpoint_eq a b = true <-> a = b).
Proof.
  intros [La Ra] [Lb Rb]. unfold outpoint_eq. rewrite (enc_outpoint a), (enc_outpoint b), bytes_eqb_eq. unfold wire_outpoint, u. split.
  - intros E. apply app_inj_len in E as [E1 E2]; [|now rewrite La, Lb]. apply le_enc_inj in E2; [|exact Ra|exact Rb].
    destruct a, b. simpl in *. congruence.
  - intros ->. reflexivity.
Qed.
Lemma outpoint_is_null_eq o : outpoint_is_null o = null_outpointb o.
Proof. reflexivity. Qed.

Lemma lenZ_cons {A} (x : A) l : lenZ (x :: l) = 1 + lenZ l.
Proof. unfold lenZ. cbn [length]. lia. Qed.
Lemma lenZ_nonneg {A} (l : list A) : 0 <= lenZ l.
Proof. unfold lenZ. lia. Qed.
Lemma py_nth_0 {A} (x : A) l : py_nth (x :: l) 0 = Ok x.
Proof. apply py_nth_in_range; [unfold len; cbn [length]; lia | reflexivity]. Qed.

Lemma is_coinbase_eq t : is_coinbase t = Ok (coinbaseb t).
Proof.
  unfold is_coinbase, coinbaseb. destruct (tx_vin t) as [|x [|y r]].
  - reflexivity.
  - change (lenZ [x] =? 1) with true. cbn [negb]. rewrite py_nth_0. reflexivity.
  - rewrite !lenZ_cons. pose proof (lenZ_nonneg r). destruct (Z.eqb_spec (1 + (1 + lenZ r)) 1); [lia | reflexivity].
Qed.

(* ---------- the three loops ---------- *)
Lemma check_values_dec cp : forall vout acc,
  decides (check_values cp vout acc)
    (Forall (in_money cp) (map to_value vout) /\ Forall (in_money cp) (running_totals acc (map to_value vout))).
Proof.
  induction vout as [|o r IH]; intros acc; cbn [check_values map running_totals].
  - accept. split; constructor.
  - destruct (Z.ltb_spec (to_value o) 0) as [N|N].
    { reject. intros [F _]. inversion F as [|? ? [? ?] ?]. lia. }
    destruct (to_value o >? cp_max_money cp) eqn:G.
    { apply gtb_true in G. reject. intros [F _]. inversion F as [|? ? [? ?] ?]. lia. }
    apply gtb_false in G. unfold money_range.
    destruct (Z.leb_spec 0 (acc + to_value o)) as [A|A]; cbn [andb negb].
    2:{ reject. intros [_ F]. inversion F as [|? ? [? ?] ?]. lia. }
    destruct (Z.leb_spec (acc + to_value o) (cp_max_money cp)) as [B|B]; cbn [negb].
    2:{ reject. intros [_ F]. inversion F as [|? ? [? ?] ?]. lia. }
    eapply decides_iff; [|apply IH]. split.
    + intros [F1 F2]. split; constructor; auto; split; lia.
    + intros [F1 F2]. inversion F1. inversion F2. auto.
Qed.

Lemma check_dup_dec : forall vin seen,
  Forall wf_outpoint (map ti_prevout vin) -> Forall wf_outpoint seen ->
  decides (check_dup_inputs vin seen)
    (NoDup (map ti_prevout vin) /\ forall x, In x (map ti_prevout vin) -> ~ In x seen).
Proof.
  induction vin as [|i r IH]; intros seen W Ws; cbn [check_dup_inputs map].
  - accept. split; [constructor | intros x []].
  - inversion W as [|? ? Wi Wr]; subst.
    destruct (existsb (outpoint_eq (ti_prevout i)) seen) eqn:X.
    + reject. apply existsb_exists in X as [y [I E]].
      apply outpoint_eq_iff in E; [|exact Wi|]. 2:{ rewrite Forall_forall in Ws. auto. }
      subst y. intros [_ F]. apply (F (ti_prevout i)); [left; reflexivity | exact I].
    + assert (NI : ~ In (ti_prevout i) seen).
      { intros I. assert (existsb (outpoint_eq (ti_prevout i)) seen = true); [|congruence].
        apply existsb_exists. exists (ti_prevout i). split; [exact I|]. apply outpoint_eq_iff; auto. }
      eapply decides_iff; [|apply (IH (ti_prevout i :: seen) Wr)]; [|constructor; assumption]. split.
      * intros [D F]. split.
        -- constructor; [|exact D]. intros I. apply (F _ I). left. reflexivity.
        -- intros x [<- | I]; [exact NI|]. intros Is. apply (F x I). right. exact Is.
      * intros [D F]. inversion D as [|? ? N D']; subst. split; [exact D'|].
        intros x I [<- | Is]; [contradiction|]. apply (F x); [right; exact I | exact Is].
Qed.

Lemma check_no_null_dec vin :
  decides (check_no_null vin) (Forall (fun x => ~ null_outpoint (ti_prevout x)) vin).
Proof.
  induction vin as [|i r IH]; cbn [check_no_null].
  - accept. constructor.
  - rewrite outpoint_is_null_eq. destruct (null_outpointb (ti_prevout i)) eqn:N.
    + apply null_outpointb_iff in N. reject. intros F. inversion F. contradiction.
    + eapply decides_iff; [|exact IH]. split.
      * intros F. constructor; [|exact F]. rewrite <- null_outpointb_iff. congruence.
      * intros F. inversion F. assumption.
Qed.

(* ---------- CheckTransaction ---------- *)
Lemma in_u4 v : in_u 4 v <-> 0 <= v <= 0xffffffff.
Proof. unfold in_u. change (256 ^ Z.of_nat 4) with 4294967296. lia. Qed.

Theorem check_tx_dec cp t : tx_in_range t -> decides (check_tx cp t) (valid_tx cp t).
Proof.
  intros (_ & Wi & _ & Wl & _). unfold check_tx, valid_tx.
  destruct (tx_vin t) as [|i0 ri] eqn:Evin; cbn [is_nil]. { reject. intros [X _]. congruence. }
  destruct (tx_vout t) as [|o0 ro] eqn:Evout; cbn [is_nil]. { reject. intros (_ & X & _). congruence. }
  apply in_u4 in Wl. destruct (Z.leb_spec 0 (tx_lock t)); [|lia]. destruct (Z.leb_spec (tx_lock t) 0xffffffff); [|lia].
  cbn [andb bind]. rewrite ser_tx_nowit. cbn [bind]. unfold MAX_BLOCK_SIZE.
  destruct (lenZ (wire_tx_stripped t) >? 1000000) eqn:G.
  { apply gtb_true in G. reject. intros (_ & _ & X & _). lia. }
  apply gtb_false in G.
  destruct (check_values_dec cp (o0 :: ro) 0) as [[-> [V1 V2]] | [e [-> [V nV]]]].
  2:{ right. exists e. split; [reflexivity|]. split; [exact V|]. intros (_ & _ & _ & A & B & _). apply nV. auto. }
  cbn [bind].
  assert (Wp : Forall wf_outpoint (map ti_prevout (i0 :: ri))).
  { apply Forall_forall. intros x I. apply in_map_iff in I as [y [<- I]].
    rewrite Forall_forall in Wi. apply Wi. exact I. }
  destruct (check_dup_dec (i0 :: ri) [] Wp (Forall_nil _)) as [[-> [D _]] | [e [-> [V nV]]]].
  2:{ right. exists e. split; [reflexivity|]. split; [exact V|]. intros (_ & _ & _ & _ & _ & A & _). apply nV.
      split; [exact A | intros x _ []]. }
  cbn [bind]. rewrite is_coinbase_eq. cbn [bind].
  destruct (coinbaseb t) eqn:C.
  - pose proof C as C'. apply coinbaseb_iff in C'. unfold coinbaseb in C. rewrite Evin in C.
    destruct ri as [|i1 ri]; [|discriminate].
    rewrite py_nth_0. cbn [bind].
    destruct (Z.leb_spec 2 (lenZ (ti_script i0))) as [A|A]; cbn [andb negb].
    2:{ reject. intros (_ & _ & _ & _ & _ & _ & X & _). specialize (X C' i0 (or_introl eq_refl)). lia. }
    destruct (Z.leb_spec (lenZ (ti_script i0)) 100) as [B|B]; cbn [negb].
    2:{ reject. intros (_ & _ & _ & _ & _ & _ & X & _). specialize (X C' i0 (or_introl eq_refl)). lia. }
    accept. split; [discriminate|]. split; [discriminate|]. split; [exact G|]. split; [exact V1|].
    split; [exact V2|]. split; [exact D|]. split.
    + intros _ x [<- | []]. lia.
    + intros N. contradiction.
  - apply coinbaseb_false_iff in C.
    destruct (check_no_null_dec (i0 :: ri)) as [[-> F] | [e [-> [V nV]]]].
    + accept. split; [discriminate|]. split; [discriminate|]. split; [exact G|]. split; [exact V1|].
      split; [exact V2|]. split; [exact D|]. split; [intros X; contradiction | intros _; exact F].
    + right. exists e. split; [reflexivity|]. split; [exact V|]. intros (_ & _ & _ & _ & _ & _ & _ & X). auto.
Qed.

(* ---------- legacy sigops ---------- *)
Lemma add_sigops_eq : forall scripts n, add_sigops scripts n = Ok (n + zsum (map (ref_sigops false) scripts)).
Proof.
  induction scripts as [|s r IH]; intros n; cbn [add_sigops map zsum fold_right].
  - f_equal. lia.
  - rewrite get_sigop_count_spec. cbn [bind]. rewrite IH. f_equal. fold (zsum (map (ref_sigops false) r)). lia.
Qed.
Lemma legacy_sigops_eq t : get_legacy_sigop_count t = Ok (tx_sigops t).
Proof. unfold get_legacy_sigop_count, tx_sigops. rewrite add_sigops_eq. cbn [bind]. rewrite add_sigops_eq. f_equal. Qed.

Lemma ref_sigops_ops_nonneg : forall ops last, 0 <= ref_sigops_ops false ops last.
Proof.
  induction ops as [|o r IH]; intros last; cbn [ref_sigops_ops andb]; [lia|].
  specialize (IH (sop_opcode o)).
  destruct ((sop_opcode o =? 172) || (sop_opcode o =? 173)); [lia|].
  destruct ((sop_opcode o =? 174) || (sop_opcode o =? 175)); lia.
Qed.
Lemma ref_sigops_nonneg s : 0 <= ref_sigops false s.
Proof. apply ref_sigops_ops_nonneg. Qed.
Lemma zsum_nonneg l : Forall (fun v => 0 <= v) l -> 0 <= zsum l.
Proof. induction 1; cbn [zsum fold_right]; [lia|]. fold (zsum l). lia. Qed.
Lemma tx_sigops_nonneg t : 0 <= tx_sigops t.
Proof.
  unfold tx_sigops.
  assert (X : forall l, 0 <= zsum (map (ref_sigops false) l)).
  { intros l. apply zsum_nonneg. apply Forall_forall. intros v I. apply in_map_iff in I as [s [<- _]]. apply ref_sigops_nonneg. }
  pose proof (X (map ti_script (tx_vin t))). pose proof (X (map to_script (tx_vout t))). lia.
Qed.
