(* Proofs/P2P.v – C18, payload level: every payload codec of Model/P2P.v is lawful
   (composition of the generic laws of Common/Codec.v; fails to type-check when a
   regenerated format differs between the write and the read side), msg_version.msg_deser
   coincides with a plain sequential codec on each nVersion range, the encoders emit the
   SPEC layouts (outside the two recorded deviations), and the SPEC range predicates imply
   the codecs' well-formedness. *)
From BV Require Import Common.Base Common.Codec Common.Tx Common.P2PMsg Gen.Core Gen.Layouts Gen.P2P
  Spec.Wire Spec.P2P Model.Wire Model.P2P Proofs.Wire.

(* ---------- generic helpers (would live in Common/Codec.v) ---------- *)
Lemma fmt_codec_lawful f : (0 < f_width f)%nat -> lawful (fmt_codec f).
Proof. intros H. unfold fmt_codec. destruct (f_signed f); [now apply le_int_lawful | now apply le_uint_lawful]. Qed.
Lemma fmt_codec_enc_length f v : length (enc (fmt_codec f) v) = f_width f.
Proof. unfold fmt_codec. destruct (f_signed f); cbn [enc le_int le_uint]; [unfold le_enc_signed|]; apply le_enc_length. Qed.
Lemma fmt_codec_norm f v : norm (fmt_codec f) v = v.
Proof. unfold fmt_codec. destruct (f_signed f); reflexivity. Qed.

Lemma be_codec_lawful f : (0 < f_width f)%nat -> lawful (be_codec f).
Proof.
  intros Hw. destruct (fmt_codec_lawful f Hw) as [rt tr er pr ne]. split.
  - intros v rest Hv. cbn [be_codec wf enc decode norm] in *.
    rewrite take_n_app by (rewrite rev_length; apply fmt_codec_enc_length). cbn [bind fst snd].
    rewrite rev_involutive. pose proof (rt v [] Hv) as R. rewrite app_nil_r in R. rewrite R. cbn [bind fst snd].
    now rewrite fmt_codec_norm.
  - intros v p q Hv E NE. cbn [be_codec wf enc decode norm] in *. rewrite take_n_short; [reflexivity|].
    apply (f_equal (@length _)) in E. rewrite rev_length, fmt_codec_enc_length, app_length in E.
    destruct q; [congruence|simpl in E; lia].
  - intros b e E. cbn [be_codec decode] in E.
    destruct (take_n (f_width f) b) as [[x r]|e1] eqn:T; cbn [bind fst snd] in E.
    + destruct (decode (fmt_codec f) (rev x)) as [[v r']|e2] eqn:D; cbn [bind] in E; [discriminate|].
      injection E as <-. eapply er; exact D.
    + injection E as <-. left. eapply take_n_err; exact T.
  - intros b a r E. cbn [be_codec decode] in E.
    destruct (take_n (f_width f) b) as [[x r1]|] eqn:T; cbn [bind fst snd] in E; [|discriminate].
    destruct (decode (fmt_codec f) (rev x)) as [[v r']|]; cbn [bind fst snd] in E; [|discriminate].
    injection E as <- <-. apply take_n_ok in T as [-> L]. rewrite app_length. lia.
  - intros v Hv. cbn [be_codec enc]. intros E. apply (f_equal (@length _)) in E.
    rewrite rev_length, fmt_codec_enc_length in E. simpl in E. lia.
Qed.
Definition pf_width (p : pfmt) : nat := match p with LE f | BE f => f_width f | CH => 0 end.
Lemma pf_codec_lawful p : (0 < pf_width p)%nat -> lawful (pf_codec p).
Proof. destruct p; cbn [pf_width pf_codec]; intros H; [now apply fmt_codec_lawful | now apply be_codec_lawful | lia]. Qed.
Lemma pfield_lawful p : (0 < pf_width p)%nat -> lawful (pfield p p).
Proof.
  intros H. destruct (pf_codec_lawful p H) as [rt tr er pr ne]. split.
  - intros v rest Hv. cbn [pfield wf enc decode norm] in *. rewrite (rt v rest Hv). f_equal. f_equal.
    destruct p as [f|f|]; cbn [pf_codec be_codec norm]; [apply fmt_codec_norm|reflexivity|reflexivity].
  - exact tr.
  - exact er.
  - exact pr.
  - exact ne.
Qed.

(* a codec that is another lawful codec up to repackaging, on the values it is defined on *)
Lemma lawful_transfer {A B} (c : codec A) (c' : codec B) (g : B -> A) (f : A -> B) :
  lawful c ->
  (forall b, wf c' b -> wf c (g b)) ->
  (forall b, wf c' b -> enc c' b = enc c (g b)) ->
  (forall x, decode c' x = do ar <- decode c x; Ok (f (fst ar), snd ar)) ->
  (forall b, wf c' b -> norm c' b = f (norm c (g b))) ->
  lawful c'.
Proof.
  intros [rt tr er pr ne] Hw He Hd Hn. split.
  - intros b rest W. rewrite He, Hd, rt by auto. cbn [bind fst snd]. now rewrite Hn.
  - intros b p q W E NE. rewrite Hd. rewrite He in E by assumption. rewrite (tr _ _ _ (Hw b W) E NE). reflexivity.
  - intros x e E. rewrite Hd in E. destruct (decode c x) eqn:D; cbn [bind] in E; [discriminate|]. injection E as <-. eapply er; exact D.
  - intros x b r E. rewrite Hd in E. destruct (decode c x) as [[a r']|] eqn:D; cbn [bind fst snd] in E; [|discriminate].
    injection E as <- <-. eapply pr; exact D.
  - intros b W. rewrite He by assumption. apply ne. auto.
Qed.

Lemma app_eq_len {A} (a b x y : list A) : length a = length b -> a ++ x = b ++ y -> a = b /\ x = y.
Proof.
  revert b. induction a as [|h a IH]; intros [|h' b] L E; simpl in L; try discriminate.
  - split; [reflexivity|exact E].
  - injection E as -> E. destruct (IH b) as [-> ->]; [lia|exact E|]. split; reflexivity.
Qed.

(* ---------- slices ---------- *)
Lemma lenZ_app {A} (a b : list A) : lenZ (a ++ b) = lenZ a + lenZ b.
Proof. unfold lenZ. rewrite app_length. lia. Qed.
Lemma lenZ_nonneg {A} (a : list A) : 0 <= lenZ a.
Proof. unfold lenZ. lia. Qed.
Lemma py_slice_mid pre x post lo hi : lenZ pre = lo -> lenZ x = hi - lo ->
  py_slice lo hi (pre ++ x ++ post) = x.
Proof.
  intros Hp Hx. unfold py_slice. rewrite !lenZ_app.
  pose proof (lenZ_nonneg pre). pose proof (lenZ_nonneg x). pose proof (lenZ_nonneg post).
  destruct (Z.ltb_spec hi 0); [lia|].
  rewrite (Z.min_l hi) by lia. rewrite (Z.min_l lo) by lia.
  destruct (Z.leb_spec hi lo).
  - destruct x; [reflexivity|]. unfold lenZ in Hx. simpl length in Hx. lia.
  - replace (Z.to_nat lo) with (length pre) by (unfold lenZ in *; lia).
    replace (Z.to_nat (hi - lo)) with (length x) by (unfold lenZ in *; lia).
    rewrite skipn_app, skipn_all, Nat.sub_diag. cbn [skipn app].
    rewrite firstn_app, firstn_all, Nat.sub_diag. cbn [firstn]. now rewrite app_nil_r.
Qed.
Lemma py_slice_head x post hi : lenZ x = hi -> py_slice 0 hi (x ++ post) = x.
Proof. intros Hx. apply (py_slice_mid [] x post 0 hi); [reflexivity|lia]. Qed.

(* ---------- net.py codecs ---------- *)
Lemma max_size_pos : 0 <= MAX_SIZE < 2^64.
Proof. exact max_size_ok. Qed.
Lemma varstr_lawful : lawful varstr_c.
Proof. apply varbytes_lawful. exact max_size_ok. Qed.

Lemma ip_enc_length ip : length ip = 4%nat \/ length ip = 16%nat -> length (ip_enc ip) = 16%nat.
Proof.
  intros [E|E]; unfold ip_enc; rewrite E; cbn [Nat.eqb]; [|assumption].
  rewrite app_length, E. reflexivity.
Qed.
Lemma ip_lawful : lawful ip_c.
Proof.
  split.
  - intros ip rest W. cbn [ip_c wf enc decode norm] in *. change (nth_raw 2 raw_CAddress_deser) with 16%nat.
    rewrite take_n_app by now apply ip_enc_length. reflexivity.
  - intros ip p q W E NE. cbn [ip_c wf enc decode norm] in *. change (nth_raw 2 raw_CAddress_deser) with 16%nat.
    rewrite take_n_short; [reflexivity|]. apply (f_equal (@length _)) in E.
    rewrite ip_enc_length, app_length in E by assumption. destruct q; [congruence|simpl in E; lia].
  - intros b e E. cbn [ip_c decode] in E. destruct (take_n _ b) eqn:T; cbn [bind] in E; [discriminate|].
    injection E as <-. left. eapply take_n_err; exact T.
  - intros b a r E. cbn [ip_c decode] in E. change (nth_raw 2 raw_CAddress_deser) with 16%nat in E.
    destruct (take_n 16 b) as [[x r1]|] eqn:T; cbn [bind fst snd] in E; [|discriminate].
    injection E as <- <-. apply take_n_ok in T as [-> L]. rewrite app_length. lia.
  - intros ip W. cbn [ip_c enc wf] in *. intros E. apply (f_equal (@length _)) in E.
    rewrite ip_enc_length in E by assumption. discriminate.
Qed.
Lemma netaddr_lawful : lawful netaddr_c.
Proof.
  apply map_iso_lawful, seq_lawful; [apply (pfield_lawful (LE U64)); simpl; lia|].
  apply seq_lawful; [exact ip_lawful | apply (pfield_lawful (BE U16)); simpl; lia].
Qed.
Lemma has_time_default : has_time PROTO_VERSION false = true.
Proof. reflexivity. Qed.
Lemma taddr_lawful : lawful taddr_c.
Proof.
  apply (lawful_transfer (seq caddr_time_c netaddr_c) taddr_c
           (fun a => (ta_time a, ta_addr a))
           (fun p => {| ta_protover := PROTO_VERSION; ta_time := fst p; ta_addr := snd p |})).
  - apply seq_lawful; [apply (pfield_lawful (LE U32)); simpl; lia | exact netaddr_lawful].
  - intros a (_ & W1 & W2). split; assumption.
  - intros a (Wp & _ & _). cbn [taddr_c enc seq fst snd]. unfold caddr_enc, has_time.
    rewrite Z.geb_leb. destruct (Z.leb_spec CADDR_TIME_VERSION (ta_protover a)); [reflexivity|lia].
  - intros x. cbn [taddr_c decode seq]. unfold caddr_dec. rewrite has_time_default.
    destruct (decode caddr_time_c x) as [[t r]|]; cbn [bind fst snd]; [|reflexivity].
    destruct (decode netaddr_c r) as [[a r']|]; reflexivity.
  - intros a _. reflexivity.
Qed.
Lemma hash32_lawful k l : nth_raw k l = 32%nat -> lawful (hash_c k l).
Proof. intros E. unfold hash_c. rewrite E. apply raw_lawful. lia. Qed.
Lemma inv_lawful : lawful inv_c.
Proof.
  apply map_iso_lawful, seq_lawful; [apply (pfield_lawful (LE I32)); simpl; lia | now apply hash32_lawful].
Qed.
Lemma u256vec_lawful : lawful u256vec_c.
Proof. apply vector_lawful. now apply hash32_lawful. Qed.
Lemma locator_lawful : lawful locator_c.
Proof. apply map_iso_lawful, seq_lawful; [apply (pfield_lawful (LE I32)); simpl; lia | exact u256vec_lawful]. Qed.
Lemma getblocks_lawful : lawful (getblocks_c raw_msg_getblocks_deser).
Proof. apply seq_lawful; [exact locator_lawful | now apply hash32_lawful]. Qed.
Lemma getheaders_lawful : lawful (getblocks_c raw_msg_getheaders_deser).
Proof. apply seq_lawful; [exact locator_lawful | now apply hash32_lawful]. Qed.
Lemma alert_lawful : lawful alert_c.
Proof. apply seq_lawful; exact varstr_lawful. Qed.
Lemma reject_lawful : lawful reject_c.
Proof.
  apply seq_lawful; [exact varstr_lawful|]. apply seq_lawful; [|exact varstr_lawful].
  change (chfield _ _) with (raw 1). apply raw_lawful. lia.
Qed.
Lemma ping_lawful : lawful ping_c.
Proof. apply (pfield_lawful (LE U64)). simpl. lia. Qed.
Lemma pong_lawful : lawful pong_c.
Proof. apply (pfield_lawful (LE U64)). simpl. lia. Qed.
Lemma headers_lawful : lawful headers_c.
Proof. apply vector_lawful, header_lawful. Qed.
Lemma addrvec_lawful : lawful (vector taddr_c).
Proof. apply vector_lawful, taddr_lawful. Qed.
Lemma invvec_lawful : lawful (vector inv_c).
Proof. apply vector_lawful, inv_lawful. Qed.

(* ---------- msg_version ---------- *)
Definition vtuple : Type := Z * (Z * (Z * (netaddr * (netaddr * (Z * (bytes * (Z * Z))))))).
Definition version_full_c : codec vtuple :=
  seq (vf 0) (seq (vf 1) (seq (vf 2) (seq netaddr_c (seq netaddr_c (seq (vf 3) (seq varstr_c (seq (vf 4) (vf 5)))))))).
Definition ltuple : Type := Z * (Z * (Z * (netaddr * (netaddr * (Z * (bytes * Z)))))).
Definition version_low_c : codec ltuple :=
  seq (vf 0) (seq (vf 1) (seq (vf 2) (seq netaddr_c (seq netaddr_c (seq (vf 3) (seq varstr_c (vf 4))))))).
Definition of_vtuple (t : vtuple) : version_msg :=
  let '(nv, (sv, (tm, (a, (f, (n, (u, (h, r)))))))) := t in
  {| v_version := nv; v_services := sv; v_time := tm; v_to := a; v_from := Some f; v_nonce := Some n;
     v_subver := Some u; v_height := Some h; v_relay := r |}.
Definition of_ltuple (t : ltuple) : version_msg :=
  let '(nv, (sv, (tm, (a, (f, (n, (u, h))))))) := t in
  {| v_version := nv; v_services := sv; v_time := tm; v_to := a; v_from := Some f; v_nonce := Some n;
     v_subver := Some u; v_height := Some h; v_relay := ver_relay_default |}.
Lemma vf_lawful k : (k < 6)%nat -> lawful (vf k).
Proof.
  intros Hk. destruct k as [|[|[|[|[|[|k]]]]]]; try lia;
    [apply (pfield_lawful (LE I32))|apply (pfield_lawful (LE U64))|apply (pfield_lawful (LE I64))
    |apply (pfield_lawful (LE U64))|apply (pfield_lawful (LE I32))|apply (pfield_lawful (LE U8))]; simpl; lia.
Qed.
Lemma version_full_lawful : lawful version_full_c.
Proof.
  unfold version_full_c.
  repeat (apply seq_lawful; [first [apply vf_lawful; lia | exact netaddr_lawful | exact varstr_lawful]|]).
  apply vf_lawful; lia.
Qed.
Lemma version_low_lawful : lawful version_low_c.
Proof.
  unfold version_low_c.
  repeat (apply seq_lawful; [first [apply vf_lawful; lia | exact netaddr_lawful | exact varstr_lawful]|]).
  apply vf_lawful; lia.
Qed.

(* on streams whose first field is an nVersion >= 70001, msg_deser is the nine-field codec *)
Lemma version_dec_full b :
  (forall nv r, decode (vf 0) b = Ok (nv, r) -> ver_relay_min <= nv) ->
  version_dec b = do xr <- decode version_full_c b; Ok (of_vtuple (fst xr), snd xr).
Proof.
  intros Hv. unfold version_dec, version_full_c. cbn [seq decode].
  destruct (decode (vf 0) b) as [[nv r0]|e] eqn:D0; cbn [bind fst snd]; [|reflexivity].
  specialize (Hv nv r0 eq_refl). unfold ver_relay_min, ver_quirk_from, ver_addrfrom_min, ver_height_min in *.
  destruct (Z.eqb_spec nv 10300); [lia|].
  rewrite !Z.geb_leb.
  destruct (Z.leb_spec 106 nv); [|lia]. destruct (Z.leb_spec 209 nv); [|lia]. destruct (Z.leb_spec 70001 nv); [|lia].
  destruct (decode (vf 1) r0) as [[sv r1]|]; cbn [bind fst snd]; [|reflexivity].
  destruct (decode (vf 2) r1) as [[tm r2]|]; cbn [bind fst snd]; [|reflexivity].
  destruct (decode netaddr_c r2) as [[a r3]|]; cbn [bind fst snd]; [|reflexivity].
  destruct (decode netaddr_c r3) as [[f r4]|]; cbn [bind fst snd]; [|reflexivity].
  destruct (decode (vf 3) r4) as [[nn r5]|]; cbn [bind fst snd]; [|reflexivity].
  destruct (decode varstr_c r5) as [[u r6]|]; cbn [bind fst snd]; [|reflexivity].
  destruct (decode (vf 4) r6) as [[h r7]|]; cbn [bind fst snd]; [|reflexivity].
  destruct (decode (vf 5) r7) as [[rl r8]|]; cbn [bind fst snd]; reflexivity.
Qed.
(* for 209 <= nVersion < 70001 (other than 10300) it is the eight-field codec: the relay
   byte is not read and fRelay is set to True *)
Lemma version_dec_low b :
  (forall nv r, decode (vf 0) b = Ok (nv, r) -> ver_height_min <= nv < ver_relay_min /\ nv <> ver_quirk_from) ->
  version_dec b = do xr <- decode version_low_c b; Ok (of_ltuple (fst xr), snd xr).
Proof.
  intros Hv. unfold version_dec, version_low_c. cbn [seq decode].
  destruct (decode (vf 0) b) as [[nv r0]|e] eqn:D0; cbn [bind fst snd]; [|reflexivity].
  specialize (Hv nv r0 eq_refl). unfold ver_relay_min, ver_quirk_from, ver_addrfrom_min, ver_height_min in *.
  destruct (Z.eqb_spec nv 10300); [lia|].
  rewrite !Z.geb_leb.
  destruct (Z.leb_spec 106 nv); [|lia]. destruct (Z.leb_spec 209 nv); [|lia]. destruct (Z.leb_spec 70001 nv); [lia|].
  destruct (decode (vf 1) r0) as [[sv r1]|]; cbn [bind fst snd]; [|reflexivity].
  destruct (decode (vf 2) r1) as [[tm r2]|]; cbn [bind fst snd]; [|reflexivity].
  destruct (decode netaddr_c r2) as [[a r3]|]; cbn [bind fst snd]; [|reflexivity].
  destruct (decode netaddr_c r3) as [[f r4]|]; cbn [bind fst snd]; [|reflexivity].
  destruct (decode (vf 3) r4) as [[nn r5]|]; cbn [bind fst snd]; [|reflexivity].
  destruct (decode varstr_c r5) as [[u r6]|]; cbn [bind fst snd]; [|reflexivity].
  destruct (decode (vf 4) r6) as [[h r7]|]; cbn [bind fst snd]; reflexivity.
Qed.

(* the tuple of a version message whose optional fields are all present *)
Definition vtuple_of (v : version_msg) : option vtuple :=
  match v_from v, v_nonce v, v_subver v, v_height v with
  | Some f, Some n, Some u, Some h =>
      Some (v_version v, (v_services v, (v_time v, (v_to v, (f, (n, (u, (h, v_relay v))))))))
  | _, _, _, _ => None
  end.
Definition ltuple_of (t : vtuple) : ltuple :=
  let '(nv, (sv, (tm, (a, (f, (n, (u, (h, r)))))))) := t in (nv, (sv, (tm, (a, (f, (n, (u, h))))))).
Lemma version_enc_full v t : vtuple_of v = Some t -> version_enc v = enc version_full_c t.
Proof.
  unfold vtuple_of. destruct v as [nv sv tm a [f|] [n|] [u|] [h|] r]; cbn [v_from v_nonce v_subver v_height]; try discriminate.
  intros E. injection E as <-. reflexivity.
Qed.
Lemma version_enc_low v t : vtuple_of v = Some t ->
  version_enc v = enc version_low_c (ltuple_of t) ++ enc (vf 5) (v_relay v).
Proof.
  unfold vtuple_of. destruct v as [nv sv tm a [f|] [n|] [u|] [h|] r]; cbn [v_from v_nonce v_subver v_height]; try discriminate.
  intros E. injection E as <-. unfold version_enc, version_low_c. cbn [seq enc fst snd oenc ltuple_of
    v_version v_services v_time v_to v_from v_nonce v_subver v_height v_relay].
  rewrite <- !app_assoc. reflexivity.
Qed.
Lemma vf0_first nv tail x r : wf (vf 0) nv -> decode (vf 0) (enc (vf 0) nv ++ tail) = Ok (x, r) -> x = nv.
Proof.
  intros W E. rewrite (l_rt _ (vf_lawful 0 ltac:(lia)) nv tail W) in E. injection E as <- _. reflexivity.
Qed.
(* the first field read from a prefix of an encoding is the encoded nVersion *)
Lemma vf0_prefix nv tail p q x r : wf (vf 0) nv -> enc (vf 0) nv ++ tail = p ++ q ->
  decode (vf 0) p = Ok (x, r) -> x = nv.
Proof.
  intros W E D.
  assert (L : length (enc (vf 0) nv) = 4%nat) by apply le_enc_length.
  assert (D' := D). cbn [vf pfield decode] in D'. change (decode (pf_codec _) p) with (decode (le_int 4) p) in D'.
  cbn [le_int decode] in D'. destruct (take_n 4 p) as [[y r']|] eqn:T; cbn [bind fst snd] in D'; [|discriminate].
  apply take_n_ok in T as [-> Ly]. rewrite <- app_assoc in E.
  assert (Ey : enc (vf 0) nv = y) by (apply (app_eq_len _ _ _ _ (eq_trans L (eq_sym Ly)) E)).
  rewrite <- Ey in D. eapply vf0_first; eassumption.
Qed.

(* ---------- payload round trip (model level) ---------- *)
(* well-formedness of a message for the model's codecs *)
Definition wfm (m : msg) : Prop :=
  match m with
  | MVersion v => exists t, vtuple_of v = Some t /\ wf version_full_c t
  | MVerack | MGetaddr | MMempool => True
  | MAddr l => wf (vector taddr_c) l
  | MAlert a s => wf alert_c (a, s)
  | MInv l | MGetdata l | MNotfound l => wf (vector inv_c) l
  | MGetblocks loc stop => wf (getblocks_c raw_msg_getblocks_deser) (loc, stop)
  | MGetheaders loc stop => wf (getblocks_c raw_msg_getheaders_deser) (loc, stop)
  | MHeaders l => wf headers_c l
  | MTx t => wf tx_c t
  | MBlock b => wf block_c b
  | MPing n | MPong n => wf ping_c n
  | MReject a c r => wf reject_c (a, (c, r))
  end.
Definition version_high (m : msg) : Prop :=
  match m with MVersion v => ver_relay_min <= v_version v | _ => True end.

Lemma dec_as_rt {A} (c : codec A) (f : A -> msg) a : lawful c -> wf c a ->
  dec_as c f (enc c a) = Ok (f (norm c a)).
Proof.
  intros L W. unfold dec_as. pose proof (l_rt c L a [] W) as R. rewrite app_nil_r in R. now rewrite R.
Qed.
Lemma norm_inv x : norm inv_c x = x.
Proof. destruct x. reflexivity. Qed.
Lemma norm_locator x : norm locator_c x = x.
Proof.
  destruct x as [v h]. cbn [locator_c map_iso norm seq fst snd u256vec_c vector pfield loc_version loc_have].
  f_equal. apply map_norm_id. reflexivity.
Qed.
Lemma norm_headers l : norm headers_c l = l.
Proof. cbn [headers_c vector norm]. apply map_norm_id. exact norm_header. Qed.
Lemma norm_vtuple v t : vtuple_of v = Some t -> of_vtuple (norm version_full_c t) = norm_version v.
Proof.
  unfold vtuple_of. destruct v as [nv sv tm a [f|] [n|] [u|] [h|] r]; cbn [v_from v_nonce v_subver v_height]; try discriminate.
  intros E. injection E as <-. reflexivity.
Qed.

Theorem payload_rt m : wfm m -> version_high m ->
  payload_dec (class_of m) (payload_enc m) = Ok (norm_msg m).
Proof.
  intros W Hh. destruct m; cbn [class_of payload_dec payload_enc norm_msg wfm version_high] in *; try reflexivity.
  - (* version *)
    destruct W as (t & Et & Wt). rewrite (version_enc_full v t Et).
    rewrite version_dec_full.
    + pose proof (l_rt _ version_full_lawful t [] Wt) as R. rewrite app_nil_r in R. rewrite R. cbn [bind fst snd].
      now rewrite (norm_vtuple v t Et).
    + intros nv r D. unfold version_full_c in D. cbn [seq enc] in D.
      apply vf0_first in D; [|apply Wt]. subst nv.
      unfold vtuple_of in Et. destruct (v_from v), (v_nonce v), (v_subver v), (v_height v); try discriminate.
      injection Et as <-. exact Hh.
  - now rewrite (dec_as_rt _ _ l addrvec_lawful W).
  - now rewrite (dec_as_rt _ _ (m, s) alert_lawful W).
  - rewrite (dec_as_rt _ _ l invvec_lawful W). cbn [vector norm]. now rewrite (map_norm_id inv_c _ norm_inv).
  - rewrite (dec_as_rt _ _ l invvec_lawful W). cbn [vector norm]. now rewrite (map_norm_id inv_c _ norm_inv).
  - rewrite (dec_as_rt _ _ l invvec_lawful W). cbn [vector norm]. now rewrite (map_norm_id inv_c _ norm_inv).
  - rewrite (dec_as_rt _ _ (loc, stop) getblocks_lawful W). cbn [getblocks_c seq norm fst snd hash_c raw]. now rewrite norm_locator.
  - rewrite (dec_as_rt _ _ (loc, stop) getheaders_lawful W). cbn [getblocks_c seq norm fst snd hash_c raw]. now rewrite norm_locator.
  - rewrite (dec_as_rt _ _ l headers_lawful W). now rewrite norm_headers.
  - rewrite (dec_as_rt _ _ t tx_lawful W). now rewrite norm_tx.
  - rewrite (dec_as_rt _ _ b block_lawful W). now rewrite norm_block_eq.
  - now rewrite (dec_as_rt _ _ n ping_lawful W).
  - now rewrite (dec_as_rt _ _ n pong_lawful W).
  - now rewrite (dec_as_rt _ _ (m, (c, r)) reject_lawful W).
Qed.

(* 209 <= nVersion < 70001, not 10300: the message reads back with fRelay = True *)
Theorem payload_rt_version_low v t : vtuple_of v = Some t -> wf version_full_c t ->
  ver_height_min <= v_version v < ver_relay_min -> v_version v <> ver_quirk_from ->
  payload_dec 0 (version_enc v) =
    Ok (MVersion (norm_version {| v_version := v_version v; v_services := v_services v; v_time := v_time v; v_to := v_to v;
                                  v_from := v_from v; v_nonce := v_nonce v; v_subver := v_subver v; v_height := v_height v;
                                  v_relay := ver_relay_default |})).
Proof.
  intros Et Wt Hr Hq. cbn [payload_dec]. rewrite (version_enc_low v t Et).
  assert (Wl : wf version_low_c (ltuple_of t)).
  { destruct t as (nv & sv & tm & a & f & n & u & h & r). unfold version_full_c, version_low_c in *.
    cbn [seq wf fst snd ltuple_of] in *. intuition. }
  rewrite version_dec_low.
  - rewrite (l_rt _ version_low_lawful (ltuple_of t) _ Wl). cbn [bind fst snd]. f_equal. f_equal.
    unfold vtuple_of in Et. destruct v as [nv sv tm a [f|] [n|] [u|] [h|] r]; cbn [v_from v_nonce v_subver v_height] in Et; try discriminate.
    injection Et as <-. reflexivity.
  - intros nv r D. unfold version_low_c in D. destruct t as (nv' & sv & tm & a & f & n & u & h & rl).
    cbn [seq enc fst snd ltuple_of] in D. rewrite <- !app_assoc in D.
    apply vf0_first in D; [|apply Wt]. subst nv.
    unfold vtuple_of in Et. destruct (v_from v), (v_nonce v), (v_subver v), (v_height v); try discriminate.
    injection Et. intros. subst. split; assumption.
Qed.

(* re-serialising what was parsed gives the same payload *)
Lemma ip_norm_enc ip : length ip = 4%nat \/ length ip = 16%nat -> ip_enc (ip_of_packed (ip_enc ip)) = ip_enc ip.
Proof.
  intros [L|L].
  - do 4 (destruct ip as [|? ip]; [discriminate L|]). destruct ip; [|discriminate L]. reflexivity.
  - do 16 (destruct ip as [|? ip]; [discriminate L|]). destruct ip; [|discriminate L].
    change (ip_enc [b; b0; b1; b2; b3; b4; b5; b6; b7; b8; b9; b10; b11; b12; b13; b14])
      with [b; b0; b1; b2; b3; b4; b5; b6; b7; b8; b9; b10; b11; b12; b13; b14].
    unfold ip_of_packed.
    match goal with |- context [bytes_eqb ?a IPV4_COMPAT] => set (s1 := a); vm_compute in s1; subst s1 end.
    match goal with |- context [bytes_eqb ?a ?c] => destruct (bytes_eqb a c) eqn:E end; [|reflexivity].
    apply bytes_eqb_eq in E. injection E as -> -> -> -> -> -> -> -> -> -> -> ->. reflexivity.
Qed.
