(* Proofs/Base58Spec.v – facts about the reference definition alone:
   the alphabet is a bijection digit <-> character (58 distinct code points, finite check
   by vm_compute), and spec_encode / spec_decode are mutually inverse. *)
From BV Require Import Common.Base Spec.Base58 Proofs.Base58Digits.
From Coq Require Strings.String Strings.Ascii.

(* the alphabet of Spec/Base58.v is this string *)
Definition text_of_string (s : String.string) : text :=
  map (fun a => Z.of_N (Ascii.N_of_ascii a)) (String.list_ascii_of_string s).
Module AlphabetLiteral.
  Import Coq.Strings.String.
  Definition s : string := "123456789ABCDEFGHJKLMNPQRSTUVWXYZabcdefghijkmnopqrstuvwxyz"%string.
End AlphabetLiteral.
Lemma alphabet_is_string : alphabet = text_of_string AlphabetLiteral.s.
Proof. vm_compute. reflexivity. Qed.

(* ---------- index_of ---------- *)
Lemma index_of_some c l : forall i, index_of c l = Some i -> (i < length l)%nat /\ nth i l 0 = c.
Proof.
  induction l as [|x t IH]; intros i H; cbn [index_of] in H; [discriminate|].
  destruct (Z.eqb_spec c x) as [->|NE].
  - injection H as <-. cbn [length nth]. split; [lia|reflexivity].
  - destruct (index_of c t) as [j|]; [|discriminate]. injection H as <-.
    destruct (IH j eq_refl) as [L N]. cbn [length nth]. split; [lia|exact N].
Qed.
Lemma index_of_none c l : index_of c l = None -> ~ In c l.
Proof.
  induction l as [|x t IH]; cbn [index_of In]; [tauto|].
  destruct (Z.eqb_spec c x) as [->|NE]; [discriminate|].
  destruct (index_of c t); [discriminate|]. intros _ [E|I]; [congruence|]. apply IH; auto.
Qed.
Lemma index_of_in c l : In c l -> exists i, index_of c l = Some i.
Proof.
  intros I. destruct (index_of c l) as [i|] eqn:E; [eauto|].
  exfalso. exact (index_of_none _ _ E I).
Qed.
Lemma index_of_nth l : NoDup l -> forall i, (i < length l)%nat -> index_of (nth i l 0) l = Some i.
Proof.
  induction 1 as [|x t NI ND IH]; intros i L; cbn [length] in L; [lia|].
  cbn [index_of]. destruct i as [|i]; cbn [nth].
  - rewrite Z.eqb_refl. reflexivity.
  - destruct (Z.eqb_spec (nth i t 0) x) as [E|NE].
    + exfalso. apply NI. rewrite <- E. apply nth_In. lia.
    + rewrite IH by lia. reflexivity.
Qed.

Fixpoint nodupb (l : list Z) : bool :=
  match l with [] => true | x :: t => negb (existsb (Z.eqb x) t) && nodupb t end.
Lemma nodupb_sound l : nodupb l = true -> NoDup l.
Proof.
  induction l as [|x t IH]; cbn [nodupb]; intros H; constructor;
    apply andb_true_iff in H as [H1 H2].
  - intros I. apply negb_true_iff in H1.
    assert (existsb (Z.eqb x) t = true); [|congruence].
    apply existsb_exists. exists x. split; [exact I|apply Z.eqb_refl].
  - apply IH, H2.
Qed.

(* ---------- the alphabet: 58 distinct code points ---------- *)
Lemma alphabet_length : length alphabet = 58%nat.
Proof. vm_compute. reflexivity. Qed.
Lemma alphabet_nodup : NoDup alphabet.
Proof. apply nodupb_sound. vm_compute. reflexivity. Qed.

Notation in58 := (in_range 58).

Lemma ord_chr d : 0 <= d < 58 -> ord58 (chr58 d) = Some d.
Proof.
  intros H. unfold ord58, chr58.
  rewrite index_of_nth; [|exact alphabet_nodup|rewrite alphabet_length; lia].
  cbn [option_map]. f_equal. lia.
Qed.
Lemma chr_ord c d : ord58 c = Some d -> 0 <= d < 58 /\ chr58 d = c.
Proof.
  unfold ord58, chr58. destruct (index_of c alphabet) as [i|] eqn:E; [|discriminate].
  cbn [option_map]. intros [= <-]. apply index_of_some in E as [L N].
  rewrite alphabet_length in L. rewrite Nat2Z.id. split; [lia|exact N].
Qed.
Lemma ord_none c : ord58 c = None <-> ~ In c alphabet.
Proof.
  unfold ord58. split.
  - destruct (index_of c alphabet) eqn:E; [discriminate|]. intros _. apply index_of_none, E.
  - intros NI. destruct (index_of c alphabet) eqn:E; [|reflexivity].
    exfalso. apply NI. apply index_of_some in E as [L <-]. apply nth_In, L.
Qed.

Lemma map_ord_chr ds : in58 ds -> map_opt ord58 (map chr58 ds) = Some ds.
Proof.
  induction 1 as [|d t Hd F IH]; [reflexivity|].
  cbn [map map_opt]. rewrite (ord_chr d Hd), IH. reflexivity.
Qed.
Lemma map_chr_ord s : forall ds, map_opt ord58 s = Some ds -> in58 ds /\ map chr58 ds = s.
Proof.
  induction s as [|c t IH]; intros ds H; cbn [map_opt] in H.
  - injection H as <-. split; [constructor|reflexivity].
  - destruct (ord58 c) as [d|] eqn:E; [|discriminate].
    destruct (map_opt ord58 t) as [r|]; [|discriminate]. injection H as <-.
    destruct (IH r eq_refl) as [R M]. apply chr_ord in E as [Hd Hc].
    split; [constructor; assumption|]. cbn [map]. rewrite Hc, M. reflexivity.
Qed.
Lemma map_ord_total s : Forall (fun c => In c alphabet) s -> exists ds, map_opt ord58 s = Some ds.
Proof.
  induction 1 as [|c t Hc F [r IH]]; [exists []; reflexivity|].
  destruct (ord58 c) as [d|] eqn:E.
  - exists (d :: r). cbn [map_opt]. rewrite E, IH. reflexivity.
  - exfalso. apply ord_none in E. exact (E Hc).
Qed.
Lemma map_ord_foreign s c : In c s -> ~ In c alphabet -> map_opt ord58 s = None.
Proof.
  intros I NI. induction s as [|x t IH]; [destruct I|].
  cbn [map_opt]. destruct I as [->|I].
  - apply ord_none in NI. rewrite NI. reflexivity.
  - rewrite (IH I). destruct (ord58 x); reflexivity.
Qed.

(* ---------- bytes as base-256 numerals ---------- *)
Lemma zero_byte c : is_zero_byte c = true -> c = x00.
Proof. unfold is_zero_byte. intros H. apply Z.eqb_eq in H. apply b2z_inj. exact H. Qed.
Lemma bytes_in_range x : in_range 256 (map b2z x).
Proof. unfold in_range. induction x; cbn [map]; constructor; [apply b2z_range|assumption]. Qed.
Lemma map_z2b_b2z x : map z2b (map b2z x) = x.
Proof. induction x as [|c t IH]; cbn [map]; [reflexivity|]. rewrite z2b_b2z, IH. reflexivity. Qed.
Lemma map_b2z_z2b ds : in_range 256 ds -> map b2z (map z2b ds) = ds.
Proof.
  induction 1 as [|d t Hd F IH]; cbn [map]; [reflexivity|].
  rewrite b2z_z2b, Z.mod_small, IH by lia. reflexivity.
Qed.
Definition no_lead_zero (x : bytes) : Prop :=
  match x with [] => True | c :: _ => is_zero_byte c = false end.

Lemma be_bytes_value x : no_lead_zero x -> be_bytes (be_value x) = x.
Proof.
  intros H. unfold be_bytes, be_value. rewrite digits_value; [apply map_z2b_b2z|lia|].
  split; [apply bytes_in_range|]. destruct x as [|c t]; cbn [map]; [exact I|].
  cbn [no_lead_zero] in H. unfold is_zero_byte in H. apply Z.eqb_neq in H. exact H.
Qed.
Lemma be_value_bytes n : 0 <= n -> be_value (be_bytes n) = n.
Proof.
  intros H. unfold be_bytes, be_value.
  destruct (digits_canon 256 ltac:(lia) n H) as [R _].
  rewrite map_b2z_z2b by exact R. apply value_digits; lia.
Qed.
Lemma be_bytes_no_lead_zero n : 0 <= n -> no_lead_zero (be_bytes n).
Proof.
  intros H. unfold be_bytes. destruct (digits_canon 256 ltac:(lia) n H) as [R Hd].
  destruct (digits_msb 256 n) as [|d t]; cbn [map no_lead_zero]; [exact I|].
  inversion R as [|? ? Hr _]; subst. unfold is_zero_byte.
  rewrite b2z_z2b, Z.mod_small by lia. apply Z.eqb_neq. exact Hd.
Qed.
Lemma be_value_zeros k x : be_value (repeat x00 k ++ x) = be_value x.
Proof.
  unfold be_value. rewrite map_app.
  replace (map b2z (repeat x00 k)) with (repeat 0 k).
  - apply value_msb_zeros.
  - induction k; cbn [repeat map]; [reflexivity|]. f_equal. assumption.
Qed.
Lemma be_value_nonneg x : 0 <= be_value x.
Proof. unfold be_value. apply value_msb_nonneg; [lia|apply bytes_in_range]. Qed.

(* every byte string is (zero bytes) ++ (a string without leading zero) *)
Lemma split_zero_bytes x : exists r, x = repeat x00 (count_lead is_zero_byte x) ++ r /\ no_lead_zero r.
Proof.
  destruct (count_lead_split is_zero_byte x) as (r & E & A & N). exists r. split; [|exact N].
  rewrite E at 1. f_equal.
  remember (firstn (count_lead is_zero_byte x) x) as p eqn:Ep.
  assert (L : length p = count_lead is_zero_byte x).
  { subst p. apply firstn_length_le. clear. induction x as [|c t IH]; cbn [count_lead length]; [lia|].
    destruct (is_zero_byte c); lia. }
  rewrite <- L. clear -A. induction p as [|c t IH]; cbn [forallb length repeat] in *; [reflexivity|].
  apply andb_true_iff in A as [A1 A2]. rewrite (zero_byte c A1), <- IH by exact A2. reflexivity.
Qed.
(* every digit list is (zeros) ++ (a list without leading zero) *)
Lemma split_zero_digits ds : exists r, ds = repeat 0 (count_lead (Z.eqb 0) ds) ++ r /\
  match r with [] => True | d :: _ => d <> 0 end.
Proof.
  destruct (count_lead_split (Z.eqb 0) ds) as (r & E & A & N). exists r. split.
  - rewrite E at 1. f_equal. rewrite (forallb_eq_repeat _ 0 A). f_equal.
    apply firstn_length_le. clear. induction ds as [|c t IH]; cbn [count_lead length]; [lia|].
    destruct (0 =? c); lia.
  - destruct r as [|d t]; [exact I|]. apply Z.eqb_neq in N. congruence.
Qed.

Lemma map_chr_repeat k ds : map chr58 (repeat 0 k ++ ds) = repeat (chr58 0) k ++ map chr58 ds.
Proof. rewrite map_app. f_equal. induction k; cbn [repeat map]; [reflexivity|]. f_equal. assumption. Qed.
Lemma in58_repeat k : in58 (repeat 0 k).
Proof. unfold in_range. induction k; cbn [repeat]; constructor; [lia|assumption]. Qed.

(* ---------- the reference encoder and decoder are mutually inverse ---------- *)
Theorem spec_decode_encode x : spec_decode (spec_encode x) = Ok x.
Proof.
  destruct (split_zero_bytes x) as (r & E & N).
  set (z := count_lead is_zero_byte x) in *.
  unfold spec_encode, spec_decode. fold z.
  assert (V : be_value x = be_value r) by (rewrite E; apply be_value_zeros).
  rewrite V. pose proof (be_value_nonneg r) as P.
  destruct (digits_canon 58 ltac:(lia) _ P) as [R Hd].
  rewrite <- map_chr_repeat, map_ord_chr.
  2:{ apply Forall_app. split; [apply in58_repeat|exact R]. }
  rewrite value_msb_zeros, value_digits by lia.
  rewrite count_lead_repeat; [|reflexivity|].
  - rewrite be_bytes_value by exact N. rewrite <- E. reflexivity.
  - destruct (digits_msb 58 (be_value r)); [exact I|]. apply Z.eqb_neq. congruence.
Qed.

Theorem spec_encode_decode s y : spec_decode s = Ok y -> spec_encode y = s.
Proof.
  unfold spec_decode. destruct (map_opt ord58 s) as [ds|] eqn:M; [|discriminate].
  intros [= <-]. destruct (map_chr_ord _ _ M) as [R <-].
  destruct (split_zero_digits ds) as (r & E & N).
  set (k := count_lead (Z.eqb 0) ds) in *.
  assert (Rr : in58 r).
  { rewrite E in R. apply Forall_app in R. apply R. }
  assert (V : value_msb 58 ds = value_msb 58 r) by (rewrite E; apply value_msb_zeros).
  rewrite V. pose proof (value_msb_nonneg 58 ltac:(lia) r Rr) as P.
  unfold spec_encode. rewrite be_value_zeros, be_value_bytes by exact P.
  rewrite count_lead_repeat; [|reflexivity|].
  - rewrite digits_value; [|lia|split; assumption].
    rewrite <- map_chr_repeat, <- E. reflexivity.
  - pose proof (be_bytes_no_lead_zero _ P) as Z. destruct (be_bytes (value_msb 58 r)); [exact I|exact Z].
Qed.

Corollary spec_decode_total s : Forall (fun c => In c alphabet) s -> exists y, spec_decode s = Ok y.
Proof.
  intros F. destruct (map_ord_total s F) as [ds M]. unfold spec_decode. rewrite M. eauto.
Qed.
Corollary spec_decode_foreign s c : In c s -> ~ In c alphabet -> spec_decode s = Err Base58Invalid.
Proof. intros I NI. unfold spec_decode. rewrite (map_ord_foreign s c I NI). reflexivity. Qed.
