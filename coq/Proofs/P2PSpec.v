(* Proofs/P2PSpec.v – C18: the payload encoders of Model/P2P.v emit the protocol layouts of
   Spec/P2P.v (outside the recorded deviations F15/F16), the SPEC range predicates imply the
   codecs' well-formedness, what a round trip returns is what the wire carries, and
   re-serialising it gives the same bytes. *)
From BV Require Import Common.Base Common.Codec Common.Tx Common.P2PMsg Gen.Core Gen.Layouts Gen.P2P
  Spec.Wire Spec.P2P Model.Wire Model.P2P Proofs.Wire Proofs.P2P.

Lemma i_u n v : 0 <= v < 256 ^ Z.of_nat n -> i n v = u n v.
Proof. intros H. unfold i, u. now rewrite Z.mod_small. Qed.
Lemma u31_u32 v : in_u31 v -> 0 <= v < 256 ^ Z.of_nat 4.
Proof. unfold in_u31. change (256 ^ Z.of_nat 4) with 4294967296. change (2^31) with 2147483648. lia. Qed.
Lemma u31_i32 v : in_u31 v -> in_i 4 v.
Proof. unfold in_u31, in_i. change (256 ^ Z.of_nat 4 / 2) with 2147483648. change (2^31) with 2147483648. lia. Qed.

Lemma rep_enc_ext_in {A} (c : codec A) f l : (forall a, In a l -> enc c a = f a) -> rep_enc c l = concat (map f l).
Proof. intros H. unfold rep_enc. f_equal. apply map_ext_in. exact H. Qed.
Lemma enc_vector_in {A} (c : codec A) f l : (forall a, In a l -> enc c a = f a) -> enc (vector c) l = vec f l.
Proof. intros H. unfold vec. cbn [vector enc]. rewrite (rep_enc_ext_in c f l H). reflexivity. Qed.

(* ---------- encoders = SPEC layouts ---------- *)
Lemma pch_is_mapped_prefix : CADDR_PCHRESERVED = v4_mapped_prefix /\ IPV4_COMPAT = v4_mapped_prefix.
Proof. split; reflexivity. Qed.
Lemma enc_ip ip : wf_ip ip -> ip_enc ip = spec_ip ip.
Proof. intros [E|E]; unfold ip_enc, spec_ip; rewrite E; reflexivity. Qed.
Lemma enc_netaddr a : wf_netaddr a -> enc netaddr_c a = spec_netaddr a.
Proof.
  intros (_ & W & _). unfold spec_netaddr. cbn [netaddr_c map_iso enc seq fst snd un_netaddr ip_c].
  rewrite (enc_ip _ W). reflexivity.
Qed.
Lemma enc_taddr a : wf_taddr CADDR_TIME_VERSION a -> enc taddr_c a = spec_taddr a.
Proof.
  intros (Wp & _ & Wa). cbn [taddr_c enc]. unfold caddr_enc, has_time, spec_taddr.
  rewrite Z.geb_leb. destruct (Z.leb_spec CADDR_TIME_VERSION (ta_protover a)); [|lia].
  cbn [andb negb]. now rewrite (enc_netaddr _ Wa).
Qed.
Lemma enc_inv x : wf_inv x -> enc inv_c x = spec_inv x.
Proof.
  intros (Wt & _). unfold spec_inv. cbn [inv_c map_iso enc seq fst snd hash_c raw].
  change (enc (pfield _ _) (inv_type x)) with (le_enc_signed 4 (inv_type x)).
  now rewrite i_eq, (i_u 4 _ (u31_u32 _ Wt)).
Qed.
Lemma enc_locator l stop raws : wf_locator l -> enc (getblocks_c raws) (l, stop) = spec_locator l stop.
Proof.
  intros (Wv & _ & _). unfold spec_locator. cbn [getblocks_c locator_c map_iso enc seq fst snd hash_c raw u256vec_c].
  change (enc (pfield _ _) (loc_version l)) with (le_enc_signed 4 (loc_version l)).
  rewrite i_eq, (i_u 4 _ (u31_u32 _ Wv)), <- app_assoc. reflexivity.
Qed.
Lemma enc_version v : wf_version MAX_SIZE v -> relay_min <= v_version v -> version_enc v = spec_version v.
Proof.
  intros (_ & _ & _ & Wa & Wf & Wn & Wu & Wh & _) Hr.
  destruct v as [nv sv tm a [f|] [n|] [us|] [h|] r]; cbn [owf v_from v_nonce v_subver v_height v_to v_version] in *; try contradiction.
  unfold version_enc, spec_version. cbn [oenc oget v_version v_services v_time v_to v_from v_nonce v_subver v_height v_relay].
  rewrite (enc_netaddr _ Wa), (enc_netaddr _ Wf).
  change (enc (vf 0) nv) with (le_enc_signed 4 nv). change (enc (vf 2) tm) with (le_enc_signed 8 tm).
  change (enc (vf 4) h) with (le_enc_signed 4 h). rewrite !i_eq.
  unfold relay_min in *. rewrite Z.geb_leb. destruct (Z.leb_spec 70001 nv); [reflexivity|lia].
Qed.

Theorem payload_spec m : wf_msg MAX_SIZE CADDR_TIME_VERSION m -> conform m -> payload_enc m = spec_payload m.
Proof.
  intros W C. destruct m; cbn [payload_enc spec_payload wf_msg conform] in *; try reflexivity.
  - now apply enc_version.
  - destruct W as [F _]. apply enc_vector_in. intros a Ha. apply enc_taddr. rewrite Forall_forall in F. now apply F.
  - destruct W as [F _]. apply enc_vector_in. intros a Ha. apply enc_inv. rewrite Forall_forall in F. now apply F.
  - destruct W as [F _]. apply enc_vector_in. intros a Ha. apply enc_inv. rewrite Forall_forall in F. now apply F.
  - destruct W as [F _]. apply enc_vector_in. intros a Ha. apply enc_inv. rewrite Forall_forall in F. now apply F.
  - apply enc_locator. apply W.
  - apply enc_locator. apply W.
  - subst l. reflexivity.
  - apply enc_tx.
  - apply enc_block.
Qed.
(* the header entries the library writes have no transaction count: n bytes short *)
Lemma headers_payload_model l : payload_enc (MHeaders l) = vec wire_header l.
Proof. cbn [payload_enc headers_c]. apply enc_vector. exact enc_header. Qed.

(* ---------- commands ---------- *)
Lemma command_spec m : command_of m = spec_command m.
Proof. destruct m; vm_compute; reflexivity. Qed.
Lemma command_dispatch m : lookup (command_of m) messagemap = Some (class_of m).
Proof. destruct m; vm_compute; reflexivity. Qed.
Lemma command_short m : lenZ (command_of m) <= hdr_cmd_width.
Proof. destruct m; vm_compute; congruence. Qed.
Lemma command_no_nul m : take_until x00 (command_of m) = command_of m.
Proof. destruct m; vm_compute; reflexivity. Qed.

(* ---------- SPEC ranges imply the codecs' well-formedness ---------- *)
Lemma wf_netaddr_c a : wf_netaddr a -> wf netaddr_c a.
Proof. intros (W1 & W2 & W3). split; [exact W1|]. split; [exact W2 | exact W3]. Qed.
Lemma wf_taddr_c a : wf_taddr CADDR_TIME_VERSION a -> wf taddr_c a.
Proof. intros (W1 & W2 & W3). split; [assumption|]. split; [exact W2 | now apply wf_netaddr_c]. Qed.
Lemma wf_inv_c x : wf_inv x -> wf inv_c x.
Proof. intros (W1 & W2). split; [exact (u31_i32 _ W1) | exact W2]. Qed.
Lemma wf_locator_c l : wf_locator l -> wf locator_c l.
Proof. intros (W1 & W2 & W3). split; [exact (u31_i32 _ W1)|]. split; [exact W2 | exact W3]. Qed.
Lemma Forall_imp {A} (P Q : A -> Prop) l : (forall a, P a -> Q a) -> Forall P l -> Forall Q l.
Proof. intros H F. eapply Forall_impl; [exact H | exact F]. Qed.

Theorem wf_msg_wfm m : wf_msg MAX_SIZE CADDR_TIME_VERSION m -> wfm m.
Proof.
  intros W. destruct m; cbn [wf_msg wfm] in *; try exact I.
  - destruct W as (W1 & W2 & W3 & Wa & Wf & Wn & Wu & Wh & Wr).
    destruct v as [nv sv tm a [f|] [n|] [us|] [h|] r]; cbn [owf v_from v_nonce v_subver v_height v_to v_version v_services v_time v_relay] in *; try contradiction.
    eexists. split; [reflexivity|]. unfold version_full_c. cbn [seq wf fst snd].
    repeat split; first [assumption | apply W1 | apply W2 | apply W3 | apply Wn | apply Wh | apply Wr | apply Wa | apply Wf | idtac].
    all: try (now apply wf_netaddr_c).
  - destruct W as [F L]. split; [|exact L]. exact (Forall_imp _ _ _ wf_taddr_c F).
  - exact W.
  - destruct W as [F L]. split; [|exact L]. exact (Forall_imp _ _ _ wf_inv_c F).
  - destruct W as [F L]. split; [|exact L]. exact (Forall_imp _ _ _ wf_inv_c F).
  - destruct W as [F L]. split; [|exact L]. exact (Forall_imp _ _ _ wf_inv_c F).
  - destruct W as [Wl Ws]. split; [now apply wf_locator_c | exact Ws].
  - destruct W as [Wl Ws]. split; [now apply wf_locator_c | exact Ws].
  - destruct W as [F L]. split; [|exact L]. exact (Forall_imp _ _ _ wf_header_c F).
  - now apply wf_tx_c.
  - now apply wf_block_c.
  - exact W.
  - exact W.
  - destruct W as (W1 & W2 & W3). repeat split; assumption.
Qed.

(* ---------- what a round trip returns is what the wire carries ---------- *)
Lemma norm_ip_carried ip : wf_ip ip -> ip_of_packed (ip_enc ip) = carried_ip ip.
Proof.
  intros [L|L].
  - do 4 (destruct ip as [|? ip]; [discriminate L|]). destruct ip; [|discriminate L]. reflexivity.
  - do 16 (destruct ip as [|? ip]; [discriminate L|]). destruct ip; [|discriminate L]. reflexivity.
Qed.
Lemma norm_netaddr_carried a : wf_netaddr a -> norm netaddr_c a = carried_netaddr a.
Proof.
  intros (_ & W & _). destruct a as [s ip p]. unfold carried_netaddr.
  cbn [netaddr_c map_iso norm seq fst snd un_netaddr mk_netaddr ip_c pfield na_services na_ip na_port] in *.
  now rewrite (norm_ip_carried _ W).
Qed.
Theorem norm_msg_carried m : wf_msg MAX_SIZE CADDR_TIME_VERSION m -> version_high m ->
  norm_msg m = carried PROTO_VERSION m.
Proof.
  intros W Hh. destruct m; cbn [norm_msg carried wf_msg version_high] in *; try reflexivity.
  - destruct W as (_ & _ & _ & Wa & Wf & _). unfold norm_version. f_equal.
    unfold relay_min. unfold ver_relay_min in Hh. rewrite Z.geb_leb. destruct (Z.leb_spec 70001 (v_version v)); [|lia].
    rewrite (norm_netaddr_carried _ Wa). destruct (v_from v) as [f|]; cbn [owf option_map] in *; [|contradiction].
    now rewrite (norm_netaddr_carried _ Wf).
  - destruct W as [F _]. f_equal. apply map_ext_in. intros a Ha. rewrite Forall_forall in F.
    destruct (F a Ha) as (_ & _ & Wa). cbn [taddr_c norm]. now rewrite (norm_netaddr_carried _ Wa).
Qed.

(* ---------- re-serialising what was parsed gives the same payload ---------- *)
Lemma enc_norm_netaddr a : wf netaddr_c a -> enc netaddr_c (norm netaddr_c a) = enc netaddr_c a.
Proof.
  intros (_ & W & _). destruct a as [s ip p].
  cbn [netaddr_c map_iso norm enc seq fst snd un_netaddr mk_netaddr ip_c pfield na_services na_ip na_port wf] in *.
  now rewrite (ip_norm_enc _ W).
Qed.
Lemma enc_norm_taddr a : wf taddr_c a -> enc taddr_c (norm taddr_c a) = enc taddr_c a.
Proof.
  intros (Wp & _ & Wa). cbn [taddr_c norm enc]. unfold caddr_enc. cbn [ta_protover ta_time ta_addr].
  rewrite has_time_default. unfold has_time. rewrite Z.geb_leb.
  destruct (Z.leb_spec CADDR_TIME_VERSION (ta_protover a)); [|lia]. cbn [andb negb].
  now rewrite (enc_norm_netaddr _ Wa).
Qed.
Theorem payload_norm m : wfm m -> payload_enc (norm_msg m) = payload_enc m.
Proof.
  intros W. destruct m; cbn [norm_msg payload_enc wfm] in *; try reflexivity.
  - destruct W as (t & Et & Wt). unfold vtuple_of in Et.
    destruct v as [nv sv tm a [f|] [n|] [us|] [h|] r]; cbn [v_from v_nonce v_subver v_height] in Et; try discriminate.
    injection Et as <-. unfold version_full_c in Wt. cbn [seq wf fst snd] in Wt.
    destruct Wt as (_ & _ & _ & Wa & Wf & _).
    unfold version_enc, norm_version. cbn [oenc option_map v_version v_services v_time v_to v_from v_nonce v_subver v_height v_relay].
    now rewrite (enc_norm_netaddr _ Wa), (enc_norm_netaddr _ Wf).
  - destruct W as [F _]. cbn [vector enc]. rewrite map_length. f_equal. unfold rep_enc. rewrite map_map. f_equal.
    apply map_ext_in. intros a Ha. rewrite Forall_forall in F. now apply enc_norm_taddr, F.
  - rewrite !enc_tx. apply wire_norm_wit.
  - rewrite !enc_block. apply (wire_norm_block b).
Qed.
