(* Proofs/Bech32Bits.v – C11: bit strings and the characterisation of convertbits.
   For every pair of group widths f, t >= 1 and every list of f-bit values:
   * convertbits(data, f, t, pad=True) returns t-bit values whose bit string is the bit
     string of data followed by fewer than t zero bits;
   * convertbits(data, f, t, pad=False) (for f <= t) returns ret exactly when the bit
     string of data is the bit string of ret followed by fewer than f bits, all zero –
     and returns None otherwise; it never raises. *)
From BV Require Import Common.Base Model.Bech32 Spec.Bech32 Proofs.Bech32Poly.

(* ---------- bits_be / of_bits ---------- *)
Lemma bits_be_length w v : length (bits_be w v) = w.
Proof. induction w; cbn [bits_be length]; auto. Qed.

Lemma bits_be_app n m x :
  bits_be (n + m) x = bits_be n (Z.shiftr x (Z.of_nat m)) ++ bits_be m x.
Proof.
  induction n as [|n IH]; [reflexivity|].
  cbn [plus bits_be app]. rewrite IH. f_equal.
  rewrite Z.shiftr_spec by lia. f_equal. lia.
Qed.

Lemma bits_be_ext w x y :
  (forall i, 0 <= i < Z.of_nat w -> Z.testbit x i = Z.testbit y i) -> bits_be w x = bits_be w y.
Proof.
  induction w as [|w IH]; intros H; [reflexivity|].
  cbn [bits_be]. rewrite H by lia. f_equal. apply IH. intros i Hi. apply H. lia.
Qed.

Lemma bits_be_land_ones w k x : (w <= k)%nat -> bits_be w (Z.land x (2 ^ Z.of_nat k - 1)) = bits_be w x.
Proof.
  intros L. apply bits_be_ext. intros i Hi.
  replace (2 ^ Z.of_nat k - 1) with (Z.ones (Z.of_nat k)) by (rewrite Z.ones_equiv; lia).
  rewrite Z.land_spec, Z.ones_spec_low by lia. apply andb_true_r.
Qed.

Lemma bits_be_zero w : bits_be w 0 = repeat false w.
Proof. induction w; cbn [bits_be repeat]; [reflexivity|]. rewrite Z.bits_0, IHw. reflexivity. Qed.

Definition bval (b : bool) : Z := if b then 1 else 0.
Lemma of_bits_acc l : forall acc,
  fold_left (fun a (b : bool) => 2 * a + (if b then 1 else 0)) l acc = acc * 2 ^ Z.of_nat (length l) + of_bits l.
Proof.
  unfold of_bits. induction l as [|b l IH]; intros acc.
  - cbn. lia.
  - cbn [fold_left length]. rewrite IH, (IH (2 * 0 + _)).
    rewrite Nat2Z.inj_succ, Z.pow_succ_r by lia. lia.
Qed.
Lemma of_bits_cons b l : of_bits (b :: l) = bval b * 2 ^ Z.of_nat (length l) + of_bits l.
Proof. unfold of_bits at 1. cbn [fold_left]. rewrite of_bits_acc. unfold bval. destruct b; lia. Qed.
Lemma of_bits_range l : 0 <= of_bits l < 2 ^ Z.of_nat (length l).
Proof.
  induction l as [|b l IH]; [cbn; lia|].
  rewrite of_bits_cons. cbn [length]. rewrite Nat2Z.inj_succ, Z.pow_succ_r by lia.
  unfold bval. destruct b; lia.
Qed.

Lemma of_bits_be w x : of_bits (bits_be w x) = x mod 2 ^ Z.of_nat w.
Proof.
  induction w as [|w IH]; [cbn; rewrite Z.mod_1_r; reflexivity|].
  cbn [bits_be]. rewrite of_bits_cons, bits_be_length, IH.
  rewrite Nat2Z.inj_succ, Z.pow_succ_r by lia.
  assert (P : 0 < 2 ^ Z.of_nat w) by (apply Z.pow_pos_nonneg; lia).
  rewrite (Z.mul_comm 2), Z.rem_mul_r by lia.
  replace (bval (Z.testbit x (Z.of_nat w))) with ((x / 2 ^ Z.of_nat w) mod 2).
  - lia.
  - rewrite <- Z.testbit_spec' by lia. unfold bval. destruct (Z.testbit x (Z.of_nat w)); reflexivity.
Qed.
Lemma of_bits_be_small w x : 0 <= x < 2 ^ Z.of_nat w -> of_bits (bits_be w x) = x.
Proof. intros H. rewrite of_bits_be. apply Z.mod_small, H. Qed.
Lemma bits_be_inj w x y : 0 <= x < 2 ^ Z.of_nat w -> 0 <= y < 2 ^ Z.of_nat w ->
  bits_be w x = bits_be w y -> x = y.
Proof. intros Hx Hy E. rewrite <- (of_bits_be_small w x Hx), <- (of_bits_be_small w y Hy), E. reflexivity. Qed.

Lemma bits_be_of_bits l : bits_be (length l) (of_bits l) = l.
Proof.
  induction l as [|b l IH]; [reflexivity|].
  cbn [length bits_be]. rewrite of_bits_cons. pose proof (of_bits_range l) as R.
  set (n := Z.of_nat (length l)) in *. assert (P : 0 < 2 ^ n) by (apply Z.pow_pos_nonneg; lia).
  f_equal.
  - rewrite Z.testbit_odd, Z.shiftr_div_pow2 by lia.
    replace ((bval b * 2 ^ n + of_bits l) / 2 ^ n) with (bval b).
    + destruct b; reflexivity.
    + apply Z.div_unique with (r := of_bits l); lia.
  - transitivity (bits_be (length l) (of_bits l)); [|exact IH]. apply bits_be_ext. intros i Hi. fold n in Hi.
    rewrite <- (Z.mod_pow2_bits_low (bval b * 2 ^ n + of_bits l) n i) by lia.
    rewrite Z.add_comm, Z_mod_plus_full, Z.mod_small by lia. reflexivity.
Qed.

Lemma bits_all_false_zero w x : 0 <= x < 2 ^ Z.of_nat w ->
  (Forall (fun b => b = false) (bits_be w x) <-> x = 0).
Proof.
  intros H. split.
  - intros F. rewrite <- (of_bits_be_small w x H).
    assert (E : bits_be w x = repeat false w).
    { rewrite <- (bits_be_length w x) at 2. clear H. induction (bits_be w x) as [|b l IH]; [reflexivity|].
      inversion F; subst. cbn [length repeat]. f_equal. apply IH. assumption. }
    rewrite E, <- bits_be_zero, of_bits_be. apply Z.mod_0_l. apply Z.pow_nonzero; lia.
  - intros ->. rewrite bits_be_zero. apply Forall_forall. intros b Hb. apply repeat_spec in Hb. exact Hb.
Qed.

(* ---------- bit strings of value lists ---------- *)
Lemma app_inj_length {A} (a : list A) : forall a' b b', length a = length a' ->
  a ++ b = a' ++ b' -> a = a' /\ b = b'.
Proof.
  induction a as [|x a IH]; intros [|y a'] b b' L E; cbn [length] in L; try discriminate; [auto|].
  cbn [app] in E. injection E as -> E. destruct (IH a' b b') as [-> ->]; auto.
Qed.
Lemma bitstring_app w a b : bitstring w (a ++ b) = bitstring w a ++ bitstring w b.
Proof. unfold bitstring. rewrite map_app, concat_app. reflexivity. Qed.
Lemma bitstring_length w l : length (bitstring w l) = (w * length l)%nat.
Proof.
  unfold bitstring. induction l as [|v l IH]; cbn [map concat length]; [lia|].
  rewrite app_length, bits_be_length, IH. lia.
Qed.
Lemma bitstring_inj w a : forall b,
  Forall (fun v => 0 <= v < 2 ^ Z.of_nat w) a -> Forall (fun v => 0 <= v < 2 ^ Z.of_nat w) b ->
  length a = length b -> bitstring w a = bitstring w b -> a = b.
Proof.
  induction a as [|x a IH]; intros [|y b] Fa Fb L E; cbn [length] in L; try discriminate; [reflexivity|].
  inversion Fa; inversion Fb; subst. unfold bitstring in E. cbn [map concat] in E.
  apply app_inj_length in E; [|rewrite !bits_be_length; reflexivity].
  destruct E as [E1 E2]. f_equal; [apply (bits_be_inj w); assumption|apply IH; auto].
Qed.

(* ---------- convertbits ---------- *)
Lemma py_shl_ok a n : 0 <= n -> py_shl a n = Ok (Z.shiftl a n).
Proof. intros H. unfold py_shl. destruct (Z.ltb_spec n 0); [lia|reflexivity]. Qed.
Lemma py_shr_ok a n : 0 <= n -> py_shr a n = Ok (Z.shiftr a n).
Proof. intros H. unfold py_shr. destruct (Z.ltb_spec n 0); [lia|reflexivity]. Qed.

Section ConvertBits.
  Variables f t : nat.
  Hypothesis Hf : (1 <= f)%nat.
  Hypothesis Ht : (1 <= t)%nat.
  Let F := Z.of_nat f.
  Let T := Z.of_nat t.
  Let maxv := 2 ^ T - 1.
  Let max_acc := 2 ^ (F + T - 1) - 1.
  Definition inF (v : Z) : Prop := 0 <= v < 2 ^ Z.of_nat f.
  Definition inT (v : Z) : Prop := 0 <= v < 2 ^ Z.of_nat t.

  Lemma land_maxv_inT x : inT (Z.land x maxv).
  Proof.
    unfold inT, maxv, T. replace (2 ^ Z.of_nat t - 1) with (Z.ones (Z.of_nat t)) by (rewrite Z.ones_equiv; lia).
    rewrite Z.land_ones by lia. apply Z.mod_pos_bound. apply Z.pow_pos_nonneg; lia.
  Qed.

  Lemma while_spec : forall fuel b acc ret, (b <= fuel)%nat ->
    exists ret' b', cb_while fuel acc (Z.of_nat b) T maxv ret = Ok (Z.of_nat b', ret ++ ret') /\
                    (b' < t)%nat /\ bitstring t ret' ++ bits_be b' acc = bits_be b acc /\ Forall inT ret'.
  Proof.
    induction fuel as [|k IH]; intros b acc ret L.
    - assert (b = 0%nat) by lia. subst b. exists [], 0%nat. cbn [cb_while].
      rewrite Z.geb_leb. destruct (Z.leb_spec T (Z.of_nat 0)); [unfold T in *; lia|].
      rewrite app_nil_r. repeat split; auto; lia.
    - cbn [cb_while]. rewrite Z.geb_leb. destruct (Z.leb_spec T (Z.of_nat b)) as [G|G].
      + assert (Lb : (t <= b)%nat) by (unfold T in G; lia).
        replace (Z.of_nat b - T) with (Z.of_nat (b - t)) by (unfold T; lia).
        destruct (IH (b - t)%nat acc (ret ++ [Z.land (Z.shiftr acc (Z.of_nat (b - t))) maxv])) as (r' & b' & E & Lt & B & R); [lia|].
        exists (Z.land (Z.shiftr acc (Z.of_nat (b - t))) maxv :: r'), b'. rewrite E, <- app_assoc. cbn [app].
        repeat split; auto.
        * unfold bitstring in *. cbn [map concat]. rewrite <- app_assoc, B.
          replace b with (t + (b - t))%nat at 3 by lia. rewrite bits_be_app. f_equal.
          apply bits_be_land_ones. lia.
        * constructor; [apply land_maxv_inT|exact R].
      + exists [], b. rewrite app_nil_r. repeat split; auto. unfold T in G; lia.
  Qed.

  Lemma acc_push acc b v : (b < t)%nat -> inF v ->
    bits_be (b + f) (Z.land (Z.lor (Z.shiftl acc F) v) max_acc) = bits_be b acc ++ bits_be f v.
  Proof.
    intros Lb Hv. unfold max_acc.
    replace (F + T - 1) with (Z.of_nat (f + t - 1)) by (unfold F, T; lia).
    rewrite bits_be_land_ones by lia. rewrite bits_be_app. f_equal.
    - apply bits_be_ext. intros i Hi. rewrite Z.shiftr_spec, Z.lor_spec by lia.
      rewrite Z.shiftl_spec by (unfold F; lia). rewrite (testbit_high v F) by (unfold F, inF in *; lia).
      rewrite orb_false_r. f_equal. unfold F. lia.
    - apply bits_be_ext. intros i Hi. rewrite Z.lor_spec, Z.shiftl_spec_low by (unfold F; lia). reflexivity.
  Qed.

  (* the loop invariant: what was emitted plus the pending low bits of acc is the bit
     string consumed so far *)
  Definition cb_inv (acc : Z) (b : nat) (ret done : list Z) : Prop :=
    (b < t)%nat /\ bitstring t ret ++ bits_be b acc = bitstring f done /\ Forall inT ret.

  Lemma loop_spec : forall data acc b ret done, cb_inv acc b ret done -> Forall inF data ->
    exists acc' b' ret', cb_loop data F T maxv max_acc acc (Z.of_nat b) ret = Ok (Some (acc', Z.of_nat b', ret')) /\
                         cb_inv acc' b' ret' (done ++ data).
  Proof.
    induction data as [|v data IH]; intros acc b ret done I Fd.
    - exists acc, b, ret. rewrite app_nil_r. split; [reflexivity|exact I].
    - inversion Fd as [|? ? Hv Fd']; subst. destruct I as (Lb & B & R).
      cbn [cb_loop]. destruct (Z.ltb_spec v 0) as [N|_]; [unfold inF in Hv; lia|].
      rewrite py_shr_ok by (unfold F; lia). cbn [bind].
      assert (Z0 : Z.shiftr v F = 0).
      { rewrite Z.shiftr_div_pow2 by (unfold F; lia). apply Z.div_small. exact Hv. }
      rewrite Z0. cbn [Z.eqb negb]. rewrite py_shl_ok by (unfold F; lia). cbn [bind].
      replace (Z.of_nat b + F) with (Z.of_nat (b + f)) by (unfold F; lia). rewrite Nat2Z.id.
      set (acc1 := Z.land (Z.lor (Z.shiftl acc F) v) max_acc).
      destruct (while_spec (b + f) (b + f) acc1 ret (le_n _)) as (r' & b' & E & Lt & B' & R').
      rewrite E. cbn [bind].
      destruct (IH acc1 b' (ret ++ r') (done ++ [v])) as (acc2 & b2 & ret2 & E2 & I2); [|exact Fd'|].
      + repeat split; [exact Lt| |apply Forall_app; split; assumption].
        rewrite !bitstring_app, <- app_assoc, B'. unfold acc1. rewrite acc_push by assumption.
        rewrite app_assoc, B. unfold bitstring at 3. cbn [map concat]. rewrite app_nil_r. reflexivity.
      + exists acc2, b2, ret2. rewrite <- app_assoc in I2. split; [exact E2|exact I2].
  Qed.

  Lemma cb_prefix data : convertbits data F T true = 
     do r <- cb_loop data F T maxv max_acc 0 0 [];
     match r with
     | None => Ok None
     | Some (acc, bits, ret) =>
        if negb (bits =? 0) then do s <- py_shl acc (T - bits); Ok (Some (ret ++ [Z.land s maxv])) else Ok (Some ret)
     end.
  Proof.
    unfold convertbits. rewrite !py_shl_ok by (unfold F, T; lia). cbn [bind].
    rewrite !Z.shiftl_1_l. reflexivity.
  Qed.
  Lemma cb_prefix_nopad data : convertbits data F T false = 
     do r <- cb_loop data F T maxv max_acc 0 0 [];
     match r with
     | None => Ok None
     | Some (acc, bits, ret) =>
        if bits >=? F then Ok None else
        do s <- py_shl acc (T - bits);
        if negb (Z.land s maxv =? 0) then Ok None else Ok (Some ret)
     end.
  Proof.
    unfold convertbits. rewrite !py_shl_ok by (unfold F, T; lia). cbn [bind].
    rewrite !Z.shiftl_1_l. reflexivity.
  Qed.

  Lemma inv_init : cb_inv 0 0 [] [].
  Proof. repeat split; auto. Qed.

  (* the last, partial group: the pending bits moved to the top of a t-bit window *)
  Lemma last_group acc b : (b < t)%nat ->
    bits_be t (Z.land (Z.shiftl acc (T - Z.of_nat b)) maxv) = bits_be b acc ++ repeat false (t - b).
  Proof.
    intros Lb. unfold maxv, T. rewrite bits_be_land_ones by lia.
    replace t with (b + (t - b))%nat at 1 by lia. rewrite bits_be_app. f_equal.
    - apply bits_be_ext. intros i Hi. rewrite Z.shiftr_spec by lia.
      rewrite Z.shiftl_spec by lia. f_equal. lia.
    - rewrite <- bits_be_zero. apply bits_be_ext. intros i Hi.
      rewrite Z.shiftl_spec_low by lia. rewrite Z.bits_0. reflexivity.
  Qed.

  Theorem convertbits_pad data : Forall inF data ->
    exists ret k, convertbits data F T true = Ok (Some ret) /\
                  bitstring t ret = bitstring f data ++ repeat false k /\ (k < t)%nat /\ Forall inT ret.
  Proof.
    intros Fd. rewrite cb_prefix.
    destruct (loop_spec data 0 0%nat [] [] inv_init Fd) as (acc & b & ret & E & (Lb & B & R)).
    change (Z.of_nat 0) with 0 in E. rewrite E. cbn [bind app] in *.
    destruct (Z.eqb_spec (Z.of_nat b) 0) as [Z0|NZ]; cbn [negb].
    - assert (b = 0%nat) by lia. subst b. exists ret, 0%nat. cbn [bits_be repeat] in *.
      rewrite app_nil_r in *. repeat split; auto; lia.
    - rewrite py_shl_ok by (unfold T; lia). cbn [bind].
      exists (ret ++ [Z.land (Z.shiftl acc (T - Z.of_nat b)) maxv]), (t - b)%nat. split; [reflexivity|].
      repeat split; [|lia|apply Forall_app; split; [exact R|repeat constructor; apply land_maxv_inT]].
      rewrite bitstring_app. unfold bitstring at 2. cbn [map concat]. rewrite app_nil_r.
      rewrite last_group by exact Lb. rewrite app_assoc, B. reflexivity.
  Qed.

  Theorem convertbits_nopad data : Forall inF data -> (f <= t)%nat ->
    (exists r, convertbits data F T false = Ok r) /\
    forall ret, convertbits data F T false = Ok (Some ret) <->
                (Forall inT ret /\ exists pad, bitstring f data = bitstring t ret ++ pad /\
                                               (length pad < f)%nat /\ Forall (fun b => b = false) pad).
  Proof.
    intros Fd Lft. rewrite cb_prefix_nopad.
    destruct (loop_spec data 0 0%nat [] [] inv_init Fd) as (acc & b & ret0 & E & (Lb & B & R)).
    change (Z.of_nat 0) with 0 in E. rewrite E. cbn [bind app] in *.
    rewrite Z.geb_leb. rewrite py_shl_ok by (unfold T; lia). cbn [bind].
    set (x := Z.land (Z.shiftl acc (T - Z.of_nat b)) maxv).
    assert (Hx : inT x) by apply land_maxv_inT.
    assert (XZ : x = 0 <-> Forall (fun c => c = false) (bits_be b acc)).
    { rewrite <- (bits_all_false_zero t x Hx). unfold x. rewrite last_group by exact Lb.
      rewrite Forall_app. split; [tauto|]. intros H. split; [exact H|].
      apply Forall_forall. intros c Hc. apply repeat_spec in Hc. exact Hc. }
    split.
    - destruct (Z.leb_spec F (Z.of_nat b)); [eauto|]. destruct (Z.eqb_spec x 0); cbn [negb]; eauto.
    - intros ret.
      (* uniqueness of the decomposition *)
      assert (U : (Forall inT ret /\ exists pad, bitstring f data = bitstring t ret ++ pad /\
                     (length pad < f)%nat /\ Forall (fun c => c = false) pad) ->
                  ret = ret0 /\ (b < f)%nat /\ Forall (fun c => c = false) (bits_be b acc)).
      { intros (Rr & pad & D & Lp & Zp). rewrite <- B in D.
        assert (LL : (t * length ret0 + b = t * length ret + length pad)%nat).
        { apply (f_equal (@length bool)) in D. rewrite !app_length, !bitstring_length, bits_be_length in D. exact D. }
        assert (Len : length ret0 = length ret) by nia.
        apply app_inj_length in D; [|rewrite !bitstring_length; lia]. destruct D as [D1 D2].
        split; [symmetry; apply (bitstring_inj t); auto|]. split; [lia|]. rewrite D2. exact Zp. }
      destruct (Z.leb_spec F (Z.of_nat b)) as [G|G].
      + split; [discriminate|]. intros H. apply U in H. unfold F in G. lia.
      + destruct (Z.eqb_spec x 0) as [X0|XN]; cbn [negb].
        * split.
          -- intros H. injection H as <-. split; [exact R|]. exists (bits_be b acc).
             split; [symmetry; exact B|]. rewrite bits_be_length. split; [unfold F in G; lia|]. apply XZ, X0.
          -- intros H. apply U in H. destruct H as (-> & _). reflexivity.
        * split; [discriminate|]. intros H. apply U in H. destruct H as (_ & _ & Zb). apply XZ in Zb. contradiction.
  Qed.
End ConvertBits.

(* ---------- the reference regrouping functions of the SPEC ---------- *)
Lemma chunks_bitstring t ret : forall rest,
  chunks t (length ret) (bitstring t ret ++ rest) = map (bits_be t) ret.
Proof.
  induction ret as [|v ret IH]; intros rest; [reflexivity|].
  unfold bitstring. cbn [length chunks map concat]. rewrite <- app_assoc.
  rewrite firstn_app, bits_be_length, Nat.sub_diag, firstn_all2 by (rewrite bits_be_length; lia).
  cbn [firstn]. rewrite app_nil_r. f_equal.
  rewrite skipn_app, bits_be_length, Nat.sub_diag, skipn_all2 by (rewrite bits_be_length; lia).
  cbn [skipn app]. apply IH.
Qed.
Lemma of_bits_map t ret : Forall (inT t) ret -> map of_bits (map (bits_be t) ret) = ret.
Proof.
  intros F. rewrite map_map. rewrite <- (map_id ret) at 2. apply map_ext_in. intros v Hv.
  rewrite Forall_forall in F. apply of_bits_be_small, F, Hv.
Qed.

Lemma regroup_pad_unique f t data ret k : (1 <= t)%nat ->
  bitstring t ret = bitstring f data ++ repeat false k -> (k < t)%nat -> Forall (inT t) ret ->
  regroup_pad f t data = ret.
Proof.
  intros Ht E Lk F. unfold regroup_pad.
  assert (LL : (t * length ret = length (bitstring f data) + k)%nat).
  { apply (f_equal (@length bool)) in E. rewrite app_length, repeat_length, bitstring_length in E. exact E. }
  set (L := length (bitstring f data)) in *.
  assert (N : ((L + t - 1) / t = length ret)%nat).
  { symmetry. apply (Nat.div_unique _ _ _ (t - 1 - k)); lia. }
  rewrite N. replace (length ret * t - L)%nat with k by lia. rewrite <- E.
  rewrite <- (app_nil_r (bitstring t ret)), chunks_bitstring. apply of_bits_map, F.
Qed.
