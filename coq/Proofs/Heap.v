(* Proofs/Heap.v – the heap model of C09: footprints, the frame lemma for [abs], the
   well-formedness invariant (deep immutability + valid caches) and its preservation by the
   primitive heap updates. *)
From stdpp Require Import gmap.
From BV Require Import Common.Base Common.Tx Model.Heap.

Definition core (o : obj) : bool * body := (o_mut o, o_body o).
Definition core_at (h : heap) (l : loc) : option (bool * body) := core <$> get h l.
Definition mut_at (h : heap) (l : loc) : option bool := o_mut <$> get h l.

Lemma core_body h h' l : core_at h' l = core_at h l -> body_at h' l = body_at h l.
Proof. unfold core_at, body_at. destruct (get h' l), (get h l); simpl; intros E; inversion E; congruence. Qed.
Lemma core_mut h h' l : core_at h' l = core_at h l -> mut_at h' l = mut_at h l.
Proof. unfold core_at, mut_at. destruct (get h' l), (get h l); simpl; intros E; inversion E; congruence. Qed.
Lemma get_core h h' l : get h' l = get h l -> core_at h' l = core_at h l.
Proof. unfold core_at. now intros ->. Qed.
Lemma mut_at_get h l m : mut_at h l = Some m <-> exists o, get h l = Some o /\ o_mut o = m.
Proof. unfold mut_at. destruct (get h l); simpl; split; [intros [= <-]; eauto|intros (? & [= <-] & <-); auto|discriminate|intros (? & ? & _); discriminate]. Qed.

(* ---------- references and footprints ---------- *)
Definition refs_seq (s : seqref) : list loc := match s with STuple ls => ls | SList l => [l] end.
Definition refs_body (b : body) : list loc :=
  match b with
  | BOutPoint _ _ => [] | BTxIn p _ _ => [p] | BTxOut _ _ => []
  | BTx _ vi vo _ _ => refs_seq vi ++ refs_seq vo
  | BList ls => ls end.
Definition refs_at (h : heap) (l : loc) : list loc := match body_at h l with Some b => refs_body b | None => [] end.
(* everything within k reference steps; a transaction reads at most depth 3
   (tx -> list object -> input -> outpoint) *)
Fixpoint fpn (k : nat) (h : heap) (l : loc) : list loc :=
  l :: match k with O => [] | S k' => flat_map (fpn k' h) (refs_at h l) end.
Definition fp : heap -> loc -> list loc := fpn 3.

Lemma fpn_self k h l : In l (fpn k h l).
Proof. destruct k; simpl; auto. Qed.
Lemma fpn_step k h l r y : In r (refs_at h l) -> In y (fpn k h r) -> In y (fpn (S k) h l).
Proof. intros Hr Hy. simpl. right. apply in_flat_map. eauto. Qed.
Lemma fpn_mono k h : forall l y, In y (fpn k h l) -> In y (fpn (S k) h l).
Proof.
  induction k as [|k IH]; intros l y Hy.
  - simpl in Hy. destruct Hy as [<-|[]]. apply fpn_self.
  - cbn [fpn] in Hy. destruct Hy as [<-|Hy]; [apply fpn_self|].
    apply in_flat_map in Hy as (r & Hr & Hy). eapply fpn_step; eauto.
Qed.

Definition agree_on (L : list loc) (h h' : heap) : Prop := forall y, In y L -> core_at h' y = core_at h y.

Lemma refs_at_agree h h' l : core_at h' l = core_at h l -> refs_at h' l = refs_at h l.
Proof. intros E. unfold refs_at. now rewrite (core_body _ _ _ E). Qed.
Lemma fpn_agree k h h' : forall l, agree_on (fpn k h l) h h' -> fpn k h' l = fpn k h l.
Proof.
  induction k as [|k IH]; intros l A; [reflexivity|].
  cbn [fpn]. f_equal. rewrite (refs_at_agree h h' l) by (apply A, fpn_self).
  assert (G : forall r, In r (refs_at h l) -> fpn k h' r = fpn k h r).
  { intros r Hr. apply IH. intros y Hy. apply A. eapply fpn_step; eauto. }
  revert G. generalize (refs_at h l). intros rs. induction rs as [|r rs IHr]; intros G; [reflexivity|].
  simpl. rewrite G by (left; reflexivity). f_equal. apply IHr. intros r' Hr'. apply G. now right.
Qed.

Lemma opt_all_ext {A B} (f g : A -> option B) l : (forall a, In a l -> f a = g a) -> opt_all f l = opt_all g l.
Proof.
  induction l as [|a t IH]; intros E; [reflexivity|]. simpl.
  rewrite E by (left; reflexivity). rewrite IH; [reflexivity|]. intros b Hb. apply E. now right.
Qed.

Lemma abs_outpoint_agree h h' l : core_at h' l = core_at h l -> abs_outpoint h' l = abs_outpoint h l.
Proof. intros E. unfold abs_outpoint. now rewrite (core_body _ _ _ E). Qed.
Lemma abs_txout_agree h h' l : core_at h' l = core_at h l -> abs_txout h' l = abs_txout h l.
Proof. intros E. unfold abs_txout. now rewrite (core_body _ _ _ E). Qed.
Lemma abs_txin_agree h h' l : agree_on (fpn 1 h l) h h' -> abs_txin h' l = abs_txin h l.
Proof.
  intros A. unfold abs_txin. rewrite (core_body h h' l) by (apply A, fpn_self).
  destruct (body_at h l) as [[]|] eqn:E; try reflexivity.
  rewrite (abs_outpoint_agree h h' prevout); [reflexivity|].
  apply A. eapply fpn_step; [|apply fpn_self]. unfold refs_at. rewrite E. simpl. auto.
Qed.
Lemma seq_items_agree h h' s : agree_on (refs_seq s) h h' -> seq_items h' s = seq_items h s.
Proof.
  destruct s as [ls|l]; [reflexivity|]. intros A. simpl.
  rewrite (core_body h h' l); [reflexivity|]. apply A. simpl. auto.
Qed.
(* the items of a sequence field and what they reach lie inside the footprint of the owner *)
Lemma seq_item_fp h s li i y : seq_items h s = Some li -> In i li -> In y (fpn 1 h i) ->
  In y (flat_map (fpn 2 h) (refs_seq s)).
Proof.
  intros Hs Hi Hy. apply in_flat_map. destruct s as [ls|l]; cbn [seq_items refs_seq] in *.
  - injection Hs as ->. exists i. split; [assumption|]. now apply fpn_mono.
  - destruct (body_at h l) as [[]|] eqn:E; try discriminate. injection Hs as ->.
    exists l. split; [now left|]. eapply fpn_step; [|exact Hy]. unfold refs_at. rewrite E. exact Hi.
Qed.
Lemma abs_tx_agree h h' l : agree_on (fp h l) h h' -> abs_tx h' l = abs_tx h l.
Proof.
  intros A. unfold abs_tx. rewrite (core_body h h' l) by (apply A, fpn_self).
  destruct (body_at h l) as [[| | |ver vi vo w lk|]|] eqn:E; try reflexivity.
  assert (R : refs_at h l = refs_seq vi ++ refs_seq vo) by (unfold refs_at; now rewrite E).
  assert (Avi : agree_on (flat_map (fpn 2 h) (refs_seq vi)) h h').
  { intros y Hy. apply A. unfold fp. cbn [fpn]. right. rewrite R, flat_map_app. apply in_or_app. now left. }
  assert (Avo : agree_on (flat_map (fpn 2 h) (refs_seq vo)) h h').
  { intros y Hy. apply A. unfold fp. cbn [fpn]. right. rewrite R, flat_map_app. apply in_or_app. now right. }
  rewrite (seq_items_agree h h' vi), (seq_items_agree h h' vo).
  2:{ intros y Hy. apply Avo. apply in_flat_map. exists y. split; [assumption|apply fpn_self]. }
  2:{ intros y Hy. apply Avi. apply in_flat_map. exists y. split; [assumption|apply fpn_self]. }
  destruct (seq_items h vi) as [li|] eqn:Ei; [|reflexivity].
  destruct (seq_items h vo) as [lo|] eqn:Eo; [|reflexivity].
  rewrite (opt_all_ext (abs_txin h') (abs_txin h) li).
  2:{ intros i Hi. apply abs_txin_agree. intros y Hy. apply Avi. eapply seq_item_fp; eauto. }
  rewrite (opt_all_ext (abs_txout h') (abs_txout h) lo).
  2:{ intros i Hi. apply abs_txout_agree. apply Avo. eapply seq_item_fp; eauto. apply fpn_self. }
  reflexivity.
Qed.

(* FRAME LEMMA: [abs h x] depends only on the cores of the objects in the footprint of x *)
Theorem abs_frame h h' x : agree_on (fp h x) h h' -> abs h' x = abs h x.
Proof.
  intros A. unfold abs. rewrite (core_body h h' x) by (apply A, fpn_self).
  destruct (body_at h x) as [[]|]; try reflexivity.
  - rewrite (abs_outpoint_agree h h' x); [reflexivity|apply A, fpn_self].
  - rewrite (abs_txin_agree h h' x); [reflexivity|]. intros y Hy. apply A. unfold fp. now do 2 apply fpn_mono.
  - rewrite (abs_txout_agree h h' x); [reflexivity|apply A, fpn_self].
  - rewrite (abs_tx_agree h h' x); [reflexivity|exact A].
Qed.
Lemma fp_frame h h' x : agree_on (fp h x) h h' -> fp h' x = fp h x.
Proof. apply fpn_agree. Qed.

(* ---------- primitive updates ---------- *)
Lemma get_alloc h o l : get (fst (alloc h o)) l = if decide (l = h_next h) then Some o else get h l.
Proof.
  unfold get, alloc. simpl. destruct (decide (l = h_next h)) as [->|N].
  - apply lookup_insert.
  - apply lookup_insert_ne. congruence.
Qed.
Lemma next_alloc h o : h_next (fst (alloc h o)) = S (h_next h).
Proof. reflexivity. Qed.
Lemma snd_alloc h o : snd (alloc h o) = h_next h.
Proof. reflexivity. Qed.
Definition with_body (o : obj) (b : body) : obj :=
  {| o_mut := o_mut o; o_body := b; o_ghash := o_ghash o; o_phash := o_phash o |}.
Lemma get_set_body h l b o l' : get h l = Some o ->
  get (set_body h l b) l' = if decide (l' = l) then Some (with_body o b) else get h l'.
Proof.
  intros E. unfold set_body. rewrite E. unfold get at 1. simpl. destruct (decide (l' = l)) as [->|N].
  - apply lookup_insert.
  - apply lookup_insert_ne. congruence.
Qed.
Lemma next_set_body h l b : h_next (set_body h l b) = h_next h.
Proof. unfold set_body. now destruct (get h l). Qed.
Lemma get_set_ghash h l g o l' : get h l = Some o ->
  get (set_ghash h l g) l' = if decide (l' = l)
    then Some {| o_mut := o_mut o; o_body := o_body o; o_ghash := Some g; o_phash := o_phash o |} else get h l'.
Proof.
  intros E. unfold set_ghash. rewrite E. unfold get at 1. simpl. destruct (decide (l' = l)) as [->|N].
  - apply lookup_insert.
  - apply lookup_insert_ne. congruence.
Qed.
Lemma get_set_phash h l z o l' : get h l = Some o ->
  get (set_phash h l z) l' = if decide (l' = l)
    then Some {| o_mut := o_mut o; o_body := o_body o; o_ghash := o_ghash o; o_phash := Some z |} else get h l'.
Proof.
  intros E. unfold set_phash. rewrite E. unfold get at 1. simpl. destruct (decide (l' = l)) as [->|N].
  - apply lookup_insert.
  - apply lookup_insert_ne. congruence.
Qed.

Section WF.
Variable ser : aval -> res bytes.
Variable H : bytes -> bytes.
Variable pyh : bytes -> Z.

(* The invariant.  [wf_imm] is DEEP IMMUTABILITY: an object of an immutable class refers
   only to objects of immutable classes (in particular never to a list object, [wf_list]).
   [wf_ghash]/[wf_phash]: a filled cache slot of an immutable object holds what would be
   recomputed from the object now. *)
Record wf (h : heap) : Prop := {
  wf_dom : forall l, is_Some (get h l) <-> (l < h_next h)%nat;
  wf_refs : forall l o r, get h l = Some o -> In r (refs_body (o_body o)) -> (r < h_next h)%nat;
  wf_list : forall l o its, get h l = Some o -> o_body o = BList its -> o_mut o = true;
  wf_imm : forall l o r, get h l = Some o -> o_mut o = false -> In r (refs_body (o_body o)) -> mut_at h r = Some false;
  wf_ghash : forall l o g, get h l = Some o -> o_mut o = false -> o_ghash o = Some g -> on_abs h l (v_hash ser H) = Ok g;
  wf_phash : forall l o z, get h l = Some o -> o_mut o = false -> o_phash o = Some z -> on_abs h l (v_pyhash ser pyh) = Ok z
}.

Lemma wf_empty : wf empty_heap.
Proof.
  split; unfold get, empty_heap; simpl; intros *; try (rewrite lookup_empty; discriminate).
  rewrite lookup_empty. split; [intros [? ?]; discriminate|lia].
Qed.

Lemma wf_lt h l o : wf h -> get h l = Some o -> (l < h_next h)%nat.
Proof. intros W E. apply (wf_dom h W). rewrite E. eauto. Qed.
Lemma wf_ge_none h l : wf h -> (h_next h <= l)%nat -> get h l = None.
Proof.
  intros W G. destruct (get h l) eqn:E; [|reflexivity]. apply (wf_lt h l o W) in E. lia.
Qed.
Lemma refs_at_lt h l r : wf h -> In r (refs_at h l) -> (r < h_next h)%nat.
Proof.
  intros W. unfold refs_at, body_at. destruct (get h l) as [o|] eqn:E; simpl; [|tauto].
  intros Hr. eapply wf_refs; eauto.
Qed.
Lemma fpn_lt k h : wf h -> forall l y, (l < h_next h)%nat -> In y (fpn k h l) -> (y < h_next h)%nat.
Proof.
  intros W. induction k as [|k IH]; intros l y L Hy; simpl in Hy.
  - destruct Hy as [<-|[]]. exact L.
  - destruct Hy as [<-|Hy]; [exact L|]. apply in_flat_map in Hy as (r & Hr & Hy).
    eapply IH; [|exact Hy]. eapply refs_at_lt; eauto.
Qed.
Lemma refs_at_imm h l r : wf h -> mut_at h l = Some false -> In r (refs_at h l) -> mut_at h r = Some false.
Proof.
  intros W M. apply mut_at_get in M as (o & E & M). unfold refs_at, body_at. rewrite E. simpl.
  intros Hr. eapply wf_imm; eauto.
Qed.
(* everything an immutable object reaches is immutable *)
Lemma fpn_imm k h : wf h -> forall l y, mut_at h l = Some false -> In y (fpn k h l) -> mut_at h y = Some false.
Proof.
  intros W. induction k as [|k IH]; intros l y M Hy; simpl in Hy.
  - destruct Hy as [<-|[]]. exact M.
  - destruct Hy as [<-|Hy]; [exact M|]. apply in_flat_map in Hy as (r & Hr & Hy).
    eapply IH; [|exact Hy]. eapply refs_at_imm; eauto.
Qed.

(* what every operation does to the part of the heap that existed before:
   [evolves W h h']: only objects in W may have a different class/body; classes never change;
   [imm_kept]: objects of immutable classes keep class and body *)
Definition evolves (W : loc -> Prop) (h h' : heap) : Prop :=
  (h_next h <= h_next h')%nat /\
  (forall l, (l < h_next h)%nat -> ~ W l -> core_at h' l = core_at h l) /\
  (forall l, (l < h_next h)%nat -> mut_at h' l = mut_at h l).
Definition imm_kept (h h' : heap) : Prop :=
  forall l, mut_at h l = Some false -> core_at h' l = core_at h l.
Definition nowhere : loc -> Prop := fun _ => False.

Lemma evolves_refl W h : evolves W h h.
Proof. repeat split; auto. Qed.
Lemma evolves_trans W W' h h1 h2 : evolves W h h1 -> evolves W' h1 h2 ->
  (forall l, (l < h_next h)%nat -> W' l -> W l) -> evolves W h h2.
Proof.
  intros (N1 & C1 & M1) (N2 & C2 & M2) S. split; [lia|]. split.
  - intros l L NW. rewrite C2; [apply C1; auto|lia|]. intros X. apply NW. auto.
  - intros l L. rewrite M2 by lia. auto.
Qed.
Lemma evolves_weaken (W W' : loc -> Prop) h h' : evolves W h h' -> (forall l, W l -> W' l) -> evolves W' h h'.
Proof. intros (N & C & M) S. repeat split; auto. Qed.
Lemma imm_kept_refl h : imm_kept h h.
Proof. intros l _. reflexivity. Qed.
Lemma imm_kept_trans h h1 h2 : imm_kept h h1 -> imm_kept h1 h2 -> imm_kept h h2.
Proof.
  intros A B l M. rewrite B; [apply A; exact M|]. rewrite (core_mut h h1 l); auto.
Qed.

(* immutable objects are frozen by anything that keeps immutable cores *)
Lemma frozen_abs h h' l : wf h -> imm_kept h h' -> mut_at h l = Some false -> abs h' l = abs h l.
Proof.
  intros W K M. apply abs_frame. intros y Hy. apply K. eapply fpn_imm; eauto.
Qed.
(* anything below the allocation pointer is untouched by a pure extension *)
Definition ext (h h' : heap) : Prop :=
  (h_next h <= h_next h')%nat /\ forall l, (l < h_next h)%nat -> get h' l = get h l.
Lemma ext_refl h : ext h h.
Proof. split; auto. Qed.
Lemma ext_trans h h1 h2 : ext h h1 -> ext h1 h2 -> ext h h2.
Proof. intros (N1 & G1) (N2 & G2). split; [lia|]. intros l L. rewrite G2 by lia. auto. Qed.
Lemma ext_evolves h h' : ext h h' -> evolves nowhere h h'.
Proof.
  intros (N & G). split; [exact N|]. split; intros l L; [intros _|].
  - apply get_core. auto.
  - unfold mut_at. now rewrite G.
Qed.
Lemma ext_imm_kept h h' : wf h -> ext h h' -> imm_kept h h'.
Proof.
  intros W (N & G) l M. apply get_core, G. apply mut_at_get in M as (o & E & _). eapply wf_lt; eauto.
Qed.
Lemma ext_abs h h' x : wf h -> ext h h' -> (x < h_next h)%nat -> abs h' x = abs h x.
Proof.
  intros W (N & G) L. apply abs_frame. intros y Hy. apply get_core, G. eapply fpn_lt; eauto.
Qed.
Lemma ext_alloc h o : ext h (fst (alloc h o)).
Proof.
  split; [rewrite next_alloc; lia|]. intros l L. rewrite get_alloc. destruct (decide (l = h_next h)); [lia|reflexivity].
Qed.
Lemma ext_mut_at h h' l m : wf h -> ext h h' -> mut_at h l = Some m -> mut_at h' l = Some m.
Proof.
  intros W (N & G) M. unfold mut_at. rewrite G; [exact M|]. apply mut_at_get in M as (o & E & _). eapply wf_lt; eauto.
Qed.

Lemma on_abs_eq {A} h h' l (f : aval -> res A) : abs h' l = abs h l -> on_abs h' l f = on_abs h l f.
Proof. unfold on_abs. now intros ->. Qed.

(* --- alloc --- *)
Lemma alloc_wf h o : wf h ->
  (forall r, In r (refs_body (o_body o)) -> (r < h_next h)%nat) ->
  (forall its, o_body o = BList its -> o_mut o = true) ->
  (o_mut o = false -> forall r, In r (refs_body (o_body o)) -> mut_at h r = Some false) ->
  o_ghash o = None -> o_phash o = None ->
  wf (fst (alloc h o)).
Proof.
  intros W R Li Im G P.
  assert (X := ext_alloc h o).
  assert (AB : forall l, (l < h_next h)%nat -> abs (fst (alloc h o)) l = abs h l) by (intros; now apply ext_abs).
  split.
  - intros l. rewrite get_alloc, next_alloc. destruct (decide (l = h_next h)) as [->|N].
    + split; [lia|eauto].
    + rewrite (wf_dom h W). lia.
  - intros l o' r. rewrite get_alloc, next_alloc. destruct (decide (l = h_next h)) as [->|N].
    + intros [= <-] Hr. apply R in Hr. lia.
    + intros E Hr. pose proof (wf_refs h W l o' r E Hr). lia.
  - intros l o' its. rewrite get_alloc. destruct (decide (l = h_next h)) as [->|N].
    + intros [= <-]. apply Li.
    + apply (wf_list h W).
  - intros l o' r. rewrite get_alloc. destruct (decide (l = h_next h)) as [->|N].
    + intros [= <-] M Hr. eapply ext_mut_at; eauto.
    + intros E M Hr. eapply ext_mut_at; eauto. eapply wf_imm; eauto.
  - intros l o' g. rewrite get_alloc. destruct (decide (l = h_next h)) as [->|N].
    + intros [= <-]. congruence.
    + intros E M Hg. rewrite (on_abs_eq h) by (apply AB; eapply wf_lt; eauto). eapply wf_ghash; eauto.
  - intros l o' z. rewrite get_alloc. destruct (decide (l = h_next h)) as [->|N].
    + intros [= <-]. congruence.
    + intros E M Hz. rewrite (on_abs_eq h) by (apply AB; eapply wf_lt; eauto). eapply wf_phash; eauto.
Qed.

(* --- set_body on an object of a mutable class --- *)
Lemma set_body_evolves h l b : evolves (fun w => w = l) h (set_body h l b).
Proof.
  destruct (get h l) as [o|] eqn:E.
  2:{ unfold set_body. rewrite E. apply evolves_refl. }
  split; [rewrite next_set_body; lia|]. split; intros l' L.
  - intros N. apply get_core. rewrite (get_set_body h l b o l' E). destruct (decide (l' = l)); [contradiction|reflexivity].
  - unfold mut_at. rewrite (get_set_body h l b o l' E). destruct (decide (l' = l)) as [->|]; [|reflexivity].
    rewrite E. reflexivity.
Qed.
Lemma set_body_imm_kept h l b o : get h l = Some o -> o_mut o = true -> imm_kept h (set_body h l b).
Proof.
  intros E M l' M'. apply get_core. rewrite (get_set_body h l b o l' E).
  destruct (decide (l' = l)) as [->|]; [|reflexivity].
  apply mut_at_get in M' as (o' & E' & M'). congruence.
Qed.
Lemma set_body_mut_at h l b l' : mut_at (set_body h l b) l' = mut_at h l'.
Proof.
  destruct (get h l) as [o|] eqn:E; [|unfold set_body; now rewrite E].
  unfold mut_at. rewrite (get_set_body h l b o l' E). destruct (decide (l' = l)) as [->|]; [|reflexivity]. now rewrite E.
Qed.
Lemma set_body_wf h l b o : wf h -> get h l = Some o -> o_mut o = true ->
  (forall r, In r (refs_body b) -> (r < h_next h)%nat) -> wf (set_body h l b).
Proof.
  intros W E M R.
  assert (K := set_body_imm_kept h l b o E M).
  split.
  - intros l'. rewrite next_set_body, (get_set_body h l b o l' E). destruct (decide (l' = l)) as [->|].
    + split; [intros _; eapply wf_lt; eauto|eauto].
    + apply (wf_dom h W).
  - intros l' o' r. rewrite next_set_body, (get_set_body h l b o l' E). destruct (decide (l' = l)) as [->|].
    + intros [= <-]. simpl. apply R.
    + apply (wf_refs h W).
  - intros l' o' its. rewrite (get_set_body h l b o l' E). destruct (decide (l' = l)) as [->|].
    + intros [= <-]. simpl. auto.
    + apply (wf_list h W).
  - intros l' o' r. rewrite (get_set_body h l b o l' E), set_body_mut_at. destruct (decide (l' = l)) as [->|].
    + intros [= <-]. simpl. congruence.
    + apply (wf_imm h W).
  - intros l' o' g. rewrite (get_set_body h l b o l' E). destruct (decide (l' = l)) as [->|].
    + intros [= <-]. simpl. congruence.
    + intros E' M' Hg. rewrite (on_abs_eq h); [eapply wf_ghash; eauto|].
      apply frozen_abs; auto. apply mut_at_get. eauto.
  - intros l' o' z. rewrite (get_set_body h l b o l' E). destruct (decide (l' = l)) as [->|].
    + intros [= <-]. simpl. congruence.
    + intros E' M' Hz. rewrite (on_abs_eq h); [eapply wf_phash; eauto|].
      apply frozen_abs; auto. apply mut_at_get. eauto.
Qed.

(* --- cache writes: no core changes at all --- *)
Definition same_cores (h h' : heap) : Prop := h_next h' = h_next h /\ forall l, core_at h' l = core_at h l.
Lemma same_cores_abs h h' l : same_cores h h' -> abs h' l = abs h l.
Proof. intros (_ & C). apply abs_frame. intros y _. apply C. Qed.
Lemma same_cores_evolves h h' : same_cores h h' -> evolves nowhere h h' /\ imm_kept h h'.
Proof.
  intros (N & C). split; [split; [lia|split]|]; intros l; intros; auto. apply core_mut, C.
Qed.
Lemma set_ghash_cores h l g : same_cores h (set_ghash h l g).
Proof.
  unfold set_ghash. destruct (get h l) as [o|] eqn:E; [|split; auto].
  split; [reflexivity|]. intros l'. unfold core_at, get at 1. simpl.
  destruct (decide (l' = l)) as [->|N]; [rewrite lookup_insert, E; reflexivity|rewrite lookup_insert_ne by congruence; reflexivity].
Qed.
Lemma set_phash_cores h l z : same_cores h (set_phash h l z).
Proof.
  unfold set_phash. destruct (get h l) as [o|] eqn:E; [|split; auto].
  split; [reflexivity|]. intros l'. unfold core_at, get at 1. simpl.
  destruct (decide (l' = l)) as [->|N]; [rewrite lookup_insert, E; reflexivity|rewrite lookup_insert_ne by congruence; reflexivity].
Qed.
(* a heap with the same cores whose caches are the old ones or freshly recomputed values is wf *)
Lemma cache_write_wf h h' : wf h -> same_cores h h' ->
  (forall l o', get h' l = Some o' -> exists o, get h l = Some o /\ core o' = core o /\
     (o_ghash o' = o_ghash o \/ exists g, o_ghash o' = Some g /\ on_abs h l (v_hash ser H) = Ok g) /\
     (o_phash o' = o_phash o \/ exists z, o_phash o' = Some z /\ on_abs h l (v_pyhash ser pyh) = Ok z)) ->
  wf h'.
Proof.
  intros W SC Hc. destruct SC as (N & C).
  assert (MA : forall l, mut_at h' l = mut_at h l) by (intros; apply core_mut, C).
  split.
  - intros l. rewrite N, <- (wf_dom h W). unfold is_Some. specialize (C l). unfold core_at in C.
    destruct (get h' l), (get h l); simpl in C; try discriminate; split; eauto; intros [? ?]; discriminate.
  - intros l o' r E Hr. destruct (Hc l o' E) as (o & E0 & Co & _). rewrite N.
    inversion Co as [[Cm Cb]]. rewrite Cb in Hr. eapply wf_refs; eauto.
  - intros l o' its E B. destruct (Hc l o' E) as (o & E0 & Co & _). inversion Co as [[Cm Cb]].
    rewrite Cm. apply (wf_list h W l o its); [exact E0|congruence].
  - intros l o' r E M Hr. destruct (Hc l o' E) as (o & E0 & Co & _). inversion Co as [[Cm Cb]].
    rewrite MA. eapply wf_imm; eauto; congruence.
  - intros l o' g E M Hg. destruct (Hc l o' E) as (o & E0 & Co & [Gs|(g' & Gs & Gv)] & _); inversion Co as [[Cm Cb]];
      rewrite (on_abs_eq h) by (apply same_cores_abs; split; auto).
    + eapply wf_ghash; eauto; congruence.
    + congruence.
  - intros l o' z E M Hz. destruct (Hc l o' E) as (o & E0 & Co & _ & [Ps|(z' & Ps & Pv)]); inversion Co as [[Cm Cb]];
      rewrite (on_abs_eq h) by (apply same_cores_abs; split; auto).
    + eapply wf_phash; eauto; congruence.
    + congruence.
Qed.
Lemma set_ghash_wf h l g : wf h -> on_abs h l (v_hash ser H) = Ok g -> wf (set_ghash h l g).
Proof.
  intros W V. apply (cache_write_wf h); [assumption|apply set_ghash_cores|].
  destruct (get h l) as [o|] eqn:E.
  2:{ unfold set_ghash. rewrite E. intros l' o' E'. exists o'. auto. }
  intros l' o'. rewrite (get_set_ghash h l g o l' E). destruct (decide (l' = l)) as [->|].
  - intros [= <-]. exists o. simpl. repeat split; eauto.
  - intros E'. exists o'. auto.
Qed.
Lemma set_phash_wf h l z : wf h -> on_abs h l (v_pyhash ser pyh) = Ok z -> wf (set_phash h l z).
Proof.
  intros W V. apply (cache_write_wf h); [assumption|apply set_phash_cores|].
  destruct (get h l) as [o|] eqn:E.
  2:{ unfold set_phash. rewrite E. intros l' o' E'. exists o'. auto. }
  intros l' o'. rewrite (get_set_phash h l z o l' E). destruct (decide (l' = l)) as [->|].
  - intros [= <-]. exists o. simpl. repeat split; eauto.
  - intros E'. exists o'. auto.
Qed.
End WF.
