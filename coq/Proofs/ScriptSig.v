(* Proofs/ScriptSig.v – C06: CHECKSIG(VERIFY) on a script that parses: the model's
   FindAndDelete / oracle call equals the reference's. *)
From BV Require Import Common.Base Common.PyList Common.Tx Common.ScriptFlags
  Gen.ScriptConsts Gen.EvalConsts Model.Script Model.FindAndDelete Model.ScriptEval
  Spec.Script Spec.ScriptRef Proofs.ScriptStack Proofs.ScriptNum Proofs.ScriptIter Proofs.FindAndDelete Proofs.ScriptEval.

(* ---------- a list of well-formed operations always re-parses ---------- *)
Fixpoint reindex (off : Z) (ops : list sop) : list sop :=
  match ops with
  | [] => []
  | o :: r => mk_sop (sop_opcode o) (sop_data o) off :: reindex (off + lenZ (sop_bytes o)) r
  end.
Lemma reindex_bytes ops : forall off, ops_bytes (reindex off ops) = ops_bytes ops.
Proof. induction ops as [|o r IH]; intros off; [reflexivity|]. cbn [reindex]. rewrite !ops_bytes_cons, IH. reflexivity. Qed.
Lemma reindex_wf ops : forall off, Forall sop_wf ops -> Forall sop_wf (reindex off ops).
Proof. induction ops as [|o r IH]; intros off F; [constructor|]. inversion F; subst. constructor; [assumption|now apply IH]. Qed.
Lemma reindex_consecutive ops : forall off, consecutive off (reindex off ops).
Proof. induction ops as [|o r IH]; intros off; [exact I|]. cbn [reindex consecutive sop_idx]. split; [reflexivity|]. apply IH. Qed.
Lemma ops_bytes_parse ops : Forall sop_wf ops -> raw_iter (ops_bytes ops) = (reindex 0 ops, None).
Proof.
  intros F. destruct (raw_iter_complete (reindex 0 ops) [] (reindex_wf ops 0 F) (reindex_consecutive ops 0) (or_introl eq_refl)) as (e & E & N & _).
  rewrite app_nil_r, reindex_bytes in E. rewrite E, (N eq_refl). reflexivity.
Qed.
(* what parses, as bytes of well-formed operations *)
Lemma parsed_ops s ops : raw_iter s = (ops, None) -> Forall sop_wf ops /\ s = ops_bytes ops.
Proof.
  intros E. destruct (raw_iter_sound s ops None E) as (W & _ & rest & Es & N & _).
  rewrite (N eq_refl), app_nil_r in Es. auto.
Qed.
Lemma fad_ops_ops pat ops : Forall sop_wf ops -> exists ops', Forall sop_wf ops' /\ fad_ops pat ops = ops_bytes ops'.
Proof.
  intros F. exists (filter (fun o => negb (bytes_eqb (sop_bytes o) pat)) ops). split.
  - apply Forall_forall. intros x Hx. apply filter_In in Hx as [Hx _]. rewrite Forall_forall in F. now apply F.
  - unfold fad_ops, ops_bytes. induction ops as [|o r IH]; [reflexivity|]. inversion F; subst.
    cbn [map concat filter]. destruct (bytes_eqb (sop_bytes o) pat); cbn [negb app map concat]; rewrite IH by assumption; reflexivity.
Qed.
(* FindAndDelete of one operation from a script that parses gives a script that parses *)
Lemma fad_ref_parses s ops pat : one_op pat -> raw_iter s = (ops, None) ->
  exists ops', raw_iter (find_and_delete_ref s pat) = (ops', None).
Proof.
  intros P E. destruct (parsed_ops s ops E) as [W ->]. rewrite (fad_ref_ops_bytes pat ops P W).
  destruct (fad_ops_ops pat ops W) as (ops' & W' & ->). eexists. apply ops_bytes_parse. exact W'.
Qed.

Lemma codesep_byte : z2b OP_CODESEPARATOR = xab.
Proof. reflexivity. Qed.
Lemma push_head_not_codesep x : lenZ x < 2^32 -> hd_error (ref_push x) <> Some xab.
Proof.
  intros H. unfold ref_push. destruct (Z.ltb_spec (lenZ x) 76).
  - cbn [hd_error]. intros E. injection E as E. apply (f_equal b2z) in E. rewrite b2z_z2b in E.
    change (b2z xab) with 171 in E. unfold lenZ in *. rewrite Z.mod_small in E by lia. lia.
  - destruct (lenZ x <=? 255); [discriminate|]. destruct (lenZ x <=? 65535); discriminate.
Qed.

Section Sig.
Variable checksig : bytes -> bytes -> bytes -> bool.
Variable ripemd160 sha1 sha256 : bytes -> bytes.
Variable fl : flags.
Hypothesis checksig_empty : forall pk code, checksig [] pk code = false.
Notation check_sig := (check_sig checksig).

(* the model's _CheckSig on a subscript that parses *)
Lemma check_sig_parsed sig pk script ops : raw_iter script = (ops, None) ->
  check_sig sig pk script = Ok (checksig sig pk (find_and_delete_ref script [xab])).
Proof.
  intros E. unfold ScriptEval.check_sig. destruct sig as [|b sig]; cbn [is_nil]; [now rewrite checksig_empty|].
  rewrite codesep_byte, (fad_model_ref script [xab] ops one_op_codesep E). reflexivity.
Qed.

(* the code the model hands to FindAndDelete: the script from pbegincodehash, which starts
   AT the last executed CODESEPARATOR, versus the reference's code after it *)
Definition code_rel (tmp sub : bytes) : Prop := tmp = sub \/ tmp = xab :: sub.
Lemma code_rel_fad tmp sub x : lenZ x < 2^32 -> code_rel tmp sub ->
  find_and_delete_ref (find_and_delete_ref tmp (ref_push x)) [xab]
  = find_and_delete_ref (find_and_delete_ref sub (ref_push x)) [xab].
Proof.
  intros H [->| ->]; [reflexivity|].
  rewrite fad_ref_cons_op by (try (change (b2z xab) with 171; lia); now apply push_head_not_codesep).
  apply fad_ref_head_byte.
Qed.

(* the whole CHECKSIG prefix of the model: push_of, FindAndDelete, _CheckSig *)
Lemma checksig_core tmp sub ops sig pk : raw_iter tmp = (ops, None) -> code_rel tmp sub -> lenZ sig < 2^32 ->
  (do p <- push_of sig; do tmp' <- find_and_delete tmp p; check_sig sig pk tmp')
  = Ok (checksig sig pk (find_and_delete_ref (find_and_delete_ref sub (ref_push sig)) [xab])).
Proof.
  intros E R H. rewrite (push_of_ref sig H). cbn [bind].
  rewrite (fad_model_ref tmp (ref_push sig) ops (one_op_push sig H) E). cbn [bind].
  destruct (fad_ref_parses tmp ops (ref_push sig) (one_op_push sig H) E) as (ops' & E').
  rewrite (check_sig_parsed sig pk _ ops' E'). now rewrite (code_rel_fad tmp sub sig H R).
Qed.
(* … and when the subscript does not parse, the generator's exception propagates *)
Lemma checksig_core_err tmp ops e sig pk : raw_iter tmp = (ops, Some e) -> lenZ sig < 2^32 ->
  (do p <- push_of sig; do tmp' <- find_and_delete tmp p; check_sig sig pk tmp') = Err e.
Proof.
  intros E H. rewrite (push_of_ref sig H). cbn [bind]. now rewrite (fad_model_err tmp (ref_push sig) ops e E).
Qed.
End Sig.
