(* Proofs/ScriptSig.v – C06: CHECKSIG(VERIFY) on a script that parses: the model's
   FindAndDelete / oracle call equals the reference's. *)
From BV Require Import Common.Base Common.PyList Common.Tx Common.ScriptFlags
  Gen.ScriptConsts Gen.EvalConsts Model.Script Model.FindAndDelete Model.ScriptEval
  Spec.Script Spec.ScriptRef Proofs.ScriptStack Proofs.ScriptNum Proofs.ScriptIter Proofs.FindAndDelete Proofs.ScriptEval.

(* ---------- a list of well-formed operations always re-parses ---------- *)
Fixpoint reindex (off : Z) (ops : list sop) : list sop :=
  match ops with
  | [] => []
  | o :: r => mk_sop (sop_opcode o) (sop_data o) off :: reindex (off + lenZ (sop_bytes o)) r
  end.
Lemma reindex_bytes ops : forall off, ops_bytes (reindex off ops) = ops_bytes ops.
Proof. induction ops as [|o r IH]; intros off; [reflexivity|]. cbn [reindex]. rewrite !ops_bytes_cons, IH. reflexivity. Qed.
Lemma reindex_wf ops : forall off, Forall sop_wf ops -> Forall sop_wf (reindex off ops).
Proof. induction ops as [|o r IH]; intros off F; [constructor|]. inversion F; subst. constructor; [assumption|now apply IH]. Qed.
Lemma reindex_consecutive ops : forall off, consecutive off (reindex off ops).
Proof. induction ops as [|o r IH]; intros off; [exact I|]. cbn [reindex consecutive sop_idx]. split; [reflexivity|]. apply IH. Qed.
Lemma ops_bytes_parse ops : Forall sop_wf ops -> raw_iter (ops_bytes ops) = (reindex 0 ops, None).
Proof.
  intros F. destruct (raw_iter_complete (reindex 0 ops) [] (reindex_wf ops 0 F) (reindex_consecutive ops 0) (or_introl eq_refl)) as (e & E & N & _).
  rewrite app_nil_r, reindex_bytes in E. rewrite E, (N eq_refl). reflexivity.
Qed.
(* what parses, as bytes of well-formed operations *)
Lemma parsed_ops s ops : raw_iter s = (ops, None) -> Forall sop_wf ops /\ s = ops_bytes ops.
Proof.
  intros E. destruct (raw_iter_sound s ops None E) as (W & _ & rest & Es & N & _).
  rewrite (N eq_refl), app_nil_r in Es. auto.
Qed.
Lemma fad_ops_ops pat ops : Forall sop_wf ops -> exists ops', Forall sop_wf ops' /\ fad_ops pat ops = ops_bytes ops'.
Proof.
  intros F. exists (filter (fun o => negb (bytes_eqb (sop_bytes o) pat)) ops). split.
  - apply Forall_forall. intros x Hx. apply filter_In in Hx as [Hx _]. rewrite Forall_forall in F. now apply F.
  - unfold fad_ops, ops_bytes. induction ops as [|o r IH]; [reflexivity|]. inversion F; subst.
    cbn [map concat filter]. destruct (bytes_eqb (sop_bytes o) pat); cbn [negb app map concat]; rewrite IH by assumption; reflexivity.
Qed.
(* FindAndDelete of one operation from a script that parses gives a script that parses *)
Lemma fad_ref_parses s ops pat : one_op pat -> raw_iter s = (ops, None) ->
  exists ops', raw_iter (find_and_delete_ref s pat) = (ops', None).
Proof.
  intros P E. destruct (parsed_ops s ops E) as [W ->]. rewrite (fad_ref_ops_bytes pat ops P W).
  destruct (fad_ops_ops pat ops W) as (ops' & W' & ->). eexists. apply ops_bytes_parse. exact W'.
Qed.

Lemma codesep_byte : z2b OP_CODESEPARATOR = xab.
Proof. reflexivity. Qed.
Lemma push_head_not_codesep x : lenZ x < 2^32 -> hd_error (ref_push x) <> Some xab.
Proof.
  intros H. unfold ref_push. destruct (Z.ltb_spec (lenZ x) 76).
  - cbn [hd_error]. intros E. injection E as E. apply (f_equal b2z) in E. rewrite b2z_z2b in E.
    change (b2z xab) with 171 in E. unfold lenZ in *. rewrite Z.mod_small in E by lia. lia.
  - destruct (lenZ x <=? 255); [discriminate|]. destruct (lenZ x <=? 65535); discriminate.
Qed.

Section Sig.
Variable checksig : bytes -> bytes -> bytes -> bool.
Variable ripemd160 sha1 sha256 : bytes -> bytes.
Variable fl : flags.
Hypothesis checksig_empty : forall pk code, checksig [] pk code = false.
Notation check_sig := (check_sig checksig).

(* the model's _CheckSig on a subscript that parses *)
Lemma check_sig_parsed sig pk script ops : raw_iter script = (ops, None) ->
  check_sig sig pk script = Ok (checksig sig pk (find_and_delete_ref script [xab])).
Proof.
  intros E. unfold ScriptEval.check_sig. destruct sig as [|b sig]; cbn [is_nil]; [now rewrite checksig_empty|].
  rewrite codesep_byte, (fad_model_ref script [xab] ops one_op_codesep E). reflexivity.
Qed.

(* the code the model hands to FindAndDelete: the script from pbegincodehash, which starts
   AT the last executed CODESEPARATOR, versus the reference's code after it *)
Definition code_rel (tmp sub : bytes) : Prop := tmp = sub \/ tmp = xab :: sub.
Lemma code_rel_fad tmp sub x : lenZ x < 2^32 -> code_rel tmp sub ->
  find_and_delete_ref (find_and_delete_ref tmp (ref_push x)) [xab]
  = find_and_delete_ref (find_and_delete_ref sub (ref_push x)) [xab].
Proof.
  intros H [->| ->]; [reflexivity|].
  rewrite fad_ref_cons_op by (try (change (b2z xab) with 171; lia); now apply push_head_not_codesep).
  apply fad_ref_head_byte.
Qed.

(* the whole CHECKSIG prefix of the model: push_of, FindAndDelete, _CheckSig *)
Lemma checksig_core tmp sub ops sig pk : raw_iter tmp = (ops, None) -> code_rel tmp sub -> lenZ sig < 2^32 ->
  (do p <- push_of sig; do tmp' <- find_and_delete tmp p; check_sig sig pk tmp')
  = Ok (checksig sig pk (find_and_delete_ref (find_and_delete_ref sub (ref_push sig)) [xab])).
Proof.
  intros E R H. rewrite (push_of_ref sig H). cbn [bind].
  rewrite (fad_model_ref tmp (ref_push sig) ops (one_op_push sig H) E). cbn [bind].
  destruct (fad_ref_parses tmp ops (ref_push sig) (one_op_push sig H) E) as (ops' & E').
  rewrite (check_sig_parsed sig pk _ ops' E'). now rewrite (code_rel_fad tmp sub sig H R).
Qed.
(* … and when the subscript does not parse, the generator's exception propagates *)
Lemma checksig_core_err tmp ops e sig pk : raw_iter tmp = (ops, Some e) -> lenZ sig < 2^32 ->
  (do p <- push_of sig; do tmp' <- find_and_delete tmp p; check_sig sig pk tmp') = Err e.
Proof.
  intros E H. rewrite (push_of_ref sig H). cbn [bind]. now rewrite (fad_model_err tmp (ref_push sig) ops e E).
Qed.

Notation exec := (exec checksig ripemd160 sha1 sha256 fl).
Notation exec_op := (exec_op checksig ripemd160 sha1 sha256 fl).

Ltac lens := rewrite ?len_cons, ?len_nil in *;
  repeat match goal with
         | |- context [len ?l] => lazymatch goal with H : 0 <= len l |- _ => fail | _ => pose proof (len_nonneg l) end
         | H : context [len ?l] |- _ => lazymatch goal with H' : 0 <= len l |- _ => fail | _ => pose proof (len_nonneg l) end
         end; lia.

(* CHECKSIG / CHECKSIGVERIFY on a script whose code from pbegincodehash parses *)
Lemma sim_checksig scriptIn r pb o rest vfy ops :
  let tmp := py_slice scriptIn pb (lenZ scriptIn) in
  raw_iter tmp = (ops, None) -> code_rel tmp (r_sub r) -> Forall small (r_stack r) ->
  ref_kind (sop_opcode o) = KChecksig vfy ->
  sim1 (exec scriptIn (abs r pb) o (KChecksig vfy)) (exec_op (sop_opcode o) rest r) pb.
Proof.
  intros tmp E R S K. unfold ScriptRef.exec_op. rewrite K. unfold ScriptEval.exec, abs, sim1, set_stack.
  cbn [stack altstack vfExec pbegincodehash nOpCount]. fold tmp.
  destruct r as [st al vf sub nop]. cbn [r_stack r_alt r_vf r_sub r_nop with_stack] in *.
  destruct st as [|pk [|sig st]].
  - rewrite check_args_rev_fail by lens. reflexivity.
  - rewrite check_args_rev_fail by lens. reflexivity.
  - rewrite check_args_rev_ok by lens. cbn [bind].
    rewrite (py_nth_rev _ 1 pk) by (first [lia|reflexivity]). rewrite (py_nth_rev _ 2 sig) by (first [lia|reflexivity]). cbn [bind].
    assert (Hs : lenZ sig < 2^32).
    { inversion S as [|? ? _ S']; subst. inversion S' as [|? ? Ss _]; subst. unfold small in Ss. lia. }
    pose proof (checksig_core tmp sub ops sig pk E R Hs) as C.
    destruct (push_of sig) as [p|e] eqn:Ep; cbn [bind] in C |- *; [|discriminate C].
    destruct (find_and_delete tmp p) as [tmp'|e] eqn:Ef; cbn [bind] in C |- *; [|discriminate C].
    rewrite C. cbn [bind]. unfold do_checksig. cbn [r_sub].
    set (ok := checksig sig pk _).
    destruct ok, vfy; cbn [negb andb]; try reflexivity;
      rewrite pop_n_rev by (cbn [length]; lia); cbn [bind skipn]; rewrite ?push_rev; reflexivity.
Qed.
(* … and when it does not parse: the tokeniser's exception, unless too few arguments *)
Lemma checksig_unparsed scriptIn r pb o rest vfy ops e :
  let tmp := py_slice scriptIn pb (lenZ scriptIn) in
  raw_iter tmp = (ops, Some e) -> Forall small (r_stack r) ->
  ref_kind (sop_opcode o) = KChecksig vfy ->
  sim1 (exec scriptIn (abs r pb) o (KChecksig vfy)) (exec_op (sop_opcode o) rest r) pb \/
  exec scriptIn (abs r pb) o (KChecksig vfy) = Err e.
Proof.
  intros tmp E S K. unfold ScriptRef.exec_op. rewrite K. unfold ScriptEval.exec, abs, sim1, set_stack.
  cbn [stack altstack vfExec pbegincodehash nOpCount]. fold tmp.
  destruct r as [st al vf sub nop]. cbn [r_stack r_alt r_vf r_sub r_nop with_stack] in *.
  destruct st as [|pk [|sig st]].
  - left. rewrite check_args_rev_fail by lens. reflexivity.
  - left. rewrite check_args_rev_fail by lens. reflexivity.
  - right. rewrite check_args_rev_ok by lens. cbn [bind].
    rewrite (py_nth_rev _ 1 pk) by (first [lia|reflexivity]). rewrite (py_nth_rev _ 2 sig) by (first [lia|reflexivity]). cbn [bind].
    assert (Hs : lenZ sig < 2^32).
    { inversion S as [|? ? _ S']; subst. inversion S' as [|? ? Ss _]; subst. unfold small in Ss. lia. }
    pose proof (checksig_core_err tmp ops e sig pk E Hs) as C.
    destruct (push_of sig) as [p|e'] eqn:Ep; cbn [bind] in C |- *; [|now injection C as ->].
    destruct (find_and_delete tmp p) as [tmp'|e'] eqn:Ef; cbn [bind] in C |- *; [|now injection C as ->].
    rewrite C. reflexivity.
Qed.

(* ---------- CHECKMULTISIG ---------- *)
Lemma nth_error_skipn_hd {A} (l : list A) n x t : skipn n l = x :: t -> nth_error l n = Some x.
Proof.
  revert l. induction n as [|n IH]; intros [|y l] E; cbn in *; try discriminate; [now injection E as -> _|now apply IH].
Qed.
Lemma skipn_S_tl {A} (l : list A) n x t : skipn n l = x :: t -> skipn (S n) l = t.
Proof.
  revert l. induction n as [|n IH]; intros [|y l] E; cbn in *; try discriminate; [now injection E as _ ->|now apply IH].
Qed.

(* the `while success and sigs_count > 0` loop is the reference walk over the two lists *)
Lemma ms_loop_walk (rs : list bytes) script ops vfy : raw_iter script = (ops, None) ->
  forall keys sigs fuel isig ikey tk ts,
  0 < isig -> 0 < ikey ->
  skipn (Z.to_nat (isig - 1)) rs = sigs ++ ts -> skipn (Z.to_nat (ikey - 1)) rs = keys ++ tk ->
  (length sigs <= length keys)%nat -> (length keys < fuel)%nat ->
  ms_loop checksig fuel vfy (rev rs) script isig ikey (lenZ sigs) (lenZ keys)
  = let ok := ms_walk checksig sigs keys (find_and_delete_ref script [xab]) in
    if ok then Ok true else if vfy then Err EvalErr else Ok false.
Proof.
  intros E. induction keys as [|k keys IH]; intros sigs fuel isig ikey tk ts Hi Hk Ss Sk L F.
  - destruct sigs; [|cbn in L; lia]. destruct fuel; [cbn in F; lia|]. reflexivity.
  - destruct fuel as [|fuel]; [cbn in F; lia|].
    destruct sigs as [|sg sigs].
    + cbn [ms_loop lenZ length Z.of_nat]. reflexivity.
    + assert (SC : lenZ (sg :: sigs) = lenZ sigs + 1) by (unfold lenZ; cbn [length]; lia).
      assert (KC : lenZ (k :: keys) = lenZ keys + 1) by (unfold lenZ; cbn [length]; lia).
      assert (P1 : 0 <= lenZ sigs) by (unfold lenZ; lia).
      cbn [ms_loop]. rewrite SC, KC.
      destruct (Z.gtb_spec (lenZ sigs + 1) 0); [|lia]. cbn [negb].
      cbn [app] in Ss, Sk.
      rewrite (py_nth_rev rs isig sg) by (try lia; eapply nth_error_skipn_hd; exact Ss).
      rewrite (py_nth_rev rs ikey k) by (try lia; eapply nth_error_skipn_hd; exact Sk). cbn [bind].
      rewrite (check_sig_parsed sg k script ops E). cbn [bind].
      cbn [ms_walk]. cbn [length] in L.
      destruct (Nat.ltb_spec (length (k :: keys)) (length (sg :: sigs))) as [C|C]; [cbn [length] in C; lia|].
      set (code := find_and_delete_ref script [xab]).
      assert (Sk' : skipn (Z.to_nat (ikey + 1 - 1)) rs = keys ++ tk).
      { replace (Z.to_nat (ikey + 1 - 1)) with (S (Z.to_nat (ikey - 1))) by lia. eapply skipn_S_tl; exact Sk. }
      replace (lenZ keys + 1 - 1) with (lenZ keys) by lia.
      destruct (checksig sg k code).
      * (* the signature is consumed *)
        assert (Ss' : skipn (Z.to_nat (isig + 1 - 1)) rs = sigs ++ ts).
        { replace (Z.to_nat (isig + 1 - 1)) with (S (Z.to_nat (isig - 1))) by lia. eapply skipn_S_tl; exact Ss. }
        replace (lenZ sigs + 1 - 1) with (lenZ sigs) by lia.
        destruct (Z.gtb_spec (lenZ sigs) (lenZ keys)) as [G|G]; [unfold lenZ in G; lia|].
        apply (IH sigs fuel (isig + 1) (ikey + 1) tk ts); try lia; try assumption. cbn [length] in F. lia.
      * rewrite <- SC.
        destruct (Z.gtb_spec (lenZ (sg :: sigs)) (lenZ keys)) as [G|G].
        -- (* more signatures than keys left *)
           destruct keys as [|k2 keys]; [cbn [ms_walk]; reflexivity|].
           cbn [ms_walk]. destruct (Nat.ltb_spec (length (k2 :: keys)) (length (sg :: sigs))); [reflexivity|].
           unfold lenZ in G. cbn [length] in *. lia.
        -- rewrite (IH (sg :: sigs) fuel isig (ikey + 1) tk ts); try lia; try assumption.
           ++ reflexivity.
           ++ unfold lenZ in G. cbn [length] in *. lia.
           ++ cbn [length] in F. lia.
Qed.

Definition fad_sigs (sigs : list bytes) (code : bytes) : bytes :=
  fold_left (fun c sg => find_and_delete_ref c (ref_push sg)) sigs code.

Lemma ms_fad_fold (rs : list bytes) isig ts : 0 < isig ->
  forall sigs j script ops, 0 <= j ->
  skipn (Z.to_nat (isig + j - 1)) rs = sigs ++ ts -> Forall small sigs -> raw_iter script = (ops, None) ->
  ms_fad (length sigs) isig (rev rs) script j = Ok (fad_sigs sigs script) /\
  exists ops', raw_iter (fad_sigs sigs script) = (ops', None).
Proof.
  intros Hi. induction sigs as [|sg sigs IH]; intros j script ops Hj Ss F E.
  - cbn. split; [reflexivity|eauto].
  - cbn [length ms_fad fad_sigs fold_left]. cbn [app] in Ss. inversion F as [|? ? Fs F']; subst.
    replace (- isig - j) with (- (isig + j)) by lia.
    rewrite (py_nth_rev rs (isig + j) sg) by (try lia; eapply nth_error_skipn_hd; exact Ss). cbn [bind].
    assert (Hs : lenZ sg < 2^32) by (unfold small in Fs; lia).
    rewrite (push_of_ref sg Hs). cbn [bind].
    rewrite (fad_model_ref script (ref_push sg) ops (one_op_push sg Hs) E). cbn [bind].
    destruct (fad_ref_parses script ops (ref_push sg) (one_op_push sg Hs) E) as (ops1 & E1).
    apply (IH (j + 1) _ ops1); try lia; try assumption.
    replace (Z.to_nat (isig + (j + 1) - 1)) with (S (Z.to_nat (isig + j - 1))) by lia. eapply skipn_S_tl; exact Ss.
Qed.
Lemma ms_fad_err (rs : list bytes) isig ts sg sigs script ops e :
  0 < isig -> skipn (Z.to_nat (isig - 1)) rs = (sg :: sigs) ++ ts -> small sg -> raw_iter script = (ops, Some e) ->
  ms_fad (S (length sigs)) isig (rev rs) script 0 = Err e.
Proof.
  intros Hi Ss Fs E. cbn [ms_fad]. replace (- isig - 0) with (- isig) by lia. cbn [app] in Ss.
  rewrite (py_nth_rev rs isig sg) by (try lia; eapply nth_error_skipn_hd; exact Ss). cbn [bind].
  assert (Hs : lenZ sg < 2^32) by (unfold small in Fs; lia).
  rewrite (push_of_ref sg Hs). cbn [bind]. now rewrite (fad_model_err script (ref_push sg) ops e E).
Qed.
Lemma fad_sigs_rel sigs : Forall small sigs -> forall tmp sub, code_rel tmp sub -> code_rel (fad_sigs sigs tmp) (fad_sigs sigs sub).
Proof.
  induction 1 as [|sg sigs Fs F IH]; intros tmp sub R; [exact R|]. cbn [fad_sigs fold_left]. apply IH.
  destruct R as [->| ->]; [left; reflexivity|right].
  assert (Hs : lenZ sg < 2^32) by (unfold small in Fs; lia).
  apply fad_ref_cons_op; [change (b2z xab) with 171; lia|now apply push_head_not_codesep].
Qed.
Lemma code_rel_codesep tmp sub : code_rel tmp sub -> find_and_delete_ref tmp [xab] = find_and_delete_ref sub [xab].
Proof. intros [->| ->]; [reflexivity|apply fad_ref_head_byte]. Qed.

Lemma skipn_skipn {A} (a b : nat) (l : list A) : skipn a (skipn b l) = skipn (a + b) l.
Proof.
  revert l. induction b as [|b IH]; intros l; [now rewrite Nat.add_0_r|].
  destruct l as [|x l]; [now rewrite !skipn_nil|]. rewrite Nat.add_succ_r. cbn [skipn]. apply IH.
Qed.
Lemma skipn_S_cons {A} n (x : A) l : skipn (S n) (x :: l) = skipn n l.
Proof. reflexivity. Qed.
Lemma is_nil_rev_cons {A} (x : A) l : is_nil (rev (x :: l)) = false.
Proof. cbn [rev]. destruct (rev l); reflexivity. Qed.
Lemma bytes_eqb_nil d : bytes_eqb d [] = is_nil d.
Proof. destruct d; reflexivity. Qed.
Lemma lenZ_firstn_full {A} (l : list A) n : 0 <= n <= lenZ l -> lenZ (firstn (Z.to_nat n) l) = n.
Proof. intros H. unfold lenZ in *. rewrite firstn_length_le by lia. lia. Qed.
Lemma skipn_cons_split {A} (l : list A) n x t : skipn n l = x :: t -> lenZ l = Z.of_nat n + 1 + lenZ t.
Proof.
  intros E. pose proof (f_equal (@length A) E) as L. rewrite skipn_length in L. cbn [length] in L. unfold lenZ. lia.
Qed.

Lemma sim_multisig scriptIn r pb o rest vfy ops :
  let tmp := py_slice scriptIn pb (lenZ scriptIn) in
  raw_iter tmp = (ops, None) -> code_rel tmp (r_sub r) -> Forall small (r_stack r) ->
  ref_kind (sop_opcode o) = KMultisig vfy ->
  sim1 (exec scriptIn (abs r pb) o (KMultisig vfy)) (exec_op (sop_opcode o) rest r) pb.
Proof.
  intros tmp E R HS K. unfold ScriptRef.exec_op. rewrite K. unfold ScriptEval.exec. fold tmp.
  unfold check_multisig, abs, sim1. cbn [stack altstack vfExec pbegincodehash nOpCount].
  destruct r as [rs al vf sub nop]. cbn [r_stack r_alt r_vf r_sub r_nop with_stack] in *.
  change MAX_SCRIPT_OPCODES with 201.
  rewrite len_rev. destruct rs as [|nv r1].
  { reflexivity. }
  destruct (Z.ltb_spec (len (nv :: r1)) 1); [exfalso; lens|]. cbn [bind].
  rewrite (py_nth_rev _ 1 nv) by (first [lia|reflexivity]). cbn [bind].
  inversion HS as [|? ? Snv S1]; subst. unfold small in Snv.
  rewrite (cast_to_bignum_ref nv) by lia. destruct (ref_num nv) as [n|] eqn:En; [|reflexivity]. cbn [bind].
  destruct ((n <? 0) || (n >? 20)) eqn:Rn; [reflexivity|]. cbn [bind].
  apply orb_false_iff in Rn as [Rn1 Rn2]. apply Z.ltb_ge in Rn1. rewrite Z.gtb_ltb in Rn2. apply Z.ltb_ge in Rn2.
  destruct (nop + n >? 201); [reflexivity|]. cbn [bind].
  assert (LS : len (nv :: r1) = lenZ r1 + 1) by (unfold len, lenZ; cbn [length]; lia). rewrite LS.
  replace (1 + 1 + n) with (n + 2) by lia.
  destruct (Z.ltb_spec (lenZ r1 + 1) (n + 2)) as [C1|C1]; destruct (Z.ltb_spec (lenZ r1) (n + 1)) as [C1'|C1']; try lia; [reflexivity|].
  cbn [bind].
  destruct (skipn (Z.to_nat n) r1) as [|mv r2] eqn:E2.
  { exfalso. pose proof (f_equal (@length bytes) E2) as L. rewrite skipn_length in L. cbn [length] in L. unfold lenZ in *. lia. }
  pose proof (skipn_cons_split r1 (Z.to_nat n) mv r2 E2) as L1. rewrite Z2Nat.id in L1 by lia.
  rewrite (py_nth_rev (nv :: r1) (n + 2) mv).
  2: lia.
  2:{ replace (Z.to_nat (n + 2 - 1)) with (S (Z.to_nat n)) by lia. cbn [nth_error]. eapply nth_error_skipn_hd; exact E2. }
  cbn [bind].
  assert (S2 : Forall small (mv :: r2)) by (rewrite <- E2; now apply Forall_skipn).
  inversion S2 as [|? ? Smv S2']; subst. unfold small in Smv.
  rewrite (cast_to_bignum_ref mv) by lia. destruct (ref_num mv) as [m|] eqn:Em; [|reflexivity]. cbn [bind].
  destruct ((m <? 0) || (m >? n)) eqn:Rm; [reflexivity|]. cbn [bind].
  apply orb_false_iff in Rm as [Rm1 Rm2]. apply Z.ltb_ge in Rm1. rewrite Z.gtb_ltb in Rm2. apply Z.ltb_ge in Rm2.
  replace (n + 2 + 1 + m - 1) with (n + m + 2) by lia. replace (n + 2 + 1 + m) with (n + m + 3) by lia.
  destruct (Z.ltb_spec (lenZ r2) (m + 1)) as [C2|C2].
  { destruct (Z.ltb_spec (lenZ r1 + 1) (n + m + 2)); [reflexivity|].
    destruct (Z.ltb_spec (lenZ r1 + 1) (n + m + 3)); [reflexivity|lia]. }
  destruct (Z.ltb_spec (lenZ r1 + 1) (n + m + 2)); [lia|]. destruct (Z.ltb_spec (lenZ r1 + 1) (n + m + 3)); [lia|].
  cbn [bind].
  destruct (skipn (Z.to_nat m) r2) as [|dummy r3] eqn:E3.
  { exfalso. pose proof (f_equal (@length bytes) E3) as L. rewrite skipn_length in L. cbn [length] in L. unfold lenZ in *. lia. }
  set (keys := firstn (Z.to_nat n) r1). set (sigs := firstn (Z.to_nat m) r2).
  assert (Lk : lenZ keys = n) by (apply lenZ_firstn_full; lia).
  assert (Lsg : lenZ sigs = m) by (apply lenZ_firstn_full; lia).
  assert (Fsg : Forall small sigs) by (now apply Forall_firstn).
  (* the signature pushes are removed one by one *)
  assert (SS : skipn (Z.to_nat (n + 2 + 1 + 0 - 1)) (nv :: r1) = sigs ++ dummy :: r3).
  { replace (Z.to_nat (n + 2 + 1 + 0 - 1)) with (S (1 + Z.to_nat n)) by lia. rewrite skipn_S_cons.
    rewrite <- skipn_skipn, E2. rewrite skipn_S_cons. cbn [skipn].
    subst sigs. rewrite <- E3. symmetry. apply firstn_skipn. }
  replace (Z.to_nat m) with (length sigs) by (unfold lenZ in Lsg; lia).
  destruct (ms_fad_fold (nv :: r1) (n + 2 + 1) (dummy :: r3) ltac:(lia) sigs 0 tmp ops ltac:(lia) SS Fsg E) as (MF & ops' & E').
  fold tmp. rewrite MF. cbn [bind].
  (* the walk *)
  assert (SS' : skipn (Z.to_nat (n + 2 + 1 - 1)) (nv :: r1) = sigs ++ dummy :: r3) by (replace (n + 2 + 1 - 1) with (n + 2 + 1 + 0 - 1) by lia; exact SS).
  assert (SK : skipn (Z.to_nat (1 + 1 - 1)) (nv :: r1) = keys ++ mv :: r2).
  { cbn [Z.to_nat Z.add Z.sub Pos.add Pos.sub skipn]. change (Z.to_nat 1) with 1%nat. cbn [skipn]. subst keys. rewrite <- E2. symmetry. apply firstn_skipn. }
  replace (ms_loop checksig (S (Z.to_nat n)) vfy (rev (nv :: r1)) (fad_sigs sigs tmp) (n + 2 + 1) (1 + 1) m n)
    with (ms_loop checksig (S (Z.to_nat n)) vfy (rev (nv :: r1)) (fad_sigs sigs tmp) (n + 2 + 1) (1 + 1) (lenZ sigs) (lenZ keys))
    by (rewrite Lsg, Lk; reflexivity).
  rewrite (ms_loop_walk (nv :: r1) (fad_sigs sigs tmp) ops' vfy E' keys sigs (S (Z.to_nat n)) (n + 2 + 1) (1 + 1) (mv :: r2) (dummy :: r3));
    try lia; try assumption; try (unfold lenZ in *; lia).
  cbv zeta. rewrite (code_rel_codesep _ _ (fad_sigs_rel sigs Fsg tmp sub R)).
  fold (fad_sigs sigs sub).
  set (ok := ms_walk checksig sigs keys (find_and_delete_ref (fad_sigs sigs sub) [xab])).
  (* the pops *)
  assert (POP : pop_n (Z.to_nat (n + m + 2)) (rev (nv :: r1)) = Ok (rev (dummy :: r3))).
  { rewrite pop_n_rev by (cbn [length]; unfold lenZ in *; lia). do 2 f_equal.
    replace (Z.to_nat (n + m + 2)) with (S (S (Z.to_nat m) + Z.to_nat n)) by lia. rewrite skipn_S_cons.
    rewrite <- skipn_skipn, E2. rewrite skipn_S_cons. exact E3. }
  assert (TAIL : forall success : bool,
    (do st1 <- pop_n (Z.to_nat (n + m + 2)) (rev (nv :: r1));
     do _ <- (if negb (is_nil st1) && f_nulldummy fl then do d <- py_nth st1 (-1); if negb (bytes_eqb d []) then @fail unit else Ok tt else Ok tt);
     do dr <- py_pop st1;
     Ok {| stack := if negb vfy then if success then push (snd dr) [x01] else push (snd dr) [] else snd dr;
           altstack := rev al; vfExec := rev vf; pbegincodehash := pb; nOpCount := nop + n |})
    = if f_nulldummy fl && negb (is_nil dummy) then Err EvalErr
      else Ok {| stack := rev (if negb vfy then of_bool success :: r3 else r3); altstack := rev al; vfExec := rev vf;
                 pbegincodehash := pb; nOpCount := nop + n |}).
  { intros success. rewrite POP. cbn [bind]. rewrite is_nil_rev_cons. cbn [negb andb].
    destruct (f_nulldummy fl); cbn [andb bind].
    - rewrite (py_nth_rev _ 1 dummy) by (first [lia|reflexivity]). cbn [bind]. rewrite bytes_eqb_nil.
      destruct (is_nil dummy); cbn [negb bind]; [|reflexivity].
      rewrite py_pop_rev. cbn [bind snd]. destruct vfy, success; cbn [negb]; rewrite ?push_rev; reflexivity.
    - rewrite py_pop_rev. cbn [bind snd]. destruct vfy, success; cbn [negb]; rewrite ?push_rev; reflexivity. }
  destruct ok.
  - cbn [bind]. rewrite (TAIL true). destruct (f_nulldummy fl && negb (is_nil dummy)); [reflexivity|].
    destruct vfy; reflexivity.
  - destruct vfy.
    + cbn [bind]. destruct (f_nulldummy fl && negb (is_nil dummy)); reflexivity.
    + cbn [bind]. rewrite (TAIL false). destruct (f_nulldummy fl && negb (is_nil dummy)); reflexivity.
Qed.
Lemma multisig_unparsed scriptIn r pb o rest vfy ops e :
  let tmp := py_slice scriptIn pb (lenZ scriptIn) in
  raw_iter tmp = (ops, Some e) -> Forall small (r_stack r) ->
  ref_kind (sop_opcode o) = KMultisig vfy ->
  sim1 (exec scriptIn (abs r pb) o (KMultisig vfy)) (exec_op (sop_opcode o) rest r) pb \/
  exec scriptIn (abs r pb) o (KMultisig vfy) = Err e.
Proof.
  intros tmp E HS K. unfold ScriptRef.exec_op. rewrite K. unfold ScriptEval.exec. fold tmp.
  unfold check_multisig, abs, sim1. cbn [stack altstack vfExec pbegincodehash nOpCount].
  destruct r as [rs al vf sub nop]. cbn [r_stack r_alt r_vf r_sub r_nop with_stack] in *.
  change MAX_SCRIPT_OPCODES with 201.
  rewrite len_rev. destruct rs as [|nv r1].
  { left; reflexivity. }
  destruct (Z.ltb_spec (len (nv :: r1)) 1); [exfalso; lens|]. cbn [bind].
  rewrite (py_nth_rev _ 1 nv) by (first [lia|reflexivity]). cbn [bind].
  inversion HS as [|? ? Snv S1]; subst. unfold small in Snv.
  rewrite (cast_to_bignum_ref nv) by lia. destruct (ref_num nv) as [n|] eqn:En; [|left; reflexivity]. cbn [bind].
  destruct ((n <? 0) || (n >? 20)) eqn:Rn; [left; reflexivity|]. cbn [bind].
  apply orb_false_iff in Rn as [Rn1 Rn2]. apply Z.ltb_ge in Rn1. rewrite Z.gtb_ltb in Rn2. apply Z.ltb_ge in Rn2.
  destruct (nop + n >? 201); [left; reflexivity|]. cbn [bind].
  assert (LS : len (nv :: r1) = lenZ r1 + 1) by (unfold len, lenZ; cbn [length]; lia). rewrite LS.
  replace (1 + 1 + n) with (n + 2) by lia.
  destruct (Z.ltb_spec (lenZ r1 + 1) (n + 2)) as [C1|C1]; destruct (Z.ltb_spec (lenZ r1) (n + 1)) as [C1'|C1']; try lia; [left; reflexivity|].
  cbn [bind].
  destruct (skipn (Z.to_nat n) r1) as [|mv r2] eqn:E2.
  { exfalso. pose proof (f_equal (@length bytes) E2) as L. rewrite skipn_length in L. cbn [length] in L. unfold lenZ in *. lia. }
  pose proof (skipn_cons_split r1 (Z.to_nat n) mv r2 E2) as L1. rewrite Z2Nat.id in L1 by lia.
  rewrite (py_nth_rev (nv :: r1) (n + 2) mv).
  2: lia.
  2:{ replace (Z.to_nat (n + 2 - 1)) with (S (Z.to_nat n)) by lia. cbn [nth_error]. eapply nth_error_skipn_hd; exact E2. }
  cbn [bind].
  assert (S2 : Forall small (mv :: r2)) by (rewrite <- E2; now apply Forall_skipn).
  inversion S2 as [|? ? Smv S2']; subst. unfold small in Smv.
  rewrite (cast_to_bignum_ref mv) by lia. destruct (ref_num mv) as [m|] eqn:Em; [|left; reflexivity]. cbn [bind].
  destruct ((m <? 0) || (m >? n)) eqn:Rm; [left; reflexivity|]. cbn [bind].
  apply orb_false_iff in Rm as [Rm1 Rm2]. apply Z.ltb_ge in Rm1. rewrite Z.gtb_ltb in Rm2. apply Z.ltb_ge in Rm2.
  replace (n + 2 + 1 + m - 1) with (n + m + 2) by lia. replace (n + 2 + 1 + m) with (n + m + 3) by lia.
  destruct (Z.ltb_spec (lenZ r2) (m + 1)) as [C2|C2].
  { destruct (Z.ltb_spec (lenZ r1 + 1) (n + m + 2)); [left; reflexivity|].
    destruct (Z.ltb_spec (lenZ r1 + 1) (n + m + 3)); [left; reflexivity|lia]. }
  destruct (Z.ltb_spec (lenZ r1 + 1) (n + m + 2)); [lia|]. destruct (Z.ltb_spec (lenZ r1 + 1) (n + m + 3)); [lia|].
  cbn [bind].
  destruct (skipn (Z.to_nat m) r2) as [|dummy r3] eqn:E3.
  { exfalso. pose proof (f_equal (@length bytes) E3) as L. rewrite skipn_length in L. cbn [length] in L. unfold lenZ in *. lia. }
  set (keys := firstn (Z.to_nat n) r1). set (sigs := firstn (Z.to_nat m) r2).
  assert (Lk : lenZ keys = n) by (apply lenZ_firstn_full; lia).
  assert (Lsg : lenZ sigs = m) by (apply lenZ_firstn_full; lia).
  assert (Fsg : Forall small sigs) by (now apply Forall_firstn).
  assert (SS : skipn (Z.to_nat (n + 2 + 1 - 1)) (nv :: r1) = sigs ++ dummy :: r3).
  { replace (Z.to_nat (n + 2 + 1 - 1)) with (S (1 + Z.to_nat n)) by lia. rewrite skipn_S_cons.
    rewrite <- skipn_skipn, E2. rewrite skipn_S_cons. cbn [skipn].
    subst sigs. rewrite <- E3. symmetry. apply firstn_skipn. }
  replace (Z.to_nat m) with (length sigs) by (unfold lenZ in Lsg; lia).
  destruct sigs as [|sg sigs'] eqn:ESG.
  2:{ (* at least one signature: FindAndDelete raises *)
      right. fold tmp. assert (Fs : small sg) by (inversion Fsg; assumption).
      cbn [length]. rewrite (ms_fad_err (nv :: r1) (n + 2 + 1) (dummy :: r3) sg sigs' tmp ops e ltac:(lia) SS Fs E). reflexivity. }
  left. cbn [length ms_fad bind]. assert (Hm0 : m = 0) by (unfold lenZ in Lsg; cbn [length] in Lsg; lia).
  cbn [ms_loop]. destruct (Z.gtb_spec m 0) as [G|G]; [lia|]. cbn [negb bind fold_left ms_walk].
  (* the pops *)
  assert (POP : pop_n (Z.to_nat (n + m + 2)) (rev (nv :: r1)) = Ok (rev (dummy :: r3))).
  { rewrite pop_n_rev by (cbn [length]; unfold lenZ in *; lia). do 2 f_equal.
    replace (Z.to_nat (n + m + 2)) with (S (S (Z.to_nat m) + Z.to_nat n)) by lia. rewrite skipn_S_cons.
    rewrite <- skipn_skipn, E2. rewrite skipn_S_cons. exact E3. }
  assert (TAIL : forall success : bool,
    (do st1 <- pop_n (Z.to_nat (n + m + 2)) (rev (nv :: r1));
     do _ <- (if negb (is_nil st1) && f_nulldummy fl then do d <- py_nth st1 (-1); if negb (bytes_eqb d []) then @fail unit else Ok tt else Ok tt);
     do dr <- py_pop st1;
     Ok {| stack := if negb vfy then if success then push (snd dr) [x01] else push (snd dr) [] else snd dr;
           altstack := rev al; vfExec := rev vf; pbegincodehash := pb; nOpCount := nop + n |})
    = if f_nulldummy fl && negb (is_nil dummy) then Err EvalErr
      else Ok {| stack := rev (if negb vfy then of_bool success :: r3 else r3); altstack := rev al; vfExec := rev vf;
                 pbegincodehash := pb; nOpCount := nop + n |}).
  { intros success. rewrite POP. cbn [bind]. rewrite is_nil_rev_cons. cbn [negb andb].
    destruct (f_nulldummy fl); cbn [andb bind].
    - rewrite (py_nth_rev _ 1 dummy) by (first [lia|reflexivity]). cbn [bind]. rewrite bytes_eqb_nil.
      destruct (is_nil dummy); cbn [negb bind]; [|reflexivity].
      rewrite py_pop_rev. cbn [bind snd]. destruct vfy, success; cbn [negb]; rewrite ?push_rev; reflexivity.
    - rewrite py_pop_rev. cbn [bind snd]. destruct vfy, success; cbn [negb]; rewrite ?push_rev; reflexivity. }
  pose proof (TAIL true) as T. cbv beta iota in T. assert (W0 : ms_walk checksig [] keys (find_and_delete_ref sub [xab]) = true) by (destruct keys; reflexivity). rewrite W0, T. destruct (f_nulldummy fl && negb (is_nil dummy)); [reflexivity|].
  destruct vfy; cbv beta iota; reflexivity.
Qed.
End Sig.
