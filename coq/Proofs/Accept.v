(* Proofs/Accept.v – C05, first clause: an input signed with the library's SignatureHash and
   CECKey.sign is accepted by the library's VerifyScript.
   Route: symbolic execution of the REFERENCE semantics (Spec/ScriptRef.v) on the script
   templates, transferred to the MODEL of scripteval.py by Proofs/ScriptFull.v verify_full
   (MODEL = SPEC on every script).  The signature-check oracle is the real one
   (Model/SigCheck.v real_checksig: RawSignatureHash + CECKey.verify over an arbitrary curve
   E satisfying curve_laws).
   Honest subtleties handled here:
   * the interpreter runs FindAndDelete(subscript, <push sig>) and then
     FindAndDelete(., OP_CODESEPARATOR) before hashing: both are shown to be the identity on
     the templates (P2PK unconditionally: a DER signature starts with 0x30, a decodable public
     key with 00/02/03/04/06/07; P2PKH under the explicit hypothesis that sig||hashtype is not
     the 20-byte key hash pushed by the scriptPubKey – the only operation it could match);
   * the transaction that is verified differs from the one that was hashed by its
     scriptSigs (and witness): RawSignatureHash blanks them (raw_sighash_unsigned_eq);
   * SignatureHash raising (SIGHASH_SINGLE out of range -> ValueError, fields outside their
     wire range -> struct.error) is excluded by the hypothesis that it returned a digest. *)
From BV Require Import Common.Base Common.PyList Common.Tx Common.ScriptFlags Gen.ScriptConsts Gen.Key Gen.Sighash
  Model.Script Spec.Script Spec.ScriptRef Model.FindAndDelete Model.ScriptEval Model.Wire Model.Bip143 Model.Sighash Model.SigCheck
  Spec.Ecdsa Spec.Der Model.Key.
From BV Require Import Proofs.ScriptIter Proofs.FindAndDelete Proofs.ScriptEval Proofs.ScriptFull
  Proofs.Ecdsa Proofs.Der Proofs.Key Proofs.SignMsg Proofs.Sighash.

(* =================================================================================== *)
(* 1. the signature hash                                                               *)
(* =================================================================================== *)
(* t' is t with other scriptSigs and another witness *)
Definition unsigned_eq (t t' : tx) : Prop :=
  tx_version t' = tx_version t /\ tx_lock t' = tx_lock t /\ tx_vout t' = tx_vout t /\
  Forall2 (fun a b => ti_prevout a = ti_prevout b /\ ti_seq a = ti_seq b) (tx_vin t) (tx_vin t').

Lemma blank_eq l l' :
  Forall2 (fun a b => ti_prevout a = ti_prevout b /\ ti_seq a = ti_seq b) l l' ->
  map (fun x => with_script x []) l' = map (fun x => with_script x []) l.
Proof.
  induction 1 as [|a b l l' [P S] _ IH]; [reflexivity|]. cbn [map]. rewrite IH. f_equal.
  unfold with_script. now rewrite P, S.
Qed.

Lemma Forall2_len {A B} (R : A -> B -> Prop) l l' : Forall2 R l l' -> length l' = length l.
Proof. induction 1; cbn [length]; congruence. Qed.

Section SH.
Variable H : bytes -> bytes.

(* RawSignatureHash does not see scriptSigs or witnesses *)
Lemma raw_sighash_unsigned_eq code t t' idx ht : unsigned_eq t t' ->
  raw_sighash H code t' idx ht = raw_sighash H code t idx ht.
Proof.
  intros (Ev & El & Eo & Ei).
  rewrite <- (raw_sighash_wit H code t' [] idx ht), <- (raw_sighash_wit H code t [] idx ht).
  destruct t as [ver vin vout wit lock], t' as [ver' vin' vout' wit' lock'].
  cbn [tx_version tx_lock tx_vout tx_vin] in *. subst ver' lock' vout'.
  unfold raw_sighash, set_wit, with_vin. cbn [tx_version tx_lock tx_vout tx_vin tx_wit].
  rewrite (blank_eq vin vin' Ei). unfold len. rewrite (Forall2_len _ _ _ Ei). reflexivity.
Qed.

(* a digest returned without the error flag is an output of H *)
Lemma raw_sighash_is_hash code t idx ht h : raw_sighash H code t idx ht = Ok (h, false) -> exists m, h = H m.
Proof.
  unfold raw_sighash. destruct (idx >=? len (tx_vin t)); [discriminate|].
  destruct (build [TOp OP_CODESEPARATOR]) as [sep|]; cbn [bind]; [|discriminate].
  destruct (find_and_delete code sep) as [sub|]; cbn [bind]; [|discriminate].
  destruct (py_nth _ idx) as [txin|]; cbn [bind]; [|discriminate].
  destruct (py_set _ idx _) as [vin|]; cbn [bind]; [|discriminate].
  match goal with |- (do pruned <- ?X; _) = _ -> _ => destruct X as [[txtmp|]|] end; cbn [bind]; try discriminate.
  match goal with |- (do txtmp <- ?X; _) = _ -> _ => destruct X as [tx2|] end; cbn [bind]; [|discriminate].
  destruct (ser_tx true _) as [s|]; cbn [bind]; [|discriminate].
  destruct (pack _ ht) as [p|]; cbn [bind]; [|discriminate].
  intros E. injection E as <-. eauto.
Qed.

(* SignatureHash returned h: RawSignatureHash returned (h, no error) *)
Lemma signature_hash_raw code t idx ht h : signature_hash H code t idx ht = Ok h ->
  raw_sighash H code t idx ht = Ok (h, false).
Proof.
  unfold signature_hash. destruct (is_witness_scriptpubkey code) as [[|]|]; cbn [bind]; try discriminate.
  destruct (raw_sighash H code t idx ht) as [[h' [|]]|]; cbn [bind snd fst]; try discriminate.
  now intros [= ->].
Qed.
End SH.

(* =================================================================================== *)
(* 2. the oracle accepts what the key object signed                                    *)
(* =================================================================================== *)
Section EC.
Variable H : bytes -> bytes.
Variable E : curve.
Hypothesis L : curve_laws E.
Hypothesis n_small : c_n E < 2 ^ 256.
Hypothesis table_ok : Spec.Base58.value_msb 256 max_mod_half_order = c_n E / 2.

(* _CheckSig on sig = CECKey.sign(h) || hashtype, for ANY transaction / subscript whose
   RawSignatureHash is the digest that was signed (the error flag is ignored by _CheckSig) *)
Lemma real_checksig_signed t idx ht d h k code flag pkb :
  0 <= ht < 256 -> raw_sighash H code t idx ht = Ok (h, flag) -> length h = 32%nat ->
  valid_nonce E d (be_dec h) k -> sec1_dec E pkb = Some (pub E d) ->
  exists sigder r s, cec_sign E d h k = Ok sigder /\ parse_der sigder = Some (r, s) /\
    (length sigder <= 72)%nat /\ real_checksig H E t idx (sigder ++ [z2b ht]) pkb code = true.
Proof.
  intros Hh Hraw Lh Vn Hpk.
  destruct (cec_sign_ok E L n_small table_ok d h k Lh Vn) as (sig & r & s & Es & Ep & _ & Ll & _ & Ev).
  exists sig, r, s. split; [exact Es|]. split; [exact Ep|]. split; [exact Ll|].
  unfold real_checksig. rewrite rev_app_distr. cbn [rev app].
  rewrite b2z_z2b, Z.mod_small by exact Hh. rewrite Hraw, rev_involutive, Hpk.
  rewrite (cec_verify_strict E (pub E d) h sig r s Ep). exact Ev.
Qed.

(* ---------- public keys: o2i_ECPublicKey (i2o_ECPublicKey (d G)) ---------- *)
Lemma pub_nonzero d : 1 <= d < c_n E -> pub E d <> c_zero.
Proof. intros R. unfold pub. apply (gen_nonzero E L). now apply (small_mod E). Qed.

Lemma be32_roundtrip x : 0 <= x < 2 ^ 256 -> be_dec (be32 x) = x.
Proof. intros R. unfold be32. now apply be_dec_enc. Qed.
Lemma length_be32 x : length (be32 x) = 32%nat.
Proof. apply be_enc_length. Qed.

(* compressed form: follows from the group laws (c_lift is specified by L_lift) *)
Lemma sec1_dec_enc_compressed P : c_p E <= 2 ^ 256 -> P <> c_zero ->
  sec1_dec E (sec1_enc E Compressed P) = Some P.
Proof.
  intros Pp NZ. unfold sec1_enc. rewrite (is_zero_false E L P NZ).
  pose proof (L_x_range E L P NZ) as Rx.
  assert (T : b2z (z2b (2 + c_y E P mod 2)) = 2 + c_y E P mod 2).
  { rewrite b2z_z2b. apply Z.mod_small. pose proof (Z.mod_pos_bound (c_y E P) 2 ltac:(lia)). lia. }
  unfold sec1_dec. rewrite T, length_be32. cbn [Nat.eqb].
  rewrite be32_roundtrip by lia.
  assert (O : (2 + c_y E P mod 2 =? 3) = c_yodd E P).
  { unfold c_yodd. rewrite Zmod_odd. destruct (Z.odd (c_y E P)); reflexivity. }
  rewrite O.
  assert (T2 : (2 + c_y E P mod 2 =? 2) || c_yodd E P = true).
  { unfold c_yodd. rewrite Zmod_odd. destruct (Z.odd (c_y E P)); reflexivity. }
  rewrite T2. apply (L_lift E L P NZ).
Qed.
(* uncompressed form: curve_laws says nothing about c_affine ("the element with these
   coordinates"), so its specification on P is a hypothesis here *)
Lemma sec1_dec_enc_uncompressed P : c_p E <= 2 ^ 256 -> P <> c_zero ->
  0 <= c_y E P < 2 ^ 256 -> c_affine E (c_x E P) (c_y E P) = Some P ->
  sec1_dec E (sec1_enc E Uncompressed P) = Some P.
Proof.
  intros Pp NZ Ry Af. unfold sec1_enc. rewrite (is_zero_false E L P NZ).
  pose proof (L_x_range E L P NZ) as Rx.
  unfold sec1_dec. change (b2z x04) with 4. rewrite app_length, !length_be32. cbn [Nat.add Nat.eqb Z.eqb orb].
  rewrite firstn_app_len by apply length_be32. rewrite skipn_app_len by apply length_be32.
  rewrite !be32_roundtrip by lia. rewrite Af. reflexivity.
Qed.

End EC.
(* a byte string that decodes to a point starts with 00/02/03/04/06/07 and is 1/33/65 long *)
Lemma sec1_dec_shape (E : curve) pkb (Q : pt E) : sec1_dec E pkb = Some Q ->
  exists hb tl, pkb = hb :: tl /\ b2z hb < 8 /\ (length pkb = 1 \/ length pkb = 33 \/ length pkb = 65)%nat.
Proof.
  intros D. assert (F : pk_is_fullyvalid E pkb = true) by (unfold pk_is_fullyvalid; now rewrite D).
  destruct (pk_fullyvalid_shape E pkb F) as [->|[(Ln & hb & tl & -> & Hh)|(Ln & hb & tl & -> & Hh)]].
  - exists x00, []. split; [reflexivity|]. split; [vm_compute; reflexivity|]. left. reflexivity.
  - exists hb, tl. split; [reflexivity|]. split; [lia|]. right. left. exact Ln.
  - exists hb, tl. split; [reflexivity|]. split; [lia|]. right. right. exact Ln.
Qed.

(* =================================================================================== *)
(* 3. running the reference interpreter on script templates                            *)
(* =================================================================================== *)
(* ---------- decoding ---------- *)
Lemma get_op_opcode c rest : 0x4e < b2z c -> Spec.Script.get_op (c :: rest) = Ok (b2z c, None, rest).
Proof. intros Hc. unfold Spec.Script.get_op. destruct (Z.ltb_spec 0x4e (b2z c)); [reflexivity|lia]. Qed.
(* `CScript() << d`: one well-formed push operation carrying d *)
Lemma ref_push_op d : lenZ d < 2^32 ->
  exists op, 0 <= op <= 0x4e /\ op_wf op (Some d) /\ ref_push d = op_bytes op (Some d).
Proof.
  intros Ld. pose proof (lenZ_nonneg d) as P. unfold ref_push.
  destruct (Z.ltb_spec (lenZ d) 76).
  { exists (lenZ d). split; [lia|]. split; [cbn [op_wf]; lia|]. unfold op_bytes.
    destruct (Z.ltb_spec (lenZ d) 76); [reflexivity|lia]. }
  destruct (Z.leb_spec (lenZ d) 255).
  { exists 76. split; [lia|]. split; [cbn [op_wf]; change (2^8) with 256; lia|]. reflexivity. }
  destruct (Z.leb_spec (lenZ d) 65535).
  { exists 77. split; [lia|]. split; [cbn [op_wf]; change (2^16) with 65536; lia|]. reflexivity. }
  exists 78. split; [lia|]. split; [cbn [op_wf]; lia|]. reflexivity.
Qed.
Lemma get_op_push d rest : lenZ d < 2^32 ->
  exists op, 0 <= op <= 0x4e /\ Spec.Script.get_op (ref_push d ++ rest) = Ok (op, Some d, rest).
Proof.
  intros Ld. destruct (ref_push_op d Ld) as (op & R & W & ->). exists op. split; [exact R|].
  now apply get_op_complete.
Qed.

Section Exec.
Variable checksig : bytes -> bytes -> bytes -> bool.
Variable ripemd160 sha1 sha256 : bytes -> bytes.
Variable fl : flags.
Notation eval_loop := (ScriptRef.eval_loop checksig ripemd160 sha1 sha256 fl).
Notation ref_step := (ScriptRef.ref_step checksig ripemd160 sha1 sha256 fl).
Notation exec_op := (ScriptRef.exec_op checksig ripemd160 sha1 sha256 fl).
Notation eval_ref := (ScriptRef.eval_ref checksig ripemd160 sha1 sha256 fl).

(* "the loop, given enough fuel, ends in r" *)
Definition runs (code : bytes) (s r : rstate) : Prop := exists f, eval_loop f code s = Some r.

Lemma runs_nil s : runs [] s s.
Proof. exists O. reflexivity. Qed.
Lemma runs_step code op d rest s s' r :
  Spec.Script.get_op code = Ok (op, d, rest) -> ref_step op d rest s = Some s' -> runs rest s' r -> runs code s r.
Proof.
  intros G St (f & R). exists (S f). destruct code as [|c code]; [discriminate G|].
  cbn [ScriptRef.eval_loop]. rewrite G, St. exact R.
Qed.
(* every operation consumes at least one byte: fuel = length of the code suffices *)
Lemma eval_loop_enough : forall f code s r, eval_loop f code s = Some r ->
  forall f', (length code <= f')%nat -> eval_loop f' code s = Some r.
Proof.
  induction f as [|f IH]; intros code s r Ev f' Lf; destruct code as [|c code].
  - destruct f'; exact Ev.
  - discriminate Ev.
  - destruct f'; exact Ev.
  - cbn [ScriptRef.eval_loop] in Ev. destruct f' as [|f']; [cbn [length] in Lf; lia|]. cbn [ScriptRef.eval_loop].
    destruct (Spec.Script.get_op (c :: code)) as [[[op d] rest]|] eqn:G; [|discriminate Ev].
    destruct (ref_step op d rest s) as [s'|]; [|discriminate Ev].
    apply (IH rest s' r Ev). apply get_op_ok in G as [Ec _].
    pose proof (op_bytes_ne op d) as Ne. apply (f_equal (@length byte)) in Ec. rewrite app_length in Ec. lia.
Qed.
Lemma runs_eval_ref script st r : lenZ script <= 10000 ->
  runs script {| r_stack := st; r_alt := []; r_vf := []; r_sub := script; r_nop := 0 |} r -> r_vf r = [] ->
  eval_ref st script = Some (r_stack r).
Proof.
  intros Ls (f & R) Vf. unfold ScriptRef.eval_ref. destruct (Z.gtb_spec (lenZ script) 10000); [lia|].
  rewrite (eval_loop_enough f script _ r R (length script) (le_n _)), Vf. reflexivity.
Qed.

(* ---------- single steps ---------- *)
Definition with_stack_nop (s : rstate) (st : list bytes) (nop : Z) : rstate :=
  {| r_stack := st; r_alt := r_alt s; r_vf := r_vf s; r_sub := r_sub s; r_nop := nop |}.

Lemma ref_step_push op d rest s : 0 <= op <= 0x4e -> lenZ d <= 520 -> r_vf s = [] -> r_nop s <= 201 ->
  lenZ (r_stack s) + lenZ (r_alt s) < 1000 ->
  ref_step op (Some d) rest s = Some (with_stack_nop s (d :: r_stack s) (r_nop s)).
Proof.
  intros Ro Ld Vf Nn Sz. unfold ScriptRef.ref_step. rewrite Vf. cbn [forallb].
  destruct (Z.gtb_spec (lenZ d) 520); [lia|]. destruct (Z.gtb_spec op 96); [lia|].
  destruct (Z.gtb_spec (r_nop s) 201); [lia|]. rewrite (disabled_push op Ro).
  destruct (Z.leb_spec op 78); [|lia]. cbn [with_stack r_stack r_alt r_vf r_sub r_nop].
  rewrite lenZ_cons. destruct (Z.gtb_spec (1 + lenZ (r_stack s) + lenZ (r_alt s)) 1000); [lia|].
  unfold with_stack_nop. now rewrite Vf.
Qed.
(* an executed non-push opcode outside conditionals *)
Lemma ref_step_exec op rest s s' : 96 < op -> disabled op = false -> r_vf s = [] -> r_nop s < 201 ->
  exec_op op rest (with_stack_nop s (r_stack s) (r_nop s + 1)) = Some s' ->
  lenZ (r_stack s') + lenZ (r_alt s') <= 1000 ->
  ref_step op None rest s = Some s'.
Proof.
  intros Ro Di Vf Nn Ex Sz. unfold ScriptRef.ref_step. rewrite Vf, Di. cbn [forallb].
  change (lenZ (@nil byte) >? 520) with false. cbv iota.
  destruct (Z.gtb_spec op 96); [|lia]. destruct (Z.gtb_spec (r_nop s + 1) 201); [lia|].
  destruct (Z.leb_spec op 78); [lia|]. cbn [orb].
  unfold with_stack_nop in Ex. rewrite Vf in Ex. rewrite Ex.
  destruct (Z.gtb_spec (lenZ (r_stack s') + lenZ (r_alt s')) 1000); [lia|]. reflexivity.
Qed.

(* a run of pushes *)
Lemma runs_pushes : forall ds rest s r, Forall (fun d => lenZ d <= 520) ds -> r_vf s = [] -> r_nop s <= 201 ->
  lenZ (r_stack s) + lenZ (r_alt s) + lenZ ds <= 1000 ->
  runs rest (with_stack_nop s (rev ds ++ r_stack s) (r_nop s)) r ->
  runs (concat (map ref_push ds) ++ rest) s r.
Proof.
  induction ds as [|d ds IH]; intros rest s r Fd Vf Nn Sz R.
  - cbn [map concat app rev] in *. destruct s. exact R.
  - inversion Fd as [|? ? Ld Fd']; subst. cbn [map concat]. rewrite <- app_assoc.
    rewrite lenZ_cons in Sz. pose proof (lenZ_nonneg ds).
    destruct (get_op_push d (concat (map ref_push ds) ++ rest) ltac:(lia)) as (op & Ro & G).
    eapply runs_step; [exact G|apply ref_step_push; (assumption || lia)|].
    apply IH; [exact Fd'|exact Vf|exact Nn|cbn [with_stack_nop r_stack r_alt]; rewrite lenZ_cons; lia|].
    cbn [with_stack_nop r_stack r_alt r_vf r_sub r_nop rev] in *. rewrite <- app_assoc in R. exact R.
Qed.
End Exec.

(* =================================================================================== *)
(* 4. FindAndDelete leaves the templates alone                                         *)
(* =================================================================================== *)
Lemma fad_ref_id ops pat : one_op pat -> Forall sop_wf ops -> Forall (fun o => sop_bytes o <> pat) ops ->
  find_and_delete_ref (ops_bytes ops) pat = ops_bytes ops.
Proof.
  intros O W N. rewrite (fad_ref_ops_bytes pat ops O W). unfold fad_ops, ops_bytes.
  induction N as [|o ops No N IH]; [reflexivity|]. inversion W as [|? ? Wo W']; subst. cbn [map concat].
  rewrite (IH W'). destruct (bytes_eqb (sop_bytes o) pat) eqn:B; [|reflexivity].
  apply bytes_eqb_eq in B. now destruct No.
Qed.
Lemma ref_push_decode d : lenZ d < 2^32 -> exists op, Spec.Script.get_op (ref_push d) = Ok (op, Some d, []).
Proof.
  intros Ld. destruct (ref_push_op d Ld) as (op & R & W & E). exists op.
  rewrite <- (app_nil_r (ref_push d)), E. now apply get_op_complete.
Qed.
Lemma ref_push_inj a b : lenZ a < 2^32 -> lenZ b < 2^32 -> ref_push a = ref_push b -> a = b.
Proof.
  intros La Lb E. destruct (ref_push_decode a La) as (oa & Ga). destruct (ref_push_decode b Lb) as (ob & Gb).
  rewrite E, Gb in Ga. now injection Ga.
Qed.
Lemma ref_push_not_opcode d c : lenZ d < 2^32 -> 0x4e < b2z c -> ref_push d <> [c].
Proof.
  intros Ld Hc E. destruct (ref_push_decode d Ld) as (op & G). rewrite E, (get_op_opcode c [] Hc) in G. discriminate G.
Qed.
(* template operations: a push of d, a bare opcode byte *)
Definition o_push (op : Z) (d : bytes) : sop := mk_sop op (Some d) 0.
Definition o_code (c : byte) : sop := mk_sop (b2z c) None 0.
Lemma o_code_bytes c : sop_bytes (o_code c) = [c].
Proof. unfold sop_bytes, o_code. cbn [sop_opcode sop_data op_bytes]. now rewrite z2b_b2z. Qed.
Lemma o_code_wf c : 0x4e < b2z c -> sop_wf (o_code c).
Proof. intros Hc. pose proof (b2z_range c). unfold sop_wf, o_code. cbn [sop_opcode sop_data op_wf]. lia. Qed.

Lemma ref_push_len d : lenZ d <= 520 -> lenZ (ref_push d) <= 525.
Proof.
  intros Ld. pose proof (lenZ_nonneg d). unfold ref_push.
  destruct (lenZ d <? 76); [|destruct (lenZ d <=? 255); [|destruct (lenZ d <=? 65535)]];
    rewrite ?lenZ_cons, ?lenZ_app, ?lenZ_le_enc; lia.
Qed.

(* =================================================================================== *)
(* 5. pay-to-pubkey                                                                    *)
(* =================================================================================== *)
Section Templates.
Variable checksig : bytes -> bytes -> bytes -> bool.
Variable ripemd160 sha1 sha256 : bytes -> bytes.
Variable fl : flags.
Notation eval_ref := (ScriptRef.eval_ref checksig ripemd160 sha1 sha256 fl).
Notation exec_op := (ScriptRef.exec_op checksig ripemd160 sha1 sha256 fl).
Notation sverify_ref := (ScriptRef.verify_ref checksig ripemd160 sha1 sha256 fl).
Notation runs := (runs checksig ripemd160 sha1 sha256 fl).

Lemma exec_checksig rest s pk sig r : r_stack s = pk :: sig :: r ->
  exec_op 172 rest s
  = Some (with_stack s (of_bool (checksig sig pk (find_and_delete_ref (find_and_delete_ref (r_sub s) (ref_push sig)) [xab])) :: r)).
Proof. intros E. unfold ScriptRef.exec_op. change (ref_kind 172) with (KChecksig false). rewrite E. reflexivity. Qed.

(* a script that is only pushes, on any initial stack *)
Lemma eval_ref_pushes ds st : Forall (fun d => lenZ d <= 520) ds -> lenZ (concat (map ref_push ds)) <= 10000 ->
  lenZ st + lenZ ds <= 1000 -> eval_ref st (concat (map ref_push ds)) = Some (rev ds ++ st).
Proof.
  intros Fd Ls Sz.
  pose (s0 := {| r_stack := st; r_alt := []; r_vf := []; r_sub := concat (map ref_push ds); r_nop := 0 |}).
  apply (runs_eval_ref checksig ripemd160 sha1 sha256 fl _ st (with_stack_nop s0 (rev ds ++ st) 0) Ls); [|reflexivity].
  fold s0. rewrite <- (app_nil_r (concat (map ref_push ds))) at 1.
  apply runs_pushes; [exact Fd|reflexivity|cbn [r_nop s0]; lia|cbn [r_stack r_alt s0]; change (lenZ (@nil bytes)) with 0; lia|].
  apply runs_nil.
Qed.

Definition p2pk_script (pkb : bytes) : bytes := ref_push pkb ++ [xac].

Lemma p2pk_subscript_fixed sig pkb : lenZ sig < 2^32 -> lenZ pkb < 2^32 -> sig <> pkb ->
  find_and_delete_ref (find_and_delete_ref (p2pk_script pkb) (ref_push sig)) [xab] = p2pk_script pkb.
Proof.
  intros Ls Lp Ne. destruct (ref_push_op pkb Lp) as (op & Ro & Wo & Eo).
  assert (Eb : p2pk_script pkb = ops_bytes [o_push op pkb; o_code xac]).
  { unfold p2pk_script, ops_bytes. cbn [map concat]. rewrite o_code_bytes, app_nil_r. unfold sop_bytes, o_push. cbn [sop_opcode sop_data].
    now rewrite Eo. }
  assert (W : Forall sop_wf [o_push op pkb; o_code xac]).
  { constructor; [exact Wo|]. constructor; [|constructor]. apply o_code_wf. vm_compute. reflexivity. }
  assert (B1 : sop_bytes (o_push op pkb) = ref_push pkb) by (symmetry; exact Eo).
  rewrite Eb. rewrite (fad_ref_id _ (ref_push sig) (one_op_push sig Ls) W).
  - apply (fad_ref_id _ [xab] one_op_codesep W). constructor; [|constructor; [|constructor]].
    + rewrite B1. apply ref_push_not_opcode; [exact Lp|vm_compute; reflexivity].
    + rewrite o_code_bytes. discriminate.
  - constructor; [|constructor; [|constructor]].
    + rewrite B1. intros E. apply ref_push_inj in E; [congruence|exact Lp|exact Ls].
    + rewrite o_code_bytes. intros E. symmetry in E. revert E. apply ref_push_not_opcode; [exact Ls|vm_compute; reflexivity].
Qed.

Lemma p2pk_eval sig pkb : lenZ sig <= 520 -> lenZ pkb <= 520 -> sig <> pkb ->
  checksig sig pkb (p2pk_script pkb) = true ->
  eval_ref [sig] (p2pk_script pkb) = Some [vtrue].
Proof.
  intros Ls Lp Ne CS.
  pose (s0 := {| r_stack := [sig]; r_alt := []; r_vf := []; r_sub := p2pk_script pkb; r_nop := 0 |}).
  pose (s1 := with_stack_nop s0 [pkb; sig] 0).
  assert (Lsc : lenZ (p2pk_script pkb) <= 10000).
  { unfold p2pk_script. rewrite lenZ_app. pose proof (ref_push_len pkb Lp). change (lenZ [xac]) with 1. lia. }
  apply (runs_eval_ref checksig ripemd160 sha1 sha256 fl _ [sig] (with_stack_nop s0 [vtrue] 1) Lsc); [|reflexivity].
  fold s0. unfold p2pk_script at 1.
  pose proof (runs_pushes checksig ripemd160 sha1 sha256 fl [pkb] [xac] s0) as P.
  cbn [map concat rev app] in P. rewrite app_nil_r in P.
  apply P; [constructor; [exact Lp|constructor]|reflexivity|cbn [r_nop s0]; lia|vm_compute; discriminate|].
  cbn [r_stack s0 r_nop app]. fold s1.
  eapply runs_step; [apply get_op_opcode; vm_compute; reflexivity| |apply runs_nil].
  change (b2z xac) with 172.
  apply ref_step_exec; [lia|reflexivity|reflexivity|cbn [r_nop s1 s0 with_stack_nop]; lia| |vm_compute; discriminate].
  rewrite exec_checksig with (pk := pkb) (sig := sig) (r := []) by reflexivity.
  cbn [r_sub with_stack_nop s1 s0].
  rewrite (p2pk_subscript_fixed sig pkb ltac:(lia) ltac:(lia) Ne), CS. reflexivity.
Qed.

(* a scriptSig of pushes, a scriptPubKey that is not P2SH-shaped and leaves exactly [true] *)
Theorem bare_verify_ref ds spk : Forall (fun d => lenZ d <= 520) ds -> lenZ (concat (map ref_push ds)) <= 10000 ->
  lenZ ds <= 1000 -> eval_ref (rev ds) spk = Some [vtrue] -> ref_p2sh spk = false ->
  sverify_ref (concat (map ref_push ds)) spk = true.
Proof.
  intros Fd Lc Lds E2 NP.
  assert (E1 : eval_ref [] (concat (map ref_push ds)) = Some (rev ds)).
  { rewrite (eval_ref_pushes ds [] Fd Lc); [now rewrite app_nil_r|change (lenZ (@nil bytes)) with 0; lia]. }
  unfold ScriptRef.verify_ref. rewrite E1, E2, NP, andb_false_r.
  change (negb (ref_bool vtrue)) with false. cbv iota.
  destruct (f_cleanstack fl); reflexivity.
Qed.

Theorem p2pk_verify_ref sig pkb : lenZ sig <= 520 -> lenZ pkb <= 520 -> sig <> pkb ->
  ref_p2sh (p2pk_script pkb) = false ->
  checksig sig pkb (p2pk_script pkb) = true ->
  sverify_ref (ref_push sig) (p2pk_script pkb) = true.
Proof.
  intros Ls Lp Ne NP CS.
  pose proof (bare_verify_ref [sig] (p2pk_script pkb)) as B. cbn [map concat rev app] in B. rewrite app_nil_r in B.
  apply B; [constructor; [exact Ls|constructor]|pose proof (ref_push_len sig Ls); lia|vm_compute; discriminate| |exact NP].
  now apply p2pk_eval.
Qed.

(* ---------- pay-to-pubkey-hash ---------- *)
Lemma exec_dup rest s v r : r_stack s = v :: r -> exec_op 118 rest s = Some (with_stack s (v :: v :: r)).
Proof. intros E. unfold ScriptRef.exec_op. change (ref_kind 118) with KDup. rewrite E. reflexivity. Qed.
Lemma exec_hash160 rest s v r : r_stack s = v :: r -> exec_op 169 rest s = Some (with_stack s (ripemd160 (sha256 v) :: r)).
Proof. intros E. unfold ScriptRef.exec_op. change (ref_kind 169) with KHash160. rewrite E. reflexivity. Qed.
Lemma exec_equalverify rest s x r : r_stack s = x :: x :: r -> exec_op 136 rest s = Some (with_stack s r).
Proof. intros E. unfold ScriptRef.exec_op. change (ref_kind 136) with KEqualVerify. rewrite E, bytes_eqb_refl. reflexivity. Qed.
Lemma exec_equal rest s x r : r_stack s = x :: x :: r -> exec_op 135 rest s = Some (with_stack s (vtrue :: r)).
Proof. intros E. unfold ScriptRef.exec_op. change (ref_kind 135) with KEqual. rewrite E, bytes_eqb_refl. reflexivity. Qed.

Definition p2pkh_script (hh : bytes) : bytes := [x76; xa9] ++ ref_push hh ++ [x88; xac].

Lemma p2pkh_subscript_fixed sig hh : lenZ sig < 2^32 -> lenZ hh < 2^32 -> sig <> hh ->
  find_and_delete_ref (find_and_delete_ref (p2pkh_script hh) (ref_push sig)) [xab] = p2pkh_script hh.
Proof.
  intros Ls Lp Ne. destruct (ref_push_op hh Lp) as (op & Ro & Wo & Eo).
  pose (ops := [o_code x76; o_code xa9; o_push op hh; o_code x88; o_code xac]).
  assert (B1 : sop_bytes (o_push op hh) = ref_push hh) by (symmetry; exact Eo).
  assert (Eb : p2pkh_script hh = ops_bytes ops).
  { unfold p2pkh_script, ops_bytes, ops. cbn [map concat]. rewrite !o_code_bytes, B1, app_nil_r. reflexivity. }
  assert (W : Forall sop_wf ops).
  { repeat (constructor; [first [exact Wo | apply o_code_wf; vm_compute; reflexivity]|]). constructor. }
  rewrite Eb. rewrite (fad_ref_id _ (ref_push sig) (one_op_push sig Ls) W).
  - apply (fad_ref_id _ [xab] one_op_codesep W).
    repeat (constructor; [first [rewrite o_code_bytes; discriminate
                                | rewrite B1; apply ref_push_not_opcode; [exact Lp|vm_compute; reflexivity]]|]).
    constructor.
  - assert (NC : forall c, 0x4e < b2z c -> sop_bytes (o_code c) <> ref_push sig).
    { intros c Hc. rewrite o_code_bytes. intros E. symmetry in E. revert E. now apply ref_push_not_opcode. }
    repeat (constructor; [first [apply NC; vm_compute; reflexivity
                                | rewrite B1; intros E; apply ref_push_inj in E; [congruence|exact Lp|exact Ls]]|]).
    constructor.
Qed.

Lemma p2pkh_eval sig pkb : let hh := ripemd160 (sha256 pkb) in
  lenZ sig <= 520 -> lenZ pkb <= 520 -> lenZ hh <= 520 -> sig <> hh ->
  checksig sig pkb (p2pkh_script hh) = true ->
  eval_ref [pkb; sig] (p2pkh_script hh) = Some [vtrue].
Proof.
  intros hh Ls Lp Lh Ne CS.
  assert (Lsc : lenZ (p2pkh_script hh) <= 10000).
  { unfold p2pkh_script. rewrite !lenZ_app. pose proof (ref_push_len hh Lh).
    change (lenZ [x76; xa9]) with 2. change (lenZ [x88; xac]) with 2. lia. }
  apply (runs_eval_ref checksig ripemd160 sha1 sha256 fl _ [pkb; sig]
           {| r_stack := [vtrue]; r_alt := []; r_vf := []; r_sub := p2pkh_script hh; r_nop := 4 |} Lsc); [|reflexivity].
  unfold p2pkh_script at 1. cbn [app].
  (* OP_DUP *)
  eapply runs_step; [apply get_op_opcode; vm_compute; reflexivity| |].
  { change (b2z x76) with 118. apply ref_step_exec; [lia|reflexivity|reflexivity|cbn [r_nop]; lia| |].
    - apply exec_dup with (v := pkb) (r := [sig]). reflexivity.
    - vm_compute. discriminate. }
  unfold with_stack, with_stack_nop; cbn [r_stack r_alt r_vf r_sub r_nop Z.add Pos.add Pos.succ].
  (* OP_HASH160 *)
  eapply runs_step; [apply get_op_opcode; vm_compute; reflexivity| |].
  { change (b2z xa9) with 169. apply ref_step_exec; [lia|reflexivity|reflexivity|cbn [r_nop]; lia| |].
    - apply exec_hash160 with (v := pkb) (r := [pkb; sig]). reflexivity.
    - vm_compute. discriminate. }
  unfold with_stack, with_stack_nop; cbn [r_stack r_alt r_vf r_sub r_nop Z.add Pos.add Pos.succ]. fold hh.
  (* <hash> *)
  pose proof (runs_pushes checksig ripemd160 sha1 sha256 fl [hh] [x88; xac]) as P.
  cbn [map concat rev app] in P. rewrite app_nil_r in P.
  apply P; [constructor; [exact Lh|constructor]|reflexivity|cbn [r_nop]; lia|vm_compute; discriminate|]. clear P.
  unfold with_stack, with_stack_nop; cbn [r_stack r_alt r_vf r_sub r_nop app].
  (* OP_EQUALVERIFY *)
  eapply runs_step; [apply get_op_opcode; vm_compute; reflexivity| |].
  { change (b2z x88) with 136. apply ref_step_exec; [lia|reflexivity|reflexivity|cbn [r_nop]; lia| |].
    - apply exec_equalverify with (x := hh) (r := [pkb; sig]). reflexivity.
    - vm_compute. discriminate. }
  unfold with_stack, with_stack_nop; cbn [r_stack r_alt r_vf r_sub r_nop Z.add Pos.add Pos.succ].
  (* OP_CHECKSIG *)
  eapply runs_step; [apply get_op_opcode; vm_compute; reflexivity| |apply runs_nil].
  change (b2z xac) with 172. apply ref_step_exec; [lia|reflexivity|reflexivity|cbn [r_nop]; lia| |vm_compute; discriminate].
  rewrite exec_checksig with (pk := pkb) (sig := sig) (r := []) by reflexivity.
  unfold with_stack, with_stack_nop; cbn [r_stack r_alt r_vf r_sub r_nop Z.add Pos.add Pos.succ].
  rewrite (p2pkh_subscript_fixed sig hh ltac:(lia) ltac:(lia) Ne), CS. reflexivity.
Qed.

Theorem p2pkh_verify_ref sig pkb : let hh := ripemd160 (sha256 pkb) in
  lenZ sig <= 520 -> lenZ pkb <= 520 -> lenZ hh <= 520 -> sig <> hh ->
  ref_p2sh (p2pkh_script hh) = false ->
  checksig sig pkb (p2pkh_script hh) = true ->
  sverify_ref (ref_push sig ++ ref_push pkb) (p2pkh_script hh) = true.
Proof.
  intros hh Ls Lp Lh Ne NP CS.
  pose proof (bare_verify_ref [sig; pkb] (p2pkh_script hh)) as B. cbn [map concat rev app] in B. rewrite app_nil_r in B.
  apply B; [repeat constructor; assumption| |vm_compute; discriminate| |exact NP].
  - rewrite lenZ_app. pose proof (ref_push_len sig Ls). pose proof (ref_push_len pkb Lp). lia.
  - now apply p2pkh_eval.
Qed.
End Templates.

(* =================================================================================== *)
(* 6. the theorems about VerifyScript with the real oracle                             *)
(* =================================================================================== *)
Lemma real_checksig_empty H E t idx pk code : real_checksig H E t idx [] pk code = false.
Proof. reflexivity. Qed.

(* a strictly-DER signature followed by the hash type byte is not a decodable public key *)
Lemma sig_not_pubkey E sigder r s htb pkb Q : parse_der sigder = Some (r, s) -> sec1_dec E pkb = Some Q ->
  sigder ++ [htb] <> pkb.
Proof.
  intros Ep Dp. apply parse_der_inv in Ep as [-> _].
  destruct (sec1_dec_shape E pkb Q Dp) as (hb & tl & -> & Hh & _).
  unfold enc_der. cbn [app]. intros Eq. injection Eq as Eq _. subst hb. vm_compute in Hh. discriminate Hh.
Qed.

Section Final.
Variable H : bytes -> bytes.
Variable E : curve.
Hypothesis L : curve_laws E.
Hypothesis n_small : c_n E < 2 ^ 256.
Hypothesis table_ok : Spec.Base58.value_msb 256 max_mod_half_order = c_n E / 2.
Hypothesis H_len : forall b, length (H b) = 32%nat.
Variable ripemd160 sha1 sha256 : bytes -> bytes.
Hypothesis hash_small : forall x, Proofs.ScriptEval.small (ripemd160 x) /\ Proofs.ScriptEval.small (sha1 x) /\ Proofs.ScriptEval.small (sha256 x).
Variable fl : flags.
Hypothesis flags_ok : f_cleanstack fl = true -> f_p2sh fl = true.

(* MODEL = SPEC transfer for the real oracle *)
Lemma accept_transfer t idx ssig spk :
  ScriptRef.verify_ref (real_checksig H E t idx) ripemd160 sha1 sha256 fl ssig spk = true ->
  verify_script (real_checksig H E t idx) ripemd160 sha1 sha256 fl ssig spk = Ok tt.
Proof.
  intros V.
  pose proof (verify_full (real_checksig H E t idx) ripemd160 sha1 sha256 fl
                (real_checksig_empty H E t idx) hash_small flags_ok ssig spk) as F.
  destruct (verify_script _ _ _ _ _ ssig spk) as [[]|e]; [reflexivity|]. destruct F as [F _]. congruence.
Qed.

(* what signing produces, for a subscript `code` and any transaction t' that differs from
   the hashed one in scriptSigs / witness only *)
Lemma signed_oracle code t t' idx ht d k pkb h :
  0 <= ht < 256 -> sec1_dec E pkb = Some (pub E d) ->
  signature_hash H code t idx ht = Ok h -> valid_nonce E d (be_dec h) k -> unsigned_eq t t' ->
  exists sigder r s, cec_sign E d h k = Ok sigder /\ parse_der sigder = Some (r, s) /\ (length sigder <= 72)%nat /\
    real_checksig H E t' idx (sigder ++ [z2b ht]) pkb code = true.
Proof.
  intros Hh Dp Sh Vn Ue. apply signature_hash_raw in Sh.
  destruct (raw_sighash_is_hash H code t idx ht h Sh) as (m & Em).
  rewrite <- (raw_sighash_unsigned_eq H code t t' idx ht Ue) in Sh.
  apply (real_checksig_signed H E L n_small table_ok t' idx ht d h k code false pkb Hh Sh); [|exact Vn|exact Dp].
  rewrite Em. apply H_len.
Qed.

Theorem accept_p2pk t t' idx ht d k pkb h :
  0 <= ht < 256 -> sec1_dec E pkb = Some (pub E d) ->
  signature_hash H (p2pk_script pkb) t idx ht = Ok h -> valid_nonce E d (be_dec h) k -> unsigned_eq t t' ->
  exists sigder, cec_sign E d h k = Ok sigder /\
    verify_script (real_checksig H E t' idx) ripemd160 sha1 sha256 fl
      (ref_push (sigder ++ [z2b ht])) (p2pk_script pkb) = Ok tt.
Proof.
  intros Hh Dp Sh Vn Ue.
  destruct (signed_oracle (p2pk_script pkb) t t' idx ht d k pkb h Hh Dp Sh Vn Ue) as (sigder & r & s & Es & Ep & Ll & CS).
  exists sigder. split; [exact Es|]. apply accept_transfer.
  destruct (sec1_dec_shape E pkb _ Dp) as (hb & tl & Epk & _ & Lpk).
  assert (Lp : lenZ pkb <= 65) by (unfold lenZ; lia).
  assert (Ls : lenZ (sigder ++ [z2b ht]) <= 73) by (unfold lenZ; rewrite app_length; cbn [length]; lia).
  apply p2pk_verify_ref; [lia|lia|exact (sig_not_pubkey E sigder r s (z2b ht) pkb _ Ep Dp)| |exact CS].
  unfold ref_p2sh, p2pk_script, ref_push. destruct (Z.ltb_spec (lenZ pkb) 76); [|lia].
  rewrite app_length. cbn [length]. destruct (Nat.eqb_spec (S (length pkb) + 1) 23); [lia|reflexivity].
Qed.

(* P2PKH.  The interpreter deletes <push sig> from the subscript before hashing; in
   DUP HASH160 <hash> EQUALVERIFY CHECKSIG the only operation that can be equal to a push is
   the push of the 20-byte key hash, i.e. the deletion is the identity unless sig||hashtype
   (9..73 bytes) IS the key hash.  A 20-byte sig||hashtype is not excluded by DER (r, s below
   2^56 give 19 bytes), so the condition is an explicit hypothesis; when it fails the
   subscript that is hashed at verification differs from the one that was signed. *)
Theorem accept_p2pkh t t' idx ht d k pkb h : let hh := ripemd160 (sha256 pkb) in
  0 <= ht < 256 -> sec1_dec E pkb = Some (pub E d) -> length hh = 20%nat ->
  signature_hash H (p2pkh_script hh) t idx ht = Ok h -> valid_nonce E d (be_dec h) k -> unsigned_eq t t' ->
  exists sigder, cec_sign E d h k = Ok sigder /\
    (sigder ++ [z2b ht] <> hh ->
     verify_script (real_checksig H E t' idx) ripemd160 sha1 sha256 fl
       (ref_push (sigder ++ [z2b ht]) ++ ref_push pkb) (p2pkh_script hh) = Ok tt).
Proof.
  intros hh Hh Dp Lhh Sh Vn Ue.
  destruct (signed_oracle (p2pkh_script hh) t t' idx ht d k pkb h Hh Dp Sh Vn Ue) as (sigder & r & s & Es & Ep & Ll & CS).
  exists sigder. split; [exact Es|]. intros Ne. apply accept_transfer.
  destruct (sec1_dec_shape E pkb _ Dp) as (hb & tl & Epk & _ & Lpk).
  assert (Lp : lenZ pkb <= 65) by (unfold lenZ; lia).
  assert (Ls : lenZ (sigder ++ [z2b ht]) <= 73) by (unfold lenZ; rewrite app_length; cbn [length]; lia).
  assert (Lh : lenZ hh = 20) by (unfold lenZ; rewrite Lhh; reflexivity).
  apply p2pkh_verify_ref; fold hh; [lia|lia|lia|exact Ne| |exact CS].
  unfold ref_p2sh, p2pkh_script, ref_push. rewrite Lh. cbn [Z.ltb Z.compare Pos.compare Pos.compare_cont].
  rewrite !app_length. cbn [length]. rewrite Lhh. reflexivity.
Qed.
End Final.

(* =================================================================================== *)
(* 7. the hypotheses are satisfiable (everything except curve_laws, which is not proved *)
(*    for the executable curve: see Props/C13.v)                                       *)
(* =================================================================================== *)
From BV Require Import Model.Secp256k1.

Lemma valid_nonceb_sound E d e k : valid_nonceb E d e k = true -> valid_nonce E d e k.
Proof.
  unfold valid_nonceb, valid_nonce. rewrite !andb_true_iff, !negb_true_iff, !Z.eqb_neq, Z.leb_le, Z.ltb_lt. tauto.
Qed.

(* toy hash functions with outputs of a fixed length (the theorems hold for every such function) *)
Definition toy_hash (n : nat) (b : bytes) : bytes := firstn n (b ++ repeat x00 n).
Lemma toy_hash_length n b : length (toy_hash n b) = n.
Proof. unfold toy_hash. rewrite firstn_length, app_length, repeat_length. lia. Qed.

Definition ex_in (s : bytes) : txin := {| ti_prevout := {| op_hash := repeat x44 32; op_n := 1 |}; ti_script := s; ti_seq := 5 |}.
Definition ex_other : txin := {| ti_prevout := {| op_hash := repeat x55 32; op_n := 0 |}; ti_script := [x51]; ti_seq := 9 |}.
Definition ex_out : txout := {| to_value := 7; to_script := [x51] |}.
Definition ex_tx (s : bytes) : tx :=
  {| tx_version := 1; tx_vin := [ex_other; ex_in s]; tx_vout := [ex_out; ex_out]; tx_wit := []; tx_lock := 0 |}.
Definition ex_pk : bytes := sec1_enc secp256k1 Compressed (pub secp256k1 1).

Lemma ex_unsigned_eq s : unsigned_eq (ex_tx []) (ex_tx s).
Proof. unfold unsigned_eq, ex_tx. cbn [tx_version tx_lock tx_vout tx_vin]. repeat split. repeat constructor. Qed.

(* secret 1, nonce 2, input 1 of a 2-in/2-out transaction, SIGHASH_SINGLE|ANYONECANPAY *)
Example accept_hyps_satisfiable :
  let H := toy_hash 32 in let r160 := toy_hash 20 in let s256 := toy_hash 32 in
  let E := secp256k1 in let d := 1 in let k := 2 in let ht := 0x83 in let idx := 1 in
  (forall b, length (H b) = 32%nat) /\
  (forall x, Proofs.ScriptEval.small (r160 x) /\ Proofs.ScriptEval.small (s256 x) /\ Proofs.ScriptEval.small (s256 x)) /\
  c_n E < 2 ^ 256 /\ Spec.Base58.value_msb 256 max_mod_half_order = c_n E / 2 /\
  sec1_dec E ex_pk = Some (pub E d) /\ length (r160 (s256 ex_pk)) = 20%nat /\
  (* P2PK *)
  (exists h sigder, signature_hash H (p2pk_script ex_pk) (ex_tx []) idx ht = Ok h /\ valid_nonce E d (be_dec h) k /\
     cec_sign E d h k = Ok sigder /\ unsigned_eq (ex_tx []) (ex_tx (ref_push (sigder ++ [z2b ht])))) /\
  (* P2PKH: the signature is not the key hash *)
  (exists h sigder, signature_hash H (p2pkh_script (r160 (s256 ex_pk))) (ex_tx []) idx ht = Ok h /\ valid_nonce E d (be_dec h) k /\
     cec_sign E d h k = Ok sigder /\ sigder ++ [z2b ht] <> r160 (s256 ex_pk) /\
     unsigned_eq (ex_tx []) (ex_tx (ref_push (sigder ++ [z2b ht]) ++ ref_push ex_pk))).
Proof.
  cbv zeta. split; [intros b; apply toy_hash_length|].
  split. { intros x. unfold Proofs.ScriptEval.small, lenZ. rewrite !toy_hash_length. split; [|split]; reflexivity. }
  split; [exact secp_n_small|]. split; [exact secp_table_ok|].
  split; [vm_compute; reflexivity|]. split; [apply toy_hash_length|].
  split.
  - destruct (signature_hash (toy_hash 32) (p2pk_script ex_pk) (ex_tx []) 1 0x83) as [h|] eqn:Sh; [|vm_compute in Sh; discriminate Sh].
    destruct (cec_sign secp256k1 1 h 2) as [sigder|] eqn:Cs; [|vm_compute in Sh; injection Sh as <-; vm_compute in Cs; discriminate Cs].
    exists h, sigder. split; [reflexivity|]. split; [|split; [exact Cs|apply ex_unsigned_eq]].
    apply valid_nonceb_sound. vm_compute in Sh. injection Sh as <-. vm_compute. reflexivity.
  - destruct (signature_hash (toy_hash 32) (p2pkh_script (toy_hash 20 (toy_hash 32 ex_pk))) (ex_tx []) 1 0x83) as [h|] eqn:Sh;
      [|vm_compute in Sh; discriminate Sh].
    destruct (cec_sign secp256k1 1 h 2) as [sigder|] eqn:Cs; [|vm_compute in Sh; injection Sh as <-; vm_compute in Cs; discriminate Cs].
    exists h, sigder. split; [reflexivity|]. split; [|split; [exact Cs|split; [|apply ex_unsigned_eq]]].
    + apply valid_nonceb_sound. vm_compute in Sh. injection Sh as <-. vm_compute. reflexivity.
    + vm_compute in Sh. injection Sh as <-. vm_compute in Cs. injection Cs as <-. intros Eq.
      apply (f_equal (@length byte)) in Eq. rewrite toy_hash_length in Eq. vm_compute in Eq. discriminate Eq.
Qed.
