(* Proofs/BloomHist.v – C20 (2): histories of inserts, queries and wire round trips, by
   induction over the operation list: the MODEL's state is the reference state, the bits
   set are exactly initial ∪ scheduled, and an inserted element is never reported absent. *)
From BV Require Import Common.Base Gen.Core Gen.Bloom Model.Bloom Spec.Bloom
  Proofs.BloomBits Proofs.BloomMurmur Proofs.Bloom Proofs.BloomWire.

(* the reference operation an op denotes; an element that cannot be built (COutPoint
   constructor raising ValueError) leaves the filter alone *)
Definition sop_of (o : op) : sop :=
  match o with
  | OInsert e => match elem_bytes e with Ok b => SInsert b | Err _ => SRoundTrip end
  | OContains e => match elem_bytes e with Ok b => SQuery b | Err _ => SRoundTrip end
  | ORoundTrip => SRoundTrip
  end.
Definition valid_op (o : op) : bool :=
  match o with
  | OInsert e | OContains e => match elem_bytes e with Ok _ => true | Err _ => false end
  | ORoundTrip => true
  end.

Lemma with_data_same f : with_data f (vData f) = f.
Proof. now destruct f. Qed.
Lemma with_data_twice f d1 d2 : with_data (with_data f d1) d2 = with_data f d2.
Proof. reflexivity. Qed.

(* ---------- one step ---------- *)
Lemma step_state f o :
  fst (step f o) =
  with_data f (fst (spec_run (vData f) (nHashFuncs f) (nTweak f) [sop_of o])).
Proof.
  destruct o as [e|e|]; cbn [step sop_of].
  - unfold insert_elem. destruct (elem_bytes e) as [b|x]; cbn [bind].
    + rewrite insert_spec. reflexivity.
    + cbn [spec_run fst]. now rewrite with_data_same.
  - destruct (elem_bytes e) as [b|x]; cbn [spec_run fst]; now rewrite with_data_same.
  - cbn [spec_run fst]. rewrite with_data_same.
    destruct (filter_serialize f) as [w|] eqn:ES; [|reflexivity].
    destruct (filter_deserialize w) as [f'|] eqn:ED; [|reflexivity].
    cbn [fst]. eapply round_trip_same; eassumption.
Qed.

Lemma step_answer f o : wire_ok f -> valid_op o = true ->
  snd (step f o) = match snd (spec_run (vData f) (nHashFuncs f) (nTweak f) [sop_of o]) with
                   | a :: _ => Ok a | [] => Err OtherErr end.
Proof.
  intros W V. destruct o as [e|e|]; cbn [step sop_of valid_op] in *.
  - unfold insert_elem. destruct (elem_bytes e) as [b|x]; [|discriminate]. cbn [bind].
    rewrite insert_spec. reflexivity.
  - unfold contains_elem. destruct (elem_bytes e) as [b|x]; [|discriminate]. cbn [bind].
    rewrite contains_spec. reflexivity.
  - destruct (wire_round_trip f W) as (w & -> & -> & _). reflexivity.
Qed.

Lemma wire_ok_with_data f d : wire_ok f -> length d = length (vData f) -> wire_ok (with_data f d).
Proof. intros [R L] E. split; [exact R|]. cbn [with_data vData]. unfold lenZ in *. now rewrite E. Qed.

Lemma spec_insert_length d nh tw e : length (spec_insert d nh tw e) = length d.
Proof. unfold spec_insert. destruct d; [reflexivity|]. apply set_bits_length. Qed.
Lemma spec_run_length ops : forall d nh tw, length (fst (spec_run d nh tw ops)) = length d.
Proof.
  induction ops as [|o r IH]; intros d nh tw; [reflexivity|].
  destruct o as [e|e|]; cbn [spec_run].
  - specialize (IH (spec_insert d nh tw e) nh tw).
    destruct (spec_run (spec_insert d nh tw e) nh tw r). cbn [fst] in *. now rewrite IH, spec_insert_length.
  - specialize (IH d nh tw). destruct (spec_run d nh tw r). exact IH.
  - specialize (IH d nh tw). destruct (spec_run d nh tw r). exact IH.
Qed.

(* ---------- any history: the MODEL state is the reference state ---------- *)
Theorem run_ops_state ops : forall f,
  fst (run_ops f ops) =
  with_data f (fst (spec_run (vData f) (nHashFuncs f) (nTweak f) (map sop_of ops))).
Proof.
  induction ops as [|o r IH]; intros f.
  - cbn [run_ops map spec_run fst]. now rewrite with_data_same.
  - cbn [run_ops map]. pose proof (step_state f o) as S1. destruct (step f o) as [f1 a]. cbn [fst] in S1.
    specialize (IH f1). destruct (run_ops f1 r) as [f2 l]. cbn [fst] in *. rewrite IH, S1.
    cbn [with_data vData nHashFuncs nTweak nFlags].
    destruct (sop_of o) as [e|e|]; cbn [spec_run fst].
    + destruct (spec_run (spec_insert (vData f) (nHashFuncs f) (nTweak f) e) (nHashFuncs f) (nTweak f) (map sop_of r)).
      reflexivity.
    + destruct (spec_run (vData f) (nHashFuncs f) (nTweak f) (map sop_of r)). reflexivity.
    + destruct (spec_run (vData f) (nHashFuncs f) (nTweak f) (map sop_of r)). reflexivity.
Qed.

(* ... and, for a filter that fits the wire and well-formed elements, every answer is the
   reference answer (no operation raises) *)
Theorem run_ops_answers ops : forall f, wire_ok f -> forallb valid_op ops = true ->
  snd (run_ops f ops) =
  map Ok (snd (spec_run (vData f) (nHashFuncs f) (nTweak f) (map sop_of ops))).
Proof.
  induction ops as [|o r IH]; intros f W V; [reflexivity|].
  cbn [forallb] in V. apply andb_true_iff in V as [Vo Vr].
  cbn [run_ops map]. pose proof (step_state f o) as S1. pose proof (step_answer f o W Vo) as A1.
  destruct (step f o) as [f1 a]. cbn [fst snd] in S1, A1.
  assert (W1 : wire_ok f1).
  { rewrite S1. apply wire_ok_with_data; [exact W|]. apply spec_run_length. }
  specialize (IH f1 W1 Vr). destruct (run_ops f1 r) as [f2 l]. cbn [snd] in *. rewrite IH, A1, S1.
  cbn [with_data vData nHashFuncs nTweak nFlags].
  destruct (sop_of o) as [e|e|]; cbn [spec_run fst snd].
  - destruct (spec_run (spec_insert (vData f) (nHashFuncs f) (nTweak f) e) (nHashFuncs f) (nTweak f) (map sop_of r)).
    reflexivity.
  - destruct (spec_run (vData f) (nHashFuncs f) (nTweak f) (map sop_of r)). reflexivity.
  - destruct (spec_run (vData f) (nHashFuncs f) (nTweak f) (map sop_of r)). reflexivity.
Qed.

(* ---------- bits set = initial ∪ scheduled ---------- *)
(* the byte strings inserted by a reference history *)
Fixpoint inserted (ops : list sop) : list bytes :=
  match ops with
  | [] => []
  | SInsert e :: r => e :: inserted r
  | _ :: r => inserted r
  end.

Lemma spec_insert_bits d nh tw e m : 0 <= m < 8 * lenZ d ->
  bit_at (spec_insert d nh tw e) m = bit_at d m || existsb (Z.eqb m) (schedule (lenZ d) nh tw e).
Proof.
  intros Hm. unfold spec_insert. destruct d as [|b t] eqn:E; [change (lenZ (@nil byte)) with 0 in Hm; lia|].
  rewrite <- E in *. apply bit_at_set_bits; [|lia].
  intros n Hn. eapply schedule_range; [|exact Hn]. lia.
Qed.

Theorem spec_run_bits ops : forall d nh tw m, 0 <= m < 8 * lenZ d ->
  bit_at (fst (spec_run d nh tw ops)) m =
  bit_at d m || existsb (fun e => existsb (Z.eqb m) (schedule (lenZ d) nh tw e)) (inserted ops).
Proof.
  induction ops as [|o r IH]; intros d nh tw m Hm.
  - cbn [spec_run fst inserted existsb]. now rewrite orb_false_r.
  - destruct o as [e|e|]; cbn [spec_run inserted existsb].
    + assert (L : lenZ (spec_insert d nh tw e) = lenZ d) by (unfold lenZ; now rewrite spec_insert_length).
      specialize (IH (spec_insert d nh tw e) nh tw m). rewrite L in IH.
      destruct (spec_run (spec_insert d nh tw e) nh tw r). cbn [fst] in *.
      rewrite IH by exact Hm. rewrite spec_insert_bits by exact Hm. now rewrite orb_assoc.
    + specialize (IH d nh tw m Hm). destruct (spec_run d nh tw r). exact IH.
    + specialize (IH d nh tw m Hm). destruct (spec_run d nh tw r). exact IH.
Qed.

(* the same statement on the MODEL: after any history the bits set in vData are the initial
   ones and those the BIP37 schedule selects for the inserted elements; the length and the
   three parameters never change *)
Theorem history_bits f ops m : 0 <= m < 8 * lenZ (vData f) ->
  let f' := fst (run_ops f ops) in
  bit_at (vData f') m =
    bit_at (vData f) m ||
    existsb (fun e => existsb (Z.eqb m) (schedule (lenZ (vData f)) (nHashFuncs f) (nTweak f) e))
            (inserted (map sop_of ops))
  /\ length (vData f') = length (vData f)
  /\ nHashFuncs f' = nHashFuncs f /\ nTweak f' = nTweak f /\ nFlags f' = nFlags f.
Proof.
  intros Hm f'. unfold f'. rewrite run_ops_state. cbn [with_data vData nHashFuncs nTweak nFlags].
  split; [apply spec_run_bits; exact Hm|]. split; [apply spec_run_length|]. repeat split.
Qed.

(* ---------- no false negatives ---------- *)
Lemma spec_contains_nonempty d nh tw e : d <> [] ->
  spec_contains d nh tw e = forallb (bit_at d) (schedule (lenZ d) nh tw e).
Proof. destruct d; [congruence|reflexivity]. Qed.
Lemma spec_insert_nonempty d nh tw e : d <> [] -> spec_insert d nh tw e <> [].
Proof.
  intros H E. apply (f_equal (@length byte)) in E. rewrite spec_insert_length in E.
  destruct d; [congruence|discriminate].
Qed.
Lemma nonempty_pos (d : bytes) : d <> [] -> 0 < lenZ d.
Proof. destruct d; [congruence|]. intros _. rewrite lenZ_cons. pose proof (lenZ_nonneg d). lia. Qed.

Lemma spec_contains_after_insert d nh tw e : spec_contains (spec_insert d nh tw e) nh tw e = true.
Proof.
  destruct d as [|b t] eqn:E; [reflexivity|]. rewrite <- E.
  assert (NE : d <> []) by (rewrite E; discriminate).
  assert (L : lenZ (spec_insert d nh tw e) = lenZ d) by (unfold lenZ; now rewrite spec_insert_length).
  pose proof (nonempty_pos d NE) as P.
  rewrite spec_contains_nonempty by (apply spec_insert_nonempty; exact NE). rewrite L.
  apply forallb_forall. intros n Hn. pose proof (schedule_range _ _ _ _ _ P Hn) as R.
  rewrite spec_insert_bits by lia. apply orb_true_iff. right.
  apply existsb_exists. exists n. split; [exact Hn|apply Z.eqb_refl].
Qed.
(* inserting anything keeps every positive answer positive *)
Lemma spec_contains_mono d nh tw e e' :
  spec_contains d nh tw e = true -> spec_contains (spec_insert d nh tw e') nh tw e = true.
Proof.
  destruct d as [|b t] eqn:E; [intros _; reflexivity|]. rewrite <- E.
  assert (NE : d <> []) by (rewrite E; discriminate).
  assert (L : lenZ (spec_insert d nh tw e') = lenZ d) by (unfold lenZ; now rewrite spec_insert_length).
  pose proof (nonempty_pos d NE) as P.
  rewrite (spec_contains_nonempty (spec_insert d nh tw e')) by (apply spec_insert_nonempty; exact NE).
  rewrite spec_contains_nonempty by exact NE. rewrite L. intros H.
  apply forallb_forall. intros n Hn. pose proof (schedule_range _ _ _ _ _ P Hn) as R.
  rewrite spec_insert_bits by lia. rewrite forallb_forall in H. rewrite (H n Hn). reflexivity.
Qed.
Lemma spec_run_keeps ops : forall d nh tw e,
  spec_contains d nh tw e = true -> spec_contains (fst (spec_run d nh tw ops)) nh tw e = true.
Proof.
  induction ops as [|o r IH]; intros d nh tw e H; [exact H|].
  destruct o as [e'|e'|]; cbn [spec_run].
  - specialize (IH (spec_insert d nh tw e') nh tw e (spec_contains_mono _ _ _ _ _ H)).
    destruct (spec_run (spec_insert d nh tw e') nh tw r). exact IH.
  - specialize (IH d nh tw e H). destruct (spec_run d nh tw r). exact IH.
  - specialize (IH d nh tw e H). destruct (spec_run d nh tw r). exact IH.
Qed.

Lemma run_ops_app a : forall f b, fst (run_ops f (a ++ b)) = fst (run_ops (fst (run_ops f a)) b).
Proof.
  induction a as [|o r IH]; intros f b; [reflexivity|].
  cbn [app run_ops]. destruct (step f o) as [f1 x]. specialize (IH f1 b).
  destruct (run_ops f1 (r ++ b)) as [f2 l]. destruct (run_ops f1 r) as [f3 l3]. cbn [fst] in *. exact IH.
Qed.

(* Whatever happened before (ops1, from ANY initial filter, e.g. one read from the wire),
   once e has been inserted, any further history of inserts, queries and round trips (ops2)
   leaves `contains e` true. *)
Theorem no_false_negatives f0 ops1 e b ops2 : elem_bytes e = Ok b ->
  contains_elem (fst (run_ops f0 (ops1 ++ OInsert e :: ops2))) e = Ok true.
Proof.
  intros Eb. rewrite run_ops_app. set (f1 := fst (run_ops f0 ops1)).
  rewrite run_ops_state. unfold contains_elem. rewrite Eb. cbn [bind]. rewrite contains_spec.
  cbn [with_data vData nHashFuncs nTweak nFlags]. f_equal.
  cbn [map sop_of]. rewrite Eb. cbn [spec_run].
  pose proof (spec_run_keeps (map sop_of ops2) (spec_insert (vData f1) (nHashFuncs f1) (nTweak f1) b)
                (nHashFuncs f1) (nTweak f1) b (spec_contains_after_insert _ _ _ _)) as K.
  destruct (spec_run (spec_insert (vData f1) (nHashFuncs f1) (nTweak f1) b) (nHashFuncs f1) (nTweak f1) (map sop_of ops2)).
  exact K.
Qed.

(* a wire round trip never changes the filter, so it preserves every membership answer *)
Theorem round_trip_answers f : wire_ok f ->
  fst (step f ORoundTrip) = f /\ snd (step f ORoundTrip) = Ok 0 /\
  forall w f', filter_serialize f = Ok w -> filter_deserialize w = Ok f' ->
    vData f' = vData f /\ nHashFuncs f' = nHashFuncs f /\ nTweak f' = nTweak f /\ nFlags f' = nFlags f /\
    forall e, contains_elem f' e = contains_elem f e.
Proof.
  intros W. destruct (wire_round_trip f W) as (w & ES & ED & _).
  split; [cbn [step]; now rewrite ES, ED|]. split; [cbn [step]; now rewrite ES, ED|].
  intros w' f' ES' ED'. assert (f' = f) by (eapply round_trip_same; eassumption). subst f'.
  repeat split.
Qed.
