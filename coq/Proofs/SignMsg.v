(* Proofs/SignMsg.v – C14: DERSignature re-parse and 32-byte padding of sign_compact, the
   ctypes sequence of CECKey.recover = SEC1 4.1.6, the recovery-id search, SignMessage's
   header byte, recover_compact o SignMessage = signer's key, VerifyMessage. *)
From BV Require Import Common.Base Common.Codec Gen.Core Gen.Key Model.Base58 Spec.Base58 Spec.Ecdsa Spec.Der
  Spec.SignMsg Model.Key Proofs.Base58Digits Proofs.Base58Spec Proofs.Base58 Proofs.Ecdsa Proofs.Der Proofs.Key.
From Coq Require Import Znumtheory.

(* ---------- 32-byte big-endian fields ---------- *)
Lemma le_dec_app a : forall b, le_dec (a ++ b) = le_dec a + 256 ^ lenZ a * le_dec b.
Proof.
  unfold lenZ. induction a as [|x t IH]; intros b; cbn [app le_dec length].
  - change (256 ^ Z.of_nat 0) with 1. lia.
  - rewrite IH, Nat2Z.inj_succ, Z.pow_succ_r by lia. ring.
Qed.
Lemma be_value_be_dec w : be_value w = be_dec w.
Proof.
  unfold be_dec. induction w as [|c t IH]; [reflexivity|].
  rewrite be_value_cons, IH. cbn [rev]. rewrite le_dec_app. cbn [le_dec].
  unfold lenZ. rewrite rev_length. ring.
Qed.
Lemma be_enc_length k v : length (be_enc k v) = k.
Proof. unfold be_enc. rewrite rev_length. apply le_enc_length. Qed.
Lemma be_dec_enc v : small v -> be_dec (be_enc 32 v) = v.
Proof. intros H. unfold be_dec, be_enc. rewrite rev_involutive. apply le_dec_enc. exact H. Qed.
Lemma be_enc_value w : be_enc (length w) (be_value w) = w.
Proof.
  rewrite be_value_be_dec. unfold be_enc, be_dec. rewrite <- (rev_length w), le_enc_dec. apply rev_involutive.
Qed.
Lemma be_value_app p w : be_value (p ++ w) = be_value p * 256 ^ lenZ w + be_value w.
Proof.
  induction p as [|c t IH]; [cbn [app]; rewrite be_value_nil; lia|].
  cbn [app]. rewrite !be_value_cons, IH. unfold lenZ. rewrite app_length, Nat2Z.inj_add, Z.pow_add_r by lia. ring.
Qed.
(* the last k bytes of a numeral hold its value mod 256^k *)
Lemma be_value_skipn j l : be_value (skipn j l) = be_value l mod 256 ^ lenZ (skipn j l).
Proof.
  rewrite <- (firstn_skipn j l) at 2. rewrite be_value_app.
  pose proof (be_value_upper (skipn j l)). pose proof (be_value_nonneg (skipn j l)).
  rewrite Z.add_comm, Z.mod_add by lia. symmetry. apply Z.mod_small. lia.
Qed.

(* ---------- DERSignature.deserialize on canonical DER ---------- *)
Lemma max_size_range : 0 <= MAX_SIZE < 2 ^ 64.
Proof. split; vm_compute; [discriminate|reflexivity]. Qed.
Lemma bytes_ser_short x rest : lenZ x < 253 ->
  Codec.decode bytes_ser (z2b (lenZ x) :: x ++ rest) = Ok (x, rest).
Proof.
  intros H. pose proof (l_rt _ (varbytes_lawful MAX_SIZE max_size_range)) as RT.
  specialize (RT x rest). cbn [wf enc norm varbytes] in RT. unfold bytes_ser.
  unfold varint_enc in RT. unfold lenZ in *. destruct (Z.ltb_spec (Z.of_nat (length x)) 253); [|lia].
  cbn [le_enc app] in RT. apply RT. pose proof max_size_range. unfold MAX_SIZE in *. lia.
Qed.
Lemma expect_ok b rest : expect_byte b (b :: rest) = Ok rest.
Proof. unfold expect_byte. rewrite take1_cons. cbn [bind fst snd]. rewrite bytes_eqb_refl. reflexivity. Qed.

Theorem der_sig_deserialize_enc r s : small r -> small s ->
  der_sig_deserialize (enc_der r s) = Ok (der_int_content r, der_int_content s).
Proof.
  intros Hr Hs. unfold der_sig_deserialize, enc_der, der_int.
  pose proof (small_content r Hr) as Lr. pose proof (small_content s Hs) as Ls.
  set (cr := der_int_content r) in *. set (cs := der_int_content s) in *.
  rewrite expect_ok. cbn [bind].
  set (body := (x02 :: z2b (lenZ cr) :: cr) ++ x02 :: z2b (lenZ cs) :: cs).
  rewrite <- (app_nil_r body) at 2.
  rewrite bytes_ser_short by (unfold body, lenZ; rewrite app_length; cbn [length]; lia).
  cbn [bind fst snd]. unfold body. cbn [app]. rewrite expect_ok. cbn [bind].
  rewrite bytes_ser_short by (unfold lenZ; lia). cbn [bind fst snd]. rewrite expect_ok. cbn [bind].
  rewrite <- (app_nil_r cs) at 2. rewrite bytes_ser_short by (unfold lenZ; lia). reflexivity.
Qed.

(* ---------- ((b'\x00' * 32) + v)[-32:] ---------- *)
Lemma content_33 v : small v -> length (der_int_content v) = 33%nat ->
  exists t, der_int_content v = x00 :: t.
Proof.
  intros Hv. pose proof (be_bytes_length v 32 Hv) as Lb. unfold der_int_content.
  destruct (be_bytes v) as [|h t]; [discriminate|]. destruct (b2z h <? 128); cbn [length] in *; [lia|eauto].
Qed.
Theorem pad32_content v : small v -> pad32 (der_int_content v) = Ok (be_enc 32 v).
Proof.
  intros Hv. pose proof (small_content v Hv) as Lc.
  destruct (content_spec v ltac:(unfold small in Hv; lia)) as [_ Vc].
  set (c := der_int_content v) in *. unfold pad32.
  assert (Cond : (lenZ c <=? 32) || bytes_eqb (py_slice c (Some 0) (Some (-32))) [x00] = true).
  { unfold lenZ. destruct (Z.leb_spec (Z.of_nat (length c)) 32); [reflexivity|]. cbn [orb].
    assert (L33 : length c = 33%nat) by lia. destruct (content_33 v Hv L33) as [t Et]. fold c in Et.
    unfold py_slice, lenZ. rewrite (clamp_pos _ 0), (clamp_neg _ (-32)) by lia. rewrite L33, Et. reflexivity. }
  rewrite Cond. f_equal.
  set (l := zeros 32 ++ c).
  assert (Ll : length l = (32 + length c)%nat) by (unfold l, zeros; rewrite app_length, repeat_length; reflexivity).
  assert (Sl : py_slice l (Some (-32)) None = skipn (length c) l).
  { unfold py_slice, lenZ. rewrite clamp_neg by lia. rewrite Ll.
    replace (Z.to_nat (-32 + Z.of_nat (32 + length c))) with (length c) by lia.
    apply firstn_all2. rewrite skipn_length. lia. }
  rewrite Sl. set (w := skipn (length c) l).
  assert (Lw : length w = 32%nat) by (unfold w; rewrite skipn_length; lia).
  rewrite <- (be_enc_value w), Lw. f_equal.
  unfold w. rewrite be_value_skipn. fold w. unfold lenZ. rewrite Lw.
  unfold l, zeros. rewrite be_value_zeros, Vc. apply Z.mod_small. exact Hv.
Qed.

(* ---------- CECKey.recover = SEC1 4.1.6 ---------- *)
Section Recover.
Variable E : curve.
Hypothesis L : curve_laws E.
Hypothesis n_small : c_n E < 2 ^ 256.
Hypothesis p_small : c_p E <= 2 ^ 256.
Hypothesis degree_ok : 256 <= degree E.
Hypothesis table_ok : V max_mod_half_order = c_n E / 2.
Notation n := (c_n E).
Notation g := (@c_gen E).

Lemma lenZ_be32 v : lenZ (be_enc 32 v) = 32.
Proof. unfold lenZ. rewrite be_enc_length. reflexivity. Qed.

(* the point computed by the ctypes sequence is r^-1 (s R - e G) *)
Lemma recover_point e ri s (R : pt E) :
  c_add E (c_mul E ((((0 - e) mod n) * ri) mod n) g) (c_mul E ((s * ri) mod n) R) =
  c_mul E ri (c_add E (c_mul E s R) (c_mul E (- e) g)).
Proof.
  pose proof (n_ge_2 E L) as Hn.
  rewrite (L_mul_add_r E L), !(L_mul_mul E L), (L_add_comm E L (c_mul E (ri * s) R)).
  f_equal; apply (mul_cong E L); rewrite Z.mod_mod by lia.
  - rewrite Z.mul_mod_idemp_l by lia. f_equal. ring.
  - f_equal. ring.
Qed.

Theorem cec_recover_spec r s hash recid check : small r -> small s -> length hash = 32%nat ->
  0 <= recid < 4 ->
  exists code, cec_recover E (be_enc 32 r) (be_enc 32 s) hash recid check =
                 Ok (code, recover_ref E r s (be_dec hash) recid) /\
               (recover_ref E r s (be_dec hash) recid = None -> code < 1) /\
               (recover_ref E r s (be_dec hash) recid <> None -> code = 1).
Proof.
  intros Hr Hs Lh Hrec. unfold cec_recover, recover_ref.
  rewrite !lenZ_be32. cbn [Z.eqb Pos.eqb negb]. rewrite !be_dec_enc by assumption.
  assert (Q2 : Z.quot recid 2 = recid / 2) by (apply Z.quot_div_nonneg; lia).
  rewrite Q2. replace (n * (recid / 2) + r) with (r + recid / 2 * n) by ring.
  set (x := r + recid / 2 * n).
  rewrite Z.geb_leb. destruct (c_p E <=? x); [exists 0; split; [reflexivity|split; [intros; lia|congruence]]|].
  assert (O : (recid mod 2 =? 1) = Z.odd recid).
  { assert (C : recid = 0 \/ recid = 1 \/ recid = 2 \/ recid = 3) by lia.
    destruct C as [->|[->|[->| ->]]]; reflexivity. }
  rewrite O. destruct (c_lift E x (Z.odd recid)) as [R|]; [|exists 0; split; [reflexivity|split; [intros; lia|congruence]]].
  rewrite (L_mul_n E L R). assert (Z0 : c_is_zero E (@c_zero E) = true) by (apply (L_is_zero E L); reflexivity).
  rewrite Z0. cbn [negb]. rewrite andb_false_r.
  unfold lenZ. rewrite Lh.
  destruct (Z.gtb_spec (8 * Z.of_nat 32) (degree E)) as [G|_]; [change (8 * Z.of_nat 32) with 256 in G; lia|].
  destruct (inv_mod r n =? 0); [exists (-1); split; [reflexivity|split; [intros; lia|congruence]]|].
  exists 1. rewrite recover_point. split; [reflexivity|split; [congruence|reflexivity]].
Qed.

(* ---------- the compressed encoding identifies the point ---------- *)
Lemma be32_inj a b : small a -> small b -> be_enc 32 a = be_enc 32 b -> a = b.
Proof. intros Ha Hb H. rewrite <- (be_dec_enc a Ha), <- (be_dec_enc b Hb), H. reflexivity. Qed.
Lemma x_small (P : pt E) : P <> @c_zero E -> small (c_x E P).
Proof. intros H. pose proof (L_x_range E L P H). unfold small. lia. Qed.
Lemma sec1_compressed_inj (P Q : pt E) :
  sec1_enc E Compressed P = sec1_enc E Compressed Q -> P = Q.
Proof.
  unfold sec1_enc. destruct (c_is_zero E P) eqn:ZP; destruct (c_is_zero E Q) eqn:ZQ.
  - intros _. apply (L_is_zero E L) in ZP, ZQ. congruence.
  - intros H. apply (f_equal (@length _)) in H. cbn [length] in H. unfold be32 in H. rewrite be_enc_length in H. discriminate.
  - intros H. apply (f_equal (@length _)) in H. cbn [length] in H. unfold be32 in H. rewrite be_enc_length in H. discriminate.
  - intros H. pose proof (f_equal (hd x00) H) as Hh. pose proof (f_equal (@tl _) H) as Hx. cbn [hd tl] in Hh, Hx.
    assert (NP : P <> @c_zero E) by (intros EP; apply (L_is_zero E L) in EP; congruence).
    assert (NQ : Q <> @c_zero E) by (intros EQ; apply (L_is_zero E L) in EQ; congruence).
    unfold be32 in Hx. apply be32_inj in Hx; [|apply x_small; assumption|apply x_small; assumption].
    assert (Par : c_y E P mod 2 = c_y E Q mod 2).
    { apply (f_equal b2z) in Hh.
      pose proof (Z.mod_pos_bound (c_y E P) 2 ltac:(lia)) as B1. pose proof (Z.mod_pos_bound (c_y E Q) 2 ltac:(lia)) as B2.
      set (a := c_y E P mod 2) in *. set (b := c_y E Q mod 2) in *.
      rewrite (z2b_small (2 + a)), (z2b_small (2 + b)) in Hh by (clear - B1 B2; lia). clear - Hh. lia. }
    assert (Yo : c_yodd E P = c_yodd E Q).
    { unfold c_yodd. rewrite !Zmod_odd in Par. destruct (Z.odd (c_y E P)); destruct (Z.odd (c_y E Q)); congruence. }
    pose proof (L_lift E L P NP) as LP. pose proof (L_lift E L Q NQ) as LQ.
    rewrite Hx, Yo, LQ in LP. congruence.
Qed.

(* ---------- the recovery-id search of sign_compact ---------- *)
Lemma search_spec r s hash mine hi j Qm : small r -> small s -> length hash = 32%nat -> hi <= 4 ->
  recover_ref E r s (be_dec hash) j = Some Qm -> sec1_enc E Compressed Qm = mine ->
  forall fuel i, Z.of_nat fuel = hi - i -> 0 <= i <= j -> j < hi ->
  exists i0 Q0, i <= i0 <= j /\
    recid_search E fuel i hi (be_enc 32 r) (be_enc 32 s) hash mine = Ok i0 /\
    recover_ref E r s (be_dec hash) i0 = Some Q0 /\ sec1_enc E Compressed Q0 = mine.
Proof.
  intros Hr Hs Lh Hhi Rj Em. induction fuel as [|f IH]; intros i Hf Hi Hj; [lia|].
  cbn [recid_search]. destruct (Z.leb_spec hi i); [lia|].
  destruct (cec_recover_spec r s hash i true Hr Hs Lh ltac:(lia)) as (code & Ec & C0 & C1).
  rewrite Ec. cbn [bind].
  assert (Next : i <> j -> exists i0 Q0, i <= i0 <= j /\
            recid_search E f (i + 1) hi (be_enc 32 r) (be_enc 32 s) hash mine = Ok i0 /\
            recover_ref E r s (be_dec hash) i0 = Some Q0 /\ sec1_enc E Compressed Q0 = mine).
  { intros Ne. destruct (IH (i + 1) ltac:(lia) ltac:(lia) Hj) as (i0 & Q0 & R0 & S0 & T0).
    exists i0, Q0. split; [lia|]. split; [exact S0|exact T0]. }
  destruct (recover_ref E r s (be_dec hash) i) as [Q|] eqn:Ri.
  - rewrite (C1 ltac:(congruence)). cbn [Z.eqb Pos.eqb andb].
    destruct (bytes_eqb (sec1_enc E Compressed Q) mine) eqn:Eq.
    + apply bytes_eqb_eq in Eq. exists i, Q. repeat split; [lia|lia|exact Ri|exact Eq].
    + apply Next. intros ->. rewrite Rj in Ri. injection Ri as <-. rewrite Em, bytes_eqb_refl in Eq. discriminate.
  - apply Next. intros ->. congruence.
Qed.

(* ---------- CECKey.sign_compact ---------- *)
Lemma range_eq : sc_recid_lo = 0 /\ sc_recid_hi = 4.
Proof. split; reflexivity. Qed.

Theorem cec_sign_compact_spec d hash k : length hash = 32%nat -> valid_nonce E d (be_dec hash) k ->
  let r := fst (sign_raw E d (be_dec hash) k) in
  let s := norm_s E (snd (sign_raw E d (be_dec hash) k)) in
  exists i, 0 <= i < 4 /\ cec_sign_compact E d hash k = Ok (be_enc 32 r ++ be_enc 32 s, i) /\
            recover_ref E r s (be_dec hash) i = Some (pub E d).
Proof.
  intros Lh V0 r s. pose proof V0 as (Hk & Hr & Hs).
  pose proof (cec_sign_spec E L n_small table_ok d hash k Lh V0) as Sg. fold r in Sg. fold s in Sg.
  destruct (sign_raw_small E L n_small d (be_dec hash) k) as [Sr Ss0]. fold r in Sr.
  assert (Rs : 1 <= snd (sign_raw E d (be_dec hash) k) < n).
  { unfold small in Ss0. pose proof (n_ge_2 E L). unfold sign_raw in *. cbn [snd fst] in *.
    pose proof (Z.mod_pos_bound (inv_mod k n * (be_dec hash + c_x E (c_mul E k g) mod n * d)) n ltac:(lia)). lia. }
  destruct (norm_s_low E _ Rs) as [Lo Rn]. fold s in Lo, Rn.
  assert (Ss : small s) by (unfold small; lia).
  (* the recovery id that works *)
  assert (Ex : exists j, 0 <= j < 4 /\ recover_ref E r s (be_dec hash) j = Some (pub E d)).
  { unfold s, norm_s. destruct (_ >? _).
    - destruct (recover_sign_twin E L d (be_dec hash) k V0) as [Rg Rc]. eauto.
    - destruct (recover_sign E L d (be_dec hash) k V0) as [Rg Rc]. eauto. }
  destruct Ex as (j & Hj & Rj).
  destruct range_eq as [Lo4 Hi4].
  destruct (search_spec r s hash (sec1_enc E Compressed (pub E d)) 4 j (pub E d) Sr Ss Lh ltac:(lia) Rj eq_refl
              4%nat 0 ltac:(lia) ltac:(lia) ltac:(lia)) as (i0 & Q0 & Ri0 & Se & R0 & En).
  apply sec1_compressed_inj in En. subst Q0.
  exists i0. split; [lia|]. split; [|exact R0].
  unfold cec_sign_compact. rewrite (hash_len32 hash Lh). cbn [negb].
  unfold cec_sign in Sg. rewrite (hash_len32 hash Lh) in Sg. cbn [negb] in Sg.
  destruct (is_low_der (ossl_sign E d hash k)) as [low|] eqn:Il; cbn [bind] in Sg |- *; [|discriminate].
  assert (Sg' : (if low then Ok (ossl_sign E d hash k) else signature_to_low_s E (ossl_sign E d hash k)) = Ok (enc_der r s))
    by (destruct low; exact Sg).
  rewrite Sg'. cbn [bind]. rewrite (der_sig_deserialize_enc r s Sr Ss). cbn [bind fst snd].
  rewrite (pad32_content r Sr), (pad32_content s Ss). cbn [bind].
  rewrite Lo4, Hi4. change (Z.to_nat (4 - 0)) with 4%nat. rewrite Se. reflexivity.
Qed.

(* ---------- SignMessage / recover_compact / VerifyMessage ---------- *)
Lemma consts_eq : signmsg_base = 27 /\ signmsg_compressed_add = 4 /\ rc_sig_len = 65 /\ rc_base = 27 /\
  rc_recid_mask = 3 /\ rc_comp_mask = 4 /\ rc_r_lo = 1 /\ rc_r_hi = 33 /\ rc_s_lo = 33 /\ rc_s_hi = 65 /\
  pubkey_compressed_len = 33.
Proof. repeat split; reflexivity. Qed.

Lemma pub_nonzero d : 1 <= d < n -> pub E d <> @c_zero E.
Proof. intros H. apply (gen_nonzero E L). apply (small_mod E). exact H. Qed.
Lemma is_compressed_form d c : 1 <= d < n ->
  pk_is_compressed (sec1_enc E (form_of c) (pub E d)) = c.
Proof.
  intros H. unfold sec1_enc. rewrite (is_zero_false E L _ (pub_nonzero d H)).
  unfold pk_is_compressed, lenZ. change pubkey_compressed_len with 33.
  destruct c; cbn [form_of length]; unfold be32; rewrite ?app_length, !be_enc_length; reflexivity.
Qed.

Theorem sign_message_spec d c hash k : 1 <= d < n -> length hash = 32%nat -> valid_nonce E d (be_dec hash) k ->
  let r := fst (sign_raw E d (be_dec hash) k) in
  let s := norm_s E (snd (sign_raw E d (be_dec hash) k)) in
  exists i, 0 <= i < 4 /\ sign_message E d c hash k = Ok (compact_sig i c r s) /\
            recover_ref E r s (be_dec hash) i = Some (pub E d).
Proof.
  intros Hd Lh V0 r s. destruct (cec_sign_compact_spec d hash k Lh V0) as (i & Hi & Sc & Rc).
  fold r in Sc, Rc. fold s in Sc, Rc. exists i. split; [exact Hi|]. split; [|exact Rc].
  unfold sign_message. rewrite Sc. cbn [bind]. rewrite (is_compressed_form d c Hd).
  change signmsg_base with 27. change signmsg_compressed_add with 4. unfold compact_sig, compact_header.
  assert (Ci : i = 0 \/ i = 1 \/ i = 2 \/ i = 3) by lia.
  destruct c; destruct Ci as [->|[->|[->| ->]]]; reflexivity.
Qed.

Lemma compact_sig_length i c r s : length (compact_sig i c r s) = 65%nat.
Proof. unfold compact_sig. cbn [length]. rewrite app_length, !be_enc_length. reflexivity. Qed.

Theorem recover_compact_spec i c r s hash : 0 <= i < 4 -> small r -> small s -> length hash = 32%nat ->
  recover_compact E hash (compact_sig i c r s) =
  Ok (option_map (fun Q => (c, Q)) (recover_ref E r s (be_dec hash) i)).
Proof.
  intros Hi Hr Hs Lh. unfold recover_compact. destruct consts_eq as (_ & _ & C1 & C2 & C3 & C4 & C5 & C6 & C7 & C8 & _).
  rewrite C1, C2, C3, C4, C5, C6, C7, C8. unfold lenZ. rewrite compact_sig_length. cbn [Z.of_nat Pos.of_succ_nat Pos.succ Z.eqb Pos.eqb negb].
  unfold compact_sig.
  pose proof (py_getitem_mid [] (z2b (compact_header i c)) (be_enc 32 r ++ be_enc 32 s) 0 eq_refl) as G0.
  cbn [app] in G0. rewrite G0. cbn [bind].
  assert (Hh : 27 <= compact_header i c <= 34) by (unfold compact_header; destruct c; lia).
  rewrite z2b_small by lia.
  assert (Ri : Z.land (compact_header i c - 27) 3 = i /\ negb (Z.land (compact_header i c - 27) 4 =? 0) = c).
  { unfold compact_header. assert (Ci : i = 0 \/ i = 1 \/ i = 2 \/ i = 3) by lia.
    destruct c; destruct Ci as [->|[->|[->| ->]]]; split; reflexivity. }
  destruct Ri as [Ri Rc]. rewrite Ri, Rc.
  replace (py_slice (z2b (compact_header i c) :: be_enc 32 r ++ be_enc 32 s) (Some 1) (Some 33)) with (be_enc 32 r)
    by (symmetry; apply (py_slice_mid [z2b (compact_header i c)] (be_enc 32 r) (be_enc 32 s)); [reflexivity|rewrite lenZ_be32; reflexivity]).
  replace (py_slice (z2b (compact_header i c) :: be_enc 32 r ++ be_enc 32 s) (Some 33) (Some 65)) with (be_enc 32 s).
  2:{ symmetry. rewrite <- (app_nil_r (be_enc 32 s)) at 1.
      apply (py_slice_mid (z2b (compact_header i c) :: be_enc 32 r) (be_enc 32 s) []);
        unfold lenZ; cbn [length]; rewrite !be_enc_length; reflexivity. }
  destruct (cec_recover_spec r s hash i false Hr Hs Lh Hi) as (code & Ec & C0 & C1').
  rewrite Ec. cbn [bind]. destruct (recover_ref E r s (be_dec hash) i) as [Q|]; [|reflexivity].
  rewrite (C1' ltac:(congruence)). reflexivity.
Qed.

(* recovery from the signer's message signature gives the signer's key and flag *)
Theorem recover_signer d c hash k : 1 <= d < n -> length hash = 32%nat -> valid_nonce E d (be_dec hash) k ->
  exists sig, sign_message E d c hash k = Ok sig /\ length sig = 65%nat /\
              recover_compact E hash sig = Ok (Some (c, pub E d)).
Proof.
  intros Hd Lh V0. destruct (sign_message_spec d c hash k Hd Lh V0) as (i & Hi & Sm & Rc).
  eexists. split; [exact Sm|]. split; [apply compact_sig_length|].
  destruct (sign_raw_small E L n_small d (be_dec hash) k) as [Sr Ss0].
  assert (Rs : 1 <= snd (sign_raw E d (be_dec hash) k) < n).
  { destruct V0 as (Hk & Hr & Hs). unfold small in Ss0. pose proof (n_ge_2 E L). unfold sign_raw in *. cbn [snd fst] in *.
    pose proof (Z.mod_pos_bound (inv_mod k n * (be_dec hash + c_x E (c_mul E k g) mod n * d)) n ltac:(lia)). lia. }
  destruct (norm_s_low E _ Rs) as [_ Rn].
  rewrite recover_compact_spec; [rewrite Rc; reflexivity|exact Hi|exact Sr|unfold small; lia|exact Lh].
Qed.

(* another digest (mod n) recovers another key from the same signature *)
Theorem recover_other_message d c hash hash' k : 1 <= d < n -> length hash = 32%nat -> length hash' = 32%nat ->
  valid_nonce E d (be_dec hash) k -> be_dec hash mod n <> be_dec hash' mod n ->
  exists sig, sign_message E d c hash k = Ok sig /\
    (recover_compact E hash' sig = Ok None \/
     exists Q', recover_compact E hash' sig = Ok (Some (c, Q')) /\ Q' <> pub E d).
Proof.
  intros Hd Lh Lh' V0 Ne. destruct (sign_message_spec d c hash k Hd Lh V0) as (i & Hi & Sm & Rc).
  eexists. split; [exact Sm|].
  destruct (sign_raw_small E L n_small d (be_dec hash) k) as [Sr Ss0].
  assert (Rs : 1 <= snd (sign_raw E d (be_dec hash) k) < n).
  { destruct V0 as (Hk & Hr & Hs). unfold small in Ss0. pose proof (n_ge_2 E L). unfold sign_raw in *. cbn [snd fst] in *.
    pose proof (Z.mod_pos_bound (inv_mod k n * (be_dec hash + c_x E (c_mul E k g) mod n * d)) n ltac:(lia)). lia. }
  destruct (norm_s_low E _ Rs) as [_ Rn].
  rewrite recover_compact_spec; [|exact Hi|exact Sr|unfold small; lia|exact Lh'].
  pose proof (recover_other_digest E L _ _ _ (be_dec hash') i _ Rc Ne) as Od.
  destruct (recover_ref E _ _ (be_dec hash') i) as [Q'|]; [right|left; reflexivity].
  exists Q'. split; [reflexivity|]. intros ->. apply Od. reflexivity.
Qed.

Variable H : bytes -> bytes.
Variable H160 : bytes -> bytes.
Lemma text_eqb_eq a : forall b, text_eqb a b = true <-> a = b.
Proof.
  induction a as [|x a IH]; intros [|y b]; cbn [text_eqb]; split; try congruence; try discriminate.
  - intros E0. apply andb_true_iff in E0 as [E1 E2]. apply Z.eqb_eq in E1. apply IH in E2. congruence.
  - intros E0. injection E0 as -> ->. rewrite Z.eqb_refl. apply IH. reflexivity.
Qed.
Lemma form_eq c : form_of c = form_of_flag c.
Proof. destruct c; reflexivity. Qed.

(* VerifyMessage compares the text of the recovered key's P2PKH address with str(address) *)
Theorem verify_message_spec prefix a hash sig c Q : 0 <= prefix < 256 ->
  recover_compact E hash sig = Ok (Some (c, Q)) ->
  verify_message E H H160 prefix a hash sig = Ok (text_eqb (address_of E H H160 prefix c Q) a).
Proof.
  intros Hp Rc. unfold verify_message. rewrite Rc. cbn [bind].
  rewrite (to_text_spec H prefix _ Hp). cbn [bind]. unfold address_of, p2pkh_text. rewrite form_eq. reflexivity.
Qed.
Theorem verify_message_true prefix a hash sig : 0 <= prefix < 256 ->
  verify_message E H H160 prefix a hash sig = Ok true ->
  exists c Q, recover_compact E hash sig = Ok (Some (c, Q)) /\ a = address_of E H H160 prefix c Q.
Proof.
  intros Hp Vm. unfold verify_message in Vm.
  destruct (recover_compact E hash sig) as [[[c Q]|]|] eqn:Rc; cbn [bind] in Vm; try discriminate.
  rewrite (to_text_spec H prefix _ Hp) in Vm. cbn [bind] in Vm. injection Vm as Vm.
  apply text_eqb_eq in Vm. exists c, Q. split; [reflexivity|]. rewrite <- Vm.
  unfold address_of, p2pkh_text. rewrite form_eq. reflexivity.
Qed.

(* the signer's signature is accepted for exactly the signer's address string *)
Theorem verify_signer prefix a d c hash k : 0 <= prefix < 256 -> 1 <= d < n -> length hash = 32%nat ->
  valid_nonce E d (be_dec hash) k ->
  exists sig, sign_message E d c hash k = Ok sig /\
    verify_message E H H160 prefix a hash sig = Ok (text_eqb (address_of E H H160 prefix c (pub E d)) a).
Proof.
  intros Hp Hd Lh V0. destruct (recover_signer d c hash k Hd Lh V0) as (sig & Sm & _ & Rc).
  exists sig. split; [exact Sm|]. apply verify_message_spec; assumption.
Qed.
(* ... and for another message only through a collision: a different key with the same address *)
Theorem verify_other_message prefix d c hash hash' k : 0 <= prefix < 256 -> 1 <= d < n ->
  length hash = 32%nat -> length hash' = 32%nat -> valid_nonce E d (be_dec hash) k ->
  be_dec hash mod n <> be_dec hash' mod n ->
  exists sig, sign_message E d c hash k = Ok sig /\
    (verify_message E H H160 prefix (address_of E H H160 prefix c (pub E d)) hash' sig = Ok true ->
     exists Q', Q' <> pub E d /\ address_of E H H160 prefix c Q' = address_of E H H160 prefix c (pub E d)).
Proof.
  intros Hp Hd Lh Lh' V0 Ne.
  destruct (recover_other_message d c hash hash' k Hd Lh Lh' V0 Ne) as (sig & Sm & Alt).
  exists sig. split; [exact Sm|]. intros Vm.
  destruct Alt as [Rn|(Q' & Rq & NQ)].
  - unfold verify_message in Vm. rewrite Rn in Vm. discriminate.
  - rewrite (verify_message_spec prefix _ hash' sig c Q' Hp Rq) in Vm. injection Vm as Vm.
    apply text_eqb_eq in Vm. exists Q'. split; assumption.
Qed.
End Recover.

(* ---------- the digest ---------- *)
Theorem message_hash_spec H magic msg : message_hash H magic msg = msg_digest H magic msg.
Proof. reflexivity. Qed.
Lemma magic_eq : msg_magic_default = ref_magic.
Proof. reflexivity. Qed.
