(* Proofs/ScriptEval.v – C06/C07: MODEL (Python-style interpreter, end-topped stack) versus
   SPEC (reference semantics, head-topped stack). *)
From BV Require Import Common.Base Common.PyList Common.Tx Common.ScriptFlags
  Gen.ScriptConsts Gen.EvalConsts Model.Script Model.ScriptEval Spec.ScriptRef.

(* the limits and opcode classes regenerated from the source are the reference ones *)
Lemma limits_ok :
  MAX_SCRIPT_SIZE = 10000 /\ MAX_SCRIPT_ELEMENT_SIZE = 520 /\ MAX_SCRIPT_OPCODES = 201 /\
  MAX_STACK_ITEMS = 1000 /\ MAX_NUM_SIZE = 4.
Proof. repeat split; reflexivity. Qed.
Lemma disabled_ok : forall op, 0 <= op < 256 -> mem op DISABLED_OPCODES = disabled op.
Proof.
  assert (H : forallb (fun n => Bool.eqb (mem (Z.of_nat n) DISABLED_OPCODES) (disabled (Z.of_nat n))) (seq 0 256) = true)
    by (vm_compute; reflexivity).
  intros op Hop. rewrite forallb_forall in H. specialize (H (Z.to_nat op)).
  rewrite Z2Nat.id in H by lia. apply eqb_prop. apply H. apply in_seq. lia.
Qed.
