(* Proofs/ScriptEval.v – C06/C07: MODEL (Python-style interpreter, end-topped stack) versus
   SPEC (reference semantics, head-topped stack): per opcode class, the branch body of
   _EvalScript run on [rev s] does what the reference table does on s, and fails with
   EvalScriptError exactly when the reference fails – no IndexError / KeyError / … branch of
   the model is reachable. *)
From BV Require Import Common.Base Common.PyList Common.Tx Common.ScriptFlags
  Gen.ScriptConsts Gen.EvalConsts Model.Script Model.FindAndDelete Model.ScriptEval
  Spec.Script Spec.ScriptRef Proofs.ScriptStack Proofs.ScriptNum Proofs.ScriptIter.

(* the limits and opcode classes regenerated from the source are the reference ones *)
Lemma limits_ok :
  MAX_SCRIPT_SIZE = 10000 /\ MAX_SCRIPT_ELEMENT_SIZE = 520 /\ MAX_SCRIPT_OPCODES = 201 /\
  MAX_STACK_ITEMS = 1000 /\ MAX_NUM_SIZE = 4.
Proof. repeat split; reflexivity. Qed.
Lemma sweep256 (P : Z -> bool) : forallb (fun n => P (Z.of_nat n)) (seq 0 256) = true ->
  forall op, 0 <= op < 256 -> P op = true.
Proof.
  intros H op Hop. rewrite forallb_forall in H. specialize (H (Z.to_nat op)).
  rewrite Z2Nat.id in H by lia. apply H. apply in_seq. lia.
Qed.
Lemma disabled_ok : forall op, 0 <= op < 256 -> mem op DISABLED_OPCODES = disabled op.
Proof.
  intros op Hop. apply eqb_prop.
  apply (sweep256 (fun n => Bool.eqb (mem n DISABLED_OPCODES) (disabled n))); [vm_compute; reflexivity|exact Hop].
Qed.
(* the Python elif chain selects the branch the reference opcode table names *)
Lemma kind_ok : forall op, 0 <= op < 256 -> kind_of op = ref_kind op.
Proof.
  intros op Hop. apply kind_eqb_eq.
  apply (sweep256 (fun n => kind_eqb (kind_of n) (ref_kind n))); [vm_compute; reflexivity|exact Hop].
Qed.

(* ---------- numbers ---------- *)
Lemma num_enc_len v : Z.abs v < 2^62 -> lenZ (num_enc v) <= 10.
Proof.
  intros H. unfold num_enc. destruct (v =? 0); [unfold lenZ; simpl; lia|].
  unfold lenZ. rewrite le_enc_length.
  assert (L : Z.log2 (Z.abs v) < 62).
  { destruct (Z.eq_dec (Z.abs v) 0) as [E|E]; [rewrite E; simpl; lia|]. apply Z.log2_lt_pow2; lia. }
  pose proof (Z.log2_nonneg (Z.abs v)).
  destruct (128 <=? _); rewrite ?Nat2Z.inj_succ, Z2Nat.id; lia.
Qed.
Lemma bn2vch_small v : Z.abs v < 2^62 -> bn2vch v = Ok (ref_enc v).
Proof.
  intros H. rewrite bn2vch_spec. pose proof (num_enc_len v H).
  destruct (Z.ltb_spec (lenZ (num_enc v)) (2^32)); [reflexivity|lia].
Qed.
Lemma cast_to_bignum_ref x : lenZ x < 2^32 ->
  cast_to_bignum x = match ref_num x with Some n => Ok n | None => Err EvalErr end.
Proof.
  intros H. unfold cast_to_bignum, ref_num. rewrite vch2bn_spec.
  destruct (Z.ltb_spec (lenZ x) (2^32)); [|lia]. cbn [bind]. change MAX_NUM_SIZE with 4.
  destruct (lenZ x >? 4); reflexivity.
Qed.
Lemma ref_num_bound x n : ref_num x = Some n -> Z.abs n < 2^31.
Proof.
  unfold ref_num. destruct (Z.gtb_spec (lenZ x) 4) as [G|G]; [discriminate|]. intros E. injection E as <-.
  unfold num_dec. destruct x as [|b t]; [simpl; lia|].
  set (l := b :: t) in *. pose proof (le_dec_range l) as R. fold (lenZ l) in R.
  assert (L1 : 1 <= lenZ l) by (unfold lenZ, l; cbn [length]; lia).
  assert (E : 256 ^ lenZ l = 2 * (128 * 256 ^ (lenZ l - 1))).
  { replace (lenZ l) with (Z.succ (lenZ l - 1)) at 1 by lia. rewrite Z.pow_succ_r by lia. lia. }
  assert (B : 128 * 256 ^ (lenZ l - 1) <= 2^31).
  { assert (256 ^ (lenZ l - 1) <= 256 ^ 3) by (apply Z.pow_le_mono_r; lia). change (256^3) with 16777216 in *. lia. }
  destruct (Z.ltb_spec (le_dec l) (128 * 256 ^ (lenZ l - 1))); lia.
Qed.

Section Sim.
Variable checksig : bytes -> bytes -> bytes -> bool.
Variable ripemd160 sha1 sha256 : bytes -> bytes.
Variable fl : flags.
Notation exec := (exec checksig ripemd160 sha1 sha256 fl).
Notation exec_op := (exec_op checksig ripemd160 sha1 sha256 fl).

(* the model state that represents a reference state: every Python list is the reverse of
   the head-topped one; pb is pbegincodehash *)
Definition abs (r : rstate) (pb : Z) : state :=
  {| stack := rev (r_stack r); altstack := rev (r_alt r); vfExec := rev (r_vf r); pbegincodehash := pb; nOpCount := r_nop r |}.
Definition sim1 (m : res state) (sp : option rstate) (pb : Z) : Prop :=
  match sp with Some r' => m = Ok (abs r' pb) | None => m = Err EvalErr end.

(* sizes for which Python's struct.pack(">I", len) inside bn2vch / CScript([x]) cannot overflow *)
Definition small (x : bytes) : Prop := lenZ x < 2^31.
Definition small_state (r : rstate) : Prop :=
  Forall small (r_stack r) /\ Forall small (r_alt r) /\ lenZ (r_stack r) < 2^31.

Ltac pose_len l := lazymatch goal with H : 0 <= len l |- _ => fail | _ => pose proof (len_nonneg l) end.
Ltac lens := rewrite ?len_cons, ?len_nil in *;
  repeat match goal with
         | |- context [len ?l] => pose_len l
         | H : context [len ?l] |- _ => pose_len l
         end; lia.
Ltac nthrev k x := rewrite (py_nth_rev _ k x) by (first [lia | reflexivity]).
Ltac znat := repeat match goal with |- context [Z.to_nat ?e] =>
    let v := eval vm_compute in (Z.to_nat e) in change (Z.to_nat e) with v end.
Ltac start K r := intros K; unfold exec_op; rewrite K; unfold exec, abs, sim1, set_stack;
  cbn [stack altstack vfExec pbegincodehash nOpCount];
  destruct r as [st al vf sub nop]; cbn [r_stack r_alt r_vf r_sub r_nop with_stack].
Ltac few := rewrite check_args_rev_fail by lens; reflexivity.
Ltac enough_ := rewrite check_args_rev_ok by lens; cbn [bind].
Ltac popn := rewrite pop_n_rev by (cbn [length]; lia); cbn [bind skipn].
Ltac pop1 := rewrite py_pop_rev; cbn [bind fst snd].
Ltac delrev k := rewrite (py_del_rev _ k) by lens; cbn [bind]; znat; cbn [firstn skipn app].
Ltac setrev k := rewrite (py_set_rev _ k) by lens; cbn [bind]; znat; cbn [firstn skipn app].
Ltac fin := cbn [bind]; rewrite ?push_rev; reflexivity.
(* decide the closed opcode comparisons of an elif chain *)
Ltac evalb := repeat match goal with |- context [Z.eqb ?a ?b] =>
    let v := eval vm_compute in (Z.eqb a b) in
    lazymatch v with
    | true => change (Z.eqb a b) with true
    | false => change (Z.eqb a b) with false
    end end; cbn [bind].

Variables (scriptIn : bytes) (pb : Z) (o : sop) (rest : bytes).
Notation OPC := (sop_opcode o).

Lemma sim_2drop r : ref_kind OPC = K2Drop -> sim1 (exec scriptIn (abs r pb) o K2Drop) (exec_op OPC rest r) pb.
Proof. start K r. destruct st as [|x2 [|x1 st]]; [few|few|]. enough_. popn. reflexivity. Qed.
Lemma sim_2dup r : ref_kind OPC = K2Dup -> sim1 (exec scriptIn (abs r pb) o K2Dup) (exec_op OPC rest r) pb.
Proof. start K r. destruct st as [|x2 [|x1 st]]; [few|few|]. enough_. nthrev 2 x1. nthrev 1 x2. fin. Qed.
Lemma sim_3dup r : ref_kind OPC = K3Dup -> sim1 (exec scriptIn (abs r pb) o K3Dup) (exec_op OPC rest r) pb.
Proof. start K r. destruct st as [|x3 [|x2 [|x1 st]]]; [few|few|few|]. enough_. nthrev 3 x1. nthrev 2 x2. nthrev 1 x3. fin. Qed.
Lemma sim_2over r : ref_kind OPC = K2Over -> sim1 (exec scriptIn (abs r pb) o K2Over) (exec_op OPC rest r) pb.
Proof. start K r. destruct st as [|x4 [|x3 [|x2 [|x1 st]]]]; [few|few|few|few|]. enough_. nthrev 4 x1. nthrev 3 x2. fin. Qed.
Lemma sim_2rot r : ref_kind OPC = K2Rot -> sim1 (exec scriptIn (abs r pb) o K2Rot) (exec_op OPC rest r) pb.
Proof.
  start K r. destruct st as [|x6 [|x5 [|x4 [|x3 [|x2 [|x1 st]]]]]]; [few|few|few|few|few|few|]. enough_.
  nthrev 6 x1. nthrev 5 x2. cbn [bind]. delrev 6. delrev 5. fin.
Qed.
Lemma sim_2swap r : ref_kind OPC = K2Swap -> sim1 (exec scriptIn (abs r pb) o K2Swap) (exec_op OPC rest r) pb.
Proof.
  start K r. destruct st as [|x4 [|x3 [|x2 [|x1 st]]]]; [few|few|few|few|]. enough_.
  nthrev 4 x1. nthrev 2 x3. cbn [bind]. setrev 4. setrev 2. nthrev 3 x2. nthrev 1 x4. cbn [bind]. setrev 3. setrev 1. reflexivity.
Qed.
Lemma sim_drop r : ref_kind OPC = KDrop -> sim1 (exec scriptIn (abs r pb) o KDrop) (exec_op OPC rest r) pb.
Proof. start K r. destruct st as [|x1 st]; [few|]. enough_. popn. reflexivity. Qed.
Lemma sim_dup r : ref_kind OPC = KDup -> sim1 (exec scriptIn (abs r pb) o KDup) (exec_op OPC rest r) pb.
Proof. start K r. destruct st as [|x1 st]; [few|]. enough_. nthrev 1 x1. fin. Qed.
Lemma sim_nip r : ref_kind OPC = KNip -> sim1 (exec scriptIn (abs r pb) o KNip) (exec_op OPC rest r) pb.
Proof. start K r. destruct st as [|x2 [|x1 st]]; [few|few|]. enough_. delrev 2. reflexivity. Qed.
Lemma sim_over r : ref_kind OPC = KOver -> sim1 (exec scriptIn (abs r pb) o KOver) (exec_op OPC rest r) pb.
Proof. start K r. destruct st as [|x2 [|x1 st]]; [few|few|]. enough_. nthrev 2 x1. fin. Qed.
Lemma sim_rot r : ref_kind OPC = KRot -> sim1 (exec scriptIn (abs r pb) o KRot) (exec_op OPC rest r) pb.
Proof.
  start K r. destruct st as [|x3 [|x2 [|x1 st]]]; [few|few|few|]. enough_.
  nthrev 3 x1. nthrev 2 x2. cbn [bind]. setrev 3. setrev 2. nthrev 2 x1. nthrev 1 x3. cbn [bind]. setrev 2. setrev 1. reflexivity.
Qed.
Lemma sim_swap r : ref_kind OPC = KSwap -> sim1 (exec scriptIn (abs r pb) o KSwap) (exec_op OPC rest r) pb.
Proof.
  start K r. destruct st as [|x2 [|x1 st]]; [few|few|]. enough_.
  nthrev 2 x1. nthrev 1 x2. cbn [bind]. setrev 2. setrev 1. reflexivity.
Qed.
Lemma sim_tuck r : ref_kind OPC = KTuck -> sim1 (exec scriptIn (abs r pb) o KTuck) (exec_op OPC rest r) pb.
Proof.
  start K r. destruct st as [|x2 [|x1 st]]; [few|few|]. enough_. nthrev 1 x2. cbn [bind].
  rewrite py_insert_rev_tuck. reflexivity.
Qed.
Lemma sim_ifdup r : ref_kind OPC = KIfdup -> sim1 (exec scriptIn (abs r pb) o KIfdup) (exec_op OPC rest r) pb.
Proof.
  start K r. destruct st as [|x1 st]; [few|]. enough_. nthrev 1 x1. cbn [bind]. rewrite cast_to_bool_ref.
  destruct (ref_bool x1); fin.
Qed.
Lemma sim_verify r : ref_kind OPC = KVerify -> sim1 (exec scriptIn (abs r pb) o KVerify) (exec_op OPC rest r) pb.
Proof.
  start K r. destruct st as [|x1 st]; [few|]. enough_. nthrev 1 x1. cbn [bind]. rewrite cast_to_bool_ref.
  destruct (ref_bool x1); [popn; reflexivity|reflexivity].
Qed.
Lemma sim_equal r : ref_kind OPC = KEqual -> sim1 (exec scriptIn (abs r pb) o KEqual) (exec_op OPC rest r) pb.
Proof.
  start K r. destruct st as [|x2 [|x1 st]]; [few|few|]. enough_. pop1. pop1. rewrite push_rev.
  replace (bytes_eqb x2 x1) with (bytes_eqb x1 x2); [reflexivity|].
  destruct (bytes_eqb x1 x2) eqn:E, (bytes_eqb x2 x1) eqn:E'; try reflexivity;
    [apply bytes_eqb_eq in E; subst; now rewrite bytes_eqb_refl in E' | apply bytes_eqb_eq in E'; subst; now rewrite bytes_eqb_refl in E].
Qed.
Lemma sim_equalverify r : ref_kind OPC = KEqualVerify -> sim1 (exec scriptIn (abs r pb) o KEqualVerify) (exec_op OPC rest r) pb.
Proof.
  start K r. destruct st as [|x2 [|x1 st]]; [few|few|]. enough_. nthrev 1 x2. nthrev 2 x1. cbn [bind].
  replace (bytes_eqb x2 x1) with (bytes_eqb x1 x2).
  - destruct (bytes_eqb x1 x2); [popn; reflexivity|reflexivity].
  - destruct (bytes_eqb x1 x2) eqn:E, (bytes_eqb x2 x1) eqn:E'; try reflexivity;
      [apply bytes_eqb_eq in E; subst; now rewrite bytes_eqb_refl in E' | apply bytes_eqb_eq in E'; subst; now rewrite bytes_eqb_refl in E].
Qed.
Lemma sim_hashes r k : (k = KRipemd \/ k = KSha1 \/ k = KSha256 \/ k = KHash160 \/ k = KHash256) ->
  ref_kind OPC = k -> sim1 (exec scriptIn (abs r pb) o k) (exec_op OPC rest r) pb.
Proof.
  intros [->|[->|[->|[->| ->]]]]; start K r; (destruct st as [|x1 st]; [few|]); enough_; pop1; fin.
Qed.
Lemma sim_nop r : ref_kind OPC = KNop -> sim1 (exec scriptIn (abs r pb) o KNop) (exec_op OPC rest r) pb.
Proof. start K r. reflexivity. Qed.
Lemma sim_nopn r : ref_kind OPC = KNopN -> sim1 (exec scriptIn (abs r pb) o KNopN) (exec_op OPC rest r) pb.
Proof. start K r. destruct (f_discourage_nops fl); reflexivity. Qed.
Lemma sim_return r : ref_kind OPC = KReturn -> sim1 (exec scriptIn (abs r pb) o KReturn) (exec_op OPC rest r) pb.
Proof. start K r. reflexivity. Qed.
Lemma sim_bad r : ref_kind OPC = KBad -> sim1 (exec scriptIn (abs r pb) o KBad) (exec_op OPC rest r) pb.
Proof. start K r. reflexivity. Qed.
Lemma sim_toalt r : ref_kind OPC = KToAlt -> sim1 (exec scriptIn (abs r pb) o KToAlt) (exec_op OPC rest r) pb.
Proof. start K r. destruct st as [|x1 st]; [few|]. enough_. pop1. reflexivity. Qed.
Lemma sim_fromalt r : ref_kind OPC = KFromAlt -> sim1 (exec scriptIn (abs r pb) o KFromAlt) (exec_op OPC rest r) pb.
Proof.
  start K r. rewrite len_rev. destruct al as [|x1 al].
  - reflexivity.
  - destruct (Z.ltb_spec (len (x1 :: al)) 1); [exfalso; lens|]. pop1. reflexivity.
Qed.
Lemma sim_else r : ref_kind OPC = KElse -> sim1 (exec scriptIn (abs r pb) o KElse) (exec_op OPC rest r) pb.
Proof.
  start K r. rewrite len_rev. destruct vf as [|b vf]; [reflexivity|].
  destruct (Z.eqb_spec (len (b :: vf)) 0); [exfalso; lens|]. nthrev 1 b. cbn [bind]. setrev 1. reflexivity.
Qed.
Lemma sim_endif r : ref_kind OPC = KEndif -> sim1 (exec scriptIn (abs r pb) o KEndif) (exec_op OPC rest r) pb.
Proof.
  start K r. rewrite len_rev. destruct vf as [|b vf]; [reflexivity|].
  destruct (Z.eqb_spec (len (b :: vf)) 0); [exfalso; lens|]. pop1. reflexivity.
Qed.
Lemma check_exec_rev vf : check_exec (rev vf) = forallb (fun b => b) vf.
Proof.
  unfold check_exec. induction vf as [|b vf IH]; [reflexivity|]. cbn [rev forallb].
  rewrite forallb_app, IH. cbn [forallb]. destruct b, (forallb _ vf); reflexivity.
Qed.
Lemma sim_if r neg : ref_kind OPC = KIf neg -> sim1 (exec scriptIn (abs r pb) o (KIf neg)) (exec_op OPC rest r) pb.
Proof.
  start K r. rewrite check_exec_rev. destruct (forallb (fun b => b) vf).
  - destruct st as [|x1 st]; [rewrite check_args_rev_fail by lens; reflexivity|].
    enough_. pop1. rewrite cast_to_bool_ref. reflexivity.
  - reflexivity.
Qed.

(* ---------- numeric opcodes ---------- *)
Hypothesis OPC_byte : 0 <= OPC < 256.

Lemma sim_small r : ref_kind OPC = KSmall -> sim1 (exec scriptIn (abs r pb) o KSmall) (exec_op OPC rest r) pb.
Proof.
  start K r. change (OP_1 - 1) with 0x50. rewrite bn2vch_small by lia. fin.
Qed.
Lemma sim_depth r : lenZ (r_stack r) < 2^31 ->
  ref_kind OPC = KDepth -> sim1 (exec scriptIn (abs r pb) o KDepth) (exec_op OPC rest r) pb.
Proof.
  intros S. start K r. cbn [r_stack] in S. rewrite len_rev. unfold lenZ in *. fold (len st).
  rewrite bn2vch_small by (unfold len; lia). fin.
Qed.
Lemma sim_size r : Forall small (r_stack r) ->
  ref_kind OPC = KSize -> sim1 (exec scriptIn (abs r pb) o KSize) (exec_op OPC rest r) pb.
Proof.
  intros S. start K r. cbn [r_stack] in S. destruct st as [|x1 st]; [few|]. enough_. nthrev 1 x1. cbn [bind].
  inversion S as [|? ? Sx _]; subst. unfold small in Sx.
  rewrite bn2vch_small by (unfold lenZ in *; lia). fin.
Qed.

Lemma un_ops op : 0 <= op < 256 -> ref_kind op = KUn -> In op [0x8b; 0x8c; 0x8f; 0x90; 0x91; 0x92].
Proof.
  intros H K.
  assert (T : (if kind_eqb (ref_kind op) KUn then mem op [0x8b; 0x8c; 0x8f; 0x90; 0x91; 0x92] else true) = true)
    by (apply (sweep256 (fun n => if kind_eqb (ref_kind n) KUn then mem n [0x8b; 0x8c; 0x8f; 0x90; 0x91; 0x92] else true)); [vm_compute; reflexivity|exact H]).
  rewrite K in T. cbn [kind_eqb] in T. unfold mem in T. apply existsb_exists in T as (x & I & E). apply Z.eqb_eq in E. now subst.
Qed.
Lemma bin_ops op : 0 <= op < 256 -> ref_kind op = KBin ->
  In op [0x93; 0x94; 0x9a; 0x9b; 0x9c; 0x9d; 0x9e; 0x9f; 0xa0; 0xa1; 0xa2; 0xa3; 0xa4].
Proof.
  intros H K.
  assert (T : (if kind_eqb (ref_kind op) KBin then mem op [0x93; 0x94; 0x9a; 0x9b; 0x9c; 0x9d; 0x9e; 0x9f; 0xa0; 0xa1; 0xa2; 0xa3; 0xa4] else true) = true)
    by (apply (sweep256 (fun n => if kind_eqb (ref_kind n) KBin then mem n [0x93; 0x94; 0x9a; 0x9b; 0x9c; 0x9d; 0x9e; 0x9f; 0xa0; 0xa1; 0xa2; 0xa3; 0xa4] else true)); [vm_compute; reflexivity|exact H]).
  rewrite K in T. cbn [kind_eqb] in T. unfold mem in T. apply existsb_exists in T as (x & I & E). apply Z.eqb_eq in E. now subst.
Qed.

Lemma sim_un r : Forall small (r_stack r) ->
  ref_kind OPC = KUn -> sim1 (exec scriptIn (abs r pb) o KUn) (exec_op OPC rest r) pb.
Proof.
  intros S K. pose proof (un_ops OPC OPC_byte K) as I. revert K. start K r. cbn [r_stack] in S. unfold unary_op.
  rewrite len_rev. destruct st as [|x1 st].
  - destruct (Z.ltb_spec (len (@nil bytes)) 1); [reflexivity|exfalso; lens].
  - destruct (Z.ltb_spec (len (x1 :: st)) 1); [exfalso; lens|]. cbn [bind]. nthrev 1 x1. cbn [bind].
    inversion S as [|? ? Sx _]; subst. unfold small in Sx.
    rewrite cast_to_bignum_ref by lia. destruct (ref_num x1) as [n|] eqn:En; [|reflexivity]. cbn [bind].
    pose proof (ref_num_bound x1 n En) as B. pop1.
    cbn [In] in I. destruct I as [E|[E|[E|[E|[E|[E|[]]]]]]]; rewrite <- E; cbn [un_arith];
      evalb.
    + rewrite bn2vch_small by lia. fin.
    + rewrite bn2vch_small by lia. fin.
    + rewrite bn2vch_small by lia. fin.
    + replace (if n <? 0 then - n else n) with (Z.abs n) by (destruct (Z.ltb_spec n 0); lia).
      rewrite bn2vch_small by lia. fin.
    + unfold b2i. destruct (n =? 0); rewrite bn2vch_small by (simpl; lia); fin.
    + unfold b2i. destruct (n =? 0); cbn [negb]; rewrite bn2vch_small by (simpl; lia); fin.
Qed.

Lemma bytes_eqb_sym a b : bytes_eqb a b = bytes_eqb b a.
Proof.
  destruct (bytes_eqb a b) eqn:E, (bytes_eqb b a) eqn:E'; try reflexivity;
    [apply bytes_eqb_eq in E; subst; now rewrite bytes_eqb_refl in E' | apply bytes_eqb_eq in E'; subst; now rewrite bytes_eqb_refl in E].
Qed.

Lemma sim_bin r : Forall small (r_stack r) ->
  ref_kind OPC = KBin -> sim1 (exec scriptIn (abs r pb) o KBin) (exec_op OPC rest r) pb.
Proof.
  intros S K. pose proof (bin_ops OPC OPC_byte K) as I. revert K. start K r. cbn [r_stack] in S. unfold bin_op.
  rewrite len_rev. destruct st as [|x2 [|x1 st]].
  - destruct (Z.ltb_spec (len (@nil bytes)) 2); [reflexivity|exfalso; lens].
  - destruct (Z.ltb_spec (len [x2]) 2); [reflexivity|exfalso; lens].
  - destruct (Z.ltb_spec (len (x2 :: x1 :: st)) 2); [exfalso; lens|]. cbn [bind]. nthrev 1 x2. cbn [bind].
    inversion S as [|? ? S2 S']; subst. inversion S' as [|? ? S1 _]; subst. unfold small in S1, S2.
    rewrite (cast_to_bignum_ref x2) by lia. destruct (ref_num x2) as [b|] eqn:Eb.
    2:{ destruct (ref_num x1); reflexivity. }
    cbn [bind]. nthrev 2 x1. cbn [bind]. rewrite (cast_to_bignum_ref x1) by lia.
    destruct (ref_num x1) as [a|] eqn:Ea; [|reflexivity]. cbn [bind].
    pose proof (ref_num_bound x1 a Ea) as Ba. pose proof (ref_num_bound x2 b Eb) as Bb.
    cbn [In] in I. destruct I as [E|[E|[E|[E|[E|[E|[E|[E|[E|[E|[E|[E|[E|[]]]]]]]]]]]]]]; rewrite <- E; cbn [bin_arith]; evalb.
    + rewrite pop_n_rev by (cbn [length]; lia). cbn [bind skipn]. rewrite bn2vch_small by lia. fin.
    + rewrite pop_n_rev by (cbn [length]; lia). cbn [bind skipn]. rewrite bn2vch_small by lia. fin.
    + rewrite pop_n_rev by (cbn [length]; lia). cbn [bind skipn]. unfold b2i.
      destruct (negb (a =? 0) && negb (b =? 0)); rewrite bn2vch_small by (simpl; lia); fin.
    + rewrite pop_n_rev by (cbn [length]; lia). cbn [bind skipn]. unfold b2i.
      destruct (negb (a =? 0) || negb (b =? 0)); rewrite bn2vch_small by (simpl; lia); fin.
    + rewrite pop_n_rev by (cbn [length]; lia). cbn [bind skipn]. unfold b2i.
      destruct (a =? b); rewrite bn2vch_small by (simpl; lia); fin.
    + (* NUMEQUALVERIFY *) destruct (a =? b); cbn [negb]; [|reflexivity].
      rewrite pop_n_rev by (cbn [length]; lia). cbn [bind skipn]. reflexivity.
    + rewrite pop_n_rev by (cbn [length]; lia). cbn [bind skipn]. unfold b2i.
      destruct (negb (a =? b)); rewrite bn2vch_small by (simpl; lia); fin.
    + rewrite pop_n_rev by (cbn [length]; lia). cbn [bind skipn]. unfold b2i.
      destruct (a <? b); rewrite bn2vch_small by (simpl; lia); fin.
    + rewrite pop_n_rev by (cbn [length]; lia). cbn [bind skipn]. unfold b2i.
      replace (a >? b) with (b <? a) by (rewrite Z.gtb_ltb; reflexivity).
      destruct (b <? a); rewrite bn2vch_small by (simpl; lia); fin.
    + rewrite pop_n_rev by (cbn [length]; lia). cbn [bind skipn]. unfold b2i.
      destruct (a <=? b); rewrite bn2vch_small by (simpl; lia); fin.
    + rewrite pop_n_rev by (cbn [length]; lia). cbn [bind skipn]. unfold b2i.
      replace (a >=? b) with (b <=? a) by (rewrite Z.geb_leb; reflexivity).
      destruct (b <=? a); rewrite bn2vch_small by (simpl; lia); fin.
    + rewrite pop_n_rev by (cbn [length]; lia). cbn [bind skipn].
      replace (if a <? b then a else b) with (Z.min a b) by (destruct (Z.ltb_spec a b); lia).
      rewrite bn2vch_small by lia. fin.
    + rewrite pop_n_rev by (cbn [length]; lia). cbn [bind skipn].
      replace (if a >? b then a else b) with (Z.max a b) by (rewrite Z.gtb_ltb; destruct (Z.ltb_spec b a); lia).
      rewrite bn2vch_small by lia. fin.
Qed.

Lemma sim_within r : Forall small (r_stack r) ->
  ref_kind OPC = KWithin -> sim1 (exec scriptIn (abs r pb) o KWithin) (exec_op OPC rest r) pb.
Proof.
  intros S. start K r. cbn [r_stack] in S. destruct st as [|x3 [|x2 [|x1 st]]]; [few|few|few|]. enough_.
  inversion S as [|? ? S3 S']; subst. inversion S' as [|? ? S2 S'']; subst. inversion S'' as [|? ? S1 _]; subst.
  unfold small in S1, S2, S3.
  nthrev 1 x3. cbn [bind]. rewrite (cast_to_bignum_ref x3) by lia.
  destruct (ref_num x3) as [hi|]; cbn [bind].
  2:{ destruct (ref_num x1), (ref_num x2); reflexivity. }
  nthrev 2 x2. cbn [bind]. rewrite (cast_to_bignum_ref x2) by lia.
  destruct (ref_num x2) as [lo|]; cbn [bind].
  2:{ destruct (ref_num x1); reflexivity. }
  nthrev 3 x1. cbn [bind]. rewrite (cast_to_bignum_ref x1) by lia.
  destruct (ref_num x1) as [a|]; cbn [bind]; [|reflexivity].
  popn. rewrite push_rev. reflexivity.
Qed.

Lemma sim_pickroll r roll : Forall small (r_stack r) ->
  ref_kind OPC = KPickRoll roll -> sim1 (exec scriptIn (abs r pb) o (KPickRoll roll)) (exec_op OPC rest r) pb.
Proof.
  intros HS. start K r. cbn [r_stack] in HS. destruct st as [|nv [|x1 st]]; [few|few|]. enough_. pop1.
  inversion HS as [|? ? Sn _]; subst. unfold small in Sn.
  rewrite cast_to_bignum_ref by lia. destruct (ref_num nv) as [n|]; cbn [bind]; [|reflexivity].
  rewrite len_rev. unfold lenZ. fold (len (x1 :: st)).
  destruct ((n <? 0) || (n >=? len (x1 :: st))) eqn:C; [reflexivity|].
  apply orb_false_iff in C as [C1 C2]. apply Z.ltb_ge in C1. rewrite Z.geb_leb in C2. apply Z.leb_gt in C2.
  destruct (nth_error (x1 :: st) (Z.to_nat n)) as [v|] eqn:En.
  2:{ apply nth_error_None in En. unfold len in C2. lia. }
  replace (- n - 1) with (- (n + 1)) by lia.
  rewrite (py_nth_rev _ (n + 1) v) by (try lia; replace (n + 1 - 1) with n by lia; exact En). cbn [bind].
  destruct roll.
  - rewrite (py_del_rev _ (n + 1)) by lia. cbn [bind]. rewrite push_rev.
    replace (n + 1 - 1) with n by lia. replace (Z.to_nat (n + 1)) with (S (Z.to_nat n)) by lia. reflexivity.
  - cbn [bind]. rewrite push_rev. reflexivity.
Qed.

(* all the classes that do not involve signatures or the code position *)
Definition plain (k : kind) : bool :=
  match k with KChecksig _ | KMultisig _ | KCodesep => false | _ => true end.
Lemma exec_sim_plain r k : small_state r -> plain k = true -> ref_kind OPC = k ->
  sim1 (exec scriptIn (abs r pb) o k) (exec_op OPC rest r) pb.
Proof.
  intros (S1 & S2 & S3) P K. destruct k; try discriminate P.
  - now apply sim_small. - now apply sim_bin. - now apply sim_un. - now apply sim_2drop. - now apply sim_2dup.
  - now apply sim_2over. - now apply sim_2rot. - now apply sim_2swap. - now apply sim_3dup.
  - now apply sim_depth. - now apply sim_drop. - now apply sim_dup. - now apply sim_else. - now apply sim_endif.
  - now apply sim_equal. - now apply sim_equalverify. - now apply sim_fromalt.
  - apply sim_hashes; auto. - apply sim_hashes; auto.
  - now apply sim_if. - now apply sim_ifdup. - now apply sim_nip. - now apply sim_nop. - now apply sim_nopn.
  - now apply sim_over. - now apply sim_pickroll. - now apply sim_return. - apply sim_hashes; auto.
  - now apply sim_rot. - now apply sim_size. - apply sim_hashes; auto. - apply sim_hashes; auto.
  - now apply sim_swap. - now apply sim_toalt. - now apply sim_tuck. - now apply sim_verify. - now apply sim_within.
  - now apply sim_bad.
Qed.
(* CODESEPARATOR only moves the code position *)
Lemma sim_codesep r : ref_kind OPC = KCodesep ->
  exec scriptIn (abs r pb) o KCodesep = Ok (abs r (sop_idx o)) /\
  exec_op OPC rest r = Some {| r_stack := r_stack r; r_alt := r_alt r; r_vf := r_vf r; r_sub := rest; r_nop := r_nop r |}.
Proof. intros K. unfold exec_op. rewrite K. split; reflexivity. Qed.

(* ---------- sizes stay small (so bn2vch / CScript([x]) never hit struct.pack's range) ---------- *)
Hypothesis hash_small : forall x, small (ripemd160 x) /\ small (sha1 x) /\ small (sha256 x).

Lemma small_enc v : Z.abs v < 2^62 -> small (ref_enc v).
Proof. intros H. unfold small. pose proof (num_enc_len v H). unfold ref_enc. lia. Qed.
Lemma small_of_bool b : small (of_bool b).
Proof. destruct b; unfold small; cbn; lia. Qed.
Lemma Forall_firstn {A} (P : A -> Prop) n l : Forall P l -> Forall P (firstn n l).
Proof. revert l; induction n; intros [|x l] H; cbn; auto. inversion H; subst. constructor; auto. Qed.
Lemma Forall_skipn {A} (P : A -> Prop) n l : Forall P l -> Forall P (skipn n l).
Proof. revert l; induction n; intros [|x l] H; cbn; auto. inversion H; subst. auto. Qed.
Lemma Forall_nth {A} (P : A -> Prop) n l x : Forall P l -> nth_error l n = Some x -> P x.
Proof. intros H E. rewrite Forall_forall in H. apply H. eapply nth_error_In; exact E. Qed.

Lemma un_arith_bound op x v : un_arith op x = Some v -> Z.abs x < 2^31 -> Z.abs v < 2^62.
Proof.
  unfold un_arith. intros E B.
  repeat match type of E with context [match ?c with _ => _ end] => destruct c; try discriminate E end;
    injection E as <-; try lia; destruct (x =? 0); simpl; lia.
Qed.
Lemma bin_arith_bound op x y v : bin_arith op x y = Some v -> Z.abs x < 2^31 -> Z.abs y < 2^31 -> Z.abs v < 2^62.
Proof.
  unfold bin_arith. intros E Bx By.
  repeat match type of E with context [match ?c with _ => _ end] => destruct c; try discriminate E end;
    injection E as <-; try lia;
    repeat match goal with |- context [if ?c then _ else _] => destruct c end; simpl; lia.
Qed.

Definition small2 (r : rstate) : Prop := Forall small (r_stack r) /\ Forall small (r_alt r).
Ltac inv_forall := repeat match goal with H : Forall _ (_ :: _) |- _ => inversion H; subst; clear H end.
Lemma exec_op_small op rest' r r' : 0 <= op < 256 -> small2 r -> lenZ (r_stack r) < 2^31 ->
  exec_op op rest' r = Some r' -> small2 r'.
Proof.
  intros Hop [S1 S2] S3 E. unfold exec_op in E. destruct r as [st al vf sub nop]. cbn [r_stack r_alt r_vf r_sub r_nop] in *.
  unfold small2.
  destruct (ref_kind op) eqn:K; cbn [with_stack r_stack r_alt r_vf r_sub r_nop] in E;
  try discriminate E;
  try (repeat match type of E with
       | context [match ?c with _ => _ end] => destruct c eqn:?; try discriminate E
       end; injection E as <-; cbn [r_stack r_alt]; inv_forall; split;
       repeat first [assumption | apply Forall_cons | apply Forall_nil | apply small_of_bool | apply (proj1 (hash_small _))
                    | apply (proj1 (proj2 (hash_small _))) | apply (proj2 (proj2 (hash_small _))) ]; fail).
  - (* KSmall *) injection E as <-. cbn [r_stack r_alt]. split; [|assumption]. constructor; [|assumption]. apply small_enc. lia.
  - (* KBin *) destruct st as [|b [|a st]]; try discriminate E. inv_forall.
    destruct (ref_num a) as [x|] eqn:Ea; [|discriminate E]. destruct (ref_num b) as [y|] eqn:Eb; [|discriminate E].
    destruct (bin_arith op x y) as [v|] eqn:Ev; [|discriminate E].
    pose proof (bin_arith_bound _ _ _ _ Ev (ref_num_bound _ _ Ea) (ref_num_bound _ _ Eb)) as B.
    destruct (op =? 157); [destruct (v =? 0); [discriminate E|]|]; injection E as <-; cbn [r_stack r_alt]; split; try assumption.
    constructor; [apply small_enc; exact B|assumption].
  - (* KUn *) destruct st as [|a st]; try discriminate E. inv_forall.
    destruct (ref_num a) as [x|] eqn:Ea; [|discriminate E]. destruct (un_arith op x) as [v|] eqn:Ev; [|discriminate E].
    injection E as <-. cbn [r_stack r_alt]. split; [|assumption].
    constructor; [apply small_enc; exact (un_arith_bound _ _ _ Ev (ref_num_bound _ _ Ea))|assumption].
  - (* KMultisig *)
    destruct st as [|nv r1]; [discriminate E|]. destruct (ref_num nv) as [n|]; [|discriminate E].
    destruct ((n <? 0) || (n >? 20)); [discriminate E|]. destruct (nop + n >? 201); [discriminate E|].
    destruct (lenZ r1 <? n + 1); [discriminate E|].
    destruct (skipn (Z.to_nat n) r1) as [|mv r2] eqn:E2; [discriminate E|].
    destruct (ref_num mv) as [m|]; [|discriminate E]. destruct ((m <? 0) || (m >? n)); [discriminate E|].
    destruct (lenZ r2 <? m + 1); [discriminate E|].
    destruct (skipn (Z.to_nat m) r2) as [|dummy r3] eqn:E3; [discriminate E|].
    assert (F3 : Forall small r3).
    { inv_forall. assert (F2 : Forall small (mv :: r2)) by (rewrite <- E2; now apply Forall_skipn). inv_forall.
      assert (F : Forall small (dummy :: r3)) by (rewrite <- E3; now apply Forall_skipn). now inv_forall. }
    destruct (f_nulldummy fl && negb (is_nil dummy)); [discriminate E|].
    destruct verify; [destruct (ms_walk _ _ _); [|discriminate E]|]; injection E as <-; cbn [r_stack r_alt with_stack]; split; try assumption.
    constructor; [apply small_of_bool|assumption].
  - (* KDepth *) injection E as <-. cbn [r_stack r_alt]. split; [|assumption]. constructor; [|assumption].
    apply small_enc. unfold lenZ in *. lia.
  - (* KPickRoll *) destruct st as [|nv [|x1 st]]; try discriminate E. inv_forall.
    destruct (ref_num nv) as [n|]; [|discriminate E]. destruct ((n <? 0) || (n >=? lenZ (x1 :: st))); [discriminate E|].
    destruct (nth_error (x1 :: st) (Z.to_nat n)) as [v|] eqn:En; [|discriminate E].
    assert (F : Forall small (x1 :: st)) by (constructor; assumption).
    pose proof (Forall_nth _ _ _ _ F En) as Sv.
    destruct roll; injection E as <-; cbn [r_stack r_alt]; (split; [|assumption]); constructor; try assumption.
    apply Forall_app. split; [now apply Forall_firstn|]. now apply (Forall_skipn small (S (Z.to_nat n)) (x1 :: st)).
  - (* KSize *) destruct st as [|v st]; [discriminate E|]. injection E as <-. cbn [r_stack r_alt]. inv_forall.
    split; [|assumption]. repeat constructor; try assumption. apply small_enc.
    match goal with H : small v |- _ => unfold small in H end. unfold lenZ in *. lia.
Qed.
End Sim.

Lemma exec_op_nop checksig ripemd160 sha1 sha256 fl op rest r r' :
  match ref_kind op with KMultisig _ => False | _ => True end ->
  exec_op checksig ripemd160 sha1 sha256 fl op rest r = Some r' -> r_nop r' = r_nop r.
Proof.
  intros P E. unfold exec_op in E. destruct r as [st al vf sub nop]. cbn [r_stack r_alt r_vf r_sub r_nop] in *.
  destruct (ref_kind op); try contradiction; cbn [with_stack r_stack r_alt r_vf r_sub r_nop] in E; try discriminate E;
  repeat match type of E with
         | context [match ?c with _ => _ end] => destruct c eqn:?; try discriminate E
         end; injection E as <-; reflexivity.
Qed.

Lemma exec_op_sub checksig ripemd160 sha1 sha256 fl op rest r r' :
  match ref_kind op with KCodesep => False | _ => True end ->
  exec_op checksig ripemd160 sha1 sha256 fl op rest r = Some r' -> r_sub r' = r_sub r.
Proof.
  intros P E. unfold exec_op in E. destruct r as [st al vf sub nop]. cbn [r_stack r_alt r_vf r_sub r_nop] in *.
  destruct (ref_kind op); try contradiction; cbn [with_stack r_stack r_alt r_vf r_sub r_nop] in E; try discriminate E;
  repeat match type of E with
         | context [match ?c with _ => _ end] => destruct c eqn:?; try discriminate E
         end; injection E as <-; reflexivity.
Qed.
Lemma exec_op_nop_le checksig ripemd160 sha1 sha256 fl op rest r r' : r_nop r <= 201 ->
  exec_op checksig ripemd160 sha1 sha256 fl op rest r = Some r' -> r_nop r' <= 201.
Proof.
  intros H E. destruct (ref_kind op) eqn:K;
    try (rewrite (exec_op_nop _ _ _ _ _ op rest r r') by (try rewrite K; try exact I; exact E); exact H).
  unfold exec_op in E. rewrite K in E. destruct r as [st al vf sub nop]. cbn [r_stack r_alt r_vf r_sub r_nop] in *.
  repeat match type of E with
         | context [match ?c with _ => _ end] => destruct c eqn:?; try discriminate E
         end; injection E as <-; cbn [r_nop with_stack];
  match goal with H : (_ >? 201) = false |- _ => rewrite Z.gtb_ltb in H; apply Z.ltb_ge in H; exact H end.
Qed.

(* ================= one loop iteration, then the loop ================= *)
Section Loop.
Variable checksig : bytes -> bytes -> bytes -> bool.
Variable ripemd160 sha1 sha256 : bytes -> bytes.
Variable fl : flags.
Hypothesis hash_small : forall x, small (ripemd160 x) /\ small (sha1 x) /\ small (sha256 x).
Notation step := (step checksig ripemd160 sha1 sha256 fl).
Notation ref_step := (ref_step checksig ripemd160 sha1 sha256 fl).
Notation exec_op := (exec_op checksig ripemd160 sha1 sha256 fl).
Notation run_ops := (run_ops checksig ripemd160 sha1 sha256 fl).
Notation eval_loop := (eval_loop checksig ripemd160 sha1 sha256 fl).

Definition inv (r : rstate) : Prop := small2 r /\ lenZ (r_stack r) < 2^31 /\ r_nop r <= 201.
Definition nosig (op : Z) : bool := match ref_kind op with KChecksig _ | KMultisig _ => false | _ => true end.

Lemma disabled_push op : 0 <= op <= 0x4e -> disabled op = false.
Proof.
  intros H. assert (T : (if op <=? 0x4e then negb (disabled op) else true) = true)
    by (apply (sweep256 (fun n => if n <=? 0x4e then negb (disabled n) else true)); [vm_compute; reflexivity|lia]).
  destruct (Z.leb_spec op 0x4e); [|lia]. now apply negb_true_iff in T.
Qed.
Lemma lenZ_rev {A} (l : list A) : len (rev l) = lenZ l.
Proof. unfold len, lenZ. now rewrite rev_length. Qed.

Lemma step_sim scriptIn r pb op d idx rest code :
  Spec.Script.get_op code = Ok (op, d, rest) -> inv r -> nosig op = true ->
  match ref_step op d rest r with
  | Some r' => (exists pb', step scriptIn (abs r pb) (mk_sop op d idx) = Ok (abs r' pb')) /\ inv r'
  | None => step scriptIn (abs r pb) (mk_sop op d idx) = Err EvalErr
  end.
Proof.
  intros G (S2 & S3 & Sn) NS. apply get_op_ok in G as [_ W]. unfold op_wf in W.
  destruct r as [st al vf sub nop]. destruct S2 as [Sa Sb]. cbn [r_stack r_alt r_nop] in *.
  unfold step, ref_step, abs. cbn [sop_opcode sop_data sop_idx stack altstack vfExec pbegincodehash nOpCount r_stack r_alt r_vf r_sub r_nop].
  change OP_16 with 0x60. change OP_PUSHDATA4 with 0x4e. change MAX_SCRIPT_ELEMENT_SIZE with 520.
  change MAX_STACK_ITEMS with 1000. change MAX_SCRIPT_OPCODES with 201. change OP_IF with 0x63. change OP_ENDIF with 0x68.
  assert (Hop : 0 <= op < 256) by (destruct d; lia).
  rewrite disabled_ok by exact Hop. rewrite check_exec_rev.
  destruct d as [data|].
  - (* a push operation *)
    destruct W as (Hop' & _). rewrite disabled_push by lia. cbn [bind].
    destruct (Z.gtb_spec op 0x60); [lia|]. cbn [bind].
    destruct (Z.gtb_spec nop 201); [lia|].
    destruct (Z.leb_spec op 0x4e); [|lia].
    destruct (Z.gtb_spec (lenZ data) 520) as [Hd|Hd]; [reflexivity|].
    destruct (forallb (fun b => b) vf); cbn [bind set_stack with_stack stack altstack vfExec pbegincodehash nOpCount r_stack r_alt r_vf r_sub r_nop].
    + rewrite push_rev, !lenZ_rev.
      destruct (Z.gtb_spec (lenZ (data :: st) + lenZ al) 1000); [reflexivity|].
      split; [exists pb; reflexivity|]. repeat split; cbn [with_stack r_stack r_alt r_nop]; try assumption.
      * constructor; [unfold small; lia|assumption].
      * pose proof (Zle_0_nat (length al)). unfold lenZ in *. lia.
    + rewrite !lenZ_rev. destruct (Z.gtb_spec (lenZ st + lenZ al) 1000); [reflexivity|].
      split; [exists pb; reflexivity|]. repeat split; cbn [r_stack r_alt r_nop]; assumption.
  - (* a non-push opcode *)
    change (lenZ (@nil byte)) with 0. destruct (Z.gtb_spec 0 520); [lia|].
    destruct (Z.leb_spec op 0x4e); [lia|].
    destruct (disabled op) eqn:DIS.
    { cbn [bind]. destruct (_ >? 201); reflexivity. }
    cbn [bind].
    (* the operation counter: nop' is the counter after this opcode *)
    set (nop' := if op >? 96 then nop + 1 else nop).
    assert (CNT : (if op >? 96 then
                     if nop + 1 >? 201 then @fail state
                     else Ok {| stack := rev st; altstack := rev al; vfExec := rev vf; pbegincodehash := pb; nOpCount := nop + 1 |}
                   else Ok {| stack := rev st; altstack := rev al; vfExec := rev vf; pbegincodehash := pb; nOpCount := nop |})
                  = if nop' >? 201 then Err EvalErr
                    else Ok (abs {| r_stack := st; r_alt := al; r_vf := vf; r_sub := sub; r_nop := nop' |} pb)).
    { subst nop'. destruct (op >? 96); [destruct (nop + 1 >? 201); reflexivity|].
      destruct (Z.gtb_spec nop 201); [lia|reflexivity]. }
    rewrite CNT. clear CNT. destruct (Z.gtb_spec nop' 201) as [Hn|Hn]; [reflexivity|]. cbn [bind].
    set (r1 := {| r_stack := st; r_alt := al; r_vf := vf; r_sub := sub; r_nop := nop' |}).
    assert (I1 : small2 r1 /\ lenZ (r_stack r1) < 2^31) by (repeat split; assumption).
    assert (LIM : forall r2 pb', (do s' <- Ok (abs r2 pb'); if len (stack s') + len (altstack s') >? 1000 then @fail state else Ok s')
                   = if lenZ (r_stack r2) + lenZ (r_alt r2) >? 1000 then Err EvalErr else Ok (abs r2 pb')).
    { intros r2 pb'. cbn [bind]. unfold abs. cbn [stack altstack]. now rewrite !lenZ_rev. }
    assert (INV : forall r2, small2 r2 -> r_nop r2 <= 201 -> lenZ (r_stack r2) + lenZ (r_alt r2) <= 1000 -> inv r2).
    { intros r2 A B C. split; [exact A|]. split; [|exact B]. pose proof (Zle_0_nat (length (r_alt r2))). unfold lenZ in *. lia. }
    destruct (forallb (fun b => b) vf || ((99 <=? op) && (op <=? 104))) eqn:EX.
    + rewrite kind_ok by exact Hop. unfold nosig in NS.
      destruct (ref_kind op) eqn:K; try discriminate NS.
      all: try (match goal with K : ref_kind _ = ?k |- _ =>
                pose proof (exec_sim_plain checksig ripemd160 sha1 sha256 fl scriptIn pb (mk_sop op None idx) rest Hop r1 k
                   (conj (proj1 (proj1 I1)) (conj (proj2 (proj1 I1)) (proj2 I1))) eq_refl K) as SIM end;
                unfold sim1 in SIM; cbn [sop_opcode] in SIM;
                destruct (exec_op op rest r1) as [r2|] eqn:EO;
                [rewrite SIM, LIM;
                 destruct (Z.gtb_spec (lenZ (r_stack r2) + lenZ (r_alt r2)) 1000); [reflexivity|];
                 split; [exists pb; reflexivity|];
                 apply INV; [exact (exec_op_small checksig ripemd160 sha1 sha256 fl rest hash_small op rest r1 r2 Hop (proj1 I1) (proj2 I1) EO)|rewrite (exec_op_nop _ _ _ _ _ op rest r1 r2) by (try rewrite K; try exact I; exact EO); exact Hn|lia]
                |rewrite SIM; reflexivity]).
      (* CODESEPARATOR *)
      destruct (sim_codesep checksig ripemd160 sha1 sha256 fl scriptIn pb (mk_sop op None idx) rest r1 K) as [E1 E2].
      cbn [sop_opcode sop_idx] in E1, E2. rewrite E1, E2, LIM. cbn [r_stack r_alt r1].
      destruct (Z.gtb_spec (lenZ st + lenZ al) 1000); [reflexivity|].
      split; [exists idx; reflexivity|]. apply INV; [split; assumption|exact Hn|cbn [r_stack r_alt]; lia].
    + rewrite LIM. cbn [r_stack r_alt r1].
      destruct (Z.gtb_spec (lenZ st + lenZ al) 1000); [reflexivity|].
      split; [exists pb; reflexivity|]. apply INV; [split; assumption|exact Hn|subst r1; cbn [r_stack r_alt]; lia].
Qed.

Definition is_sig (k : kind) : bool := match k with KChecksig _ | KMultisig _ => true | _ => false end.
Lemma plain_or_sig k : plain k = true \/ is_sig k = true \/ k = KCodesep.
Proof. destruct k; cbn; auto. Qed.

(* one iteration, every opcode; the two signature classes are supplied by the caller
   (they need the code position, Proofs/ScriptSig.v) *)
Lemma step_sim_gen (Q : Prop) scriptIn r pb op d idx rest code :
  Spec.Script.get_op code = Ok (op, d, rest) -> inv r ->
  (forall r1 k, is_sig k = true -> ref_kind op = k ->
     r_stack r1 = r_stack r -> r_alt r1 = r_alt r -> r_vf r1 = r_vf r -> r_sub r1 = r_sub r ->
     sim1 (exec checksig ripemd160 sha1 sha256 fl scriptIn (abs r1 pb) (mk_sop op d idx) k) (exec_op op rest r1) pb \/
     (Q /\ exists e, exec checksig ripemd160 sha1 sha256 fl scriptIn (abs r1 pb) (mk_sop op d idx) k = Err e /\ is_script_err e = true)) ->
  (Q /\ exists e, step scriptIn (abs r pb) (mk_sop op d idx) = Err e /\ is_script_err e = true) \/
  match ref_step op d rest r with
  | Some r' => inv r' /\
      ((step scriptIn (abs r pb) (mk_sop op d idx) = Ok (abs r' pb) /\ r_sub r' = r_sub r) \/
       (step scriptIn (abs r pb) (mk_sop op d idx) = Ok (abs r' idx) /\ r_sub r' = rest /\ ref_kind op = KCodesep))
  | None => step scriptIn (abs r pb) (mk_sop op d idx) = Err EvalErr
  end.
Proof.
  intros G (S2 & S3 & Sn) HSIG. apply get_op_ok in G as [_ W]. unfold op_wf in W.
  destruct r as [st al vf sub nop]. destruct S2 as [Sa Sb]. cbn [r_stack r_alt r_vf r_sub r_nop] in *.
  unfold step, ref_step, abs. cbn [sop_opcode sop_data sop_idx stack altstack vfExec pbegincodehash nOpCount r_stack r_alt r_vf r_sub r_nop].
  change OP_16 with 0x60. change OP_PUSHDATA4 with 0x4e. change MAX_SCRIPT_ELEMENT_SIZE with 520.
  change MAX_STACK_ITEMS with 1000. change MAX_SCRIPT_OPCODES with 201. change OP_IF with 0x63. change OP_ENDIF with 0x68.
  assert (Hop : 0 <= op < 256) by (destruct d; lia).
  rewrite disabled_ok by exact Hop. rewrite check_exec_rev.
  destruct d as [data|].
  - (* a push operation *)
    destruct W as (Hop' & _). rewrite disabled_push by lia. cbn [bind].
    destruct (Z.gtb_spec op 0x60); [lia|]. cbn [bind].
    destruct (Z.gtb_spec nop 201); [lia|].
    destruct (Z.leb_spec op 0x4e); [|lia].
    destruct (Z.gtb_spec (lenZ data) 520) as [Hd|Hd]; [right; reflexivity|].
    destruct (forallb (fun b => b) vf); cbn [bind set_stack with_stack stack altstack vfExec pbegincodehash nOpCount r_stack r_alt r_vf r_sub r_nop].
    + rewrite push_rev, !lenZ_rev.
      destruct (Z.gtb_spec (lenZ (data :: st) + lenZ al) 1000); [right; reflexivity|]. right.
      split; [|left; split; reflexivity]. repeat split; cbn [with_stack r_stack r_alt r_nop]; try assumption.
      * constructor; [unfold small; lia|assumption].
      * pose proof (Zle_0_nat (length al)). unfold lenZ in *. lia.
    + rewrite !lenZ_rev. destruct (Z.gtb_spec (lenZ st + lenZ al) 1000); [right; reflexivity|]. right.
      split; [|left; split; reflexivity]. repeat split; cbn [r_stack r_alt r_nop]; assumption.
  - (* a non-push opcode *)
    change (lenZ (@nil byte)) with 0. destruct (Z.gtb_spec 0 520); [lia|].
    destruct (Z.leb_spec op 0x4e); [lia|].
    destruct (disabled op) eqn:DIS.
    { right. cbn [bind]. destruct (_ >? 201); reflexivity. }
    cbn [bind].
    set (nop' := if op >? 96 then nop + 1 else nop).
    assert (CNT : (if op >? 96 then
                     if nop + 1 >? 201 then @fail state
                     else Ok {| stack := rev st; altstack := rev al; vfExec := rev vf; pbegincodehash := pb; nOpCount := nop + 1 |}
                   else Ok {| stack := rev st; altstack := rev al; vfExec := rev vf; pbegincodehash := pb; nOpCount := nop |})
                  = if nop' >? 201 then Err EvalErr
                    else Ok (abs {| r_stack := st; r_alt := al; r_vf := vf; r_sub := sub; r_nop := nop' |} pb)).
    { subst nop'. destruct (op >? 96); [destruct (nop + 1 >? 201); reflexivity|].
      destruct (Z.gtb_spec nop 201); [lia|reflexivity]. }
    rewrite CNT. clear CNT. destruct (Z.gtb_spec nop' 201) as [Hn|Hn]; [right; reflexivity|]. cbn [bind].
    set (r1 := {| r_stack := st; r_alt := al; r_vf := vf; r_sub := sub; r_nop := nop' |}).
    assert (I1 : small2 r1 /\ lenZ (r_stack r1) < 2^31) by (repeat split; assumption).
    assert (LIM : forall r2 pb', (do s' <- Ok (abs r2 pb'); if len (stack s') + len (altstack s') >? 1000 then @fail state else Ok s')
                   = if lenZ (r_stack r2) + lenZ (r_alt r2) >? 1000 then Err EvalErr else Ok (abs r2 pb')).
    { intros r2 pb'. cbn [bind]. unfold abs. cbn [stack altstack]. now rewrite !lenZ_rev. }
    assert (INV : forall r2, small2 r2 -> r_nop r2 <= 201 -> lenZ (r_stack r2) + lenZ (r_alt r2) <= 1000 -> inv r2).
    { intros r2 A B C. split; [exact A|]. split; [|exact B]. pose proof (Zle_0_nat (length (r_alt r2))). unfold lenZ in *. lia. }
    destruct (forallb (fun b => b) vf || ((99 <=? op) && (op <=? 104))) eqn:EX.
    + rewrite kind_ok by exact Hop.
      (* every class except CODESEPARATOR goes through a sim1 fact *)
      assert (GEN : ref_kind op <> KCodesep ->
                (sim1 (exec checksig ripemd160 sha1 sha256 fl scriptIn (abs r1 pb) (mk_sop op None idx) (ref_kind op)) (exec_op op rest r1) pb \/
                 (Q /\ exists e, exec checksig ripemd160 sha1 sha256 fl scriptIn (abs r1 pb) (mk_sop op None idx) (ref_kind op) = Err e /\ is_script_err e = true)) ->
                (Q /\ exists e, (do s' <- exec checksig ripemd160 sha1 sha256 fl scriptIn (abs r1 pb) (mk_sop op None idx) (ref_kind op);
                       if len (stack s') + len (altstack s') >? 1000 then fail else Ok s') = Err e /\ is_script_err e = true) \/
                match
                  match exec_op op rest r1 with
                  | Some s' => if lenZ (r_stack s') + lenZ (r_alt s') >? 1000 then None else Some s'
                  | None => None
                  end
                with
                | Some r' => inv r' /\
                    (((do s' <- exec checksig ripemd160 sha1 sha256 fl scriptIn (abs r1 pb) (mk_sop op None idx) (ref_kind op);
                       if len (stack s') + len (altstack s') >? 1000 then fail else Ok s') = Ok (abs r' pb) /\ r_sub r' = sub) \/
                     ((do s' <- exec checksig ripemd160 sha1 sha256 fl scriptIn (abs r1 pb) (mk_sop op None idx) (ref_kind op);
                       if len (stack s') + len (altstack s') >? 1000 then fail else Ok s') = Ok (abs r' idx) /\ r_sub r' = rest /\ ref_kind op = KCodesep))
                | None => (do s' <- exec checksig ripemd160 sha1 sha256 fl scriptIn (abs r1 pb) (mk_sop op None idx) (ref_kind op);
                           if len (stack s') + len (altstack s') >? 1000 then fail else Ok s') = Err EvalErr
                end).
      { intros NC [SIM|(HQ & e & EE & SE)]; [right|left; split; [exact HQ|exists e; rewrite EE; split; [reflexivity|exact SE]]].
        unfold sim1 in SIM. destruct (exec_op op rest r1) as [r2|] eqn:EO.
        - rewrite SIM, LIM. destruct (Z.gtb_spec (lenZ (r_stack r2) + lenZ (r_alt r2)) 1000); [reflexivity|].
          split.
          + apply INV; [exact (exec_op_small checksig ripemd160 sha1 sha256 fl rest hash_small op rest r1 r2 Hop (proj1 I1) (proj2 I1) EO)| |lia].
            apply (exec_op_nop_le checksig ripemd160 sha1 sha256 fl op rest r1 r2 Hn EO).
          + left. split; [reflexivity|].
            rewrite (exec_op_sub checksig ripemd160 sha1 sha256 fl op rest r1 r2); [reflexivity| |exact EO].
            destruct (ref_kind op); try exact I. congruence.
        - rewrite SIM. reflexivity. }
      destruct (plain_or_sig (ref_kind op)) as [P|[P|P]].
      * apply GEN; [intros C; rewrite C in P; discriminate P|]. left.
        exact (exec_sim_plain checksig ripemd160 sha1 sha256 fl scriptIn pb (mk_sop op None idx) rest Hop r1 (ref_kind op)
                 (conj (proj1 (proj1 I1)) (conj (proj2 (proj1 I1)) (proj2 I1))) P eq_refl).
      * apply GEN; [intros C; rewrite C in P; discriminate P|]. apply HSIG; try reflexivity. exact P.
      * (* CODESEPARATOR *)
        right. rewrite P.
        destruct (sim_codesep checksig ripemd160 sha1 sha256 fl scriptIn pb (mk_sop op None idx) rest r1 P) as [E1 E2].
        cbn [sop_opcode sop_idx] in E1, E2. rewrite E1, E2, LIM. cbn [r_stack r_alt r1].
        destruct (Z.gtb_spec (lenZ st + lenZ al) 1000); [reflexivity|].
        split; [apply INV; [split; assumption|exact Hn|cbn [r_stack r_alt]; lia]|].
        right. repeat split; reflexivity.
    + right. rewrite LIM. cbn [r_stack r_alt r1].
      destruct (Z.gtb_spec (lenZ st + lenZ al) 1000); [reflexivity|].
      split; [apply INV; [split; assumption|exact Hn|subst r1; cbn [r_stack r_alt]; lia]|left; split; reflexivity].
Qed.

Lemma get_op_shorter code op d rest : Spec.Script.get_op code = Ok (op, d, rest) -> (length rest < length code)%nat.
Proof.
  intros G. apply get_op_ok in G as [E W]. rewrite E, app_length. unfold op_bytes.
  destruct d as [x|]; [|simpl; lia].
  destruct (op <? 76); [simpl; lia|]. destruct (op =? 76); [simpl; lia|]. destruct (op =? 77); simpl; lia.
Qed.

Lemma loop_sim scriptIn : forall fuel code off r pb,
  (length code <= fuel)%nat -> inv r ->
  forallb (fun o => nosig (sop_opcode o)) (fst (ref_ops fuel code off)) = true ->
  match eval_loop fuel code r with
  | Some r' => snd (ref_ops fuel code off) = None /\
               exists pb', run_ops scriptIn (abs r pb) (fst (ref_ops fuel code off)) = Ok (abs r' pb')
  | None => run_ops scriptIn (abs r pb) (fst (ref_ops fuel code off)) = Err EvalErr \/
            exists s' e, run_ops scriptIn (abs r pb) (fst (ref_ops fuel code off)) = Ok s' /\
                         snd (ref_ops fuel code off) = Some e /\ is_script_err e = true
  end.
Proof.
  induction fuel as [|f IH]; intros code off r pb L I NS.
  - destruct code; [|simpl in L; lia]. cbn. split; [reflexivity|exists pb; reflexivity].
  - destruct code as [|c code']; [cbn; split; [reflexivity|exists pb; reflexivity]|].
    cbn [ScriptRef.eval_loop ref_ops] in *.
    destruct (Spec.Script.get_op (c :: code')) as [[[op d] rest]|e] eqn:G.
    + cbn [fst snd cons_op] in NS |- *. cbn [forallb sop_opcode] in NS. apply andb_true_iff in NS as [NS1 NS2].
      pose proof (step_sim scriptIn r pb op d off rest (c :: code') G I NS1) as ST.
      pose proof (get_op_shorter _ _ _ _ G) as SH.
      destruct (ref_step op d rest r) as [r1|].
      * destruct ST as [[pb1 ST] I1]. cbn [ScriptEval.run_ops]. rewrite ST. cbn [bind].
        specialize (IH rest (off + (lenZ (c :: code') - lenZ rest)) r1 pb1 ltac:(cbn [length] in *; lia) I1 NS2). exact IH.
      * left. cbn [ScriptEval.run_ops]. rewrite ST. reflexivity.
    + right. cbn [fst snd ScriptEval.run_ops]. exists (abs r pb), e. split; [reflexivity|]. split; [reflexivity|].
      apply get_op_err in G as [G _]; [|discriminate]. now apply is_script_err_cases.
Qed.

(* EvalScript on a script without signature-checking operations: the model fails (with
   EvalScriptError, nothing else) exactly when the reference fails, and otherwise leaves
   exactly the reference's final stack *)
Notation eval_script := (eval_script checksig ripemd160 sha1 sha256 fl).
Notation eval_ref := (eval_ref checksig ripemd160 sha1 sha256 fl).
Theorem eval_nosig scriptIn st :
  Forall small st -> lenZ st < 2^31 ->
  forallb (fun o => nosig (sop_opcode o)) (fst (ref_parse scriptIn)) = true ->
  eval_script (rev st) scriptIn = match eval_ref st scriptIn with Some fin => Ok (rev fin) | None => Err EvalErr end.
Proof.
  intros S1 S2 NS. unfold ScriptEval.eval_script, eval_script_raw, ScriptRef.eval_ref.
  change MAX_SCRIPT_SIZE with 10000. destruct (lenZ scriptIn >? 10000); [reflexivity|].
  rewrite raw_iter_ref. unfold ref_parse in *.
  set (r0 := {| r_stack := st; r_alt := []; r_vf := []; r_sub := scriptIn; r_nop := 0 |}).
  change ({| stack := rev st; altstack := []; vfExec := []; pbegincodehash := 0; nOpCount := 0 |}) with (abs r0 0).
  assert (I0 : inv r0) by (repeat split; cbn [r_stack r_alt r_nop r0]; try assumption; try constructor; lia).
  pose proof (loop_sim scriptIn (length scriptIn) scriptIn 0 r0 0 (le_n _) I0 NS) as LS.
  destruct (ref_ops (length scriptIn) scriptIn 0) as [ops err]. cbn [fst snd] in LS.
  destruct (eval_loop (length scriptIn) scriptIn r0) as [r'|].
  - destruct LS as [-> [pb' ->]]. cbn [bind]. unfold abs. cbn [vfExec stack]. rewrite len_rev.
    destruct (r_vf r') as [|b vf']; [reflexivity|]. cbn [is_nil].
    destruct (Z.eqb_spec (len (b :: vf')) 0) as [E|E]; [rewrite len_cons in E; pose proof (len_nonneg vf'); lia|reflexivity].
  - destruct LS as [-> | (s' & e & -> & -> & SE)]; cbn [bind]; [reflexivity|]. rewrite SE. reflexivity.
Qed.
End Loop.
