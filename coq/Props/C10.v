(* Props/C10.v – Base58 / Base58Check are exact inverses and reject exactly the invalid
   strings.  Statements only; every proof is [exact <lemma>].
   encode / decode / check_decode / to_text : MODEL of bitcoin/base58.py (Model/Base58.v),
   with the alphabet B58_DIGITS regenerated from /repo (Gen/B58.v);
   spec_* : reference big-integer definition (Spec/Base58.v) over the reference alphabet.
   H is an arbitrary function bytes -> bytes (bitcoin.core.Hash in the code). *)
From BV Require Import Common.Base Common.Hash Gen.B58 Model.Base58 Spec.Base58
  Proofs.Base58Digits Proofs.Base58Spec Proofs.Base58.

(* the alphabet the code uses is the reference alphabet: 58 distinct code points *)
Theorem C10_alphabet : B58_DIGITS = alphabet /\ length alphabet = 58%nat /\ NoDup alphabet /\
  alphabet = text_of_string AlphabetLiteral.s.
Proof. exact (conj digits_eq (conj alphabet_length (conj alphabet_nodup alphabet_is_string))). Qed.

(* the reference definition is positional notation: in every base b >= 2 the digit list of
   n has value n, is canonical (digits in range, no leading zero), and is the only such *)
Theorem C10_spec_positional : forall b n, 2 <= b -> 0 <= n ->
  value_msb b (digits_msb b n) = n /\ canon_msb b (digits_msb b n) /\
  (forall ds, canon_msb b ds -> value_msb b ds = n -> ds = digits_msb b n).
Proof.
  exact (fun b n Hb Hn => conj (value_digits b Hb n Hn) (conj (digits_canon b Hb n Hn)
         (fun ds C E => eq_trans (eq_sym (digits_value b Hb ds C)) (f_equal (digits_msb b) E)))).
Qed.

(* encode and decode equal the reference definition, on every input *)
Theorem C10_encode_spec : forall b, encode b = Ok (spec_encode b).
Proof. exact encode_spec. Qed.
Theorem C10_decode_spec : forall s, decode s = spec_decode s.
Proof. exact decode_spec. Qed.

(* mutually inverse on every byte string (leading zero bytes preserved) … *)
Theorem C10_decode_encode : forall b, exists s, encode b = Ok s /\ decode s = Ok b.
Proof. exact decode_encode. Qed.
(* … and on every string over the alphabet (leading '1' characters preserved, all-'1'
   strings included) *)
Theorem C10_encode_decode : forall s, Forall (fun c => In c B58_DIGITS) s ->
  exists y, decode s = Ok y /\ encode y = Ok s.
Proof. exact encode_decode. Qed.

(* a character outside the alphabet raises the invalid-base58 error; nothing else is raised *)
Theorem C10_foreign_char : forall s c, In c s -> ~ In c B58_DIGITS -> decode s = Err Base58Invalid.
Proof. exact decode_foreign. Qed.
Theorem C10_decode_total : forall s,
  (Forall (fun c => In c B58_DIGITS) s /\ exists y, decode s = Ok y) \/
  ((exists c, In c s /\ ~ In c B58_DIGITS) /\ decode s = Err Base58Invalid).
Proof. exact decode_total. Qed.

(* Base58Check: CBase58Data(s) yields (version, payload) exactly when the decoded string k
   has at least five bytes and its last four equal the first four of H of the rest
   (check_ok), version and payload being the first byte and the remainder of the rest … *)
Theorem C10_check_iff : forall H s v p,
  check_decode H s = Ok (v, p) <->
  exists k, decode s = Ok k /\ check_ok H k /\ body k = z2b v :: p /\ 0 <= v < 256.
Proof. exact check_decode_iff. Qed.
(* … the checksum error is raised otherwise (decode's own error is passed through) *)
Theorem C10_check_else : forall H s,
  (forall e, decode s = Err e -> check_decode H s = Err e) /\
  (forall k, decode s = Ok k -> ~ check_ok H k -> check_decode H s = Err Base58Checksum) /\
  (forall k, decode s = Ok k -> check_ok H k -> exists v p, check_decode H s = Ok (v, p)).
Proof. exact check_decode_else. Qed.
Theorem C10_check_spec : forall H s, check_decode H s = spec_check_decode H s.
Proof. exact check_decode_spec. Qed.

(* the text form of every (version, payload) is the reference text and decodes back to the
   same version and payload, for every hash function with at least four bytes of output *)
Theorem C10_text_roundtrip : forall H, (forall x, (4 <= length (H x))%nat) ->
  forall v p, 0 <= v < 256 ->
  exists s, to_text H v p = Ok s /\ s = spec_to_text H v p /\ check_decode H s = Ok (v, p).
Proof. exact check_roundtrip. Qed.

(* non-vacuity: concrete values with the executable double SHA-256; both outcomes of every
   rule occur; F6's input ('3y6uvf', decoded length 4) was accepted by the code before the
   fix and is rejected now *)
Example C10_nonvacuous :
  encode [x00; x00; x01; xff] = Ok [49; 49; 57; 112] /\
  decode [49; 49; 49] = Ok [x00; x00; x00] /\
  decode alphabet <> Err Base58Invalid /\
  decode [49; 48] = Err Base58Invalid /\
  to_text sha256d 0 [x01; x02] = Ok [49; 87; 56; 101; 65; 84; 55; 120] /\
  check_decode sha256d [49; 87; 56; 101; 65; 84; 55; 120] = Ok (0, [x01; x02]) /\
  check_decode sha256d [49; 49; 49; 49; 49; 49] = Err Base58Checksum /\
  check_decode_unfixed sha256d [51; 121; 54; 117; 118; 102] = Ok (116, []) /\
  check_decode sha256d [51; 121; 54; 117; 118; 102] = Err Base58Checksum.
Proof.
  vm_compute. repeat split; try reflexivity; discriminate.
Qed.

Print Assumptions C10_alphabet.
Print Assumptions C10_spec_positional.
Print Assumptions C10_encode_spec.
Print Assumptions C10_decode_spec.
Print Assumptions C10_decode_encode.
Print Assumptions C10_encode_decode.
Print Assumptions C10_foreign_char.
Print Assumptions C10_decode_total.
Print Assumptions C10_check_iff.
Print Assumptions C10_check_else.
Print Assumptions C10_check_spec.
Print Assumptions C10_text_roundtrip.
