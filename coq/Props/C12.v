(* Props/C12.v – addresses map one-to-one to standard scripts, on the selected chain only.
   Statements only; every proof is [exact <lemma>].

   MODEL  (Model/Wallet.v): SelectParams / _SelectCoreParams over the two globals
     (pstate = index of the chain bitcoin.core.coreparams / bitcoin.params is an instance of),
     CBitcoinAddress(s) [parse], CBitcoinAddress.from_scriptPubKey [from_spk],
     addr.to_scriptPubKey() [to_spk], str(addr) [to_text]; st_* = the same under the
     process-wide state.  Tree after the fixes F7 (97c73d1) and F8 (77dc37d).
   SPEC   (Spec/Wallet.v): the table spec_script / spec_version / spec_text, the reference
     parser spec_parse, spec_selected (last valid name of a history), shares.
   std_addr p k h = the address object the table prescribes: class of kind k, version byte
     (Base58) or witness version (Bech32) spec_version p k, payload h.
   Hc   = checksum hash of Base58Check (bitcoin.core.Hash), ANY function with >= 4 output bytes;
   H160 = bitcoin.core.Hash160, ANY function (20 output bytes where it produces a payload).
   chains = the four parameter sets regenerated from /repo (Gen/Core.v). *)
From BV Require Import Common.Base Common.Hash Gen.Core Model.Wallet Spec.Wallet
  Proofs.WalletScript Proofs.WalletLead Proofs.WalletSelect Proofs.Wallet.
From BV Require Spec.Base58 Spec.Bech32.

(* ---------------- the chain table the code has now is the reference one ---------------- *)
(* names, PUBKEY_ADDR, SCRIPT_ADDR, BECH32_HRP of the four parameter classes regenerated from
   /repo = the reference table of Spec/Wallet.v (Bitcoin Core's chainparams):
   mainnet 0/5/"bc", testnet 111/196/"tb", signet 111/196/"tb", regtest 111/196/"bcrt" *)
Theorem C12_chain_table :
  map addr_view chains = map addr_view ref_chains /\
  (map (fun p => (cp_pubkey_addr p, cp_script_addr p, cp_hrp p)) ref_chains =
   [(0, 5, [98; 99]); (111, 196, [116; 98]); (111, 196, [116; 98]); (111, 196, [98; 99; 114; 116])]).
Proof. exact (conj eq_refl eq_refl). Qed.

(* ---------------- chain selection ---------------- *)
(* one SelectParams call: a name of the table sets BOTH globals to that chain; any other
   name raises ValueError and changes NEITHER global *)
Theorem C12_select_step : forall st name,
  select_params st name = match chain_of_name name ref_chains 0 with
                          | Some i => (both i, Ok tt)
                          | None => (st, Err ValueError)
                          end.
Proof. exact select_params_spec. Qed.

(* after ANY history of calls (valid and invalid names), both globals name the last valid
   selection (mainnet if there was none); each call returned normally iff its name is valid *)
Theorem C12_history_invariant : forall hist,
  run_history st_init hist =
  (both (spec_selected hist), map (fun n => if valid_name n then Ok tt else Err ValueError) hist).
Proof. exact run_history_spec. Qed.

(* the selection is always one of the four chains; a history ending in chain i's name selects i *)
Theorem C12_history_selects_chain : forall hist,
  (exists p, 0 <= spec_selected hist /\ nth_error chains (Z.to_nat (spec_selected hist)) = Some p /\
             In p chains /\ params_of (both (spec_selected hist)) = Ok p) /\
  (forall i p, nth_error chains i = Some p -> spec_selected (hist ++ [cp_name p]) = Z.of_nat i).
Proof. exact (fun hist => conj (selected_chain hist) (selected_last hist)). Qed.

(* ---------------- the four conversions, under every chain and every history ---------------- *)
(* after any history, with p the selected chain: for each of the four templates and every
   payload of the template's length, scriptPubKey -> address gives the class / version /
   payload of the table, its text is the table's text (Base58Check with the chain's version
   byte, Bech32 with the chain's HRP and version 0), the text parses back to the same
   address, and the address converts back to the original script *)
Theorem C12_roundtrip : forall Hc, (forall x, (4 <= length (Hc x))%nat) -> forall H160 hist,
  exists p, nth_error chains (Z.to_nat (spec_selected hist)) = Some p /\
    final hist = both (spec_selected hist) /\
    forall k h, length h = payload_len k ->
      let a := std_addr p k h in
      st_from_spk H160 (final hist) (spec_script k h) = Ok a /\
      st_to_text Hc (final hist) a = Ok (spec_text Hc p k h) /\
      st_parse Hc (final hist) (spec_text Hc p k h) = Ok a /\
      st_to_spk (final hist) a = Ok (spec_script k h).
Proof. exact history_roundtrip. Qed.

(* the same for a fixed chain of the table (what the history theorem instantiates) *)
Theorem C12_roundtrip_chain : forall Hc, (forall x, (4 <= length (Hc x))%nat) -> forall H160 p k h,
  In p chains -> length h = payload_len k ->
  let a := std_addr p k h in
  from_spk H160 p (spec_script k h) = Ok a /\ to_text Hc p a = Ok (spec_text Hc p k h) /\
  parse Hc p (spec_text Hc p k h) = Ok a /\ to_spk p a = Ok (spec_script k h).
Proof. exact roundtrip. Qed.

(* one-to-one: distinct (kind, payload) have distinct scripts and distinct texts *)
Theorem C12_one_to_one : forall Hc, (forall x, (4 <= length (Hc x))%nat) -> forall p k h k' h',
  In p chains -> length h = payload_len k -> length h' = payload_len k' ->
  (spec_script k h = spec_script k' h' -> k = k' /\ h = h') /\
  (spec_text Hc p k h = spec_text Hc p k' h' -> k = k' /\ h = h').
Proof. exact (fun Hc L => one_to_one Hc L (fun x => x)). Qed.

(* ---------------- CBitcoinAddress(s) on EVERY string ---------------- *)
(* the parser is the reference parser: a segwit address (BIP173) of the chain's HRP with
   version 0 and 20 / 32 bytes, or a Base58Check string with a 20-byte payload and one of
   the chain's two version bytes – and CBitcoinAddressError for every other string.
   For every parameter record p, every hash function, every list of code points s. *)
Theorem C12_parse_is_reference : forall Hc p s,
  parse Hc p s = match spec_parse Hc p s with
                 | Some (k, h) => Ok (std_addr p k h)
                 | None => Err AddressErr
                 end.
Proof. exact parse_spec. Qed.
(* no other exception class, no other kind of object *)
Theorem C12_parse_total : forall Hc p s, (exists a, parse Hc p s = Ok a) \/ parse Hc p s = Err AddressErr.
Proof. exact parse_total. Qed.
(* unsupported witness versions are refused with the address error (F7) *)
Theorem C12_unsupported_witness_version : forall Hc p s ver prog,
  Spec.Bech32.bip173_segwit (cp_hrp p) s ver prog -> ver <> 0 -> parse Hc p s = Err AddressErr.
Proof. exact unsupported_witness_version. Qed.
(* Base58Check strings with a payload of the wrong length (F8) or a foreign version byte *)
Theorem C12_bad_base58_refused : forall Hc p s v payload,
  Spec.Bech32.ref_decode (cp_hrp p) s = None -> Spec.Base58.spec_check_decode Hc s = Ok (v, payload) ->
  length payload <> 20%nat \/ (v <> cp_script_addr p /\ v <> cp_pubkey_addr p) ->
  parse Hc p s = Err AddressErr.
Proof. exact bad_base58_refused. Qed.
(* whatever the parser returns is an address of the table and round-trips *)
Theorem C12_parsed_roundtrip : forall Hc, (forall x, (4 <= length (Hc x))%nat) -> forall H160 p s a,
  In p chains -> parse Hc p s = Ok a ->
  exists k h, a = std_addr p k h /\ length h = payload_len k /\
    to_spk p a = Ok (spec_script k h) /\ from_spk H160 p (spec_script k h) = Ok a /\
    to_text Hc p a = Ok (spec_text Hc p k h) /\ parse Hc p (spec_text Hc p k h) = Ok a.
Proof. exact parsed_roundtrip. Qed.

(* ---------------- other chains' addresses ---------------- *)
(* after any history, with p the selected chain: the text of ANY valid address of ANY chain q
   of the table is refused with the address error unless q shares the relevant prefix with
   p (Base58 kinds: both version bytes; Bech32 kinds: the HRP) – and then it IS accepted,
   as the same kind and payload *)
Theorem C12_cross_chain : forall Hc, (forall x, (4 <= length (Hc x))%nat) -> forall hist,
  exists p, nth_error chains (Z.to_nat (spec_selected hist)) = Some p /\
    (forall s, st_parse Hc (final hist) s = match spec_parse Hc p s with
                                             | Some (k, h) => Ok (std_addr p k h)
                                             | None => Err AddressErr
                                             end) /\
    (forall q k h, In q chains -> length h = payload_len k ->
       st_parse Hc (final hist) (spec_text Hc q k h) =
       if shares p q k then Ok (std_addr p k h) else Err AddressErr).
Proof. exact history_parse. Qed.
(* which chains share prefixes – (same Base58 version bytes, same HRP) for selected chain
   (row) and origin chain (column), order mainnet, testnet, signet, regtest: mainnet shares
   nothing; testnet, signet and regtest share the Base58 prefixes; testnet and signet also
   share the HRP – those addresses are NOT refused *)
Theorem C12_sharing_table :
  map (fun p => map (fun q => (same_base58 p q, same_hrp p q)) chains) chains =
  [ [(true, true);   (false, false); (false, false); (false, false)];
    [(false, false); (true, true);   (true, true);   (true, false)];
    [(false, false); (true, true);   (true, true);   (true, false)];
    [(false, false); (true, false);  (true, false);  (true, true)] ].
Proof. exact share_matrix_value. Qed.

(* ---------------- variants accepted by the P2PKH converter ---------------- *)
(* the 20-byte hash pushed with PUSHDATA1 (w=1), PUSHDATA2 (w=2) or PUSHDATA4 (else): the
   P2PKH address of the hash (whose script is the canonical template) *)
Theorem C12_noncanonical_push : forall H160 p w h, In p chains -> length h = 20%nat ->
  spec_classify (noncanon_script w h) = Some (SNonCanon h) /\
  from_spk H160 p (noncanon_script w h) = Ok (std_addr p KP2PKH h).
Proof.
  exact (fun H160 p w h Ip L => conj (classify_noncanon w h L) (from_spk_noncanon H160 p w h (chains_wf p Ip) L)).
Qed.

(* bare pubkey  <len> <pubkey> CHECKSIG.  Intended statement (reference: the address of
   HASH160 of the pubkey):
     forall H160 p pk, (forall x, length (H160 x) = 20) -> In p chains ->
       length pk = 33 \/ length pk = 65 ->
       from_spk H160 p (bare_script pk) = Ok (std_addr p KP2PKH (H160 pk))
   It holds for compressed keys (33 bytes) … *)
Theorem C12_bare_pubkey_partial : forall H160 p pk, (forall x, length (H160 x) = 20%nat) -> In p chains ->
  length pk = 33%nat ->
  from_spk H160 p (bare_script pk) = Ok (std_addr p KP2PKH (H160 pk)).
Proof. exact (fun H160 p pk HL Ip L => from_spk_bare33 H160 HL p pk (chains_wf p Ip) L). Qed.
(* … and is violated for uncompressed keys (F9, known finding, pinned by the existing test
   test_from_bare_checksig_scriptPubKey): witness with the executable HASH160 … *)
Theorem C12_bare_pubkey_refuted : exists p pk, In p chains /\ length pk = 65%nat /\
  from_spk hash160 p (bare_script pk) <> Ok (std_addr p KP2PKH (hash160 pk)).
Proof. exact f9_witness. Qed.
(* … because what the code computes for EVERY 65-byte key is the address of the first 64 bytes *)
Theorem C12_bare_uncompressed_actual : forall H160 p pk, (forall x, length (H160 x) = 20%nat) -> In p chains ->
  length pk = 65%nat ->
  from_spk H160 p (bare_script pk) = Ok (std_addr p KP2PKH (H160 (firstn 64 pk))).
Proof. exact (fun H160 p pk HL Ip L => from_spk_bare65 H160 HL p pk (chains_wf p Ip) L). Qed.

(* ---------------- non-vacuity ---------------- *)
Definition ex_h : bytes :=
  [x62;xe9;x07;xb1;x5c;xbf;x27;xd5;x42;x53;x99;xeb;xf6;xf0;xfb;x50;xeb;xb8;x8f;x18].
Definition ex_main : text :=      (* 1A1zP1eP5QGefi2DMPTfTL5SLmv7DivfNa *)
  [49;65;49;122;80;49;101;80;53;81;71;101;102;105;50;68;77;80;84;102;84;76;53;83;76;109;118;55;68;105;118;102;78;97].
Definition ex_test : text :=      (* mpXwg4jMtRhuSpVq4xS3HFHmCmWp9NyGKt *)
  [109;112;88;119;103;52;106;77;116;82;104;117;83;112;86;113;52;120;83;51;72;70;72;109;67;109;87;112;57;78;121;71;75;116].
Definition ex_tb : text :=        (* tb1qvt5s0v2uhuna2sjnn84ldu8m2r4m3rcclfw5ch *)
  [116;98;49;113;118;116;53;115;48;118;50;117;104;117;110;97;50;115;106;110;110;56;52;108;100;117;56;109;50;114;52;109;51;114;99;99;108;102;119;53;99;104].
Definition n_testnet : text := [116;101;115;116;110;101;116].
Definition n_signet : text := [115;105;103;110;101;116].
Definition n_bogus : text := [116;101;115;116].
Definition testnet : chain_params := nth 1 chains mainnet.

(* real addresses under two chains and three histories; both outcomes of every rule; the
   pre-fix parser on the F7 / F8 inputs *)
Example C12_nonvacuous :
  spec_text sha256d mainnet KP2PKH ex_h = ex_main /\
  spec_text sha256d testnet KP2PKH ex_h = ex_test /\
  spec_text sha256d testnet KP2WPKH ex_h = ex_tb /\
  final [n_testnet; n_bogus] = both 1 /\
  snd (run_history st_init [n_testnet; n_bogus]) = [Ok tt; Err ValueError] /\
  st_parse sha256d (final [n_testnet; n_bogus]) ex_test = Ok (std_addr testnet KP2PKH ex_h) /\
  st_parse sha256d (final [n_testnet; n_bogus]) ex_main = Err AddressErr /\
  st_parse sha256d (final [n_bogus]) ex_main = Ok (std_addr mainnet KP2PKH ex_h) /\
  st_parse sha256d (final [n_testnet; n_signet]) ex_tb = Ok (std_addr testnet KP2WPKH ex_h) /\
  st_parse sha256d (final []) ex_tb = Err AddressErr /\
  st_parse sha256d (final []) [] = Err AddressErr /\
  parse_unfixed sha256d mainnet f7_text = Err AssertionError /\
  parse sha256d mainnet f7_text = Err AddressErr /\
  parse_unfixed sha256d mainnet f8_text = Ok {| a_cls := P2PKH; a_ver := 0; a_data := repeat x00 19 |} /\
  parse sha256d mainnet f8_text = Err AddressErr.
Proof. vm_compute. repeat split; reflexivity. Qed.

Print Assumptions C12_chain_table.
Print Assumptions C12_select_step.
Print Assumptions C12_history_invariant.
Print Assumptions C12_history_selects_chain.
Print Assumptions C12_roundtrip.
Print Assumptions C12_roundtrip_chain.
Print Assumptions C12_one_to_one.
Print Assumptions C12_parse_is_reference.
Print Assumptions C12_parse_total.
Print Assumptions C12_unsupported_witness_version.
Print Assumptions C12_bad_base58_refused.
Print Assumptions C12_parsed_roundtrip.
Print Assumptions C12_cross_chain.
Print Assumptions C12_sharing_table.
Print Assumptions C12_noncanonical_push.
Print Assumptions C12_bare_pubkey_partial.
Print Assumptions C12_bare_pubkey_refuted.
Print Assumptions C12_bare_uncompressed_actual.
