(* Props/C17.v – Compact targets and the proof-of-work check follow the consensus
   definition.  Statements only; every proof is [exact <lemma>]. *)
From BV Require Import Common.Base Model.Compact Spec.Compact Proofs.Compact Gen.Core.

(* encoding never sets the sign bit, and its result is a canonical 32-bit compact *)
Theorem C17_encode_sign_clear : forall v, 0 <= v -> c_sign (to_compact v) = false.
Proof. exact encode_sign_clear. Qed.
Theorem C17_encode_canonical : forall v, 0 <= v < 2^256 ->
  canonical (to_compact v) = true /\ 0 <= to_compact v < 2^32.
Proof. intros v H. split; [exact (encode_canonical v H) | exact (encode_range v H)]. Qed.

(* decode (encode v) = v truncated to its three most significant (sign-padded) bytes *)
Theorem C17_decode_encode : forall v, 0 <= v < 2^256 -> from_compact (to_compact v) = trunc3 v.
Proof. exact decode_encode. Qed.

(* decoding then re-encoding is the identity on canonical compact values *)
Theorem C17_encode_decode : forall c, canonical c = true -> to_compact (from_compact c) = c.
Proof. exact canonical_fixed. Qed.

(* sign bit clear: mantissa * 256^(exponent-3), floor for exponents below 3 *)
Theorem C17_decode_sign_clear : forall c, 0 <= c < 2^32 -> c_sign c = false ->
  from_compact c = denote (c_exp c) (c_mant c).
Proof. exact decode_sign_clear. Qed.

(* the proof-of-work check: accepts exactly the consensus predicate, otherwise raises the
   validation error CheckProofOfWorkError – for every limit below 2^256 *)
Theorem C17_check_pow : forall limit hash c, 0 <= c < 2^32 -> length hash = 32%nat -> limit < 2^256 ->
  (check_pow limit hash c = Ok tt <-> pow_ok limit hash c) /\
  (check_pow limit hash c = Ok tt \/ check_pow limit hash c = Err CheckPowErr).
Proof. exact check_pow_iff. Qed.

(* the four chains regenerated from /repo satisfy the hypothesis on the limit *)
Theorem C17_chain_limits : forallb (fun p => (0 <? cp_pow_limit p) && (cp_pow_limit p <? 2^256)) chains = true
  /\ length chains = 4%nat.
Proof. split; vm_compute; reflexivity. Qed.

(* and they are the consensus limits of mainnet, testnet, signet, regtest *)
Theorem C17_chain_limits_consensus : map cp_pow_limit chains = consensus_pow_limits.
Proof. vm_compute; reflexivity. Qed.

(* non-vacuity: the hypotheses are met by concrete values, and both outcomes occur *)
Example C17_nonvacuous :
  canonical 0x1d00ffff = true /\ c_sign 0x1d00ffff = false /\
  check_pow (2^224 - 1) (repeat x00 32) 0x1d00ffff = Ok tt /\
  check_pow (2^224 - 1) (repeat xff 32) 0x1d00ffff = Err CheckPowErr /\
  to_compact 0x92340000 = 0x05009234 /\ trunc3 0x92345678 = 0x92340000.
Proof. vm_compute. repeat split; reflexivity. Qed.

Print Assumptions C17_encode_sign_clear.
Print Assumptions C17_encode_canonical.
Print Assumptions C17_decode_encode.
Print Assumptions C17_encode_decode.
Print Assumptions C17_decode_sign_clear.
Print Assumptions C17_check_pow.
Print Assumptions C17_chain_limits.
Print Assumptions C17_chain_limits_consensus.
