(* Props/C03.v – Legacy signature hash equals the consensus algorithm for every hash type.
   MODEL: Model/Sighash.v (RawSignatureHash / SignatureHash as written, on top of the C01
   serialiser, the C08 tokeniser and the Python FindAndDelete).  SPEC: Spec/Sighash.v
   (Bitcoin Core's on-the-fly CTransactionSignatureSerializer, DESIGN.md Appendix D.1) with
   Core's byte-skipping FindAndDelete of Spec/ScriptRef.v.  H is an arbitrary hash function.

   Quantifier: every transaction whose fields are in wire range ([sighash_tx_ok]: the domain
   on which the C01 serialiser used by the MODEL is Python's; the equations themselves are
   proved in Proofs/Sighash.v without that hypothesis), any number of inputs and outputs,
   with or without witness; every subscript that parses (raw_iter ends without exception);
   every idx : nat, including idx >= |vin|; every hash type byte 0..255.

   "Neither ever changes the transaction it was given": the MODEL is a function on values,
   so at this level the statement is a triviality (there is nothing to change); the
   heap-level statement – RawSignatureHash only writes to the objects created by
   CMutableTransaction.from_tx – is the frame theorem of C09. *)
From BV Require Import Common.Base Common.Codec Common.PyList Common.Tx Spec.Wire Spec.ScriptRef Spec.Script
  Spec.Sighash Model.Wire Model.Script Model.FindAndDelete Model.Sighash
  Proofs.FindAndDelete Proofs.Sighash.
From BV Require Import Gen.Sighash.

(* the constants, masks, formats and defaults as regenerated from the source today *)
Theorem C03_layout :
  fmt_RawSignatureHash = [I32] /\ RSH_mask_none = 0x1f /\ RSH_mask_single = 0x1f /\ RSH_seq_none = 0 /\ RSH_seq_single = 0 /\
  SIGHASH_ALL = 1 /\ SIGHASH_NONE = 2 /\ SIGHASH_SINGLE = 3 /\ SIGHASH_ANYONECANPAY = 0x80 /\ SIGVERSION_BASE = 0 /\
  HASH_ONE = one32 /\ filler = {| to_value := -1; to_script := [] |} /\
  build [TOp OP_CODESEPARATOR] = Ok [xab].
Proof. repeat split; reflexivity. Qed.

(* ---- FindAndDelete: Python (operation-granular) = Core (byte-skipping) ---- *)
(* for OP_CODESEPARATOR, for every other single opcode byte and for the push of any byte
   string below 2^32 bytes (the form the interpreter needs, C06) *)
Theorem C03_find_and_delete : forall script pat ops,
  one_op pat -> raw_iter script = (ops, None) ->
  find_and_delete script pat = Ok (find_and_delete_ref script pat).
Proof. exact fad_model_ref. Qed.
Theorem C03_find_and_delete_patterns :
  one_op [xab] /\ (forall c, 0x4e < b2z c -> one_op [c]) /\
  (forall x, lenZ x < 2^32 -> push_of x = Ok (ref_push x) /\ one_op (ref_push x)).
Proof.
  split; [exact one_op_codesep|]. split; [exact one_op_byte|].
  intros x L. split; [now apply push_of_ref | now apply one_op_push].
Qed.
(* a subscript that does not parse: the tokeniser's CScriptInvalidError propagates *)
Theorem C03_find_and_delete_unparsable : forall script pat ops e,
  raw_iter script = (ops, Some e) -> find_and_delete script pat = Err e.
Proof. exact fad_model_err. Qed.
(* what is removed: exactly the operations whose opcode is OP_CODESEPARATOR – a byte 0xab
   inside push data belongs to a push operation and stays *)
Theorem C03_codeseparators_removed : forall script ops, raw_iter script = (ops, None) ->
  script = ops_bytes ops /\
  strip_codesep script = ops_bytes (filter (fun o => negb (sop_opcode o =? 0xab)) ops).
Proof. exact strip_codesep_parsed. Qed.

(* ---- the raw form ---- *)
Theorem C03_raw_sighash : forall H script t idx ht ops,
  sighash_tx_ok t -> raw_iter script = (ops, None) -> 0 <= ht < 256 ->
  raw_sighash H script t (Z.of_nat idx) ht = Ok (legacy_sighash H script t idx ht).
Proof. intros H script t idx ht ops _. apply raw_sighash_correct. Qed.
(* the two error cases: (HASH_ONE, error) exactly when the input does not exist or
   SIGHASH_SINGLE has no matching output; otherwise H of the reference preimage *)
Theorem C03_raw_error_cases : forall H script t idx ht,
  (snd (legacy_sighash H script t idx ht) = true <->
     (length (tx_vin t) <= idx)%nat \/ (ht mod 32 = 3 /\ (length (tx_vout t) <= idx)%nat)) /\
  (snd (legacy_sighash H script t idx ht) = true -> fst (legacy_sighash H script t idx ht) = one32) /\
  (forall x, nth_error (tx_vin t) idx = Some x -> snd (legacy_sighash H script t idx ht) = false ->
     fst (legacy_sighash H script t idx ht) = H (sighash_preimage script t idx x ht)).
Proof.
  intros H script t idx ht. split; [|split].
  - rewrite legacy_sighash_error. unfold sh_single, sh_base. rewrite Z.eqb_eq. reflexivity.
  - unfold legacy_sighash. destruct (nth_error (tx_vin t) idx); [|reflexivity].
    destruct (sh_single ht && (length (tx_vout t) <=? idx)%nat); [reflexivity|discriminate].
  - intros x E. unfold legacy_sighash. rewrite E.
    destruct (sh_single ht && (length (tx_vout t) <=? idx)%nat); [discriminate|reflexivity].
Qed.
(* witness data never enters: reference and MODEL (the latter for ALL arguments, parsing
   or not, any index and hash type) *)
Theorem C03_witness_ignored : forall H script t w inIdx idx ht,
  raw_sighash H script (set_wit t w) inIdx ht = raw_sighash H script t inIdx ht /\
  legacy_sighash H script (set_wit t w) idx ht = legacy_sighash H script t idx ht.
Proof. intros. split; [apply raw_sighash_wit | apply legacy_sighash_wit]. Qed.
(* outside the property's quantifier but part of the MODEL the correspondence checks:
   an existing input with a subscript that does not parse raises CScriptInvalidError *)
Theorem C03_raw_unparsable : forall H script t idx ht ops e,
  raw_iter script = (ops, Some e) -> (idx < length (tx_vin t))%nat ->
  raw_sighash H script t (Z.of_nat idx) ht = Err e /\ is_script_err e = true.
Proof. exact raw_sighash_unparsable. Qed.

(* ---- the convenience form ----
   Full statement (what the property asks):
     forall H script t idx ht ops, sighash_tx_ok t -> raw_iter script = (ops, None) -> 0 <= ht < 256 ->
       signature_hash H script t (Z.of_nat idx) ht = cooked_spec H script t idx ht
   with cooked_spec = the digest, or ValueError in the two error cases.  The code violates
   it (F3, known finding: `assert not script.is_witness_scriptpubkey()` is a deliberate API
   guard): C03_cooked_refuted.  Proved on the complement: *)
Theorem C03_cooked_partial : forall H script t idx ht ops,
  sighash_tx_ok t -> raw_iter script = (ops, None) -> 0 <= ht < 256 ->
  ref_is_witness script = false ->                     (* not witness-program shaped *)
  signature_hash H script t (Z.of_nat idx) ht = cooked_spec H script t idx ht.
Proof. intros H script t idx ht ops _. apply signature_hash_correct. Qed.
Theorem C03_cooked_spec_cases : forall H script t idx ht,
  cooked_spec H script t idx ht =
    if snd (legacy_sighash H script t idx ht) then Err ValueError else Ok (fst (legacy_sighash H script t idx ht)).
Proof. reflexivity. Qed.
(* F3: every witness-program-shaped subscript (OP_n, then one direct push of the remaining
   2..40 bytes) parses, and the wrapper raises AssertionError on it whatever the rest *)
Theorem C03_cooked_witness_shaped : forall H script t inIdx ht, ref_is_witness script = true ->
  (exists ops, raw_iter script = (ops, None)) /\ signature_hash H script t inIdx ht = Err AssertionError.
Proof. intros. split; [now apply witness_shaped_parses | now apply signature_hash_witness_shaped]. Qed.
Theorem C03_cooked_refuted : forall H, exists script t idx ht ops,
  sighash_tx_ok t /\ raw_iter script = (ops, None) /\ 0 <= ht < 256 /\
  signature_hash H script t (Z.of_nat idx) ht = Err AssertionError /\
  exists d, cooked_spec H script t idx ht = Ok d.
Proof.
  intros H.
  exists (x00 :: x14 :: repeat x00 20),
         {| tx_version := 1; tx_vin := [{| ti_prevout := {| op_hash := repeat x00 32; op_n := 0 |}; ti_script := []; ti_seq := 0 |}];
            tx_vout := []; tx_wit := []; tx_lock := 0 |}, 0%nat, 1.
  destruct (witness_shaped_parses (x00 :: x14 :: repeat x00 20) eq_refl) as (ops & R). exists ops.
  split; [|split; [exact R|split; [lia|split]]].
  - unfold sighash_tx_ok, in_i, in_u. cbn [tx_version tx_lock tx_vin tx_vout ti_prevout op_hash op_n ti_seq].
    change (256 ^ Z.of_nat 4) with 4294967296.
    split; [lia|]. split; [lia|]. split; [|constructor]. constructor; [|constructor].
    cbn [ti_prevout op_hash op_n ti_seq]. split; [reflexivity|lia].
  - apply signature_hash_witness_shaped. reflexivity.
  - eexists. unfold cooked_spec, legacy_sighash. cbn [tx_vin nth_error tx_vout length]. reflexivity.
Qed.

Example C03_nonvacuous :
  (* a subscript with OP_CODESEPARATOR as an opcode and 0xab inside push data; two inputs, one output *)
  let x0 := {| ti_prevout := {| op_hash := repeat x11 32; op_n := 1 |}; ti_script := [x51]; ti_seq := 0xffffffff |} in
  let x1 := {| ti_prevout := {| op_hash := repeat x22 32; op_n := 0 |}; ti_script := [x52]; ti_seq := 7 |} in
  let t := {| tx_version := 1; tx_vin := [x0; x1]; tx_vout := [{| to_value := 5000; to_script := [xac] |}];
              tx_wit := [[[x01]]; []]; tx_lock := 0 |} in
  let script := [xab; x01; xab; xab; xac] in
  strip_codesep script = [x01; xab; xac] /\
  raw_sighash (fun b => b) script t 1 0x83 = Ok (one32, true) /\          (* SINGLE without a matching output *)
  raw_sighash (fun b => b) script t 2 0x01 = Ok (one32, true) /\          (* input does not exist *)
  raw_sighash (fun b => b) script t 1 0x82 = Ok (legacy_sighash (fun b => b) script t 1 0x82) /\
  length (fst (legacy_sighash (fun b => b) script t 1 0x82)) = 58%nat /\ (* 4+1+(36+(1+3)+4)+1+4+4 *)
  signature_hash (fun b => b) script t 2 1 = Err ValueError /\
  signature_hash (fun b => b) (x00 :: x14 :: repeat x00 20) t 0 1 = Err AssertionError /\
  raw_sighash (fun b => b) [x4c] t 0 1 = Err InvalidScript.
Proof. vm_compute. repeat split; reflexivity. Qed.

Print Assumptions C03_layout.
Print Assumptions C03_find_and_delete.
Print Assumptions C03_find_and_delete_patterns.
Print Assumptions C03_find_and_delete_unparsable.
Print Assumptions C03_codeseparators_removed.
Print Assumptions C03_raw_sighash.
Print Assumptions C03_raw_error_cases.
Print Assumptions C03_witness_ignored.
Print Assumptions C03_raw_unparsable.
Print Assumptions C03_cooked_partial.
Print Assumptions C03_cooked_spec_cases.
Print Assumptions C03_cooked_witness_shaped.
Print Assumptions C03_cooked_refuted.
