(* Props/C01.v – Transaction/block wire format: exact bytes, lossless round trip, clean
   errors.  Statements only; proofs are applications of Proofs/Wire.v and the generic
   codec laws of Common/Codec.v. *)
From BV Require Import Common.Base Common.Codec Common.Tx Gen.Core Gen.Layouts Spec.Wire Model.Wire Proofs.Wire.

(* the formats read from the source today: write side = read side = the wire format *)
Theorem C01_layouts :
  fmt_COutPoint_ser = [U32] /\ fmt_COutPoint_deser = [U32] /\ raw_COutPoint_deser = [32; 4] /\
  fmt_CTxIn_ser = [U32] /\ fmt_CTxIn_deser = [U32] /\ raw_CTxIn_deser = [4] /\
  fmt_CTxOut_ser = [I64] /\ fmt_CTxOut_deser = [I64] /\ raw_CTxOut_deser = [8] /\
  fmt_CTransaction_ser = [I32; U32] /\ fmt_CTransaction_deser = [I32; U8; U8; U32; U32] /\
  raw_CTransaction_deser = [4; 1; 1; 4; 4] /\
  fmt_CBlockHeader_ser = [I32; U32; U32; U32] /\ fmt_CBlockHeader_deser = [I32; U32; U32; U32] /\
  raw_CBlockHeader_deser = [4; 32; 32; 4; 4; 4] /\
  fmt_VarIntSerializer_ser = [U16; U32; U64] /\ fmt_VarIntSerializer_deser = [U16; U32; U64] /\
  raw_VarIntSerializer_deser = [1; 2; 4; 8] /\ MAX_SIZE = 0x02000000.
Proof. repeat split; reflexivity. Qed.

(* ---- transactions ---- *)
(* serialisation is exactly the prescribed byte string, BIP144 form iff a stack is non-empty *)
Theorem C01_tx_serialize : forall t, wf_tx MAX_SIZE t ->
  ser_tx true t = Ok (wire_tx t) /\ ser_tx false t = Ok (wire_tx_stripped t) /\
  (firstn 2 (skipn 4 (wire_tx t)) = [x00; x01] <-> has_witness t = true).
Proof.
  intros t W. split; [|split; [|exact (marker_iff t W)]].
  - unfold ser_tx. cbn [andb]. destruct (has_witness t) eqn:H.
    + destruct W as (_ & _ & _ & _ & _ & _ & _ & _ & [E|E]).
      * unfold has_witness in H. rewrite E in H. discriminate.
      * rewrite E, Nat.ltb_irrefl, enc_tx. reflexivity.
    + rewrite enc_tx_set_nil. unfold wire_tx. rewrite H. reflexivity.
  - unfold ser_tx. cbn [andb]. now rewrite enc_tx_set_nil.
Qed.
(* deserialising the encoding returns the same field values (all-empty witness stacks read
   back as "no witness"), consuming exactly the encoding; re-serialising gives the same bytes *)
Theorem C01_tx_roundtrip : forall t rest ap, wf_tx MAX_SIZE t ->
  deser_tx (wire_tx t ++ rest) = Ok (norm_wit t, rest) /\
  deserialize tx_c ap (wire_tx t) = DOk (norm_wit t) /\
  ser_tx true (norm_wit t) = Ok (wire_tx t).
Proof.
  intros t rest ap W. pose proof (wf_tx_c t W) as C. rewrite <- enc_tx, <- norm_tx. repeat split.
  - exact (l_rt tx_c tx_lawful t rest C).
  - exact (deser_exact tx_c tx_lawful t ap C).
  - rewrite norm_tx. destruct (C01_tx_serialize _ (wf_norm_wit t W)) as [E _]. rewrite E, wire_norm_wit, enc_tx. reflexivity.
Qed.
(* every strict prefix raises the truncation error *)
Theorem C01_tx_prefix : forall t p q ap, wf_tx MAX_SIZE t -> wire_tx t = p ++ q -> q <> [] ->
  deserialize tx_c ap p = DErr Trunc.
Proof. intros t p q ap W E NE. apply (deser_prefix tx_c tx_lawful t p q ap (wf_tx_c t W)); [now rewrite enc_tx|exact NE]. Qed.
(* extra bytes: extra-data error carrying the parsed object and the surplus, unless padding is allowed *)
Theorem C01_tx_extra : forall t q, wf_tx MAX_SIZE t -> q <> [] ->
  deserialize tx_c false (wire_tx t ++ q) = DExtra (norm_wit t) q /\
  deserialize tx_c true (wire_tx t ++ q) = DOk (norm_wit t).
Proof. intros t q W NE. rewrite <- enc_tx, <- norm_tx. exact (deser_extra tx_c tx_lawful t q (wf_tx_c t W) NE). Qed.
(* on arbitrary bytes: an object, an object plus surplus, truncation or SerializationError – nothing else *)
Theorem C01_tx_total : forall b ap, match deserialize tx_c ap b with
  | DOk _ | DExtra _ _ => True | DErr e => e = Trunc \/ e = SerErr end.
Proof. exact (deser_total tx_c tx_lawful). Qed.

(* ---- block headers ---- *)
Theorem C01_header : forall h rest ap p q, wf_header h ->
  enc header_c h = wire_header h /\ length (wire_header h) = 80%nat /\
  decode header_c (wire_header h ++ rest) = Ok (h, rest) /\
  deserialize header_c ap (wire_header h) = DOk h /\
  (wire_header h = p ++ q -> q <> [] -> deserialize header_c ap p = DErr Trunc) /\
  (q <> [] -> deserialize header_c false (wire_header h ++ q) = DExtra h q /\
              deserialize header_c true (wire_header h ++ q) = DOk h).
Proof.
  intros h rest ap p q W. pose proof (wf_header_c h W) as C. rewrite <- enc_header. repeat split.
  - rewrite enc_header. destruct W as (_ & L1 & L2 & _). unfold wire_header, i, u.
    rewrite !app_length, !le_enc_length, L1, L2. reflexivity.
  - rewrite <- (norm_header h) at 2. exact (l_rt header_c header_lawful h rest C).
  - rewrite <- (norm_header h) at 2. exact (deser_exact header_c header_lawful h ap C).
  - intros E NE. exact (deser_prefix header_c header_lawful h p q ap C E NE).
  - rewrite <- (norm_header h) at 2. apply (deser_extra header_c header_lawful h q C H).
  - rewrite <- (norm_header h) at 2. apply (deser_extra header_c header_lawful h q C H).
Qed.
Theorem C01_header_total : forall b ap, match deserialize header_c ap b with
  | DOk _ | DExtra _ _ => True | DErr e => e = Trunc \/ e = SerErr end.
Proof. exact (deser_total header_c header_lawful). Qed.

(* ---- blocks of 0..n transactions ---- *)
Theorem C01_block : forall b rest ap p q, wf_block MAX_SIZE b ->
  enc block_c b = wire_block b /\ ser_block_stripped b = wire_block_stripped b /\
  decode block_c (wire_block b ++ rest) = Ok (norm_block b, rest) /\
  deserialize block_c ap (wire_block b) = DOk (norm_block b) /\
  enc block_c (norm_block b) = wire_block b /\
  (wire_block b = p ++ q -> q <> [] -> deserialize block_c ap p = DErr Trunc) /\
  (q <> [] -> deserialize block_c false (wire_block b ++ q) = DExtra (norm_block b) q /\
              deserialize block_c true (wire_block b ++ q) = DOk (norm_block b)).
Proof.
  intros b rest ap p q W. pose proof (wf_block_c b W) as C. rewrite <- !norm_block_eq.
  split; [exact (enc_block b)|]. split; [exact (ser_block_stripped_eq b)|]. rewrite <- enc_block. repeat split.
  - exact (l_rt block_c block_lawful b rest C).
  - exact (deser_exact block_c block_lawful b ap C).
  - rewrite norm_block_eq, !enc_block. exact (wire_norm_block b).
  - intros E NE. exact (deser_prefix block_c block_lawful b p q ap C E NE).
  - apply (deser_extra block_c block_lawful b q C H).
  - apply (deser_extra block_c block_lawful b q C H).
Qed.
Theorem C01_block_total : forall b ap, match deserialize block_c ap b with
  | DOk _ | DExtra _ _ => True | DErr e => e = Trunc \/ e = SerErr end.
Proof. exact (deser_total block_c block_lawful). Qed.

(* non-vacuity: a concrete two-input witness transaction meets wf_tx *)
Definition ex_in (n : Z) := {| ti_prevout := {| op_hash := repeat x11 32; op_n := n |}; ti_script := [x51]; ti_seq := 0xffffffff |}.
Definition ex_tx := {| tx_version := 2; tx_vin := [ex_in 0; ex_in 1]; tx_vout := [{| to_value := 5000; to_script := [x51] |}];
                       tx_wit := [[[x01; x02]]; []]; tx_lock := 0 |}.
Example C01_nonvacuous : wf_tx MAX_SIZE ex_tx /\ has_witness ex_tx = true /\
  length (wire_tx ex_tx) = 111%nat /\ deser_tx (wire_tx ex_tx) = Ok (ex_tx, []).
Proof.
  split; [|vm_compute; repeat split; reflexivity].
  assert (B : forall x, wf_bytes MAX_SIZE [x]) by (intros x; vm_compute; congruence).
  assert (I : forall n, 0 <= n < 2 -> wf_txin MAX_SIZE (ex_in n)).
  { intros n Hn. split; [split; [reflexivity|unfold in_u; cbn [ex_in ti_prevout op_n]; change (256 ^ Z.of_nat 4) with 4294967296; lia]|].
    split; [apply B|vm_compute; split; congruence]. }
  unfold wf_tx, ex_tx. cbn [tx_version tx_vin tx_vout tx_wit tx_lock].
  split; [vm_compute; split; congruence|]. split; [discriminate|].
  split; [constructor; [apply I; lia|constructor; [apply I; lia|constructor]]|].
  split; [constructor; [split; [vm_compute; split; congruence|apply B]|constructor]|].
  split; [vm_compute; split; congruence|]. split; [vm_compute; reflexivity|]. split; [vm_compute; reflexivity|].
  split; [|right; reflexivity].
  constructor; [split; [constructor; [vm_compute; congruence|constructor]|vm_compute; reflexivity]|].
  constructor; [split; [constructor|vm_compute; reflexivity]|constructor].
Qed.

Print Assumptions C01_layouts.
Print Assumptions C01_tx_serialize.
Print Assumptions C01_tx_roundtrip.
Print Assumptions C01_tx_prefix.
Print Assumptions C01_tx_extra.
Print Assumptions C01_tx_total.
Print Assumptions C01_header.
Print Assumptions C01_header_total.
Print Assumptions C01_block.
Print Assumptions C01_block_total.
