(* Props/C14.v – Signed messages verify for the signer's address and for nothing else.
   Statements only; every proof is [exact <lemma>].

   As for C13: OpenSSL is external; the theorems are about the Python-side logic of
   bitcoin/signmessage.py, CECKey.sign_compact / recover, CPubKey.recover_compact,
   signature.py DERSignature, for an ARBITRARY E : curve with curve_laws E (hypothesis of
   each theorem; NOT proved for the executable secp256k1 / OpenSSL – the stated assumption
   linking theorems and correspondence run) and arbitrary hash functions H, H160.
   Side conditions on E (all checked for secp256k1 by C14_secp_side_conditions):
     c_n E < 2^256, c_p E <= 2^256, 256 <= degree E (no digest truncation),
     the half-order table of IsLowDERSignature = c_n E / 2.
   The message is its UTF-8 byte string (str.encode and base64 are CPython's and stay on the
   Python side of the harness). *)
From BV Require Import Common.Base Common.Codec Gen.Core Gen.Key Model.Base58 Spec.Base58 Spec.Ecdsa Spec.Der
  Spec.SignMsg Model.Secp256k1 Model.Key Proofs.Ecdsa Proofs.Der Proofs.Key Proofs.SignMsg.

(* the digest: H (varstr(magic) ++ varstr(utf8 message)), CompactSize length prefixes;
   the default magic regenerated from /repo is "Bitcoin Signed Message:\n" *)
Theorem C14_digest : forall H magic msg,
  message_hash H magic msg = H ((varint_enc (lenZ magic) ++ magic) ++ (varint_enc (lenZ msg) ++ msg)).
Proof. exact message_hash_spec. Qed.
Theorem C14_magic : msg_magic_default = ref_magic.
Proof. exact magic_eq. Qed.
(* the literals of SignMessage / recover_compact / sign_compact regenerated from /repo *)
Theorem C14_literals : signmsg_base = 27 /\ signmsg_compressed_add = 4 /\ rc_sig_len = 65 /\ rc_base = 27 /\
  rc_recid_mask = 3 /\ rc_comp_mask = 4 /\ rc_r_lo = 1 /\ rc_r_hi = 33 /\ rc_s_lo = 33 /\ rc_s_hi = 65 /\
  pubkey_compressed_len = 33.
Proof. exact consts_eq. Qed.
Theorem C14_recid_range : sc_recid_lo = 0 /\ sc_recid_hi = 4.
Proof. exact range_eq. Qed.

(* CECKey.recover, as the ctypes call sequence performs it, is SEC1 4.1.6:
   Q = r^-1 (s R - e G) with R the point of abscissa r + (recid / 2) n and parity recid mod 2;
   return code 1 exactly when that point exists *)
Theorem C14_recover_is_sec1 : forall E, curve_laws E -> 256 <= degree E ->
  forall r s hash recid check, small r -> small s -> length hash = 32%nat -> 0 <= recid < 4 ->
  exists code, cec_recover E (be_enc 32 r) (be_enc 32 s) hash recid check =
                 Ok (code, recover_ref E r s (be_dec hash) recid) /\
               (recover_ref E r s (be_dec hash) recid = None -> code < 1) /\
               (recover_ref E r s (be_dec hash) recid <> None -> code = 1).
Proof. exact cec_recover_spec. Qed.
(* reference recovery of a signature made with a usable nonce returns the signer's key for
   one of the four candidates (and for the low-S twin) *)
Theorem C14_recover_ref_signer : forall E, curve_laws E -> forall d e k, valid_nonce E d e k ->
  (exists i, 0 <= i < 4 /\
     recover_ref E (fst (sign_raw E d e k)) (snd (sign_raw E d e k)) e i = Some (pub E d)) /\
  (exists i, 0 <= i < 4 /\
     recover_ref E (fst (sign_raw E d e k)) (c_n E - snd (sign_raw E d e k)) e i = Some (pub E d)).
Proof.
  exact (fun E L d e k V => conj
    (ex_intro _ _ (conj (proj1 (recover_sign E L d e k V)) (proj2 (recover_sign E L d e k V))))
    (ex_intro _ _ (conj (proj1 (recover_sign_twin E L d e k V)) (proj2 (recover_sign_twin E L d e k V))))).
Qed.

(* SignMessage (before base64): 65 bytes = header || r || s as 32-byte big-endian fields,
   header = 27 + recid + 4 * compressed with recid in 0..3, (r, s) the low-S signature, and
   reference recovery with that recid returns the signer's key *)
Theorem C14_sign_message : forall E, curve_laws E -> c_n E < 2 ^ 256 -> c_p E <= 2 ^ 256 -> 256 <= degree E ->
  value_msb 256 max_mod_half_order = c_n E / 2 ->
  forall d c hash k, 1 <= d < c_n E -> length hash = 32%nat -> valid_nonce E d (be_dec hash) k ->
  let r := fst (sign_raw E d (be_dec hash) k) in
  let s := norm_s E (snd (sign_raw E d (be_dec hash) k)) in
  exists i, 0 <= i < 4 /\
    sign_message E d c hash k =
      Ok (z2b (27 + i + (if c then 4 else 0)) :: be_enc 32 r ++ be_enc 32 s) /\
    recover_ref E r s (be_dec hash) i = Some (pub E d).
Proof. exact sign_message_spec. Qed.
(* CPubKey.recover_compact on it reproduces exactly the signer's key and compression flag *)
Theorem C14_recover_signer : forall E, curve_laws E -> c_n E < 2 ^ 256 -> c_p E <= 2 ^ 256 -> 256 <= degree E ->
  value_msb 256 max_mod_half_order = c_n E / 2 ->
  forall d c hash k, 1 <= d < c_n E -> length hash = 32%nat -> valid_nonce E d (be_dec hash) k ->
  exists sig, sign_message E d c hash k = Ok sig /\ length sig = 65%nat /\
              recover_compact E hash sig = Ok (Some (c, pub E d)).
Proof. exact recover_signer. Qed.

(* VerifyMessage on the signer's signature: true for the text of the signer's P2PKH address,
   false for every other address string (a : any text) *)
Theorem C14_verify_signer : forall E, curve_laws E -> c_n E < 2 ^ 256 -> c_p E <= 2 ^ 256 -> 256 <= degree E ->
  value_msb 256 max_mod_half_order = c_n E / 2 ->
  forall H H160 prefix a d c hash k, 0 <= prefix < 256 -> 1 <= d < c_n E -> length hash = 32%nat ->
  valid_nonce E d (be_dec hash) k ->
  exists sig, sign_message E d c hash k = Ok sig /\
    verify_message E H H160 prefix a hash sig = Ok (text_eqb (address_of E H H160 prefix c (pub E d)) a).
Proof. exact verify_signer. Qed.
Theorem C14_text_eqb : forall a b, text_eqb a b = true <-> a = b.
Proof. exact text_eqb_eq. Qed.
(* for ANY signature bytes: VerifyMessage returns True only for the P2PKH text of the key
   recovered from (digest, signature) *)
Theorem C14_verify_true_only : forall E H H160 prefix a hash sig, 0 <= prefix < 256 ->
  verify_message E H H160 prefix a hash sig = Ok true ->
  exists c Q, recover_compact E hash sig = Ok (Some (c, Q)) /\ a = address_of E H H160 prefix c Q.
Proof. exact verify_message_true. Qed.

(* another message: if its digest differs modulo n, recovery from the same signature fails or
   returns a DIFFERENT key, so VerifyMessage for the signer's address can only return True
   through an address collision between two different keys (residual, stated) *)
Theorem C14_other_digest : forall E, curve_laws E -> forall r s e e' recid Q,
  recover_ref E r s e recid = Some Q -> e mod c_n E <> e' mod c_n E -> recover_ref E r s e' recid <> Some Q.
Proof. exact recover_other_digest. Qed.
Theorem C14_other_message : forall E, curve_laws E -> c_n E < 2 ^ 256 -> c_p E <= 2 ^ 256 -> 256 <= degree E ->
  value_msb 256 max_mod_half_order = c_n E / 2 ->
  forall H H160 prefix d c hash hash' k, 0 <= prefix < 256 -> 1 <= d < c_n E ->
  length hash = 32%nat -> length hash' = 32%nat -> valid_nonce E d (be_dec hash) k ->
  be_dec hash mod c_n E <> be_dec hash' mod c_n E ->
  exists sig, sign_message E d c hash k = Ok sig /\
    (verify_message E H H160 prefix (address_of E H H160 prefix c (pub E d)) hash' sig = Ok true ->
     exists Q', Q' <> pub E d /\ address_of E H H160 prefix c Q' = address_of E H H160 prefix c (pub E d)).
Proof. exact verify_other_message. Qed.

(* side conditions for the concrete parameters (NOT the group laws) and the chains' prefixes *)
Theorem C14_secp_side_conditions :
  c_n secp256k1 < 2 ^ 256 /\ c_p secp256k1 <= 2 ^ 256 /\ 256 <= degree secp256k1 /\
  value_msb 256 max_mod_half_order = c_n secp256k1 / 2 /\
  forallb (fun p => (0 <=? cp_pubkey_addr p) && (cp_pubkey_addr p <? 256)) chains = true.
Proof.
  exact (conj secp_n_small (conj (proj1 (proj2 (proj2 secp_p_bounds)))
         (conj (eq_ind_r (fun z => 256 <= z) (Z.le_refl 256) (proj2 (proj2 (proj2 secp_p_bounds))))
         (conj secp_table_ok eq_refl)))).
Qed.

(* non-vacuity (no full-size scalar multiplication: 25 s each under vm_compute) *)
Example C14_nonvacuous :
  length (msg_preimage ref_magic []) = 26%nat /\
  compact_header 1 true = 32 /\
  compact_parse (compact_sig 1 true 5 7) = Some (1, true, 5, 7) /\
  valid_nonceb secp256k1 3 5 2 = true /\
  varint_enc 253 = [xfd; xfd; x00] /\
  text_eqb [49; 50] [49; 50] = true /\ text_eqb [49; 50] [49] = false.
Proof. vm_compute. repeat split; reflexivity. Qed.

Print Assumptions C14_digest.
Print Assumptions C14_magic.
Print Assumptions C14_literals.
Print Assumptions C14_recid_range.
Print Assumptions C14_recover_is_sec1.
Print Assumptions C14_recover_ref_signer.
Print Assumptions C14_sign_message.
Print Assumptions C14_recover_signer.
Print Assumptions C14_verify_signer.
Print Assumptions C14_text_eqb.
Print Assumptions C14_verify_true_only.
Print Assumptions C14_other_digest.
Print Assumptions C14_other_message.
Print Assumptions C14_secp_side_conditions.
