(* Props/C15.v – Merkle roots, witness merkle root, the CBlock constructor check, and the
   weight formulas (parametric in the serialised sizes until Model/Wire.v exists).
   Statements only; every proof is [exact <lemma>].  All theorems hold for EVERY hash
   function H and every list (no size bound). *)
From BV Require Import Common.Base Common.Hash Model.Merkle Spec.Merkle Proofs.Merkle Gen.Core.
From BV Require Import Common.Tx Spec.Wire Model.Wire Model.Weight Proofs.Weight.
From BV Require Spec.Check Model.Check.
From BV Require Import Proofs.MerkleWire.

(* merkle root of every non-empty list of txids = reference algorithm (adjacent pairs, last
   node paired with itself on odd levels, single id => itself); build_merkle_tree_from_txids(l)[-1] *)
Theorem C15_merkle_root : forall (H : bytes -> bytes) (l : list bytes), l <> [] ->
  exists r, spec_root H l = Some r /\ merkle_root_of_txids H l = Ok r.
Proof. exact merkle_root_eq_spec. Qed.

(* CBlock.calc_merkle_root over the block's transactions *)
Theorem C15_block_merkle_root : forall (H : bytes -> bytes) (vtx : list txv), vtx <> [] ->
  exists r, spec_root H (map tv_txid vtx) = Some r /\ calc_merkle_root H vtx = Ok r.
Proof. exact calc_merkle_root_eq_spec. Qed.

(* the reference does not depend on its fuel: its defining equations *)
Theorem C15_spec_equations : forall (H : bytes -> bytes),
  spec_root H [] = None /\ (forall a, spec_root H [a] = Some a) /\
  (forall a b t, spec_root H (a :: b :: t) = spec_root H (pairs H (a :: b :: t))).
Proof. intros H. exact (conj (spec_root_nil H) (conj (spec_root_single H) (spec_root_step H))). Qed.

(* witness merkle root = the same algorithm over the wtxids, coinbase entry replaced by
   32 zero bytes – whenever some transaction has witness data *)
Theorem C15_witness_root : forall (H : bytes -> bytes) (vtx : list txv),
  vtx <> [] -> existsb tv_haswit vtx = true ->
  exists r, spec_witness_root H (map tv_hash vtx) = Some r /\ calc_witness_merkle_root H vtx = Ok r.
Proof. exact witness_root_eq_spec. Qed.
(* … and NoWitnessData when none has *)
Theorem C15_witness_none : forall (H : bytes -> bytes) (vtx : list txv),
  vtx <> [] -> existsb tv_haswit vtx = false -> calc_witness_merkle_root H vtx = Err NoWitnessData.
Proof. exact witness_root_none. Qed.

(* the empty list as the code has it *)
Theorem C15_empty : forall (H : bytes -> bytes),
  build_merkle_tree_from_txids H [] = Ok [] /\ merkle_root_of_txids H [] = Err IndexError /\
  calc_merkle_root H [] = Err ValueError /\ calc_witness_merkle_root H [] = Err ValueError /\
  build_witness_merkle_tree_from_txs H [] = Err NoWitnessData.
Proof. exact merkle_empty. Qed.

(* constructor: all-zero declared root => filled in with the reference root; declared =
   computed => kept; anything else => CheckBlockError.  (H returns 32 bytes, txids and
   hashPrevBlock have 32 bytes: otherwise the header asserts fire.) *)
Theorem C15_constructor : forall (H : bytes -> bytes) prev root vtx r,
  (forall x, length (H x) = 32%nat) -> Forall (fun t => length (tv_txid t) = 32%nat) vtx ->
  vtx <> [] -> length prev = 32%nat -> spec_root H (map tv_txid vtx) = Some r ->
  (root = zeros 32 \/ root = r ->
     exists b, cblock_init H prev root vtx = Ok b /\ cb_hashMerkleRoot b = r /\
               cb_vtx b = vtx /\ py_last (cb_vMerkleTree b) = Ok r /\
               calc_merkle_root H (cb_vtx b) = Ok r) /\
  (root <> zeros 32 -> root <> r -> cblock_init H prev root vtx = Err CheckBlockErr).
Proof. exact constructor_spec. Qed.
(* the refusal needs no side condition at all *)
Theorem C15_constructor_refuses : forall (H : bytes -> bytes) prev root vtx r, vtx <> [] ->
  spec_root H (map tv_txid vtx) = Some r -> root <> zeros 32 -> root <> r ->
  cblock_init H prev root vtx = Err CheckBlockErr.
Proof. exact constructor_refuses. Qed.
(* no transactions: the declared root is kept whatever it is *)
Theorem C15_constructor_empty : forall (H : bytes -> bytes) prev root,
  length prev = 32%nat -> length root = 32%nat ->
  cblock_init H prev root [] =
  Ok {| cb_hashPrevBlock := prev; cb_hashMerkleRoot := root; cb_vMerkleTree := [];
        cb_vWitnessMerkleTree := []; cb_vtx := [] |}.
Proof. exact constructor_empty. Qed.
(* nothing but CheckBlockError / the header AssertionError escapes the constructor *)
Theorem C15_constructor_errors : forall (H : bytes -> bytes) prev root vtx e,
  cblock_init H prev root vtx = Err e -> e = CheckBlockErr \/ e = AssertionError.
Proof. exact constructor_errors. Qed.

(* get_witness_commitment_index: the highest-index coinbase output matching the BIP141
   pattern; ValueError iff no output matches *)
Theorem C15_commitment_index : forall magic cb rest,
  match get_witness_commitment_index magic (cb :: rest) with
  | Ok i => is_commit_index magic cb i
  | Err e => e = ValueError /\ Forall (fun s => commit_pattern magic s = false) cb
  end.
Proof. exact commitment_index_spec. Qed.

(* PARAMETRIC (to be instantiated by the wire model): for any transaction type and size
   functions such that (1) the witness-less copy serialises to the stripped form and
   (2) without witness data the two forms coincide, calc_weight = 3*stripped + full *)
Theorem C15_weight_param : forall (tx : Type) (n_vin n_vout : tx -> nat) (wit_is_null : tx -> bool)
  (strip : tx -> tx) (size_full size_stripped : tx -> Z),
  (forall t, size_full (strip t) = size_stripped t) ->
  (forall t, wit_is_null t = true -> size_full t = size_stripped t) ->
  forall t, (0 < n_vin t)%nat -> (0 < n_vout t)%nat ->
  calc_weight tx n_vin n_vout wit_is_null strip size_full t
  = Ok (3 * size_stripped t + size_full t).
Proof. exact calc_weight_spec. Qed.
Theorem C15_weight_assert : forall (tx : Type) (n_vin n_vout : tx -> nat) (wit_is_null : tx -> bool)
  (strip : tx -> tx) (size_full : tx -> Z) t, (n_vin t = 0 \/ n_vout t = 0)%nat ->
  calc_weight tx n_vin n_vout wit_is_null strip size_full t = Err AssertionError.
Proof. exact calc_weight_assert. Qed.
(* block weight = 3 * stripped block size + full block size
                = 4 * (80 + CompactSize(count)) + sum of the transaction weights *)
Theorem C15_block_weight_param : forall (tx : Type) (size_full size_stripped : tx -> Z) vtx,
  get_weight tx size_full size_stripped vtx = spec_block_weight tx size_stripped size_full vtx /\
  get_weight tx size_full size_stripped vtx
  = 4 * (80 + compact_size_len (lenZ vtx)) + sumZ tx (spec_tx_weight tx size_stripped size_full) vtx.
Proof. intros. exact (conj (get_weight_spec _ _ _ _) (get_weight_sum _ _ _ _)). Qed.

(* ---------- non-vacuity ---------- *)
(* a "hash" that shows the tree: H x = x *)
Definition Hid (x : bytes) : bytes := x.
Definition A := [x0a]. Definition B := [x0b]. Definition C := [x0c].
(* block 170 of the main chain: two txids (internal byte order) and its merkle root *)
Definition t170a : bytes := [x82;x50;x1c;x11;x78;xfa;x0b;x22;x2c;x1f;x3d;x47;x4e;xc7;x26;xb8;x32;x01;x3f;x0a;x53;x2b;x44;xbb;x62;x0c;xce;x86;x24;xa5;xfe;xb1].
Definition t170b : bytes := [x16;x9e;x1e;x83;xe9;x30;x85;x33;x91;xbc;x6f;x35;xf6;x05;xc6;x75;x4c;xfe;xad;x57;xcf;x83;x87;x63;x9d;x3b;x40;x96;xc5;x4f;x18;xf4].
Definition r170 : bytes := [xff;x10;x4c;xcb;x05;x42;x1a;xb9;x3e;x63;xf8;xc3;xce;x5c;x2c;x2e;x9d;xbb;x37;xde;x27;x64;xb3;xa3;x17;x5c;x81;x66;x56;x2c;xac;x7d].
Definition mk (i w : bytes) (hw : bool) := {| tv_txid := i; tv_hash := w; tv_haswit := hw |}.
Definition v170 := [mk t170a t170a false; mk t170b t170b false].
(* a toy wire model satisfying the two hypotheses of C15_weight_param:
   (base size, witness size); full = base (+ 2 + witness when there is a witness) *)
Definition toy := (Z * Z)%type.
Definition toy_full (t : toy) : Z := if snd t =? 0 then fst t else fst t + 2 + snd t.
Definition toy_stripped (t : toy) : Z := fst t.
Definition toy_strip (t : toy) : toy := (fst t, 0).
Definition toy_null (t : toy) : bool := snd t =? 0.

Example C15_nonvacuous :
  (* odd level: the last node is paired with itself *)
  merkle_root_of_txids Hid [A; B; C] = Ok ((A ++ B) ++ (C ++ C)) /\
  spec_root Hid [A; B; C] = Some ((A ++ B) ++ (C ++ C)) /\
  merkle_root_of_txids Hid [A] = Ok A /\
  (* witness: coinbase entry zeroed *)
  calc_witness_merkle_root Hid [mk A A false; mk B C true] = Ok (zeros 32 ++ C) /\
  calc_witness_merkle_root Hid [mk A A false; mk B B false] = Err NoWitnessData /\
  (* the real hash on a real block; the three outcomes of the constructor *)
  calc_merkle_root sha256d v170 = Ok r170 /\
  (exists b, cblock_init sha256d (zeros 32) (zeros 32) v170 = Ok b /\ cb_hashMerkleRoot b = r170) /\
  (exists b, cblock_init sha256d (zeros 32) r170 v170 = Ok b /\ cb_hashMerkleRoot b = r170) /\
  cblock_init sha256d (zeros 32) t170a v170 = Err CheckBlockErr /\
  (* commitment search: last match wins *)
  get_witness_commitment_index WITNESS_COINBASE_SCRIPTPUBKEY_MAGIC
    [[WITNESS_COINBASE_SCRIPTPUBKEY_MAGIC ++ zeros 32; [x51]; WITNESS_COINBASE_SCRIPTPUBKEY_MAGIC ++ zeros 33;
      WITNESS_COINBASE_SCRIPTPUBKEY_MAGIC ++ zeros 31]] = Ok 2%nat /\
  (* the weight hypotheses are satisfiable, and both branches of calc_weight occur *)
  (forall t, toy_full (toy_strip t) = toy_stripped t) /\
  (forall t, toy_null t = true -> toy_full t = toy_stripped t) /\
  calc_weight toy (fun _ => 1%nat) (fun _ => 1%nat) toy_null toy_strip toy_full (100, 0) = Ok 400 /\
  calc_weight toy (fun _ => 1%nat) (fun _ => 1%nat) toy_null toy_strip toy_full (100, 50) = Ok 452 /\
  get_weight toy toy_full toy_stripped [(100, 0); (100, 50)] = 4 * 81 + 400 + 452.
Proof.
  repeat match goal with |- _ /\ _ => split end;
    try (vm_compute; reflexivity);
    try (eexists; split; vm_compute; reflexivity).
  intros [a b]. unfold toy_null, toy_full, toy_stripped. cbn [fst snd]. intros ->. reflexivity.
Qed.

(* ---------- weights instantiated with the wire model (Model/Wire.v, C01) ---------- *)
(* transaction weight = 3 * witness-stripped size + full size, for every transaction with
   at least one input and one output; the two asserts otherwise *)
Theorem C15_tx_weight : forall t, tx_vin t <> [] -> tx_vout t <> [] ->
  tx_calc_weight t = Ok (3 * lenZ (wire_tx_stripped t) + lenZ (wire_tx t)).
Proof. exact tx_weight. Qed.
Theorem C15_tx_weight_assert : forall t, tx_vin t = [] \/ tx_vout t = [] -> tx_calc_weight t = Err AssertionError.
Proof. exact tx_weight_assert. Qed.
(* block weight likewise, for every block whose header fields are in wire range *)
Theorem C15_block_weight : forall b, wf_header (b_hdr b) ->
  block_get_weight b = 3 * lenZ (wire_block_stripped b) + lenZ (wire_block b).
Proof. exact block_weight. Qed.

(* ---------- end to end on transactions given as values (wire model C01, identifiers C02) ---------- *)
(* For every non-empty list of transactions whose fields are in wire range: the list the
   block constructor builds its trees from exists, calc_merkle_root over it is the reference
   root over H(witness-stripped wire form), calc_witness_merkle_root is the reference witness
   root over H(full wire form) when some transaction has witness data and NoWitnessData
   otherwise.  No identifier is an input: both are computed by the model of GetTxid/GetHash. *)
Theorem C15_roots_from_wire : forall (H : bytes -> bytes) (vtx : list tx), vtx <> [] -> Forall Spec.Check.tx_in_range vtx ->
  exists txvs r, Model.Check.block_txvs H vtx = Ok txvs /\
    spec_root H (map (fun t => H (wire_tx_stripped t)) vtx) = Some r /\ calc_merkle_root H txvs = Ok r /\
    (existsb has_witness vtx = true ->
       exists wr, spec_witness_root H (map (fun t => H (wire_tx t)) vtx) = Some wr /\
                  calc_witness_merkle_root H txvs = Ok wr) /\
    (existsb has_witness vtx = false -> calc_witness_merkle_root H txvs = Err NoWitnessData).
Proof. exact roots_from_wire. Qed.
(* ... and the constructor on them: zero => filled in with that root, equal => kept, anything
   else (a byte-reversed root included) => CheckBlockError *)
Theorem C15_constructor_from_wire : forall (H : bytes -> bytes), (forall x, length (H x) = 32%nat) ->
  forall prev root (vtx : list tx), vtx <> [] -> Forall Spec.Check.tx_in_range vtx -> length prev = 32%nat ->
  exists txvs r, Model.Check.block_txvs H vtx = Ok txvs /\
    spec_root H (map (fun t => H (wire_tx_stripped t)) vtx) = Some r /\
    (root = zeros 32 \/ root = r ->
       exists b, cblock_init H prev root txvs = Ok b /\ cb_hashMerkleRoot b = r /\
                 calc_merkle_root H (cb_vtx b) = Ok r) /\
    (root <> zeros 32 -> root <> r -> cblock_init H prev root txvs = Err CheckBlockErr).
Proof. exact constructor_from_wire. Qed.

Print Assumptions C15_merkle_root.
Print Assumptions C15_block_merkle_root.
Print Assumptions C15_spec_equations.
Print Assumptions C15_witness_root.
Print Assumptions C15_witness_none.
Print Assumptions C15_empty.
Print Assumptions C15_constructor.
Print Assumptions C15_constructor_refuses.
Print Assumptions C15_constructor_empty.
Print Assumptions C15_constructor_errors.
Print Assumptions C15_commitment_index.
Print Assumptions C15_weight_param.
Print Assumptions C15_weight_assert.
Print Assumptions C15_block_weight_param.
Print Assumptions C15_tx_weight.
Print Assumptions C15_tx_weight_assert.
Print Assumptions C15_block_weight.
Print Assumptions C15_roots_from_wire.
Print Assumptions C15_constructor_from_wire.
