(* Props/C05.v – Signed inputs verify; exactly what the hash type commits to is protected.
   What is a theorem and what is cryptography is kept apart:
   (a) non-interference – script verification depends on the spending transaction only
       through the signature-check oracle;
   (b) commitment – the legacy sighash preimage (Spec/Sighash.v; equal to what the library
       hashes by C03) determines, and is determined by, the "committed view" of the
       transaction (Spec/Commit.v) and the hash type: edits that leave the view unchanged
       leave the digest unchanged whatever the hash function, edits that change the view
       change the preimage, so a still-accepting verification would need a hash collision
       on two explicit strings or one signature valid for two digests;
   (c) acceptance of correctly signed P2PK / P2PKH / m-of-n / P2SH inputs and rejection of
       foreign keys are checked by the correspondence run on the concrete curve
       (IMPL = MODEL = SPEC prediction), not proved (see PARTIAL in tools/props/C05.py). *)
From BV Require Import Common.Base Common.Tx Common.ScriptFlags Gen.Core Spec.Wire Spec.Sighash Spec.Commit Spec.ScriptRef
  Model.ScriptEval Proofs.Commit.

Theorem C05_noninterference : forall cs1 cs2 r s1 s2 fl a b,
  (forall sig pk code, cs1 sig pk code = cs2 sig pk code) ->
  verify_script cs1 r s1 s2 fl a b = verify_script cs2 r s1 s2 fl a b /\
  verify_ref cs1 r s1 s2 fl a b = verify_ref cs2 r s1 s2 fl a b.
Proof. exact verify_oracle_ext. Qed.

(* the preimage is the stripped wire form of the committed view followed by the hash type *)
Theorem C05_preimage_is_view : forall code t idx x ht,
  (idx < length (tx_vout t) \/ sh_single ht = false)%nat ->
  sighash_preimage code t idx x ht = wire_tx_stripped (sighash_view code t idx x ht) ++ i 4 ht.
Proof. exact preimage_view. Qed.
(* equal preimages <-> equal views and hash types (fields in wire range) *)
Theorem C05_commitment : forall code t idx x ht code2 t2 idx2 x2 ht2,
  commit_ok code t idx x ht -> commit_ok code2 t2 idx2 x2 ht2 ->
  (idx < length (tx_vout t) \/ sh_single ht = false)%nat -> (idx2 < length (tx_vout t2) \/ sh_single ht2 = false)%nat ->
  (sighash_preimage code t idx x ht = sighash_preimage code2 t2 idx2 x2 ht2
   <-> sighash_view code t idx x ht = sighash_view code2 t2 idx2 x2 ht2 /\ ht = ht2).
Proof. exact commit_iff. Qed.

(* the catalogue, read off the view *)
Theorem C05_uncommitted_scriptsig_witness : forall code t idx x ht t2 x2,
  tx_version t2 = tx_version t -> tx_lock t2 = tx_lock t -> tx_vout t2 = tx_vout t ->
  Forall2 (fun a b => ti_prevout a = ti_prevout b /\ ti_seq a = ti_seq b) (tx_vin t) (tx_vin t2) ->
  ti_prevout x2 = ti_prevout x -> ti_seq x2 = ti_seq x ->
  sighash_view code t2 idx x2 ht = sighash_view code t idx x ht.
Proof. exact uncommitted_scriptsig_witness. Qed.
Theorem C05_uncommitted_other_inputs_anyonecanpay : forall code t idx x ht vin2 idx2,
  sh_anyone ht = true -> sh_single ht = false ->
  sighash_view code {| tx_version := tx_version t; tx_vin := vin2; tx_vout := tx_vout t; tx_wit := tx_wit t; tx_lock := tx_lock t |} idx2 x ht
  = sighash_view code t idx x ht.
Proof. exact uncommitted_other_inputs. Qed.
Theorem C05_uncommitted_outputs_none : forall code t idx x ht vout2,
  sh_none ht = true ->
  sighash_view code {| tx_version := tx_version t; tx_vin := tx_vin t; tx_vout := vout2; tx_wit := tx_wit t; tx_lock := tx_lock t |} idx x ht
  = sighash_view code t idx x ht.
Proof. exact uncommitted_outputs_none. Qed.
Theorem C05_uncommitted_outputs_single : forall code t idx x ht vout2,
  sh_single ht = true -> length (firstn (S idx) vout2) = length (firstn (S idx) (tx_vout t)) ->
  nth_error vout2 idx = nth_error (tx_vout t) idx ->
  sighash_view code {| tx_version := tx_version t; tx_vin := tx_vin t; tx_vout := vout2; tx_wit := tx_wit t; tx_lock := tx_lock t |} idx x ht
  = sighash_view code t idx x ht.
Proof. exact uncommitted_outputs_single. Qed.
Theorem C05_committed_always : forall code t idx x ht code2 t2 idx2 x2,
  sighash_view code t idx x ht = sighash_view code2 t2 idx2 x2 ht ->
  nth_error (tx_vin t) idx = Some x -> nth_error (tx_vin t2) idx2 = Some x2 -> sh_anyone ht = true ->
  tx_version t = tx_version t2 /\ tx_lock t = tx_lock t2 /\ ti_prevout x = ti_prevout x2 /\ ti_seq x = ti_seq x2 /\
  strip_codesep code = strip_codesep code2.
Proof. exact committed_always. Qed.

Example C05_nonvacuous :
  let x := {| ti_prevout := {| op_hash := repeat x44 32; op_n := 1 |}; ti_script := [x51]; ti_seq := 5 |} in
  let y := {| ti_prevout := {| op_hash := repeat x55 32; op_n := 0 |}; ti_script := []; ti_seq := 9 |} in
  let o := {| to_value := 7; to_script := [x51] |} in
  let t := {| tx_version := 1; tx_vin := [y; x]; tx_vout := [o; o]; tx_wit := []; tx_lock := 0 |} in
  (* SINGLE|ANYONECANPAY: the position of the signed input is committed through the output count *)
  sighash_preimage [xac] t 1 x 0x83
  = sighash_preimage [xac] {| tx_version := 1; tx_vin := [x]; tx_vout := [{| to_value := 99; to_script := [] |}; o; o; o]; tx_wit := [[[x01]]]; tx_lock := 0 |} 0 x 0x83
  -> False.
Proof. vm_compute. discriminate. Qed.

Print Assumptions C05_noninterference.
Print Assumptions C05_preimage_is_view.
Print Assumptions C05_commitment.
Print Assumptions C05_uncommitted_scriptsig_witness.
Print Assumptions C05_uncommitted_other_inputs_anyonecanpay.
Print Assumptions C05_uncommitted_outputs_none.
Print Assumptions C05_uncommitted_outputs_single.
Print Assumptions C05_committed_always.
