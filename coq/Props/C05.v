(* Props/C05.v – Signed inputs verify; exactly what the hash type commits to is protected.
   What is a theorem and what is cryptography is kept apart:
   (a) non-interference – script verification depends on the spending transaction only
       through the signature-check oracle;
   (b) commitment – the legacy sighash preimage (Spec/Sighash.v; equal to what the library
       hashes by C03) determines, and is determined by, the "committed view" of the
       transaction (Spec/Commit.v) and the hash type: edits that leave the view unchanged
       leave the digest unchanged whatever the hash function, edits that change the view
       change the preimage, so a still-accepting verification would need a hash collision
       on two explicit strings or one signature valid for two digests;
   (c) acceptance of a correctly signed P2PK / P2PKH / bare m-of-n multisig / P2SH-wrapped input is
       a theorem (C05_accept_*, below the commitment theorems): VerifyScript of the MODEL, with the
       real oracle (RawSignatureHash + CECKey.verify over any curve satisfying curve_laws), returns
       normally.  Rejection of foreign keys is checked by the correspondence run on the concrete
       curve (IMPL = MODEL = SPEC prediction), not proved (see PARTIAL in tools/props/C05.py). *)
From BV Require Import Common.Base Common.Tx Common.ScriptFlags Gen.Core Spec.Wire Spec.Sighash Spec.Commit Spec.ScriptRef
  Model.ScriptEval Proofs.Commit.

Theorem C05_noninterference : forall cs1 cs2 r s1 s2 fl a b,
  (forall sig pk code, cs1 sig pk code = cs2 sig pk code) ->
  verify_script cs1 r s1 s2 fl a b = verify_script cs2 r s1 s2 fl a b /\
  verify_ref cs1 r s1 s2 fl a b = verify_ref cs2 r s1 s2 fl a b.
Proof. exact verify_oracle_ext. Qed.

(* the preimage is the stripped wire form of the committed view followed by the hash type *)
Theorem C05_preimage_is_view : forall code t idx x ht,
  (idx < length (tx_vout t) \/ sh_single ht = false)%nat ->
  sighash_preimage code t idx x ht = wire_tx_stripped (sighash_view code t idx x ht) ++ i 4 ht.
Proof. exact preimage_view. Qed.
(* equal preimages <-> equal views and hash types (fields in wire range) *)
Theorem C05_commitment : forall code t idx x ht code2 t2 idx2 x2 ht2,
  commit_ok code t idx x ht -> commit_ok code2 t2 idx2 x2 ht2 ->
  (idx < length (tx_vout t) \/ sh_single ht = false)%nat -> (idx2 < length (tx_vout t2) \/ sh_single ht2 = false)%nat ->
  (sighash_preimage code t idx x ht = sighash_preimage code2 t2 idx2 x2 ht2
   <-> sighash_view code t idx x ht = sighash_view code2 t2 idx2 x2 ht2 /\ ht = ht2).
Proof. exact commit_iff. Qed.

(* the catalogue, read off the view *)
Theorem C05_uncommitted_scriptsig_witness : forall code t idx x ht t2 x2,
  tx_version t2 = tx_version t -> tx_lock t2 = tx_lock t -> tx_vout t2 = tx_vout t ->
  Forall2 (fun a b => ti_prevout a = ti_prevout b /\ ti_seq a = ti_seq b) (tx_vin t) (tx_vin t2) ->
  ti_prevout x2 = ti_prevout x -> ti_seq x2 = ti_seq x ->
  sighash_view code t2 idx x2 ht = sighash_view code t idx x ht.
Proof. exact uncommitted_scriptsig_witness. Qed.
Theorem C05_uncommitted_other_inputs_anyonecanpay : forall code t idx x ht vin2 idx2,
  sh_anyone ht = true -> sh_single ht = false ->
  sighash_view code {| tx_version := tx_version t; tx_vin := vin2; tx_vout := tx_vout t; tx_wit := tx_wit t; tx_lock := tx_lock t |} idx2 x ht
  = sighash_view code t idx x ht.
Proof. exact uncommitted_other_inputs. Qed.
Theorem C05_uncommitted_outputs_none : forall code t idx x ht vout2,
  sh_none ht = true ->
  sighash_view code {| tx_version := tx_version t; tx_vin := tx_vin t; tx_vout := vout2; tx_wit := tx_wit t; tx_lock := tx_lock t |} idx x ht
  = sighash_view code t idx x ht.
Proof. exact uncommitted_outputs_none. Qed.
Theorem C05_uncommitted_outputs_single : forall code t idx x ht vout2,
  sh_single ht = true -> length (firstn (S idx) vout2) = length (firstn (S idx) (tx_vout t)) ->
  nth_error vout2 idx = nth_error (tx_vout t) idx ->
  sighash_view code {| tx_version := tx_version t; tx_vin := tx_vin t; tx_vout := vout2; tx_wit := tx_wit t; tx_lock := tx_lock t |} idx x ht
  = sighash_view code t idx x ht.
Proof. exact uncommitted_outputs_single. Qed.
Theorem C05_committed_always : forall code t idx x ht code2 t2 idx2 x2,
  sighash_view code t idx x ht = sighash_view code2 t2 idx2 x2 ht ->
  nth_error (tx_vin t) idx = Some x -> nth_error (tx_vin t2) idx2 = Some x2 -> sh_anyone ht = true ->
  tx_version t = tx_version t2 /\ tx_lock t = tx_lock t2 /\ ti_prevout x = ti_prevout x2 /\ ti_seq x = ti_seq x2 /\
  strip_codesep code = strip_codesep code2.
Proof. exact committed_always. Qed.

Example C05_nonvacuous :
  let x := {| ti_prevout := {| op_hash := repeat x44 32; op_n := 1 |}; ti_script := [x51]; ti_seq := 5 |} in
  let y := {| ti_prevout := {| op_hash := repeat x55 32; op_n := 0 |}; ti_script := []; ti_seq := 9 |} in
  let o := {| to_value := 7; to_script := [x51] |} in
  let t := {| tx_version := 1; tx_vin := [y; x]; tx_vout := [o; o]; tx_wit := []; tx_lock := 0 |} in
  (* SINGLE|ANYONECANPAY: the position of the signed input is committed through the output count *)
  sighash_preimage [xac] t 1 x 0x83
  = sighash_preimage [xac] {| tx_version := 1; tx_vin := [x]; tx_vout := [{| to_value := 99; to_script := [] |}; o; o; o]; tx_wit := [[[x01]]]; tx_lock := 0 |} 0 x 0x83
  -> False.
Proof. vm_compute. discriminate. Qed.

(* ---------- acceptance of signed inputs (first clause of the property) ---------- *)
From BV Require Import Gen.Key Model.Script Model.Sighash Model.SigCheck Model.Key Spec.Base58 Spec.Ecdsa Spec.Der
  Model.Secp256k1 Proofs.Accept Proofs.AcceptMulti Proofs.AcceptBuild.
(* Reading guide.  E : any group with curve_laws E whose order is the one the library's low-S
   table belongs to; H = bitcoin.core.Hash (any function with 32-byte outputs); ripemd160 / sha1 /
   sha256 = the interpreter's hash functions (any functions with outputs shorter than 2^31
   bytes); fl = any flag set in which CLEANSTACK comes with P2SH (VerifyScript asserts it).
   t = the transaction that was hashed, t' = the transaction that is verified: equal except
   for scriptSigs and witness (in particular t with the new scriptSig installed).
   idx = the input index (any Python int for which SignatureHash returns: the hypothesis
   `signature_hash ... = Ok h` excludes exactly the inputs on which the library's SignatureHash
   raises, e.g. SIGHASH_SINGLE without a matching output); ht = the hash type byte, all 256;
   d = the secret, k = ECDSA's nonce (any usable one: 1 <= k < n, r <> 0, s <> 0);
   pkb = any byte string that o2i_ECPublicKey decodes to d G (compressed, uncompressed, hybrid);
   ref_push x = the bytes of `CScript([x])` (C08).  The signature pushed is CECKey.sign's output
   followed by the hash type byte. *)
Theorem C05_accept_p2pk : forall H E, curve_laws E -> c_n E < 2 ^ 256 ->
  value_msb 256 max_mod_half_order = c_n E / 2 -> (forall b, length (H b) = 32%nat) ->
  forall ripemd160 sha1 sha256 : bytes -> bytes,
  (forall x, lenZ (ripemd160 x) < 2^31 /\ lenZ (sha1 x) < 2^31 /\ lenZ (sha256 x) < 2^31) ->
  forall fl, (f_cleanstack fl = true -> f_p2sh fl = true) ->
  forall t t' idx ht d k pkb h,
  0 <= ht < 256 -> sec1_dec E pkb = Some (pub E d) ->
  signature_hash H (ref_push pkb ++ [xac]) t idx ht = Ok h ->        (* <pubkey> OP_CHECKSIG *)
  valid_nonce E d (be_dec h) k ->
  (tx_version t' = tx_version t /\ tx_lock t' = tx_lock t /\ tx_vout t' = tx_vout t /\
   Forall2 (fun a b => ti_prevout a = ti_prevout b /\ ti_seq a = ti_seq b) (tx_vin t) (tx_vin t')) ->
  exists sigder, cec_sign E d h k = Ok sigder /\
    verify_script (real_checksig H E t' idx) ripemd160 sha1 sha256 fl
      (ref_push (sigder ++ [z2b ht])) (ref_push pkb ++ [xac]) = Ok tt.
Proof. exact accept_p2pk. Qed.
(* P2PKH: OP_DUP OP_HASH160 <hash160(pubkey)> OP_EQUALVERIFY OP_CHECKSIG, scriptSig <sig> <pubkey>.
   Extra hypothesis, genuinely needed: sig||hashtype is not equal to the 20-byte key hash (the
   interpreter's FindAndDelete(subscript, <push sig>) would otherwise delete the hash push from
   the subscript that is hashed; DER does not exclude a 20-byte sig||hashtype). *)
Theorem C05_accept_p2pkh : forall H E, curve_laws E -> c_n E < 2 ^ 256 ->
  value_msb 256 max_mod_half_order = c_n E / 2 -> (forall b, length (H b) = 32%nat) ->
  forall ripemd160 sha1 sha256 : bytes -> bytes,
  (forall x, lenZ (ripemd160 x) < 2^31 /\ lenZ (sha1 x) < 2^31 /\ lenZ (sha256 x) < 2^31) ->
  forall fl, (f_cleanstack fl = true -> f_p2sh fl = true) ->
  forall t t' idx ht d k pkb h,
  let hh := ripemd160 (sha256 pkb) in
  let spk := [x76; xa9] ++ ref_push hh ++ [x88; xac] in
  0 <= ht < 256 -> sec1_dec E pkb = Some (pub E d) -> length hh = 20%nat ->
  signature_hash H spk t idx ht = Ok h ->
  valid_nonce E d (be_dec h) k ->
  (tx_version t' = tx_version t /\ tx_lock t' = tx_lock t /\ tx_vout t' = tx_vout t /\
   Forall2 (fun a b => ti_prevout a = ti_prevout b /\ ti_seq a = ti_seq b) (tx_vin t) (tx_vin t')) ->
  exists sigder, cec_sign E d h k = Ok sigder /\
    (sigder ++ [z2b ht] <> hh ->
     verify_script (real_checksig H E t' idx) ripemd160 sha1 sha256 fl
       (ref_push (sigder ++ [z2b ht]) ++ ref_push pkb) spk = Ok tt).
Proof. exact accept_p2pkh. Qed.
(* the public-key hypothesis holds for the encodings CECKey.get_pubkey produces: compressed from
   the group laws alone; uncompressed when c_affine (which curve_laws does not specify) returns
   the point with the given coordinates *)
Theorem C05_pubkey_compressed : forall E, curve_laws E -> c_p E <= 2 ^ 256 -> forall d, 1 <= d < c_n E ->
  sec1_dec E (sec1_enc E Compressed (pub E d)) = Some (pub E d).
Proof. exact (fun E L P d R => sec1_dec_enc_compressed E L (pub E d) P (pub_nonzero E L d R)). Qed.
Theorem C05_pubkey_uncompressed : forall E, curve_laws E -> c_p E <= 2 ^ 256 -> forall d, 1 <= d < c_n E ->
  0 <= c_y E (pub E d) < 2 ^ 256 -> c_affine E (c_x E (pub E d)) (c_y E (pub E d)) = Some (pub E d) ->
  sec1_dec E (sec1_enc E Uncompressed (pub E d)) = Some (pub E d).
Proof. exact (fun E L P d R => sec1_dec_enc_uncompressed E L (pub E d) P (pub_nonzero E L d R)). Qed.

(* the same with the key object's own compressed public key (CECKey.get_pubkey, C13_pubkey): no
   hypothesis on the encoding is left *)
Theorem C05_accept_p2pk_compressed : forall H E, curve_laws E -> c_n E < 2 ^ 256 -> c_p E <= 2 ^ 256 ->
  value_msb 256 max_mod_half_order = c_n E / 2 -> (forall b, length (H b) = 32%nat) ->
  forall ripemd160 sha1 sha256 : bytes -> bytes,
  (forall x, lenZ (ripemd160 x) < 2^31 /\ lenZ (sha1 x) < 2^31 /\ lenZ (sha256 x) < 2^31) ->
  forall fl, (f_cleanstack fl = true -> f_p2sh fl = true) ->
  forall t t' idx ht d k h,
  let pkb := sec1_enc E Compressed (pub E d) in
  0 <= ht < 256 -> 1 <= d < c_n E ->
  signature_hash H (p2pk_script pkb) t idx ht = Ok h -> valid_nonce E d (be_dec h) k -> unsigned_eq t t' ->
  exists sigder, cec_sign E d h k = Ok sigder /\
    verify_script (real_checksig H E t' idx) ripemd160 sha1 sha256 fl
      (ref_push (sigder ++ [z2b ht])) (p2pk_script pkb) = Ok tt.
Proof. exact accept_p2pk_compressed. Qed.
Theorem C05_accept_p2pkh_compressed : forall H E, curve_laws E -> c_n E < 2 ^ 256 -> c_p E <= 2 ^ 256 ->
  value_msb 256 max_mod_half_order = c_n E / 2 -> (forall b, length (H b) = 32%nat) ->
  forall ripemd160 sha1 sha256 : bytes -> bytes,
  (forall x, lenZ (ripemd160 x) < 2^31 /\ lenZ (sha1 x) < 2^31 /\ lenZ (sha256 x) < 2^31) ->
  forall fl, (f_cleanstack fl = true -> f_p2sh fl = true) ->
  forall t t' idx ht d k h,
  let pkb := sec1_enc E Compressed (pub E d) in let hh := ripemd160 (sha256 pkb) in
  0 <= ht < 256 -> 1 <= d < c_n E -> length hh = 20%nat ->
  signature_hash H (p2pkh_script hh) t idx ht = Ok h -> valid_nonce E d (be_dec h) k -> unsigned_eq t t' ->
  exists sigder, cec_sign E d h k = Ok sigder /\
    (sigder ++ [z2b ht] <> hh ->
     verify_script (real_checksig H E t' idx) ripemd160 sha1 sha256 fl
       (ref_push (sigder ++ [z2b ht]) ++ ref_push pkb) (p2pkh_script hh) = Ok tt).
Proof. exact accept_p2pkh_compressed. Qed.

(* ---------- bare m-of-n multisig and P2SH ---------- *)
(* the names used below, spelled out *)
Theorem C05_accept_defs :
  (forall ds, pushes ds = concat (map ref_push ds)) /\
  (forall pkb, p2pk_script pkb = ref_push pkb ++ [xac]) /\
  (forall kh, p2pkh_script kh = [x76; xa9] ++ ref_push kh ++ [x88; xac]) /\
  (forall hh, p2sh_script hh = [xa9] ++ ref_push hh ++ [x87]) /\
  (forall m pks, multisig_script m pks = [z2b (0x50 + m)] ++ pushes pks ++ [z2b (0x50 + lenZ pks); xae]) /\
  (forall t t', unsigned_eq t t' <->
     tx_version t' = tx_version t /\ tx_lock t' = tx_lock t /\ tx_vout t' = tx_vout t /\
     Forall2 (fun a b => ti_prevout a = ti_prevout b /\ ti_seq a = ti_seq b) (tx_vin t) (tx_vin t')) /\
  (* "sg is a library signature for input idx of t, subscript code, under the key pk encodes" *)
  (forall H E code t idx sg pk, lib_signed H E code t idx sg pk <->
     exists d k ht h sigder, 0 <= ht < 256 /\ sec1_dec E pk = Some (pub E d) /\
       signature_hash H code t idx ht = Ok h /\ valid_nonce E d (be_dec h) k /\
       cec_sign E d h k = Ok sigder /\ sg = sigder ++ [z2b ht]).
Proof. exact accept_defs. Qed.
(* ... and they are what the MODEL of the library's CScript([...]) constructor builds (C08):
   CScript([pubkey, OP_CHECKSIG]), CScript([OP_DUP, OP_HASH160, h, OP_EQUALVERIFY, OP_CHECKSIG]),
   CScript([OP_HASH160, h, OP_EQUAL]), CScript([m, pk_1, .., pk_n, n, OP_CHECKMULTISIG]),
   CScript([x_1, .., x_k]) and CScript([OP_0, sig_1, ..]) *)
Theorem C05_templates_built :
  (forall pkb : bytes, lenZ pkb < 2^32 -> build [TBytes pkb; TOp OP_CHECKSIG] = Ok (p2pk_script pkb)) /\
  (forall kh : bytes, lenZ kh < 2^32 ->
     build [TOp OP_DUP; TOp OP_HASH160; TBytes kh; TOp OP_EQUALVERIFY; TOp OP_CHECKSIG] = Ok (p2pkh_script kh)) /\
  (forall hh : bytes, lenZ hh < 2^32 -> build [TOp OP_HASH160; TBytes hh; TOp OP_EQUAL] = Ok (p2sh_script hh)) /\
  (forall (m : Z) (pks : list bytes), 1 <= m <= 16 -> 1 <= lenZ pks <= 16 -> Forall (fun d => lenZ d < 2^32) pks ->
     build ([TInt m] ++ map TBytes pks ++ [TInt (lenZ pks); TOp OP_CHECKMULTISIG]) = Ok (multisig_script m pks)) /\
  (forall ds : list bytes, Forall (fun d => lenZ d < 2^32) ds -> build (map TBytes ds) = Ok (pushes ds)) /\
  (forall ds : list bytes, Forall (fun d => lenZ d < 2^32) ds -> build (TOp OP_0 :: map TBytes ds) = Ok (pushes ([] :: ds))).
Proof. exact templates_built. Qed.
(* in_order R sigs keys (Proofs/AcceptMulti.v): the signatures, in scriptSig order, are R-related to
   an order-preserving selection of the keys, in scriptPubKey order:
     in_order R [] keys;   R sg k -> in_order R sigs keys -> in_order R (sg :: sigs) (k :: keys);
     in_order R sigs keys -> in_order R sigs (k :: keys).
   OP_m <pk_1> .. <pk_n> OP_n OP_CHECKMULTISIG with m = the number of signatures, 1 <= m <= n <= 16,
   every listed key decodable; scriptSig OP_0 <sig_1> .. <sig_m>; each signer may use his own hash
   type and nonce *)
Theorem C05_accept_multisig : forall H E, curve_laws E -> c_n E < 2 ^ 256 ->
  value_msb 256 max_mod_half_order = c_n E / 2 -> (forall b, length (H b) = 32%nat) ->
  forall ripemd160 sha1 sha256 : bytes -> bytes,
  (forall x, lenZ (ripemd160 x) < 2^31 /\ lenZ (sha1 x) < 2^31 /\ lenZ (sha256 x) < 2^31) ->
  forall fl, (f_cleanstack fl = true -> f_p2sh fl = true) ->
  forall (sigs pks : list bytes) t t' idx,
  let spk := multisig_script (lenZ sigs) pks in
  1 <= lenZ sigs -> lenZ pks <= 16 ->
  Forall (fun pk => exists Q : pt E, sec1_dec E pk = Some Q) pks ->
  in_order (lib_signed H E spk t idx) sigs pks -> unsigned_eq t t' ->
  verify_script (real_checksig H E t' idx) ripemd160 sha1 sha256 fl (pushes ([] :: sigs)) spk = Ok tt.
Proof. exact accept_multisig. Qed.
(* P2SH: scriptPubKey OP_HASH160 <hash160 redeem> OP_EQUAL; scriptSig = the inner scriptSig followed
   by <redeem>; the signer hashes with the REDEEM script as subscript.  With the P2SH flag the redeem
   script is run (and CLEANSTACK holds); without it only the hash comparison is. *)
Theorem C05_accept_p2sh_p2pk : forall H E, curve_laws E -> c_n E < 2 ^ 256 ->
  value_msb 256 max_mod_half_order = c_n E / 2 -> (forall b, length (H b) = 32%nat) ->
  forall ripemd160 sha1 sha256 : bytes -> bytes,
  (forall x, lenZ (ripemd160 x) < 2^31 /\ lenZ (sha1 x) < 2^31 /\ lenZ (sha256 x) < 2^31) ->
  forall fl, (f_cleanstack fl = true -> f_p2sh fl = true) ->
  forall t t' idx ht d k pkb h,
  let rs := p2pk_script pkb in let hh := ripemd160 (sha256 rs) in
  0 <= ht < 256 -> sec1_dec E pkb = Some (pub E d) -> length hh = 20%nat ->
  signature_hash H rs t idx ht = Ok h -> valid_nonce E d (be_dec h) k -> unsigned_eq t t' ->
  exists sigder, cec_sign E d h k = Ok sigder /\
    verify_script (real_checksig H E t' idx) ripemd160 sha1 sha256 fl
      (pushes [sigder ++ [z2b ht]; rs]) (p2sh_script hh) = Ok tt.
Proof. exact accept_p2sh_p2pk. Qed.
Theorem C05_accept_p2sh_p2pkh : forall H E, curve_laws E -> c_n E < 2 ^ 256 ->
  value_msb 256 max_mod_half_order = c_n E / 2 -> (forall b, length (H b) = 32%nat) ->
  forall ripemd160 sha1 sha256 : bytes -> bytes,
  (forall x, lenZ (ripemd160 x) < 2^31 /\ lenZ (sha1 x) < 2^31 /\ lenZ (sha256 x) < 2^31) ->
  forall fl, (f_cleanstack fl = true -> f_p2sh fl = true) ->
  forall t t' idx ht d k pkb h,
  let kh := ripemd160 (sha256 pkb) in let rs := p2pkh_script kh in let hh := ripemd160 (sha256 rs) in
  0 <= ht < 256 -> sec1_dec E pkb = Some (pub E d) -> length kh = 20%nat -> length hh = 20%nat ->
  signature_hash H rs t idx ht = Ok h -> valid_nonce E d (be_dec h) k -> unsigned_eq t t' ->
  exists sigder, cec_sign E d h k = Ok sigder /\
    (sigder ++ [z2b ht] <> kh ->
     verify_script (real_checksig H E t' idx) ripemd160 sha1 sha256 fl
       (pushes [sigder ++ [z2b ht]; pkb; rs]) (p2sh_script hh) = Ok tt).
Proof. exact accept_p2sh_p2pkh. Qed.
(* the redeem script must fit one push (520 bytes: up to 15 compressed / 7 uncompressed keys) *)
Theorem C05_accept_p2sh_multisig : forall H E, curve_laws E -> c_n E < 2 ^ 256 ->
  value_msb 256 max_mod_half_order = c_n E / 2 -> (forall b, length (H b) = 32%nat) ->
  forall ripemd160 sha1 sha256 : bytes -> bytes,
  (forall x, lenZ (ripemd160 x) < 2^31 /\ lenZ (sha1 x) < 2^31 /\ lenZ (sha256 x) < 2^31) ->
  forall fl, (f_cleanstack fl = true -> f_p2sh fl = true) ->
  forall (sigs pks : list bytes) t t' idx,
  let rs := multisig_script (lenZ sigs) pks in let hh := ripemd160 (sha256 rs) in
  1 <= lenZ sigs -> lenZ pks <= 16 -> lenZ rs <= 520 -> length hh = 20%nat ->
  Forall (fun pk => exists Q : pt E, sec1_dec E pk = Some Q) pks ->
  in_order (lib_signed H E rs t idx) sigs pks -> unsigned_eq t t' ->
  verify_script (real_checksig H E t' idx) ripemd160 sha1 sha256 fl
    (pushes (([] :: sigs) ++ [rs])) (p2sh_script hh) = Ok tt.
Proof. exact accept_p2sh_multisig. Qed.

(* non-vacuity of C05_accept_*: every hypothesis except curve_laws (not proved for the executable
   curve, see Props/C13.v) holds on secp256k1 for secret 1, nonce 2, input 1 of a 2-in/2-out
   transaction, SIGHASH_SINGLE|ANYONECANPAY, with toy hash functions of the right output lengths *)
Example C05_accept_nonvacuous :
  let H := toy_hash 32 in let r160 := toy_hash 20 in let s256 := toy_hash 32 in
  let E := secp256k1 in let d := 1 in let k := 2 in let ht := 0x83 in let idx := 1 in
  (forall b, length (H b) = 32%nat) /\
  (forall x, lenZ (r160 x) < 2^31 /\ lenZ (s256 x) < 2^31 /\ lenZ (s256 x) < 2^31) /\
  c_n E < 2 ^ 256 /\ value_msb 256 max_mod_half_order = c_n E / 2 /\
  sec1_dec E ex_pk = Some (pub E d) /\ length (r160 (s256 ex_pk)) = 20%nat /\
  (exists h sigder, signature_hash H (ref_push ex_pk ++ [xac]) (ex_tx []) idx ht = Ok h /\ valid_nonce E d (be_dec h) k /\
     cec_sign E d h k = Ok sigder /\ unsigned_eq (ex_tx []) (ex_tx (ref_push (sigder ++ [z2b ht])))) /\
  (exists h sigder, signature_hash H ([x76; xa9] ++ ref_push (r160 (s256 ex_pk)) ++ [x88; xac]) (ex_tx []) idx ht = Ok h /\
     valid_nonce E d (be_dec h) k /\
     cec_sign E d h k = Ok sigder /\ sigder ++ [z2b ht] <> r160 (s256 ex_pk) /\
     unsigned_eq (ex_tx []) (ex_tx (ref_push (sigder ++ [z2b ht]) ++ ref_push ex_pk))).
Proof. exact accept_hyps_satisfiable. Qed.

(* 2-of-3 multisig on secp256k1, signed by the first and third key (secrets 1 and 3) *)
Example C05_accept_multisig_nonvacuous :
  let H := toy_hash 32 in let r160 := toy_hash 20 in let s256 := toy_hash 32 in
  let spk := multisig_script 2 ex_pks in
  Forall (fun pk => exists Q : pt secp256k1, sec1_dec secp256k1 pk = Some Q) ex_pks /\
  lenZ spk <= 520 /\ length (r160 (s256 spk)) = 20%nat /\
  exists sigs : list bytes, lenZ sigs = 2 /\ in_order (lib_signed H secp256k1 spk (ex_tx []) 1) sigs ex_pks /\
    unsigned_eq (ex_tx []) (ex_tx (pushes ([] :: sigs))).
Proof. exact accept_multisig_hyps_satisfiable. Qed.

Print Assumptions C05_noninterference.
Print Assumptions C05_preimage_is_view.
Print Assumptions C05_commitment.
Print Assumptions C05_uncommitted_scriptsig_witness.
Print Assumptions C05_uncommitted_other_inputs_anyonecanpay.
Print Assumptions C05_uncommitted_outputs_none.
Print Assumptions C05_uncommitted_outputs_single.
Print Assumptions C05_committed_always.
Print Assumptions C05_accept_p2pk.
Print Assumptions C05_accept_p2pkh.
Print Assumptions C05_pubkey_compressed.
Print Assumptions C05_pubkey_uncompressed.
Print Assumptions C05_accept_defs.
Print Assumptions C05_accept_multisig.
Print Assumptions C05_accept_p2sh_p2pk.
Print Assumptions C05_accept_p2sh_p2pkh.
Print Assumptions C05_accept_p2sh_multisig.
Print Assumptions C05_templates_built.
Print Assumptions C05_accept_p2pk_compressed.
Print Assumptions C05_accept_p2pkh_compressed.
