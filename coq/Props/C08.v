(* placeholder while the proofs are being written *)
From BV Require Import Common.Base.
Theorem C08_placeholder : True. Proof. exact I. Qed.
Print Assumptions C08_placeholder.
