(* Props/C08.v – Script building, tokenising, number codec, classification predicates and
   signature-operation counts.  Statements only; every proof is [exact <lemma>].
   MODEL = Model/Script.v (code style, the tree after the fix of F1), SPEC = Spec/Script.v
   (Bitcoin Core GetOp / CScriptNum / IsPushOnly / HasCanonicalPushes / IsPayToScriptHash /
   IsWitnessProgram / GetSigOpCount, protocol opcode numbers as literals).  The opcode
   numbers and function-local literals the MODEL uses are regenerated from /repo into
   Gen/ScriptConsts.v on every run, so these theorems are re-checked against them. *)
From BV Require Import Common.Base Model.Script Spec.Script.
From BV Require Import Proofs.ScriptNum Proofs.ScriptIter Proofs.ScriptBuild Proofs.ScriptPred.

(* ===== 1. building, iterating, rebuilding ======================================== *)
(* tok_ok: CScriptOp values 0x4f..0xff, any integer (whose minimal encoding is shorter than
   2^32 bytes), any byte string shorter than 2^32 bytes *)

(* building emits integers as OP_0..OP_16 / OP_1NEGATE or minimal script-number pushes and
   byte strings under the shortest push opcode for their length *)
Theorem C08_build : forall toks, Forall tok_ok toks -> build toks = Ok (toks_enc toks).
Proof. exact build_spec. Qed.
(* iterating over the built script returns the corresponding sequence: opcodes, 0..16 as
   integers, the empty string as 0, every other push as its bytes *)
Theorem C08_iter_of_build : forall toks, Forall tok_ok toks ->
  exists s, build toks = Ok s /\ s = toks_enc toks /\ script_iter s = (canon toks, None).
Proof. exact iter_of_build. Qed.
(* rebuilding from that sequence reproduces the same bytes *)
Theorem C08_rebuild : forall toks, Forall tok_ok toks -> build (canon toks) = build toks.
Proof. exact rebuild_same. Qed.
(* ... and iterating again returns the same sequence (canon is a normal form) *)
Theorem C08_iter_rebuild : forall toks, Forall tok_ok toks ->
  forall s, build (canon toks) = Ok s -> script_iter s = (canon toks, None).
Proof. exact iter_rebuild. Qed.
(* script + token = building the longer list *)
Theorem C08_add : forall toks t, Forall tok_ok toks -> tok_ok t ->
  build (toks ++ [t]) = (do s <- build toks; script_add s t).
Proof. exact build_add. Qed.
(* the only way encode_op_pushdata fails is a string of 2^32 bytes or more *)
Theorem C08_pushdata : forall d,
  encode_op_pushdata d = if lenZ d <? 2^32 then Ok (push_enc d) else Err ValueError.
Proof. exact encode_op_pushdata_spec. Qed.
(* cooked iteration of EVERY byte string = the reference walk (tokens yielded, then the
   exception, if any) *)
Theorem C08_iter_ref : forall s, script_iter s = ref_iter s.
Proof. exact script_iter_ref. Qed.

(* ===== 2. raw iteration ============================================================ *)
(* raw_iter = walking the script with Bitcoin Core's GetOp, on every byte string: the same
   operations with the same offsets, and the same point of failure *)
Theorem C08_raw_iter_ref : forall s, raw_iter s = ref_parse s.
Proof. exact raw_iter_ref. Qed.
(* the operations yielded are well formed, their sop_idx are consecutive offsets, their
   byte ranges concatenate back to the script (up to `rest`); it ends without exception
   only at the end of the script, and an exception is a CScriptInvalidError raised exactly
   where a push overruns the script *)
Theorem C08_raw_iter_partition : forall s ops e, raw_iter s = (ops, e) ->
  Forall sop_wf ops /\ consecutive 0 ops /\
  exists rest, s = ops_bytes ops ++ rest /\
    (e = None -> rest = []) /\
    (forall x, e = Some x -> is_script_err x = true /\ overrun rest).
Proof. exact raw_iter_sound. Qed.
(* never mis-parses: any sequence of well-formed operations, optionally followed by an
   overrunning push, is recovered exactly *)
Theorem C08_raw_iter_exact : forall ops rest,
  Forall sop_wf ops -> consecutive 0 ops -> (rest = [] \/ overrun rest) ->
  exists e, raw_iter (ops_bytes ops ++ rest) = (ops, e) /\
            (rest = [] -> e = None) /\
            (overrun rest -> exists x, e = Some x /\ is_script_err x = true).
Proof. exact raw_iter_complete. Qed.
Theorem C08_raw_iter_ok_iff : forall s, snd (raw_iter s) = None <->
  exists ops, Forall sop_wf ops /\ consecutive 0 ops /\ s = ops_bytes ops.
Proof. exact raw_iter_ok_iff. Qed.
Theorem C08_raw_iter_fail_iff : forall s, (exists x, snd (raw_iter s) = Some x) <->
  exists ops rest, Forall sop_wf ops /\ consecutive 0 ops /\ s = ops_bytes ops ++ rest /\ overrun rest.
Proof. exact raw_iter_fail_iff. Qed.

(* ===== 3. script-number codec ====================================================== *)
(* MODEL (through the MPI detour) = CScriptNum serialize / set_vch, for every integer and
   every byte string; struct.pack(">I", n) with n >= 2^32 is the only failure *)
Theorem C08_bn2vch : forall v,
  bn2vch v = if lenZ (num_enc v) <? 2^32 then Ok (num_enc v) else Err StructError.
Proof. exact bn2vch_spec. Qed.
Theorem C08_vch2bn : forall b,
  vch2bn b = if lenZ b <? 2^32 then Ok (num_dec b) else Err StructError.
Proof. exact vch2bn_spec. Qed.
(* bijection between integers and minimal little-endian sign-magnitude strings *)
Theorem C08_num_dec_enc : forall v, num_dec (num_enc v) = v.
Proof. exact num_dec_enc. Qed.
Theorem C08_num_enc_minimal : forall v, num_minimal (num_enc v) = true.
Proof. exact num_enc_minimal. Qed.
Theorem C08_num_enc_dec_iff : forall b, num_enc (num_dec b) = b <-> num_minimal b = true.
Proof. exact num_enc_dec_iff. Qed.
(* the same on the MODEL *)
Theorem C08_vch2bn_bn2vch : forall v b, bn2vch v = Ok b -> vch2bn b = Ok v.
Proof. exact vch2bn_bn2vch. Qed.
Theorem C08_bn2vch_vch2bn : forall b v, vch2bn b = Ok v -> (bn2vch v = Ok b <-> num_minimal b = true).
Proof. exact bn2vch_vch2bn. Qed.

(* ===== 4. classification predicates, on EVERY byte string ========================== *)
Theorem C08_is_push_only : forall s, is_push_only s = Ok (ref_push_only s).
Proof. exact is_push_only_spec. Qed.
Theorem C08_has_canonical_pushes : forall s, has_canonical_pushes s = Ok (ref_canonical_pushes s).
Proof. exact has_canonical_pushes_spec. Qed.
Theorem C08_is_p2sh : forall s, is_p2sh s = Ok (ref_p2sh s).
Proof. exact is_p2sh_spec. Qed.
Theorem C08_p2sh_form : forall s, ref_p2sh s = true <->
  exists h, length h = 20%nat /\ s = xa9 :: x14 :: h ++ [x87].
Proof. exact ref_p2sh_iff. Qed.
(* the signed '<bb' unpack and the negative table index do not change the answer *)
Theorem C08_is_witness_scriptpubkey : forall s, is_witness_scriptpubkey s = Ok (ref_is_witness s).
Proof. exact is_witness_scriptpubkey_spec. Qed.
Theorem C08_witness_program_form : forall s v prog, ref_witness_program s = Some (v, prog) <->
  exists vb, s = vb :: z2b (lenZ prog) :: prog /\ 2 <= lenZ prog <= 40 /\
             ((b2z vb = 0 /\ v = 0) \/ (0x51 <= b2z vb <= 0x60 /\ v = b2z vb - 0x50)).
Proof. exact ref_witness_program_iff. Qed.
Theorem C08_witness_version : forall s v prog, ref_witness_program s = Some (v, prog) ->
  witness_version s = Ok (TInt v).
Proof. exact witness_version_spec. Qed.
Theorem C08_is_witness_v0_keyhash : forall s, is_witness_v0_keyhash s = ref_v0_keyhash s.
Proof. exact is_witness_v0_keyhash_spec. Qed.
Theorem C08_is_witness_v0_scripthash : forall s, is_witness_v0_scripthash s = ref_v0_scripthash s.
Proof. exact is_witness_v0_scripthash_spec. Qed.
Theorem C08_is_witness_v0_nested_keyhash : forall s, is_witness_v0_nested_keyhash s = ref_v0_nested_keyhash s.
Proof. exact is_witness_v0_nested_keyhash_spec. Qed.
Theorem C08_is_witness_v0_nested_scripthash : forall s, is_witness_v0_nested_scripthash s = ref_v0_nested_scripthash s.
Proof. exact is_witness_v0_nested_scripthash_spec. Qed.
Theorem C08_v0_keyhash_form : forall s, ref_v0_keyhash s = true <->
  exists h, length h = 20%nat /\ s = x00 :: x14 :: h.
Proof. exact ref_v0_keyhash_iff. Qed.
Theorem C08_v0_scripthash_form : forall s, ref_v0_scripthash s = true <->
  exists h, length h = 32%nat /\ s = x00 :: x20 :: h.
Proof. exact ref_v0_scripthash_iff. Qed.
Theorem C08_v0_forms_are_programs : forall s, ref_v0_keyhash s = true \/ ref_v0_scripthash s = true ->
  exists prog, ref_witness_program s = Some (0, prog).
Proof. exact v0_forms_are_programs. Qed.
Theorem C08_is_valid : forall s, is_valid s = Ok (parses s).
Proof. exact is_valid_spec. Qed.
Theorem C08_is_unspendable : forall s, is_unspendable s = Ok (ref_unspendable s).
Proof. exact is_unspendable_spec. Qed.

(* ===== 5. signature-operation counts (after the fix of F1) ========================== *)
Theorem C08_sigops : forall accurate s, get_sigop_count accurate s = Ok (ref_sigops accurate s).
Proof. exact get_sigop_count_spec. Qed.
(* counting stops at the first malformed push and keeps what was counted before it *)
Theorem C08_sigops_prefix : forall accurate ops rest,
  Forall sop_wf ops -> consecutive 0 ops -> overrun rest ->
  ref_sigops accurate (ops_bytes ops ++ rest) = ref_sigops accurate (ops_bytes ops).
Proof. exact ref_sigops_prefix. Qed.

(* non-vacuity: the hypotheses are met by concrete values and both outcomes occur; the two
   F1 inputs now give Core's answers *)
Example C08_nonvacuous :
  let pk := repeat x02 33 in
  let multisig := [x52; x21] ++ pk ++ [x21] ++ pk ++ [x52; xae] in
  build [TInt 2; TBytes pk; TBytes pk; TInt 2; TOp 0xae] = Ok multisig /\
  get_sigop_count true multisig = Ok 2 /\ get_sigop_count false multisig = Ok 20 /\
  get_sigop_count false [xac; x4c] = Ok 1 /\
  raw_iter [xac; x4c] = ([mk_sop 0xac None 0], Some InvalidScript) /\
  raw_iter [xac; x02; x01] = ([mk_sop 0xac None 0], Some TruncatedPush) /\ overrun [x02; x01] /\
  script_iter (toks_enc [TInt 1000; TBytes []; TInt (-1); TOp 0x51])
    = ([TBytes [xe8; x03]; TInt 0; TOp 0x4f; TInt 1], None) /\
  bn2vch (-255) = Ok [xff; x80] /\ vch2bn [xff; x80] = Ok (-255) /\
  num_minimal [xff; x00] = true /\ num_minimal [x7f; x00] = false /\ vch2bn [x7f; x00] = Ok 127 /\
  is_p2sh ([xa9; x14] ++ repeat x00 20 ++ [x87]) = Ok true /\
  is_witness_scriptpubkey ([x51; x02; x00; x00]) = Ok true /\
  is_witness_scriptpubkey ([xd1; x02; x00; x00]) = Ok false /\
  has_canonical_pushes [x01; x05] = Ok false /\ is_push_only [x01; x05; x60] = Ok true /\
  tok_ok (TInt (2^70)) /\ tok_ok (TOp 0xff) /\ tok_ok (TBytes (repeat x00 76)).
Proof.
  cbv zeta. repeat match goal with |- _ /\ _ => split end;
    try (vm_compute; reflexivity); try (vm_compute; intuition congruence).
  apply ov_direct; vm_compute; reflexivity.
Qed.

Print Assumptions C08_build.
Print Assumptions C08_iter_of_build.
Print Assumptions C08_rebuild.
Print Assumptions C08_iter_rebuild.
Print Assumptions C08_add.
Print Assumptions C08_pushdata.
Print Assumptions C08_iter_ref.
Print Assumptions C08_raw_iter_ref.
Print Assumptions C08_raw_iter_partition.
Print Assumptions C08_raw_iter_exact.
Print Assumptions C08_raw_iter_ok_iff.
Print Assumptions C08_raw_iter_fail_iff.
Print Assumptions C08_bn2vch.
Print Assumptions C08_vch2bn.
Print Assumptions C08_num_dec_enc.
Print Assumptions C08_num_enc_minimal.
Print Assumptions C08_num_enc_dec_iff.
Print Assumptions C08_vch2bn_bn2vch.
Print Assumptions C08_bn2vch_vch2bn.
Print Assumptions C08_is_push_only.
Print Assumptions C08_has_canonical_pushes.
Print Assumptions C08_is_p2sh.
Print Assumptions C08_p2sh_form.
Print Assumptions C08_is_witness_scriptpubkey.
Print Assumptions C08_witness_program_form.
Print Assumptions C08_witness_version.
Print Assumptions C08_is_witness_v0_keyhash.
Print Assumptions C08_is_witness_v0_scripthash.
Print Assumptions C08_is_witness_v0_nested_keyhash.
Print Assumptions C08_is_witness_v0_nested_scripthash.
Print Assumptions C08_v0_keyhash_form.
Print Assumptions C08_v0_scripthash_form.
Print Assumptions C08_v0_forms_are_programs.
Print Assumptions C08_is_valid.
Print Assumptions C08_is_unspendable.
Print Assumptions C08_sigops.
Print Assumptions C08_sigops_prefix.
