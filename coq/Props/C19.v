(* Props/C19.v – RPC proxy: exact amounts, Core-style hash endianness, faithful error
   mapping, increasing ids.  Statements only; every proof is [exact <lemma>].
   MODEL = Model/Rpc.v (bitcoin/rpc.py and x/b2x/lx/b2lx as CPython executes them),
   SPEC = Spec/Rpc.v, constants and the error-class registry from the regenerated Gen/Rpc.v. *)
From BV Require Import Proofs.Rpc Proofs.RpcFlocq.
From Coq Require Import QArith Qabs Reals.
From Flocq Require Import Core.Core IEEE754.BinarySingleNaN.
Require Coq.Strings.String.
Import String.StringSyntax.
Open Scope Z_scope.

(* ====================================================================================
   amounts received:  int(Decimal(text) * COIN)
   ==================================================================================== *)
(* every JSON number spelling (integer, fraction, trailing zeros, exponent, either case of
   'e', explicit sign) is read as a Python number with exactly the spelled value *)
Theorem C19_recv_number_read_exactly : forall s, wf_spelling s = true ->
  exists p, scan_number (spell s) = Some p /\ (pynum_q p == spell_value s)%Q.
Proof.
  intros s H. exists (pynum_of_spelling s). split; [exact (scan_spell s H) | exact (pynum_of_spelling_value s H)].
Qed.

(* a text denoting a/10^8 with a in the money range converts to exactly a *)
Theorem C19_recv_exact : forall s a, wf_spelling s = true -> denotes_sat s a -> 0 <= a <= MAX_MONEY ->
  amount_of_json (JNum (spell s)) = Ok a.
Proof. exact recv_exact. Qed.

(* range hypothesis: the 28-significant-digit context of decimal only matters beyond
   |a| < 10^28 – exact below, and there is a value on the satoshi grid above it that is not
   converted exactly *)
Theorem C19_recv_exact_28_digits : forall s a, wf_spelling s = true -> denotes_sat s a -> Z.abs a < 10 ^ 28 ->
  amount_of_json (JNum (spell s)) = Ok a.
Proof. exact recv_exact_28. Qed.
Theorem C19_recv_range_hypothesis_needed :
  exists s a, wf_spelling s = true /\ denotes_sat s a /\ amount_of_json (JNum (spell s)) <> Ok a.
Proof. exact recv_inexact_29_digits. Qed.

(* through the wrappers *)
Theorem C19_recv_wrappers : forall o s a, wf_spelling s = true -> denotes_sat s a -> 0 <= a <= MAX_MONEY ->
  (forall acc mc w, convert o (MGetBalance acc mc w) (wire (SJNum s)) = Result (RAmount a)) /\
  (forall addr mc, convert o (MGetReceivedByAddress addr mc) (wire (SJNum s)) = Result (RAmount a)) /\
  (forall h n mp fields script best hs hb,
     NoDup (map fst fields) ->
     member (T "value") fields = Some (SJNum s) ->
     member (T "scriptPubKey") fields = Some (SJObj [(T "hex", SJStr hs)]) ->
     member (T "bestblock") fields = Some (SJStr hb) ->
     py_x hs = Ok script -> py_lx hb = Ok best ->
     convert o (MGetTxOut h n mp) (wire (SJObj fields)) = Result (RTxOut a script best)).
Proof.
  intros o s a H1 H2 H3. split; [|split].
  - intros. exact (getbalance_exact o acc mc w s a H1 H2 H3).
  - intros. exact (getreceivedbyaddress_exact o addr mc s a H1 H2 H3).
  - intros. exact (gettxout_exact o h n mp fields s a script best hs hb H H0 H4 H5 H1 H2 H3 H6 H7).
Qed.

(* ====================================================================================
   hashes and hex
   ==================================================================================== *)
Theorem C19_hash_core_form : forall b, py_b2lx b = core_hash_text b /\ py_b2x b = hex_ref b.
Proof. intros b. split; [exact (b2lx_core b) | exact (b2x_ref b)]. Qed.
Theorem C19_hash_lx_b2lx : forall b, py_lx (py_b2lx b) = Ok b.
Proof. exact lx_b2lx. Qed.
Theorem C19_hash_b2lx_lx : forall h, is_hex_text h = true -> exists b, py_lx h = Ok b /\ py_b2lx b = lower h.
Proof. exact b2lx_lx. Qed.
Theorem C19_hex_x_b2x : forall b, py_x (py_b2x b) = Ok b.
Proof. exact x_b2x. Qed.
Theorem C19_hex_b2x_x : forall h, is_hex_text h = true -> exists b, py_x h = Ok b /\ py_b2x b = lower h.
Proof. exact b2x_x. Qed.
(* any other text raises binascii.Error (a ValueError) and nothing else *)
Theorem C19_hex_total : forall h,
  (exists b, py_lx h = Ok b /\ is_hex_text h = true) \/ (py_lx h = Err ValueError /\ is_hex_text h = false).
Proof. exact lx_total. Qed.

(* a hash returned by one call can be passed to another unchanged *)
Theorem C19_hash_between_calls : forall o n h, is_hex_text h = true ->
  exists b, convert o (MGetBlockHash n) (JStr h) = Result (RHash b) /\
            convert o MGetBestBlockHash (JStr h) = Result (RHash b) /\
            core_hash_text b = lower h /\
            request_of (MGetBlock b) = Some (T "getblock", [SStr (lower h); SBool false]) /\
            request_of (MGetRawTransaction b false None) = Some (T "getrawtransaction", [SStr (lower h); SInt 0]).
Proof. exact hash_returned_then_passed. Qed.
Theorem C19_hash_sent_core_form : forall h n mp v t bh,
  request_of (MGetBlock h) = Some (T "getblock", [SStr (core_hash_text h); SBool false]) /\
  request_of (MGetBlockHeader h v) = Some (T "getblockheader", [SStr (core_hash_text h); SBool v]) /\
  request_of (MGetTxOut h n mp) = Some (T "gettxout", [SStr (core_hash_text h); SInt n; SBool mp]) /\
  request_of (MGetRawTransaction t v (Some bh)) =
    Some (T "getrawtransaction", [SStr (core_hash_text t); SInt (if v then 1 else 0); SStr (core_hash_text bh)]).
Proof. exact sent_hashes_core_form. Qed.
Theorem C19_hash_sent_then_returned : forall o n b,
  convert o (MGetBlockHash n) (JStr (core_hash_text b)) = Result (RHash b).
Proof. exact hash_sent_then_returned. Qed.

(* transactions, headers and blocks cross the hex encoding bit-exactly, for any codec o *)
Theorem C19_objects_cross_hex : forall o h t bh b tx hf w,
  (convert o (MGetBlock h) (JStr (hex_ref b)) = lift (do s <- o_blk o b; Ok (RObject s)) /\
   convert o (MGetBlockHeader h false) (JStr (hex_ref b)) = lift (do s <- o_hdr o b; Ok (RObject s)) /\
   convert o (MGetRawTransaction t false bh) (JStr (hex_ref b)) = lift (do s <- o_tx o b; Ok (RObject s))) /\
  (request_of (MSendRawTransaction tx hf) =
     Some (T "sendrawtransaction", [SStr (hex_ref tx)] ++ (if hf then [SBool true] else [])) /\
   request_of (MFundRawTransaction tx w) = Some (T "fundrawtransaction", [SStr (hex_ref tx); SBool w])).
Proof. intros. split; [exact (received_objects_hex o h t bh b) | exact (sent_objects_hex tx hf w)]. Qed.

(* ====================================================================================
   error replies
   ==================================================================================== *)
(* a reply object (distinct member names) whose error member is not null raises the class
   registered for the numeric value of its code – the base class for unregistered codes, a
   missing code, a code that is a string / null / boolean, and for an error member that is
   not an object; a code that is an array or an object escapes as TypeError (dict lookup of
   an unhashable key) – and never yields a result *)
Theorem C19_error_dispatch : forall fields err,
  wf_sjson (SJObj fields) = true -> NoDup (map fst fields) ->
  error_member fields = Some err ->
  match err with SJObj ef => NoDup (map fst ef) | _ => True end ->
  match spec_error_class RPC_SUBCLS_CODES err with
  | Some cls => exists code, call_outcome (JsonBody (wire (SJObj fields))) = Raised cls code
  | None => call_outcome (JsonBody (wire (SJObj fields))) = Failed TypeError
  end.
Proof. exact error_reply_dispatch. Qed.

Theorem C19_error_never_result : forall o p m fields err,
  reaches_call m = true ->
  wf_sjson (SJObj fields) = true -> NoDup (map fst fields) ->
  error_member fields = Some err ->
  match err with SJObj ef => NoDup (map fst ef) | _ => True end ->
  forall v, ev_out (snd (step o p m (JsonBody (wire (SJObj fields))))) <> Result v.
Proof.
  intros o p m fields err Hb H1 H2 H3 H4. apply wrapper_no_result; [exact Hb|].
  exact (error_reply_no_result fields err H1 H2 H3 H4).
Qed.

(* what the wrappers do with the exception of _call: unchanged, except the documented
   translation of one registered class into IndexError *)
Theorem C19_error_through_wrappers : forall o p m rp cls code, reaches_call m = true ->
  call_outcome rp = Raised cls code ->
  ev_out (snd (step o p m rp)) =
    match cls, wrapper_catch m with
    | Some c, Some k => if c =? k then Failed IndexError else Raised cls code
    | _, _ => Raised cls code
    end.
Proof. exact wrapper_raises. Qed.

(* no response, non-JSON body, missing result, connection faults, non-object documents *)
Theorem C19_bad_reply_never_result : forall o p m rp, reaches_call m = true ->
  match rp with
  | JsonBody (JObj l) => json_ok (JObj l) = true -> obj_get (T "result") l = None
  | _ => True end ->
  forall v, ev_out (snd (step o p m rp)) <> Result v.
Proof. intros o p m rp Hb H. apply wrapper_no_result; [exact Hb|]. exact (bad_reply_no_result rp H). Qed.
Theorem C19_synthesised_errors_base_class :
  call_outcome NoResponse = Raised None (CNum (PInt RPC_ERR_NO_RESPONSE)) /\
  (forall b, utf8_valid b = true -> call_outcome (NonJsonBody b) = Raised None (CNum (PInt RPC_ERR_NON_JSON))) /\
  (forall l, json_ok (JObj l) = true -> obj_get (T "error") l = None \/ obj_get (T "error") l = Some JNull ->
             obj_get (T "result") l = None ->
             call_outcome (JsonBody (JObj l)) = Raised None (CNum (PInt RPC_ERR_MISSING_RESULT))).
Proof. exact synthesized_codes_base. Qed.

(* the regenerated registry: every registered code selects its own class; the literal codes
   of rpc.py and the integers JSON booleans compare equal to are not registered *)
Theorem C19_registry :
  (forall c, In c RPC_SUBCLS_CODES -> class_of RPC_SUBCLS_CODES (CNum (PInt c)) = Some c) /\
  NoDup RPC_SUBCLS_CODES /\
  class_of RPC_SUBCLS_CODES (CNum (PInt RPC_ERR_NO_RESPONSE)) = None /\
  class_of RPC_SUBCLS_CODES (CNum (PInt RPC_ERR_MISSING_RESULT)) = None /\
  class_of RPC_SUBCLS_CODES (CNum (PInt RPC_ERR_NON_DICT)) = None /\
  class_of RPC_SUBCLS_CODES (CNum (PInt RPC_ERR_MISSING_CODE)) = None /\
  (In RPC_CATCH_getblockhash RPC_SUBCLS_CODES /\ In RPC_CATCH_getblock RPC_SUBCLS_CODES /\
   In RPC_CATCH_getblockheader RPC_SUBCLS_CODES /\ In RPC_CATCH_getrawtransaction RPC_SUBCLS_CODES).
Proof.
  destruct table_facts as (T1 & T2 & T3 & T4 & T5 & T6 & T7 & T8).
  split; [exact registered_selects_own|]. repeat split; try assumption; apply catch_codes_registered.
Qed.

(* ====================================================================================
   request ids
   ==================================================================================== *)
(* over ANY history of calls on one proxy – results, error replies, garbage, connection
   faults, batches and wrappers that fail before reaching _call in between – the ids sent
   are id0+1, id0+2, ... ([calls] counts the wrappers that reach _call); in particular they
   strictly increase and lie above the starting value; a new proxy starts at 0 *)
Theorem C19_ids_consecutive : forall o ops p, sent_ids (run o p ops) = zseq (id_count p + 1) (calls ops).
Proof. exact ids_consecutive. Qed.
Theorem C19_ids_strictly_increase : forall o ops p,
  strictly_increasing (sent_ids (run o p ops)) /\ Forall (fun i => id_count p < i) (sent_ids (run o p ops)).
Proof. exact ids_strictly_increase. Qed.

(* ====================================================================================
   amounts sent:  float(a) / COIN  rendered by json.dumps
   ==================================================================================== *)
(* the core lemma over Q, free of any model of floats: if x is within 2^-29 of a/10^8 (half
   an ulp of a binary64 below 2^25) and s is within 2^-29 of x (s reads back as x), then
   a/10^8 is the only multiple of 10^-8 s can be, and s rounded to 8 places is a *)
Theorem C19_send_core_Q : forall (x s : Q) (a : Z),
  (Qabs (x - btc_of_sat a) <= 1 # 2 ^ 29)%Q -> (Qabs (s - x) <= 1 # 2 ^ 29)%Q ->
  (on_grid8 s -> (s == btc_of_sat a)%Q) /\ round8 s = a.
Proof. exact grid8_unique_Q. Qed.

(* round-to-nearest-even to 53 bits (Model.rn53) is within half an ulp, and on the money
   range the exponent is at most -28, i.e. ulp <= 2^-28 < 10^-8 *)
Theorem C19_send_half_ulp : forall n d, 0 < n -> 0 < d -> let (m, e) := rn53 n d in near n d m e.
Proof. exact rn53_spec. Qed.
Theorem C19_send_ulp_money_range : forall a m e, 1 <= a <= MAX_MONEY -> near a 100000000 m e -> e <= - 28.
Proof. exact near_money_exp. Qed.

(* the amount sent, for the MODEL of the float step (Model.rn53 = round-to-nearest-even to
   53 bits, Model.shortest_dec = the shortest decimal that rounds back, what repr prints):
   for 0 <= a <= MAX_MONEY the JSON number transmitted denotes exactly a/10^8 *)
Theorem C19_send_exact : forall a, 0 <= a <= MAX_MONEY ->
  exists c q, sent_amount a = Ok (c, q) /\ (dec_q c q == btc_of_sat a)%Q.
Proof. exact sent_amount_exact. Qed.

(* ====================================================================================
   generated constants
   ==================================================================================== *)
Theorem C19_generated_coin : RPC_COIN = SATOSHI_PER_COIN.
Proof. exact coin_is_1e8. Qed.

(* non-vacuity: hypotheses are met, both outcomes of each branch occur *)
Example C19_nonvacuous :
  let s := {| sp_neg := false; sp_int := [2]; sp_frac := Some [1]; sp_exp := Some (false, None, [7]) |} in
  wf_spelling s = true /\ spec_sat s = Some MAX_MONEY /\ amount_of_json (JNum (spell s)) = Ok MAX_MONEY /\
  sent_amount 1 = Ok (1, - 8) /\ sent_amount MAX_MONEY = Ok (21, 6) /\
  is_hex_text (T "00fF") = true /\ py_lx (T "00fF") = Ok [xff; x00] /\ py_lx (T "0g") = Err ValueError /\
  call_outcome (JsonBody (wire (SJObj [(T "result", SJNull); (T "error", SJObj [(T "code", SJNum
     {| sp_neg := true; sp_int := [5]; sp_frac := Some [0]; sp_exp := None |})])])))
    = Raised (Some (- 5)) (CNum (PDec true 50 (- 1))) /\
  sent_ids (run {| o_tx := fun b => Ok b; o_hdr := fun b => Ok b; o_blk := fun b => Ok b |} new_proxy
            [(MGetBestBlockHash, NoResponse); (MBatch 2, NoResponse); (MGetBlockHash 5, RequestFails);
             (MGetBalance [] 1 false, JsonBody (JObj [(T "result", JNum (T "0.5"))]))]) = [1; 2; 3].
Proof. vm_compute. repeat split; reflexivity. Qed.

Print Assumptions C19_recv_number_read_exactly.
Print Assumptions C19_recv_exact.
Print Assumptions C19_recv_exact_28_digits.
Print Assumptions C19_recv_range_hypothesis_needed.
Print Assumptions C19_recv_wrappers.
Print Assumptions C19_hash_core_form.
Print Assumptions C19_hash_lx_b2lx.
Print Assumptions C19_hash_b2lx_lx.
Print Assumptions C19_hex_x_b2x.
Print Assumptions C19_hex_b2x_x.
Print Assumptions C19_hex_total.
Print Assumptions C19_hash_between_calls.
Print Assumptions C19_hash_sent_core_form.
Print Assumptions C19_hash_sent_then_returned.
Print Assumptions C19_objects_cross_hex.
Print Assumptions C19_error_dispatch.
Print Assumptions C19_error_never_result.
Print Assumptions C19_error_through_wrappers.
Print Assumptions C19_bad_reply_never_result.
Print Assumptions C19_synthesised_errors_base_class.
Print Assumptions C19_registry.
Print Assumptions C19_ids_consecutive.
Print Assumptions C19_ids_strictly_increase.
Print Assumptions C19_send_core_Q.
Print Assumptions C19_send_half_ulp.
Print Assumptions C19_send_ulp_money_range.
Print Assumptions C19_send_exact.
Print Assumptions C19_generated_coin.

(* ====================================================================================
   the float step against Flocq's IEEE-754 binary64 (uses Reals: the standard axioms of the
   real numbers appear in Print Assumptions)
   ==================================================================================== *)
(* Model.rn53 n d is Flocq's rounding to nearest even in binary64 of the real n/d (normal range) *)
Theorem C19_send_rn53_is_ieee_rounding : forall n d, 0 < n -> 0 < d ->
  let (m, e) := rn53 n d in - 1074 < e -> rnd64 (IZR n / IZR d) = (IZR m * bpow radix2 e)%R.
Proof. exact rn53_is_round. Qed.
(* float(a)/COIN of the MODEL is BinarySingleNaN.Bdiv mode_NE on the binary64 values of a and COIN *)
Theorem C19_send_float_div_is_Bdiv : forall a, 1 <= a <= MAX_MONEY ->
  let (m, e) := rn53 a RPC_COIN in
  B2R (b64_div (b64_of_Z a) (b64_of_Z RPC_COIN)) = (IZR m * bpow radix2 e)%R.
Proof. exact float_div_coin_is_Bdiv. Qed.
(* the sending clause in Flocq's terms, no model of repr involved: d = a / COIN computed in
   binary64; the decimal a * 10^-8 reads back as d, and every decimal c * 10^q with at most 8
   places that reads back as d IS a * 10^-8.  Hence whatever shortest round-tripping decimal
   is printed for d (it cannot be longer than a * 10^-8) denotes exactly a satoshis. *)
Theorem C19_send_exact_ieee : forall a, 1 <= a <= MAX_MONEY ->
  let d := B2R (b64_div (b64_of_Z a) (b64_of_Z RPC_COIN)) in
  d = rnd64 (IZR a / IZR RPC_COIN) /\
  rnd64 (IZR a * bpow radix10 (- 8)) = d /\
  (forall c q, - 8 <= q -> rnd64 (IZR c * bpow radix10 q) = d -> c * 10 ^ (q + 8) = a).
Proof. exact send_flocq. Qed.
(* the MODEL's read-back test is sound for Flocq's rounding *)
Theorem C19_send_read_back_sound : forall m e c q, - 1074 < e -> rounds_to m e c q = true ->
  rnd64 (IZR c * bpow radix10 q) = (IZR m * bpow radix2 e)%R.
Proof. exact rounds_to_is_round. Qed.
Print Assumptions C19_send_rn53_is_ieee_rounding.
Print Assumptions C19_send_float_div_is_Bdiv.
Print Assumptions C19_send_exact_ieee.
Print Assumptions C19_send_read_back_sound.

(* last, so that nothing else depends on it: _get_response parses the reply with
   json.loads(..., parse_float=decimal.Decimal) (regenerated flag); without it amounts would
   pass through binary64 and C19_recv_exact would not be about the code *)
Theorem C19_generated_parse_float_decimal : RPC_PARSE_FLOAT_IS_DECIMAL = true.
Proof. reflexivity. Qed.
Print Assumptions C19_generated_parse_float_decimal.
