(* Props/C07.v – Script verification is total, contained and side-effect free on any input.
   On the MODEL of scripteval.py every Python-level partial operation (stack[-n], pop, del,
   item assignment, OPCODE_NAMES[...] inside the error constructors, the two asserts,
   struct.pack inside bn2vch / CScript([x]), CScriptInvalidError from the tokeniser and from
   FindAndDelete) is an explicit error branch; the theorems say that for ARBITRARY byte
   strings as scripts none of them is reachable: the only outcomes are success and the
   library's validation errors.  Termination is by construction (total Gallina functions;
   the multisig `while` runs on explicit fuel and never exhausts it: OutOfFuel is among the
   excluded outcomes). *)
From BV Require Import Common.Base Common.Tx Common.ScriptFlags Gen.ScriptConsts Gen.EvalConsts
  Model.Script Model.ScriptEval Spec.Script Spec.ScriptRef Proofs.ScriptEval Proofs.ScriptFull.

Theorem C07_eval_contained : forall checksig ripemd160 sha1 sha256 fl,
  (forall pk code, checksig [] pk code = false) ->
  (forall x, small (ripemd160 x) /\ small (sha1 x) /\ small (sha256 x)) ->
  forall (script : bytes) (st : list bytes), Forall small st -> lenZ st < 2^31 ->
  match eval_script checksig ripemd160 sha1 sha256 fl (rev st) script with
  | Ok _ => True | Err e => e = EvalErr end.
Proof.
  intros cs r s1 s2 fl CE HS script st A B. rewrite (proj1 (eval_full cs r s1 s2 fl CE HS script st A B)).
  destruct (eval_ref cs r s1 s2 fl st script); [exact I|reflexivity].
Qed.

Theorem C07_verify_contained : forall checksig ripemd160 sha1 sha256 fl,
  (forall pk code, checksig [] pk code = false) ->
  (forall x, small (ripemd160 x) /\ small (sha1 x) /\ small (sha256 x)) ->
  (f_cleanstack fl = true -> f_p2sh fl = true) ->
  forall scriptSig scriptPubKey : bytes,
  match verify_script checksig ripemd160 sha1 sha256 fl scriptSig scriptPubKey with
  | Ok _ => True | Err e => is_validation e = true end.
Proof.
  intros cs r s1 s2 fl CE HS FO a b. pose proof (verify_full cs r s1 s2 fl CE HS FO a b) as V.
  destruct (verify_script cs r s1 s2 fl a b); [exact I|]. destruct V as [_ [-> | ->]]; reflexivity.
Qed.

(* without the flag hypothesis the statement is false: CLEANSTACK without P2SH hits the
   assert of VerifyScript (known finding F5; Bitcoin Core has the same assert) *)
Theorem C07_verify_refuted : exists fl scriptSig scriptPubKey,
  verify_script (fun _ _ _ => false) (fun x => x) (fun x => x) (fun x => x) fl scriptSig scriptPubKey = Err AssertionError.
Proof.
  exists {| f_p2sh := false; f_nulldummy := false; f_cleanstack := true; f_discourage_nops := false |}, [x51], [].
  vm_compute. reflexivity.
Qed.

Example C07_nonvacuous :
  let cs := fun _ _ _ : bytes => false in let h := fun x : bytes => x in
  let fl := {| f_p2sh := true; f_nulldummy := false; f_cleanstack := false; f_discourage_nops := false |} in
  (* a truncated push, an undecodable PUSHDATA2, 6 ROTs on an empty stack, a P2SH output with a garbage redeem script *)
  verify_script cs h h h fl [x05; x01] [x51] = Err EvalErr /\
  verify_script cs h h h fl [x51] [x4d; x01] = Err EvalErr /\
  verify_script cs h h h fl [x71] [x51] = Err EvalErr /\
  verify_script cs h h h fl [x51] [] = Ok tt.
Proof. vm_compute. repeat split; reflexivity. Qed.

Print Assumptions C07_eval_contained.
Print Assumptions C07_verify_contained.
Print Assumptions C07_verify_refuted.
