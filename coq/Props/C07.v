(* Props/C07.v – Script verification is total, contained and side-effect free on any input.
   On the MODEL of scripteval.py every Python-level partial operation (stack[-n], pop, del,
   item assignment, OPCODE_NAMES[...] inside the error constructors, the two asserts,
   struct.pack inside bn2vch / CScript([x]), CScriptInvalidError from the tokeniser and from
   FindAndDelete) is an explicit error branch; the theorems say that for ARBITRARY byte
   strings as scripts none of them is reachable: the only outcomes are success and the
   library's validation errors.  Termination is by construction (total Gallina functions;
   the multisig `while` runs on explicit fuel and never exhausts it: OutOfFuel is among the
   excluded outcomes). *)
From BV Require Import Common.Base Common.PyList Common.Tx Common.ScriptFlags Gen.ScriptConsts Gen.EvalConsts
  Model.Script Model.ScriptEval Model.ScriptEvalSt Spec.Script Spec.ScriptRef Proofs.ScriptEval Proofs.ScriptFull
  Proofs.ScriptBounds.

Theorem C07_eval_contained : forall checksig ripemd160 sha1 sha256 fl,
  (forall pk code, checksig [] pk code = false) ->
  (forall x, small (ripemd160 x) /\ small (sha1 x) /\ small (sha256 x)) ->
  forall (script : bytes) (st : list bytes), Forall small st -> lenZ st < 2^31 ->
  match eval_script checksig ripemd160 sha1 sha256 fl (rev st) script with
  | Ok _ => True | Err e => e = EvalErr end.
Proof.
  intros cs r s1 s2 fl CE HS script st A B. rewrite (proj1 (eval_full cs r s1 s2 fl CE HS script st A B)).
  destruct (eval_ref cs r s1 s2 fl st script); [exact I|reflexivity].
Qed.

Theorem C07_verify_contained : forall checksig ripemd160 sha1 sha256 fl,
  (forall pk code, checksig [] pk code = false) ->
  (forall x, small (ripemd160 x) /\ small (sha1 x) /\ small (sha256 x)) ->
  (f_cleanstack fl = true -> f_p2sh fl = true) ->
  forall scriptSig scriptPubKey : bytes,
  match verify_script checksig ripemd160 sha1 sha256 fl scriptSig scriptPubKey with
  | Ok _ => True | Err e => is_validation e = true end.
Proof.
  intros cs r s1 s2 fl CE HS FO a b. pose proof (verify_full cs r s1 s2 fl CE HS FO a b) as V.
  destruct (verify_script cs r s1 s2 fl a b); [exact I|]. destruct V as [_ [-> | ->]]; reflexivity.
Qed.

(* without the flag hypothesis the statement is false: CLEANSTACK without P2SH hits the
   assert of VerifyScript (known finding F5; Bitcoin Core has the same assert) *)
Theorem C07_verify_refuted : exists fl scriptSig scriptPubKey,
  verify_script (fun _ _ _ => false) (fun x => x) (fun x => x) (fun x => x) fl scriptSig scriptPubKey = Err AssertionError.
Proof.
  exists {| f_p2sh := false; f_nulldummy := false; f_cleanstack := true; f_discourage_nops := false |}, [x51], [].
  vm_compute. reflexivity.
Qed.

Example C07_nonvacuous :
  let cs := fun _ _ _ : bytes => false in let h := fun x : bytes => x in
  let fl := {| f_p2sh := true; f_nulldummy := false; f_cleanstack := false; f_discourage_nops := false |} in
  (* a truncated push, an undecodable PUSHDATA2, 6 ROTs on an empty stack, a P2SH output with a garbage redeem script *)
  verify_script cs h h h fl [x05; x01] [x51] = Err EvalErr /\
  verify_script cs h h h fl [x51] [x4d; x01] = Err EvalErr /\
  verify_script cs h h h fl [x71] [x51] = Err EvalErr /\
  verify_script cs h h h fl [x51] [] = Ok tt.
Proof. vm_compute. repeat split; reflexivity. Qed.

(* "... and the state captured in a raised evaluation error respects the interpreter's limits."
   Model/ScriptEvalSt.v is the same interpreter returning, for every EvalScriptError raised
   through scripteval.py's err_raiser, the state the exception captures AT THE RAISE:
     c_stack = len(e.stack), c_alt = len(e.altstack), c_nop = e.nOpCount,
     c_pb = e.pbegincodehash, c_pc = e.sop_pc, c_len = len(e.scriptIn).
   For ANY script bytes, oracle, hash functions, flags, and any initial stack of at most 1000
   items (VerifyScript only ever starts an evaluation on such a stack – second theorem):
     * the instrumented evaluator has exactly the outcome of eval_script (XFail <-> Err EvalErr …);
     * a captured state has  items <= 1000 + 3, nOpCount <= 201 + 20,
       0 <= pbegincodehash <= sop_pc < len(scriptIn) <= 10000.
   Both constants are tight (C07_error_state_nonvacuous): the 'max stack items' check is made at
   the end of an iteration, after OP_3DUP appended three items; _CheckMultiSig adds the key count
   (<= 20) to an nOpCount that already passed the loop's check before comparing it with 201.
   sop_pc < len is strict: the three EvalScriptErrors raised outside the loop ('script too
   large', 'Unterminated IF/ELSE block', the wrapper of CScriptInvalidError) do not go through
   err_raiser and capture no altstack / nOpCount / pbegincodehash / sop_pc at all (they are
   [XErr EvalErr] in the instrumented model), so len <= 10000 holds for every captured state.
   The check on IMPL (Run/C07.v err_state_ok) uses the same constants (it used 201 + 21, one more
   than can occur, before this theorem), and Run/C07.v compares the state captured by IMPL with
   the one the instrumented model computes on every case. *)
Theorem C07_error_state_bounds : forall checksig ripemd160 sha1 sha256 fl (script : bytes) (st : list bytes),
  len st <= 1000 ->
  match eval_script_st checksig ripemd160 sha1 sha256 fl st script with
  | XOk st' => eval_script checksig ripemd160 sha1 sha256 fl st script = Ok st' /\ len st' <= 1000
  | XFail c => eval_script checksig ripemd160 sha1 sha256 fl st script = Err EvalErr /\
               0 <= c_stack c /\ 0 <= c_alt c /\ c_stack c + c_alt c <= 1000 + 3 /\
               0 <= c_nop c <= 201 + 20 /\
               0 <= c_pb c <= c_pc c /\ c_pc c < c_len c /\ c_len c = lenZ script /\ lenZ script <= 10000
  | XErr e => eval_script checksig ripemd160 sha1 sha256 fl st script = Err e
  end.
Proof. exact error_state_bounds. Qed.

(* VerifyScript: the error of whichever of its (up to) three evaluations raised – scriptSig,
   scriptPubKey on the stack scriptSig left, the P2SH redeem script – propagates unchanged *)
Theorem C07_verify_error_state_bounds : forall checksig ripemd160 sha1 sha256 fl (scriptSig scriptPubKey : bytes),
  match verify_script_st checksig ripemd160 sha1 sha256 fl scriptSig scriptPubKey with
  | XOk _ => verify_script checksig ripemd160 sha1 sha256 fl scriptSig scriptPubKey = Ok tt
  | XFail c => verify_script checksig ripemd160 sha1 sha256 fl scriptSig scriptPubKey = Err EvalErr /\
               0 <= c_stack c /\ 0 <= c_alt c /\ c_stack c + c_alt c <= 1000 + 3 /\
               0 <= c_nop c <= 201 + 20 /\
               0 <= c_pb c <= c_pc c /\ c_pc c < c_len c /\ c_len c <= 10000
  | XErr e => verify_script checksig ripemd160 sha1 sha256 fl scriptSig scriptPubKey = Err e
  end.
Proof. exact verify_error_state_bounds. Qed.

Example C07_error_state_nonvacuous :
  let cs := fun _ _ _ : bytes => false in let h := fun x : bytes => x in
  let fl := {| f_p2sh := true; f_nulldummy := true; f_cleanstack := false; f_discourage_nops := false |} in
  let K a b c d e f := {| c_stack := a; c_alt := b; c_nop := c; c_pb := d; c_pc := e; c_len := f |} in
  (* OP_3DUP on a full stack: 1003 items when the size check fires (1000 + 3 is attained) *)
  eval_script_st cs h h h fl (repeat [] 1000) [x6f] = XFail (K 1003 0 1 0 0 1) /\
  (* 200 NOPs, then 20 CHECKMULTISIG: 201 passes the loop's check, + 20 keys = 221 (201 + 20 is attained) *)
  eval_script_st cs h h h fl [] (repeat x61 200 ++ [x01; x14; xae]) = XFail (K 1 0 221 0 202 203) /\
  (* 202 NOPs: the loop's own check fires after the increment *)
  eval_script_st cs h h h fl [] (repeat x61 202) = XFail (K 0 0 202 0 201 202) /\
  (* 1 5 PICK: the index has already been popped when 'out of bounds' is raised *)
  eval_script_st cs h h h fl [] [x51; x55; x79] = XFail (K 1 0 1 0 2 3) /\
  (* 1 0 0 CHECKMULTISIG under NULLDUMMY: raised after the arguments were popped, the dummy still there *)
  eval_script_st cs h h h fl [] [x51; x00; x00; xae] = XFail (K 1 0 1 0 3 4) /\
  (* NOP CODESEPARATOR RETURN: pbegincodehash = 1 <= sop_pc = 2 < 3 *)
  eval_script_st cs h h h fl [] [x61; xab; x6a] = XFail (K 0 0 3 1 2 3) /\
  (* no state: unterminated IF, truncated push, script too large *)
  eval_script_st cs h h h fl [] [x51; x63] = XErr EvalErr /\
  eval_script_st cs h h h fl [] [x05; x01] = XErr EvalErr /\
  eval_script_st cs h h h fl [] (repeat x00 (100 * 100 + 1)) = XErr EvalErr /\
  (* through VerifyScript: raised by the scriptPubKey evaluation on the stack scriptSig left; by a P2SH redeem script *)
  verify_script_st cs h h h fl (repeat x51 1000) [x6f] = XFail (K 1003 0 1 0 0 1) /\
  verify_script_st cs (fun _ => repeat x07 20) h h fl [x51; x02; x51; x6a] (xa9 :: x14 :: repeat x07 20 ++ [x87]) = XFail (K 2 0 1 0 1 2).
Proof. vm_compute. repeat split; reflexivity. Qed.

Print Assumptions C07_eval_contained.
Print Assumptions C07_verify_contained.
Print Assumptions C07_verify_refuted.
Print Assumptions C07_error_state_bounds.
Print Assumptions C07_verify_error_state_bounds.
