From BV Require Import Common.Base Spec.Ecdsa Spec.Der Model.Key Proofs.Ecdsa Proofs.Der Proofs.Key.
Theorem C13_der_roundtrip : forall r s, small r -> small s -> parse_der (enc_der r s) = Some (r, s).
Proof. exact parse_enc_der. Qed.
Print Assumptions C13_der_roundtrip.
