(* Props/C13.v – Keys: public-key derivation, WIF round trip, ECDSA sign / verify.
   Statements only; every proof is [exact <lemma>].

   WHAT IS PROVED.  OpenSSL is an external C library reached through ctypes; what is
   modelled and proved is the Python-side logic of bitcoin/core/key.py, core/script.py
   (IsLowDERSignature), wallet.py (CBitcoinSecret) around it.  Every theorem about ECDSA is
   stated for an ARBITRARY structure E : curve satisfying curve_laws E (Spec/Ecdsa.v: an
   abelian group acted on by Z, every element of prime order n, generator of order exactly
   n, decidable equality, affine x with x(-P) = x(P), 0 <= x < p < 2n, and the element with a
   given x and y-parity) – no axiom, the laws are hypotheses of each theorem.
   WHAT IS NOT.  That the executable secp256k1 of Model/Secp256k1.v – and OpenSSL – satisfy
   curve_laws (in particular that n is prime and that the chord-tangent law is associative)
   is NOT proved; it is the assumption linking these theorems to the correspondence run
   (tools/props/C13.py ASSUMPTIONS).  The side conditions that ARE checked for the concrete
   parameters: C13_secp_side_conditions. *)
From BV Require Import Common.Base Common.Hash Gen.Core Gen.Key Model.Base58 Spec.Base58 Spec.Ecdsa Spec.Der
  Model.Secp256k1 Model.Key Proofs.Base58Spec Proofs.Ecdsa Proofs.Der Proofs.Key.
From Coq Require Strings.String.
Module WifLiteral.
  Import Coq.Strings.String.
  Definition s : string := "KwDiBf89QgGbjEhKnhXJuH7LrciVrZi3qYjgd9M7rFU73sVHnoWn"%string.
End WifLiteral.

(* ---------- ECDSA in every prime-order group ---------- *)
(* modular inverse used by sign / verify / recover (extended Euclid, logarithmic fuel) *)
Theorem C13_inv_mod : forall a n, Znumtheory.prime n -> a mod n <> 0 ->
  (a * inv_mod a n) mod n = 1 /\ 0 <= inv_mod a n < n.
Proof.
  exact (fun a n P H => conj (inv_mod_prime a n P H)
           (inv_mod_range a n (Z.lt_le_trans 0 2 n eq_refl (Znumtheory.prime_ge_2 n P)))).
Qed.
(* a signature made with a usable nonce verifies under the signer's public key *)
Theorem C13_ecdsa_correct : forall E, curve_laws E -> forall d e k, valid_nonce E d e k ->
  verify_ref E (pub E d) e (fst (sign_raw E d e k)) (snd (sign_raw E d e k)) = true.
Proof. exact verify_sign. Qed.
(* the twin (r, n - s) of a verifying signature verifies (any key), and normalisation
   produces a low S in range *)
Theorem C13_low_s_twin : forall E, curve_laws E -> forall Q e r s,
  verify_ref E Q e r s = true -> verify_ref E Q e r (c_n E - s) = true.
Proof. exact verify_twin. Qed.
Theorem C13_norm_s : forall E s, 1 <= s < c_n E ->
  low_s E (norm_s E s) = true /\ 1 <= norm_s E s < c_n E.
Proof. exact norm_s_low. Qed.

(* ---------- DER ---------- *)
(* small v := 0 <= v < 2^256 *)
Theorem C13_der_roundtrip : forall r s, small r -> small s -> parse_der (enc_der r s) = Some (r, s).
Proof. exact parse_enc_der. Qed.
(* the strict parser accepts exactly one byte string per (r, s): the canonical encoding
   (minimal positive integers, short-form lengths that add up) *)
Theorem C13_der_strict : forall b r s, parse_der b = Some (r, s) -> b = enc_der r s /\ 0 <= r /\ 0 <= s.
Proof. exact parse_der_inv. Qed.
Theorem C13_der_length : forall r s, small r -> small s -> (8 <= length (enc_der r s) <= 72)%nat.
Proof. exact enc_der_length. Qed.

(* ---------- IsLowDERSignature: the offset arithmetic on bytes ---------- *)
(* CompareBigEndian(c1, c2) has the sign of the comparison of the big-endian numerals *)
Theorem C13_compare_big_endian : forall c1 c2,
  Forall (fun d => 0 <= d < 256) c1 -> Forall (fun d => 0 <= d < 256) c2 ->
  (compare_big_endian c1 c2 > 0 <-> value_msb 256 c1 > value_msb 256 c2) /\
  (compare_big_endian c1 c2 < 0 <-> value_msb 256 c1 < value_msb 256 c2).
Proof. exact compare_big_endian_spec. Qed.
(* on every canonical signature the function as written (sig[3], sig[5 + length_r], the
   slice, the table regenerated from /repo) answers "0 < s <= n/2" for the secp256k1 order *)
Theorem C13_is_low_der : forall r s, small r -> small s ->
  is_low_der (enc_der r s) = Ok ((0 <? s) && (s <=? secp_n / 2)).
Proof. exact is_low_der_secp. Qed.

(* ---------- CECKey.sign / verify around the group ---------- *)
(* for every usable nonce the value returned by sign() is the canonical DER encoding of
   (r, low s): it is strictly DER (the only string the strict parser maps to (r, s)), at
   most 72 bytes, has low S and satisfies the reference verification equation *)
Theorem C13_sign : forall E, curve_laws E -> c_n E < 2 ^ 256 ->
  value_msb 256 max_mod_half_order = c_n E / 2 ->
  forall d hash k, length hash = 32%nat -> valid_nonce E d (be_dec hash) k ->
  exists sig r s, cec_sign E d hash k = Ok sig /\
    parse_der sig = Some (r, s) /\ (forall b, parse_der b = Some (r, s) -> b = sig) /\
    (length sig <= 72)%nat /\ low_s E s = true /\ verify_ref E (pub E d) (be_dec hash) r s = true.
Proof. exact cec_sign_ok. Qed.
(* verify() on a strictly-DER signature is the reference verification; empty => False *)
Theorem C13_verify_strict : forall E Q hash sig r s, parse_der sig = Some (r, s) ->
  cec_verify E (Some Q) hash sig = verify_ref E Q (be_dec hash) r s.
Proof. exact cec_verify_strict. Qed.
(* what is checked about the concrete parameters (NOT the group laws) *)
Theorem C13_secp_side_conditions :
  value_msb 256 max_mod_half_order = c_n secp256k1 / 2 /\ c_n secp256k1 < 2 ^ 256 /\
  c_n secp256k1 <= c_p secp256k1 /\ c_p secp256k1 < 2 * c_n secp256k1 /\ c_p secp256k1 <= 2 ^ 256.
Proof.
  exact (conj secp_table_ok (conj secp_n_small (conj (proj1 secp_p_bounds)
         (conj (proj1 (proj2 secp_p_bounds)) (proj1 (proj2 (proj2 secp_p_bounds))))))).
Qed.

(* ---------- public keys ---------- *)
(* the model of key derivation: the SEC1 encoding of d G in the selected form *)
Theorem C13_pubkey : forall E secret c, length secret = 32%nat ->
  cec_pubkey E secret c = Ok (sec1_enc E (form_of c) (pub E (be_dec secret))).
Proof. exact (fun E secret c H => f_equal (fun b : bool => if negb b then Err ValueError else Ok _) (hash_len32 secret H)). Qed.
(* the flags as written: is_valid = non-empty, is_compressed = 33 bytes; a fully valid key
   has one of the SEC1 shapes: 00 | 02/03 + 32 bytes | 04/06/07 + 64 bytes *)
Theorem C13_pubkey_flags : forall b,
  pk_is_valid b = negb (length b =? 0)%nat /\ pk_is_compressed b = (length b =? 33)%nat.
Proof. exact pk_flags. Qed.
Theorem C13_fullyvalid_shape : forall E b, pk_is_fullyvalid E b = true ->
  b = [x00] \/
  (length b = 33%nat /\ exists h t, b = h :: t /\ (b2z h = 2 \/ b2z h = 3)) \/
  (length b = 65%nat /\ exists h t, b = h :: t /\ (b2z h = 4 \/ b2z h = 6 \/ b2z h = 7)).
Proof. exact pk_fullyvalid_shape. Qed.

(* ---------- WIF ---------- *)
(* under each of the four chains regenerated from /repo: the text of (secret, flag) is the
   reference Base58Check text of prefix || secret || [01], parses back to the same secret and
   flag, and is refused (CBitcoinSecretError) under every chain with another prefix; H is
   an arbitrary checksum hash with >= 4 output bytes (Base58Check theorems: C10) *)
Theorem C13_wif_roundtrip : forall H, (forall x, (4 <= length (H x))%nat) ->
  forall p, In p chains -> forall secret c, length secret = 32%nat ->
  exists t, secret_text H (cp_secret_key p) secret c = Ok t /\
            t = spec_to_text H (cp_secret_key p) (secret ++ flag c) /\
            secret_parse H (cp_secret_key p) t = Ok (secret, c) /\
            (forall q, In q chains -> cp_secret_key q <> cp_secret_key p ->
                       secret_parse H (cp_secret_key q) t = Err SecretErr).
Proof. exact wif_roundtrip_chains. Qed.

(* non-vacuity: concrete values on the executable curve and hashes (small scalars only:
   a full-size scalar multiplication takes 25 s under vm_compute) *)
Example C13_nonvacuous :
  length chains = 4%nat /\
  valid_nonceb secp256k1 3 5 2 = true /\
  cec_pubkey secp256k1 (be_enc 32 1) true =
    Ok (x02 :: be_enc 32 0x79BE667EF9DCBBAC55A06295CE870B07029BFCDB2DCE28D959F2815B16F81798) /\
  pk_is_fullyvalid secp256k1 (x03 :: be_enc 32 secp_gx) = true /\
  pk_is_fullyvalid secp256k1 (x02 :: be_enc 32 5) = false /\
  is_low_der (enc_der 5 (secp_n / 2)) = Ok true /\
  is_low_der (enc_der 5 (secp_n / 2 + 1)) = Ok false /\
  is_low_der (enc_der 5 0) = Ok false /\
  parse_der [x30; x06; x02; x01; x05; x02; x01; x07] = Some (5, 7) /\
  parse_der [x30; x07; x02; x02; x00; x05; x02; x01; x07] = None /\
  secret_parse sha256d 128
    (text_of_string WifLiteral.s) = Ok (be_enc 32 1, true).
Proof. vm_compute. repeat split; reflexivity. Qed.

Print Assumptions C13_inv_mod.
Print Assumptions C13_ecdsa_correct.
Print Assumptions C13_low_s_twin.
Print Assumptions C13_norm_s.
Print Assumptions C13_der_roundtrip.
Print Assumptions C13_der_strict.
Print Assumptions C13_der_length.
Print Assumptions C13_compare_big_endian.
Print Assumptions C13_is_low_der.
Print Assumptions C13_sign.
Print Assumptions C13_verify_strict.
Print Assumptions C13_secp_side_conditions.
Print Assumptions C13_pubkey.
Print Assumptions C13_pubkey_flags.
Print Assumptions C13_fullyvalid_shape.
Print Assumptions C13_wif_roundtrip.
