(* Props/C20.v – Bloom filter: MurmurHash3, BIP37 bit schedule, no false negatives, caps,
   lossless wire form, empty data.  Statements only; every proof is [exact <lemma>].
   MODEL = Model/Bloom.v (what bitcoin/bloom.py does, constants regenerated into Gen/Bloom.v),
   SPEC = Spec/Bloom.v (MurmurHash3 x86_32 on uint32, BIP37). *)
From Coq Require Import QArith.
From BV Require Import Common.Base Gen.Core Gen.Bloom Model.Bloom Spec.Bloom
  Proofs.BloomMurmur Proofs.Bloom Proofs.BloomWire Proofs.BloomHist.
Open Scope Z_scope.

(* (1) the Python MurmurHash3 is the reference MurmurHash3 x86_32: every seed, every data
   (every tail length); it never raises *)
Theorem C20_murmur : forall seed data, 0 <= seed < 2^32 ->
  MurmurHash3 seed data = Ok (murmur_ref seed data).
Proof. exact murmur_model_eq_ref. Qed.

(* bloom_hash is the BIP37 schedule: seed = i*0xFBA4C795 + tweak (mod 2^32), modulo filter bits;
   any tweak and hash number (unbounded Python ints included) *)
Theorem C20_bloom_hash : forall f i e, lenZ (vData f) <> 0 ->
  bloom_hash f i e = Ok (bip37_index (lenZ (vData f)) (nTweak f) i e).
Proof. exact bloom_hash_ok. Qed.

(* insert sets exactly the scheduled bits and contains tests exactly them – for EVERY filter
   (any data, any nHashFuncs / tweak / flags, the 0xff and empty shortcuts included);
   neither ever raises *)
Theorem C20_insert : forall f e,
  insert f e = Ok (with_data f (spec_insert (vData f) (nHashFuncs f) (nTweak f) e)).
Proof. exact insert_spec. Qed.
Theorem C20_contains : forall f e,
  contains f e = Ok (spec_contains (vData f) (nHashFuncs f) (nTweak f) e).
Proof. exact contains_spec. Qed.

(* (2) histories.  After ANY list of inserts / queries / serialise-deserialise steps from ANY
   initial filter the state is the reference state ... *)
Theorem C20_history_state : forall ops f,
  fst (run_ops f ops) =
  with_data f (fst (spec_run (vData f) (nHashFuncs f) (nTweak f) (map sop_of ops))).
Proof. exact run_ops_state. Qed.
(* ... every answer is the reference answer and no step raises (filter fits the wire,
   elements constructible) ... *)
Theorem C20_history_answers : forall ops f, wire_ok f -> forallb valid_op ops = true ->
  snd (run_ops f ops) = map Ok (snd (spec_run (vData f) (nHashFuncs f) (nTweak f) (map sop_of ops))).
Proof. exact run_ops_answers. Qed.
(* ... the bits set are exactly the initial ones ∪ the BIP37-scheduled bits of the inserted
   elements; length, nHashFuncs, nTweak, nFlags never change ... *)
Theorem C20_history_bits : forall f ops m, 0 <= m < 8 * lenZ (vData f) ->
  let f' := fst (run_ops f ops) in
  bit_at (vData f') m =
    bit_at (vData f) m ||
    existsb (fun e => existsb (Z.eqb m) (schedule (lenZ (vData f)) (nHashFuncs f) (nTweak f) e))
            (inserted (map sop_of ops))
  /\ length (vData f') = length (vData f)
  /\ nHashFuncs f' = nHashFuncs f /\ nTweak f' = nTweak f /\ nFlags f' = nFlags f.
Proof. exact history_bits. Qed.
(* ... and an inserted element (bytes or COutPoint) is reported as contained after any
   further history: no false negatives *)
Theorem C20_no_false_negatives : forall f0 ops1 e b ops2, elem_bytes e = Ok b ->
  contains_elem (fst (run_ops f0 (ops1 ++ OInsert e :: ops2))) e = Ok true.
Proof. exact no_false_negatives. Qed.

(* (3) the constructor respects the protocol maxima for EVERY value (finite, infinite, nan,
   raising) of the two float expressions involving math.log, and starts all-zero *)
Theorem C20_caps : forall (fsize : res fval) (fhash : Z -> res fval) tweak flags f,
  ctor fsize fhash tweak flags = Ok f ->
  0 <= lenZ (vData f) <= MAX_FILTER_BYTES /\ nHashFuncs f <= MAX_FUNCS /\
  vData f = zeros (length (vData f)) /\ nTweak f = tweak /\ nFlags f = flags.
Proof. exact ctor_caps. Qed.
Theorem C20_ctor_succeeds : forall (q : Q) (fhash : Z -> res fval) tweak flags,
  0 <= Qnum q -> (forall n, exists y, fhash n = Ok (FFin y)) ->
  exists f, ctor (Ok (FFin q)) fhash tweak flags = Ok f.
Proof. exact ctor_succeeds. Qed.

(* (4) wire form: var-bytes vData, uint32 nHashFuncs, uint32 nTweak, uint8 nFlags; serialise
   then deserialise returns the same four fields, hence the same answer to every query *)
Theorem C20_wire_round_trip : forall f, wire_ok f ->
  exists w, filter_serialize f = Ok w /\ filter_deserialize w = Ok f /\
            w = spec_wire (vData f) (nHashFuncs f) (nTweak f) (nFlags f).
Proof. exact wire_round_trip. Qed.
Theorem C20_wire_decode : forall d nh tw fl, wire_ranges nh tw fl = true -> lenZ d <= MAX_SIZE ->
  filter_deserialize (spec_wire d nh tw fl) = Ok (mkFilter d nh tw fl).
Proof. exact deserialize_wire. Qed.
Theorem C20_round_trip_answers : forall f, wire_ok f ->
  fst (step f ORoundTrip) = f /\ snd (step f ORoundTrip) = Ok 0 /\
  forall w f', filter_serialize f = Ok w -> filter_deserialize w = Ok f' ->
    vData f' = vData f /\ nHashFuncs f' = nHashFuncs f /\ nTweak f' = nTweak f /\ nFlags f' = nFlags f /\
    forall e, contains_elem f' e = contains_elem f e.
Proof. exact round_trip_answers. Qed.

(* (5) empty data (possible on the wire with any nHashFuncs): matches every element, insert
   is a no-op – F17, refuted before the fix (ZeroDivisionError) *)
Theorem C20_empty : forall f e, vData f = [] -> contains f e = Ok true /\ insert f e = Ok f.
Proof. exact empty_filter. Qed.

(* non-vacuity: the hypotheses are met, both answers occur, the caps bind, the wire is used *)
Example C20_nonvacuous :
  let f0 := mkFilter (zeros 5) 3 0x7fffffff 1 in
  let e1 := EBytes [x01; x02; x03; x04; x05] in
  let e2 := EOutPoint (repeat xab 32) 7 in
  wire_ok f0 /\
  MurmurHash3 0xFBA4C795 [] = Ok 0x6a396f08 /\
  MurmurHash3 0 [x00; x11; x22; x33; x44; x55; x66] = Ok 0xb074502c /\
  snd (run_ops f0 [OContains e1; OInsert e1; ORoundTrip; OContains e1; OContains e2; OInsert e2; OContains e2])
    = [Ok 0; Ok 0; Ok 0; Ok 1; Ok 0; Ok 0; Ok 1] /\
  bytes_eqb (vData (fst (run_ops f0 [OInsert e1]))) (zeros 5) = false /\
  match ctor (Ok (FFin (1000000 # 1))) (fun _ => Ok (FFin (99 # 1))) 0 0 with
  | Ok f => (lenZ (vData f) =? 36000) && (nHashFuncs f =? 50) | Err _ => false end = true /\
  match ctor (Ok (FFin (77 # 2))) (fun _ => Ok (FFin (13 # 2))) 0 0 with
  | Ok f => (lenZ (vData f) =? 4) && (nHashFuncs f =? 6) | Err _ => false end = true /\
  filter_deserialize [x00; x03; x00; x00; x00; x00; x00; x00; x00; x01] = Ok (mkFilter [] 3 0 1).
Proof.
  cbv zeta. split.
  - split; [vm_compute; reflexivity | vm_compute; discriminate].
  - repeat split; vm_compute; reflexivity.
Qed.

Print Assumptions C20_murmur.
Print Assumptions C20_bloom_hash.
Print Assumptions C20_insert.
Print Assumptions C20_contains.
Print Assumptions C20_history_state.
Print Assumptions C20_history_answers.
Print Assumptions C20_history_bits.
Print Assumptions C20_no_false_negatives.
Print Assumptions C20_caps.
Print Assumptions C20_ctor_succeeds.
Print Assumptions C20_wire_round_trip.
Print Assumptions C20_wire_decode.
Print Assumptions C20_round_trip_answers.
Print Assumptions C20_empty.
