(* Props/C02.v – Identifiers: txid ignores witness, wtxid covers it, block hash = header
   hash.  Stated for an arbitrary hash function H (the library uses double SHA-256). *)
From BV Require Import Common.Base Common.Codec Common.Tx Gen.Core Spec.Wire Model.Wire Model.Ident Proofs.Wire Proofs.Ident.

Theorem C02_txid : forall H t, (length (tx_wit t) <= length (tx_vin t))%nat ->
  get_txid H t = Ok (H (wire_tx_stripped t)).
Proof. exact txid_stripped. Qed.
Theorem C02_txid_ignores_witness : forall H t w,
  (length (tx_wit t) <= length (tx_vin t))%nat -> (length w <= length (tx_vin t))%nat ->
  get_txid H (set_wit t w) = get_txid H t.
Proof. exact txid_indep. Qed.
Theorem C02_wtxid : forall H t, wf_tx MAX_SIZE t -> get_hash H t = Ok (H (wire_tx t)).
Proof. exact wtxid_full. Qed.
(* wtxid = txid when no stack is non-empty; otherwise the two preimages differ, so equal
   identifiers would be an explicit collision of H on those two strings *)
Theorem C02_wtxid_vs_txid : forall H t, wf_tx MAX_SIZE t ->
  (has_witness t = false -> get_hash H t = get_txid H t) /\
  (has_witness t = true -> wire_tx t <> wire_tx_stripped t /\
     (get_hash H t = get_txid H t -> H (wire_tx t) = H (wire_tx_stripped t))).
Proof.
  intros H t W.
  assert (L : (length (tx_wit t) <= length (tx_vin t))%nat).
  { destruct W as (_ & _ & _ & _ & _ & _ & _ & _ & [E|E]); rewrite E; simpl; lia. }
  rewrite (wtxid_full H t W), (txid_stripped H t L). split.
  - intros HW. apply (forms_coincide t W) in HW. now rewrite HW.
  - intros HW. split; [|congruence]. intros E. apply (forms_coincide t W) in E. congruence.
Qed.
Theorem C02_block_hash : forall H b vtx,
  block_hash H b = H (wire_header (b_hdr b)) /\
  block_hash H {| b_hdr := b_hdr b; b_vtx := vtx |} = block_hash H b.
Proof. intros H b vtx. split; [apply block_hash_header|apply block_hash_indep]. Qed.

Example C02_nonvacuous :
  let t := {| tx_version := 1; tx_vin := [{| ti_prevout := {| op_hash := repeat x22 32; op_n := 0 |}; ti_script := []; ti_seq := 0 |}];
              tx_vout := []; tx_wit := [[[x01]]]; tx_lock := 0 |} in
  has_witness t = true /\ get_txid (fun x => x) t = get_txid (fun x => x) (set_wit t [[]]) /\
  get_hash (fun x => x) t <> get_txid (fun x => x) t.
Proof. vm_compute. repeat split; congruence. Qed.

Print Assumptions C02_txid.
Print Assumptions C02_txid_ignores_witness.
Print Assumptions C02_wtxid.
Print Assumptions C02_wtxid_vs_txid.
Print Assumptions C02_block_hash.
