(* Props/C16.v – context-free transaction and block checks accept exactly the
   rule-conforming objects (DESIGN.md section 5, C16; Appendix D.3/D.4).
   Statements only; every proof is [exact <lemma>].
   MODEL: Model/Check.v (CheckTransaction / CheckBlockHeader / CheckBlock of the tree after
   the fixes of F10, F11, F12; F1 fixed earlier).  SPEC: Spec/Check.v (valid_tx, valid_block).
   The theorems quantify over ALL transactions / blocks whose fields are in wire range
   (tx_in_range / block_in_range: the values a deserialised or range-checked object can
   hold; outside it the Python serialisers raise struct.error, which the total encoders of
   Model/Wire.v do not model), every hash function H with 32-byte digests, each of the four
   chains, both settings of fCheckPoW and fCheckMerkleRoot and every current time. *)
From BV Require Import Common.Base Common.Hash Common.Tx Gen.Core.
From BV Require Import Spec.Wire Spec.Merkle Spec.Compact Spec.Script Spec.Check.
From BV Require Import Model.Check Proofs.CheckTx Proofs.CheckBlock.

(* CheckTransaction accepts exactly the valid transactions of the selected chain ... *)
Theorem C16_check_tx : forall (cp : chain_params) (t : tx), tx_in_range t ->
  (check_tx cp t = Ok tt <-> valid_tx cp t).
Proof. exact check_tx_iff. Qed.
(* ... and every rejection is an error of the validation family *)
Theorem C16_check_tx_errors : forall (cp : chain_params) (t : tx) (e : exn), tx_in_range t ->
  check_tx cp t = Err e -> is_validation e = true.
Proof. exact check_tx_errors. Qed.

(* CheckBlock accepts exactly the valid blocks: header (proof of work if requested,
   timestamp at most two hours ahead), non-empty, stripped size and weight limits, exactly
   the first transaction a coinbase, every transaction INCLUDING the coinbase valid, txids
   pairwise distinct, at most 20,000 legacy sigops over all transactions, and (if requested)
   merkle root = reference root and, whenever some witness stack is non-empty, the BIP141
   commitment in the last matching coinbase output *)
Theorem C16_check_block : forall (H : bytes -> bytes), (forall x, length (H x) = 32%nat) ->
  forall (cp : chain_params), In cp chains ->
  forall (b : block) (fCheckPoW fCheckMerkleRoot : bool) (cur_time : Z), block_in_range b ->
  (check_block H cp b fCheckPoW fCheckMerkleRoot cur_time = Ok tt
   <-> valid_block H cp cur_time fCheckPoW fCheckMerkleRoot b).
Proof. exact check_block_iff_chains. Qed.
(* every rejection – from the header, a transaction or the block rules – is an error of the
   validation family; in particular no IndexError / CScriptInvalidError / ValueError escapes *)
Theorem C16_check_block_errors : forall (H : bytes -> bytes), (forall x, length (H x) = 32%nat) ->
  forall (cp : chain_params), In cp chains ->
  forall (b : block) (fCheckPoW fCheckMerkleRoot : bool) (cur_time : Z) (e : exn), block_in_range b ->
  check_block H cp b fCheckPoW fCheckMerkleRoot cur_time = Err e -> is_validation e = true.
Proof. exact check_block_errors_chains. Qed.

(* the executable oracle the correspondence run judges IMPL with is the Prop of the theorems *)
Theorem C16_oracle_tx : forall cp t, valid_txb cp t = true <-> valid_tx cp t.
Proof. exact valid_txb_iff. Qed.
Theorem C16_oracle_block : forall H cp now fp fm b, valid_blockb H cp now fp fm b = true <-> valid_block H cp now fp fm b.
Proof. exact valid_blockb_iff. Qed.
(* "every running total": the k-th entry is the sum of the first k+1 output values *)
Theorem C16_running_totals : forall l acc k s, nth_error (running_totals acc l) k = Some s ->
  s = acc + zsum (firstn (S k) l).
Proof. exact running_totals_nth. Qed.

(* the limits and chain parameters regenerated from /repo are those of the protocol
   (the SPEC writes the limits as literals; this ties Gen/Core.v to them) *)
Theorem C16_limits :
  MAX_BLOCK_SIZE = 1000000 /\ MAX_BLOCK_WEIGHT = 4000000 /\ MAX_BLOCK_SIGOPS = 20000 /\
  WITNESS_COINBASE_SCRIPTPUBKEY_MAGIC = commit_magic /\
  map cp_max_money chains = [21000000 * 100000000; 21000000 * 100000000; 21000000 * 100000000; 21000000 * 100000000] /\
  map cp_pow_limit chains = [2^224 - 1; 2^224 - 1; 0x377ae * 2^216; 2^255 - 1].
Proof. exact limits_are_consensus. Qed.

(* ---------- non-vacuity: block 0 of the main chain, with the real double SHA-256 ---------- *)
Definition gen_script : bytes := [x04;xff;xff;x00;x1d;x01;x04;x45;x54;x68;x65;x20;x54;x69;x6d;x65;x73;x20;x30;x33;x2f;x4a;x61;x6e;x2f;x32;x30;x30;x39;x20;x43;x68;x61;x6e;x63;x65;x6c;x6c;x6f;x72;x20;x6f;x6e;x20;x62;x72;x69;x6e;x6b;x20;x6f;x66;x20;x73;x65;x63;x6f;x6e;x64;x20;x62;x61;x69;x6c;x6f;x75;x74;x20;x66;x6f;x72;x20;x62;x61;x6e;x6b;x73].
Definition gen_spk : bytes := [x41;x04;x67;x8a;xfd;xb0;xfe;x55;x48;x27;x19;x67;xf1;xa6;x71;x30;xb7;x10;x5c;xd6;xa8;x28;xe0;x39;x09;xa6;x79;x62;xe0;xea;x1f;x61;xde;xb6;x49;xf6;xbc;x3f;x4c;xef;x38;xc4;xf3;x55;x04;xe5;x1e;xc1;x12;xde;x5c;x38;x4d;xf7;xba;x0b;x8d;x57;x8a;x4c;x70;x2b;x6b;xf1;x1d;x5f;xac].
Definition gen_root : bytes := [x3b;xa3;xed;xfd;x7a;x7b;x12;xb2;x7a;xc7;x2c;x3e;x67;x76;x8f;x61;x7f;xc8;x1b;xc3;x88;x8a;x51;x32;x3a;x9f;xb8;xaa;x4b;x1e;x5e;x4a].
Definition gen_cb (script : bytes) (value : Z) : tx :=
  {| tx_version := 1;
     tx_vin := [{| ti_prevout := {| op_hash := zeros 32; op_n := 4294967295 |}; ti_script := script; ti_seq := 4294967295 |}];
     tx_vout := [{| to_value := value; to_script := gen_spk |}]; tx_wit := []; tx_lock := 0 |}.
Definition gen_block (time : Z) : block :=
  {| b_hdr := {| h_version := 1; h_prev := zeros 32; h_merkle := gen_root; h_time := time;
                 h_bits := 486604799; h_nonce := 2083236893 |};
     b_vtx := [gen_cb gen_script 5000000000] |}.
Definition mainnet : chain_params := nth 0 chains (nth 3 chains (nth 3 chains (nth 3 chains (nth 3 chains
  {| cp_name := []; cp_pow_limit := 0; cp_max_money := 0; cp_magic := []; cp_pubkey_addr := 0; cp_script_addr := 0; cp_secret_key := 0; cp_hrp := [] |})))).

(* a toy "hash" with 32-byte digests (the theorems hold for every such H); the genesis block
   itself runs with the real hash through corpus/C16/genesis.case on every check *)
Definition H0 (x : bytes) : bytes := firstn 32 (x ++ zeros 32).
Definition toy_block (time : Z) : block :=
  {| b_hdr := {| h_version := 1; h_prev := zeros 32; h_merkle := H0 (wire_tx_stripped (gen_cb gen_script 5000000000));
                 h_time := time; h_bits := 486604799; h_nonce := 0 |};
     b_vtx := [gen_cb gen_script 5000000000] |}.

Example C16_nonvacuous :
  (forall x, length (H0 x) = 32%nat) /\
  (* a one-transaction block with the right merkle root passes; with another root it does not *)
  check_block H0 mainnet (toy_block 1000) false true 1000 = Ok tt /\
  valid_blockb H0 mainnet 1000 false true (toy_block 1000) = true /\
  check_block H0 mainnet {| b_hdr := b_hdr (gen_block 1000); b_vtx := b_vtx (toy_block 1000) |} false true 1000 = Err CheckBlockErr /\
  (* the genesis header has the work it claims (real double SHA-256) *)
  check_block_header sha256d mainnet (b_hdr (gen_block 1231006505)) true 1231006505 = Ok tt /\
  (* the timestamp boundary: exactly two hours ahead of the clock passes, one second more does not *)
  check_block_header sha256d mainnet (b_hdr (gen_block 1231006505)) false (1231006505 - 7200) = Ok tt /\
  check_block_header sha256d mainnet (b_hdr (gen_block 1231006505)) false (1231006505 - 7201) = Err CheckHeaderErr /\
  (* an empty block is refused, whatever its header says *)
  check_block sha256d mainnet {| b_hdr := b_hdr (gen_block 0); b_vtx := [] |} false false 0 = Err CheckBlockErr /\
  (* the coinbase itself is checked: 1-byte script, value above the money supply *)
  check_tx mainnet (gen_cb gen_script 5000000000) = Ok tt /\
  check_tx mainnet (gen_cb [x51] 5000000000) = Err CheckTxErr /\
  check_tx mainnet (gen_cb gen_script 2100000000000001) = Err CheckTxErr /\
  valid_txb mainnet (gen_cb gen_script 2100000000000000) = true /\
  valid_txb mainnet (gen_cb gen_script 2100000000000001) = false.
Proof.
  split.
  - intros x. unfold H0. rewrite firstn_length, app_length. unfold zeros. rewrite repeat_length. lia.
  - repeat split; vm_compute; reflexivity.
Qed.

Print Assumptions C16_check_tx.
Print Assumptions C16_check_tx_errors.
Print Assumptions C16_check_block.
Print Assumptions C16_check_block_errors.
Print Assumptions C16_oracle_tx.
Print Assumptions C16_oracle_block.
Print Assumptions C16_running_totals.
Print Assumptions C16_limits.
