(* Props/C04.v – BIP143 witness-v0 signature hash equals the specification over the full
   field range (lock times and sequence numbers to 2^32-1, amounts to 2^63-1, all 256
   hash-type bytes), for an arbitrary hash function H. *)
From BV Require Import Common.Base Common.Codec Common.Tx Gen.Sighash Spec.Wire Spec.Bip143 Model.Bip143 Proofs.Bip143.

(* the writer's formats and constants as regenerated from the source today *)
Theorem C04_layout :
  fmt_bip143 = [U32; I32; I64; U32; U32; I32] /\ lits_bip143 = [31; 32] /\
  SIGHASH_ALL = 1 /\ SIGHASH_NONE = 2 /\ SIGHASH_SINGLE = 3 /\ SIGHASH_ANYONECANPAY = 128 /\ SIGVERSION_WITNESS_V0 = 1.
Proof. repeat split; reflexivity. Qed.

Theorem C04_bip143 : forall H script t idx x ht amount,
  in_i 4 (tx_version t) -> Forall (fun y => in_u 4 (ti_seq y)) (tx_vin t) -> in_u 4 (tx_lock t) ->
  nth_error (tx_vin t) idx = Some x ->            (* a valid input index *)
  in_i 8 amount -> 0 <= ht < 256 ->
  bip143 H script t (Z.of_nat idx) ht amount = Ok (H (bip143_preimage H script t idx x ht amount)).
Proof. exact bip143_correct. Qed.

(* the three zeroing rules of the reference, spelled out *)
Theorem C04_zeroing_rules : forall H t idx ht, 0 <= ht < 256 ->
  (128 <= ht -> hashPrevouts H t ht = zero32 /\ hashSequence H t ht = zero32) /\
  (ht mod 32 = 2 \/ ht mod 32 = 3 -> hashSequence H t ht = zero32) /\
  (ht mod 32 = 2 -> hashOutputs H t idx ht = zero32) /\
  (ht mod 32 = 3 -> hashOutputs H t idx ht =
      match nth_error (tx_vout t) idx with Some o => H (wire_txout o) | None => zero32 end) /\
  (ht mod 32 <> 2 -> ht mod 32 <> 3 -> hashOutputs H t idx ht = H (concat (map wire_txout (tx_vout t)))) /\
  (ht < 128 -> hashPrevouts H t ht = H (concat (map (fun x => wire_outpoint (ti_prevout x)) (tx_vin t)))) /\
  (ht < 128 -> ht mod 32 <> 2 -> ht mod 32 <> 3 ->
      hashSequence H t ht = H (concat (map (fun x => u 4 (ti_seq x)) (tx_vin t)))).
Proof.
  intros H t idx ht Hh. unfold hashPrevouts, hashSequence, hashOutputs, ht_anyone, ht_base.
  rewrite (Z.mod_small ht 256) by exact Hh.
  assert (T : forall P Q R : Prop, P -> Q -> R -> P /\ Q /\ R) by tauto.
  split; [intros G; split|]; [ | |split; [intros G|split; [intros G|split; [intros G|split; [intros G2 G3|split; [intros G|intros G G2 G3]]]]]];
    repeat match goal with
           | |- context [?a <=? ?b] => destruct (Z.leb_spec a b)
           | |- context [?a =? ?b] => destruct (Z.eqb_spec a b)
           end; cbn [orb]; try reflexivity; try lia.
Qed.

Example C04_nonvacuous :
  let x := {| ti_prevout := {| op_hash := repeat x33 32; op_n := 7 |}; ti_script := []; ti_seq := 0xffffffff |} in
  let t := {| tx_version := 2; tx_vin := [x]; tx_vout := []; tx_wit := []; tx_lock := 0x80000000 |} in
  bip143 (fun b => b) [x51] t 0 0x83 (2^63 - 1) = Ok (bip143_preimage (fun b => b) [x51] t 0 x 0x83 (2^63 - 1)) /\
  length (bip143_preimage (fun b => b) [x51] t 0 x 0x83 (2^63 - 1)) = 158%nat.
Proof. vm_compute. split; reflexivity. Qed.

Print Assumptions C04_layout.
Print Assumptions C04_bip143.
Print Assumptions C04_zeroing_rules.
