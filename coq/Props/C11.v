(* Props/C11.v – Bech32 segwit addresses: BIP173 codec and guaranteed detection of up to
   four substitutions.  Statements only; every proof is [exact <lemma>].
   MODEL = Model/Bech32.v (bitcoin/segwit_addr.py, bitcoin/bech32.py, constants from
   Gen/Bech32.v); SPEC = Spec/Bech32.v (BIP173: GF(32) generator polynomial, bit-string
   regrouping, the predicate bip173_segwit, the canonical address spec_address). *)
From BV Require Import Common.Base Gen.Bech32 Model.Bech32 Spec.Bech32
  Proofs.Bech32Poly Proofs.Bech32Bits Proofs.Bech32 Proofs.Bech32Ref
  Proofs.Bech32Radix Proofs.Bech32Distance Proofs.Bech32Detect.

(* ---------------- checksum arithmetic ---------------- *)
(* bech32_polymod is GF(2)-linear: the fold over the pointwise xor of two equal-length value
   lists, started from the xor of two states, is the xor of the two folds *)
Theorem C11_polymod_linear : forall vs ws c1 c2, length vs = length ws ->
  polymod_from (Z.lxor c1 c2) (map2 Z.lxor vs ws) = Z.lxor (polymod_from c1 vs) (polymod_from c2 ws).
Proof. exact polymod_from_xor. Qed.

(* the 30-bit value computed by bech32_polymod is the remainder of the polynomial
   1, v_1, ..., v_n  modulo the BIP173 generator polynomial over GF(32) *)
Theorem C11_polymod_is_bch_remainder : forall vs, Forall is5 vs ->
  bech32_polymod vs = pack (poly_rem (1 :: vs)).
Proof. exact polymod_pack. Qed.

Theorem C11_verify_is_bip173_checksum : forall hrp vals, Forall printable hrp -> Forall is5 vals ->
  (bech32_verify_checksum hrp vals = true <-> checksum_ok hrp vals).
Proof. exact verify_checksum_ok. Qed.

(* bech32_create_checksum returns the BIP173 checksum symbols, and appending them makes
   bech32_verify_checksum true *)
Theorem C11_create_checksum : forall hrp data, Forall printable hrp -> Forall is5 data ->
  bech32_create_checksum hrp data = spec_checksum hrp data /\
  bech32_verify_checksum hrp (data ++ bech32_create_checksum hrp data) = true /\
  Forall is5 (bech32_create_checksum hrp data) /\ length (bech32_create_checksum hrp data) = 6%nat.
Proof.
  intros hrp data Ph Fd. split; [exact (create_checksum_spec hrp data Ph Fd)|exact (created_checksum_verifies hrp data Ph Fd)].
Qed.

(* ---------------- convertbits (every pair of widths f, t >= 1) ---------------- *)
Theorem C11_convertbits_pad : forall (f t : nat) data, (1 <= f)%nat -> (1 <= t)%nat -> Forall (inF f) data ->
  exists ret k, convertbits data (Z.of_nat f) (Z.of_nat t) true = Ok (Some ret) /\
                bitstring t ret = bitstring f data ++ repeat false k /\ (k < t)%nat /\ Forall (inT t) ret.
Proof. intros f t data Hf Ht. exact (convertbits_pad f t Hf Ht data). Qed.

Theorem C11_convertbits_nopad : forall (f t : nat) data, (1 <= f)%nat -> (1 <= t)%nat -> (f <= t)%nat ->
  Forall (inF f) data ->
  (exists r, convertbits data (Z.of_nat f) (Z.of_nat t) false = Ok r) /\
  forall ret, convertbits data (Z.of_nat f) (Z.of_nat t) false = Ok (Some ret) <->
              (Forall (inT t) ret /\ exists pad, bitstring f data = bitstring t ret ++ pad /\
                                                 (length pad < f)%nat /\ Forall (fun b => b = false) pad).
Proof. intros f t data Hf Ht Hft Fd. exact (convertbits_nopad f t Hf Ht data Fd Hft). Qed.

(* ---------------- decoding accepts exactly the BIP173 strings ---------------- *)
Theorem C11_bech32_decode_iff : forall s hrp data,
  bech32_decode s = Some (hrp, data) <->
  exists vals, bech32_valid s hrp vals /\ data = firstn (length vals - 6) vals.
Proof. exact bech32_decode_iff. Qed.

(* decode(hrp, s) returns (ver, prog) exactly when s is a BIP173 segwit address of (ver, prog)
   under the expected prefix; otherwise it returns None; it never raises *)
Theorem C11_decode_iff : forall hrp s ver prog,
  decode hrp s = Ok (Some (ver, prog)) <-> bip173_segwit hrp s ver prog.
Proof. exact decode_iff. Qed.
Theorem C11_decode_total : forall hrp s, exists r, decode hrp s = Ok r.
Proof. exact decode_total. Qed.

(* the executable reference decoder used as the oracle of the correspondence run decides the
   same predicate, hence is the function the MODEL computes *)
Theorem C11_oracle_decides_predicate : forall hrp s ver prog,
  ref_decode hrp s = Some (ver, prog) <-> bip173_segwit hrp s ver prog.
Proof. exact ref_decode_iff. Qed.
Theorem C11_decode_is_oracle : forall hrp s, decode hrp s = Ok (ref_decode hrp s).
Proof. exact decode_is_ref. Qed.

Theorem C11_mixed_case_rejected : forall hrp s, lower_s s <> s -> upper_s s <> s ->
  bech32_decode s = None /\ decode hrp s = Ok None.
Proof. exact mixed_case_rejected. Qed.

(* ---------------- encoding ---------------- *)
(* for every encodable (hrp, ver, prog) – valid lower-case prefix, version 0..16, program of
   2..40 bytes (20 or 32 for version 0), at most 90 characters – encode returns the canonical
   BIP173 address, which satisfies the predicate and decodes back to (ver, prog) *)
Theorem C11_encode_decode : forall hrp ver prog, encodable hrp ver prog ->
  encode hrp ver prog = Ok (Some (spec_address hrp ver prog)) /\
  bip173_segwit hrp (spec_address hrp ver prog) ver prog /\
  decode hrp (spec_address hrp ver prog) = Ok (Some (ver, prog)).
Proof. exact encode_spec. Qed.

(* version 0, 20 or 32 bytes, any valid lower-case prefix the 90-character limit admits *)
Theorem C11_encode_decode_v0 : forall hrp prog, valid_hrp hrp -> Forall is8 prog ->
  (length prog = 20%nat /\ (length hrp <= 50)%nat) \/ (length prog = 32%nat /\ (length hrp <= 30)%nat) ->
  encode hrp 0 prog = Ok (Some (spec_address hrp 0 prog)) /\
  decode hrp (spec_address hrp 0 prog) = Ok (Some (0, prog)).
Proof.
  intros hrp prog Vh F8 H. destruct (encode_spec hrp 0 prog (v0_encodable hrp prog Vh F8 H)) as (A & _ & B).
  exact (conj A B).
Qed.

(* versions 0..16 and lengths 2..40 at the codec level: encodable is exactly the arithmetic
   length condition *)
Theorem C11_encodable_by_length : forall hrp ver prog, valid_hrp hrp -> Forall is8 prog ->
  (2 <= length prog <= 40)%nat -> 0 <= ver <= 16 -> (ver = 0 -> length prog = 20%nat \/ length prog = 32%nat) ->
  (length hrp + 8 + (8 * length prog + 4) / 5 <= 90)%nat -> encodable hrp ver prog.
Proof. exact encodable_by_length. Qed.

(* and outside that domain encode returns None (for any prefix text, 5-bit version, bytes) *)
Theorem C11_encode_total : forall hrp ver prog, is5 ver -> Forall is8 prog ->
  encode hrp ver prog = Ok (ref_encode hrp ver prog) /\
  (forall a, ref_encode hrp ver prog = Some a <-> (encodable hrp ver prog /\ a = spec_address hrp ver prog)).
Proof. intros hrp ver prog Hv F8. split; [exact (encode_is_ref hrp ver prog Hv F8)|intros a; exact (ref_encode_iff hrp ver prog a)]. Qed.

(* CBech32Data(s) / str(CBech32Data.from_bytes(ver, prog)) under the selected prefix *)
Theorem C11_CBech32Data : forall hrp,
  (forall s, cb_new hrp s = match ref_decode hrp s with
                            | Some (v, p) => Ok (v, map z2b p)
                            | None => Err Bech32Err
                            end) /\
  (forall ver bs, encodable hrp ver (map b2z bs) ->
     cb_str hrp (ver, bs) = Ok (spec_address hrp ver (map b2z bs)) /\
     cb_new hrp (spec_address hrp ver (map b2z bs)) = Ok (ver, bs)).
Proof. intros hrp. split; [exact (cb_new_is_ref hrp)|exact (cb_str_spec hrp)]. Qed.

(* ---------------- distance and detection ---------------- *)
(* the reflection theorem: the syndromes of all 3,766,036 error words of weight <= 2 on 89
   positions are pairwise distinct *)
Theorem C11_syndromes_distinct : NoDup (map syn63 (words2 89)).
Proof. exact syndromes_nodup_89. Qed.

(* no non-zero error word of Hamming weight <= 4 over 5-bit symbols and length <= 89 is a
   codeword (minimum distance >= 5) *)
Theorem C11_distance : forall e : list Z,
  (length e <= 89)%nat -> Forall is5 e -> (1 <= weight e <= 4)%nat -> polymod_from 0 e <> 0.
Proof. exact bch_distance. Qed.

(* every corruption of a valid address by one to four character substitutions is rejected,
   unless it only changes letter case – and then it decodes to the SAME (ver, prog) or is
   rejected (mixed case); it never decodes to a different program *)
Theorem C11_detect_substitutions : forall hrp s s' ver prog,
  decode hrp s = Ok (Some (ver, prog)) -> length s' = length s -> (1 <= hamming s s' <= 4)%nat ->
  decode hrp s' = Ok None \/ (lower_s s' = lower_s s /\ decode hrp s' = Ok (Some (ver, prog))).
Proof. exact detect_substitutions. Qed.
Theorem C11_detect_substitutions_weak : forall hrp s s' ver prog,
  decode hrp s = Ok (Some (ver, prog)) -> length s' = length s -> (1 <= hamming s s' <= 4)%nat ->
  decode hrp s' = Ok None \/ lower_s s' = lower_s s.
Proof. exact detect_substitutions_weak. Qed.

(* the constants regenerated from /repo are the BIP173 ones *)
Theorem C11_constants :
  bech32_charset = CHARSET /\
  forallb (fun top => zeqb_list (unpack (gen_sel top)) (map (gf_mul top) GENPOLY)) (zrange 32) = true /\
  (bech32_polymod_init, bech32_top_shift, bech32_mask, bech32_shift, bech32_gen_range, bech32_bit_mask) =
  (1, 25, 33554431, 5, 5, 1).
Proof. split; [exact charset_eq|]. split; vm_compute; reflexivity. Qed.

(* non-vacuity: a BIP173 test vector satisfies the hypotheses, both outcomes occur *)
Definition ex_addr : list Z :=   (* bc1qw508d6qejxtdg4y5r3zarvary0c5xw7kv8f3t4 *)
  [98;99;49;113;119;53;48;56;100;54;113;101;106;120;116;100;103;52;121;53;114;51;122;97;114;118;97;
   114;121;48;99;53;120;119;55;107;118;56;102;51;116;52].
Definition ex_prog : list Z := [117;30;118;232;25;145;150;212;84;148;28;69;209;179;163;35;241;67;59;214].
Definition ex_bad : list Z :=    (* the same with the last character changed to '5' *)
  firstn 41 ex_addr ++ [53].
Example C11_nonvacuous :
  decode [98;99] ex_addr = Ok (Some (0, ex_prog)) /\
  encode [98;99] 0 ex_prog = Ok (Some ex_addr) /\
  spec_address [98;99] 0 ex_prog = ex_addr /\
  encodableb [98;99] 0 ex_prog = true /\
  (length ex_bad = length ex_addr /\ hamming ex_addr ex_bad = 1%nat /\ decode [98;99] ex_bad = Ok None) /\
  decode [98;99] (upper_s ex_addr) = Ok (Some (0, ex_prog)) /\
  decode [116;98] ex_addr = Ok None /\
  distance_check 4 = true.
Proof. vm_compute. repeat split; reflexivity. Qed.

Print Assumptions C11_polymod_linear.
Print Assumptions C11_polymod_is_bch_remainder.
Print Assumptions C11_verify_is_bip173_checksum.
Print Assumptions C11_create_checksum.
Print Assumptions C11_convertbits_pad.
Print Assumptions C11_convertbits_nopad.
Print Assumptions C11_bech32_decode_iff.
Print Assumptions C11_decode_iff.
Print Assumptions C11_decode_total.
Print Assumptions C11_oracle_decides_predicate.
Print Assumptions C11_decode_is_oracle.
Print Assumptions C11_mixed_case_rejected.
Print Assumptions C11_encode_decode.
Print Assumptions C11_encode_decode_v0.
Print Assumptions C11_encodable_by_length.
Print Assumptions C11_encode_total.
Print Assumptions C11_CBech32Data.
Print Assumptions C11_syndromes_distinct.
Print Assumptions C11_distance.
Print Assumptions C11_detect_substitutions.
Print Assumptions C11_detect_substitutions_weak.
Print Assumptions C11_constants.
