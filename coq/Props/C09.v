(* Props/C09.v – Value semantics: immutables never change, mutables never serve stale
   identity, copies are isolated.  Statements only; every proof is [exact <lemma>].

   The heap model (Model/Heap.v) is parametric in the value-level serialiser [ser], the hash
   [H], Python's hash() of bytes [pyh], GetTxid [txid], FindAndDelete [fad] and
   is_witness_scriptpubkey [wspk]: every theorem holds for ALL such functions.
   [wf] (Proofs/Heap.v) is the invariant: allocated = below the allocation pointer, no
   dangling reference, DEEP IMMUTABILITY (an object of an immutable class refers only to
   objects of immutable classes, never to a list), filled caches of immutable objects hold
   the recomputed value.  It holds of the empty heap and is preserved by every operation,
   hence along ARBITRARY operation lists ([run]). *)
From stdpp Require Import gmap.
From BV Require Import Common.Base Common.Tx Model.Heap Proofs.Heap Proofs.HeapCopy Proofs.HeapStep Proofs.HeapThms.

Section C09.
Variable ser : aval -> res bytes.
Variable H : bytes -> bytes.
Variable pyh : bytes -> Z.
Variable txid : tx -> res bytes.
Variable fad : bytes -> bytes.
Variable wspk : bytes -> bool.
Notation wf := (wf ser H pyh).
Notation step := (step ser H pyh txid fad wspk).
Notation run := (run ser H pyh txid fad wspk).

(* the invariant: initial heap, every single operation, every history *)
Theorem C09_invariant : wf empty_heap /\
  (forall h o, wf h -> wf (fst (step h o))) /\
  (forall h ops, wf h -> wf (fst (run h ops))).
Proof.
  split; [apply wf_empty|]. split.
  - intros h o W. apply (step_good' ser H pyh txid fad wspk h o W).
  - intros h ops W. apply (run_wf ser H pyh txid fad wspk ops h W).
Qed.

(* IMMUTABLE_FROZEN.  For an object l of an immutable class and ANY operation list:
   its value is unchanged; assigning or deleting any attribute raises AttributeError and
   changes nothing (same for edits of the vin/vout of an immutable transaction: the heap is
   unchanged and an exception is raised); a cache slot, once filled, equals the value
   recomputed from the object in the heap reached. *)
Theorem C09_immutable_frozen : forall h l ops, wf h -> mut_at h l = Some false ->
  abs (fst (run h ops)) l = abs h l.
Proof. exact (immutable_frozen ser H pyh txid fad wspk). Qed.
Theorem C09_immutable_rejects : forall h l o, wf h -> get h l = Some o -> o_mut o = false ->
  (forall f v, step h (OSetAttr l f v) = (h, ObsExn AttributeError)) /\
  (forall f, step h (ODelAttr l f) = (h, ObsExn AttributeError)).
Proof. exact (immutable_rejects ser H pyh txid fad wspk). Qed.
Theorem C09_immutable_list_ops : forall h t o out x i, wf h -> get h t = Some o -> o_mut o = false ->
  (exists e, step h (OAppend t out x) = (h, ObsExn e)) /\
  (exists e, step h (OSetItem t out i x) = (h, ObsExn e)) /\
  (exists e, step h (ODelItem t out i) = (h, ObsExn e)).
Proof. exact (immutable_list_ops ser H pyh txid fad wspk). Qed.
Theorem C09_caches_valid : forall h ops l o, wf h -> get (fst (run h ops)) l = Some o -> o_mut o = false ->
  (forall g, o_ghash o = Some g -> on_abs (fst (run h ops)) l (v_hash ser H) = Ok g) /\
  (forall z, o_phash o = Some z -> on_abs (fst (run h ops)) l (v_pyhash ser pyh) = Ok z).
Proof. exact (caches_valid ser H pyh txid fad wspk). Qed.

(* MUTABLE_FRESH.  After any history, every observation on every object – of a mutable or an
   immutable class, cached or not – is the value-level function of what the object denotes
   NOW: serialize, GetHash, hash(), GetTxid, ==. *)
Theorem C09_mutable_fresh : forall h ops l, wf h ->
  let h' := fst (run h ops) in
  snd (step h' (OSerialize l)) = obs_res ObsBytes (on_abs h' l ser) /\
  snd (step h' (OGetHash l)) = obs_res ObsBytes (on_abs h' l (v_hash ser H)) /\
  snd (step h' (OPyHash l)) = obs_res ObsInt (on_abs h' l (v_pyhash ser pyh)) /\
  snd (step h' (OGetTxid l)) = obs_res ObsBytes (on_abs h' l (v_txid txid)) /\
  forall l2 va vb, abs h' l = Some va -> abs h' l2 = Some vb ->
    snd (step h' (OEq l l2)) = obs_res ObsBool (v_eq ser va vb).
Proof. exact (observations_fresh_run ser H pyh txid fad wspk). Qed.

(* FRAME.  [abs h x] depends only on the objects in the footprint of x; an operation changes
   the value (and the footprint) of x only if it writes ([wt]) an object x reaches; the same
   along histories that never write into the current footprint of x. *)
Theorem C09_abs_frame : forall h h' x, agree_on (fp h x) h h' -> abs h' x = abs h x.
Proof. exact abs_frame. Qed.
Theorem C09_frame_step : forall h o x, wf h -> (x < h_next h)%nat -> (forall w, wt h o w -> ~ In w (fp h x)) ->
  abs (fst (step h o)) x = abs h x /\ fp (fst (step h o)) x = fp h x.
Proof. exact (frame_step ser H pyh txid fad wspk). Qed.
Theorem C09_frame_run : forall ops h x, wf h -> (x < h_next h)%nat ->
  safe_for ser H pyh txid fad wspk x h ops -> abs (fst (run h ops)) x = abs h x.
Proof. exact (frame_run ser H pyh txid fad wspk). Qed.
(* a set R of mutable objects that nothing outside R points to is untouched by every history
   that does not name an element of R, and stays sealed *)
Theorem C09_isolation : forall (R : loc -> Prop) ops h, wf h -> (forall l, R l -> mut_at h l = Some true) -> sealed R h ->
  Forall (avoids R) ops ->
  (forall l, R l -> core_at (fst (run h ops)) l = core_at h l) /\ sealed R (fst (run h ops)).
Proof. exact (isolation ser H pyh txid fad wspk). Qed.

(* COPY_ISOLATION, mutable copy  c := CMutableTransaction.from_tx(l):  same value, every
   object it reaches is fresh and mutable (it shares nothing mutable, nothing at all in
   fact: wit is a value); later operations not naming the copy's objects never change the
   copy; later operations not naming an older mutable object never change anything older. *)
Theorem C09_copy_isolation_mutable : forall h l h1 c, wf h -> step h (OFromTx true l) = (h1, ObsLoc c) ->
  abs h1 c = abs h l /\ mut_at h1 c = Some true /\
  (forall y, In y (fp h1 c) -> (h_next h <= y)%nat /\ mut_at h1 y = Some true) /\
  (forall ops, Forall (avoids (fun m => (h_next h <= m)%nat /\ (m < h_next h1)%nat)) ops ->
     abs (fst (run h1 ops)) c = abs h1 c) /\
  (forall ops, Forall (avoids (fun m => (m < h_next h)%nat /\ mut_at h m = Some true)) ops ->
     forall x, (x < h_next h)%nat -> abs (fst (run h1 ops)) x = abs h x).
Proof. exact (mutable_copy_isolated ser H pyh txid fad wspk). Qed.
(* COPY_ISOLATION, immutable snapshot  s := CTransaction.from_tx(l):  same value, immutable
   class (so, by deep immutability, it shares only immutable objects), the very same object
   when l is already immutable; NO later operation changes it; later operations not naming an
   older mutable object never change anything older. *)
Theorem C09_copy_isolation_snapshot : forall h l h1 s, wf h -> step h (OFromTx false l) = (h1, ObsLoc s) ->
  abs h1 s = abs h l /\ mut_at h1 s = Some false /\
  (mut_at h l = Some false -> s = l /\ h1 = h) /\
  (forall ops, abs (fst (run h1 ops)) s = abs h1 s) /\
  (forall ops, Forall (avoids (fun m => (m < h_next h)%nat /\ mut_at h m = Some true)) ops ->
     forall x, (x < h_next h)%nat -> abs (fst (run h1 ops)) x = abs h x).
Proof. exact (snapshot_isolated ser H pyh txid fad wspk). Qed.
(* everything an immutable object reaches is immutable *)
Theorem C09_deep_immutable : forall h l y, wf h -> mut_at h l = Some false -> In y (fp h l) -> mut_at h y = Some false.
Proof. intros h l y W. exact (fpn_imm ser H pyh 3 h W l y). Qed.

(* SIGHASH_FRAME.  SignatureHash and VerifyScript (one OP_CHECKSIG) leave every object that
   existed before the call exactly as it was (class, body AND cache slots), hence its value.
   Partial: that the digest equals the value-level legacy signature hash is not proved here. *)
Theorem C09_sighash_frame_partial : forall h l script idx ht, wf h ->
  let h1 := fst (step h (OSigHash l script idx ht)) in
  let h2 := fst (step h (OVerify l script idx ht)) in
  (forall x, (x < h_next h)%nat -> get h1 x = get h x /\ abs h1 x = abs h x) /\
  (forall x, (x < h_next h)%nat -> get h2 x = get h x /\ abs h2 x = abs h x).
Proof. exact (sighash_frame ser H pyh txid fad wspk). Qed.
End C09.

(* non-vacuity: a concrete history on a well-formed heap – a mutable transaction, its
   immutable snapshot and its mutable copy; an edit of the original changes only the original;
   the snapshot refuses assignment; the statements' hypotheses are met *)
Example C09_nonvacuous :
  let ser := fun v : aval => match v with ATx t => Ok (le_enc 4 (tx_version t)) | _ => Ok [] end in
  let st := step ser (fun b => b) (fun _ => 0) (fun _ => Ok []) (fun s => s) (fun _ => false) in
  let t := {| tx_version := 1; tx_vin := [{| ti_prevout := {| op_hash := repeat x11 32; op_n := 0 |}; ti_script := []; ti_seq := 7 |}];
              tx_vout := []; tx_wit := []; tx_lock := 0 |} in
  let h0 := fst (st empty_heap (ONewTx true t)) in          (* objects 0..4: outpoint, input, two lists, tx *)
  let h1 := fst (st h0 (OFromTx false 4%nat)) in              (* snapshot = object 7 *)
  let h2 := fst (st h1 (OFromTx true 4%nat)) in               (* mutable copy = object 12 *)
  let h3 := fst (st h2 (OSetAttr 1%nat FSeq (RInt 9))) in     (* edit the original's input *)
  snd (st h0 (OFromTx false 4%nat)) = ObsLoc 7%nat /\ snd (st h1 (OFromTx true 4%nat)) = ObsLoc 12%nat /\
  mut_at h3 7%nat = Some false /\ mut_at h3 12%nat = Some true /\
  abs h3 7%nat = Some (ATx t) /\ abs h3 12%nat = Some (ATx t) /\ abs h3 4%nat <> Some (ATx t) /\
  snd (st h3 (OSetAttr 7%nat FVersion (RInt 2))) = ObsExn AttributeError /\
  snd (st h3 (OGetHash 7%nat)) = ObsBytes (le_enc 4 1).
Proof. vm_compute. repeat split; try reflexivity. congruence. Qed.

Print Assumptions C09_invariant.
Print Assumptions C09_immutable_frozen.
Print Assumptions C09_immutable_rejects.
Print Assumptions C09_immutable_list_ops.
Print Assumptions C09_caches_valid.
Print Assumptions C09_mutable_fresh.
Print Assumptions C09_abs_frame.
Print Assumptions C09_frame_step.
Print Assumptions C09_frame_run.
Print Assumptions C09_isolation.
Print Assumptions C09_copy_isolation_mutable.
Print Assumptions C09_copy_isolation_snapshot.
Print Assumptions C09_deep_immutable.
Print Assumptions C09_sighash_frame_partial.
