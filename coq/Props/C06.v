(* Props/C06.v – Script evaluation agrees with reference Script semantics on every program.
   MODEL = Model/ScriptEval.v (scripteval.py as written: end-topped Python lists with every
   stack[-n] / pop / del / insert an explicit IndexError branch, the elif chain in its order,
   _CheckMultiSig's index arithmetic and while loop, FindAndDelete over raw_iter, both
   asserts of VerifyScript), SPEC = Spec/ScriptRef.v (reference semantics, DESIGN.md
   Appendix A).  Both are parametric in the signature-check oracle [checksig sig pk code']
   (code' = subscript without CODESEPARATORs; false on an empty signature) and in the three
   hash functions; sizes below 2^31 bytes/items are assumed of the initial stack and of the
   hash outputs (beyond, Python's struct.pack(">I", len) inside bn2vch would overflow). *)
From BV Require Import Common.Base Common.Tx Common.ScriptFlags Gen.ScriptConsts Gen.EvalConsts
  Model.Script Model.ScriptEval Spec.Script Spec.ScriptRef Proofs.ScriptEval Proofs.ScriptFull.

(* the regenerated limits are the reference ones *)
Theorem C06_limits :
  MAX_SCRIPT_SIZE = 10000 /\ MAX_SCRIPT_ELEMENT_SIZE = 520 /\ MAX_SCRIPT_OPCODES = 201 /\
  MAX_STACK_ITEMS = 1000 /\ MAX_NUM_SIZE = 4.
Proof. exact limits_ok. Qed.
(* every opcode value: the always-failing set, and the branch of the elif chain it selects,
   are those of the reference opcode table *)
Theorem C06_opcode_table : forall op, 0 <= op < 256 ->
  mem op DISABLED_OPCODES = disabled op /\ kind_of op = ref_kind op.
Proof. intros op H. split; [exact (disabled_ok op H) | exact (kind_ok op H)]. Qed.

(* EvalScript: for EVERY script (any byte string), every initial stack, every flag set:
   the evaluation fails exactly when the reference fails – and then with EvalScriptError,
   nothing else – and otherwise leaves exactly the reference's final stack *)
Theorem C06_eval : forall checksig ripemd160 sha1 sha256 fl,
  (forall pk code, checksig [] pk code = false) ->
  (forall x, small (ripemd160 x) /\ small (sha1 x) /\ small (sha256 x)) ->
  forall script st, Forall small st -> lenZ st < 2^31 ->
  eval_script checksig ripemd160 sha1 sha256 fl (rev st) script
  = match eval_ref checksig ripemd160 sha1 sha256 fl st script with Some fin => Ok (rev fin) | None => Err EvalErr end.
Proof. intros cs r s1 s2 fl CE HS script st A B. exact (proj1 (eval_full cs r s1 s2 fl CE HS script st A B)). Qed.

(* VerifyScript: for every scriptSig / scriptPubKey (any byte strings) and every flag
   combination in which CLEANSTACK comes with P2SH: accepted exactly when the reference
   accepts; every rejection is an EvalScriptError or a VerifyScriptError *)
Theorem C06_verify : forall checksig ripemd160 sha1 sha256 fl,
  (forall pk code, checksig [] pk code = false) ->
  (forall x, small (ripemd160 x) /\ small (sha1 x) /\ small (sha256 x)) ->
  (f_cleanstack fl = true -> f_p2sh fl = true) ->
  forall scriptSig scriptPubKey,
  match verify_script checksig ripemd160 sha1 sha256 fl scriptSig scriptPubKey with
  | Ok _ => verify_ref checksig ripemd160 sha1 sha256 fl scriptSig scriptPubKey = true
  | Err e => verify_ref checksig ripemd160 sha1 sha256 fl scriptSig scriptPubKey = false /\ (e = EvalErr \/ e = VerifyErr)
  end.
Proof. exact verify_full. Qed.

Example C06_nonvacuous :
  let cs := fun sig _ _ : bytes => negb (is_nil sig) in let h := fun x : bytes => firstn 20 x in
  let fl := {| f_p2sh := true; f_nulldummy := true; f_cleanstack := true; f_discourage_nops := false |} in
  (* 2 3 ADD 5 EQUAL ; IF 1 ELSE RETURN ENDIF *)
  let s := [x52; x53; x93; x55; x87; x63; x51; x67; x6a; x68] in
  eval_ref cs h h h fl [] s = Some [[x01]] /\ eval_script cs h h h fl [] s = Ok [[x01]] /\
  eval_ref cs h h h fl [] [x6a] = None /\ eval_script cs h h h fl [] [x6a] = Err EvalErr /\
  (* <sig> | <pk> CHECKSIG ;   0 <sig> 1 | <pk> 1 CHECKMULTISIG *)
  verify_ref cs h h h fl [x01; x30] [x01; x02; xac] = true /\ verify_script cs h h h fl [x01; x30] [x01; x02; xac] = Ok tt /\
  verify_ref cs h h h fl [x00; x01; x30] [x51; x01; x02; x51; xae] = true /\
  verify_script cs h h h fl [x00; x01; x30] [x51; x01; x02; x51; xae] = Ok tt /\
  verify_script cs h h h fl [x51; x01; x30] [x51; x01; x02; x51; xae] = Err EvalErr.   (* NULLDUMMY *)
Proof. vm_compute. repeat split; reflexivity. Qed.

Print Assumptions C06_limits.
Print Assumptions C06_opcode_table.
Print Assumptions C06_eval.
Print Assumptions C06_verify.
