(* Props/C06.v – Script evaluation agrees with reference Script semantics.
   MODEL = Model/ScriptEval.v (scripteval.py as written), SPEC = Spec/ScriptRef.v (reference
   semantics).  Both are parametric in the signature-check oracle and the hash functions.
   The full statement is
     forall script st flags,  eval_script (rev st) script
        = match eval_ref st script with Some fin => Ok (rev fin) | None => Err EvalErr end
   Proved here: the statement for every script whose operations include no
   CHECKSIG / CHECKMULTISIG (all pushes, flow control in executed and unexecuted branches,
   stack manipulation, 4-byte arithmetic and comparison, hashes, CODESEPARATOR, NOPs,
   disabled and reserved opcodes, all four limits) – [C06_eval_partial_nosig]; the signature
   opcodes are covered by the correspondence run only (see PARTIAL in tools/props/C06.py). *)
From BV Require Import Common.Base Common.Tx Common.ScriptFlags Gen.ScriptConsts Gen.EvalConsts
  Model.Script Model.ScriptEval Spec.Script Spec.ScriptRef Proofs.ScriptEval.

(* the regenerated limits are the reference ones *)
Theorem C06_limits :
  MAX_SCRIPT_SIZE = 10000 /\ MAX_SCRIPT_ELEMENT_SIZE = 520 /\ MAX_SCRIPT_OPCODES = 201 /\
  MAX_STACK_ITEMS = 1000 /\ MAX_NUM_SIZE = 4.
Proof. exact limits_ok. Qed.
(* every opcode value: the always-failing set, and the branch of the elif chain it selects,
   are those of the reference opcode table *)
Theorem C06_opcode_table : forall op, 0 <= op < 256 ->
  mem op DISABLED_OPCODES = disabled op /\ kind_of op = ref_kind op.
Proof. intros op H. split; [exact (disabled_ok op H) | exact (kind_ok op H)]. Qed.

(* one operation of the loop: same effect on the (reversed) stacks, altstack, condition stack
   and counter, EvalScriptError exactly when the reference fails *)
Theorem C06_step_partial_nosig : forall checksig ripemd160 sha1 sha256 fl,
  (forall x, small (ripemd160 x) /\ small (sha1 x) /\ small (sha256 x)) ->
  forall scriptIn r pb op d idx rest code,
  Spec.Script.get_op code = Ok (op, d, rest) -> inv r -> nosig op = true ->
  match ref_step checksig ripemd160 sha1 sha256 fl op d rest r with
  | Some r' => (exists pb', step checksig ripemd160 sha1 sha256 fl scriptIn (abs r pb) (mk_sop op d idx) = Ok (abs r' pb')) /\ inv r'
  | None => step checksig ripemd160 sha1 sha256 fl scriptIn (abs r pb) (mk_sop op d idx) = Err EvalErr
  end.
Proof. exact step_sim. Qed.

(* EvalScript: fails exactly when the reference fails – and then with EvalScriptError, no
   other exception –, otherwise leaves exactly the reference's final stack; for every
   script without signature-checking operations, every initial stack (items shorter than
   2^31 bytes, fewer than 2^31 of them), every flag set, any hash functions with outputs
   shorter than 2^31 bytes *)
Theorem C06_eval_partial_nosig : forall checksig ripemd160 sha1 sha256 fl,
  (forall x, small (ripemd160 x) /\ small (sha1 x) /\ small (sha256 x)) ->
  forall scriptIn st, Forall small st -> lenZ st < 2^31 ->
  forallb (fun o => nosig (sop_opcode o)) (fst (ref_parse scriptIn)) = true ->
  eval_script checksig ripemd160 sha1 sha256 fl (rev st) scriptIn
  = match eval_ref checksig ripemd160 sha1 sha256 fl st scriptIn with Some fin => Ok (rev fin) | None => Err EvalErr end.
Proof. exact eval_nosig. Qed.

Example C06_nonvacuous :
  let cs := fun _ _ _ : bytes => false in let h := fun x : bytes => x in
  let fl := {| f_p2sh := true; f_nulldummy := false; f_cleanstack := false; f_discourage_nops := false |} in
  (* 2 3 ADD 5 EQUAL ; IF 1 ELSE RETURN ENDIF *)
  let s := [x52; x53; x93; x55; x87; x63; x51; x67; x6a; x68] in
  forallb (fun o => nosig (sop_opcode o)) (fst (ref_parse s)) = true /\
  eval_ref cs h h h fl [] s = Some [[x01]] /\ eval_script cs h h h fl [] s = Ok [[x01]] /\
  eval_ref cs h h h fl [] [x6a] = None /\ eval_script cs h h h fl [] [x6a] = Err EvalErr.
Proof. vm_compute. repeat split; reflexivity. Qed.

Print Assumptions C06_limits.
Print Assumptions C06_opcode_table.
Print Assumptions C06_step_partial_nosig.
Print Assumptions C06_eval_partial_nosig.
