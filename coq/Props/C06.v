(* Props/C06.v – Script evaluation agrees with reference Script semantics (work in progress:
   statements proved so far; see PARTIAL in tools/props/C06.py). *)
From BV Require Import Common.Base Common.Tx Gen.ScriptConsts Gen.EvalConsts Model.Script Model.ScriptEval Spec.ScriptRef Proofs.ScriptEval.

Theorem C06_limits :
  MAX_SCRIPT_SIZE = 10000 /\ MAX_SCRIPT_ELEMENT_SIZE = 520 /\ MAX_SCRIPT_OPCODES = 201 /\
  MAX_STACK_ITEMS = 1000 /\ MAX_NUM_SIZE = 4.
Proof. exact limits_ok. Qed.
Theorem C06_disabled : forall op, 0 <= op < 256 -> mem op DISABLED_OPCODES = disabled op.
Proof. exact disabled_ok. Qed.

Print Assumptions C06_limits.
Print Assumptions C06_disabled.
