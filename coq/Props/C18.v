(* Props/C18.v – P2P messages: framing, payload layout and stream parsing exact and
   invertible.  Statements only; proofs are applications of Proofs/P2P*.v.
   H is an arbitrary function with at least 4 output bytes (the library uses double
   SHA-256); the magic is any 4-byte string (all chains); wfS = field values in wire range
   (Spec/P2P.v wf_msg with serialize.MAX_SIZE and net.CADDR_TIME_VERSION);
   fits m = the payload is at most MAX_SIZE bytes (what ser_read accepts). *)
From BV Require Import Common.Base Common.Hash Common.Codec Common.Tx Common.P2PMsg Gen.Core Gen.Layouts Gen.P2P
  Spec.Wire Spec.P2P Model.Wire Model.P2P Proofs.Wire Proofs.P2P Proofs.P2PSpec Proofs.P2PFrame Proofs.P2PTop.

(* what the translator reads from the source today: header build/parse, formats written =
   formats read, layouts of the 17 msg_ser / msg_deser pairs *)
Theorem C18_layouts :
  hdr_pack = [LE U32] /\ hdr_unpack = [LE U32] /\ hdr_pad = [x00] /\ hdr_cmd_width = 12 /\ hdr_ck_len_write = 4 /\
  hdr_size = 24 /\ hdr_magic_len = 4 /\ hdr_cmd_slice = (4, 16) /\ hdr_cmd_split = [x00] /\ hdr_len_slice = (16, 20) /\
  hdr_ck_slice = (20, 24) /\ hdr_body_lo = 24 /\ hdr_ck_check = Some 4 /\
  (ver_quirk_from, ver_quirk_to, ver_addrfrom_min, ver_height_min, ver_relay_min, ver_relay_default) = (10300, 300, 106, 209, 70001, 1) /\
  CADDR_TIME_VERSION <= PROTO_VERSION /\ CADDR_PCHRESERVED = IPV4_COMPAT /\ IPV4_COMPAT = v4_mapped_prefix /\
  caddr_prefix_slice = (0, 12) /\ caddr_v4_slice = (12, 16) /\ u256vec_assert_len = 32 /\
  lay_msg_version_ser = [LFmt (LE I32); LFmt (LE U64); LFmt (LE I64); LObjT N_CAddress; LObjT N_CAddress; LFmt (LE U64); LVarStr; LFmt (LE I32); LFmt (LE U8)] /\
  lay_msg_version_deser = lay_msg_version_ser /\
  lay_msg_verack_ser = [] /\ lay_msg_verack_deser = [] /\
  lay_msg_addr_ser = [LVec N_CAddress] /\ lay_msg_addr_deser = [LVec N_CAddress] /\
  lay_msg_alert_ser = [LObj N_CAlert] /\ lay_msg_alert_deser = [LObj N_CAlert] /\
  lay_msg_inv_ser = [LVec N_CInv] /\ lay_msg_inv_deser = [LVec N_CInv] /\
  lay_msg_getdata_ser = [LVec N_CInv] /\ lay_msg_getdata_deser = [LVec N_CInv] /\
  lay_msg_notfound_ser = [LVec N_CInv] /\ lay_msg_notfound_deser = [LVec N_CInv] /\
  lay_msg_getblocks_ser = [LObj N_CBlockLocator; LRawW] /\ lay_msg_getblocks_deser = [LObj N_CBlockLocator; LRaw 32] /\
  lay_msg_getheaders_ser = [LObj N_CBlockLocator; LRawW] /\ lay_msg_getheaders_deser = [LObj N_CBlockLocator; LRaw 32] /\
  lay_msg_headers_ser = [LVec N_CBlockHeader] /\ lay_msg_headers_deser = [LVec N_CBlockHeader] /\
  lay_msg_tx_ser = [LObj N_CTransaction] /\ lay_msg_tx_deser = [LObj N_CTransaction] /\
  lay_msg_block_ser = [LObj N_CBlock] /\ lay_msg_block_deser = [LObj N_CBlock] /\
  lay_msg_getaddr_ser = [] /\ lay_msg_getaddr_deser = [] /\
  lay_msg_ping_ser = [LFmt (LE U64)] /\ lay_msg_ping_deser = [LFmt (LE U64)] /\
  lay_msg_pong_ser = [LFmt (LE U64)] /\ lay_msg_pong_deser = [LFmt (LE U64)] /\
  lay_msg_reject_ser = [LVarStr; LFmt CH; LVarStr] /\ lay_msg_reject_deser = [LVarStr; LFmt CH; LVarStr] /\
  lay_msg_mempool_ser = [] /\ lay_msg_mempool_deser = [] /\
  lay_CAddress_ser = [LFmt (LE U32); LFmt (LE U64); LRawW; LFmt (BE U16)] /\
  lay_CAddress_deser = [LFmt (LE U32); LFmt (LE U64); LRaw 16; LFmt (BE U16)] /\
  lay_CInv_ser = [LFmt (LE I32); LRawW] /\ lay_CInv_deser = [LFmt (LE I32); LRaw 32] /\
  lay_CBlockLocator_ser = [LFmt (LE I32); LVec256] /\ lay_CBlockLocator_deser = [LFmt (LE I32); LVec256] /\
  lay_CAlert_ser = [LVarStr; LVarStr] /\ lay_CAlert_deser = [LVarStr; LVarStr] /\
  lay_uint256VectorSerializer_deser = [LVarInt; LRaw 32] /\
  (forall m, command_of m = spec_command m /\ lookup (command_of m) messagemap = Some (class_of m)).
Proof.
  repeat (split; [first [reflexivity | vm_compute; congruence]|]).
  intros m. split; [apply command_spec | apply command_dispatch].
Qed.

(* ---- framing produces the protocol's bytes (all types; outside F15 / F16) ---- *)
(* FULL STATEMENT (refuted by the code today, see the two _refuted theorems):
     forall H magic m, wfS m -> lenZ (payload_enc m) < 2^32 -> to_bytes H magic m = spec_frame H magic m *)
Theorem C18_frame_layout_partial : forall H magic m, wfS m -> conform m -> lenZ (payload_enc m) < 2^32 ->
  to_bytes H magic m = spec_frame H magic m /\ msg_ser m = Ok (payload_enc m).
Proof. exact frame_layout_ser. Qed.
(* F15: `headers` entries are written without the per-header transaction count *)
Theorem C18_headers_layout_refuted : exists m, wfS m /\
  length (payload_enc m) = 161%nat /\ length (spec_payload m) = 163%nat /\
  (forall H magic, to_bytes H magic m <> spec_frame H magic m) /\
  parse_frame sha256d mainnet_magic (spec_frame sha256d mainnet_magic m) <> (Ok (Some m), []).
Proof. exact headers_refuted. Qed.
(* F16: `version` always carries the relay byte, and it is read only from 70001 on *)
Theorem C18_version_relay_refuted : exists m m', wfS m /\
  (forall H magic, to_bytes H magic m <> spec_frame H magic m) /\
  length (payload_enc m) = S (length (spec_payload m)) /\
  parse_frame sha256d mainnet_magic (to_bytes sha256d mainnet_magic m) = (Ok (Some m'), []) /\ m' <> m.
Proof. exact version_relay_refuted. Qed.
Theorem C18_version_10300_refuted :
  parse_frame sha256d mainnet_magic (to_bytes sha256d mainnet_magic (ex_version 10300 1)) = (Ok (Some (ex_version 300 1)), []).
Proof. exact version_10300_witness. Qed.

(* ---- parsing a frame: exact consumption, same field values, byte-identical re-framing ---- *)
(* full for 16 types; for `version` the statement holds from nVersion 70001 on (F16) *)
Theorem C18_roundtrip_partial : forall H magic, length magic = 4%nat -> (forall x, (4 <= length (H x))%nat) ->
  forall m rest, wfS m -> high m -> fits m ->
  parse_frame H magic (to_bytes H magic m ++ rest) = (Ok (Some (carried PROTO_VERSION m)), rest) /\
  to_bytes H magic (carried PROTO_VERSION m) = to_bytes H magic m.
Proof. exact roundtrip. Qed.
(* ... and for 209 <= nVersion < 70001 other than 10300 when fRelay is True *)
Theorem C18_version_low_roundtrip_partial : forall H magic, length magic = 4%nat -> (forall x, (4 <= length (H x))%nat) ->
  forall v rest, wfS (MVersion v) -> fits (MVersion v) ->
  ver_height_min <= v_version v < ver_relay_min -> v_version v <> ver_quirk_from -> v_relay v = ver_relay_default ->
  parse_frame H magic (to_bytes H magic (MVersion v) ++ rest) = (Ok (Some (norm_msg (MVersion v))), rest) /\
  to_bytes H magic (norm_msg (MVersion v)) = to_bytes H magic (MVersion v).
Proof. exact roundtrip_version_low. Qed.
(* a stream of frames: the messages in order, each consuming exactly its frame, clean end *)
Theorem C18_stream_partial : forall H magic, length magic = 4%nat -> (forall x, (4 <= length (H x))%nat) ->
  forall ms fuel, Forall (fun m => wfS m /\ high m /\ fits m) ms -> (length ms <= fuel)%nat ->
  parse_stream H magic fuel (concat (map (to_bytes H magic) ms)) = (expect H magic ms, Ok tt, []) /\
  map fst (expect H magic ms) = map (fun m => Some (carried PROTO_VERSION m)) ms.
Proof. exact stream. Qed.

(* ---- rejection; none of these is returned as a message (the result is an exception) ---- *)
Theorem C18_wrong_magic : forall H magic, length magic = 4%nat -> (forall x, (4 <= length (H x))%nat) ->
  forall h rest, length h = 24%nat -> firstn 4 h <> magic ->
  parse_frame H magic (h ++ rest) = (Err ValueError, rest).
Proof. exact wrong_magic. Qed.
Theorem C18_bad_checksum : forall H magic, length magic = 4%nat -> (forall x, (4 <= length (H x))%nat) ->
  forall c12 ck body rest, length c12 = 12%nat -> length ck = 4%nat -> lenZ body <= MAX_SIZE -> ck <> firstn 4 (H body) ->
  parse_frame H magic (magic ++ c12 ++ le_enc 4 (lenZ body) ++ ck ++ body ++ rest) = (Err ValueError, rest).
Proof. exact bad_checksum. Qed.
Theorem C18_truncated : forall H magic, length magic = 4%nat -> (forall x, (4 <= length (H x))%nat) ->
  forall m p q, wfS m -> fits m -> to_bytes H magic m = p ++ q -> q <> [] ->
  parse_frame H magic p = (Err Trunc, []).
Proof. exact truncated. Qed.
Theorem C18_length_not_honoured : forall H magic, length magic = 4%nat -> (forall x, (4 <= length (H x))%nat) ->
  forall c12 L ck avail, length c12 = 12%nat -> length ck = 4%nat -> 0 <= L < 2^32 -> lenZ avail < L ->
  parse_frame H magic (magic ++ c12 ++ le_enc 4 L ++ ck ++ avail) =
    if L >? MAX_SIZE then (Err SerErr, avail) else (Err Trunc, []).
Proof. exact length_not_honoured. Qed.
(* any stream of >= 24 bytes: never more than the declared length is read after the header *)
Theorem C18_no_overread : forall H magic, length magic = 4%nat -> (forall x, (4 <= length (H x))%nat) ->
  forall mg c12 L ck tail r rest, length mg = 4%nat -> length c12 = 12%nat -> length ck = 4%nat -> 0 <= L < 2^32 ->
  parse_frame H magic (mg ++ c12 ++ le_enc 4 L ++ ck ++ tail) = (r, rest) ->
  exists c, tail = c ++ rest /\ lenZ c <= L.
Proof. exact no_overread. Qed.
Theorem C18_unknown_command : forall H magic, length magic = 4%nat -> (forall x, (4 <= length (H x))%nat) ->
  forall c12 body rest, length c12 = 12%nat -> lenZ body <= MAX_SIZE -> lookup (take_until x00 c12) messagemap = None ->
  parse_frame H magic (magic ++ c12 ++ le_enc 4 (lenZ body) ++ firstn 4 (H body) ++ body ++ rest) = (Ok None, rest).
Proof. exact unknown_command. Qed.
(* F14 (fixed): with the length unpacked as a signed int the corrupted frame was returned as
   a message and the whole stream swallowed; the format read from the source today refuses it *)
Theorem C18_signed_length_refuted :
  parse_frame_gen f14_H f14_magic (LE I32) f14_stream = (Ok (Some MVerack), []) /\
  parse_frame f14_H f14_magic f14_stream = (Err SerErr, to_bytes f14_H f14_magic (MPing 7)).
Proof. exact f14_signed_swallows. Qed.

(* non-vacuity: a two-frame stream (version 70015 with an IPv6 peer, ping) under the real hash *)
Definition ex_v6 : netaddr := {| na_services := 1033; na_ip := [x20;x01;x0d;xb8;x00;x00;x00;x00;x00;x00;x00;x00;x00;x00;x00;x01]; na_port := 18333 |}.
Definition ex_ver : msg :=
  MVersion {| v_version := 70015; v_services := 1033; v_time := 1700000000; v_to := ex_v6; v_from := Some (ex_addr x02);
              v_nonce := Some 18446744073709551615; v_subver := Some [x2f; x78; x2f]; v_height := Some 800000; v_relay := 0 |}.
Example C18_nonvacuous :
  length (to_bytes sha256d mainnet_magic ex_ver) = 113%nat /\
  to_bytes sha256d mainnet_magic ex_ver = spec_frame sha256d mainnet_magic ex_ver /\
  parse_stream sha256d mainnet_magic 3 (to_bytes sha256d mainnet_magic ex_ver ++ to_bytes sha256d mainnet_magic (MPing 5))
    = ([(Some ex_ver, 32%nat); (Some (MPing 5), 0%nat)], Ok tt, []).
Proof. vm_compute. repeat split; reflexivity. Qed.

Print Assumptions C18_layouts.
Print Assumptions C18_frame_layout_partial.
Print Assumptions C18_headers_layout_refuted.
Print Assumptions C18_version_relay_refuted.
Print Assumptions C18_version_10300_refuted.
Print Assumptions C18_roundtrip_partial.
Print Assumptions C18_version_low_roundtrip_partial.
Print Assumptions C18_stream_partial.
Print Assumptions C18_wrong_magic.
Print Assumptions C18_bad_checksum.
Print Assumptions C18_truncated.
Print Assumptions C18_length_not_honoured.
Print Assumptions C18_no_overread.
Print Assumptions C18_unknown_command.
Print Assumptions C18_signed_length_refuted.
