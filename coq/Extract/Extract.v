(* Extract/Extract.v – extraction of the executable MODEL/SPEC engines to OCaml.
   Directives used: those of the standard files ExtrOcamlBasic and ExtrOcamlZBigInt
   (listed verbatim in TRUSTED_BASE.md); none of our own. *)
From BV Require Import Common.Base Run.All.
Require Extraction.
Require Import ExtrOcamlBasic ExtrOcamlZBigInt.
Extraction "model.ml" dispatch b2z.
