(* Common/Base.v – bytes, results, the exception enum, little-endian integers,
   and the value type exchanged with the correspondence driver.
   Definitions and small lemmas only; no property theorems live here. *)
From Coq Require Export ZArith List Lia Bool.
From Coq.Strings Require Export Byte.
Export ListNotations.
Open Scope Z_scope.
Ltac Zify.zify_post_hook ::= Z.div_mod_to_equations.

(* ---------- exceptions (canonical form of what IMPL raises) ---------- *)
Inductive exn :=
| Trunc | SerErr | ExtraData | StructError | ValueError | AssertionError
| IndexError | KeyError | AttributeError | TypeError | ZeroDivision
| InvalidScript | TruncatedPush | EvalErr | VerifyErr | CheckTxErr | CheckBlockErr
| CheckHeaderErr | CheckPowErr | Base58Invalid | Base58Checksum | Bech32Err
| AddressErr | SecretErr | RpcErr | OutOfFuel | OtherErr | ValidationErr.

Definition exn_code (e : exn) : Z :=
  match e with
  | Trunc => 1 | SerErr => 2 | ExtraData => 3 | StructError => 4 | ValueError => 5
  | AssertionError => 6 | IndexError => 7 | KeyError => 8 | AttributeError => 9
  | TypeError => 10 | ZeroDivision => 11 | InvalidScript => 12 | TruncatedPush => 13
  | EvalErr => 14 | VerifyErr => 15 | CheckTxErr => 16 | CheckBlockErr => 17
  | CheckHeaderErr => 18 | CheckPowErr => 19 | Base58Invalid => 20 | Base58Checksum => 21
  | Bech32Err => 22 | AddressErr => 23 | SecretErr => 24 | RpcErr => 25 | OutOfFuel => 26
  | OtherErr => 27 | ValidationErr => 28
  end.

(* the library's ValidationError family *)
Definition is_validation (e : exn) : bool :=
  match e with
  | EvalErr | VerifyErr | CheckTxErr | CheckBlockErr | CheckHeaderErr | CheckPowErr
  | ValidationErr => true
  | _ => false
  end.

Inductive res (A : Type) := Ok (a : A) | Err (e : exn).
Arguments Ok {A}. Arguments Err {A}.
Definition bind {A B} (r : res A) (f : A -> res B) : res B :=
  match r with Ok a => f a | Err e => Err e end.
Notation "'do' x <- r ; k" := (bind r (fun x => k)) (at level 200, x pattern, r at level 100, k at level 200).

Definition bytes := list byte.

(* ---------- bytes <-> Z ---------- *)
Definition b2z (b : byte) : Z := Z.of_N (Byte.to_N b).
Definition z2b (z : Z) : byte :=
  match Byte.of_N (Z.to_N (z mod 256)) with Some b => b | None => x00 end.
Lemma b2z_range b : 0 <= b2z b < 256.
Proof. unfold b2z. pose proof (Byte.to_N_bounded b). lia. Qed.
Lemma z2b_b2z b : z2b (b2z b) = b.
Proof.
  unfold z2b, b2z. pose proof (Byte.to_N_bounded b).
  rewrite Z.mod_small by lia. rewrite N2Z.id, Byte.of_to_N. reflexivity.
Qed.
Lemma b2z_z2b z : b2z (z2b z) = z mod 256.
Proof.
  unfold z2b, b2z. assert (H : 0 <= z mod 256 < 256) by (apply Z.mod_pos_bound; lia).
  destruct (Byte.of_N (Z.to_N (z mod 256))) eqn:E.
  - apply Byte.to_of_N in E. rewrite E. lia.
  - apply Byte.of_N_None_iff in E. lia.
Qed.
Lemma b2z_inj a b : b2z a = b2z b -> a = b.
Proof. intros H. rewrite <- (z2b_b2z a), <- (z2b_b2z b), H. reflexivity. Qed.

Definition byte_eqb (a b : byte) : bool := Byte.eqb a b.
Fixpoint bytes_eqb (a b : bytes) : bool :=
  match a, b with
  | [], [] => true
  | x :: a', y :: b' => Byte.eqb x y && bytes_eqb a' b'
  | _, _ => false
  end.
Lemma bytes_eqb_eq a : forall b, bytes_eqb a b = true <-> a = b.
Proof.
  induction a as [|x a IH]; intros [|y b]; simpl; split; try congruence; try discriminate.
  - intros H. apply andb_true_iff in H as [H1 H2]. apply Byte.byte_dec_bl in H1.
    apply IH in H2. congruence.
  - intros H. injection H as -> ->. apply andb_true_iff. split.
    + apply Byte.byte_dec_lb. reflexivity.
    + apply IH. reflexivity.
Qed.
Lemma bytes_eqb_refl a : bytes_eqb a a = true.
Proof. apply bytes_eqb_eq. reflexivity. Qed.

Definition zeros (n : nat) : bytes := repeat x00 n.

(* ---------- little endian, n bytes ---------- *)
Fixpoint le_enc (n : nat) (v : Z) : bytes :=
  match n with O => [] | S k => z2b v :: le_enc k (v / 256) end.
Fixpoint le_dec (l : bytes) : Z :=
  match l with [] => 0 | b :: t => b2z b + 256 * le_dec t end.
Lemma le_enc_length n v : length (le_enc n v) = n.
Proof. revert v; induction n; simpl; auto. Qed.
Lemma le_dec_enc n : forall v, 0 <= v < 256 ^ Z.of_nat n -> le_dec (le_enc n v) = v.
Proof.
  induction n as [|k IH]; intros v H.
  - simpl in *. lia.
  - cbn [le_enc le_dec]. rewrite b2z_z2b. rewrite IH.
    + lia.
    + rewrite Nat2Z.inj_succ, Z.pow_succ_r in H by lia. lia.
Qed.
Lemma le_enc_dec l : le_enc (length l) (le_dec l) = l.
Proof.
  induction l as [|b t IH]; cbn [le_enc le_dec length]; [reflexivity|].
  pose proof (b2z_range b). f_equal.
  - replace (b2z b + 256 * le_dec t) with (b2z b + le_dec t * 256) by lia.
    unfold z2b. rewrite Z_mod_plus_full, Z.mod_small by lia. unfold b2z.
    rewrite N2Z.id, Byte.of_to_N. reflexivity.
  - replace ((b2z b + 256 * le_dec t) / 256) with (le_dec t) by lia. exact IH.
Qed.
Lemma le_dec_range l : 0 <= le_dec l < 256 ^ Z.of_nat (length l).
Proof.
  induction l as [|b t IH]; cbn [le_dec length]; [simpl; lia|].
  pose proof (b2z_range b). rewrite Nat2Z.inj_succ, Z.pow_succ_r by lia. lia.
Qed.
(* le_enc depends only on v mod 256^n *)
Lemma le_enc_mod n : forall v, le_enc n (v mod 256 ^ Z.of_nat n) = le_enc n v.
Proof.
  induction n as [|k IH]; intros v; [reflexivity|].
  cbn [le_enc]. rewrite Nat2Z.inj_succ, Z.pow_succ_r by lia.
  assert (P : 0 < 256 ^ Z.of_nat k) by (apply Z.pow_pos_nonneg; lia).
  rewrite Z.rem_mul_r by lia.
  replace (v mod 256 + 256 * ((v / 256) mod 256 ^ Z.of_nat k))
    with (v mod 256 + ((v / 256) mod 256 ^ Z.of_nat k) * 256) by lia.
  f_equal.
  - unfold z2b. rewrite Z_mod_plus_full, Z.mod_mod by lia. reflexivity.
  - rewrite <- (IH (v / 256)). f_equal.
    rewrite Z.div_add by lia. rewrite Z.div_small by (apply Z.mod_pos_bound; lia). lia.
Qed.

(* big endian helpers (ports, sha padding) *)
Definition be_enc (n : nat) (v : Z) : bytes := rev (le_enc n v).
Definition be_dec (l : bytes) : Z := le_dec (rev l).

(* two's complement: struct '<i' '<q' *)
Definition le_enc_signed (n : nat) (v : Z) : bytes :=
  le_enc n (if v <? 0 then v + 256 ^ Z.of_nat n else v).
Definition le_dec_signed (l : bytes) : Z :=
  let u := le_dec l in
  if u <? 256 ^ Z.of_nat (length l) / 2 then u else u - 256 ^ Z.of_nat (length l).

(* ---------- values exchanged with the driver ---------- *)
Inductive val := VInt (z : Z) | VBytes (b : bytes) | VList (l : list val) | VErr (code : Z).

Definition verr (e : exn) : val := VErr (exn_code e).
Definition vbool (b : bool) : val := VInt (if b then 1 else 0).
Definition vres {A} (f : A -> val) (r : res A) : val :=
  match r with Ok a => f a | Err e => verr e end.

Fixpoint val_eqb (a b : val) {struct a} : bool :=
  match a, b with
  | VInt x, VInt y => x =? y
  | VBytes x, VBytes y => bytes_eqb x y
  | VErr x, VErr y => x =? y
  | VList x, VList y =>
      (fix go (l1 l2 : list val) : bool :=
         match l1, l2 with
         | [], [] => true
         | h1 :: t1, h2 :: t2 => val_eqb h1 h2 && go t1 t2
         | _, _ => false
         end) x y
  | _, _ => false
  end.

(* misc list helpers *)
Fixpoint forallb2 {A B} (f : A -> B -> bool) (l1 : list A) (l2 : list B) : bool :=
  match l1, l2 with
  | [], [] => true
  | a :: t1, b :: t2 => f a b && forallb2 f t1 t2
  | _, _ => false
  end.
Definition lenZ {A} (l : list A) : Z := Z.of_nat (length l).
