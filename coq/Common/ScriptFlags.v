(* Common/ScriptFlags.v – the verification flags the interpreter implements *)
From BV Require Import Common.Base.
Record flags := { f_p2sh : bool; f_nulldummy : bool; f_cleanstack : bool; f_discourage_nops : bool }.
