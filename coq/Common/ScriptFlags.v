(* Common/ScriptFlags.v – the verification flags the interpreter implements, and the names
   of the opcode classes both the MODEL (Python elif chain) and the SPEC (opcode table)
   dispatch on *)
From BV Require Import Common.Base.
Record flags := { f_p2sh : bool; f_nulldummy : bool; f_cleanstack : bool; f_discourage_nops : bool }.

Inductive kind :=
| KSmall | KBin | KUn | K2Drop | K2Dup | K2Over | K2Rot | K2Swap | K3Dup
| KMultisig (verify : bool) | KChecksig (verify : bool) | KCodesep | KDepth | KDrop | KDup
| KElse | KEndif | KEqual | KEqualVerify | KFromAlt | KHash160 | KHash256 | KIf (negate : bool)
| KIfdup | KNip | KNop | KNopN | KOver | KPickRoll (roll : bool) | KReturn | KRipemd | KRot | KSize
| KSha1 | KSha256 | KSwap | KToAlt | KTuck | KVerify | KWithin | KBad.
Definition kind_eqb (a b : kind) : bool :=
  match a, b with
  | KSmall, KSmall | KBin, KBin | KUn, KUn | K2Drop, K2Drop | K2Dup, K2Dup | K2Over, K2Over | K2Rot, K2Rot
  | K2Swap, K2Swap | K3Dup, K3Dup | KCodesep, KCodesep | KDepth, KDepth | KDrop, KDrop | KDup, KDup
  | KElse, KElse | KEndif, KEndif | KEqual, KEqual | KEqualVerify, KEqualVerify | KFromAlt, KFromAlt
  | KHash160, KHash160 | KHash256, KHash256 | KIfdup, KIfdup | KNip, KNip | KNop, KNop | KNopN, KNopN
  | KOver, KOver | KReturn, KReturn | KRipemd, KRipemd | KRot, KRot | KSize, KSize | KSha1, KSha1
  | KSha256, KSha256 | KSwap, KSwap | KToAlt, KToAlt | KTuck, KTuck | KVerify, KVerify | KWithin, KWithin
  | KBad, KBad => true
  | KMultisig x, KMultisig y | KChecksig x, KChecksig y | KIf x, KIf y | KPickRoll x, KPickRoll y => Bool.eqb x y
  | _, _ => false
  end.
Lemma kind_eqb_eq a b : kind_eqb a b = true -> a = b.
Proof. destruct a, b; cbn; try discriminate; try reflexivity; intros H; apply eqb_prop in H; now subst. Qed.
