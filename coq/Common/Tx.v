(* Common/Tx.v – value-level transactions, headers and blocks (shared by SPEC and MODEL) *)
From BV Require Import Common.Base.

Record outpoint := { op_hash : bytes; op_n : Z }.
Record txin := { ti_prevout : outpoint; ti_script : bytes; ti_seq : Z }.
Record txout := { to_value : Z; to_script : bytes }.
(* tx_wit: the witness stacks (CTxWitness.vtxinwit[i].scriptWitness.stack); [] = CTxWitness() *)
Record tx := { tx_version : Z; tx_vin : list txin; tx_vout : list txout;
               tx_wit : list (list bytes); tx_lock : Z }.
Record header := { h_version : Z; h_prev : bytes; h_merkle : bytes; h_time : Z; h_bits : Z; h_nonce : Z }.
Record block := { b_hdr : header; b_vtx : list tx }.

Definition is_nil {A} (l : list A) : bool := match l with [] => true | _ => false end.
(* some witness stack is non-empty *)
Definition has_witness (t : tx) : bool := existsb (fun s => negb (is_nil s)) (tx_wit t).
Definition set_wit (t : tx) (w : list (list bytes)) : tx :=
  {| tx_version := tx_version t; tx_vin := tx_vin t; tx_vout := tx_vout t; tx_wit := w; tx_lock := tx_lock t |}.
(* what a (de)serialisation round trip returns: all-empty stacks become "no witness" *)
Definition norm_wit (t : tx) : tx := if has_witness t then t else set_wit t [].
