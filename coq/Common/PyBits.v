(* Common/PyBits.v – bridge between Python's bit operators on ints (Z.land, Z.lor,
   Z.shiftl, Z.shiftr) and arithmetic; proofs first rewrite through these and then use lia. *)
From BV Require Import Common.Base.

Lemma land_ones_mod x n : 0 <= n -> Z.land x (2^n - 1) = x mod 2^n.
Proof. intros. replace (2^n - 1) with (Z.ones n) by (rewrite Z.ones_equiv; lia). now rewrite Z.land_ones. Qed.
Lemma land_1f x : Z.land x 0x1f = x mod 32.
Proof. exact (land_ones_mod x 5 ltac:(lia)). Qed.
Lemma land_ff x : Z.land x 0xff = x mod 256.
Proof. exact (land_ones_mod x 8 ltac:(lia)). Qed.
Lemma land_pow2 c n : 0 <= n -> Z.land c (2^n) = if Z.testbit c n then 2^n else 0.
Proof.
  intros Hn. apply Z.bits_inj'. intros k Hk. rewrite Z.land_spec.
  destruct (Z.eq_dec k n) as [->|Hne].
  - rewrite Z.pow2_bits_true by lia. rewrite andb_true_r.
    destruct (Z.testbit c n) eqn:E; [now rewrite Z.pow2_bits_true by lia | now rewrite Z.bits_0].
  - rewrite Z.pow2_bits_false by lia. rewrite andb_false_r.
    destruct (Z.testbit c n); [now rewrite Z.pow2_bits_false by lia | now rewrite Z.bits_0].
Qed.
(* `x & 2^n` is non-zero iff bit n is set, i.e. (x / 2^n) is odd *)
Lemma land_pow2_test c n : 0 <= n -> (Z.land c (2^n) =? 0) = ((c / 2^n) mod 2 =? 0).
Proof.
  intros Hn. rewrite land_pow2 by exact Hn. pose proof (Z.testbit_spec' c n Hn) as T.
  assert (0 < 2^n) by (apply Z.pow_pos_nonneg; lia).
  destruct (Z.testbit c n); cbn [Z.b2z] in T; rewrite <- T.
  - destruct (Z.eqb_spec (2^n) 0); [lia|reflexivity].
  - reflexivity.
Qed.
Lemma land_80 x : 0 <= x < 256 -> (Z.land x 0x80 =? 0) = (x <? 128).
Proof.
  intros H. change 0x80 with (2^7). rewrite land_pow2_test by lia. change (2^7) with 128.
  destruct (Z.ltb_spec x 128), (Z.eqb_spec ((x / 128) mod 2) 0); try reflexivity; lia.
Qed.
