(* Common/PyList.v – Python list indexing semantics (negative indices, IndexError, del,
   insert, pop) and the lemmas that push them through `pre ++ suf`. *)
From BV Require Import Common.Base.

Section PyList.
Context {A : Type}.
Definition len (l : list A) : Z := Z.of_nat (length l).
(* Python l[i] *)
Definition norm_idx (l : list A) (i : Z) : res nat :=
  let j := if i <? 0 then i + len l else i in
  if (j <? 0) || (len l <=? j) then Err IndexError else Ok (Z.to_nat j).
Definition py_nth (l : list A) (i : Z) : res A :=
  do j <- norm_idx l i; match nth_error l j with Some x => Ok x | None => Err IndexError end.
Definition py_del (l : list A) (i : Z) : res (list A) :=
  do j <- norm_idx l i; Ok (firstn j l ++ skipn (S j) l).
Definition py_append (l : list A) (x : A) := l ++ [x].
(* list.insert never raises: clamps *)
Definition py_insert (l : list A) (i : Z) (x : A) : list A :=
  let j := if i <? 0 then Z.max 0 (i + len l) else Z.min i (len l) in
  firstn (Z.to_nat j) l ++ x :: skipn (Z.to_nat j) l.

Lemma norm_idx_neg_app pre suf k :
  0 < k <= len suf -> norm_idx (pre ++ suf) (- k) = Ok (length pre + Z.to_nat (len suf - k))%nat.
Proof.
  intros H. unfold norm_idx, len in *. rewrite app_length, Nat2Z.inj_add.
  destruct (Z.ltb_spec (-k) 0); [|lia].
  destruct (Z.ltb_spec (- k + (Z.of_nat (length pre) + Z.of_nat (length suf))) 0); [lia|].
  destruct (Z.leb_spec (Z.of_nat (length pre) + Z.of_nat (length suf)) (- k + (Z.of_nat (length pre) + Z.of_nat (length suf)))); [lia|].
  cbn [orb bind]. f_equal.
  replace (- k + (Z.of_nat (length pre) + Z.of_nat (length suf))) with (Z.of_nat (length pre) + (Z.of_nat (length suf) - k)) by lia.
  rewrite Z2Nat.inj_add by lia. now rewrite Nat2Z.id.
Qed.

Lemma py_nth_neg_app pre suf k :
  0 < k <= len suf -> py_nth (pre ++ suf) (- k) = py_nth suf (- k).
Proof.
  intros H. unfold py_nth. rewrite norm_idx_neg_app by assumption.
  pose proof (norm_idx_neg_app [] suf k H) as E. simpl in E. rewrite E. cbn [bind].
  set (j := Z.to_nat (len suf - k)).
  rewrite nth_error_app2 by lia. replace (length pre + j - length pre)%nat with j by lia. reflexivity.
Qed.

Lemma py_del_neg_app pre suf k :
  0 < k <= len suf -> py_del (pre ++ suf) (- k) = do s <- py_del suf (- k); Ok (pre ++ s).
Proof.
  intros H. unfold py_del. rewrite norm_idx_neg_app by assumption.
  pose proof (norm_idx_neg_app [] suf k H) as E. simpl in E. rewrite E. cbn [bind]. f_equal.
  set (j := Z.to_nat (len suf - k)).
  rewrite firstn_app, skipn_app.
  replace (length pre + j - length pre)%nat with j by lia.
  replace (S (length pre + j) - length pre)%nat with (S j) by lia.
  rewrite firstn_all2 by lia. rewrite skipn_all2 by lia. simpl. now rewrite <- app_assoc.
Qed.
Lemma py_nth_neg_app' pre suf i : - len suf <= i < 0 -> py_nth (pre ++ suf) i = py_nth suf i.
Proof. intros H. replace i with (- (- i)) by lia. apply py_nth_neg_app. lia. Qed.
Lemma py_del_neg_app' pre suf i : - len suf <= i < 0 -> py_del (pre ++ suf) i = do s <- py_del suf i; Ok (pre ++ s).
Proof. intros H. replace i with (- (- i)) by lia. apply py_del_neg_app. lia. Qed.
End PyList.

Definition rmap {A B} (f : A -> B) (r : res A) : res B := match r with Ok a => Ok (f a) | Err e => Err e end.
Lemma len_rev {A} (l : list A) : len (rev l) = len l. Proof. unfold len. now rewrite rev_length. Qed.
Lemma py_nth_in_range {A} (l : list A) i x : 0 <= i < len l -> nth_error l (Z.to_nat i) = Some x -> py_nth l i = Ok x.
Proof.
  intros H E. unfold py_nth, norm_idx. destruct (Z.ltb_spec i 0); [lia|].
  destruct (Z.ltb_spec i 0); [lia|]. destruct (Z.leb_spec (len l) i); [lia|]. cbn [orb bind]. now rewrite E.
Qed.
