(* Common/PyList.v – Python list indexing semantics (negative indices, IndexError, del,
   insert, pop) and the lemmas that push them through `pre ++ suf`. *)
From BV Require Import Common.Base.

Section PyList.
Context {A : Type}.
Definition len (l : list A) : Z := Z.of_nat (length l).
(* Python l[i] *)
Definition norm_idx (l : list A) (i : Z) : res nat :=
  let j := if i <? 0 then i + len l else i in
  if (j <? 0) || (len l <=? j) then Err IndexError else Ok (Z.to_nat j).
Definition py_nth (l : list A) (i : Z) : res A :=
  do j <- norm_idx l i; match nth_error l j with Some x => Ok x | None => Err IndexError end.
Definition py_del (l : list A) (i : Z) : res (list A) :=
  do j <- norm_idx l i; Ok (firstn j l ++ skipn (S j) l).
Definition py_append (l : list A) (x : A) := l ++ [x].
(* list.insert never raises: clamps *)
Definition py_insert (l : list A) (i : Z) (x : A) : list A :=
  let j := if i <? 0 then Z.max 0 (i + len l) else Z.min i (len l) in
  firstn (Z.to_nat j) l ++ x :: skipn (Z.to_nat j) l.

Lemma norm_idx_neg_app pre suf k :
  0 < k <= len suf -> norm_idx (pre ++ suf) (- k) = Ok (length pre + Z.to_nat (len suf - k))%nat.
Proof.
  intros H. unfold norm_idx, len in *. rewrite app_length, Nat2Z.inj_add.
  destruct (Z.ltb_spec (-k) 0); [|lia].
  destruct (Z.ltb_spec (- k + (Z.of_nat (length pre) + Z.of_nat (length suf))) 0); [lia|].
  destruct (Z.leb_spec (Z.of_nat (length pre) + Z.of_nat (length suf)) (- k + (Z.of_nat (length pre) + Z.of_nat (length suf)))); [lia|].
  cbn [orb bind]. f_equal.
  replace (- k + (Z.of_nat (length pre) + Z.of_nat (length suf))) with (Z.of_nat (length pre) + (Z.of_nat (length suf) - k)) by lia.
  rewrite Z2Nat.inj_add by lia. now rewrite Nat2Z.id.
Qed.

Lemma py_nth_neg_app pre suf k :
  0 < k <= len suf -> py_nth (pre ++ suf) (- k) = py_nth suf (- k).
Proof.
  intros H. unfold py_nth. rewrite norm_idx_neg_app by assumption.
  pose proof (norm_idx_neg_app [] suf k H) as E. simpl in E. rewrite E. cbn [bind].
  set (j := Z.to_nat (len suf - k)).
  rewrite nth_error_app2 by lia. replace (length pre + j - length pre)%nat with j by lia. reflexivity.
Qed.

Lemma py_del_neg_app pre suf k :
  0 < k <= len suf -> py_del (pre ++ suf) (- k) = do s <- py_del suf (- k); Ok (pre ++ s).
Proof.
  intros H. unfold py_del. rewrite norm_idx_neg_app by assumption.
  pose proof (norm_idx_neg_app [] suf k H) as E. simpl in E. rewrite E. cbn [bind]. f_equal.
  set (j := Z.to_nat (len suf - k)).
  rewrite firstn_app, skipn_app.
  replace (length pre + j - length pre)%nat with j by lia.
  replace (S (length pre + j) - length pre)%nat with (S j) by lia.
  rewrite firstn_all2 by lia. rewrite skipn_all2 by lia. simpl. now rewrite <- app_assoc.
Qed.
Lemma py_nth_neg_app' pre suf i : - len suf <= i < 0 -> py_nth (pre ++ suf) i = py_nth suf i.
Proof. intros H. replace i with (- (- i)) by lia. apply py_nth_neg_app. lia. Qed.
Lemma py_del_neg_app' pre suf i : - len suf <= i < 0 -> py_del (pre ++ suf) i = do s <- py_del suf i; Ok (pre ++ s).
Proof. intros H. replace i with (- (- i)) by lia. apply py_del_neg_app. lia. Qed.
End PyList.

Definition rmap {A B} (f : A -> B) (r : res A) : res B := match r with Ok a => Ok (f a) | Err e => Err e end.
Lemma len_rev {A} (l : list A) : len (rev l) = len l. Proof. unfold len. now rewrite rev_length. Qed.
Lemma py_nth_in_range {A} (l : list A) i x : 0 <= i < len l -> nth_error l (Z.to_nat i) = Some x -> py_nth l i = Ok x.
Proof.
  intros H E. unfold py_nth, norm_idx. destruct (Z.ltb_spec i 0); [lia|].
  destruct (Z.ltb_spec i 0); [lia|]. destruct (Z.leb_spec (len l) i); [lia|]. cbn [orb bind]. now rewrite E.
Qed.

(* list.pop() and l[i] = x *)
Definition py_pop {A} (l : list A) : res (A * list A) :=
  match rev l with [] => Err IndexError | x :: r => Ok (x, rev r) end.
Definition py_set {A} (l : list A) (i : Z) (x : A) : res (list A) :=
  do j <- norm_idx l i; Ok (firstn j l ++ x :: skipn (S j) l).

(* ---- an end-topped Python stack [rev s] seen through the head-topped list s ---- *)
Lemma py_pop_rev {A} (x : A) s : py_pop (rev (x :: s)) = Ok (x, rev s).
Proof. unfold py_pop. rewrite rev_involutive. reflexivity. Qed.
Lemma py_pop_nil {A} : py_pop (@nil A) = Err IndexError.
Proof. reflexivity. Qed.
Lemma app_rev_cons {A} (x : A) s : rev s ++ [x] = rev (x :: s).
Proof. reflexivity. Qed.
Lemma norm_idx_rev_neg {A} (s : list A) k : 0 < k <= len s ->
  norm_idx (rev s) (- k) = Ok (Z.to_nat (len s - k)).
Proof.
  intros H. unfold norm_idx. rewrite len_rev. destruct (Z.ltb_spec (- k) 0); [|lia].
  destruct (Z.ltb_spec (- k + len s) 0); [lia|]. destruct (Z.leb_spec (len s) (- k + len s)); [lia|].
  cbn [orb]. f_equal. f_equal. lia.
Qed.
(* stack[-k] is the (k-1)-th element from the top *)
Lemma py_nth_rev {A} (s : list A) k x : 0 < k -> nth_error s (Z.to_nat (k - 1)) = Some x ->
  py_nth (rev s) (- k) = Ok x.
Proof.
  intros Hk E. assert (L : (Z.to_nat (k - 1) < length s)%nat) by (apply nth_error_Some; congruence).
  unfold py_nth. rewrite norm_idx_rev_neg by (unfold len; lia). cbn [bind].
  assert (E2 : nth_error (rev s) (Z.to_nat (len s - k)) = Some x).
  { rewrite nth_error_nth' with (d := x) by (rewrite rev_length; unfold len; lia).
    rewrite rev_nth by (unfold len; lia). f_equal.
    replace (length s - S (Z.to_nat (len s - k)))%nat with (Z.to_nat (k - 1)) by (unfold len; lia).
    apply nth_error_nth. exact E. }
  now rewrite E2.
Qed.
