(* Common/Hash.v – executable SHA-256, SHA-1 and reference RIPEMD-160 over Z (uint32
   arithmetic written out as [mod 2^32]).  These model the external [hashlib]; they are
   validated against it by the correspondence runs and are not themselves verified
   against FIPS 180.  Every property theorem is stated for an arbitrary hash function
   (a Section variable); these instances only serve execution. *)
From BV Require Import Common.Base.

Definition M32 := 4294967296.
Definition w32 (x : Z) : Z := x mod M32.
Definition rotl32 (x : Z) (n : Z) : Z :=
  Z.lor (Z.shiftl x n mod M32) (Z.shiftr x (32 - n)).
Definition rotr32 (x : Z) (n : Z) : Z := rotl32 x (32 - n).
Definition not32 (x : Z) : Z := M32 - 1 - x.

(* big-endian 32-bit words of a byte string whose length is a multiple of 4 *)
Fixpoint be_words (b : bytes) : list Z :=
  match b with
  | b0 :: b1 :: b2 :: b3 :: t =>
      (((b2z b0 * 256 + b2z b1) * 256 + b2z b2) * 256 + b2z b3) :: be_words t
  | _ => []
  end.
Fixpoint le_words (b : bytes) : list Z :=
  match b with
  | b0 :: b1 :: b2 :: b3 :: t =>
      (((b2z b3 * 256 + b2z b2) * 256 + b2z b1) * 256 + b2z b0) :: le_words t
  | _ => []
  end.
Fixpoint chunks {A} (k : nat) (fuel : nat) (l : list A) : list (list A) :=
  match fuel with
  | O => []
  | S f => match l with [] => [] | _ => firstn k l :: chunks k f (skipn k l) end
  end.

(* Merkle–Damgård padding: 0x80, zeros to 56 mod 64, then the bit length (8 bytes) *)
Definition md_pad (big_endian : bool) (msg : bytes) : bytes :=
  let l := Z.of_nat (length msg) in
  let k := Z.to_nat ((55 - l) mod 64) in
  msg ++ x80 :: zeros k ++ (if big_endian then be_enc 8 (8 * l) else le_enc 8 (8 * l)).

(* ---------------- SHA-256 ---------------- *)
Definition sha256_k : list Z :=
 [0x428a2f98;0x71374491;0xb5c0fbcf;0xe9b5dba5;0x3956c25b;0x59f111f1;0x923f82a4;0xab1c5ed5;
  0xd807aa98;0x12835b01;0x243185be;0x550c7dc3;0x72be5d74;0x80deb1fe;0x9bdc06a7;0xc19bf174;
  0xe49b69c1;0xefbe4786;0x0fc19dc6;0x240ca1cc;0x2de92c6f;0x4a7484aa;0x5cb0a9dc;0x76f988da;
  0x983e5152;0xa831c66d;0xb00327c8;0xbf597fc7;0xc6e00bf3;0xd5a79147;0x06ca6351;0x14292967;
  0x27b70a85;0x2e1b2138;0x4d2c6dfc;0x53380d13;0x650a7354;0x766a0abb;0x81c2c92e;0x92722c85;
  0xa2bfe8a1;0xa81a664b;0xc24b8b70;0xc76c51a3;0xd192e819;0xd6990624;0xf40e3585;0x106aa070;
  0x19a4c116;0x1e376c08;0x2748774c;0x34b0bcb5;0x391c0cb3;0x4ed8aa4a;0x5b9cca4f;0x682e6ff3;
  0x748f82ee;0x78a5636f;0x84c87814;0x8cc70208;0x90befffa;0xa4506ceb;0xbef9a3f7;0xc67178f2].
Definition sha256_h0 : list Z :=
 [0x6a09e667;0xbb67ae85;0x3c6ef372;0xa54ff53a;0x510e527f;0x9b05688c;0x1f83d9ab;0x5be0cd19].

Definition ssig0 x := Z.lxor (Z.lxor (rotr32 x 7) (rotr32 x 18)) (Z.shiftr x 3).
Definition ssig1 x := Z.lxor (Z.lxor (rotr32 x 17) (rotr32 x 19)) (Z.shiftr x 10).
Definition bsig0 x := Z.lxor (Z.lxor (rotr32 x 2) (rotr32 x 13)) (rotr32 x 22).
Definition bsig1 x := Z.lxor (Z.lxor (rotr32 x 6) (rotr32 x 11)) (rotr32 x 25).

(* message schedule kept as a reversed list: head = most recent word *)
Fixpoint sha256_sched (n : nat) (rw : list Z) : list Z :=
  match n with
  | O => rw
  | S k =>
      let w2 := nth 1 rw 0 in let w7 := nth 6 rw 0 in
      let w15 := nth 14 rw 0 in let w16 := nth 15 rw 0 in
      sha256_sched k (w32 (ssig1 w2 + w7 + ssig0 w15 + w16) :: rw)
  end.

Definition sha256_round (st : list Z) (kw : Z * Z) : list Z :=
  match st with
  | [a;b;c;d;e;f;g;h] =>
      let ch := Z.lxor (Z.land e f) (Z.land (not32 e) g) in
      let maj := Z.lxor (Z.lxor (Z.land a b) (Z.land a c)) (Z.land b c) in
      let t1 := h + bsig1 e + ch + fst kw + snd kw in
      let t2 := bsig0 a + maj in
      [w32 (t1 + t2); a; b; c; w32 (d + t1); e; f; g]
  | _ => st
  end.
Definition sha256_block (h : list Z) (blk : bytes) : list Z :=
  let w := rev (sha256_sched 48 (rev (be_words blk))) in
  let st := fold_left sha256_round (combine sha256_k w) h in
  map (fun p => w32 (fst p + snd p)) (combine h st).
Definition sha256 (msg : bytes) : bytes :=
  let p := md_pad true msg in
  let hs := fold_left sha256_block (chunks 64 (S (length p / 64)) p) sha256_h0 in
  concat (map (be_enc 4) hs).
Definition sha256d (msg : bytes) : bytes := sha256 (sha256 msg).

(* ---------------- SHA-1 ---------------- *)
Definition sha1_h0 : list Z := [0x67452301;0xEFCDAB89;0x98BADCFE;0x10325476;0xC3D2E1F0].
Fixpoint sha1_sched (n : nat) (rw : list Z) : list Z :=
  match n with
  | O => rw
  | S k =>
      let x := Z.lxor (Z.lxor (nth 2 rw 0) (nth 7 rw 0)) (Z.lxor (nth 13 rw 0) (nth 15 rw 0)) in
      sha1_sched k (rotl32 x 1 :: rw)
  end.
Definition sha1_round (st : list Z) (iw : Z * Z) : list Z :=
  match st with
  | [a;b;c;d;e] =>
      let i := fst iw in
      let '(f, k) :=
        if i <? 20 then (Z.lor (Z.land b c) (Z.land (not32 b) d), 0x5A827999)
        else if i <? 40 then (Z.lxor (Z.lxor b c) d, 0x6ED9EBA1)
        else if i <? 60 then (Z.lor (Z.lor (Z.land b c) (Z.land b d)) (Z.land c d), 0x8F1BBCDC)
        else (Z.lxor (Z.lxor b c) d, 0xCA62C1D6) in
      [w32 (rotl32 a 5 + f + e + k + snd iw); a; rotl32 b 30; c; d]
  | _ => st
  end.
Fixpoint zrange (start : Z) (n : nat) : list Z :=
  match n with O => [] | S k => start :: zrange (start + 1) k end.
Definition sha1_block (h : list Z) (blk : bytes) : list Z :=
  let w := rev (sha1_sched 64 (rev (be_words blk))) in
  let st := fold_left sha1_round (combine (zrange 0 80) w) h in
  map (fun p => w32 (fst p + snd p)) (combine h st).
Definition sha1 (msg : bytes) : bytes :=
  let p := md_pad true msg in
  let hs := fold_left sha1_block (chunks 64 (S (length p / 64)) p) sha1_h0 in
  concat (map (be_enc 4) hs).

(* ---------------- RIPEMD-160 (reference, uint32 arithmetic) ---------------- *)
Definition rmd_rl : list nat :=
 [0;1;2;3;4;5;6;7;8;9;10;11;12;13;14;15; 7;4;13;1;10;6;15;3;12;0;9;5;2;14;11;8;
  3;10;14;4;9;15;8;1;2;7;0;6;13;11;5;12; 1;9;11;10;0;8;12;4;13;3;7;15;14;5;6;2;
  4;0;5;9;7;12;2;10;14;1;3;8;11;6;15;13]%nat.
Definition rmd_rr : list nat :=
 [5;14;7;0;9;2;11;4;13;6;15;8;1;10;3;12; 6;11;3;7;0;13;5;10;14;15;8;12;4;9;1;2;
  15;5;1;3;7;14;6;9;11;8;12;2;10;0;4;13; 8;6;4;1;3;11;15;0;5;12;2;13;9;7;10;14;
  12;15;10;4;1;5;8;7;6;2;13;14;0;3;9;11]%nat.
Definition rmd_sl : list Z :=
 [11;14;15;12;5;8;7;9;11;13;14;15;6;7;9;8; 7;6;8;13;11;9;7;15;7;12;15;9;11;7;13;12;
  11;13;6;7;14;9;13;15;14;8;13;6;5;12;7;5; 11;12;14;15;14;15;9;8;9;14;5;6;8;6;5;12;
  9;15;5;11;6;8;13;12;5;12;13;14;11;8;5;6].
Definition rmd_sr : list Z :=
 [8;9;9;11;13;15;15;5;7;7;8;11;14;14;12;6; 9;13;15;7;12;8;9;11;7;7;12;7;6;15;13;11;
  9;7;15;11;8;6;6;14;12;13;5;14;13;13;7;5; 15;5;8;11;14;14;6;14;6;9;12;9;12;5;15;8;
  8;5;12;9;12;5;14;6;8;13;6;5;15;13;11;11].
Definition rmd_kl : list Z := [0x00000000;0x5A827999;0x6ED9EBA1;0x8F1BBCDC;0xA953FD4E].
Definition rmd_kr : list Z := [0x50A28BE6;0x5C4DD124;0x6D703EF3;0x7A6D76E9;0x00000000].
Definition rmd_f (j : nat) (x y z : Z) : Z :=
  match j with
  | 0%nat => Z.lxor (Z.lxor x y) z
  | 1%nat => Z.lor (Z.land x y) (Z.land (not32 x) z)
  | 2%nat => Z.lxor (Z.lor x (not32 y)) z
  | 3%nat => Z.lor (Z.land x z) (Z.land y (not32 z))
  | _ => Z.lxor x (Z.lor y (not32 z))
  end.
Definition rmd_step (x : list Z) (left : bool) (st : list Z) (j : nat) : list Z :=
  match st with
  | [a;b;c;d;e] =>
      let rnd := (j / 16)%nat in
      let fi := if left then rnd else (4 - rnd)%nat in
      let r := nth j (if left then rmd_rl else rmd_rr) 0%nat in
      let s := nth j (if left then rmd_sl else rmd_sr) 0 in
      let k := nth rnd (if left then rmd_kl else rmd_kr) 0 in
      let t := w32 (rotl32 (w32 (a + rmd_f fi b c d + nth r x 0 + k)) s + e) in
      [e; t; b; rotl32 c 10; d]
  | _ => st
  end.
Definition rmd_h0 : list Z := [0x67452301;0xEFCDAB89;0x98BADCFE;0x10325476;0xC3D2E1F0].
Definition rmd_block (h : list Z) (blk : bytes) : list Z :=
  let x := le_words blk in
  let l := fold_left (rmd_step x true) (seq 0 80) h in
  let r := fold_left (rmd_step x false) (seq 0 80) h in
  match h, l, r with
  | [h0;h1;h2;h3;h4], [al;bl;cl;dl;el], [ar;br;cr;dr;er] =>
      [w32 (h1 + cl + dr); w32 (h2 + dl + er); w32 (h3 + el + ar);
       w32 (h4 + al + br); w32 (h0 + bl + cr)]
  | _, _, _ => h
  end.
Definition ripemd160_ref (msg : bytes) : bytes :=
  let p := md_pad false msg in
  let hs := fold_left rmd_block (chunks 64 (S (length p / 64)) p) rmd_h0 in
  concat (map (le_enc 4) hs).

Definition hash160 (msg : bytes) : bytes := ripemd160_ref (sha256 msg).
