(* Common/Codec.v – serialisation combinators mirroring bitcoin/core/serialize.py
   (ser_read with the MAX_SIZE guard, struct.pack/unpack formats, VarIntSerializer,
   BytesSerializer, VectorSerializer) together with the laws every codec built from them
   satisfies: round trip with exact consumption, truncation of every strict prefix,
   error kinds, progress.  Foundation of C01, C02, C15 (sizes), C16, C18, C20. *)
From BV Require Import Common.Base.

Record codec (A : Type) := {
  wf : A -> Prop;                      (* values in wire range *)
  enc : A -> bytes;                    (* defined on wf values *)
  decode : bytes -> res (A * bytes);   (* total *)
  norm : A -> A                        (* what a round trip returns (identity except for
                                          a transaction whose witness stacks are all empty) *)
}.
Arguments wf {A}. Arguments enc {A}. Arguments decode {A}. Arguments norm {A}.

Definition rt_law {A} (c : codec A) :=
  forall a rest, wf c a -> decode c (enc c a ++ rest) = Ok (norm c a, rest).
Definition tr_law {A} (c : codec A) :=
  forall a p q, wf c a -> enc c a = p ++ q -> q <> [] -> decode c p = Err Trunc.
Definition err_law {A} (c : codec A) :=
  forall b e, decode c b = Err e -> e = Trunc \/ e = SerErr.
Definition prog_law {A} (c : codec A) :=
  forall b a r, decode c b = Ok (a, r) -> (length r < length b)%nat.
Definition ne_law {A} (c : codec A) := forall a, wf c a -> enc c a <> [].
Record lawful {A} (c : codec A) : Prop := {
  l_rt : rt_law c; l_tr : tr_law c; l_err : err_law c; l_prog : prog_law c; l_ne : ne_law c }.

(* ---------- ser_read ---------- *)
Definition MAX_SIZE_lit : Z := 0x02000000.

Definition take_n (n : nat) (b : bytes) : res (bytes * bytes) :=
  if (length b <? n)%nat then Err Trunc else Ok (firstn n b, skipn n b).
Lemma take_n_app n a rest : length a = n -> take_n n (a ++ rest) = Ok (a, rest).
Proof.
  intros H. unfold take_n. rewrite app_length.
  destruct (Nat.ltb_spec (length a + length rest) n); [lia|].
  subst n. rewrite firstn_app, skipn_app, Nat.sub_diag, firstn_all, skipn_all. simpl. now rewrite app_nil_r.
Qed.
Lemma take_n_short n p : (length p < n)%nat -> take_n n p = Err Trunc.
Proof. intros H. unfold take_n. destruct (Nat.ltb_spec (length p) n); [reflexivity|lia]. Qed.
Lemma take_n_ok n b x r : take_n n b = Ok (x, r) -> b = x ++ r /\ length x = n.
Proof.
  unfold take_n. destruct (Nat.ltb_spec (length b) n); [discriminate|].
  intros E. injection E as <- <-. split; [symmetry; apply firstn_skipn | apply firstn_length_le; lia].
Qed.
Lemma take_n_err n b e : take_n n b = Err e -> e = Trunc.
Proof. unfold take_n. destruct (_ <? _)%nat; congruence. Qed.

(* ser_read(f, n) for a length n that came from the wire (a Python int) *)
Definition ser_read (max_size : Z) (n : Z) (b : bytes) : res (bytes * bytes) :=
  if n >? max_size then Err SerErr else take_n (Z.to_nat n) b.

(* ---------- fixed-size fields ---------- *)
(* raw n : f.write(x) guarded by assert len(x) == n  /  ser_read(f, n) *)
Definition raw (n : nat) : codec bytes := {|
  wf := fun x => length x = n; enc := fun x => x; decode := take_n n; norm := fun x => x |}.
Lemma raw_lawful n : (0 < n)%nat -> lawful (raw n).
Proof.
  intros Hn. split.
  - intros a rest H. simpl in *. now apply take_n_app.
  - intros a p q H E NE. simpl in *. apply take_n_short. subst a.
    rewrite <- H, app_length. destruct q; [congruence|simpl; lia].
  - intros b e H. left. eapply take_n_err; exact H.
  - intros b a r H. apply take_n_ok in H as [-> L]. rewrite app_length. lia.
  - intros a H. simpl in *. destruct a; simpl in *; [lia|discriminate].
Qed.

(* unsigned little endian: struct '<B' '<H' '<I' '<Q' *)
Definition le_uint (n : nat) : codec Z := {|
  wf := fun v => 0 <= v < 256 ^ Z.of_nat n;
  enc := le_enc n;
  decode := fun b => do xr <- take_n n b; Ok (le_dec (fst xr), snd xr);
  norm := fun v => v |}.
Lemma le_uint_lawful n : (0 < n)%nat -> lawful (le_uint n).
Proof.
  intros Hn. split.
  - intros v rest H. simpl. rewrite take_n_app by apply le_enc_length. simpl. now rewrite le_dec_enc.
  - intros v p q H E NE. simpl in *. rewrite take_n_short; [reflexivity|].
    apply (f_equal (@length _)) in E. rewrite le_enc_length, app_length in E. destruct q; [congruence|simpl in E; lia].
  - intros b e H. simpl in H. destruct (take_n n b) eqn:T; simpl in H; [discriminate|].
    injection H as <-. left. eapply take_n_err; exact T.
  - intros b a r H. simpl in H. destruct (take_n n b) as [[x r']|] eqn:T; simpl in H; [|discriminate].
    injection H as <- <-. apply take_n_ok in T as [-> L]. rewrite app_length. lia.
  - intros a H. simpl. destruct n; [lia|]. discriminate.
Qed.

(* signed two's complement little endian: struct '<i' '<q' *)
Definition le_int (n : nat) : codec Z := {|
  wf := fun v => - (256 ^ Z.of_nat n / 2) <= v < 256 ^ Z.of_nat n / 2;
  enc := le_enc_signed n;
  decode := fun b => do xr <- take_n n b; Ok (le_dec_signed (fst xr), snd xr);
  norm := fun v => v |}.
Lemma pow256_even n : (0 < n)%nat -> 256 ^ Z.of_nat n = 2 * (256 ^ Z.of_nat n / 2).
Proof.
  intros H. destruct n; [lia|]. rewrite Nat2Z.inj_succ, Z.pow_succ_r by lia.
  assert (0 < 256 ^ Z.of_nat n) by (apply Z.pow_pos_nonneg; lia). lia.
Qed.
Lemma le_signed_rt n v : (0 < n)%nat -> - (256 ^ Z.of_nat n / 2) <= v < 256 ^ Z.of_nat n / 2 ->
  le_dec_signed (le_enc_signed n v) = v.
Proof.
  intros Hn H. unfold le_dec_signed, le_enc_signed. rewrite le_enc_length.
  pose proof (pow256_even n Hn) as E. set (M := 256 ^ Z.of_nat n) in *.
  destruct (Z.ltb_spec v 0).
  - rewrite le_dec_enc by (fold M; lia). destruct (Z.ltb_spec (v + M) (M / 2)); lia.
  - rewrite le_dec_enc by (fold M; lia). destruct (Z.ltb_spec v (M / 2)); lia.
Qed.
Lemma le_int_lawful n : (0 < n)%nat -> lawful (le_int n).
Proof.
  intros Hn. split.
  - intros v rest H. simpl in *. unfold le_enc_signed at 1. rewrite take_n_app by apply le_enc_length.
    simpl. fold (le_enc_signed n v). now rewrite le_signed_rt.
  - intros v p q H E NE. simpl in *. rewrite take_n_short; [reflexivity|].
    apply (f_equal (@length _)) in E. unfold le_enc_signed in E. rewrite le_enc_length, app_length in E.
    destruct q; [congruence|simpl in E; lia].
  - intros b e H. simpl in H. destruct (take_n n b) eqn:T; simpl in H; [discriminate|].
    injection H as <-. left. eapply take_n_err; exact T.
  - intros b a r H. simpl in H. destruct (take_n n b) as [[x r']|] eqn:T; simpl in H; [|discriminate].
    injection H as <- <-. apply take_n_ok in T as [-> L]. rewrite app_length. lia.
  - intros a H. simpl. unfold le_enc_signed. destruct n; [lia|]. discriminate.
Qed.

(* ---------- sequencing ---------- *)
Definition seq {A B} (ca : codec A) (cb : codec B) : codec (A * B) := {|
  wf := fun ab => wf ca (fst ab) /\ wf cb (snd ab);
  enc := fun ab => enc ca (fst ab) ++ enc cb (snd ab);
  decode := fun b => do ar <- decode ca b; do xr <- decode cb (snd ar); Ok ((fst ar, fst xr), snd xr);
  norm := fun ab => (norm ca (fst ab), norm cb (snd ab)) |}.
Lemma seq_lawful {A B} (ca : codec A) (cb : codec B) : lawful ca -> lawful cb -> lawful (seq ca cb).
Proof.
  intros [rta tra ea pa na] [rtb trb eb pb nb]. split.
  - intros [a b] rest [Ha Hb]. simpl in *. rewrite <- app_assoc, rta by assumption. simpl. now rewrite rtb.
  - intros [a b] p q [Ha Hb] E NE. simpl in *.
    apply app_eq_app in E as [l [[E1 E2] | [E1 E2]]].
    + destruct l as [|x l].
      * rewrite app_nil_r in E1. subst p. simpl in E2. subst q.
        specialize (rta a [] Ha). rewrite app_nil_r in rta. rewrite rta. simpl.
        rewrite (trb b [] (enc cb b) Hb eq_refl NE). reflexivity.
      * rewrite (tra a p (x :: l) Ha E1) by discriminate. reflexivity.
    + subst p. rewrite rta by assumption. simpl. rewrite (trb b l q Hb E2 NE). reflexivity.
  - intros b e H. simpl in H. destruct (decode ca b) as [[a r]|e1] eqn:D1; simpl in H.
    + destruct (decode cb r) as [[x r']|e2] eqn:D2; simpl in H; [discriminate|]. injection H as <-. eapply eb; exact D2.
    + injection H as <-. eapply ea; exact D1.
  - intros b [a x] r H. simpl in H. destruct (decode ca b) as [[a' r1]|] eqn:D1; simpl in H; [|discriminate].
    destruct (decode cb r1) as [[x' r2]|] eqn:D2; simpl in H; [|discriminate]. injection H as <- <- <-.
    apply pa in D1. apply pb in D2. lia.
  - intros [a b] [Ha Hb]. simpl in *. intros E. apply app_eq_nil in E as [E _]. eapply na; eassumption.
Qed.

(* isomorphic re-packaging (records) *)
Definition map_iso {A B} (f : A -> B) (g : B -> A) (c : codec A) : codec B := {|
  wf := fun b => wf c (g b);
  enc := fun b => enc c (g b);
  decode := fun x => do ar <- decode c x; Ok (f (fst ar), snd ar);
  norm := fun b => f (norm c (g b)) |}.
Lemma map_iso_lawful {A B} (f : A -> B) (g : B -> A) c : lawful c -> lawful (map_iso f g c).
Proof.
  intros [rt tr er pr ne]. split.
  - intros b rest H. simpl in *. rewrite rt by assumption. reflexivity.
  - intros b p q H E NE. simpl in *. rewrite (tr _ _ _ H E NE). reflexivity.
  - intros x e H. simpl in H. destruct (decode c x) eqn:D; simpl in H; [discriminate|]. injection H as <-. eapply er; exact D.
  - intros x b r H. simpl in H. destruct (decode c x) as [[a r']|] eqn:D; simpl in H; [|discriminate].
    injection H as <- <-. eapply pr; exact D.
  - intros b H. simpl in *. now apply ne.
Qed.

(* ---------- CompactSize exactly as VarIntSerializer writes and reads it ---------- *)
Definition varint_enc (i : Z) : bytes :=
  if i <? 0xfd then le_enc 1 i
  else if i <=? 0xffff then z2b 0xfd :: le_enc 2 i
  else if i <=? 0xffffffff then z2b 0xfe :: le_enc 4 i
  else z2b 0xff :: le_enc 8 i.
Definition varint_dec (b : bytes) : res (Z * bytes) :=
  do hr <- take_n 1 b;
    let t := le_dec (fst hr) in
    if t <? 0xfd then Ok (t, snd hr)
    else let n := if t =? 0xfd then 2%nat else if t =? 0xfe then 4%nat else 8%nat in
         do xr <- take_n n (snd hr); Ok (le_dec (fst xr), snd xr).
Definition varint : codec Z := {|
  wf := fun v => 0 <= v < 2 ^ 64; enc := varint_enc; decode := varint_dec; norm := fun v => v |}.

Lemma take1_cons h (r : bytes) : take_n 1 (h :: r) = Ok ([h], r).
Proof. reflexivity. Qed.
Lemma varint_rt : rt_law varint.
Proof.
  intros v rest H. simpl in *. unfold varint_enc, varint_dec.
  destruct (Z.ltb_spec v 0xfd).
  - rewrite (take_n_app 1 (le_enc 1 v) rest) by reflexivity. cbn [bind fst snd].
    rewrite le_dec_enc by (simpl; lia). destruct (Z.ltb_spec v 0xfd); [reflexivity|lia].
  - assert (P : forall (t : Z) (n : nat), (t = 253 /\ n = 2%nat \/ t = 254 /\ n = 4%nat \/ t = 255 /\ n = 8%nat) ->
               0 <= v < 256 ^ Z.of_nat n ->
               varint_dec ((z2b t :: le_enc n v) ++ rest) = Ok (v, rest)).
    { intros t n Ht Hv. unfold varint_dec. cbn [app]. rewrite take1_cons. cbn [bind fst snd].
      destruct Ht as [[-> ->]|[[-> ->]|[-> ->]]]; vm_compute (le_dec [_]);
        cbn [Z.ltb Z.compare Pos.compare Pos.compare_cont Z.eqb Pos.eqb];
        rewrite take_n_app by apply le_enc_length; cbn [bind fst snd]; rewrite le_dec_enc by assumption; reflexivity. }
    unfold varint_dec in P.
    destruct (Z.leb_spec v 0xffff); [|destruct (Z.leb_spec v 0xffffffff)].
    + apply (P 253 2%nat); [auto|simpl; lia].
    + apply (P 254 4%nat); [auto|simpl; lia].
    + apply (P 255 8%nat); [auto|simpl; lia].
Qed.
Lemma varint_tr : tr_law varint.
Proof.
  intros v p q H E NE. simpl in *. unfold varint_enc in E. unfold varint_dec.
  destruct p as [|h p']; [reflexivity|].
  assert (Hq : (0 < length q)%nat) by (destruct q; [congruence|simpl; lia]).
  destruct (Z.ltb_spec v 0xfd).
  - apply (f_equal (@length _)) in E. simpl in E. rewrite app_length in E. lia.
  - assert (exists n t, h = z2b t /\ (t = 0xfd /\ n = 2%nat \/ t = 0xfe /\ n = 4%nat \/ t = 0xff /\ n = 8%nat)
               /\ le_enc n v = p' ++ q) as (n & t & -> & Ht & E').
    { destruct (Z.leb_spec v 0xffff); [|destruct (Z.leb_spec v 0xffffffff)]; injection E as <- E.
      - exists 2%nat, 0xfd. intuition.
      - exists 4%nat, 0xfe. intuition.
      - exists 8%nat, 0xff. intuition. }
    rewrite take1_cons. cbn [bind fst snd].
    assert (Lp : (length p' < n)%nat).
    { apply (f_equal (@length _)) in E'. rewrite le_enc_length, app_length in E'. lia. }
    destruct Ht as [[-> ->]|[[-> ->]|[-> ->]]]; vm_compute (le_dec [_]);
      cbn [Z.ltb Z.compare Pos.compare Pos.compare_cont Z.eqb Pos.eqb];
      rewrite take_n_short by assumption; reflexivity.
Qed.
Lemma varint_err : err_law varint.
Proof.
  intros b e H. simpl in H. unfold varint_dec in H.
  destruct (take_n 1 b) as [[h r]|e1] eqn:T; cbn [bind fst snd] in H.
  - destruct (le_dec h <? 253); [discriminate|].
    destruct (take_n _ r) eqn:T2; cbn [bind] in H; [discriminate|]. injection H as <-. left. eapply take_n_err; exact T2.
  - injection H as <-. left. eapply take_n_err; exact T.
Qed.
Lemma varint_prog : prog_law varint.
Proof.
  intros b a r H. simpl in H. unfold varint_dec in H.
  destruct (take_n 1 b) as [[h r1]|] eqn:T; cbn [bind fst snd] in H; [|discriminate].
  apply take_n_ok in T as [-> L]. rewrite app_length, L.
  destruct (le_dec h <? 253).
  - injection H as <- <-. lia.
  - destruct (take_n _ r1) as [[x r2]|] eqn:T2; cbn [bind fst snd] in H; [|discriminate].
    injection H as <- <-. apply take_n_ok in T2 as [-> L2]. rewrite app_length. lia.
Qed.
Lemma varint_enc_ne v : varint_enc v <> [].
Proof.
  unfold varint_enc. destruct (v <? 253); [discriminate|].
  destruct (v <=? 65535); [discriminate|]. destruct (v <=? 4294967295); discriminate.
Qed.
Lemma varint_lawful : lawful varint.
Proof.
  split; [exact varint_rt | exact varint_tr | exact varint_err | exact varint_prog | intros a _; apply varint_enc_ne].
Qed.
(* decoding returns a value below 2^64 *)
Lemma varint_dec_range b v r : varint_dec b = Ok (v, r) -> 0 <= v < 2^64.
Proof.
  unfold varint_dec. destruct (take_n 1 b) as [[h r1]|] eqn:T; cbn [bind fst snd]; [|discriminate].
  apply take_n_ok in T as [_ L]. pose proof (le_dec_range h) as R. rewrite L in R.
  destruct (Z.ltb_spec (le_dec h) 253).
  - intros E. injection E as <- <-. simpl in R. lia.
  - destruct (take_n _ r1) as [[x r2]|] eqn:T2; cbn [bind fst snd]; [|discriminate].
    intros E. injection E as <- <-. apply take_n_ok in T2 as [_ L2]. pose proof (le_dec_range x) as R2. rewrite L2 in R2.
    destruct (le_dec h =? 253); [|destruct (le_dec h =? 254)]; simpl in R2; lia.
Qed.
(* first byte of a CompactSize is zero only for the value zero *)
Lemma varint_enc_head v : 0 < v < 2^64 -> exists h t, varint_enc v = h :: t /\ h <> x00.
Proof.
  intros H. unfold varint_enc. destruct (Z.ltb_spec v 253).
  - exists (z2b v), []. split; [reflexivity|]. intros E. apply (f_equal b2z) in E.
    rewrite b2z_z2b in E. change (b2z x00) with 0 in E. lia.
  - destruct (v <=? 65535); [|destruct (v <=? 4294967295)]; eexists _, _; (split; [reflexivity|discriminate]).
Qed.

(* ---------- BytesSerializer / VarStringSerializer ---------- *)
Section WithMax.
Variable max_size : Z.
Hypothesis max_pos : 0 <= max_size < 2^64.

Definition varbytes : codec bytes := {|
  wf := fun x => Z.of_nat (length x) <= max_size;
  enc := fun x => varint_enc (Z.of_nat (length x)) ++ x;
  decode := fun b => do lr <- varint_dec b; ser_read max_size (fst lr) (snd lr);
  norm := fun x => x |}.
Lemma varbytes_lawful : lawful varbytes.
Proof.
  destruct varint_lawful as [rt tr er pr ne]. split.
  - intros x rest H. simpl in *. rewrite <- app_assoc.
    pose proof (rt (Z.of_nat (length x)) (x ++ rest)) as R. simpl in R. rewrite R by lia. cbn [bind fst snd].
    unfold ser_read. destruct (Z.gtb_spec (Z.of_nat (length x)) max_size); [lia|].
    rewrite Nat2Z.id. now apply take_n_app.
  - intros x p q H E NE. simpl in *.
    apply app_eq_app in E as [l [[E1 E2] | [E1 E2]]].
    + destruct l as [|y l].
      * rewrite app_nil_r in E1. subst p. simpl in E2. subst q.
        pose proof (rt (Z.of_nat (length x)) []) as R. simpl in R. rewrite app_nil_r in R. rewrite R by lia.
        cbn [bind fst snd]. unfold ser_read. destruct (Z.gtb_spec (Z.of_nat (length x)) max_size); [lia|].
        rewrite Nat2Z.id. apply take_n_short. destruct x; [congruence|simpl; lia].
      * pose proof (tr (Z.of_nat (length x)) p (y :: l)) as T. simpl in T. rewrite T; [reflexivity|lia|assumption|discriminate].
    + subst p. pose proof (rt (Z.of_nat (length x)) l) as R. simpl in R. rewrite R by lia.
      cbn [bind fst snd]. unfold ser_read. destruct (Z.gtb_spec (Z.of_nat (length x)) max_size); [lia|].
      rewrite Nat2Z.id. apply take_n_short. subst x. rewrite app_length. destruct q; [congruence|simpl; lia].
  - intros b e H. simpl in H. destruct (varint_dec b) as [[l r]|e1] eqn:D; cbn [bind fst snd] in H.
    + unfold ser_read in H. destruct (l >? max_size); [injection H as <-; now right|].
      left. eapply take_n_err; exact H.
    + injection H as <-. eapply er. exact D.
  - intros b a r H. simpl in H. destruct (varint_dec b) as [[l r1]|] eqn:D; cbn [bind fst snd] in H; [|discriminate].
    apply pr in D. unfold ser_read in H. destruct (l >? max_size); [discriminate|].
    apply take_n_ok in H as [-> _]. rewrite app_length in D. lia.
  - intros x H. simpl. intros E. apply app_eq_nil in E as [E _]. now apply varint_enc_ne in E.
Qed.
End WithMax.

(* ---------- VectorSerializer: count, then that many elements ---------- *)
Definition rep_enc {A} (c : codec A) (l : list A) : bytes := concat (map (enc c) l).
Lemma rep_enc_cons {A} (c : codec A) a t : rep_enc c (a :: t) = enc c a ++ rep_enc c t.
Proof. reflexivity. Qed.
Lemma rep_enc_app {A} (c : codec A) l1 l2 : rep_enc c (l1 ++ l2) = rep_enc c l1 ++ rep_enc c l2.
Proof. unfold rep_enc. now rewrite map_app, concat_app. Qed.

(* the Python loop `for i in range(n): r.append(inner.stream_deserialize(f))` with the
   count n a Python int; structural recursion on fuel (the bytes available bound the
   number of successful iterations because every element consumes at least one byte) *)
Fixpoint rep_dec {A} (c : codec A) (fuel : nat) (n : Z) (b : bytes) : res (list A * bytes) :=
  if n <=? 0 then Ok ([], b) else
  match fuel with
  | O => Err OutOfFuel
  | S f => do ar <- decode c b; do lr <- rep_dec c f (n - 1) (snd ar); Ok (fst ar :: fst lr, snd lr)
  end.

Lemma of_nat_S_leb0 n : (Z.of_nat (S n) <=? 0) = false.
Proof. apply Z.leb_gt. lia. Qed.
Lemma of_nat_S_pred n : Z.of_nat (S n) - 1 = Z.of_nat n.
Proof. lia. Qed.
Lemma rep_rt {A} (c : codec A) : rt_law c -> forall l rest fuel, Forall (wf c) l ->
  (length l <= fuel)%nat ->
  rep_dec c fuel (Z.of_nat (length l)) (rep_enc c l ++ rest) = Ok (map (norm c) l, rest).
Proof.
  intros rt l. induction l as [|a t IH]; intros rest fuel F Hf.
  - destruct fuel; reflexivity.
  - inversion F; subst. destruct fuel as [|f]; [simpl in Hf; lia|].
    cbn [rep_dec length]. rewrite of_nat_S_leb0, of_nat_S_pred.
    rewrite rep_enc_cons, <- app_assoc, rt by assumption. cbn [bind fst snd].
    rewrite IH by (try assumption; simpl in Hf; lia). reflexivity.
Qed.
Lemma rep_tr {A} (c : codec A) : rt_law c -> tr_law c -> ne_law c -> forall l p q fuel, Forall (wf c) l ->
  rep_enc c l = p ++ q -> q <> [] -> (length p < fuel)%nat ->
  rep_dec c fuel (Z.of_nat (length l)) p = Err Trunc.
Proof.
  intros rt tr ne l. induction l as [|a t IH]; intros p q fuel F E NE Hf.
  - unfold rep_enc in E. simpl in E. symmetry in E. apply app_eq_nil in E as [_ ->]. congruence.
  - inversion F; subst. rewrite rep_enc_cons in E. destruct fuel as [|f]; [lia|].
    cbn [rep_dec length]. rewrite of_nat_S_leb0, of_nat_S_pred.
    apply app_eq_app in E as [l [[E1 E2] | [E1 E2]]].
    + destruct l as [|x l].
      * rewrite app_nil_r in E1. subst p. simpl in E2.
        pose proof (rt a [] H1) as R. rewrite app_nil_r in R. rewrite R. cbn [bind fst snd].
        rewrite (IH [] q f H2); [reflexivity| now rewrite <- E2 | assumption |].
        specialize (ne a H1). destruct (enc c a); [congruence|simpl in *; lia].
      * rewrite (tr a p (x :: l) H1 E1) by discriminate. reflexivity.
    + subst p. rewrite rt by assumption. cbn [bind fst snd].
      rewrite (IH l q f H2 E2 NE); [reflexivity|].
      rewrite app_length in Hf. specialize (ne a H1). destruct (enc c a); [congruence|simpl in Hf; lia].
Qed.
Lemma rep_err {A} (c : codec A) : err_law c -> prog_law c -> forall fuel n b e,
  (length b < fuel)%nat -> rep_dec c fuel n b = Err e -> e = Trunc \/ e = SerErr.
Proof.
  intros er pr fuel. induction fuel as [|f IH]; intros n b e Hf H; [lia|].
  cbn [rep_dec] in H. destruct (n <=? 0); [discriminate|].
  destruct (decode c b) as [[a r]|e1] eqn:D; cbn [bind fst snd] in H.
  - destruct (rep_dec c f (n - 1) r) as [[l r']|e2] eqn:R; cbn [bind] in H; [discriminate|].
    injection H as <-. apply pr in D. eapply IH; [|exact R]. lia.
  - injection H as <-. eapply er; exact D.
Qed.
Lemma rep_prog {A} (c : codec A) : prog_law c -> forall fuel n b l r,
  rep_dec c fuel n b = Ok (l, r) -> (length r <= length b)%nat.
Proof.
  intros pr fuel. induction fuel as [|f IH]; intros n b l r H; cbn [rep_dec] in H.
  - destruct (n <=? 0); [|discriminate]. injection H as <- <-. lia.
  - destruct (n <=? 0); [injection H as <- <-; lia|].
    destruct (decode c b) as [[a r1]|] eqn:D; cbn [bind fst snd] in H; [|discriminate].
    destruct (rep_dec c f (n - 1) r1) as [[l' r']|] eqn:R; cbn [bind fst snd] in H; [|discriminate].
    injection H as <- <-. apply pr in D. apply IH in R. lia.
Qed.
Lemma rep_enc_length_ge {A} (c : codec A) : ne_law c -> forall l, Forall (wf c) l ->
  (length l <= length (rep_enc c l))%nat.
Proof.
  intros ne l F. induction F as [|a t Ha F IH]; [simpl; lia|].
  rewrite rep_enc_cons, app_length. simpl length. specialize (ne a Ha). destruct (enc c a); [congruence|simpl; lia].
Qed.

Definition vector {A} (c : codec A) : codec (list A) := {|
  wf := fun l => Forall (wf c) l /\ Z.of_nat (length l) < 2^64;
  enc := fun l => varint_enc (Z.of_nat (length l)) ++ rep_enc c l;
  decode := fun b => do nr <- varint_dec b; rep_dec c (S (length (snd nr))) (fst nr) (snd nr);
  norm := map (norm c) |}.
Lemma vector_lawful {A} (c : codec A) : lawful c -> lawful (vector c).
Proof.
  intros [rt tr er pr ne]. destruct varint_lawful as [vrt vtr ver vpr vne]. split.
  - intros l rest [F Hl]. cbn [vector wf enc decode norm fst snd] in *. rewrite <- app_assoc.
    pose proof (vrt (Z.of_nat (length l)) (rep_enc c l ++ rest)) as R. cbn [varint wf enc decode norm] in R. rewrite R by lia.
    cbn [bind fst snd]. apply rep_rt; try assumption.
    rewrite app_length. pose proof (rep_enc_length_ge c ne l F). lia.
  - intros l p q [F Hl] E NE. cbn [vector wf enc decode norm fst snd] in *.
    apply app_eq_app in E as [m [[E1 E2] | [E1 E2]]].
    + destruct m as [|y m].
      * rewrite app_nil_r in E1. subst p. simpl in E2. subst q.
        pose proof (vrt (Z.of_nat (length l)) []) as R. cbn [varint wf enc decode norm] in R. rewrite app_nil_r in R. rewrite R by lia.
        cbn [bind fst snd]. eapply (rep_tr c rt tr ne l [] (rep_enc c l)); try assumption; [reflexivity|simpl; lia].
      * pose proof (vtr (Z.of_nat (length l)) p (y :: m)) as T. cbn [varint wf enc decode norm] in T. rewrite T; [reflexivity|lia|assumption|discriminate].
    + subst p. pose proof (vrt (Z.of_nat (length l)) m) as R. cbn [varint wf enc decode norm] in R. rewrite R by lia.
      cbn [bind fst snd]. eapply rep_tr; try eassumption. lia.
  - intros b e H. cbn [vector wf enc decode norm] in H. destruct (varint_dec b) as [[n r]|e1] eqn:D; cbn [bind fst snd] in H.
    + eapply rep_err; [exact er|exact pr| |exact H]. lia.
    + injection H as <-. eapply ver; exact D.
  - intros b l r H. cbn [vector wf enc decode norm] in H. destruct (varint_dec b) as [[n r1]|] eqn:D; cbn [bind fst snd] in H; [|discriminate].
    apply vpr in D. apply (rep_prog c pr) in H. lia.
  - intros l H. cbn [vector wf enc decode norm]. intros E. apply app_eq_nil in E as [E _]. now apply varint_enc_ne in E.
Qed.

(* ---------- dependent repetition: x, then (count x) elements ---------- *)
Definition dep_rep {X T} (cx : codec X) (count : X -> nat) (cs : codec T) : codec (X * list T) := {|
  wf := fun xs => wf cx (fst xs) /\ Forall (wf cs) (snd xs) /\ length (snd xs) = count (fst xs)
                  /\ count (norm cx (fst xs)) = count (fst xs);
  enc := fun xs => enc cx (fst xs) ++ rep_enc cs (snd xs);
  decode := fun b => do xr <- decode cx b;
                     do sr <- rep_dec cs (S (length (snd xr))) (Z.of_nat (count (fst xr))) (snd xr);
                     Ok ((fst xr, fst sr), snd sr);
  norm := fun xs => (norm cx (fst xs), map (norm cs) (snd xs)) |}.
Lemma dep_rep_lawful {X T} (cx : codec X) count (cs : codec T) : lawful cx -> lawful cs -> lawful (dep_rep cx count cs).
Proof.
  intros [rtx trx ex px nx] [rts trs es ps ns]. split.
  - intros [x ss] rest (Hx & F & L & N). cbn [dep_rep wf enc decode norm fst snd] in *.
    rewrite <- app_assoc, rtx by assumption. cbn [bind fst snd]. rewrite N, <- L.
    rewrite rep_rt; [reflexivity|assumption|assumption|].
    rewrite app_length. pose proof (rep_enc_length_ge cs ns ss F). lia.
  - intros [x ss] p q (Hx & F & L & N) E NE. cbn [dep_rep wf enc decode norm fst snd] in *.
    apply app_eq_app in E as [l [[E1 E2] | [E1 E2]]].
    + destruct l as [|y l].
      * rewrite app_nil_r in E1. subst p. simpl in E2. subst q.
        pose proof (rtx x [] Hx) as R. rewrite app_nil_r in R. rewrite R. cbn [bind fst snd]. rewrite N, <- L.
        rewrite (rep_tr cs rts trs ns ss [] (rep_enc cs ss)); [reflexivity|assumption|reflexivity|assumption|simpl; lia].
      * rewrite (trx x p (y :: l) Hx E1) by discriminate. reflexivity.
    + subst p. rewrite rtx by assumption. cbn [bind fst snd]. rewrite N, <- L.
      rewrite (rep_tr cs rts trs ns ss l q); [reflexivity|assumption|assumption|assumption|lia].
  - intros b e H. cbn [dep_rep decode] in H. destruct (decode cx b) as [[x r]|e1] eqn:D; cbn [bind fst snd] in H.
    + destruct (rep_dec cs _ _ r) as [[l r']|e2] eqn:R; cbn [bind] in H; [discriminate|]. injection H as <-.
      eapply rep_err; [exact es|exact ps| |exact R]. lia.
    + injection H as <-. eapply ex; exact D.
  - intros b [x ss] r H. cbn [dep_rep decode] in H. destruct (decode cx b) as [[x' r1]|] eqn:D; cbn [bind fst snd] in H; [|discriminate].
    destruct (rep_dec cs _ _ r1) as [[l r2]|] eqn:R; cbn [bind fst snd] in H; [|discriminate]. injection H as <- <- <-.
    apply px in D. apply (rep_prog cs ps) in R. lia.
  - intros [x ss] (Hx & _). cbn [dep_rep enc fst snd]. intros E. apply app_eq_nil in E as [E _]. eapply nx; eassumption.
Qed.

(* ---------- two-byte look-ahead (the BIP144 marker/flag test) ---------- *)
(* read two bytes; if they are (m0, m1) continue with cw after them, otherwise seek back
   and continue with cn *)
Definition peek2 {W N} (m0 m1 : byte) (cw : codec W) (cn : codec N) : codec (W + N) := {|
  wf := fun x => match x with
                 | inl w => wf cw w
                 | inr n => wf cn n /\ exists h1 h2 tl, enc cn n = h1 :: h2 :: tl /\ (h1 <> m0 \/ h2 <> m1)
                 end;
  enc := fun x => match x with inl w => m0 :: m1 :: enc cw w | inr n => enc cn n end;
  decode := fun b =>
    do mr <- take_n 1 b; do fr <- take_n 1 (snd mr);
    if bytes_eqb (fst mr) [m0] && bytes_eqb (fst fr) [m1]
    then do wr <- decode cw (snd fr); Ok (inl (fst wr), snd wr)
    else do nr <- decode cn b; Ok (inr (fst nr), snd nr);
  norm := fun x => match x with inl w => inl (norm cw w) | inr n => inr (norm cn n) end |}.

Lemma byte1_eqb a b : bytes_eqb [a] [b] = true <-> a = b.
Proof. rewrite bytes_eqb_eq. split; congruence. Qed.
Lemma peek_other m0 m1 h1 h2 : h1 <> m0 \/ h2 <> m1 -> bytes_eqb [h1] [m0] && bytes_eqb [h2] [m1] = false.
Proof.
  intros H. apply andb_false_iff. destruct H as [H|H]; [left|right];
    (destruct (bytes_eqb _ _) eqn:E; [apply byte1_eqb in E; congruence|reflexivity]).
Qed.
Lemma peek2_lawful {W N} m0 m1 (cw : codec W) (cn : codec N) : lawful cw -> lawful cn -> lawful (peek2 m0 m1 cw cn).
Proof.
  intros [rtw trw ew pw nw] [rtn trn en pn nn]. split.
  - intros [w|n] rest H; cbn [peek2 wf enc decode norm] in *.
    + cbn [app]. rewrite take1_cons. cbn [bind fst snd]. rewrite take1_cons. cbn [bind fst snd]. rewrite !bytes_eqb_refl. cbn [andb].
      rewrite rtw by assumption. reflexivity.
    + destruct H as (H & h1 & h2 & tl & E & NE). rewrite E. cbn [app]. rewrite take1_cons. cbn [bind fst snd]. rewrite take1_cons. cbn [bind fst snd].
      rewrite peek_other by assumption. change (h1 :: h2 :: tl ++ rest) with ((h1 :: h2 :: tl) ++ rest).
      rewrite <- E, rtn by assumption. reflexivity.
  - intros [w|n] p q H E NE; cbn [peek2 wf enc decode norm] in *.
    + destruct p as [|a [|b p']]; [reflexivity|reflexivity|].
      injection E as -> -> E. rewrite take1_cons. cbn [bind fst snd]. rewrite take1_cons. cbn [bind fst snd]. rewrite !bytes_eqb_refl. cbn [andb].
      rewrite (trw w p' q H E NE). reflexivity.
    + destruct H as (H & h1 & h2 & tl & E' & NE'). rewrite E' in E.
      destruct p as [|a [|b p']]; [reflexivity|reflexivity|].
      injection E as -> -> E. rewrite take1_cons. cbn [bind fst snd]. rewrite take1_cons. cbn [bind fst snd]. rewrite peek_other by assumption.
      rewrite (trn n (a :: b :: p') q H); [reflexivity| |assumption]. rewrite E', E. reflexivity.
  - intros b e H. cbn [peek2 decode] in H.
    destruct (take_n 1 b) as [[m r]|e1] eqn:T1; cbn [bind fst snd] in H; [|injection H as <-; left; eapply take_n_err; exact T1].
    destruct (take_n 1 r) as [[f r']|e2] eqn:T2; cbn [bind fst snd] in H; [|injection H as <-; left; eapply take_n_err; exact T2].
    destruct (_ && _).
    + destruct (decode cw r') eqn:D; cbn [bind] in H; [discriminate|]. injection H as <-. eapply ew; exact D.
    + destruct (decode cn b) eqn:D; cbn [bind] in H; [discriminate|]. injection H as <-. eapply en; exact D.
  - intros b x r H. cbn [peek2 decode] in H.
    destruct (take_n 1 b) as [[m r1]|] eqn:T1; cbn [bind fst snd] in H; [|discriminate].
    destruct (take_n 1 r1) as [[f r2]|] eqn:T2; cbn [bind fst snd] in H; [|discriminate].
    apply take_n_ok in T1 as [-> L1]. apply take_n_ok in T2 as [-> L2].
    destruct (_ && _).
    + destruct (decode cw r2) as [[w r3]|] eqn:D; cbn [bind fst snd] in H; [|discriminate]. injection H as <- <-.
      apply pw in D. rewrite !app_length. lia.
    + destruct (decode cn _) as [[n r3]|] eqn:D; cbn [bind fst snd] in H; [|discriminate]. injection H as <- <-.
      apply pn in D. exact D.
  - intros [w|n] H; cbn [peek2 enc wf] in *; [discriminate|]. destruct H as [H _]. now apply nn.
Qed.

(* ---------- Serializable.deserialize(buf, allow_padding) ---------- *)
Inductive dres (A : Type) := DOk (a : A) | DExtra (a : A) (pad : bytes) | DErr (e : exn).
Arguments DOk {A}. Arguments DExtra {A}. Arguments DErr {A}.
Definition deserialize {A} (c : codec A) (allow_padding : bool) (b : bytes) : dres A :=
  match decode c b with
  | Err e => DErr e
  | Ok (a, r) => if allow_padding then DOk a else match r with [] => DOk a | _ => DExtra a r end
  end.

Section Deserialize.
Context {A : Type} (c : codec A) (L : lawful c).
Lemma deser_exact a ap : wf c a -> deserialize c ap (enc c a) = DOk (norm c a).
Proof.
  intros H. unfold deserialize. pose proof (l_rt c L a [] H) as R. rewrite app_nil_r in R. rewrite R.
  destruct ap; reflexivity.
Qed.
Lemma deser_prefix a p q ap : wf c a -> enc c a = p ++ q -> q <> [] -> deserialize c ap p = DErr Trunc.
Proof. intros H E NE. unfold deserialize. rewrite (l_tr c L a p q H E NE). reflexivity. Qed.
Lemma deser_extra a q : wf c a -> q <> [] ->
  deserialize c false (enc c a ++ q) = DExtra (norm c a) q /\ deserialize c true (enc c a ++ q) = DOk (norm c a).
Proof.
  intros H NE. unfold deserialize. rewrite (l_rt c L a q H). split; [|reflexivity].
  destruct q; [congruence|reflexivity].
Qed.
Lemma deser_total b ap : match deserialize c ap b with
  | DOk _ | DExtra _ _ => True | DErr e => e = Trunc \/ e = SerErr end.
Proof.
  unfold deserialize. destruct (decode c b) as [[a r]|e] eqn:D.
  - destruct ap; [exact I|]. destruct r; exact I.
  - eapply (l_err c L); exact D.
Qed.
(* a surplus is reported only when padding was not allowed, and it is the unread suffix *)
Lemma deser_extra_inv b a pad ap : deserialize c ap b = DExtra a pad ->
  ap = false /\ pad <> [] /\ decode c b = Ok (a, pad).
Proof.
  unfold deserialize. destruct (decode c b) as [[a' r]|e]; [|discriminate].
  destruct ap; [discriminate|]. destruct r; [discriminate|]. intros E. injection E as <- <-.
  repeat split; congruence.
Qed.
End Deserialize.

(* ---------- struct formats as data (regenerated from the source by the translator) ---------- *)
Record fmt := { f_signed : bool; f_width : nat }.
Definition U8 := {| f_signed := false; f_width := 1 |}.
Definition U16 := {| f_signed := false; f_width := 2 |}.
Definition U32 := {| f_signed := false; f_width := 4 |}.
Definition U64 := {| f_signed := false; f_width := 8 |}.
Definition I32 := {| f_signed := true; f_width := 4 |}.
Definition I64 := {| f_signed := true; f_width := 8 |}.
Definition fmt_eqb (a b : fmt) : bool := Bool.eqb (f_signed a) (f_signed b) && (f_width a =? f_width b)%nat.
Definition fmt_codec (f : fmt) : codec Z := if f_signed f then le_int (f_width f) else le_uint (f_width f).
(* a field written with format fe and read back with format fd *)
Definition field (fe fd : fmt) : codec Z := {|
  wf := wf (fmt_codec fe); enc := enc (fmt_codec fe); decode := decode (fmt_codec fd); norm := fun v => v |}.
Lemma field_lawful f : (0 < f_width f)%nat -> lawful (field f f).
Proof.
  intros H. unfold field, fmt_codec. destruct (f_signed f).
  - destruct (le_int_lawful (f_width f) H). split; assumption.
  - destruct (le_uint_lawful (f_width f) H). split; assumption.
Qed.
Definition nth_fmt (k : nat) (l : list fmt) : fmt := nth k l {| f_signed := false; f_width := 0 |}.
