(* Common/P2PMsg.v – value-level P2P messages (shared by SPEC and MODEL of C18).
   Addresses are modelled by their wire bytes: `na_ip` is the 4 bytes of a dotted IPv4
   string (a Python str without ':') or the 16 bytes of an IPv6 string (with ':'), i.e.
   socket.inet_pton / inet_ntop are taken to be mutually inverse bijections between those
   strings and their packed form (stated assumption; CPython/libc are not modelled). *)
From BV Require Import Common.Base Common.Tx.

Record netaddr := { na_services : Z; na_ip : bytes; na_port : Z }.
(* CAddress inside `addr`: the object's protover decides whether nTime is written *)
Record taddr := { ta_protover : Z; ta_time : Z; ta_addr : netaddr }.
Record inv := { inv_type : Z; inv_hash : bytes }.
Record locator := { loc_version : Z; loc_have : list bytes }.
(* msg_version: msg_deser leaves None in the fields an old nVersion does not carry *)
Record version_msg := { v_version : Z; v_services : Z; v_time : Z; v_to : netaddr;
  v_from : option netaddr; v_nonce : option Z; v_subver : option bytes; v_height : option Z;
  v_relay : Z }.

Inductive msg :=
| MVersion (v : version_msg) | MVerack | MAddr (l : list taddr) | MAlert (m s : bytes)
| MInv (l : list inv) | MGetdata (l : list inv) | MNotfound (l : list inv)
| MGetblocks (loc : locator) (stop : bytes) | MGetheaders (loc : locator) (stop : bytes)
| MHeaders (l : list header) | MTx (t : tx) | MBlock (b : block) | MGetaddr
| MPing (n : Z) | MPong (n : Z) | MReject (m c r : bytes) | MMempool.

(* position in messages.msg_classes order:
   version verack addr alert inv getdata notfound getblocks getheaders headers tx block
   getaddr ping pong reject mempool *)
Definition class_of (m : msg) : nat :=
  match m with
  | MVersion _ => 0 | MVerack => 1 | MAddr _ => 2 | MAlert _ _ => 3 | MInv _ => 4 | MGetdata _ => 5
  | MNotfound _ => 6 | MGetblocks _ _ => 7 | MGetheaders _ _ => 8 | MHeaders _ => 9 | MTx _ => 10
  | MBlock _ => 11 | MGetaddr => 12 | MPing _ => 13 | MPong _ => 14 | MReject _ _ _ => 15 | MMempool => 16
  end%nat.
