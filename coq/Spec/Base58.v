(* Spec/Base58.v – reference definition of Base58 and Base58Check (Bitcoin Core base58.cpp,
   EncodeBase58 / DecodeBase58 / DecodeBase58Check), reference style: a byte string is a
   base-256 numeral, a Base58 string is a base-58 numeral over the Bitcoin alphabet, and
   leading zero bytes correspond one to one to leading '1' characters.
   The alphabet below is the REFERENCE alphabet (written here, not read from /repo); the
   generated constant Gen.B58.B58_DIGITS is proved equal to it in Proofs/Base58.v. *)
From BV Require Import Common.Base.

Definition text := list Z.      (* Python str: list of code points *)

(* "123456789ABCDEFGHJKLMNPQRSTUVWXYZabcdefghijkmnopqrstuvwxyz" as code points (digits
   without 0, upper case without I and O, lower case without l); Proofs/Base58Spec.v
   (alphabet_is_string) checks this list against the string literal.  Written as numbers
   because Coq strings must not reach the extracted driver. *)
Definition alphabet : text :=
  [49;50;51;52;53;54;55;56;57;65;66;67;68;69;70;71;72;74;75;76;77;78;80;81;82;83;84;85;86;87;88;89;90;97;98;99;100;101;102;103;104;105;106;107;109;110;111;112;113;114;115;116;117;118;119;120;121;122].

(* ---------- positional notation in base b ---------- *)
(* digits of n, least significant first; fuel = bit length of n (never a data-sized nat) *)
Fixpoint to_lsb (b : Z) (fuel : nat) (n : Z) : list Z :=
  match fuel with
  | O => []
  | S f => if n <=? 0 then [] else n mod b :: to_lsb b f (n / b)
  end.
Definition fuel_of (n : Z) : nat := S (Z.to_nat (Z.log2 n)).
(* most significant digit first; the empty list for n = 0 *)
Definition digits_msb (b n : Z) : list Z := rev (to_lsb b (fuel_of n) n).
(* value of a numeral, most significant digit first *)
Definition value_msb (b : Z) (ds : list Z) : Z := fold_left (fun a d => a * b + d) ds 0.
(* value of a numeral, least significant digit first (used by the lemmas) *)
Fixpoint from_lsb (b : Z) (ds : list Z) : Z :=
  match ds with [] => 0 | d :: t => d + b * from_lsb b t end.

(* length of the longest prefix whose elements satisfy p *)
Fixpoint count_lead {A} (p : A -> bool) (l : list A) : nat :=
  match l with
  | x :: t => if p x then S (count_lead p t) else O
  | [] => O
  end.

(* ---------- bytes as base-256 numerals ---------- *)
Definition be_value (x : bytes) : Z := value_msb 256 (map b2z x).
Definition be_bytes (n : Z) : bytes := map z2b (digits_msb 256 n).   (* minimal length *)
Definition is_zero_byte (c : byte) : bool := b2z c =? 0.

(* ---------- the alphabet as digit <-> character map ---------- *)
Fixpoint index_of (c : Z) (l : list Z) : option nat :=
  match l with
  | [] => None
  | x :: t => if c =? x then Some O else option_map S (index_of c t)
  end.
Definition chr58 (d : Z) : Z := nth (Z.to_nat d) alphabet 0.
Definition ord58 (c : Z) : option Z := option_map Z.of_nat (index_of c alphabet).
Fixpoint map_opt {A B} (f : A -> option B) (l : list A) : option (list B) :=
  match l with
  | [] => Some []
  | a :: t => match f a, map_opt f t with
              | Some b, Some r => Some (b :: r)
              | _, _ => None
              end
  end.

(* ---------- Base58 ---------- *)
(* one '1' per leading zero byte, then the base-58 digits of the value, most significant
   first (none for value 0) *)
Definition spec_encode (x : bytes) : text :=
  repeat (chr58 0) (count_lead is_zero_byte x) ++ map chr58 (digits_msb 58 (be_value x)).
(* a character outside the alphabet is invalid; otherwise one zero byte per leading '1'
   (digit 0), then the minimal big-endian bytes of the value *)
Definition spec_decode (s : text) : res bytes :=
  match map_opt ord58 s with
  | None => Err Base58Invalid
  | Some ds => Ok (repeat x00 (count_lead (Z.eqb 0) ds) ++ be_bytes (value_msb 58 ds))
  end.

(* ---------- Base58Check ---------- *)
(* k = version byte ++ payload ++ 4 checksum bytes *)
Definition body (k : bytes) : bytes := firstn (length k - 4) k.
Definition tail4 (k : bytes) : bytes := skipn (length k - 4) k.
(* H is the checksum hash (double SHA-256 in Bitcoin); only its first four bytes are used *)
Definition check_ok (H : bytes -> bytes) (k : bytes) : Prop :=
  (5 <= length k)%nat /\ tail4 k = firstn 4 (H (body k)).
Definition check_okb (H : bytes -> bytes) (k : bytes) : bool :=
  (5 <=? length k)%nat && bytes_eqb (tail4 k) (firstn 4 (H (body k))).
Lemma check_okb_iff H k : check_okb H k = true <-> check_ok H k.
Proof.
  unfold check_okb, check_ok. rewrite andb_true_iff, Nat.leb_le, bytes_eqb_eq. tauto.
Qed.

Definition spec_check_decode (H : bytes -> bytes) (s : text) : res (Z * bytes) :=
  match spec_decode s with
  | Err e => Err e
  | Ok k => if check_okb H k
            then match body k with
                 | v :: p => Ok (b2z v, p)
                 | [] => Err Base58Checksum
                 end
            else Err Base58Checksum
  end.
(* text form of (version, payload), 0 <= version < 256 *)
Definition spec_to_text (H : bytes -> bytes) (v : Z) (p : bytes) : text :=
  let vs := z2b v :: p in spec_encode (vs ++ firstn 4 (H vs)).
