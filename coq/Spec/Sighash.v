(* Spec/Sighash.v – the legacy (pre-segwit) signature hash of Bitcoin Core: SignatureHash
   with the on-the-fly CTransactionSignatureSerializer of script/interpreter.cpp (DESIGN.md
   Appendix D.1).  Reference style: nothing is copied or modified; the digest preimage is
   written as counts and per-item rules over the ORIGINAL transaction, with the wire
   formulas of Spec/Wire.v.  The witness never enters.

     idx >= |vin|                          ->  (1, error)     1 = 01 00..00 (32 bytes)
     (ht & 0x1f) = SINGLE and idx >= |vout| ->  (1, error)
     otherwise  digest = H( i32 version ++ cs(nIn) ++ inputs ++ cs(nOut) ++ outputs
                            ++ u32 locktime ++ i32 ht )                                  *)
From BV Require Import Common.Base Common.Tx Spec.Wire Spec.ScriptRef.

Definition sh_base (ht : Z) : Z := ht mod 32.                  (* hashtype & 0x1f *)
Definition sh_anyone (ht : Z) : bool := 128 <=? ht mod 256.    (* bit 0x80: ANYONECANPAY *)
Definition sh_none (ht : Z) : bool := sh_base ht =? 2.
Definition sh_single (ht : Z) : bool := sh_base ht =? 3.
Definition one32 : bytes := x01 :: repeat x00 31.              (* uint256 one *)

(* the subscript with every OP_CODESEPARATOR *opcode* removed (bytes 0xab inside push data
   stay): Core's FindAndDelete with the one-byte pattern *)
Definition strip_codesep (code : bytes) : bytes := find_and_delete_ref code [xab].

Fixpoint mapi {A B} (f : nat -> A -> B) (k : nat) (l : list A) : list B :=
  match l with [] => [] | a :: t => f k a :: mapi f (S k) t end.

(* SerializeInput(k): the outpoint; the cleaned subscript for the input being signed and an
   empty script for every other; the sequence number, zeroed for the others under NONE / SINGLE *)
Definition ser_input (code' : bytes) (idx : nat) (ht : Z) (k : nat) (x : txin) : bytes :=
  wire_outpoint (ti_prevout x)
  ++ (if (k =? idx)%nat then vb code' else cs 0)
  ++ u 4 (if (k =? idx)%nat || negb (sh_none ht || sh_single ht) then ti_seq x else 0).
(* SerializeOutput(j): under SINGLE every output before idx is the null output (-1, empty) *)
Definition ser_output (idx : nat) (ht : Z) (j : nat) (o : txout) : bytes :=
  if sh_single ht && negb (j =? idx)%nat then i 8 (-1) ++ cs 0 else wire_txout o.

(* nInputs = 1 (only idx) under ANYONECANPAY, else all *)
Definition ser_inputs (code' : bytes) (t : tx) (idx : nat) (x : txin) (ht : Z) : bytes :=
  if sh_anyone ht then cs 1 ++ ser_input code' idx ht idx x
  else cs (lenZ (tx_vin t)) ++ concat (mapi (ser_input code' idx ht) 0 (tx_vin t)).
(* nOutputs = 0 (NONE), idx+1 (SINGLE), else all *)
Definition ser_outputs (t : tx) (idx : nat) (ht : Z) : bytes :=
  if sh_none ht then cs 0
  else if sh_single ht then
    cs (Z.of_nat idx + 1) ++ concat (mapi (ser_output idx ht) 0 (firstn (S idx) (tx_vout t)))
  else cs (lenZ (tx_vout t)) ++ concat (map wire_txout (tx_vout t)).

Definition sighash_preimage (code : bytes) (t : tx) (idx : nat) (x : txin) (ht : Z) : bytes :=
  i 4 (tx_version t) ++ ser_inputs (strip_codesep code) t idx x ht ++ ser_outputs t idx ht
  ++ u 4 (tx_lock t) ++ i 4 ht.

Section S.
Variable H : bytes -> bytes.     (* double SHA-256 in Bitcoin; arbitrary here *)
(* (digest, error indication) *)
Definition legacy_sighash (code : bytes) (t : tx) (idx : nat) (ht : Z) : bytes * bool :=
  match nth_error (tx_vin t) idx with
  | None => (one32, true)
  | Some x =>
      if sh_single ht && (length (tx_vout t) <=? idx)%nat then (one32, true)
      else (H (sighash_preimage code t idx x ht), false)
  end.
End S.

(* the transactions the property quantifies over: every field in its wire range *)
Definition sighash_tx_ok (t : tx) : Prop :=
  in_i 4 (tx_version t) /\ in_u 4 (tx_lock t) /\
  Forall (fun x => length (op_hash (ti_prevout x)) = 32%nat /\ in_u 4 (op_n (ti_prevout x)) /\ in_u 4 (ti_seq x)) (tx_vin t) /\
  Forall (fun o => in_i 8 (to_value o)) (tx_vout t).
