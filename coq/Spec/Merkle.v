(* Spec/Merkle.v – reference definitions for C15.
   (1) the Bitcoin merkle root (consensus/merkle.cpp, reference style): pair adjacent
       nodes, pair the last node with itself on a level of odd length, repeat until one
       node is left; the root of a single id is that id.  Parametric in the hash H.
   (2) the witness merkle root (BIP141): the same algorithm over the wtxids with the
       coinbase entry (first) replaced by 32 zero bytes.
   (3) transaction / block weight (BIP141): 3 * stripped size + full size, parametric in
       the two serialised-size functions (instantiated by the wire model later).
   (4) BIP141 commitment output: the highest-index output matching the pattern. *)
From BV Require Import Common.Base.

Section MerkleSpec.
Variable H : bytes -> bytes.          (* Bitcoin: sha256d *)

Definition node (a b : bytes) : bytes := H (a ++ b).

(* one level up: adjacent pairs, the last node paired with itself when the level is odd *)
Fixpoint pairs (l : list bytes) : list bytes :=
  match l with
  | [] => []
  | [a] => [node a a]
  | a :: b :: t => node a b :: pairs t
  end.

(* repeat until one node is left.  [pairs] shortens every list of length >= 2, so
   [length l] rounds are (more than) enough; the fuel only makes the recursion structural
   (Proofs/Merkle.v: spec_root_single, spec_root_step, root_fuel_enough show that the
   value does not depend on it). *)
Fixpoint root_fuel (fuel : nat) (l : list bytes) : option bytes :=
  match l with
  | [] => None
  | [a] => Some a
  | _ => match fuel with O => None | S f => root_fuel f (pairs l) end
  end.
Definition spec_root (l : list bytes) : option bytes := root_fuel (length l) l.

(* witness root over the list of wtxids: the coinbase's entry is replaced by zeros *)
Definition spec_witness_root (wtxids : list bytes) : option bytes :=
  match wtxids with
  | [] => None
  | _ :: rest => spec_root (zeros 32 :: rest)
  end.
End MerkleSpec.

(* ---------- weights ---------- *)
Section WeightSpec.
Variable tx : Type.
Variable size_stripped size_full : tx -> Z.   (* |wire_tx_stripped t|, |wire_tx t| *)

Definition spec_tx_weight (t : tx) : Z := 3 * size_stripped t + size_full t.

Definition sumZ (f : tx -> Z) (l : list tx) : Z := fold_right (fun t acc => f t + acc) 0 l.

(* CompactSize length of a count *)
Definition compact_size_len (n : Z) : Z :=
  if n <? 253 then 1 else if n <? 65536 then 3 else if n <? 4294967296 then 5 else 9.

(* a block on the wire: 80-byte header, CompactSize count, the transactions *)
Definition spec_block_size (sz : tx -> Z) (vtx : list tx) : Z :=
  80 + compact_size_len (lenZ vtx) + sumZ sz vtx.
Definition spec_block_weight (vtx : list tx) : Z :=
  3 * spec_block_size size_stripped vtx + spec_block_size size_full vtx.
End WeightSpec.

(* ---------- BIP141 commitment output ---------- *)
(* "scriptPubKey at least 38 bytes, first 6 bytes = magic; if several outputs match, the
   one with the highest index is the commitment" *)
Definition commit_pattern (magic s : bytes) : bool :=
  (38 <=? length s)%nat && bytes_eqb (firstn 6 s) magic.
Definition is_commit_index (magic : bytes) (outs : list bytes) (i : nat) : Prop :=
  (exists s, nth_error outs i = Some s /\ commit_pattern magic s = true) /\
  (forall j s, (i < j)%nat -> nth_error outs j = Some s -> commit_pattern magic s = false).
