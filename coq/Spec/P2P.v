(* Spec/P2P.v – the Bitcoin P2P protocol as documented (DESIGN.md Appendix B): frame
   layout and the payload layout of the 17 message types, as concatenation formulas.
   Reference style: no decoders, no stream state.  Built on Spec/Wire.v (u, i, cs, vb, vec,
   wire_tx, wire_header, wire_block). *)
From BV Require Import Common.Base Common.Tx Common.P2PMsg Spec.Wire.

Definition u16be (v : Z) : bytes := rev (u 2 v).
Definition ascii (l : list Z) : bytes := map z2b l.

(* netaddr = u64 services ++ ip[16] ++ u16be port, IPv4 a.b.c.d as 00*10 ff ff a b c d *)
Definition v4_mapped_prefix : bytes := zeros 10 ++ [xff; xff].
Definition spec_ip (ip : bytes) : bytes := if (length ip =? 4)%nat then v4_mapped_prefix ++ ip else ip.
Definition spec_netaddr (a : netaddr) : bytes := u 8 (na_services a) ++ spec_ip (na_ip a) ++ u16be (na_port a).
Definition spec_taddr (a : taddr) : bytes := u 4 (ta_time a) ++ spec_netaddr (ta_addr a).
Definition spec_inv (x : inv) : bytes := u 4 (inv_type x) ++ inv_hash x.
Definition spec_locator (l : locator) (stop : bytes) : bytes :=
  u 4 (loc_version l) ++ vec (fun h => h) (loc_have l) ++ stop.
Definition relay_min : Z := 70001.
Definition oget {A} (d : A) (o : option A) : A := match o with Some x => x | None => d end.
Definition spec_version (v : version_msg) : bytes :=
  i 4 (v_version v) ++ u 8 (v_services v) ++ i 8 (v_time v) ++ spec_netaddr (v_to v) ++
  spec_netaddr (oget (v_to v) (v_from v)) ++ u 8 (oget 0 (v_nonce v)) ++ vb (oget [] (v_subver v)) ++
  i 4 (oget 0 (v_height v)) ++ (if v_version v >=? relay_min then u 1 (v_relay v) else []).

Definition spec_payload (m : msg) : bytes :=
  match m with
  | MVersion v => spec_version v
  | MVerack | MGetaddr | MMempool => []
  | MAddr l => vec spec_taddr l
  | MAlert a s => vb a ++ vb s
  | MInv l | MGetdata l | MNotfound l => vec spec_inv l
  | MGetblocks loc stop | MGetheaders loc stop => spec_locator loc stop
  | MHeaders l => vec (fun h => wire_header h ++ cs 0) l        (* 80 bytes + transaction count 0 *)
  | MTx t => wire_tx t
  | MBlock b => wire_block b
  | MPing n | MPong n => u 8 n
  | MReject a c r => vb a ++ c ++ vb r
  end.

Definition spec_command (m : msg) : bytes :=
  ascii match m with
  | MVersion _ => [118;101;114;115;105;111;110]            (* version *)
  | MVerack => [118;101;114;97;99;107]                      (* verack *)
  | MAddr _ => [97;100;100;114]                             (* addr *)
  | MAlert _ _ => [97;108;101;114;116]                      (* alert *)
  | MInv _ => [105;110;118]                                 (* inv *)
  | MGetdata _ => [103;101;116;100;97;116;97]               (* getdata *)
  | MNotfound _ => [110;111;116;102;111;117;110;100]        (* notfound *)
  | MGetblocks _ _ => [103;101;116;98;108;111;99;107;115]   (* getblocks *)
  | MGetheaders _ _ => [103;101;116;104;101;97;100;101;114;115]   (* getheaders *)
  | MHeaders _ => [104;101;97;100;101;114;115]              (* headers *)
  | MTx _ => [116;120]                                      (* tx *)
  | MBlock _ => [98;108;111;99;107]                         (* block *)
  | MGetaddr => [103;101;116;97;100;100;114]                (* getaddr *)
  | MPing _ => [112;105;110;103]                            (* ping *)
  | MPong _ => [112;111;110;103]                            (* pong *)
  | MReject _ _ _ => [114;101;106;101;99;116]               (* reject *)
  | MMempool => [109;101;109;112;111;111;108]               (* mempool *)
  end.

Section Frame.
Variable H : bytes -> bytes.      (* double SHA-256 *)
Variable magic : bytes.           (* the selected chain's message start *)
(* magic[4] ++ command padded with NUL to 12 ++ u32 |payload| ++ H(payload)[0:4] ++ payload *)
Definition spec_frame_of (command payload : bytes) : bytes :=
  magic ++ command ++ zeros (12 - length command) ++ u 4 (lenZ payload) ++ firstn 4 (H payload) ++ payload.
Definition spec_frame (m : msg) : bytes := spec_frame_of (spec_command m) (spec_payload m).
Definition spec_stream (ms : list msg) : bytes := concat (map spec_frame ms).
End Frame.

(* ---------- field values the protocol carries ---------- *)
Section Ranges.
Variable max_size : Z.
Definition wf_ip (ip : bytes) : Prop := length ip = 4%nat \/ length ip = 16%nat.
Definition wf_netaddr (a : netaddr) : Prop := in_u 8 (na_services a) /\ wf_ip (na_ip a) /\ in_u 2 (na_port a).
(* time field present: the address object's protocol version is at least time_version *)
Definition wf_taddr (time_version : Z) (a : taddr) : Prop :=
  time_version <= ta_protover a /\ in_u 4 (ta_time a) /\ wf_netaddr (ta_addr a).
(* `type` and the locator version are u32 on the wire, written signed by the library: stated on < 2^31 *)
Definition in_u31 (v : Z) : Prop := 0 <= v < 2^31.
Definition wf_inv (x : inv) : Prop := in_u31 (inv_type x) /\ length (inv_hash x) = 32%nat.
Definition wf_locator (l : locator) : Prop :=
  in_u31 (loc_version l) /\ Forall (fun h => length h = 32%nat) (loc_have l) /\ lenZ (loc_have l) < 2^64.
Definition is_some {A} (o : option A) : Prop := match o with Some _ => True | None => False end.
Definition owf {A} (P : A -> Prop) (o : option A) : Prop := match o with Some x => P x | None => False end.
(* the Appendix-B `version` layout is that of protocol versions from 209 on (older ones
   end after addr_recv, resp. have no start height) *)
Definition full_version_min : Z := 209.
Definition wf_version (v : version_msg) : Prop :=
  in_i 4 (v_version v) /\ in_u 8 (v_services v) /\ in_i 8 (v_time v) /\ wf_netaddr (v_to v) /\
  owf wf_netaddr (v_from v) /\ owf (in_u 8) (v_nonce v) /\ owf (wf_bytes max_size) (v_subver v) /\
  owf (in_i 4) (v_height v) /\ in_u 1 (v_relay v) /\ full_version_min <= v_version v.
Definition wf_msg (time_version : Z) (m : msg) : Prop :=
  match m with
  | MVersion v => wf_version v
  | MVerack | MGetaddr | MMempool => True
  | MAddr l => Forall (wf_taddr time_version) l /\ lenZ l < 2^64
  | MAlert a s => wf_bytes max_size a /\ wf_bytes max_size s
  | MInv l | MGetdata l | MNotfound l => Forall wf_inv l /\ lenZ l < 2^64
  | MGetblocks loc stop | MGetheaders loc stop => wf_locator loc /\ length stop = 32%nat
  | MHeaders l => Forall wf_header l /\ lenZ l < 2^64
  | MTx t => wf_tx max_size t
  | MBlock b => wf_block max_size b
  | MPing n | MPong n => in_u 8 n
  | MReject a c r => wf_bytes max_size a /\ length c = 1%nat /\ wf_bytes max_size r
  end.
End Ranges.

(* what the wire carries of a message value (and hence what parsing can return):
   the relay flag only from version 70001 on (default 1 = true), all-empty witness stacks
   as "no witness", an IPv4-mapped 16-byte address as the IPv4 address; the protocol
   version attribute of an address object is not on the wire (default_protover) *)
Definition carried_ip (ip : bytes) : bytes :=
  if (length ip =? 16)%nat && bytes_eqb (firstn 12 ip) v4_mapped_prefix then skipn 12 ip else ip.
Definition carried_netaddr (a : netaddr) : netaddr :=
  {| na_services := na_services a; na_ip := carried_ip (na_ip a); na_port := na_port a |}.
Definition carried (default_protover : Z) (m : msg) : msg :=
  match m with
  | MVersion v => MVersion
      {| v_version := v_version v; v_services := v_services v; v_time := v_time v; v_to := carried_netaddr (v_to v);
         v_from := option_map carried_netaddr (v_from v); v_nonce := v_nonce v; v_subver := v_subver v;
         v_height := v_height v; v_relay := if v_version v >=? relay_min then v_relay v else 1 |}
  | MAddr l => MAddr (map (fun a => {| ta_protover := default_protover; ta_time := ta_time a;
                                       ta_addr := carried_netaddr (ta_addr a) |}) l)
  | MTx t => MTx (norm_wit t)
  | MBlock b => MBlock {| b_hdr := b_hdr b; b_vtx := map norm_wit (b_vtx b) |}
  | _ => m
  end.
(* the two recorded deviations of the library from these layouts (DESIGN.md F15, F16) *)
Definition conform (m : msg) : Prop :=
  match m with
  | MHeaders l => l = []
  | MVersion v => relay_min <= v_version v
  | _ => True
  end.
