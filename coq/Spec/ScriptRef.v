(* Spec/ScriptRef.v – reference Bitcoin Script semantics (Bitcoin Core
   script/interpreter.cpp of the era of the repository's vectors), restricted to the flags
   P2SH, NULLDUMMY, CLEANSTACK, DISCOURAGE_UPGRADABLE_NOPS.  DESIGN.md Appendix A is the
   prose version.  Reference style: on-the-fly GetOp on the remaining bytes, stacks with
   the TOP AT THE HEAD, opcode numbers as literals, CScriptNum arithmetic, no exceptions –
   [None] is failure. *)
From BV Require Import Common.Base Common.Tx Common.ScriptFlags Model.Script Spec.Script.
(* number codec (num_enc / num_dec), GetOp (Spec.Script.get_op), push-only and P2SH shape are
   the reference definitions of Spec/Script.v (C08) *)

(* ---------- data ---------- *)
(* bool(v): some byte non-zero, except that a final 0x80 with all other bytes zero is false *)
Fixpoint ref_bool (v : bytes) : bool :=
  match v with
  | [] => false
  | [b] => negb ((b2z b =? 0) || (b2z b =? 0x80))
  | b :: t => negb (b2z b =? 0) || ref_bool t
  end.
(* num(v): CScriptNum, at most 4 bytes;  enc(n): the minimal encoding *)
Definition ref_num (v : bytes) : option Z := if lenZ v >? 4 then None else Some (num_dec v).
Definition ref_enc (n : Z) : bytes := num_enc n.
Definition vtrue : bytes := [x01].
Definition vfalse : bytes := [].
Definition of_bool (b : bool) : bytes := if b then vtrue else vfalse.

(* ---------- GetOp: decode one operation at the head of the remaining code ---------- *)
(* Some (opcode, push data, rest) or None when the operation overruns the script *)
Definition take (n : Z) (b : bytes) : option (bytes * bytes) :=
  if (n <? 0) || (lenZ b <? n) then None else Some (firstn (Z.to_nat n) b, skipn (Z.to_nat n) b).
Definition get_op (code : bytes) : option (Z * bytes * bytes) :=
  match code with
  | [] => None
  | c :: r =>
      let op := b2z c in
      if op <? 0x4c then match take op r with Some (d, r') => Some (op, d, r') | None => None end
      else if op <=? 0x4e then
        let w := if op =? 0x4c then 1 else if op =? 0x4d then 2 else 4 in
        match take w r with
        | Some (l, r1) => match take (le_dec l) r1 with Some (d, r') => Some (op, d, r') | None => None end
        | None => None end
      else Some (op, [], r)
  end.

(* FindAndDelete(code, pat): at each operation boundary, while pat is a prefix of what
   remains, skip |pat| bytes; copy everything else; a decoding failure ends the scan and
   the unscanned tail is kept *)
Fixpoint is_prefix (p b : bytes) : bool :=
  match p, b with
  | [], _ => true
  | x :: p', y :: b' => Byte.eqb x y && is_prefix p' b'
  | _ :: _, [] => false
  end.
Fixpoint ref_fad (fuel : nat) (code pat : bytes) : bytes :=
  match fuel with
  | O => code
  | S f =>
      if negb (is_nil pat) && is_prefix pat code then ref_fad f (skipn (length pat) code) pat
      else match get_op code with
           | None => code
           | Some (_, _, rest) => firstn (length code - length rest) code ++ ref_fad f rest pat
           end
  end.
Definition find_and_delete_ref (code pat : bytes) : bytes := ref_fad (S (length code)) code pat.
(* the serialisation of a single push of x, as `CScript() << x` produces it *)
Definition ref_push (x : bytes) : bytes :=
  let n := lenZ x in
  if n <? 0x4c then z2b n :: x
  else if n <=? 0xff then x4c :: le_enc 1 n ++ x
  else if n <=? 0xffff then x4d :: le_enc 2 n ++ x
  else x4e :: le_enc 4 n ++ x.

Section Ref.
(* checksig(sig, pk, code'): signature check of sig under pk for the subscript code' from
   which every OP_CODESEPARATOR has been removed (false for an empty sig or a malformed key) *)
Variable checksig : bytes -> bytes -> bytes -> bool.
Variable ripemd160 sha1 sha256 : bytes -> bytes.
Variable fl : flags.

Record rstate := { r_stack : list bytes; r_alt : list bytes; r_vf : list bool;
                   r_sub : bytes;       (* script from pbegincodehash to the end *)
                   r_nop : Z }.
Definition with_stack (s : rstate) (st : list bytes) : rstate :=
  {| r_stack := st; r_alt := r_alt s; r_vf := r_vf s; r_sub := r_sub s; r_nop := r_nop s |}.

Definition do_checksig (s : rstate) (sig pk : bytes) (code : bytes) : bool :=
  checksig sig pk (find_and_delete_ref code [xab]).

(* unary / binary numeric operators *)
Definition un_arith (op : Z) (a : Z) : option Z :=
  match op with
  | 0x8b => Some (a + 1) | 0x8c => Some (a - 1) | 0x8f => Some (- a) | 0x90 => Some (Z.abs a)
  | 0x91 => Some (if a =? 0 then 1 else 0) | 0x92 => Some (if a =? 0 then 0 else 1)
  | _ => None end.
Definition bin_arith (op : Z) (a b : Z) : option Z :=
  let t (c : bool) := Some (if c then 1 else 0) in
  match op with
  | 0x93 => Some (a + b) | 0x94 => Some (a - b)
  | 0x9a => t (negb (a =? 0) && negb (b =? 0)) | 0x9b => t (negb (a =? 0) || negb (b =? 0))
  | 0x9c => t (a =? b) | 0x9d => t (a =? b) | 0x9e => t (negb (a =? b))
  | 0x9f => t (a <? b) | 0xa0 => t (b <? a) | 0xa1 => t (a <=? b) | 0xa2 => t (b <=? a)
  | 0xa3 => Some (Z.min a b) | 0xa4 => Some (Z.max a b)
  | _ => None end.

(* multisig: walk keys and sigs from the top-most pair downwards *)
Fixpoint ms_walk (sigs keys : list bytes) (code : bytes) : bool :=
  match sigs with
  | [] => true
  | sg :: sigs' =>
      match keys with
      | [] => false
      | k :: keys' =>
          if (length keys <? length sigs)%nat then false
          else if checksig sg k code then ms_walk sigs' keys' code else ms_walk sigs keys' code
      end
  end.

(* the opcode table: number -> name (Bitcoin Core's opcodetype) *)
Definition ref_kind (op : Z) : kind :=
  match op with
  | 0x4f => KSmall
  | 0x61 => KNop | 0x63 => KIf false | 0x64 => KIf true | 0x67 => KElse | 0x68 => KEndif | 0x69 => KVerify | 0x6a => KReturn
  | 0x6b => KToAlt | 0x6c => KFromAlt | 0x6d => K2Drop | 0x6e => K2Dup | 0x6f => K3Dup | 0x70 => K2Over | 0x71 => K2Rot
  | 0x72 => K2Swap | 0x73 => KIfdup | 0x74 => KDepth | 0x75 => KDrop | 0x76 => KDup | 0x77 => KNip | 0x78 => KOver
  | 0x79 => KPickRoll false | 0x7a => KPickRoll true | 0x7b => KRot | 0x7c => KSwap | 0x7d => KTuck | 0x82 => KSize
  | 0x87 => KEqual | 0x88 => KEqualVerify
  | 0x8b | 0x8c | 0x8f | 0x90 | 0x91 | 0x92 => KUn
  | 0x93 | 0x94 | 0x9a | 0x9b | 0x9c | 0x9d | 0x9e | 0x9f | 0xa0 | 0xa1 | 0xa2 | 0xa3 | 0xa4 => KBin
  | 0xa5 => KWithin | 0xa6 => KRipemd | 0xa7 => KSha1 | 0xa8 => KSha256 | 0xa9 => KHash160 | 0xaa => KHash256
  | 0xab => KCodesep | 0xac => KChecksig false | 0xad => KChecksig true | 0xae => KMultisig false | 0xaf => KMultisig true
  | _ => if (0x51 <=? op) && (op <=? 0x60) then KSmall                 (* OP_1 .. OP_16 *)
         else if (0xb0 <=? op) && (op <=? 0xb9) then KNopN             (* NOP1 .. NOP10 *)
         else KBad                                                     (* RESERVED, VER, VERIF…, 0xba..0xff *)
  end.

Definition exec_op (op : Z) (rest : bytes) (s : rstate) : option rstate :=
  let st := r_stack s in
  let ret st' := Some (with_stack s st') in
  match ref_kind op with
  | KSmall => ret (ref_enc (op - 0x50) :: st)                                  (* 1NEGATE, 1..16 *)
  | KUn =>                                                                     (* 1ADD 1SUB NEGATE ABS NOT 0NOTEQUAL *)
      match st with
      | a :: r => match ref_num a with Some x => match un_arith op x with Some v => ret (ref_enc v :: r) | None => None end | None => None end
      | _ => None end
  | KBin =>                                                                    (* ADD … MAX, NUMEQUALVERIFY *)
      match st with
      | b :: a :: r =>
          match ref_num a, ref_num b with
          | Some x, Some y =>
              match bin_arith op x y with
              | Some v => if op =? 0x9d then (if v =? 0 then None else ret r) else ret (ref_enc v :: r)
              | None => None end
          | _, _ => None end
      | _ => None end
  | KNop => ret st
  | KIf neg =>
      if forallb (fun b => b) (r_vf s) then
        match st with
        | v :: r => let c := ref_bool v in
                    Some {| r_stack := r; r_alt := r_alt s; r_vf := (if neg then negb c else c) :: r_vf s; r_sub := r_sub s; r_nop := r_nop s |}
        | [] => None end
      else Some {| r_stack := st; r_alt := r_alt s; r_vf := false :: r_vf s; r_sub := r_sub s; r_nop := r_nop s |}
  | KElse => match r_vf s with b :: v => Some {| r_stack := st; r_alt := r_alt s; r_vf := negb b :: v; r_sub := r_sub s; r_nop := r_nop s |} | [] => None end
  | KEndif => match r_vf s with _ :: v => Some {| r_stack := st; r_alt := r_alt s; r_vf := v; r_sub := r_sub s; r_nop := r_nop s |} | [] => None end
  | KVerify => match st with v :: r => if ref_bool v then ret r else None | [] => None end
  | KReturn => None
  | KToAlt => match st with v :: r => Some {| r_stack := r; r_alt := v :: r_alt s; r_vf := r_vf s; r_sub := r_sub s; r_nop := r_nop s |} | [] => None end
  | KFromAlt => match r_alt s with v :: a => Some {| r_stack := v :: st; r_alt := a; r_vf := r_vf s; r_sub := r_sub s; r_nop := r_nop s |} | [] => None end
  | K2Drop => match st with _ :: _ :: r => ret r | _ => None end
  | K2Dup => match st with x2 :: x1 :: r => ret (x2 :: x1 :: x2 :: x1 :: r) | _ => None end
  | K3Dup => match st with x3 :: x2 :: x1 :: r => ret (x3 :: x2 :: x1 :: x3 :: x2 :: x1 :: r) | _ => None end
  | K2Over => match st with x4 :: x3 :: x2 :: x1 :: r => ret (x2 :: x1 :: x4 :: x3 :: x2 :: x1 :: r) | _ => None end
  | K2Rot => match st with x6 :: x5 :: x4 :: x3 :: x2 :: x1 :: r => ret (x2 :: x1 :: x6 :: x5 :: x4 :: x3 :: r) | _ => None end
  | K2Swap => match st with x4 :: x3 :: x2 :: x1 :: r => ret (x2 :: x1 :: x4 :: x3 :: r) | _ => None end
  | KIfdup => match st with v :: r => if ref_bool v then ret (v :: v :: r) else ret st | [] => None end
  | KDepth => ret (ref_enc (lenZ st) :: st)
  | KDrop => match st with _ :: r => ret r | [] => None end
  | KDup => match st with v :: r => ret (v :: v :: r) | [] => None end
  | KNip => match st with x2 :: _ :: r => ret (x2 :: r) | _ => None end
  | KOver => match st with x2 :: x1 :: r => ret (x1 :: x2 :: x1 :: r) | _ => None end
  | KPickRoll roll =>
      match st with
      | nv :: (_ :: _) as r =>
          match ref_num nv with
          | Some n => if (n <? 0) || (n >=? lenZ r) then None else
                      match nth_error r (Z.to_nat n) with
                      | Some v => if roll then ret (v :: firstn (Z.to_nat n) r ++ skipn (S (Z.to_nat n)) r) else ret (v :: r)
                      | None => None end
          | None => None end
      | _ => None end
  | KRot => match st with x3 :: x2 :: x1 :: r => ret (x1 :: x3 :: x2 :: r) | _ => None end
  | KSwap => match st with x2 :: x1 :: r => ret (x1 :: x2 :: r) | _ => None end
  | KTuck => match st with x2 :: x1 :: r => ret (x2 :: x1 :: x2 :: r) | _ => None end
  | KSize => match st with v :: r => ret (ref_enc (lenZ v) :: v :: r) | [] => None end
  | KEqual => match st with x2 :: x1 :: r => ret (of_bool (bytes_eqb x1 x2) :: r) | _ => None end
  | KEqualVerify => match st with x2 :: x1 :: r => if bytes_eqb x1 x2 then ret r else None | _ => None end
  | KWithin =>
      match st with
      | mx :: mn :: x :: r =>
          match ref_num x, ref_num mn, ref_num mx with
          | Some a, Some lo, Some hi => ret (of_bool ((lo <=? a) && (a <? hi)) :: r)
          | _, _, _ => None end
      | _ => None end
  | KRipemd => match st with v :: r => ret (ripemd160 v :: r) | [] => None end
  | KSha1 => match st with v :: r => ret (sha1 v :: r) | [] => None end
  | KSha256 => match st with v :: r => ret (sha256 v :: r) | [] => None end
  | KHash160 => match st with v :: r => ret (ripemd160 (sha256 v) :: r) | [] => None end
  | KHash256 => match st with v :: r => ret (sha256 (sha256 v) :: r) | [] => None end
  | KCodesep => Some {| r_stack := st; r_alt := r_alt s; r_vf := r_vf s; r_sub := rest; r_nop := r_nop s |}
  | KChecksig vfy =>
      match st with
      | pk :: sig :: r =>
          let code := find_and_delete_ref (r_sub s) (ref_push sig) in
          let ok := do_checksig s sig pk code in
          if vfy then (if ok then ret r else None) else ret (of_bool ok :: r)
      | _ => None end
  | KMultisig vfy =>
      match st with
      | nv :: r1 =>
          match ref_num nv with
          | Some n =>
              if (n <? 0) || (n >? 20) then None else
              let nop := r_nop s + n in
              if nop >? 201 then None else
              if lenZ r1 <? n + 1 then None else
              let keys := firstn (Z.to_nat n) r1 in
              match skipn (Z.to_nat n) r1 with
              | mv :: r2 =>
                  match ref_num mv with
                  | Some m =>
                      if (m <? 0) || (m >? n) then None else
                      if lenZ r2 <? m + 1 then None else
                      let sigs := firstn (Z.to_nat m) r2 in
                      match skipn (Z.to_nat m) r2 with
                      | dummy :: r3 =>
                          let code := fold_left (fun c sg => find_and_delete_ref c (ref_push sg)) sigs (r_sub s) in
                          let ok := ms_walk sigs keys (find_and_delete_ref code [xab]) in
                          if f_nulldummy fl && negb (is_nil dummy) then None
                          else
                          let s' := {| r_stack := r3; r_alt := r_alt s; r_vf := r_vf s; r_sub := r_sub s; r_nop := nop |} in
                          if vfy then (if ok then Some s' else None)
                          else Some (with_stack s' (of_bool ok :: r3))
                      | [] => None end
                  | None => None end
              | [] => None end
          | None => None end
      | [] => None end
  | KNopN => if f_discourage_nops fl then None else ret st
  | KBad => None
  end.

(* always-failing opcodes, executed or not: the disabled ones, and VERIF / VERNOTIF *)
Definition disabled (op : Z) : bool :=
  existsb (Z.eqb op) [0x65; 0x66; 0x7e; 0x7f; 0x80; 0x81; 0x83; 0x84; 0x85; 0x86; 0x8d; 0x8e; 0x95; 0x96; 0x97; 0x98; 0x99].

(* one operation: size / count / disabled checks, the effect, the stack limit *)
Definition ref_step (op : Z) (d : option bytes) (rest : bytes) (s : rstate) : option rstate :=
  let data := match d with Some x => x | None => [] end in
  let fExec := forallb (fun b => b) (r_vf s) in
  if lenZ data >? 520 then None else
  let nop := if op >? 0x60 then r_nop s + 1 else r_nop s in
  if nop >? 201 then None else
  if disabled op then None else
  let s := {| r_stack := r_stack s; r_alt := r_alt s; r_vf := r_vf s; r_sub := r_sub s; r_nop := nop |} in
  match (if op <=? 0x4e then (if fExec then Some (with_stack s (data :: r_stack s)) else Some s)
         else if fExec || ((0x63 <=? op) && (op <=? 0x68)) then exec_op op rest s
         else Some s) with
  | None => None
  | Some s' => if lenZ (r_stack s') + lenZ (r_alt s') >? 1000 then None else Some s'
  end.
(* EvalScript: repeat while code remains (every operation consumes at least one byte, so
   fuel = length of the script suffices) *)
Fixpoint eval_loop (fuel : nat) (code : bytes) (s : rstate) : option rstate :=
  match code with
  | [] => Some s
  | _ :: _ =>
    match fuel with
    | O => None
    | S f =>
      match Spec.Script.get_op code with
      | Err _ => None
      | Ok (op, d, rest) =>
          match ref_step op d rest s with
          | None => None
          | Some s' => eval_loop f rest s'
          end
      end
    end
  end.
Definition eval_ref (st : list bytes) (script : bytes) : option (list bytes) :=
  if lenZ script >? 10000 then None else
  match eval_loop (length script) script {| r_stack := st; r_alt := []; r_vf := []; r_sub := script; r_nop := 0 |} with
  | Some s => if is_nil (r_vf s) then Some (r_stack s) else None
  | None => None
  end.

Definition verify_ref (scriptSig scriptPubKey : bytes) : bool :=
  match eval_ref [] scriptSig with
  | None => false
  | Some st1 =>
      match eval_ref st1 scriptPubKey with
      | None => false
      | Some st2 =>
          match st2 with
          | [] => false
          | top :: _ =>
              if negb (ref_bool top) then false else
              let after_p2sh : option (list bytes) :=
                if f_p2sh fl && ref_p2sh scriptPubKey then
                  if negb (ref_push_only scriptSig) then None else
                  match st1 with
                  | [] => None
                  | redeem :: st =>
                      match eval_ref st redeem with
                      | Some (t :: r) => if ref_bool t then Some (t :: r) else None
                      | _ => None end
                  end
                else Some st2 in
              match after_p2sh with
              | None => false
              | Some st3 => if f_cleanstack fl then (length st3 =? 1)%nat else true
              end
          end
      end
  end.
End Ref.
