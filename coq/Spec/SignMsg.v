(* Spec/SignMsg.v – reference definition of Bitcoin signed messages (Bitcoin Core
   util/message.cpp MessageHash / MessageSign / MessageVerify, key.cpp SignCompact,
   pubkey.cpp RecoverCompact), reference style.  The message is its UTF-8 byte string (the
   encoding step is CPython's str.encode and stays on the Python side). *)
From BV Require Import Common.Base Common.Codec Spec.Base58 Spec.Ecdsa.

(* "Bitcoin Signed Message:\n" *)
Definition ref_magic : bytes :=
  [x42;x69;x74;x63;x6f;x69;x6e;x20;x53;x69;x67;x6e;x65;x64;x20;x4d;x65;x73;x73;x61;x67;x65;x3a;x0a].
(* CompactSize length prefix then the bytes *)
Definition varstr (b : bytes) : bytes := varint_enc (lenZ b) ++ b.
Definition msg_preimage (magic msg : bytes) : bytes := varstr magic ++ varstr msg.
(* H = double SHA-256 *)
Definition msg_digest (H : bytes -> bytes) (magic msg : bytes) : bytes := H (msg_preimage magic msg).

(* header byte of a compact signature *)
Definition compact_header (recid : Z) (compressed : bool) : Z :=
  27 + recid + (if compressed then 4 else 0).
(* 65 bytes: header, r and s as 32-byte big-endian integers *)
Definition compact_sig (recid : Z) (compressed : bool) (r s : Z) : bytes :=
  z2b (compact_header recid compressed) :: be_enc 32 r ++ be_enc 32 s.
(* reading one back: (recid, compressed, r, s) for headers 27..34 *)
Definition compact_parse (sig : bytes) : option (Z * bool * Z * Z) :=
  match sig with
  | h :: t =>
      let hd := b2z h in
      if (length t =? 64)%nat && (27 <=? hd) && (hd <=? 34) then
        Some ((hd - 27) mod 4, 4 <=? hd - 27, be_dec (firstn 32 t), be_dec (skipn 32 t))
      else None
  | [] => None
  end.

Section Ref.
Variable E : curve.
Variable H : bytes -> bytes.          (* checksum / digest hash: double SHA-256 *)
Variable H160 : bytes -> bytes.       (* RIPEMD160 o SHA256 *)
Definition form_of_flag (c : bool) : pform := if c then Compressed else Uncompressed.
(* key recovered from a compact signature over the 32-byte digest *)
Definition compact_recover (digest sig : bytes) : option (bool * pt E) :=
  match compact_parse sig with
  | Some (recid, c, r, s) =>
      match recover_ref E r s (be_dec digest) recid with
      | Some Q => Some (c, Q)
      | None => None
      end
  | None => None
  end.
(* the P2PKH address text of a public key under the chain's PUBKEY_ADDR prefix *)
Definition p2pkh_text (prefix : Z) (pubkey : bytes) : text := spec_to_text H prefix (H160 pubkey).
Definition address_of (prefix : Z) (c : bool) (Q : pt E) : text :=
  p2pkh_text prefix (sec1_enc E (form_of_flag c) Q).
End Ref.
