(* Spec/ValueSem.v – VALUE SEMANTICS of the transaction classes (reference for C09).

   No store, no locations, no sharing: every handle of a history denotes a VALUE – a tree
   outpoint / input / output / transaction whose nodes carry only their class (mutable or
   immutable).  An assignment is a functional update of the value denoted by ONE handle and
   is refused (AttributeError) on a node of an immutable class; a copy constructor yields a
   value copy with the classes of the target; a node of an immutable class never changes;
   serialisation, identifiers, == and hash() are functions of the value alone; signature
   hashing and script verification do not change any value.

   The history alphabet [hop] is the one of property C09: objects are named by a handle and
   a path (vin[j], vout[j], prevout); new inputs/outputs/outpoints enter by value. *)
From BV Require Import Common.Base Common.Tx Spec.Wire.

Inductive sel := SelVin (j : nat) | SelVout (j : nat) | SelPrev.
Definition path : Type := nat * list sel.
Inductive vfld := VHash | VN | VPrevout | VScriptSig | VSeq | VValue | VScriptPubKey
                | VVersion | VVin | VVout | VWit | VLock.
Inductive hop :=
| HSetInt (p : path) (f : vfld) (z : Z)                 (* p.f = z        (integer fields) *)
| HSetBytes (p : path) (f : vfld) (b : bytes)           (* p.f = b        (hash, scripts) *)
| HSetPrevout (p : path) (mut : bool) (v : outpoint)    (* p.prevout = C[Mutable]OutPoint(v) *)
| HDel (p : path) (f : vfld)                            (* del p.f *)
| HSetWit (p : path) (w : list (list bytes))            (* p.wit = CTxWitness(..) *)
| HClear (p : path) (out : bool)                        (* p.vin = [] / p.vout = [] *)
| HAppendIn (p : path) (mut : bool) (v : txin)          (* p.vin.append(C[Mutable]TxIn(v)) *)
| HAppendOut (p : path) (mut : bool) (v : txout)
| HSetItemIn (p : path) (i : Z) (mut : bool) (v : txin) (* p.vin[i] = C[Mutable]TxIn(v) *)
| HSetItemOut (p : path) (i : Z) (mut : bool) (v : txout)
| HDelItem (p : path) (out : bool) (i : Z)              (* del p.vin[i] / del p.vout[i] *)
| HNewTx (mut : bool) (v : tx)                          (* new handle *)
| HFrom (kind : nat) (mut : bool) (p : path)            (* new handle := from_outpoint/txin/txout/tx (kind 0..3) *)
| HSer (p : path) | HGetHash (p : path) | HGetTxid (p : path)
| HHashEq (p q : path) | HEq (p q : path)
| HSigHash (p : path) (script : bytes) (idx : nat) (ht : Z)
| HVerify (p : path) (script : bytes) (idx : nat) (ht : Z).

(* ---------- values with classes ---------- *)
Record s_op := { so_mut : bool; so_v : outpoint }.
Record s_in := { si_mut : bool; si_prev : s_op; si_script : bytes; si_seq : Z }.
Record s_out := { su_mut : bool; su_v : txout }.
Record s_tx := { st_mut : bool; st_ver : Z; st_vin : list s_in; st_vout : list s_out;
                 st_wit : list (list bytes); st_lock : Z }.
Inductive sobj := SOp (o : s_op) | SIn (i : s_in) | SOut (o : s_out) | STx (t : s_tx).

Definition val_in (i : s_in) : txin := {| ti_prevout := so_v (si_prev i); ti_script := si_script i; ti_seq := si_seq i |}.
Definition val_tx (t : s_tx) : tx :=
  {| tx_version := st_ver t; tx_vin := map val_in (st_vin t); tx_vout := map su_v (st_vout t);
     tx_wit := st_wit t; tx_lock := st_lock t |}.
Definition smut (o : sobj) : bool :=
  match o with SOp x => so_mut x | SIn x => si_mut x | SOut x => su_mut x | STx x => st_mut x end.
Definition kind_of (o : sobj) : nat := match o with SOp _ => 0 | SIn _ => 1 | SOut _ => 2 | STx _ => 3 end%nat.

(* constructors by value, all nodes of class [m] *)
Definition mk_op (m : bool) (v : outpoint) : s_op := {| so_mut := m; so_v := v |}.
Definition mk_in (m : bool) (v : txin) : s_in :=
  {| si_mut := m; si_prev := mk_op m (ti_prevout v); si_script := ti_script v; si_seq := ti_seq v |}.
Definition mk_out (m : bool) (v : txout) : s_out := {| su_mut := m; su_v := v |}.
Definition mk_stx (m : bool) (v : tx) : s_tx :=
  {| st_mut := m; st_ver := tx_version v; st_vin := map (mk_in m) (tx_vin v); st_vout := map (mk_out m) (tx_vout v);
     st_wit := tx_wit v; st_lock := tx_lock v |}.

(* copies: a node that already has the immutable class is kept as it is (it cannot change,
   and by construction everything below it is immutable); anything else is rebuilt by value *)
Definition copy_op (m : bool) (x : s_op) : s_op := if negb m && negb (so_mut x) then x else mk_op m (so_v x).
Definition copy_in (m : bool) (x : s_in) : s_in :=
  if negb m && negb (si_mut x) then x
  else {| si_mut := m; si_prev := copy_op m (si_prev x); si_script := si_script x; si_seq := si_seq x |}.
Definition copy_out (m : bool) (x : s_out) : s_out := if negb m && negb (su_mut x) then x else mk_out m (su_v x).
Definition copy_tx (m : bool) (x : s_tx) : s_tx :=
  if negb m && negb (st_mut x) then x
  else {| st_mut := m; st_ver := st_ver x; st_vin := map (copy_in m) (st_vin x); st_vout := map (copy_out m) (st_vout x);
          st_wit := st_wit x; st_lock := st_lock x |}.

(* ---------- sub-values by path ---------- *)
Definition nth_res {A} (l : list A) (j : nat) : res A :=
  match nth_error l j with Some a => Ok a | None => Err IndexError end.
Fixpoint upd_nth {A} (l : list A) (k : nat) (x : A) : list A :=
  match l, k with
  | [], _ => []
  | _ :: t, O => x :: t
  | a :: t, S k' => a :: upd_nth t k' x
  end.
Fixpoint del_nth {A} (l : list A) (k : nat) : list A :=
  match l, k with
  | [], _ => []
  | _ :: t, O => t
  | a :: t, S k' => a :: del_nth t k'
  end.
Fixpoint sget (o : sobj) (p : list sel) : res sobj :=
  match p with
  | [] => Ok o
  | SelVin j :: r => match o with STx t => do i <- nth_res (st_vin t) j; sget (SIn i) r | _ => Err AttributeError end
  | SelVout j :: r => match o with STx t => do x <- nth_res (st_vout t) j; sget (SOut x) r | _ => Err AttributeError end
  | SelPrev :: r => match o with SIn i => sget (SOp (si_prev i)) r | _ => Err AttributeError end
  end.
Definition with_vin (t : s_tx) (l : list s_in) : s_tx :=
  {| st_mut := st_mut t; st_ver := st_ver t; st_vin := l; st_vout := st_vout t; st_wit := st_wit t; st_lock := st_lock t |}.
Definition with_vout (t : s_tx) (l : list s_out) : s_tx :=
  {| st_mut := st_mut t; st_ver := st_ver t; st_vin := st_vin t; st_vout := l; st_wit := st_wit t; st_lock := st_lock t |}.
Definition with_prev (i : s_in) (p : s_op) : s_in :=
  {| si_mut := si_mut i; si_prev := p; si_script := si_script i; si_seq := si_seq i |}.
(* replace the sub-value at p (p valid in o, n of the kind found there) *)
Fixpoint sput (o : sobj) (p : list sel) (n : sobj) : sobj :=
  match p with
  | [] => n
  | SelVin j :: r =>
      match o with
      | STx t => match nth_error (st_vin t) j with
                 | Some i => match sput (SIn i) r n with SIn i' => STx (with_vin t (upd_nth (st_vin t) j i')) | _ => o end
                 | None => o end
      | _ => o end
  | SelVout j :: r =>
      match o with
      | STx t => match nth_error (st_vout t) j with
                 | Some x => match sput (SOut x) r n with SOut x' => STx (with_vout t (upd_nth (st_vout t) j x')) | _ => o end
                 | None => o end
      | _ => o end
  | SelPrev :: r =>
      match o with
      | SIn i => match sput (SOp (si_prev i)) r n with SOp q => SIn (with_prev i q) | _ => o end
      | _ => o end
  end.

(* ---------- assignments: refused on immutable nodes, unknown attribute -> AttributeError ---------- *)
Definition guarded (o : sobj) (r : res sobj) : res sobj := if smut o then r else Err AttributeError.
Definition set_int (f : vfld) (z : Z) (o : sobj) : res sobj :=
  guarded o
  match o, f with
  | SOp x, VN => Ok (SOp {| so_mut := so_mut x; so_v := {| op_hash := op_hash (so_v x); op_n := z |} |})
  | SIn x, VSeq => Ok (SIn {| si_mut := si_mut x; si_prev := si_prev x; si_script := si_script x; si_seq := z |})
  | SOut x, VValue => Ok (SOut {| su_mut := su_mut x; su_v := {| to_value := z; to_script := to_script (su_v x) |} |})
  | STx x, VVersion => Ok (STx {| st_mut := st_mut x; st_ver := z; st_vin := st_vin x; st_vout := st_vout x; st_wit := st_wit x; st_lock := st_lock x |})
  | STx x, VLock => Ok (STx {| st_mut := st_mut x; st_ver := st_ver x; st_vin := st_vin x; st_vout := st_vout x; st_wit := st_wit x; st_lock := z |})
  | _, _ => Err AttributeError
  end.
Definition set_bytes (f : vfld) (b : bytes) (o : sobj) : res sobj :=
  guarded o
  match o, f with
  | SOp x, VHash => Ok (SOp {| so_mut := so_mut x; so_v := {| op_hash := b; op_n := op_n (so_v x) |} |})
  | SIn x, VScriptSig => Ok (SIn {| si_mut := si_mut x; si_prev := si_prev x; si_script := b; si_seq := si_seq x |})
  | SOut x, VScriptPubKey => Ok (SOut {| su_mut := su_mut x; su_v := {| to_value := to_value (su_v x); to_script := b |} |})
  | _, _ => Err AttributeError
  end.
Definition set_prevout (m : bool) (v : outpoint) (o : sobj) : res sobj :=
  guarded o match o with SIn x => Ok (SIn (with_prev x (mk_op m v))) | _ => Err AttributeError end.
Definition set_wit (w : list (list bytes)) (o : sobj) : res sobj :=
  guarded o
  match o with
  | STx x => Ok (STx {| st_mut := st_mut x; st_ver := st_ver x; st_vin := st_vin x; st_vout := st_vout x; st_wit := w; st_lock := st_lock x |})
  | _ => Err AttributeError end.
Definition clear_seq (out : bool) (o : sobj) : res sobj :=
  guarded o match o with STx x => Ok (STx (if out then with_vout x [] else with_vin x [])) | _ => Err AttributeError end.
Definition has_attr (o : sobj) (f : vfld) : bool :=
  match o, f with
  | SOp _, (VHash | VN) | SIn _, (VPrevout | VScriptSig | VSeq) | SOut _, (VValue | VScriptPubKey)
  | STx _, (VVersion | VVin | VVout | VWit | VLock) => true
  | _, _ => false end.

(* Python sequence index *)
Definition seq_idx (len : nat) (i : Z) : res nat :=
  if (0 <=? i) && (i <? Z.of_nat len) then Ok (Z.to_nat i)
  else if (- Z.of_nat len <=? i) && (i <? 0) then Ok (Z.to_nat (Z.of_nat len + i))
  else Err IndexError.
(* edits of the input / output sequence: a list on a mutable transaction, a tuple on an
   immutable one ([tuple_exn]: what the tuple answers) *)
Definition edit_vin (tuple_exn : exn) (k : list s_in -> res (list s_in)) (o : sobj) : res sobj :=
  match o with
  | STx x => if st_mut x then do l <- k (st_vin x); Ok (STx (with_vin x l)) else Err tuple_exn
  | _ => Err AttributeError end.
Definition edit_vout (tuple_exn : exn) (k : list s_out -> res (list s_out)) (o : sobj) : res sobj :=
  match o with
  | STx x => if st_mut x then do l <- k (st_vout x); Ok (STx (with_vout x l)) else Err tuple_exn
  | _ => Err AttributeError end.

Section Sem.
Variable H : bytes -> bytes.    (* double SHA-256 *)

(* ---------- observations: functions of the value ---------- *)
Definition spec_ser (o : sobj) : res bytes :=
  match o with
  | SOp x => Ok (wire_outpoint (so_v x))
  | SIn x => Ok (wire_txin (val_in x))
  | SOut x => Ok (wire_txout (su_v x))
  | STx x => let t := val_tx x in
             (* more witness stacks than inputs cannot be serialised (assert in the library) *)
             if has_witness t && (length (tx_vin t) <? length (tx_wit t))%nat then Err AssertionError else Ok (wire_tx t)
  end.
Definition spec_hash (o : sobj) : res bytes := do s <- spec_ser o; Ok (H s).
Definition spec_txid (o : sobj) : res bytes :=
  match o with STx x => Ok (H (wire_tx_stripped (val_tx x))) | _ => Err AttributeError end.
Definition spec_eq (a b : sobj) : res bool :=
  if (kind_of a =? kind_of b)%nat then do x <- spec_ser a; do y <- spec_ser b; Ok (bytes_eqb x y) else Ok false.
Definition spec_hash_eq (a b : sobj) : res bool := do x <- spec_ser a; do y <- spec_ser b; Ok (bytes_eqb x y).

(* legacy signature hash of a value (SIGHASH_ALL/NONE/SINGLE | ANYONECANPAY), script without
   OP_CODESEPARATOR; errors of the "cooked" SignatureHash *)
Fixpoint sig_ins (ins : list txin) (i idx : nat) (script : bytes) (zero_others : bool) : list txin :=
  match ins with
  | [] => []
  | x :: r =>
      {| ti_prevout := ti_prevout x;
         ti_script := if (i =? idx)%nat then script else [];
         ti_seq := if (i =? idx)%nat then ti_seq x else if zero_others then 0 else ti_seq x |}
      :: sig_ins r (S i) idx script zero_others
  end.
Definition blank_out : txout := {| to_value := -1; to_script := [] |}.
Definition spec_sighash (t : tx) (script : bytes) (idx : nat) (ht : Z) : res bytes :=
  if (length (tx_vin t) <=? idx)%nat then Err ValueError else
  let mode := Z.land ht 31 in
  let ins := sig_ins (tx_vin t) 0 idx script ((mode =? 2) || (mode =? 3)) in
  do outs <- (if mode =? 2 then Ok []
              else if mode =? 3 then
                match nth_error (tx_vout t) idx with
                | Some o => Ok (repeat blank_out idx ++ [o])
                | None => Err ValueError end
              else Ok (tx_vout t));
  let ins' := if Z.land ht 128 =? 0 then ins else match nth_error ins idx with Some x => [x] | None => [] end in
  Ok (H (wire_tx_stripped {| tx_version := tx_version t; tx_vin := ins'; tx_vout := outs; tx_wit := []; tx_lock := tx_lock t |}
         ++ i 4 ht)).

(* ---------- one step ---------- *)
Definition vres_obs {A} (f : A -> val) (r : res A) : val := match r with Ok a => f a | Err e => verr e end.
Definition bad_handle : val := VErr 998.
(* the property does not say what deleting an attribute of a MUTABLE object does *)
Definition not_covered : val := VErr 997.

Definition at_path {A} (st : list sobj) (p : path) (k : sobj -> sobj -> A) (err : val -> A) : A :=
  match nth_error st (fst p) with
  | None => err bad_handle
  | Some root => match sget root (snd p) with Ok sub => k root sub | Err e => err (verr e) end
  end.
Definition modify (st : list sobj) (p : path) (f : sobj -> res sobj) : list sobj * val :=
  at_path st p
    (fun root sub => match f sub with
                     | Ok sub' => (upd_nth st (fst p) (sput root (snd p) sub'), VInt 0)
                     | Err e => (st, verr e) end)
    (fun e => (st, e)).
Definition observe (st : list sobj) (p : path) (f : sobj -> val) : list sobj * val :=
  at_path st p (fun _ sub => (st, f sub)) (fun e => (st, e)).
Definition observe2 (st : list sobj) (p q : path) (f : sobj -> sobj -> val) : list sobj * val :=
  at_path st p (fun _ a => at_path st q (fun _ b => (st, f a b)) (fun e => (st, e))) (fun e => (st, e)).

Definition vstep (st : list sobj) (o : hop) : list sobj * val :=
  match o with
  | HSetInt p f z => modify st p (set_int f z)
  | HSetBytes p f b => modify st p (set_bytes f b)
  | HSetPrevout p m v => modify st p (set_prevout m v)
  | HDel p f => observe st p (fun sub => if smut sub && has_attr sub f then not_covered else verr AttributeError)
  | HSetWit p w => modify st p (set_wit w)
  | HClear p out => modify st p (clear_seq out)
  | HAppendIn p m v => modify st p (edit_vin AttributeError (fun l => Ok (l ++ [mk_in m v])))
  | HAppendOut p m v => modify st p (edit_vout AttributeError (fun l => Ok (l ++ [mk_out m v])))
  | HSetItemIn p i m v => modify st p (edit_vin TypeError (fun l => do k <- seq_idx (length l) i; Ok (upd_nth l k (mk_in m v))))
  | HSetItemOut p i m v => modify st p (edit_vout TypeError (fun l => do k <- seq_idx (length l) i; Ok (upd_nth l k (mk_out m v))))
  | HDelItem p out i =>
      if out then modify st p (edit_vout TypeError (fun l => do k <- seq_idx (length l) i; Ok (del_nth l k)))
      else modify st p (edit_vin TypeError (fun l => do k <- seq_idx (length l) i; Ok (del_nth l k)))
  | HNewTx m v => (st ++ [STx (mk_stx m v)], VInt 0)
  | HFrom kind m p =>
      at_path st p
        (fun _ sub =>
           if (kind_of sub =? kind)%nat then
             (st ++ [match sub with SOp x => SOp (copy_op m x) | SIn x => SIn (copy_in m x)
                               | SOut x => SOut (copy_out m x) | STx x => STx (copy_tx m x) end], VInt 0)
           else (st, verr AttributeError))
        (fun e => (st, e))
  | HSer p => observe st p (fun sub => vres_obs VBytes (spec_ser sub))
  | HGetHash p => observe st p (fun sub => vres_obs VBytes (spec_hash sub))
  | HGetTxid p => observe st p (fun sub => vres_obs VBytes (spec_txid sub))
  | HHashEq p q => observe2 st p q (fun a b => vres_obs vbool (spec_hash_eq a b))
  | HEq p q => observe2 st p q (fun a b => vres_obs vbool (spec_eq a b))
  | HSigHash p script idx ht =>
      observe st p (fun sub => match sub with
                               | STx x => vres_obs VBytes (spec_sighash (val_tx x) script idx ht)
                               | _ => verr AttributeError end)
  | HVerify p script idx ht =>
      observe st p (fun sub => match sub with STx _ => VInt 0 | _ => verr AttributeError end)
  end.

(* what is visible of a state: per handle serialisation, hash, txid; == for every pair;
   hash()-equality class of every handle (index of the first handle with the same hash) *)
Fixpoint first_same (sers : list (res bytes)) (s : bytes) (k : nat) : nat :=
  match sers with
  | [] => k
  | Ok x :: r => if bytes_eqb x s then k else first_same r s (S k)
  | Err _ :: r => first_same r s (S k)
  end.
Fixpoint pairs_obs (l : list sobj) : list val :=
  match l with
  | [] => []
  | a :: r => VList (map (fun b => vres_obs vbool (spec_eq a b)) r) :: pairs_obs r
  end.
Definition state_obs (st : list sobj) : val :=
  let sers := map spec_ser st in
  VList [VList (map (fun o => VList [vres_obs VBytes (spec_ser o); vres_obs VBytes (spec_hash o);
                                     match o with STx _ => vres_obs VBytes (spec_txid o) | _ => VInt 0 end]) st);
         VList (pairs_obs st);
         VList (map (fun r => match r with Ok s => VInt (Z.of_nat (first_same sers s 0)) | Err e => verr e end) sers)].

Fixpoint vrun (st : list sobj) (ops : list hop) : list val :=
  match ops with
  | [] => []
  | o :: r => let s := vstep st o in VList [snd s; state_obs (fst s)] :: vrun (fst s) r
  end.
(* a history: initial transactions, then operations; one observation per state *)
Definition history_obs (init : list (bool * tx)) (ops : list hop) : val :=
  let st := map (fun mt => STx (mk_stx (fst mt) (snd mt))) init in
  VList (VList [VInt 0; state_obs st] :: vrun st ops).
End Sem.
