(* Spec/Der.v – the DER grammar of an ECDSA signature (X.690 8.3 / 10.1 as restricted by
   BIP66 "strict DER"): SEQUENCE { INTEGER r, INTEGER s }, definite short-form lengths,
   non-negative integers in the minimal number of content octets.  Reference style: a
   canonical encoder over big-endian numerals (Spec/Base58.v be_bytes / be_value) and a
   parser that accepts exactly the grammar. *)
From BV Require Import Common.Base Spec.Base58.

(* content octets of a non-negative INTEGER: the minimal big-endian numeral, preceded by
   one zero octet when its top bit is set; the single octet 00 for zero *)
Definition der_int_content (v : Z) : bytes :=
  match be_bytes v with
  | [] => [x00]
  | h :: t => if b2z h <? 128 then h :: t else x00 :: h :: t
  end.
Definition der_int (v : Z) : bytes :=
  let c := der_int_content v in x02 :: z2b (lenZ c) :: c.
Definition enc_der (r s : Z) : bytes :=
  let body := der_int r ++ der_int s in x30 :: z2b (lenZ body) :: body.

(* INTEGER: tag 02, short-form length 1..127, that many content octets, top bit of the
   first clear (non-negative), no redundant leading 00 *)
Definition minimal_content (c : bytes) : bool :=
  match c with
  | [] => false
  | h :: t => (b2z h <? 128) &&
              negb ((b2z h =? 0) && match t with h2 :: _ => b2z h2 <? 128 | [] => false end)
  end.
Definition parse_int (b : bytes) : option (Z * bytes) :=
  match b with
  | tag :: l :: rest =>
      let len := Z.to_nat (b2z l) in
      if (b2z tag =? 2) && (1 <=? b2z l) && (b2z l <? 128) && (len <=? length rest)%nat
         && minimal_content (firstn len rest)
      then Some (be_value (firstn len rest), skipn len rest)
      else None
  | _ => None
  end.
(* SEQUENCE: tag 30, short-form length covering exactly the rest, two INTEGERs, nothing else *)
Definition parse_der (sig : bytes) : option (Z * Z) :=
  match sig with
  | tag :: l :: body =>
      if (b2z tag =? 48) && (b2z l <? 128) && (b2z l =? lenZ body) then
        match parse_int body with
        | Some (r, rest) => match parse_int rest with
                            | Some (s, []) => Some (r, s)
                            | _ => None
                            end
        | None => None
        end
      else None
  | _ => None
  end.
Definition strict_der (sig : bytes) : bool :=
  match parse_der sig with Some _ => true | None => false end.
