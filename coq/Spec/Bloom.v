(* Spec/Bloom.v – reference definitions for C20, reference style:
   MurmurHash3 x86_32 (Appleby's MurmurHash3.cpp) with uint32 arithmetic (every operation
   reduced mod 2^32), the BIP37 bit schedule, the filter as a set of bit numbers, the wire
   form of `filterload` and the protocol maxima.  All literals are written here from the
   references; nothing is taken from /repo. *)
From BV Require Import Common.Base.

(* ---------- MurmurHash3 x86_32 ---------- *)
Definition w32 (x : Z) : Z := x mod 2^32.
(* rotate the 32-bit word w left by i, 0 < i < 32 *)
Definition rotl32 (w i : Z) : Z := (w * 2^i) mod 2^32 + w / 2^(32 - i).

Definition C1 : Z := 0xcc9e2d51.
Definition C2 : Z := 0x1b873593.
(* k *= c1; k = rotl32(k,15); k *= c2 *)
Definition mix_k (k : Z) : Z := w32 (rotl32 (w32 (k * C1)) 15 * C2).
(* h ^= k; h = rotl32(h,13); h = h*5 + 0xe6546b64 *)
Definition mix_h (h k : Z) : Z := w32 (w32 (rotl32 (Z.lxor h (mix_k k)) 13 * 5) + 0xe6546b64).

(* the 4-byte little-endian blocks; returns the state and the 0..3 remaining tail bytes *)
Fixpoint ref_blocks (d : bytes) (h : Z) : Z * bytes :=
  match d with
  | b0 :: b1 :: b2 :: b3 :: rest => ref_blocks rest (mix_h h (le_dec [b0; b1; b2; b3]))
  | tail => (h, tail)
  end.

(* switch(len & 3): the tail bytes form a little-endian word *)
Definition ref_tail (h : Z) (tail : bytes) : Z :=
  match tail with [] => h | _ => Z.lxor h (mix_k (le_dec tail)) end.

Definition fmix32 (h : Z) : Z :=
  let h := Z.lxor h (h / 2^16) in
  let h := w32 (h * 0x85ebca6b) in
  let h := Z.lxor h (h / 2^13) in
  let h := w32 (h * 0xc2b2ae35) in
  Z.lxor h (h / 2^16).

Definition murmur_ref (seed : Z) (d : bytes) : Z :=
  let '(h, tail) := ref_blocks d seed in
  fmix32 (Z.lxor (ref_tail h tail) (w32 (lenZ d))).

(* ---------- BIP37 ---------- *)
Definition bip37_seed (i tweak : Z) : Z := (i * 0xFBA4C795 + tweak) mod 2^32.
(* bit selected by hash function number i in a filter of nbytes bytes *)
Definition bip37_index (nbytes tweak i : Z) (e : bytes) : Z :=
  murmur_ref (bip37_seed i tweak) e mod (8 * nbytes).
Definition schedule (nbytes nHashFuncs tweak : Z) (e : bytes) : list Z :=
  map (fun i => bip37_index nbytes tweak (Z.of_nat i) e) (seq 0 (Z.to_nat nHashFuncs)).

(* bit n of the filter data: vData[n >> 3] & (1 << (7 & n)) *)
Definition bit_at (d : bytes) (n : Z) : bool :=
  Z.testbit (b2z (nth (Z.to_nat (n / 8)) d x00)) (n mod 8).
Fixpoint set_bit (d : bytes) (n : Z) : bytes :=
  match d with
  | [] => []
  | b :: t => if n <? 8 then z2b (Z.lor (b2z b) (2 ^ n)) :: t else b :: set_bit t (n - 8)
  end.
Definition set_bits (d : bytes) (l : list Z) : bytes := fold_left set_bit l d.

(* a filter with empty data (possible on the wire) matches everything and ignores inserts *)
Definition spec_insert (d : bytes) (nHashFuncs tweak : Z) (e : bytes) : bytes :=
  match d with [] => [] | _ => set_bits d (schedule (lenZ d) nHashFuncs tweak e) end.
Definition spec_contains (d : bytes) (nHashFuncs tweak : Z) (e : bytes) : bool :=
  match d with [] => true | _ => forallb (bit_at d) (schedule (lenZ d) nHashFuncs tweak e) end.

(* serialised COutPoint: 32-byte hash, uint32 index *)
Definition outpoint_bytes (h : bytes) (n : Z) : bytes := h ++ le_enc 4 n.

(* ---------- protocol maxima ---------- *)
Definition MAX_FILTER_BYTES : Z := 36000.
Definition MAX_FUNCS : Z := 50.

(* ---------- wire form (filterload payload) ---------- *)
Definition compact_size (n : Z) : bytes :=
  if n <? 253 then [z2b n]
  else if n <? 2^16 then xfd :: le_enc 2 n
  else if n <? 2^32 then xfe :: le_enc 4 n
  else xff :: le_enc 8 n.
Definition spec_wire (d : bytes) (nHashFuncs tweak flags : Z) : bytes :=
  compact_size (lenZ d) ++ d ++ le_enc 4 nHashFuncs ++ le_enc 4 tweak ++ le_enc 1 flags.
Definition wire_ranges (nHashFuncs tweak flags : Z) : bool :=
  (0 <=? nHashFuncs) && (nHashFuncs <? 2^32) && (0 <=? tweak) && (tweak <? 2^32) &&
  (0 <=? flags) && (flags <? 2^8).

(* ---------- reference run of a history (the oracle of the correspondence engine) ----------
   operations on (data, nHashFuncs, tweak): insert e / query e / wire round trip (identity) *)
Inductive sop := SInsert (e : bytes) | SQuery (e : bytes) | SRoundTrip.
Fixpoint spec_run (d : bytes) (nHashFuncs tweak : Z) (ops : list sop) : bytes * list Z :=
  match ops with
  | [] => (d, [])
  | SInsert e :: r =>
      let '(d', l) := spec_run (spec_insert d nHashFuncs tweak e) nHashFuncs tweak r in (d', 0 :: l)
  | SQuery e :: r =>
      let '(d', l) := spec_run d nHashFuncs tweak r in
      (d', (if spec_contains d nHashFuncs tweak e then 1 else 0) :: l)
  | SRoundTrip :: r =>
      let '(d', l) := spec_run d nHashFuncs tweak r in (d', 0 :: l)
  end.
