(* Spec/Script.v – reference definitions for C08 (and the script family built on it),
   reference style, following Bitcoin Core (script/script.h, script/script.cpp,
   CScriptNum in script/script.h) with the opcode numbers of the protocol written as
   literals – nothing here reads Gen/ScriptConsts.v, so the theorems also check the
   regenerated constants against the protocol.
   From the MODEL only the *types* of observations are shared: [sop] (one parsed operation)
   and [tok] (what a script is built from / what iteration yields). *)
From BV Require Import Common.Base.
From BV Require Import Model.Script.

(* =================================================================================== *)
(* 1. script numbers: CScriptNum::serialize / set_vch / IsMinimallyEncoded             *)
(* =================================================================================== *)
(* little-endian sign-magnitude, bit 7 of the last byte is the sign, 0 is the empty string *)
Definition num_enc (v : Z) : bytes :=
  if v =? 0 then [] else
  let a := Z.abs v in
  let n := Z.to_nat (Z.log2 a / 8 + 1) in          (* minimal number of magnitude bytes *)
  let top := a / 256 ^ (Z.of_nat n - 1) in         (* most significant magnitude byte *)
  let n' := if 128 <=? top then S n else n in       (* one more byte when its bit 7 is taken *)
  le_enc n' (if v <? 0 then a + 128 * 256 ^ (Z.of_nat n' - 1) else a).

Definition num_dec (b : bytes) : Z :=
  match b with
  | [] => 0
  | _ => let u := le_dec b in
         let s := 128 * 256 ^ (lenZ b - 1) in      (* the sign bit *)
         if u <? s then u else - (u - s)
  end.

(* minimal encodings: the last byte is not a bare sign byte (0x00 / 0x80) unless the byte
   before it needs its bit 7 *)
Definition num_minimal (b : bytes) : bool :=
  match rev b with
  | [] => true
  | last :: r =>
      if b2z last mod 128 =? 0
      then match r with prev :: _ => 128 <=? b2z prev | [] => false end
      else true
  end.

(* =================================================================================== *)
(* 2. GetOp and the operation sequence of a script                                     *)
(* =================================================================================== *)
(* CScript::GetOp on the bytes from pc on: (opcode, push data if opcode <= OP_PUSHDATA4,
   remaining bytes), or failure when the length field (InvalidScript) or the data
   (TruncatedPush) runs past the end.  Core only says `false`; the two error names are the
   Python refinement of it and are never distinguished by the property. *)
Definition get_op (s : bytes) : res (Z * option bytes * bytes) :=
  match s with
  | [] => Err InvalidScript
  | b :: r =>
      let op := b2z b in
      if 0x4e <? op then Ok (op, None, r) else
      do lr <- (if op <? 0x4c then Ok (op, r)
                else if op =? 0x4c then
                  match r with l :: r' => Ok (b2z l, r') | [] => Err InvalidScript end
                else if op =? 0x4d then
                  if lenZ r <? 2 then Err InvalidScript else Ok (le_dec (firstn 2 r), skipn 2 r)
                else
                  if lenZ r <? 4 then Err InvalidScript else Ok (le_dec (firstn 4 r), skipn 4 r));
      let n := fst lr in let r' := snd lr in
      if lenZ r' <? n then Err TruncatedPush
      else Ok (op, Some (firstn (Z.to_nat n) r'), skipn (Z.to_nat n) r')
  end.

(* `while (pc < end) { if (!GetOp(pc, opcode, data)) break/fail; ... }`:
   the operations decoded, each with the offset of its opcode byte, and the failure if the
   walk does not reach the end *)
Fixpoint ref_ops (fuel : nat) (s : bytes) (off : Z) : list sop * option exn :=
  match s with
  | [] => ([], None)
  | _ :: _ =>
      match fuel with
      | O => ([], Some OutOfFuel)
      | S f =>
          match get_op s with
          | Err e => ([], Some e)
          | Ok (op, d, rest) =>
              cons_op (mk_sop op d off) (ref_ops f rest (off + (lenZ s - lenZ rest)))
          end
      end
  end.
Definition ref_parse (s : bytes) : list sop * option exn := ref_ops (length s) s 0.

(* the bytes an operation occupies *)
Definition op_bytes (op : Z) (d : option bytes) : bytes :=
  match d with
  | None => [z2b op]
  | Some d =>
      if op <? 0x4c then z2b op :: d
      else if op =? 0x4c then z2b op :: z2b (lenZ d) :: d
      else if op =? 0x4d then z2b op :: le_enc 2 (lenZ d) ++ d
      else z2b op :: le_enc 4 (lenZ d) ++ d
  end.
Definition sop_bytes (o : sop) : bytes := op_bytes (sop_opcode o) (sop_data o).
Definition ops_bytes (ops : list sop) : bytes := concat (map sop_bytes ops).

(* well-formed operation: opcodes above PUSHDATA4 carry no data, the others carry data of
   the length their opcode / length field can express *)
Definition op_wf (op : Z) (d : option bytes) : Prop :=
  match d with
  | None => 0x4e < op <= 0xff
  | Some d => 0 <= op <= 0x4e /\ (op < 0x4c -> lenZ d = op) /\ (op = 0x4c -> lenZ d < 2^8) /\
              (op = 0x4d -> lenZ d < 2^16) /\ (op = 0x4e -> lenZ d < 2^32)
  end.
Definition sop_wf (o : sop) : Prop := op_wf (sop_opcode o) (sop_data o).

(* sop_idx of every operation = offset of its first byte *)
Fixpoint consecutive (off : Z) (ops : list sop) : Prop :=
  match ops with
  | [] => True
  | o :: r => sop_idx o = off /\ consecutive (off + lenZ (sop_bytes o)) r
  end.

(* a push that overruns the script: its length field or its data runs past the end *)
Inductive overrun : bytes -> Prop :=
| ov_direct b r : b2z b < 0x4c -> lenZ r < b2z b -> overrun (b :: r)
| ov_len1 : overrun [x4c]
| ov_data1 l r : lenZ r < b2z l -> overrun (x4c :: l :: r)
| ov_len2 r : lenZ r < 2 -> overrun (x4d :: r)
| ov_data2 l r : length l = 2%nat -> lenZ r < le_dec l -> overrun (x4d :: l ++ r)
| ov_len4 r : lenZ r < 4 -> overrun (x4e :: r)
| ov_data4 l r : length l = 4%nat -> lenZ r < le_dec l -> overrun (x4e :: l ++ r).

(* =================================================================================== *)
(* 3. building and cooked iteration                                                    *)
(* =================================================================================== *)
(* shortest push opcode for the length *)
Definition push_enc (d : bytes) : bytes :=
  let n := lenZ d in
  if n <? 0x4c then z2b n :: d
  else if n <? 0x100 then x4c :: z2b n :: d
  else if n <? 0x10000 then x4d :: le_enc 2 n ++ d
  else x4e :: le_enc 4 n ++ d.

Definition tok_enc (t : tok) : bytes :=
  match t with
  | TOp n => [z2b n]
  | TInt v => if v =? 0 then [x00]                             (* OP_0 *)
              else if (1 <=? v) && (v <=? 16) then [z2b (0x50 + v)]   (* OP_1 .. OP_16 *)
              else if v =? -1 then [x4f]                       (* OP_1NEGATE *)
              else push_enc (num_enc v)                        (* minimal script number *)
  | TBytes b => push_enc b
  end.
Definition toks_enc (toks : list tok) : bytes := concat (map tok_enc toks).

(* what iteration returns for a built token: opcodes, 0..16 as integers, the empty
   string as 0, every other push as its bytes *)
Definition canon1 (t : tok) : tok :=
  match t with
  | TOp n => if (0x51 <=? n) && (n <=? 0x60) then TInt (n - 0x50) else TOp n
  | TInt v => if (0 <=? v) && (v <=? 16) then TInt v
              else if v =? -1 then TOp 0x4f
              else TBytes (num_enc v)
  | TBytes [] => TInt 0
  | TBytes b => TBytes b
  end.
Definition canon (toks : list tok) : list tok := map canon1 toks.

(* cooked iteration of an arbitrary script: OP_0 as 0, every other push as its bytes,
   OP_1..OP_16 as 1..16, any other opcode as itself *)
Definition ref_cook (o : sop) : tok :=
  let op := sop_opcode o in
  if op =? 0 then TInt 0
  else match sop_data o with
       | Some d => TBytes d
       | None => if (0x51 <=? op) && (op <=? 0x60) then TInt (op - 0x50) else TOp op
       end.
Definition ref_iter (s : bytes) : list tok * option exn :=
  (map ref_cook (fst (ref_parse s)), snd (ref_parse s)).

(* the tokens the property quantifies over *)
Definition tok_ok (t : tok) : Prop :=
  match t with
  | TOp n => 0x4f <= n <= 0xff
  | TInt v => lenZ (num_enc v) < 2^32
  | TBytes b => lenZ b < 2^32
  end.

(* =================================================================================== *)
(* 4. classification predicates                                                        *)
(* =================================================================================== *)
Definition parses (s : bytes) : bool :=
  match snd (ref_parse s) with None => true | Some _ => false end.

(* CScript::IsPushOnly: every operation decodes and is <= OP_16 *)
Definition ref_push_only (s : bytes) : bool :=
  parses s && forallb (fun o => sop_opcode o <=? 0x60) (fst (ref_parse s)).

(* CScript::HasCanonicalPushes (0.9): every operation decodes and no push could have been
   written shorter *)
Definition canonical_op (o : sop) : bool :=
  let op := sop_opcode o in
  let n := match sop_data o with Some d => lenZ d | None => 0 end in
  let first := match sop_data o with Some (x :: _) => b2z x | _ => 0 end in
  (0x60 <? op) ||
  negb (((0 <? op) && (op <? 0x4c) && (n =? 1) && (first <=? 16)) ||
        ((op =? 0x4c) && (n <? 0x4c)) ||
        ((op =? 0x4d) && (n <=? 0xff)) ||
        ((op =? 0x4e) && (n <=? 0xffff))).
Definition ref_canonical_pushes (s : bytes) : bool :=
  parses s && forallb canonical_op (fst (ref_parse s)).

(* CScript::IsPayToScriptHash: 23 bytes  a9 14 <20 bytes> 87 *)
Definition ref_p2sh (s : bytes) : bool :=
  (length s =? 23)%nat && bytes_eqb (firstn 2 s) [xa9; x14] && bytes_eqb (skipn 22 s) [x87].

(* CScript::IsWitnessProgram: 4..42 bytes, a version opcode (OP_0 or OP_1..OP_16), then one
   direct push of the remaining 2..40 bytes; returns (version, program) *)
Definition ref_witness_program (s : bytes) : option (Z * bytes) :=
  match s with
  | v :: l :: prog =>
      if (4 <=? lenZ s) && (lenZ s <=? 42) &&
         ((b2z v =? 0) || ((0x51 <=? b2z v) && (b2z v <=? 0x60))) &&
         (b2z l + 2 =? lenZ s)
      then Some (if b2z v =? 0 then 0 else b2z v - 0x50, prog) else None
  | _ => None
  end.
Definition ref_is_witness (s : bytes) : bool :=
  match ref_witness_program s with Some _ => true | None => false end.
(* P2WPKH: 00 14 <20 bytes>; P2WSH: 00 20 <32 bytes>; their P2SH-nested scriptSigs *)
Definition ref_v0_keyhash (s : bytes) : bool :=
  (length s =? 22)%nat && bytes_eqb (firstn 2 s) [x00; x14].
Definition ref_v0_scripthash (s : bytes) : bool :=
  (length s =? 34)%nat && bytes_eqb (firstn 2 s) [x00; x20].
Definition ref_v0_nested_keyhash (s : bytes) : bool :=
  (length s =? 23)%nat && bytes_eqb (firstn 3 s) [x16; x00; x14].
Definition ref_v0_nested_scripthash (s : bytes) : bool :=
  (length s =? 35)%nat && bytes_eqb (firstn 3 s) [x22; x00; x20].

(* CScript::IsUnspendable (first byte OP_RETURN; the size clause of later Cores is not in
   the Python) *)
Definition ref_unspendable (s : bytes) : bool :=
  match s with b :: _ => b2z b =? 0x6a | [] => false end.

(* =================================================================================== *)
(* 5. CScript::GetSigOpCount(fAccurate)                                                *)
(* =================================================================================== *)
(* walks the operations up to the first one that does not decode (`break`) *)
Fixpoint ref_sigops_ops (accurate : bool) (ops : list sop) (last : Z) : Z :=
  match ops with
  | [] => 0
  | o :: r =>
      let op := sop_opcode o in
      (if (op =? 0xac) || (op =? 0xad) then 1
       else if (op =? 0xae) || (op =? 0xaf) then
         if accurate && (0x51 <=? last) && (last <=? 0x60) then last - 0x50 else 20
       else 0) + ref_sigops_ops accurate r op
  end.
Definition ref_sigops (accurate : bool) (s : bytes) : Z :=
  ref_sigops_ops accurate (fst (ref_parse s)) 0xff.
