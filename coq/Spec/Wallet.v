(* Spec/Wallet.v – reference definition of Bitcoin addresses (reference style):
   the table "standard scriptPubKey template <-> address text" per chain, the reference
   address parser, and the reference meaning of a history of chain selections.

     P2PKH   76 a9 14 <20 bytes> 88 ac   <->  Base58Check(PUBKEY_ADDR, h)
     P2SH    a9 14 <20 bytes> 87         <->  Base58Check(SCRIPT_ADDR, h)
     P2WPKH  00 14 <20 bytes>            <->  Bech32(HRP, version 0, h)
     P2WSH   00 20 <32 bytes>            <->  Bech32(HRP, version 0, h)

   The byte patterns are written here as literals (Bitcoin Core: script/standard.cpp,
   key_io.cpp), not read from /repo; the prefix bytes / HRP of a chain are the fields of a
   chain_params record (the record type is shared with Gen/Core.v; the values of the four
   chains are regenerated from /repo).  Base58Check and Bech32 are the reference
   definitions of Spec/Base58.v and Spec/Bech32.v. *)
From BV Require Import Common.Base Gen.Core.
From BV Require Spec.Base58 Spec.Bech32.

Notation text := (list Z) (only parsing).

Inductive kind := KP2PKH | KP2SH | KP2WPKH | KP2WSH.
Definition kind_eqb (a b : kind) : bool :=
  match a, b with
  | KP2PKH, KP2PKH | KP2SH, KP2SH | KP2WPKH, KP2WPKH | KP2WSH, KP2WSH => true
  | _, _ => false
  end.
Definition payload_len (k : kind) : nat :=
  match k with KP2WSH => 32 | _ => 20 end.
Definition is_base58_kind (k : kind) : bool :=
  match k with KP2PKH | KP2SH => true | _ => false end.

(* ---------- the table ---------- *)
Definition spec_script (k : kind) (h : bytes) : bytes :=
  match k with
  | KP2PKH => [x76; xa9; x14] ++ h ++ [x88; xac]   (* DUP HASH160 <20> EQUALVERIFY CHECKSIG *)
  | KP2SH => [xa9; x14] ++ h ++ [x87]              (* HASH160 <20> EQUAL *)
  | KP2WPKH => [x00; x14] ++ h                     (* 0 <20> *)
  | KP2WSH => [x00; x20] ++ h                      (* 0 <32> *)
  end.
(* version byte (Base58Check) or witness version (Bech32) *)
Definition spec_version (p : chain_params) (k : kind) : Z :=
  match k with
  | KP2PKH => cp_pubkey_addr p
  | KP2SH => cp_script_addr p
  | KP2WPKH | KP2WSH => 0
  end.
(* Hc: the checksum hash of Base58Check (double SHA-256) *)
Definition spec_text (Hc : bytes -> bytes) (p : chain_params) (k : kind) (h : bytes) : text :=
  match k with
  | KP2PKH | KP2SH => Spec.Base58.spec_to_text Hc (spec_version p k) h
  | KP2WPKH | KP2WSH => Spec.Bech32.spec_address (cp_hrp p) 0 (map b2z h)
  end.

(* ---------- reference parser: which texts are addresses of chain p ---------- *)
Definition spec_parse (Hc : bytes -> bytes) (p : chain_params) (s : text) : option (kind * bytes) :=
  match Spec.Bech32.ref_decode (cp_hrp p) s with
  | Some (ver, prog) =>
      (* a segwit address of this chain: only version 0 is an address the library knows *)
      if ver =? 0 then
        if (length prog =? 32)%nat then Some (KP2WSH, map z2b prog)
        else if (length prog =? 20)%nat then Some (KP2WPKH, map z2b prog)
        else None
      else None
  | None =>
      match Spec.Base58.spec_check_decode Hc s with
      | Ok (v, payload) =>
          if (length payload =? 20)%nat then
            if v =? cp_script_addr p then Some (KP2SH, payload)
            else if v =? cp_pubkey_addr p then Some (KP2PKH, payload)
            else None
          else None
      | Err _ => None
      end
  end.

(* ---------- which scriptPubKeys are converted to which address ---------- *)
(* the P2PKH converter also accepts: the 20-byte hash pushed with PUSHDATA1/2/4, and the
   bare-pubkey forms  21 <33-byte key> ac  /  41 <65-byte key> ac  (address of the key's
   HASH160) *)
Inductive script_class :=
| SStd (k : kind) (h : bytes)
| SNonCanon (h : bytes)
| SBare (pubkey : bytes).

Definition starts (pre s : bytes) : bool := bytes_eqb (firstn (length pre) s) pre.
Definition ends (suf s : bytes) : bool := bytes_eqb (skipn (length s - length suf) s) suf.
Definition middle (a b : nat) (s : bytes) : bytes := firstn (length s - a - b) (skipn a s).

Definition spec_classify (s : bytes) : option script_class :=
  let n := length s in
  if (n =? 25)%nat && starts [x76; xa9; x14] s && ends [x88; xac] s then Some (SStd KP2PKH (middle 3 2 s))
  else if (n =? 23)%nat && starts [xa9; x14] s && ends [x87] s then Some (SStd KP2SH (middle 2 1 s))
  else if (n =? 22)%nat && starts [x00; x14] s then Some (SStd KP2WPKH (middle 2 0 s))
  else if (n =? 34)%nat && starts [x00; x20] s then Some (SStd KP2WSH (middle 2 0 s))
  else if (n =? 26)%nat && starts [x76; xa9; x4c; x14] s && ends [x88; xac] s then Some (SNonCanon (middle 4 2 s))
  else if (n =? 27)%nat && starts [x76; xa9; x4d; x14; x00] s && ends [x88; xac] s then Some (SNonCanon (middle 5 2 s))
  else if (n =? 29)%nat && starts [x76; xa9; x4e; x14; x00; x00; x00] s && ends [x88; xac] s
       then Some (SNonCanon (middle 7 2 s))
  else if (n =? 35)%nat && starts [x21] s && ends [xac] s then Some (SBare (middle 1 1 s))
  else if (n =? 67)%nat && starts [x41] s && ends [xac] s then Some (SBare (middle 1 1 s))
  else None.
(* the address (kind, payload) such a script denotes; H160 = RIPEMD160(SHA256(.)) *)
Definition spec_script_addr (H160 : bytes -> bytes) (c : script_class) : kind * bytes :=
  match c with
  | SStd k h => (k, h)
  | SNonCanon h => (KP2PKH, h)
  | SBare pk => (KP2PKH, H160 pk)
  end.

(* ---------- the reference chain table ---------- *)
(* Bitcoin Core chainparams.cpp (base58Prefixes[PUBKEY_ADDRESS], [SCRIPT_ADDRESS], bech32_hrp)
   and the four chain names, written here as literals – NOT read from /repo.  Only the four
   address-related fields of the record are meaningful; the others are 0 / empty.
   Props/C12.v (C12_chain_table) proves that the table regenerated from /repo agrees with
   this one on these fields; the oracle of the correspondence run uses this one. *)
Definition ref_chain (name : text) (pubkey_addr script_addr : Z) (hrp : text) : chain_params :=
  {| cp_name := name; cp_pow_limit := 0; cp_max_money := 0; cp_magic := [];
     cp_pubkey_addr := pubkey_addr; cp_script_addr := script_addr; cp_secret_key := 0; cp_hrp := hrp |}.
Definition ref_chains : list chain_params :=
  [ ref_chain [109;97;105;110;110;101;116] 0 5 [98;99];               (* "mainnet"  0 5 "bc" *)
    ref_chain [116;101;115;116;110;101;116] 111 196 [116;98];         (* "testnet"  111 196 "tb" *)
    ref_chain [115;105;103;110;101;116] 111 196 [116;98];             (* "signet"   111 196 "tb" *)
    ref_chain [114;101;103;116;101;115;116] 111 196 [98;99;114;116] ]. (* "regtest"  111 196 "bcrt" *)
(* the address-related view of a parameter record *)
Definition addr_view (p : chain_params) : text * Z * Z * text :=
  (cp_name p, cp_pubkey_addr p, cp_script_addr p, cp_hrp p).

(* ---------- chain selection ---------- *)
(* index of a chain name in a table *)
Fixpoint chain_of_name (name : text) (l : list chain_params) (i : Z) : option Z :=
  match l with
  | [] => None
  | p :: t => if Spec.Bech32.zeqb_list name (cp_name p) then Some i else chain_of_name name t (i + 1)
  end.
Definition valid_name (name : text) : bool :=
  match chain_of_name name ref_chains 0 with Some _ => true | None => false end.
(* the chain selected after a history of SelectParams calls: the LAST valid name of the
   history, mainnet (index 0) when there is none; invalid names are ignored *)
Definition spec_selected (hist : list text) : Z :=
  match find valid_name (rev hist) with
  | Some n => match chain_of_name n ref_chains 0 with Some i => i | None => 0 end
  | None => 0
  end.

(* ---------- which chains share address prefixes ---------- *)
Definition same_base58 (p q : chain_params) : bool :=
  (cp_pubkey_addr p =? cp_pubkey_addr q) && (cp_script_addr p =? cp_script_addr q).
Definition same_hrp (p q : chain_params) : bool := Spec.Bech32.zeqb_list (cp_hrp p) (cp_hrp q).

(* what a valid address text of chain q (kind k, payload h) means under chain p: a
   Base58Check address is read by its version byte, a Bech32 address by its HRP *)
Definition spec_foreign (p q : chain_params) (k : kind) (h : bytes) : option (kind * bytes) :=
  if is_base58_kind k then
    let v := spec_version q k in
    if v =? cp_script_addr p then Some (KP2SH, h)
    else if v =? cp_pubkey_addr p then Some (KP2PKH, h)
    else None
  else if same_hrp p q then Some (k, h) else None.
(* the address of chain q is also an address of chain p *)
Definition shares (p q : chain_params) (k : kind) : bool :=
  if is_base58_kind k then same_base58 p q else same_hrp p q.
