(* Spec/Bip143.v – BIP143 "Transaction Signature Verification for Version 0 Witness Program":
   the digest is the double SHA-256 (here: H) of the serialisation of
     1 nVersion (4-byte LE)  2 hashPrevouts  3 hashSequence  4 outpoint (32-byte hash + 4-byte LE)
     5 scriptCode (length-prefixed)  6 value (8-byte LE)  7 nSequence (4-byte LE)
     8 hashOutputs  9 nLocktime (4-byte LE)  10 sighash type (4-byte LE). *)
From BV Require Import Common.Base Common.Tx Spec.Wire.

Definition ht_base (ht : Z) : Z := ht mod 32.                 (* hashtype & 0x1f *)
Definition ht_anyone (ht : Z) : bool := 128 <=? ht mod 256.   (* bit 0x80 *)
Definition zero32 : bytes := repeat x00 32.

Section S.
Variable H : bytes -> bytes.
Definition hashPrevouts (t : tx) (ht : Z) : bytes :=
  if ht_anyone ht then zero32 else H (concat (map (fun x => wire_outpoint (ti_prevout x)) (tx_vin t))).
Definition hashSequence (t : tx) (ht : Z) : bytes :=
  if ht_anyone ht || (ht_base ht =? 2) || (ht_base ht =? 3) then zero32
  else H (concat (map (fun x => u 4 (ti_seq x)) (tx_vin t))).
Definition hashOutputs (t : tx) (idx : nat) (ht : Z) : bytes :=
  if (ht_base ht =? 2) then zero32                                (* NONE *)
  else if (ht_base ht =? 3) then                                  (* SINGLE: only the same-index output *)
    match nth_error (tx_vout t) idx with Some o => H (wire_txout o) | None => zero32 end
  else H (concat (map wire_txout (tx_vout t))).
Definition bip143_preimage (script : bytes) (t : tx) (idx : nat) (x : txin) (ht amount : Z) : bytes :=
  i 4 (tx_version t) ++ hashPrevouts t ht ++ hashSequence t ht ++ wire_outpoint (ti_prevout x) ++ vb script
  ++ i 8 amount ++ u 4 (ti_seq x) ++ hashOutputs t idx ht ++ u 4 (tx_lock t) ++ u 4 ht.
Definition bip143_digest (script : bytes) (t : tx) (idx : nat) (ht amount : Z) : option bytes :=
  match nth_error (tx_vin t) idx with
  | Some x => Some (H (bip143_preimage script t idx x ht amount))
  | None => None
  end.
End S.
