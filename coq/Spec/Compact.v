(* Spec/Compact.v – consensus definition of the compact ("nBits") encoding and of the
   proof-of-work check (Bitcoin Core arith_uint256::SetCompact/GetCompact, pow.cpp),
   reference style: plain arithmetic, no masks. *)
From BV Require Import Common.Base.

(* number of bits of v > 0; 0 for v = 0 *)
Definition nbits (v : Z) : Z := if v =? 0 then 0 else Z.log2 v + 1.

(* exponent / 23-bit mantissa / sign of a 32-bit compact value *)
Definition c_exp (c : Z) : Z := c / 2^24.
Definition c_mant (c : Z) : Z := c mod 2^23.
Definition c_sign (c : Z) : bool := 2^23 <=? c mod 2^24.

(* value denoted by exponent e and mantissa m: m * 256^(e-3), floor for e < 3 *)
Definition denote (e m : Z) : Z :=
  if e <=? 3 then m / 256 ^ (3 - e) else m * 256 ^ (e - 3).
Definition spec_decode (c : Z) : Z := denote (c_exp c) (c_mant c).

(* "the integer truncated to its three most significant bytes": the bytes are those of
   the sign-padded big-endian magnitude (size = nbits/8 + 1 bytes, so a leading 0x00 is
   counted when the top bit of the top byte is set) – the consensus definition. *)
Definition size_padded (v : Z) : Z := nbits v / 8 + 1.
Definition trunc3 (v : Z) : Z :=
  let k := size_padded v in
  if k <=? 3 then v else (v / 256 ^ (k - 3)) * 256 ^ (k - 3).

(* canonical compact values: the image of GetCompact on [0, 2^256): zero, or sign clear,
   mantissa's top byte non-zero unless that would set the sign bit, low bytes of a short
   value zero *)
Definition canonical (c : Z) : bool :=
  (c =? 0) ||
  (let e := c_exp c in let m := c mod 2^24 in
   (1 <=? e) && (e <=? 255) && (m <? 2^23) && (2^15 <=? m) &&
   (if e <=? 2 then m mod 256 ^ (3 - e) =? 0 else true)).

(* proof of work: positive, non-overflowing target no greater than the limit, and the
   hash read as a little-endian 256-bit integer does not exceed it *)
Definition le256 (h : bytes) : Z := le_dec h.
Definition pow_ok (limit : Z) (hash : bytes) (c : Z) : Prop :=
  c_sign c = false /\ 0 < spec_decode c /\ spec_decode c < 2^256 /\
  spec_decode c <= limit /\ le256 hash <= spec_decode c.
(* the same predicate as a boolean, used as the executable oracle of the correspondence run *)
Definition pow_okb (limit : Z) (hash : bytes) (c : Z) : bool :=
  negb (c_sign c) && (0 <? spec_decode c) && (spec_decode c <? 2^256) &&
  (spec_decode c <=? limit) && (le256 hash <=? spec_decode c).
Lemma pow_okb_iff limit hash c : pow_okb limit hash c = true <-> pow_ok limit hash c.
Proof.
  unfold pow_okb, pow_ok. rewrite !andb_true_iff, negb_true_iff, !Z.ltb_lt, !Z.leb_le. tauto.
Qed.

(* the proof-of-work limits of the four chains, in the order mainnet, testnet, signet, regtest
   (Bitcoin Core chainparams.cpp: consensus.powLimit) *)
Definition consensus_pow_limits : list Z :=
  [2^224 - 1; 2^224 - 1; 0x377ae * 2^216; 2^255 - 1].
