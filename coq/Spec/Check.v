(* Spec/Check.v – reference definitions for C16 (DESIGN.md Appendix D.3): the context-free
   validity of a transaction and of a block (Bitcoin Core CheckTransaction / CheckBlock /
   CheckBlockHeader, BIP141 for the witness commitment), reference style: conjunctions over
   the wire format of Spec/Wire.v, the recursive merkle root of Spec/Merkle.v, the compact
   target of Spec/Compact.v and the legacy sigop count of Spec/Script.v.  The consensus
   limits are written as literals (nothing here reads the regenerated limits of Gen/Core.v,
   so the theorems also check those against the protocol); only the per-chain parameters
   (money supply, proof-of-work limit) are read from the selected chain's record.
   Every predicate comes twice: as a Prop (what the theorems state) and as a boolean (the
   executable oracle of the correspondence run), with the proof that they agree. *)
From BV Require Import Common.Base Common.Tx Gen.Core.
From BV Require Import Spec.Wire Spec.Merkle Spec.Compact Spec.Script.

Definition zsum (l : list Z) : Z := fold_right Z.add 0 l.
(* the running totals  v1, v1+v2, v1+v2+v3, ...  (on top of acc) *)
Fixpoint running_totals (acc : Z) (l : list Z) : list Z :=
  match l with [] => [] | v :: r => (acc + v) :: running_totals (acc + v) r end.

(* ---------- fields in wire range (the quantifier of the C16 theorems) ---------- *)
Definition txin_in_range (x : txin) : Prop := wf_outpoint (ti_prevout x) /\ in_u 4 (ti_seq x).
Definition tx_in_range (t : tx) : Prop :=
  in_i 4 (tx_version t) /\ Forall txin_in_range (tx_vin t) /\
  Forall (fun o => in_i 8 (to_value o)) (tx_vout t) /\ in_u 4 (tx_lock t) /\
  (tx_wit t = [] \/ length (tx_wit t) = length (tx_vin t)).
Definition block_in_range (b : block) : Prop := wf_header (b_hdr b) /\ Forall tx_in_range (b_vtx b).

(* ---------- transactions ---------- *)
Definition null_outpoint (o : outpoint) : Prop := op_hash o = zeros 32 /\ op_n o = 2^32 - 1.
(* exactly one input, and it spends the null outpoint *)
Definition coinbase (t : tx) : Prop := exists x, tx_vin t = [x] /\ null_outpoint (ti_prevout x).

Definition null_outpointb (o : outpoint) : bool := bytes_eqb (op_hash o) (zeros 32) && (op_n o =? 2^32 - 1).
Definition coinbaseb (t : tx) : bool :=
  match tx_vin t with [x] => null_outpointb (ti_prevout x) | _ => false end.
Definition outpoint_eqb (a b : outpoint) : bool := bytes_eqb (op_hash a) (op_hash b) && (op_n a =? op_n b).
Fixpoint nodupb {A} (eqb : A -> A -> bool) (l : list A) : bool :=
  match l with [] => true | a :: r => negb (existsb (eqb a) r) && nodupb eqb r end.

Section TxSpec.
Variable cp : chain_params.      (* the selected chain *)

Definition in_money (v : Z) : Prop := 0 <= v <= cp_max_money cp.
Definition in_moneyb (v : Z) : bool := (0 <=? v) && (v <=? cp_max_money cp).

Definition valid_tx (t : tx) : Prop :=
  tx_vin t <> [] /\ tx_vout t <> [] /\
  lenZ (wire_tx_stripped t) <= 1000000 /\
  Forall in_money (map to_value (tx_vout t)) /\
  Forall in_money (running_totals 0 (map to_value (tx_vout t))) /\
  NoDup (map ti_prevout (tx_vin t)) /\
  (coinbase t -> forall x, In x (tx_vin t) -> 2 <= lenZ (ti_script x) <= 100) /\
  (~ coinbase t -> Forall (fun x => ~ null_outpoint (ti_prevout x)) (tx_vin t)).

Definition valid_txb (t : tx) : bool :=
  negb (is_nil (tx_vin t)) && negb (is_nil (tx_vout t)) &&
  (lenZ (wire_tx_stripped t) <=? 1000000) &&
  forallb in_moneyb (map to_value (tx_vout t)) &&
  forallb in_moneyb (running_totals 0 (map to_value (tx_vout t))) &&
  nodupb outpoint_eqb (map ti_prevout (tx_vin t)) &&
  (if coinbaseb t then forallb (fun x => (2 <=? lenZ (ti_script x)) && (lenZ (ti_script x) <=? 100)) (tx_vin t)
   else forallb (fun x => negb (null_outpointb (ti_prevout x))) (tx_vin t)).
End TxSpec.

(* ---------- blocks ---------- *)
Definition commit_magic : bytes := [x6a; x24; xaa; x21; xa9; xed].
(* BIP141: the commitment is in the LAST coinbase output whose script is at least 38 bytes
   long and starts with the magic *)
Definition commitment_output (cb : tx) : option bytes :=
  find (commit_pattern commit_magic) (rev (map to_script (tx_vout cb))).

(* legacy sigops of a transaction: all input scripts and all output scripts, each counted up
   to its first undecodable push *)
Definition tx_sigops (t : tx) : Z :=
  zsum (map (ref_sigops false) (map ti_script (tx_vin t))) +
  zsum (map (ref_sigops false) (map to_script (tx_vout t))).

Definition option_bytes_eqb (a b : option bytes) : bool :=
  match a, b with Some x, Some y => bytes_eqb x y | None, None => true | _, _ => false end.

Section BlockSpec.
Variable H : bytes -> bytes.     (* double SHA-256 in Bitcoin *)
Variable cp : chain_params.

Definition txid (t : tx) : bytes := H (wire_tx_stripped t).
Definition wtxid (t : tx) : bytes := H (wire_tx t).

(* the coinbase's witness is exactly one 32-byte item r, and bytes 6..37 of the commitment
   output are H(witness root ++ r) *)
Definition witness_commitment_ok (vtx : list tx) : Prop :=
  match vtx with
  | [] => False
  | cb :: _ =>
      exists r wr s, nth_error (tx_wit cb) 0 = Some [r] /\ length r = 32%nat /\
        spec_witness_root H (map wtxid vtx) = Some wr /\
        commitment_output cb = Some s /\ firstn 32 (skipn 6 s) = H (wr ++ r)
  end.
Definition witness_commitment_okb (vtx : list tx) : bool :=
  match vtx with
  | [] => false
  | cb :: _ =>
      match nth_error (tx_wit cb) 0, spec_witness_root H (map wtxid vtx), commitment_output cb with
      | Some [r], Some wr, Some s => (length r =? 32)%nat && bytes_eqb (firstn 32 (skipn 6 s)) (H (wr ++ r))
      | _, _, _ => false
      end
  end.

(* now = the current time; check_pow / check_merkle = the two switches of CheckBlock
   (the property's predicate is the one with both on) *)
Definition valid_block (now : Z) (check_pow check_merkle : bool) (b : block) : Prop :=
  let h := b_hdr b in
  let vtx := b_vtx b in
  (check_pow = true -> pow_ok (cp_pow_limit cp) (H (wire_header h)) (h_bits h)) /\
  h_time h <= now + 7200 /\
  vtx <> [] /\
  lenZ (wire_block_stripped b) <= 1000000 /\
  3 * lenZ (wire_block_stripped b) + lenZ (wire_block b) <= 4000000 /\
  (exists cb rest, vtx = cb :: rest /\ coinbase cb /\ Forall (fun t => ~ coinbase t) rest) /\
  Forall (valid_tx cp) vtx /\
  NoDup (map txid vtx) /\
  zsum (map tx_sigops vtx) <= 20000 /\
  (check_merkle = true ->
     spec_root H (map txid vtx) = Some (h_merkle h) /\
     (existsb has_witness vtx = true -> witness_commitment_ok vtx)).

Definition valid_blockb (now : Z) (check_pow check_merkle : bool) (b : block) : bool :=
  let h := b_hdr b in
  let vtx := b_vtx b in
  let txids := map txid vtx in      (* computed once by the extracted oracle *)
  (if check_pow then pow_okb (cp_pow_limit cp) (H (wire_header h)) (h_bits h) else true) &&
  (h_time h <=? now + 7200) &&
  negb (is_nil vtx) &&
  (lenZ (wire_block_stripped b) <=? 1000000) &&
  (3 * lenZ (wire_block_stripped b) + lenZ (wire_block b) <=? 4000000) &&
  (match vtx with cb :: rest => coinbaseb cb && forallb (fun t => negb (coinbaseb t)) rest | [] => false end) &&
  forallb (valid_txb cp) vtx &&
  nodupb bytes_eqb txids &&
  (zsum (map tx_sigops vtx) <=? 20000) &&
  (if check_merkle then
     option_bytes_eqb (spec_root H txids) (Some (h_merkle h)) &&
     (if existsb has_witness vtx then witness_commitment_okb vtx else true)
   else true).
End BlockSpec.

(* ---------- the Prop and the boolean forms agree ---------- *)
Lemma null_outpointb_iff o : null_outpointb o = true <-> null_outpoint o.
Proof.
  unfold null_outpointb, null_outpoint. rewrite andb_true_iff, bytes_eqb_eq, Z.eqb_eq. tauto.
Qed.
Lemma coinbaseb_iff t : coinbaseb t = true <-> coinbase t.
Proof.
  unfold coinbaseb, coinbase. destruct (tx_vin t) as [|x [|y r]].
  - split; [discriminate | intros [x [E _]]; discriminate].
  - rewrite null_outpointb_iff. split.
    + intros N. exists x. split; [reflexivity | exact N].
    + intros [x' [E N]]. injection E as ->. exact N.
  - split; [discriminate | intros [x' [E _]]; discriminate].
Qed.
Lemma coinbaseb_false_iff t : coinbaseb t = false <-> ~ coinbase t.
Proof. rewrite <- coinbaseb_iff. destruct (coinbaseb t); split; congruence. Qed.
Lemma outpoint_eqb_iff a b : outpoint_eqb a b = true <-> a = b.
Proof.
  unfold outpoint_eqb. rewrite andb_true_iff, bytes_eqb_eq, Z.eqb_eq. destruct a as [h n], b as [h' n']. simpl.
  split; [intros [-> ->]; reflexivity | intros E; injection E; auto].
Qed.
Lemma nodupb_iff {A} (eqb : A -> A -> bool) : (forall a b, eqb a b = true <-> a = b) ->
  forall l, nodupb eqb l = true <-> NoDup l.
Proof.
  intros E. induction l as [|a r IH]; cbn [nodupb].
  - split; [constructor | reflexivity].
  - rewrite andb_true_iff, negb_true_iff, IH. split.
    + intros [N D]. constructor; [|exact D]. intros I.
      assert (X : existsb (eqb a) r = true) by (apply existsb_exists; exists a; split; [exact I | now apply E]).
      congruence.
    + intros D. inversion D as [|? ? N D']; subst. split; [|exact D'].
      destruct (existsb (eqb a) r) eqn:X; [|reflexivity]. apply existsb_exists in X as [y [I Y]].
      apply E in Y. subst. contradiction.
Qed.
Lemma forallb_Forall {A} (f : A -> bool) (P : A -> Prop) : (forall a, f a = true <-> P a) ->
  forall l, forallb f l = true <-> Forall P l.
Proof.
  intros E. induction l as [|a r IH]; cbn [forallb].
  - split; [constructor | reflexivity].
  - rewrite andb_true_iff, IH, E. split; [intros [? ?]; now constructor | intros F; inversion F; auto].
Qed.
Lemma is_nil_false_iff {A} (l : list A) : negb (is_nil l) = true <-> l <> [].
Proof. destruct l; cbn; split; congruence. Qed.

Lemma in_moneyb_iff cp v : in_moneyb cp v = true <-> in_money cp v.
Proof. unfold in_moneyb, in_money. rewrite andb_true_iff, !Z.leb_le. tauto. Qed.

Theorem valid_txb_iff cp t : valid_txb cp t = true <-> valid_tx cp t.
Proof.
  unfold valid_txb, valid_tx.
  rewrite !andb_true_iff, !is_nil_false_iff, Z.leb_le,
    !(forallb_Forall _ _ (in_moneyb_iff cp)), (nodupb_iff _ outpoint_eqb_iff).
  destruct (coinbaseb t) eqn:C.
  - apply coinbaseb_iff in C.
    rewrite (forallb_Forall _ (fun x => 2 <= lenZ (ti_script x) <= 100))
      by (intros a; rewrite andb_true_iff, !Z.leb_le; tauto).
    rewrite (Forall_forall (fun x => 2 <= lenZ (ti_script x) <= 100)). tauto.
  - apply coinbaseb_false_iff in C.
    rewrite (forallb_Forall _ (fun x => ~ null_outpoint (ti_prevout x)))
      by (intros a; rewrite negb_true_iff, <- null_outpointb_iff; destruct (null_outpointb _); split; congruence).
    tauto.
Qed.

Lemma option_bytes_eqb_iff a b : option_bytes_eqb a b = true <-> a = b.
Proof.
  destruct a, b; cbn; try (split; congruence). rewrite bytes_eqb_eq. split; congruence.
Qed.

Section BlockSpecProofs.
Variable H : bytes -> bytes.
Variable cp : chain_params.

Lemma witness_commitment_okb_iff vtx : witness_commitment_okb H vtx = true <-> witness_commitment_ok H vtx.
Proof.
  unfold witness_commitment_okb, witness_commitment_ok. destruct vtx as [|cb rest]; [split; [discriminate | tauto]|].
  destruct (nth_error (tx_wit cb) 0) as [[|r [|r2 st]]|] eqn:N;
    try (split; [discriminate | intros (r' & wr & s & E & _); discriminate]).
  destruct (spec_witness_root H (map (wtxid H) (cb :: rest))) as [wr|] eqn:W;
    [|split; [discriminate | intros (r' & wr & s & _ & _ & E & _); discriminate]].
  destruct (commitment_output cb) as [s|] eqn:Cm;
    [|split; [discriminate | intros (r' & wr' & s & _ & _ & _ & E & _); discriminate]].
  rewrite andb_true_iff, Nat.eqb_eq, bytes_eqb_eq. split.
  - intros [L E]. exists r, wr, s. auto.
  - intros (r' & wr' & s' & E1 & L & E2 & E3 & E4). injection E1 as <-. injection E2 as <-. injection E3 as <-. auto.
Qed.

Theorem valid_blockb_iff now fp fm b : valid_blockb H cp now fp fm b = true <-> valid_block H cp now fp fm b.
Proof.
  unfold valid_blockb, valid_block. cbv zeta.
  rewrite !andb_true_iff, !Z.leb_le, is_nil_false_iff,
    (forallb_Forall _ _ (valid_txb_iff cp)), (nodupb_iff _ bytes_eqb_eq).
  assert (P : (if fp then pow_okb (cp_pow_limit cp) (H (wire_header (b_hdr b))) (h_bits (b_hdr b)) else true) = true
              <-> (fp = true -> pow_ok (cp_pow_limit cp) (H (wire_header (b_hdr b))) (h_bits (b_hdr b)))).
  { destruct fp; [rewrite pow_okb_iff; tauto | split; [discriminate | reflexivity]]. }
  assert (C : match b_vtx b with cb :: rest => coinbaseb cb && forallb (fun t => negb (coinbaseb t)) rest | [] => false end = true
              <-> exists cb rest, b_vtx b = cb :: rest /\ coinbase cb /\ Forall (fun t => ~ coinbase t) rest).
  { destruct (b_vtx b) as [|cb rest]; [split; [discriminate | intros (? & ? & E & _); discriminate]|].
    rewrite andb_true_iff, coinbaseb_iff,
      (forallb_Forall _ (fun t => ~ coinbase t)) by (intros a; rewrite negb_true_iff; apply coinbaseb_false_iff).
    split; [intros [? ?]; exists cb, rest; auto | intros (cb' & rest' & E & ? & ?); injection E as <- <-; auto]. }
  assert (M : (if fm then option_bytes_eqb (spec_root H (map (txid H) (b_vtx b))) (Some (h_merkle (b_hdr b))) &&
                 (if existsb has_witness (b_vtx b) then witness_commitment_okb H (b_vtx b) else true) else true) = true
              <-> (fm = true -> spec_root H (map (txid H) (b_vtx b)) = Some (h_merkle (b_hdr b)) /\
                    (existsb has_witness (b_vtx b) = true -> witness_commitment_ok H (b_vtx b)))).
  { destruct fm; [|split; [discriminate | reflexivity]].
    rewrite andb_true_iff, option_bytes_eqb_iff.
    destruct (existsb has_witness (b_vtx b)); [rewrite witness_commitment_okb_iff; tauto|].
    split; [intros [? _] _; split; [assumption | discriminate] | intros X; split; [apply X; reflexivity | reflexivity]]. }
  rewrite P, C, M. tauto.
Qed.
End BlockSpecProofs.

(* the running totals are the sums of the non-empty prefixes *)
Lemma running_totals_nth : forall l acc k s, nth_error (running_totals acc l) k = Some s ->
  s = acc + zsum (firstn (S k) l).
Proof.
  induction l as [|v r IH]; intros acc k s E; [destruct k; discriminate|].
  destruct k as [|k]; cbn [running_totals nth_error] in E.
  - injection E as <-. cbn [firstn zsum fold_right]. lia.
  - apply IH in E. cbn [firstn zsum fold_right] in *. lia.
Qed.
