(* Spec/Wire.v – the Bitcoin wire format (protocol documentation, BIP144) as concatenation
   formulas; see DESIGN.md Appendix B.  Reference style: no decoders, no state. *)
From BV Require Import Common.Base Common.Tx.

Definition u (n : nat) (v : Z) : bytes := le_enc n v.                         (* unsigned LE *)
Definition i (n : nat) (v : Z) : bytes := le_enc n (v mod 256 ^ Z.of_nat n).  (* two's complement LE *)
(* CompactSize *)
Definition cs (n : Z) : bytes :=
  if n <? 253 then u 1 n
  else if n <=? 0xffff then xfd :: u 2 n
  else if n <=? 0xffffffff then xfe :: u 4 n
  else xff :: u 8 n.
Definition vb (x : bytes) : bytes := cs (lenZ x) ++ x.
Definition vec {A} (f : A -> bytes) (l : list A) : bytes := cs (lenZ l) ++ concat (map f l).

Definition wire_outpoint (o : outpoint) : bytes := op_hash o ++ u 4 (op_n o).
Definition wire_txin (x : txin) : bytes := wire_outpoint (ti_prevout x) ++ vb (ti_script x) ++ u 4 (ti_seq x).
Definition wire_txout (o : txout) : bytes := i 8 (to_value o) ++ vb (to_script o).
Definition wire_stack (s : list bytes) : bytes := vec vb s.

Definition wire_tx_stripped (t : tx) : bytes :=
  i 4 (tx_version t) ++ vec wire_txin (tx_vin t) ++ vec wire_txout (tx_vout t) ++ u 4 (tx_lock t).
(* BIP144: marker 00, flag 01 and one witness stack per input iff some stack is non-empty *)
Definition wire_tx (t : tx) : bytes :=
  if has_witness t then
    i 4 (tx_version t) ++ [x00; x01] ++ vec wire_txin (tx_vin t) ++ vec wire_txout (tx_vout t)
      ++ concat (map wire_stack (tx_wit t)) ++ u 4 (tx_lock t)
  else wire_tx_stripped t.

Definition wire_header (h : header) : bytes :=
  i 4 (h_version h) ++ h_prev h ++ h_merkle h ++ u 4 (h_time h) ++ u 4 (h_bits h) ++ u 4 (h_nonce h).
Definition wire_block (b : block) : bytes := wire_header (b_hdr b) ++ vec wire_tx (b_vtx b).
Definition wire_block_stripped (b : block) : bytes := wire_header (b_hdr b) ++ vec wire_tx_stripped (b_vtx b).

(* fields in wire range *)
Definition in_u (n : nat) (v : Z) : Prop := 0 <= v < 256 ^ Z.of_nat n.
Definition in_i (n : nat) (v : Z) : Prop := - (256 ^ Z.of_nat n / 2) <= v < 256 ^ Z.of_nat n / 2.
Section Ranges.
Variable max_size : Z.    (* serialize.MAX_SIZE: longest byte string ser_read accepts *)
Definition wf_bytes (x : bytes) : Prop := lenZ x <= max_size.
Definition wf_outpoint (o : outpoint) : Prop := length (op_hash o) = 32%nat /\ in_u 4 (op_n o).
Definition wf_txin (x : txin) : Prop := wf_outpoint (ti_prevout x) /\ wf_bytes (ti_script x) /\ in_u 4 (ti_seq x).
Definition wf_txout (o : txout) : Prop := in_i 8 (to_value o) /\ wf_bytes (to_script o).
Definition wf_stack (s : list bytes) : Prop := Forall wf_bytes s /\ lenZ s < 2^64.
Definition wf_tx (t : tx) : Prop :=
  in_i 4 (tx_version t) /\ tx_vin t <> [] /\ Forall wf_txin (tx_vin t) /\ Forall wf_txout (tx_vout t) /\
  in_u 4 (tx_lock t) /\ lenZ (tx_vin t) < 2^64 /\ lenZ (tx_vout t) < 2^64 /\
  Forall wf_stack (tx_wit t) /\ (tx_wit t = [] \/ length (tx_wit t) = length (tx_vin t)).
Definition wf_header (h : header) : Prop :=
  in_i 4 (h_version h) /\ length (h_prev h) = 32%nat /\ length (h_merkle h) = 32%nat /\
  in_u 4 (h_time h) /\ in_u 4 (h_bits h) /\ in_u 4 (h_nonce h).
Definition wf_block (b : block) : Prop :=
  wf_header (b_hdr b) /\ Forall wf_tx (b_vtx b) /\ lenZ (b_vtx b) < 2^64.
End Ranges.
