(* Spec/Rpc.v – what property C19 talks about, reference style:
   * JSON number spellings (RFC 8259 grammar) and the exact rational they denote;
     1 BTC = 10^8 satoshi;
   * Bitcoin Core's textual form of a hash (uint256::GetHex: hex of the bytes in reverse
     order, lower case) and plain hex;
   * "the class registered for the code of the error member";
   * the 10^-8 grid and nearest-neighbour facts used for amounts sent as binary64.
   Nothing here mentions how the client computes anything. *)
From BV Require Import Common.Base.
From Coq Require Import QArith Qabs Sorted.
Require Coq.Strings.String.
Import String.StringSyntax.
Delimit Scope string_scope with string.
Open Scope Z_scope.

Notation T s := (String.list_byte_of_string s%string) (only parsing).

(* ====================================================================================
   1. JSON numbers
   ==================================================================================== *)
(* number = [ minus ] int [ frac ] [ exp ]   (RFC 8259 section 6); digits are 0..9 *)
Record spelling := {
  sp_neg : bool;                                   (* leading '-' *)
  sp_int : list Z;                                 (* digits of the integer part *)
  sp_frac : option (list Z);                       (* digits after '.' *)
  sp_exp : option (bool * option bool * list Z)    (* 'E' instead of 'e'; explicit sign ('-' = true); digits *)
}.

Definition is_dig (d : Z) : bool := (0 <=? d) && (d <=? 9).
Definition wf_int (ds : list Z) : bool :=
  forallb is_dig ds &&
  match ds with [] => false | [_] => true | d :: _ => negb (d =? 0) end.
Definition wf_digits1 (ds : list Z) : bool := forallb is_dig ds && negb (match ds with [] => true | _ => false end).
Definition wf_spelling (s : spelling) : bool :=
  wf_int (sp_int s) &&
  match sp_frac s with Some f => wf_digits1 f | None => true end &&
  match sp_exp s with Some (_, _, ds) => wf_digits1 ds | None => true end.

(* the text on the wire *)
Definition dchar (d : Z) : byte := z2b (48 + d).
Definition spell (s : spelling) : bytes :=
  (if sp_neg s then T "-" else []) ++ map dchar (sp_int s) ++
  match sp_frac s with Some f => T "." ++ map dchar f | None => [] end ++
  match sp_exp s with
  | Some (up, sg, ds) =>
      (if up then T "E" else T "e") ++
      match sg with Some true => T "-" | Some false => T "+" | None => [] end ++ map dchar ds
  | None => []
  end.

(* the rational it denotes *)
Definition dval (ds : list Z) : Z := fold_left (fun a d => 10 * a + d) ds 0.
Definition pow10q (e : Z) : Q := if 0 <=? e then inject_Z (10 ^ e) else / inject_Z (10 ^ (- e)).
Definition exp_value (s : spelling) : Z :=
  match sp_exp s with
  | Some (_, Some true, ds) => - dval ds
  | Some (_, _, ds) => dval ds
  | None => 0
  end.
Definition mantissa_value (s : spelling) : Q :=
  inject_Z (dval (sp_int s)) +
  match sp_frac s with Some f => inject_Z (dval f) / inject_Z (10 ^ lenZ f) | None => 0 end.
Definition spell_value (s : spelling) : Q :=
  ((if sp_neg s then - (1) else 1) * mantissa_value s * pow10q (exp_value s))%Q.

(* amounts: a satoshis = a / 10^8 BTC *)
Definition SATOSHI_PER_COIN : Z := 100000000.
Definition MAX_MONEY : Z := 21000000 * SATOSHI_PER_COIN.
Definition btc_of_sat (a : Z) : Q := inject_Z a / inject_Z SATOSHI_PER_COIN.
Definition denotes_sat (s : spelling) (a : Z) : Prop := (spell_value s == btc_of_sat a)%Q.
(* executable: the satoshi amount a spelling denotes, if it is a whole number of satoshis *)
Definition spec_sat (s : spelling) : option Z :=
  let v := Qred (spell_value s * inject_Z SATOSHI_PER_COIN) in
  if (Zpos (Qden v) =? 1) then Some (Qnum v) else None.

(* a decimal c * 10^q *)
Definition dec_q (c q : Z) : Q := (inject_Z c * pow10q q)%Q.
(* multiples of 10^-8 *)
Definition on_grid8 (x : Q) : Prop := exists j : Z, (x == btc_of_sat j)%Q.

(* ====================================================================================
   2. hashes and hex
   ==================================================================================== *)
Definition hexchar (v : Z) : byte := nth (Z.to_nat v) (T "0123456789abcdef") x00.
Definition hex_of_byte (c : byte) : bytes := [hexchar (b2z c / 16); hexchar (b2z c mod 16)].
Definition hex_ref (b : bytes) : bytes := flat_map hex_of_byte b.
(* the form Bitcoin Core prints and accepts for txids and block hashes *)
Definition core_hash_text (b : bytes) : bytes := hex_ref (rev b).

Definition is_hexchar (c : byte) : bool :=
  let v := b2z c in
  ((48 <=? v) && (v <=? 57)) || ((97 <=? v) && (v <=? 102)) || ((65 <=? v) && (v <=? 70)).
Definition is_hex_text (t : bytes) : bool := Nat.even (length t) && forallb is_hexchar t.
Definition lower_char (c : byte) : byte :=
  let v := b2z c in if (65 <=? v) && (v <=? 90) then z2b (v + 32) else c.
Definition lower (t : bytes) : bytes := map lower_char t.

(* ====================================================================================
   3. error replies
   ==================================================================================== *)
(* JSON values with numbers given by their spelling *)
Inductive sjson :=
| SJNull | SJBool (b : bool) | SJNum (s : spelling) | SJStr (s : bytes)
| SJArr (l : list sjson) | SJObj (l : list (bytes * sjson)).

Definition member (k : bytes) (l : list (bytes * sjson)) : option sjson :=
  match find (fun kv => bytes_eqb k (fst kv)) l with Some (_, v) => Some v | None => None end.

Definition qeq_int (q : Q) (c : Z) : bool := Qeq_bool q (inject_Z c).
(* "the class registered for its code, or the base class": Some c / None.
   The outer option is None where the property says nothing (a code that is an array or an
   object). *)
Definition spec_error_class (table : list Z) (err : sjson) : option (option Z) :=
  match err with
  | SJObj ef =>
      match member (T "code") ef with
      | Some (SJNum s) => Some (find (qeq_int (spell_value s)) table)
      | Some (SJArr _) | Some (SJObj _) => None
      | Some _ | None => Some None
      end
  | _ => Some None
  end.

(* an error reply: an object whose error member is present and not null *)
Definition error_member (fields : list (bytes * sjson)) : option sjson :=
  match member (T "error") fields with
  | Some SJNull | None => None
  | Some e => Some e
  end.

(* ====================================================================================
   4. request ids
   ==================================================================================== *)
Definition strictly_increasing (l : list Z) : Prop := StronglySorted Z.lt l.
