(* Spec/Commit.v – what the legacy signature hash commits to (C05): the "committed view" of
   a transaction for input idx and hash type ht – the transaction the consensus serializer
   effectively signs.  Everything outside the view is uncommitted by construction; the
   view itself is determined by the preimage (Proofs/Commit.v). *)
From BV Require Import Common.Base Common.Tx Spec.Wire Spec.Sighash.

Definition view_in (code' : bytes) (idx : nat) (ht : Z) (k : nat) (x : txin) : txin :=
  {| ti_prevout := ti_prevout x;
     ti_script := if (k =? idx)%nat then code' else [];
     ti_seq := if (k =? idx)%nat || negb (sh_none ht || sh_single ht) then ti_seq x else 0 |}.
Definition view_out (idx : nat) (ht : Z) (j : nat) (o : txout) : txout :=
  if sh_single ht && negb (j =? idx)%nat then {| to_value := -1; to_script := [] |} else o.
Definition sighash_view (code : bytes) (t : tx) (idx : nat) (x : txin) (ht : Z) : tx :=
  let code' := strip_codesep code in
  {| tx_version := tx_version t;
     tx_vin := if sh_anyone ht then [view_in code' idx ht idx x] else mapi (view_in code' idx ht) 0 (tx_vin t);
     tx_vout := if sh_none ht then []
                else if sh_single ht then mapi (view_out idx ht) 0 (firstn (S idx) (tx_vout t))
                else tx_vout t;
     tx_wit := [];
     tx_lock := tx_lock t |}.
