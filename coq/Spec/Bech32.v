(* Spec/Bech32.v – BIP173 (Bech32 and segwit addresses), reference style.

   * the 32 data characters and the separator '1';
   * the checksum as BIP173 defines it mathematically: symbols are elements of
     GF(32) = GF(2)[a]/(a^5 + a^3 + 1); a string is valid when the polynomial whose
     coefficients are  1, hrp-expansion, data  leaves remainder 1 modulo
       g(x) = x^6 + {29}x^5 + {22}x^4 + {20}x^3 + {21}x^2 + {29}x + {18};
   * the 8 -> 5 bit regrouping on bit strings (most significant bit first);
   * the validity predicate [bip173_segwit hrp s ver prog] listing every BIP173 rule, the
     canonical encoder [spec_address], and an executable reference decoder [ref_decode]
     (proved equivalent to the predicate in Proofs/Bech32Ref.v) used as the oracle of the
     correspondence run.
   Text is a list of code points; case mapping is ASCII (BIP173 strings are ASCII). *)
From BV Require Import Common.Base.

(* ---------- characters ---------- *)
(* "qpzry9x8gf2tvdw0s3jn54khce6mua7l" *)
Definition CHARSET : list Z :=
  [113;112;122;114;121;57;120;56;103;102;50;116;118;100;119;48;
   115;51;106;110;53;52;107;104;99;101;54;109;117;97;55;108].
Definition SEP : Z := 49.                                        (* '1' *)
Definition char_of (v : Z) : Z := nth (Z.to_nat v) CHARSET 0.
Fixpoint index_of (c : Z) (l : list Z) (i : Z) : option Z :=
  match l with
  | [] => None
  | x :: t => if x =? c then Some i else index_of c t (i + 1)
  end.
Definition value_of (c : Z) : option Z := index_of c CHARSET 0.
Fixpoint values_of (cs : list Z) : option (list Z) :=
  match cs with
  | [] => Some []
  | c :: t => match value_of c, values_of t with
              | Some v, Some r => Some (v :: r)
              | _, _ => None
              end
  end.

Definition printable (c : Z) : Prop := 33 <= c <= 126.
Definition to_lower (c : Z) : Z := if (65 <=? c) && (c <=? 90) then c + 32 else c.
Definition to_upper (c : Z) : Z := if (97 <=? c) && (c <=? 122) then c - 32 else c.
Definition lower_s (s : list Z) : list Z := map to_lower s.
Definition upper_s (s : list Z) : list Z := map to_upper s.
Definition single_case (s : list Z) : Prop := lower_s s = s \/ upper_s s = s.

Definition is5 (v : Z) : Prop := 0 <= v < 32.
Definition is8 (v : Z) : Prop := 0 <= v < 256.

(* ---------- GF(32) and the generator polynomial ---------- *)
Definition gf_xtime (a : Z) : Z := let b := 2 * a in if b <? 32 then b else Z.lxor b 41.
(* a * b = sum over the bits i of b of  a * alpha^i ; addition is xor *)
Definition gf_mul (a b : Z) : Z :=
  fst (fold_left (fun (st : Z * Z) (i : Z) =>
                    let '(acc, p) := st in
                    (if Z.testbit b i then Z.lxor acc p else acc, gf_xtime p))
                 [0; 1; 2; 3; 4] (0, a)).
Definition GENPOLY : list Z := [29; 22; 20; 21; 29; 18].        (* below the leading x^6 *)

Fixpoint map2 {A B C} (f : A -> B -> C) (l1 : list A) (l2 : list B) : list C :=
  match l1, l2 with
  | a :: t1, b :: t2 => f a b :: map2 f t1 t2
  | _, _ => []
  end.

(* r(x) * x + v  modulo g(x); r by its six coefficients, highest degree first *)
Definition poly_step (r : list Z) (v : Z) : list Z :=
  match r with
  | [] => []
  | c :: rest => map2 Z.lxor (rest ++ [v]) (map (gf_mul c) GENPOLY)
  end.
Definition poly_rem (coeffs : list Z) : list Z := fold_left poly_step coeffs [0; 0; 0; 0; 0; 0].
Definition ONE : list Z := [0; 0; 0; 0; 0; 1].

Definition hrp_expand (hrp : list Z) : list Z :=
  map (fun c => c / 32) hrp ++ [0] ++ map (fun c => c mod 32) hrp.
Definition checksum_ok (hrp vals : list Z) : Prop := poly_rem (1 :: hrp_expand hrp ++ vals) = ONE.
(* the six symbols to append: remainder of (1, hrp-expansion, data) * x^6, plus 1 *)
Definition spec_checksum (hrp data : list Z) : list Z :=
  map2 Z.lxor (poly_rem (1 :: hrp_expand hrp ++ data ++ [0; 0; 0; 0; 0; 0])) ONE.

(* ---------- bit strings, most significant bit first ---------- *)
Fixpoint bits_be (w : nat) (v : Z) : list bool :=
  match w with O => [] | S k => Z.testbit v (Z.of_nat k) :: bits_be k v end.
Definition of_bits (l : list bool) : Z := fold_left (fun acc (b : bool) => 2 * acc + (if b then 1 else 0)) l 0.
Definition bitstring (w : nat) (vs : list Z) : list bool := concat (map (bits_be w) vs).
(* the first n groups of w bits *)
Fixpoint chunks (w n : nat) (l : list bool) : list (list bool) :=
  match n with O => [] | S k => firstn w l :: chunks w k (skipn w l) end.

(* f-bit groups -> t-bit groups, zero bits appended to fill the last group *)
Definition regroup_pad (f t : nat) (vs : list Z) : list Z :=
  let bits := bitstring f vs in
  let n := ((length bits + t - 1) / t)%nat in
  map of_bits (chunks t n (bits ++ repeat false (n * t - length bits))).
(* f-bit groups -> t-bit groups, the left-over bits must be fewer than f and all zero *)
Definition regroup_strict (f t : nat) (vs : list Z) : option (list Z) :=
  let bits := bitstring f vs in
  let n := (length bits / t)%nat in
  let pad := skipn (n * t) bits in
  if (length pad <? f)%nat && forallb negb pad then Some (map of_bits (chunks t n bits)) else None.

(* ---------- validity ---------- *)
(* s is a Bech32 string with human-readable part hrp and data values vals (checksum
   included).  The separator is the last '1' of s because no data character is '1'. *)
Definition bech32_valid (s hrp vals : list Z) : Prop :=
  Forall printable s /\ single_case s /\ (length s <= 90)%nat /\
  hrp <> [] /\ lower_s s = hrp ++ SEP :: map char_of vals /\
  Forall is5 vals /\ (6 <= length vals)%nat /\ checksum_ok hrp vals.

(* s is the segwit address of witness version ver and program prog under the expected
   prefix hrp (given in lower case, as the chain parameters are) *)
Definition bip173_segwit (hrp s : list Z) (ver : Z) (prog : list Z) : Prop :=
  exists (body chk : list Z) (pad : list bool),
    bech32_valid s hrp (ver :: body ++ chk) /\ length chk = 6%nat /\
    bitstring 5 body = bitstring 8 prog ++ pad /\
    (length pad < 5)%nat /\ Forall (fun b => b = false) pad /\
    Forall is8 prog /\ (2 <= length prog <= 40)%nat /\
    0 <= ver <= 16 /\ (ver = 0 -> length prog = 20%nat \/ length prog = 32%nat).

(* the canonical (lower-case) address *)
Definition spec_bech32 (hrp data : list Z) : list Z :=
  hrp ++ SEP :: map char_of (data ++ spec_checksum hrp data).
Definition spec_address (hrp : list Z) (ver : Z) (prog : list Z) : list Z :=
  spec_bech32 hrp (ver :: regroup_pad 8 5 prog).
Definition valid_hrp (hrp : list Z) : Prop := hrp <> [] /\ Forall printable hrp /\ lower_s hrp = hrp.
Definition encodable (hrp : list Z) (ver : Z) (prog : list Z) : Prop :=
  valid_hrp hrp /\ Forall is8 prog /\ (2 <= length prog <= 40)%nat /\ 0 <= ver <= 16 /\
  (ver = 0 -> length prog = 20%nat \/ length prog = 32%nat) /\
  (length (spec_address hrp ver prog) <= 90)%nat.

(* number of positions at which two strings of the same length differ *)
Fixpoint hamming (a b : list Z) : nat :=
  match a, b with
  | x :: a', y :: b' => (if x =? y then 0 else 1) + hamming a' b'
  | _, _ => 0
  end.

(* ---------- executable reference decoder (oracle) ---------- *)
Fixpoint zeqb_list (a b : list Z) : bool :=
  match a, b with
  | [], [] => true
  | x :: a', y :: b' => (x =? y) && zeqb_list a' b'
  | _, _ => false
  end.
(* split at the last occurrence of c *)
Fixpoint split_last (c : Z) (l : list Z) : option (list Z * list Z) :=
  match l with
  | [] => None
  | x :: t => match split_last c t with
              | Some (a, b) => Some (x :: a, b)
              | None => if x =? c then Some ([], t) else None
              end
  end.
Definition printableb (c : Z) : bool := (33 <=? c) && (c <=? 126).
Definition single_caseb (s : list Z) : bool := zeqb_list (lower_s s) s || zeqb_list (upper_s s) s.
Definition checksum_okb (hrp vals : list Z) : bool := zeqb_list (poly_rem (1 :: hrp_expand hrp ++ vals)) ONE.

Definition ref_bech32_decode (s : list Z) : option (list Z * list Z) :=
  if forallb printableb s && single_caseb s && (length s <=? 90)%nat then
    match split_last SEP (lower_s s) with
    | Some (hrp, rest) =>
        match hrp, values_of rest with
        | _ :: _, Some vals =>
            if (6 <=? length vals)%nat && checksum_okb hrp vals then Some (hrp, vals) else None
        | _, _ => None
        end
    | None => None
    end
  else None.

Definition ref_decode (hrp s : list Z) : option (Z * list Z) :=
  match ref_bech32_decode s with
  | Some (h, vals) =>
      if zeqb_list h hrp then
        match firstn (length vals - 6) vals with
        | [] => None
        | ver :: body =>
            match regroup_strict 5 8 body with
            | Some prog =>
                let n := length prog in
                if (2 <=? n)%nat && (n <=? 40)%nat && (ver <=? 16) &&
                   (if ver =? 0 then (n =? 20)%nat || (n =? 32)%nat else true)
                then Some (ver, prog) else None
            | None => None
            end
        end
      else None
  | None => None
  end.

(* the encoder as a total function: None where BIP173 defines no address *)
Definition encodableb (hrp : list Z) (ver : Z) (prog : list Z) : bool :=
  negb (match hrp with [] => true | _ => false end) && forallb printableb hrp && zeqb_list (lower_s hrp) hrp &&
  forallb (fun v => (0 <=? v) && (v <? 256)) prog &&
  (2 <=? length prog)%nat && (length prog <=? 40)%nat && (0 <=? ver) && (ver <=? 16) &&
  (if ver =? 0 then (length prog =? 20)%nat || (length prog =? 32)%nat else true) &&
  (length (spec_address hrp ver prog) <=? 90)%nat.
Definition ref_encode (hrp : list Z) (ver : Z) (prog : list Z) : option (list Z) :=
  if encodableb hrp ver prog then Some (spec_address hrp ver prog) else None.

(* the six remainder coefficients as one 30-bit number (what the code calls polymod) *)
Definition pack (cs : list Z) : Z := fold_left (fun acc c => 32 * acc + c) cs 0.
