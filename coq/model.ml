
(** val negb : bool -> bool **)

let negb = function
| true -> false
| false -> true

type nat =
| O
| S of nat

(** val length : 'a1 list -> nat **)

let rec length = function
| [] -> O
| _ :: l' -> S (length l')

type comparison =
| Eq
| Lt
| Gt

module Coq__1 = struct
 (** val add : nat -> nat -> nat **)
 let rec add n0 m =
   match n0 with
   | O -> m
   | S p -> S (add p m)
end
include Coq__1

type byte =
| X00
| X01
| X02
| X03
| X04
| X05
| X06
| X07
| X08
| X09
| X0a
| X0b
| X0c
| X0d
| X0e
| X0f
| X10
| X11
| X12
| X13
| X14
| X15
| X16
| X17
| X18
| X19
| X1a
| X1b
| X1c
| X1d
| X1e
| X1f
| X20
| X21
| X22
| X23
| X24
| X25
| X26
| X27
| X28
| X29
| X2a
| X2b
| X2c
| X2d
| X2e
| X2f
| X30
| X31
| X32
| X33
| X34
| X35
| X36
| X37
| X38
| X39
| X3a
| X3b
| X3c
| X3d
| X3e
| X3f
| X40
| X41
| X42
| X43
| X44
| X45
| X46
| X47
| X48
| X49
| X4a
| X4b
| X4c
| X4d
| X4e
| X4f
| X50
| X51
| X52
| X53
| X54
| X55
| X56
| X57
| X58
| X59
| X5a
| X5b
| X5c
| X5d
| X5e
| X5f
| X60
| X61
| X62
| X63
| X64
| X65
| X66
| X67
| X68
| X69
| X6a
| X6b
| X6c
| X6d
| X6e
| X6f
| X70
| X71
| X72
| X73
| X74
| X75
| X76
| X77
| X78
| X79
| X7a
| X7b
| X7c
| X7d
| X7e
| X7f
| X80
| X81
| X82
| X83
| X84
| X85
| X86
| X87
| X88
| X89
| X8a
| X8b
| X8c
| X8d
| X8e
| X8f
| X90
| X91
| X92
| X93
| X94
| X95
| X96
| X97
| X98
| X99
| X9a
| X9b
| X9c
| X9d
| X9e
| X9f
| Xa0
| Xa1
| Xa2
| Xa3
| Xa4
| Xa5
| Xa6
| Xa7
| Xa8
| Xa9
| Xaa
| Xab
| Xac
| Xad
| Xae
| Xaf
| Xb0
| Xb1
| Xb2
| Xb3
| Xb4
| Xb5
| Xb6
| Xb7
| Xb8
| Xb9
| Xba
| Xbb
| Xbc
| Xbd
| Xbe
| Xbf
| Xc0
| Xc1
| Xc2
| Xc3
| Xc4
| Xc5
| Xc6
| Xc7
| Xc8
| Xc9
| Xca
| Xcb
| Xcc
| Xcd
| Xce
| Xcf
| Xd0
| Xd1
| Xd2
| Xd3
| Xd4
| Xd5
| Xd6
| Xd7
| Xd8
| Xd9
| Xda
| Xdb
| Xdc
| Xdd
| Xde
| Xdf
| Xe0
| Xe1
| Xe2
| Xe3
| Xe4
| Xe5
| Xe6
| Xe7
| Xe8
| Xe9
| Xea
| Xeb
| Xec
| Xed
| Xee
| Xef
| Xf0
| Xf1
| Xf2
| Xf3
| Xf4
| Xf5
| Xf6
| Xf7
| Xf8
| Xf9
| Xfa
| Xfb
| Xfc
| Xfd
| Xfe
| Xff

module Nat =
 struct
  (** val eqb : nat -> nat -> bool **)

  let rec eqb n0 m =
    match n0 with
    | O -> (match m with
            | O -> true
            | S _ -> false)
    | S n' -> (match m with
               | O -> false
               | S m' -> eqb n' m')
 end

module Pos =
 struct
  (** val succ : Big_int_Z.big_int -> Big_int_Z.big_int **)

  let rec succ = Big_int_Z.succ_big_int

  (** val add :
      Big_int_Z.big_int -> Big_int_Z.big_int -> Big_int_Z.big_int **)

  let rec add = Big_int_Z.add_big_int

  (** val add_carry :
      Big_int_Z.big_int -> Big_int_Z.big_int -> Big_int_Z.big_int **)

  and add_carry x y =
    (fun f2p1 f2p f1 p ->
  if Big_int_Z.le_big_int p Big_int_Z.unit_big_int then f1 () else
  let (q,r) = Big_int_Z.quomod_big_int p (Big_int_Z.big_int_of_int 2) in
  if Big_int_Z.eq_big_int r Big_int_Z.zero_big_int then f2p q else f2p1 q)
      (fun p ->
      (fun f2p1 f2p f1 p ->
  if Big_int_Z.le_big_int p Big_int_Z.unit_big_int then f1 () else
  let (q,r) = Big_int_Z.quomod_big_int p (Big_int_Z.big_int_of_int 2) in
  if Big_int_Z.eq_big_int r Big_int_Z.zero_big_int then f2p q else f2p1 q)
        (fun q ->
        (fun x -> Big_int_Z.succ_big_int (Big_int_Z.mult_int_big_int 2 x))
        (add_carry p q))
        (fun q -> Big_int_Z.mult_int_big_int 2 (add_carry p q))
        (fun _ ->
        (fun x -> Big_int_Z.succ_big_int (Big_int_Z.mult_int_big_int 2 x))
        (succ p))
        y)
      (fun p ->
      (fun f2p1 f2p f1 p ->
  if Big_int_Z.le_big_int p Big_int_Z.unit_big_int then f1 () else
  let (q,r) = Big_int_Z.quomod_big_int p (Big_int_Z.big_int_of_int 2) in
  if Big_int_Z.eq_big_int r Big_int_Z.zero_big_int then f2p q else f2p1 q)
        (fun q -> Big_int_Z.mult_int_big_int 2 (add_carry p q))
        (fun q ->
        (fun x -> Big_int_Z.succ_big_int (Big_int_Z.mult_int_big_int 2 x))
        (add p q))
        (fun _ -> Big_int_Z.mult_int_big_int 2 (succ p))
        y)
      (fun _ ->
      (fun f2p1 f2p f1 p ->
  if Big_int_Z.le_big_int p Big_int_Z.unit_big_int then f1 () else
  let (q,r) = Big_int_Z.quomod_big_int p (Big_int_Z.big_int_of_int 2) in
  if Big_int_Z.eq_big_int r Big_int_Z.zero_big_int then f2p q else f2p1 q)
        (fun q ->
        (fun x -> Big_int_Z.succ_big_int (Big_int_Z.mult_int_big_int 2 x))
        (succ q))
        (fun q -> Big_int_Z.mult_int_big_int 2 (succ q))
        (fun _ ->
        (fun x -> Big_int_Z.succ_big_int (Big_int_Z.mult_int_big_int 2 x))
        Big_int_Z.unit_big_int)
        y)
      x

  (** val pred_double : Big_int_Z.big_int -> Big_int_Z.big_int **)

  let rec pred_double x =
    (fun f2p1 f2p f1 p ->
  if Big_int_Z.le_big_int p Big_int_Z.unit_big_int then f1 () else
  let (q,r) = Big_int_Z.quomod_big_int p (Big_int_Z.big_int_of_int 2) in
  if Big_int_Z.eq_big_int r Big_int_Z.zero_big_int then f2p q else f2p1 q)
      (fun p ->
      (fun x -> Big_int_Z.succ_big_int (Big_int_Z.mult_int_big_int 2 x))
      (Big_int_Z.mult_int_big_int 2 p))
      (fun p ->
      (fun x -> Big_int_Z.succ_big_int (Big_int_Z.mult_int_big_int 2 x))
      (pred_double p))
      (fun _ -> Big_int_Z.unit_big_int)
      x

  (** val pred_N : Big_int_Z.big_int -> Big_int_Z.big_int **)

  let pred_N x =
    (fun f2p1 f2p f1 p ->
  if Big_int_Z.le_big_int p Big_int_Z.unit_big_int then f1 () else
  let (q,r) = Big_int_Z.quomod_big_int p (Big_int_Z.big_int_of_int 2) in
  if Big_int_Z.eq_big_int r Big_int_Z.zero_big_int then f2p q else f2p1 q)
      (fun p -> (Big_int_Z.mult_int_big_int 2 p))
      (fun p -> (pred_double p))
      (fun _ -> Big_int_Z.zero_big_int)
      x

  (** val mul :
      Big_int_Z.big_int -> Big_int_Z.big_int -> Big_int_Z.big_int **)

  let rec mul = Big_int_Z.mult_big_int

  (** val iter : ('a1 -> 'a1) -> 'a1 -> Big_int_Z.big_int -> 'a1 **)

  let rec iter f x n0 =
    (fun f2p1 f2p f1 p ->
  if Big_int_Z.le_big_int p Big_int_Z.unit_big_int then f1 () else
  let (q,r) = Big_int_Z.quomod_big_int p (Big_int_Z.big_int_of_int 2) in
  if Big_int_Z.eq_big_int r Big_int_Z.zero_big_int then f2p q else f2p1 q)
      (fun n' -> f (iter f (iter f x n') n'))
      (fun n' -> iter f (iter f x n') n')
      (fun _ -> f x)
      n0

  (** val div2 : Big_int_Z.big_int -> Big_int_Z.big_int **)

  let div2 p =
    (fun f2p1 f2p f1 p ->
  if Big_int_Z.le_big_int p Big_int_Z.unit_big_int then f1 () else
  let (q,r) = Big_int_Z.quomod_big_int p (Big_int_Z.big_int_of_int 2) in
  if Big_int_Z.eq_big_int r Big_int_Z.zero_big_int then f2p q else f2p1 q)
      (fun p0 -> p0)
      (fun p0 -> p0)
      (fun _ -> Big_int_Z.unit_big_int)
      p

  (** val div2_up : Big_int_Z.big_int -> Big_int_Z.big_int **)

  let div2_up p =
    (fun f2p1 f2p f1 p ->
  if Big_int_Z.le_big_int p Big_int_Z.unit_big_int then f1 () else
  let (q,r) = Big_int_Z.quomod_big_int p (Big_int_Z.big_int_of_int 2) in
  if Big_int_Z.eq_big_int r Big_int_Z.zero_big_int then f2p q else f2p1 q)
      (fun p0 -> succ p0)
      (fun p0 -> p0)
      (fun _ -> Big_int_Z.unit_big_int)
      p

  (** val size : Big_int_Z.big_int -> Big_int_Z.big_int **)

  let rec size p =
    (fun f2p1 f2p f1 p ->
  if Big_int_Z.le_big_int p Big_int_Z.unit_big_int then f1 () else
  let (q,r) = Big_int_Z.quomod_big_int p (Big_int_Z.big_int_of_int 2) in
  if Big_int_Z.eq_big_int r Big_int_Z.zero_big_int then f2p q else f2p1 q)
      (fun p0 -> succ (size p0))
      (fun p0 -> succ (size p0))
      (fun _ -> Big_int_Z.unit_big_int)
      p

  (** val compare_cont :
      comparison -> Big_int_Z.big_int -> Big_int_Z.big_int -> comparison **)

  let rec compare_cont = (fun c x y -> let s = Big_int_Z.compare_big_int x y in
  if s = 0 then c else if s < 0 then Lt else Gt)

  (** val compare : Big_int_Z.big_int -> Big_int_Z.big_int -> comparison **)

  let compare = (fun x y -> let s = Big_int_Z.compare_big_int x y in
  if s = 0 then Eq else if s < 0 then Lt else Gt)

  (** val eqb : Big_int_Z.big_int -> Big_int_Z.big_int -> bool **)

  let rec eqb p q =
    (fun f2p1 f2p f1 p ->
  if Big_int_Z.le_big_int p Big_int_Z.unit_big_int then f1 () else
  let (q,r) = Big_int_Z.quomod_big_int p (Big_int_Z.big_int_of_int 2) in
  if Big_int_Z.eq_big_int r Big_int_Z.zero_big_int then f2p q else f2p1 q)
      (fun p0 ->
      (fun f2p1 f2p f1 p ->
  if Big_int_Z.le_big_int p Big_int_Z.unit_big_int then f1 () else
  let (q,r) = Big_int_Z.quomod_big_int p (Big_int_Z.big_int_of_int 2) in
  if Big_int_Z.eq_big_int r Big_int_Z.zero_big_int then f2p q else f2p1 q)
        (fun q0 -> eqb p0 q0)
        (fun _ -> false)
        (fun _ -> false)
        q)
      (fun p0 ->
      (fun f2p1 f2p f1 p ->
  if Big_int_Z.le_big_int p Big_int_Z.unit_big_int then f1 () else
  let (q,r) = Big_int_Z.quomod_big_int p (Big_int_Z.big_int_of_int 2) in
  if Big_int_Z.eq_big_int r Big_int_Z.zero_big_int then f2p q else f2p1 q)
        (fun _ -> false)
        (fun q0 -> eqb p0 q0)
        (fun _ -> false)
        q)
      (fun _ ->
      (fun f2p1 f2p f1 p ->
  if Big_int_Z.le_big_int p Big_int_Z.unit_big_int then f1 () else
  let (q,r) = Big_int_Z.quomod_big_int p (Big_int_Z.big_int_of_int 2) in
  if Big_int_Z.eq_big_int r Big_int_Z.zero_big_int then f2p q else f2p1 q)
        (fun _ -> false)
        (fun _ -> false)
        (fun _ -> true)
        q)
      p

  (** val coq_Nsucc_double : Big_int_Z.big_int -> Big_int_Z.big_int **)

  let coq_Nsucc_double x =
    (fun fO fp n -> if Big_int_Z.sign_big_int n <= 0 then fO () else fp n)
      (fun _ -> Big_int_Z.unit_big_int)
      (fun p ->
      ((fun x -> Big_int_Z.succ_big_int (Big_int_Z.mult_int_big_int 2 x)) p))
      x

  (** val coq_Ndouble : Big_int_Z.big_int -> Big_int_Z.big_int **)

  let coq_Ndouble n0 =
    (fun fO fp n -> if Big_int_Z.sign_big_int n <= 0 then fO () else fp n)
      (fun _ -> Big_int_Z.zero_big_int)
      (fun p -> (Big_int_Z.mult_int_big_int 2 p))
      n0

  (** val coq_lor :
      Big_int_Z.big_int -> Big_int_Z.big_int -> Big_int_Z.big_int **)

  let rec coq_lor p q =
    (fun f2p1 f2p f1 p ->
  if Big_int_Z.le_big_int p Big_int_Z.unit_big_int then f1 () else
  let (q,r) = Big_int_Z.quomod_big_int p (Big_int_Z.big_int_of_int 2) in
  if Big_int_Z.eq_big_int r Big_int_Z.zero_big_int then f2p q else f2p1 q)
      (fun p0 ->
      (fun f2p1 f2p f1 p ->
  if Big_int_Z.le_big_int p Big_int_Z.unit_big_int then f1 () else
  let (q,r) = Big_int_Z.quomod_big_int p (Big_int_Z.big_int_of_int 2) in
  if Big_int_Z.eq_big_int r Big_int_Z.zero_big_int then f2p q else f2p1 q)
        (fun q0 ->
        (fun x -> Big_int_Z.succ_big_int (Big_int_Z.mult_int_big_int 2 x))
        (coq_lor p0 q0))
        (fun q0 ->
        (fun x -> Big_int_Z.succ_big_int (Big_int_Z.mult_int_big_int 2 x))
        (coq_lor p0 q0))
        (fun _ -> p)
        q)
      (fun p0 ->
      (fun f2p1 f2p f1 p ->
  if Big_int_Z.le_big_int p Big_int_Z.unit_big_int then f1 () else
  let (q,r) = Big_int_Z.quomod_big_int p (Big_int_Z.big_int_of_int 2) in
  if Big_int_Z.eq_big_int r Big_int_Z.zero_big_int then f2p q else f2p1 q)
        (fun q0 ->
        (fun x -> Big_int_Z.succ_big_int (Big_int_Z.mult_int_big_int 2 x))
        (coq_lor p0 q0))
        (fun q0 -> Big_int_Z.mult_int_big_int 2 (coq_lor p0 q0))
        (fun _ ->
        (fun x -> Big_int_Z.succ_big_int (Big_int_Z.mult_int_big_int 2 x))
        p0)
        q)
      (fun _ ->
      (fun f2p1 f2p f1 p ->
  if Big_int_Z.le_big_int p Big_int_Z.unit_big_int then f1 () else
  let (q,r) = Big_int_Z.quomod_big_int p (Big_int_Z.big_int_of_int 2) in
  if Big_int_Z.eq_big_int r Big_int_Z.zero_big_int then f2p q else f2p1 q)
        (fun _ -> q)
        (fun q0 ->
        (fun x -> Big_int_Z.succ_big_int (Big_int_Z.mult_int_big_int 2 x))
        q0)
        (fun _ -> q)
        q)
      p

  (** val coq_land :
      Big_int_Z.big_int -> Big_int_Z.big_int -> Big_int_Z.big_int **)

  let rec coq_land p q =
    (fun f2p1 f2p f1 p ->
  if Big_int_Z.le_big_int p Big_int_Z.unit_big_int then f1 () else
  let (q,r) = Big_int_Z.quomod_big_int p (Big_int_Z.big_int_of_int 2) in
  if Big_int_Z.eq_big_int r Big_int_Z.zero_big_int then f2p q else f2p1 q)
      (fun p0 ->
      (fun f2p1 f2p f1 p ->
  if Big_int_Z.le_big_int p Big_int_Z.unit_big_int then f1 () else
  let (q,r) = Big_int_Z.quomod_big_int p (Big_int_Z.big_int_of_int 2) in
  if Big_int_Z.eq_big_int r Big_int_Z.zero_big_int then f2p q else f2p1 q)
        (fun q0 -> coq_Nsucc_double (coq_land p0 q0))
        (fun q0 -> coq_Ndouble (coq_land p0 q0))
        (fun _ -> Big_int_Z.unit_big_int)
        q)
      (fun p0 ->
      (fun f2p1 f2p f1 p ->
  if Big_int_Z.le_big_int p Big_int_Z.unit_big_int then f1 () else
  let (q,r) = Big_int_Z.quomod_big_int p (Big_int_Z.big_int_of_int 2) in
  if Big_int_Z.eq_big_int r Big_int_Z.zero_big_int then f2p q else f2p1 q)
        (fun q0 -> coq_Ndouble (coq_land p0 q0))
        (fun q0 -> coq_Ndouble (coq_land p0 q0))
        (fun _ -> Big_int_Z.zero_big_int)
        q)
      (fun _ ->
      (fun f2p1 f2p f1 p ->
  if Big_int_Z.le_big_int p Big_int_Z.unit_big_int then f1 () else
  let (q,r) = Big_int_Z.quomod_big_int p (Big_int_Z.big_int_of_int 2) in
  if Big_int_Z.eq_big_int r Big_int_Z.zero_big_int then f2p q else f2p1 q)
        (fun _ -> Big_int_Z.unit_big_int)
        (fun _ -> Big_int_Z.zero_big_int)
        (fun _ -> Big_int_Z.unit_big_int)
        q)
      p

  (** val ldiff :
      Big_int_Z.big_int -> Big_int_Z.big_int -> Big_int_Z.big_int **)

  let rec ldiff p q =
    (fun f2p1 f2p f1 p ->
  if Big_int_Z.le_big_int p Big_int_Z.unit_big_int then f1 () else
  let (q,r) = Big_int_Z.quomod_big_int p (Big_int_Z.big_int_of_int 2) in
  if Big_int_Z.eq_big_int r Big_int_Z.zero_big_int then f2p q else f2p1 q)
      (fun p0 ->
      (fun f2p1 f2p f1 p ->
  if Big_int_Z.le_big_int p Big_int_Z.unit_big_int then f1 () else
  let (q,r) = Big_int_Z.quomod_big_int p (Big_int_Z.big_int_of_int 2) in
  if Big_int_Z.eq_big_int r Big_int_Z.zero_big_int then f2p q else f2p1 q)
        (fun q0 -> coq_Ndouble (ldiff p0 q0))
        (fun q0 -> coq_Nsucc_double (ldiff p0 q0))
        (fun _ -> (Big_int_Z.mult_int_big_int 2 p0))
        q)
      (fun p0 ->
      (fun f2p1 f2p f1 p ->
  if Big_int_Z.le_big_int p Big_int_Z.unit_big_int then f1 () else
  let (q,r) = Big_int_Z.quomod_big_int p (Big_int_Z.big_int_of_int 2) in
  if Big_int_Z.eq_big_int r Big_int_Z.zero_big_int then f2p q else f2p1 q)
        (fun q0 -> coq_Ndouble (ldiff p0 q0))
        (fun q0 -> coq_Ndouble (ldiff p0 q0))
        (fun _ -> p)
        q)
      (fun _ ->
      (fun f2p1 f2p f1 p ->
  if Big_int_Z.le_big_int p Big_int_Z.unit_big_int then f1 () else
  let (q,r) = Big_int_Z.quomod_big_int p (Big_int_Z.big_int_of_int 2) in
  if Big_int_Z.eq_big_int r Big_int_Z.zero_big_int then f2p q else f2p1 q)
        (fun _ -> Big_int_Z.zero_big_int)
        (fun _ -> Big_int_Z.unit_big_int)
        (fun _ -> Big_int_Z.zero_big_int)
        q)
      p

  (** val iter_op : ('a1 -> 'a1 -> 'a1) -> Big_int_Z.big_int -> 'a1 -> 'a1 **)

  let rec iter_op op p a =
    (fun f2p1 f2p f1 p ->
  if Big_int_Z.le_big_int p Big_int_Z.unit_big_int then f1 () else
  let (q,r) = Big_int_Z.quomod_big_int p (Big_int_Z.big_int_of_int 2) in
  if Big_int_Z.eq_big_int r Big_int_Z.zero_big_int then f2p q else f2p1 q)
      (fun p0 -> op a (iter_op op p0 (op a a)))
      (fun p0 -> iter_op op p0 (op a a))
      (fun _ -> a)
      p

  (** val to_nat : Big_int_Z.big_int -> nat **)

  let to_nat x =
    iter_op Coq__1.add x (S O)
 end

module N =
 struct
  (** val succ_pos : Big_int_Z.big_int -> Big_int_Z.big_int **)

  let succ_pos n0 =
    (fun fO fp n -> if Big_int_Z.sign_big_int n <= 0 then fO () else fp n)
      (fun _ -> Big_int_Z.unit_big_int)
      (fun p -> Pos.succ p)
      n0

  (** val coq_lor :
      Big_int_Z.big_int -> Big_int_Z.big_int -> Big_int_Z.big_int **)

  let coq_lor n0 m =
    (fun fO fp n -> if Big_int_Z.sign_big_int n <= 0 then fO () else fp n)
      (fun _ -> m)
      (fun p ->
      (fun fO fp n -> if Big_int_Z.sign_big_int n <= 0 then fO () else fp n)
        (fun _ -> n0)
        (fun q -> (Pos.coq_lor p q))
        m)
      n0

  (** val coq_land :
      Big_int_Z.big_int -> Big_int_Z.big_int -> Big_int_Z.big_int **)

  let coq_land n0 m =
    (fun fO fp n -> if Big_int_Z.sign_big_int n <= 0 then fO () else fp n)
      (fun _ -> Big_int_Z.zero_big_int)
      (fun p ->
      (fun fO fp n -> if Big_int_Z.sign_big_int n <= 0 then fO () else fp n)
        (fun _ -> Big_int_Z.zero_big_int)
        (fun q -> Pos.coq_land p q)
        m)
      n0

  (** val ldiff :
      Big_int_Z.big_int -> Big_int_Z.big_int -> Big_int_Z.big_int **)

  let ldiff n0 m =
    (fun fO fp n -> if Big_int_Z.sign_big_int n <= 0 then fO () else fp n)
      (fun _ -> Big_int_Z.zero_big_int)
      (fun p ->
      (fun fO fp n -> if Big_int_Z.sign_big_int n <= 0 then fO () else fp n)
        (fun _ -> n0)
        (fun q -> Pos.ldiff p q)
        m)
      n0
 end

module Z =
 struct
  (** val double : Big_int_Z.big_int -> Big_int_Z.big_int **)

  let double x =
    (fun fO fp fn z -> let s = Big_int_Z.sign_big_int z in
  if s = 0 then fO () else if s > 0 then fp z
  else fn (Big_int_Z.minus_big_int z))
      (fun _ -> Big_int_Z.zero_big_int)
      (fun p -> (Big_int_Z.mult_int_big_int 2 p))
      (fun p -> Big_int_Z.minus_big_int (Big_int_Z.mult_int_big_int 2 p))
      x

  (** val succ_double : Big_int_Z.big_int -> Big_int_Z.big_int **)

  let succ_double x =
    (fun fO fp fn z -> let s = Big_int_Z.sign_big_int z in
  if s = 0 then fO () else if s > 0 then fp z
  else fn (Big_int_Z.minus_big_int z))
      (fun _ -> Big_int_Z.unit_big_int)
      (fun p ->
      ((fun x -> Big_int_Z.succ_big_int (Big_int_Z.mult_int_big_int 2 x))
      p))
      (fun p -> Big_int_Z.minus_big_int (Pos.pred_double p))
      x

  (** val pred_double : Big_int_Z.big_int -> Big_int_Z.big_int **)

  let pred_double x =
    (fun fO fp fn z -> let s = Big_int_Z.sign_big_int z in
  if s = 0 then fO () else if s > 0 then fp z
  else fn (Big_int_Z.minus_big_int z))
      (fun _ -> Big_int_Z.minus_big_int Big_int_Z.unit_big_int)
      (fun p -> (Pos.pred_double p))
      (fun p -> Big_int_Z.minus_big_int
      ((fun x -> Big_int_Z.succ_big_int (Big_int_Z.mult_int_big_int 2 x)) p))
      x

  (** val pos_sub :
      Big_int_Z.big_int -> Big_int_Z.big_int -> Big_int_Z.big_int **)

  let rec pos_sub x y =
    (fun f2p1 f2p f1 p ->
  if Big_int_Z.le_big_int p Big_int_Z.unit_big_int then f1 () else
  let (q,r) = Big_int_Z.quomod_big_int p (Big_int_Z.big_int_of_int 2) in
  if Big_int_Z.eq_big_int r Big_int_Z.zero_big_int then f2p q else f2p1 q)
      (fun p ->
      (fun f2p1 f2p f1 p ->
  if Big_int_Z.le_big_int p Big_int_Z.unit_big_int then f1 () else
  let (q,r) = Big_int_Z.quomod_big_int p (Big_int_Z.big_int_of_int 2) in
  if Big_int_Z.eq_big_int r Big_int_Z.zero_big_int then f2p q else f2p1 q)
        (fun q -> double (pos_sub p q))
        (fun q -> succ_double (pos_sub p q))
        (fun _ -> (Big_int_Z.mult_int_big_int 2 p))
        y)
      (fun p ->
      (fun f2p1 f2p f1 p ->
  if Big_int_Z.le_big_int p Big_int_Z.unit_big_int then f1 () else
  let (q,r) = Big_int_Z.quomod_big_int p (Big_int_Z.big_int_of_int 2) in
  if Big_int_Z.eq_big_int r Big_int_Z.zero_big_int then f2p q else f2p1 q)
        (fun q -> pred_double (pos_sub p q))
        (fun q -> double (pos_sub p q))
        (fun _ -> (Pos.pred_double p))
        y)
      (fun _ ->
      (fun f2p1 f2p f1 p ->
  if Big_int_Z.le_big_int p Big_int_Z.unit_big_int then f1 () else
  let (q,r) = Big_int_Z.quomod_big_int p (Big_int_Z.big_int_of_int 2) in
  if Big_int_Z.eq_big_int r Big_int_Z.zero_big_int then f2p q else f2p1 q)
        (fun q -> Big_int_Z.minus_big_int (Big_int_Z.mult_int_big_int 2
        q))
        (fun q -> Big_int_Z.minus_big_int (Pos.pred_double q))
        (fun _ -> Big_int_Z.zero_big_int)
        y)
      x

  (** val add :
      Big_int_Z.big_int -> Big_int_Z.big_int -> Big_int_Z.big_int **)

  let add = Big_int_Z.add_big_int

  (** val opp : Big_int_Z.big_int -> Big_int_Z.big_int **)

  let opp = Big_int_Z.minus_big_int

  (** val sub :
      Big_int_Z.big_int -> Big_int_Z.big_int -> Big_int_Z.big_int **)

  let sub = Big_int_Z.sub_big_int

  (** val mul :
      Big_int_Z.big_int -> Big_int_Z.big_int -> Big_int_Z.big_int **)

  let mul = Big_int_Z.mult_big_int

  (** val pow_pos :
      Big_int_Z.big_int -> Big_int_Z.big_int -> Big_int_Z.big_int **)

  let pow_pos z0 =
    Pos.iter (mul z0) Big_int_Z.unit_big_int

  (** val pow :
      Big_int_Z.big_int -> Big_int_Z.big_int -> Big_int_Z.big_int **)

  let pow x y =
    (fun fO fp fn z -> let s = Big_int_Z.sign_big_int z in
  if s = 0 then fO () else if s > 0 then fp z
  else fn (Big_int_Z.minus_big_int z))
      (fun _ -> Big_int_Z.unit_big_int)
      (fun p -> pow_pos x p)
      (fun _ -> Big_int_Z.zero_big_int)
      y

  (** val compare : Big_int_Z.big_int -> Big_int_Z.big_int -> comparison **)

  let compare = (fun x y -> let s = Big_int_Z.compare_big_int x y in
  if s = 0 then Eq else if s < 0 then Lt else Gt)

  (** val leb : Big_int_Z.big_int -> Big_int_Z.big_int -> bool **)

  let leb x y =
    match compare x y with
    | Gt -> false
    | _ -> true

  (** val ltb : Big_int_Z.big_int -> Big_int_Z.big_int -> bool **)

  let ltb x y =
    match compare x y with
    | Lt -> true
    | _ -> false

  (** val gtb : Big_int_Z.big_int -> Big_int_Z.big_int -> bool **)

  let gtb x y =
    match compare x y with
    | Gt -> true
    | _ -> false

  (** val eqb : Big_int_Z.big_int -> Big_int_Z.big_int -> bool **)

  let eqb = Big_int_Z.eq_big_int

  (** val to_nat : Big_int_Z.big_int -> nat **)

  let to_nat z0 =
    (fun fO fp fn z -> let s = Big_int_Z.sign_big_int z in
  if s = 0 then fO () else if s > 0 then fp z
  else fn (Big_int_Z.minus_big_int z))
      (fun _ -> O)
      (fun p -> Pos.to_nat p)
      (fun _ -> O)
      z0

  (** val of_N : Big_int_Z.big_int -> Big_int_Z.big_int **)

  let of_N = (fun p -> p)

  (** val pos_div_eucl :
      Big_int_Z.big_int -> Big_int_Z.big_int ->
      Big_int_Z.big_int * Big_int_Z.big_int **)

  let rec pos_div_eucl a b =
    (fun f2p1 f2p f1 p ->
  if Big_int_Z.le_big_int p Big_int_Z.unit_big_int then f1 () else
  let (q,r) = Big_int_Z.quomod_big_int p (Big_int_Z.big_int_of_int 2) in
  if Big_int_Z.eq_big_int r Big_int_Z.zero_big_int then f2p q else f2p1 q)
      (fun a' ->
      let (q, r) = pos_div_eucl a' b in
      let r' =
        add (mul (Big_int_Z.mult_int_big_int 2 Big_int_Z.unit_big_int) r)
          Big_int_Z.unit_big_int
      in
      if ltb r' b
      then ((mul (Big_int_Z.mult_int_big_int 2 Big_int_Z.unit_big_int) q), r')
      else ((add
              (mul (Big_int_Z.mult_int_big_int 2 Big_int_Z.unit_big_int) q)
              Big_int_Z.unit_big_int), (sub r' b)))
      (fun a' ->
      let (q, r) = pos_div_eucl a' b in
      let r' = mul (Big_int_Z.mult_int_big_int 2 Big_int_Z.unit_big_int) r in
      if ltb r' b
      then ((mul (Big_int_Z.mult_int_big_int 2 Big_int_Z.unit_big_int) q), r')
      else ((add
              (mul (Big_int_Z.mult_int_big_int 2 Big_int_Z.unit_big_int) q)
              Big_int_Z.unit_big_int), (sub r' b)))
      (fun _ ->
      if leb (Big_int_Z.mult_int_big_int 2 Big_int_Z.unit_big_int) b
      then (Big_int_Z.zero_big_int, Big_int_Z.unit_big_int)
      else (Big_int_Z.unit_big_int, Big_int_Z.zero_big_int))
      a

  (** val div_eucl :
      Big_int_Z.big_int -> Big_int_Z.big_int ->
      Big_int_Z.big_int * Big_int_Z.big_int **)

  let div_eucl = Big_int_Z.(fun x y ->
  match sign_big_int y with
  | 0 -> (zero_big_int, x)
  | 1 -> quomod_big_int x y
  | _ -> let (q, r) = quomod_big_int (add_int_big_int (-1) x) y in
          (add_int_big_int (-1) q, add_big_int (add_int_big_int 1 y) r))

  (** val div :
      Big_int_Z.big_int -> Big_int_Z.big_int -> Big_int_Z.big_int **)

  let div = Big_int_Z.(fun x y ->
  match sign_big_int y with
  | 0 -> zero_big_int
  | 1 -> div_big_int x y
  | _ -> add_int_big_int (-1) (div_big_int (add_int_big_int (-1) x) y))

  (** val modulo :
      Big_int_Z.big_int -> Big_int_Z.big_int -> Big_int_Z.big_int **)

  let modulo = Big_int_Z.(fun x y ->
  match sign_big_int y with
  | 0 -> x
  | 1 -> mod_big_int x y
  | _ -> add_big_int y (add_int_big_int 1 (mod_big_int (add_int_big_int (-1) x) y)))

  (** val div2 : Big_int_Z.big_int -> Big_int_Z.big_int **)

  let div2 z0 =
    (fun fO fp fn z -> let s = Big_int_Z.sign_big_int z in
  if s = 0 then fO () else if s > 0 then fp z
  else fn (Big_int_Z.minus_big_int z))
      (fun _ -> Big_int_Z.zero_big_int)
      (fun p ->
      (fun f2p1 f2p f1 p ->
  if Big_int_Z.le_big_int p Big_int_Z.unit_big_int then f1 () else
  let (q,r) = Big_int_Z.quomod_big_int p (Big_int_Z.big_int_of_int 2) in
  if Big_int_Z.eq_big_int r Big_int_Z.zero_big_int then f2p q else f2p1 q)
        (fun _ -> (Pos.div2 p))
        (fun _ -> (Pos.div2 p))
        (fun _ -> Big_int_Z.zero_big_int)
        p)
      (fun p -> Big_int_Z.minus_big_int (Pos.div2_up p))
      z0

  (** val log2 : Big_int_Z.big_int -> Big_int_Z.big_int **)

  let log2 z0 =
    (fun fO fp fn z -> let s = Big_int_Z.sign_big_int z in
  if s = 0 then fO () else if s > 0 then fp z
  else fn (Big_int_Z.minus_big_int z))
      (fun _ -> Big_int_Z.zero_big_int)
      (fun p0 ->
      (fun f2p1 f2p f1 p ->
  if Big_int_Z.le_big_int p Big_int_Z.unit_big_int then f1 () else
  let (q,r) = Big_int_Z.quomod_big_int p (Big_int_Z.big_int_of_int 2) in
  if Big_int_Z.eq_big_int r Big_int_Z.zero_big_int then f2p q else f2p1 q)
        (fun p -> (Pos.size p))
        (fun p -> (Pos.size p))
        (fun _ -> Big_int_Z.zero_big_int)
        p0)
      (fun _ -> Big_int_Z.zero_big_int)
      z0

  (** val shiftl :
      Big_int_Z.big_int -> Big_int_Z.big_int -> Big_int_Z.big_int **)

  let shiftl = Big_int_Z.(fun x y ->
  let y = int_of_big_int y in
  if y < 0 then shift_right_big_int x (-y)
  else shift_left_big_int x y)

  (** val shiftr :
      Big_int_Z.big_int -> Big_int_Z.big_int -> Big_int_Z.big_int **)

  let shiftr = Big_int_Z.(fun x y ->
  let y = int_of_big_int y in
  if y < 0 then shift_left_big_int x (-y)
  else shift_right_big_int x y)

  (** val coq_lor :
      Big_int_Z.big_int -> Big_int_Z.big_int -> Big_int_Z.big_int **)

  let coq_lor a b =
    (fun fO fp fn z -> let s = Big_int_Z.sign_big_int z in
  if s = 0 then fO () else if s > 0 then fp z
  else fn (Big_int_Z.minus_big_int z))
      (fun _ -> b)
      (fun a0 ->
      (fun fO fp fn z -> let s = Big_int_Z.sign_big_int z in
  if s = 0 then fO () else if s > 0 then fp z
  else fn (Big_int_Z.minus_big_int z))
        (fun _ -> a)
        (fun b0 -> (Pos.coq_lor a0 b0))
        (fun b0 -> Big_int_Z.minus_big_int
        (N.succ_pos (N.ldiff (Pos.pred_N b0) a0)))
        b)
      (fun a0 ->
      (fun fO fp fn z -> let s = Big_int_Z.sign_big_int z in
  if s = 0 then fO () else if s > 0 then fp z
  else fn (Big_int_Z.minus_big_int z))
        (fun _ -> a)
        (fun b0 -> Big_int_Z.minus_big_int
        (N.succ_pos (N.ldiff (Pos.pred_N a0) b0)))
        (fun b0 -> Big_int_Z.minus_big_int
        (N.succ_pos (N.coq_land (Pos.pred_N a0) (Pos.pred_N b0))))
        b)
      a

  (** val coq_land :
      Big_int_Z.big_int -> Big_int_Z.big_int -> Big_int_Z.big_int **)

  let coq_land a b =
    (fun fO fp fn z -> let s = Big_int_Z.sign_big_int z in
  if s = 0 then fO () else if s > 0 then fp z
  else fn (Big_int_Z.minus_big_int z))
      (fun _ -> Big_int_Z.zero_big_int)
      (fun a0 ->
      (fun fO fp fn z -> let s = Big_int_Z.sign_big_int z in
  if s = 0 then fO () else if s > 0 then fp z
  else fn (Big_int_Z.minus_big_int z))
        (fun _ -> Big_int_Z.zero_big_int)
        (fun b0 -> of_N (Pos.coq_land a0 b0))
        (fun b0 -> of_N (N.ldiff a0 (Pos.pred_N b0)))
        b)
      (fun a0 ->
      (fun fO fp fn z -> let s = Big_int_Z.sign_big_int z in
  if s = 0 then fO () else if s > 0 then fp z
  else fn (Big_int_Z.minus_big_int z))
        (fun _ -> Big_int_Z.zero_big_int)
        (fun b0 -> of_N (N.ldiff b0 (Pos.pred_N a0)))
        (fun b0 -> Big_int_Z.minus_big_int
        (N.succ_pos (N.coq_lor (Pos.pred_N a0) (Pos.pred_N b0))))
        b)
      a
 end

(** val nth_error : 'a1 list -> nat -> 'a1 option **)

let rec nth_error l = function
| O -> (match l with
        | [] -> None
        | x :: _ -> Some x)
| S n1 -> (match l with
           | [] -> None
           | _ :: l0 -> nth_error l0 n1)

(** val firstn : nat -> 'a1 list -> 'a1 list **)

let rec firstn n0 l =
  match n0 with
  | O -> []
  | S n1 -> (match l with
             | [] -> []
             | a :: l0 -> a :: (firstn n1 l0))

(** val to_N : byte -> Big_int_Z.big_int **)

let to_N = function
| X00 -> Big_int_Z.zero_big_int
| X01 -> Big_int_Z.unit_big_int
| X02 -> (Big_int_Z.mult_int_big_int 2 Big_int_Z.unit_big_int)
| X03 ->
  ((fun x -> Big_int_Z.succ_big_int (Big_int_Z.mult_int_big_int 2 x))
    Big_int_Z.unit_big_int)
| X04 ->
  (Big_int_Z.mult_int_big_int 2 (Big_int_Z.mult_int_big_int 2
    Big_int_Z.unit_big_int))
| X05 ->
  ((fun x -> Big_int_Z.succ_big_int (Big_int_Z.mult_int_big_int 2 x))
    (Big_int_Z.mult_int_big_int 2 Big_int_Z.unit_big_int))
| X06 ->
  (Big_int_Z.mult_int_big_int 2
    ((fun x -> Big_int_Z.succ_big_int (Big_int_Z.mult_int_big_int 2 x))
    Big_int_Z.unit_big_int))
| X07 ->
  ((fun x -> Big_int_Z.succ_big_int (Big_int_Z.mult_int_big_int 2 x))
    ((fun x -> Big_int_Z.succ_big_int (Big_int_Z.mult_int_big_int 2 x))
    Big_int_Z.unit_big_int))
| X08 ->
  (Big_int_Z.mult_int_big_int 2 (Big_int_Z.mult_int_big_int 2
    (Big_int_Z.mult_int_big_int 2 Big_int_Z.unit_big_int)))
| X09 ->
  ((fun x -> Big_int_Z.succ_big_int (Big_int_Z.mult_int_big_int 2 x))
    (Big_int_Z.mult_int_big_int 2 (Big_int_Z.mult_int_big_int 2
    Big_int_Z.unit_big_int)))
| X0a ->
  (Big_int_Z.mult_int_big_int 2
    ((fun x -> Big_int_Z.succ_big_int (Big_int_Z.mult_int_big_int 2 x))
    (Big_int_Z.mult_int_big_int 2 Big_int_Z.unit_big_int)))
| X0b ->
  ((fun x -> Big_int_Z.succ_big_int (Big_int_Z.mult_int_big_int 2 x))
    ((fun x -> Big_int_Z.succ_big_int (Big_int_Z.mult_int_big_int 2 x))
    (Big_int_Z.mult_int_big_int 2 Big_int_Z.unit_big_int)))
| X0c ->
  (Big_int_Z.mult_int_big_int 2 (Big_int_Z.mult_int_big_int 2
    ((fun x -> Big_int_Z.succ_big_int (Big_int_Z.mult_int_big_int 2 x))
    Big_int_Z.unit_big_int)))
| X0d ->
  ((fun x -> Big_int_Z.succ_big_int (Big_int_Z.mult_int_big_int 2 x))
    (Big_int_Z.mult_int_big_int 2
    ((fun x -> Big_int_Z.succ_big_int (Big_int_Z.mult_int_big_int 2 x))
    Big_int_Z.unit_big_int)))
| X0e ->
  (Big_int_Z.mult_int_big_int 2
    ((fun x -> Big_int_Z.succ_big_int (Big_int_Z.mult_int_big_int 2 x))
    ((fun x -> Big_int_Z.succ_big_int (Big_int_Z.mult_int_big_int 2 x))
    Big_int_Z.unit_big_int)))
| X0f ->
  ((fun x -> Big_int_Z.succ_big_int (Big_int_Z.mult_int_big_int 2 x))
    ((fun x -> Big_int_Z.succ_big_int (Big_int_Z.mult_int_big_int 2 x))
    ((fun x -> Big_int_Z.succ_big_int (Big_int_Z.mult_int_big_int 2 x))
    Big_int_Z.unit_big_int)))
| X10 ->
  (Big_int_Z.mult_int_big_int 2 (Big_int_Z.mult_int_big_int 2
    (Big_int_Z.mult_int_big_int 2 (Big_int_Z.mult_int_big_int 2
    Big_int_Z.unit_big_int))))
| X11 ->
  ((fun x -> Big_int_Z.succ_big_int (Big_int_Z.mult_int_big_int 2 x))
    (Big_int_Z.mult_int_big_int 2 (Big_int_Z.mult_int_big_int 2
    (Big_int_Z.mult_int_big_int 2 Big_int_Z.unit_big_int))))
| X12 ->
  (Big_int_Z.mult_int_big_int 2
    ((fun x -> Big_int_Z.succ_big_int (Big_int_Z.mult_int_big_int 2 x))
    (Big_int_Z.mult_int_big_int 2 (Big_int_Z.mult_int_big_int 2
    Big_int_Z.unit_big_int))))
| X13 ->
  ((fun x -> Big_int_Z.succ_big_int (Big_int_Z.mult_int_big_int 2 x))
    ((fun x -> Big_int_Z.succ_big_int (Big_int_Z.mult_int_big_int 2 x))
    (Big_int_Z.mult_int_big_int 2 (Big_int_Z.mult_int_big_int 2
    Big_int_Z.unit_big_int))))
| X14 ->
  (Big_int_Z.mult_int_big_int 2 (Big_int_Z.mult_int_big_int 2
    ((fun x -> Big_int_Z.succ_big_int (Big_int_Z.mult_int_big_int 2 x))
    (Big_int_Z.mult_int_big_int 2 Big_int_Z.unit_big_int))))
| X15 ->
  ((fun x -> Big_int_Z.succ_big_int (Big_int_Z.mult_int_big_int 2 x))
    (Big_int_Z.mult_int_big_int 2
    ((fun x -> Big_int_Z.succ_big_int (Big_int_Z.mult_int_big_int 2 x))
    (Big_int_Z.mult_int_big_int 2 Big_int_Z.unit_big_int))))
| X16 ->
  (Big_int_Z.mult_int_big_int 2
    ((fun x -> Big_int_Z.succ_big_int (Big_int_Z.mult_int_big_int 2 x))
    ((fun x -> Big_int_Z.succ_big_int (Big_int_Z.mult_int_big_int 2 x))
    (Big_int_Z.mult_int_big_int 2 Big_int_Z.unit_big_int))))
| X17 ->
  ((fun x -> Big_int_Z.succ_big_int (Big_int_Z.mult_int_big_int 2 x))
    ((fun x -> Big_int_Z.succ_big_int (Big_int_Z.mult_int_big_int 2 x))
    ((fun x -> Big_int_Z.succ_big_int (Big_int_Z.mult_int_big_int 2 x))
    (Big_int_Z.mult_int_big_int 2 Big_int_Z.unit_big_int))))
| X18 ->
  (Big_int_Z.mult_int_big_int 2 (Big_int_Z.mult_int_big_int 2
    (Big_int_Z.mult_int_big_int 2
    ((fun x -> Big_int_Z.succ_big_int (Big_int_Z.mult_int_big_int 2 x))
    Big_int_Z.unit_big_int))))
| X19 ->
  ((fun x -> Big_int_Z.succ_big_int (Big_int_Z.mult_int_big_int 2 x))
    (Big_int_Z.mult_int_big_int 2 (Big_int_Z.mult_int_big_int 2
    ((fun x -> Big_int_Z.succ_big_int (Big_int_Z.mult_int_big_int 2 x))
    Big_int_Z.unit_big_int))))
| X1a ->
  (Big_int_Z.mult_int_big_int 2
    ((fun x -> Big_int_Z.succ_big_int (Big_int_Z.mult_int_big_int 2 x))
    (Big_int_Z.mult_int_big_int 2
    ((fun x -> Big_int_Z.succ_big_int (Big_int_Z.mult_int_big_int 2 x))
    Big_int_Z.unit_big_int))))
| X1b ->
  ((fun x -> Big_int_Z.succ_big_int (Big_int_Z.mult_int_big_int 2 x))
    ((fun x -> Big_int_Z.succ_big_int (Big_int_Z.mult_int_big_int 2 x))
    (Big_int_Z.mult_int_big_int 2
    ((fun x -> Big_int_Z.succ_big_int (Big_int_Z.mult_int_big_int 2 x))
    Big_int_Z.unit_big_int))))
| X1c ->
  (Big_int_Z.mult_int_big_int 2 (Big_int_Z.mult_int_big_int 2
    ((fun x -> Big_int_Z.succ_big_int (Big_int_Z.mult_int_big_int 2 x))
    ((fun x -> Big_int_Z.succ_big_int (Big_int_Z.mult_int_big_int 2 x))
    Big_int_Z.unit_big_int))))
| X1d ->
  ((fun x -> Big_int_Z.succ_big_int (Big_int_Z.mult_int_big_int 2 x))
    (Big_int_Z.mult_int_big_int 2
    ((fun x -> Big_int_Z.succ_big_int (Big_int_Z.mult_int_big_int 2 x))
    ((fun x -> Big_int_Z.succ_big_int (Big_int_Z.mult_int_big_int 2 x))
    Big_int_Z.unit_big_int))))
| X1e ->
  (Big_int_Z.mult_int_big_int 2
    ((fun x -> Big_int_Z.succ_big_int (Big_int_Z.mult_int_big_int 2 x))
    ((fun x -> Big_int_Z.succ_big_int (Big_int_Z.mult_int_big_int 2 x))
    ((fun x -> Big_int_Z.succ_big_int (Big_int_Z.mult_int_big_int 2 x))
    Big_int_Z.unit_big_int))))
| X1f ->
  ((fun x -> Big_int_Z.succ_big_int (Big_int_Z.mult_int_big_int 2 x))
    ((fun x -> Big_int_Z.succ_big_int (Big_int_Z.mult_int_big_int 2 x))
    ((fun x -> Big_int_Z.succ_big_int (Big_int_Z.mult_int_big_int 2 x))
    ((fun x -> Big_int_Z.succ_big_int (Big_int_Z.mult_int_big_int 2 x))
    Big_int_Z.unit_big_int))))
| X20 ->
  (Big_int_Z.mult_int_big_int 2 (Big_int_Z.mult_int_big_int 2
    (Big_int_Z.mult_int_big_int 2 (Big_int_Z.mult_int_big_int 2
    (Big_int_Z.mult_int_big_int 2 Big_int_Z.unit_big_int)))))
| X21 ->
  ((fun x -> Big_int_Z.succ_big_int (Big_int_Z.mult_int_big_int 2 x))
    (Big_int_Z.mult_int_big_int 2 (Big_int_Z.mult_int_big_int 2
    (Big_int_Z.mult_int_big_int 2 (Big_int_Z.mult_int_big_int 2
    Big_int_Z.unit_big_int)))))
| X22 ->
  (Big_int_Z.mult_int_big_int 2
    ((fun x -> Big_int_Z.succ_big_int (Big_int_Z.mult_int_big_int 2 x))
    (Big_int_Z.mult_int_big_int 2 (Big_int_Z.mult_int_big_int 2
    (Big_int_Z.mult_int_big_int 2 Big_int_Z.unit_big_int)))))
| X23 ->
  ((fun x -> Big_int_Z.succ_big_int (Big_int_Z.mult_int_big_int 2 x))
    ((fun x -> Big_int_Z.succ_big_int (Big_int_Z.mult_int_big_int 2 x))
    (Big_int_Z.mult_int_big_int 2 (Big_int_Z.mult_int_big_int 2
    (Big_int_Z.mult_int_big_int 2 Big_int_Z.unit_big_int)))))
| X24 ->
  (Big_int_Z.mult_int_big_int 2 (Big_int_Z.mult_int_big_int 2
    ((fun x -> Big_int_Z.succ_big_int (Big_int_Z.mult_int_big_int 2 x))
    (Big_int_Z.mult_int_big_int 2 (Big_int_Z.mult_int_big_int 2
    Big_int_Z.unit_big_int)))))
| X25 ->
  ((fun x -> Big_int_Z.succ_big_int (Big_int_Z.mult_int_big_int 2 x))
    (Big_int_Z.mult_int_big_int 2
    ((fun x -> Big_int_Z.succ_big_int (Big_int_Z.mult_int_big_int 2 x))
    (Big_int_Z.mult_int_big_int 2 (Big_int_Z.mult_int_big_int 2
    Big_int_Z.unit_big_int)))))
| X26 ->
  (Big_int_Z.mult_int_big_int 2
    ((fun x -> Big_int_Z.succ_big_int (Big_int_Z.mult_int_big_int 2 x))
    ((fun x -> Big_int_Z.succ_big_int (Big_int_Z.mult_int_big_int 2 x))
    (Big_int_Z.mult_int_big_int 2 (Big_int_Z.mult_int_big_int 2
    Big_int_Z.unit_big_int)))))
| X27 ->
  ((fun x -> Big_int_Z.succ_big_int (Big_int_Z.mult_int_big_int 2 x))
    ((fun x -> Big_int_Z.succ_big_int (Big_int_Z.mult_int_big_int 2 x))
    ((fun x -> Big_int_Z.succ_big_int (Big_int_Z.mult_int_big_int 2 x))
    (Big_int_Z.mult_int_big_int 2 (Big_int_Z.mult_int_big_int 2
    Big_int_Z.unit_big_int)))))
| X28 ->
  (Big_int_Z.mult_int_big_int 2 (Big_int_Z.mult_int_big_int 2
    (Big_int_Z.mult_int_big_int 2
    ((fun x -> Big_int_Z.succ_big_int (Big_int_Z.mult_int_big_int 2 x))
    (Big_int_Z.mult_int_big_int 2 Big_int_Z.unit_big_int)))))
| X29 ->
  ((fun x -> Big_int_Z.succ_big_int (Big_int_Z.mult_int_big_int 2 x))
    (Big_int_Z.mult_int_big_int 2 (Big_int_Z.mult_int_big_int 2
    ((fun x -> Big_int_Z.succ_big_int (Big_int_Z.mult_int_big_int 2 x))
    (Big_int_Z.mult_int_big_int 2 Big_int_Z.unit_big_int)))))
| X2a ->
  (Big_int_Z.mult_int_big_int 2
    ((fun x -> Big_int_Z.succ_big_int (Big_int_Z.mult_int_big_int 2 x))
    (Big_int_Z.mult_int_big_int 2
    ((fun x -> Big_int_Z.succ_big_int (Big_int_Z.mult_int_big_int 2 x))
    (Big_int_Z.mult_int_big_int 2 Big_int_Z.unit_big_int)))))
| X2b ->
  ((fun x -> Big_int_Z.succ_big_int (Big_int_Z.mult_int_big_int 2 x))
    ((fun x -> Big_int_Z.succ_big_int (Big_int_Z.mult_int_big_int 2 x))
    (Big_int_Z.mult_int_big_int 2
    ((fun x -> Big_int_Z.succ_big_int (Big_int_Z.mult_int_big_int 2 x))
    (Big_int_Z.mult_int_big_int 2 Big_int_Z.unit_big_int)))))
| X2c ->
  (Big_int_Z.mult_int_big_int 2 (Big_int_Z.mult_int_big_int 2
    ((fun x -> Big_int_Z.succ_big_int (Big_int_Z.mult_int_big_int 2 x))
    ((fun x -> Big_int_Z.succ_big_int (Big_int_Z.mult_int_big_int 2 x))
    (Big_int_Z.mult_int_big_int 2 Big_int_Z.unit_big_int)))))
| X2d ->
  ((fun x -> Big_int_Z.succ_big_int (Big_int_Z.mult_int_big_int 2 x))
    (Big_int_Z.mult_int_big_int 2
    ((fun x -> Big_int_Z.succ_big_int (Big_int_Z.mult_int_big_int 2 x))
    ((fun x -> Big_int_Z.succ_big_int (Big_int_Z.mult_int_big_int 2 x))
    (Big_int_Z.mult_int_big_int 2 Big_int_Z.unit_big_int)))))
| X2e ->
  (Big_int_Z.mult_int_big_int 2
    ((fun x -> Big_int_Z.succ_big_int (Big_int_Z.mult_int_big_int 2 x))
    ((fun x -> Big_int_Z.succ_big_int (Big_int_Z.mult_int_big_int 2 x))
    ((fun x -> Big_int_Z.succ_big_int (Big_int_Z.mult_int_big_int 2 x))
    (Big_int_Z.mult_int_big_int 2 Big_int_Z.unit_big_int)))))
| X2f ->
  ((fun x -> Big_int_Z.succ_big_int (Big_int_Z.mult_int_big_int 2 x))
    ((fun x -> Big_int_Z.succ_big_int (Big_int_Z.mult_int_big_int 2 x))
    ((fun x -> Big_int_Z.succ_big_int (Big_int_Z.mult_int_big_int 2 x))
    ((fun x -> Big_int_Z.succ_big_int (Big_int_Z.mult_int_big_int 2 x))
    (Big_int_Z.mult_int_big_int 2 Big_int_Z.unit_big_int)))))
| X30 ->
  (Big_int_Z.mult_int_big_int 2 (Big_int_Z.mult_int_big_int 2
    (Big_int_Z.mult_int_big_int 2 (Big_int_Z.mult_int_big_int 2
    ((fun x -> Big_int_Z.succ_big_int (Big_int_Z.mult_int_big_int 2 x))
    Big_int_Z.unit_big_int)))))
| X31 ->
  ((fun x -> Big_int_Z.succ_big_int (Big_int_Z.mult_int_big_int 2 x))
    (Big_int_Z.mult_int_big_int 2 (Big_int_Z.mult_int_big_int 2
    (Big_int_Z.mult_int_big_int 2
    ((fun x -> Big_int_Z.succ_big_int (Big_int_Z.mult_int_big_int 2 x))
    Big_int_Z.unit_big_int)))))
| X32 ->
  (Big_int_Z.mult_int_big_int 2
    ((fun x -> Big_int_Z.succ_big_int (Big_int_Z.mult_int_big_int 2 x))
    (Big_int_Z.mult_int_big_int 2 (Big_int_Z.mult_int_big_int 2
    ((fun x -> Big_int_Z.succ_big_int (Big_int_Z.mult_int_big_int 2 x))
    Big_int_Z.unit_big_int)))))
| X33 ->
  ((fun x -> Big_int_Z.succ_big_int (Big_int_Z.mult_int_big_int 2 x))
    ((fun x -> Big_int_Z.succ_big_int (Big_int_Z.mult_int_big_int 2 x))
    (Big_int_Z.mult_int_big_int 2 (Big_int_Z.mult_int_big_int 2
    ((fun x -> Big_int_Z.succ_big_int (Big_int_Z.mult_int_big_int 2 x))
    Big_int_Z.unit_big_int)))))
| X34 ->
  (Big_int_Z.mult_int_big_int 2 (Big_int_Z.mult_int_big_int 2
    ((fun x -> Big_int_Z.succ_big_int (Big_int_Z.mult_int_big_int 2 x))
    (Big_int_Z.mult_int_big_int 2
    ((fun x -> Big_int_Z.succ_big_int (Big_int_Z.mult_int_big_int 2 x))
    Big_int_Z.unit_big_int)))))
| X35 ->
  ((fun x -> Big_int_Z.succ_big_int (Big_int_Z.mult_int_big_int 2 x))
    (Big_int_Z.mult_int_big_int 2
    ((fun x -> Big_int_Z.succ_big_int (Big_int_Z.mult_int_big_int 2 x))
    (Big_int_Z.mult_int_big_int 2
    ((fun x -> Big_int_Z.succ_big_int (Big_int_Z.mult_int_big_int 2 x))
    Big_int_Z.unit_big_int)))))
| X36 ->
  (Big_int_Z.mult_int_big_int 2
    ((fun x -> Big_int_Z.succ_big_int (Big_int_Z.mult_int_big_int 2 x))
    ((fun x -> Big_int_Z.succ_big_int (Big_int_Z.mult_int_big_int 2 x))
    (Big_int_Z.mult_int_big_int 2
    ((fun x -> Big_int_Z.succ_big_int (Big_int_Z.mult_int_big_int 2 x))
    Big_int_Z.unit_big_int)))))
| X37 ->
  ((fun x -> Big_int_Z.succ_big_int (Big_int_Z.mult_int_big_int 2 x))
    ((fun x -> Big_int_Z.succ_big_int (Big_int_Z.mult_int_big_int 2 x))
    ((fun x -> Big_int_Z.succ_big_int (Big_int_Z.mult_int_big_int 2 x))
    (Big_int_Z.mult_int_big_int 2
    ((fun x -> Big_int_Z.succ_big_int (Big_int_Z.mult_int_big_int 2 x))
    Big_int_Z.unit_big_int)))))
| X38 ->
  (Big_int_Z.mult_int_big_int 2 (Big_int_Z.mult_int_big_int 2
    (Big_int_Z.mult_int_big_int 2
    ((fun x -> Big_int_Z.succ_big_int (Big_int_Z.mult_int_big_int 2 x))
    ((fun x -> Big_int_Z.succ_big_int (Big_int_Z.mult_int_big_int 2 x))
    Big_int_Z.unit_big_int)))))
| X39 ->
  ((fun x -> Big_int_Z.succ_big_int (Big_int_Z.mult_int_big_int 2 x))
    (Big_int_Z.mult_int_big_int 2 (Big_int_Z.mult_int_big_int 2
    ((fun x -> Big_int_Z.succ_big_int (Big_int_Z.mult_int_big_int 2 x))
    ((fun x -> Big_int_Z.succ_big_int (Big_int_Z.mult_int_big_int 2 x))
    Big_int_Z.unit_big_int)))))
| X3a ->
  (Big_int_Z.mult_int_big_int 2
    ((fun x -> Big_int_Z.succ_big_int (Big_int_Z.mult_int_big_int 2 x))
    (Big_int_Z.mult_int_big_int 2
    ((fun x -> Big_int_Z.succ_big_int (Big_int_Z.mult_int_big_int 2 x))
    ((fun x -> Big_int_Z.succ_big_int (Big_int_Z.mult_int_big_int 2 x))
    Big_int_Z.unit_big_int)))))
| X3b ->
  ((fun x -> Big_int_Z.succ_big_int (Big_int_Z.mult_int_big_int 2 x))
    ((fun x -> Big_int_Z.succ_big_int (Big_int_Z.mult_int_big_int 2 x))
    (Big_int_Z.mult_int_big_int 2
    ((fun x -> Big_int_Z.succ_big_int (Big_int_Z.mult_int_big_int 2 x))
    ((fun x -> Big_int_Z.succ_big_int (Big_int_Z.mult_int_big_int 2 x))
    Big_int_Z.unit_big_int)))))
| X3c ->
  (Big_int_Z.mult_int_big_int 2 (Big_int_Z.mult_int_big_int 2
    ((fun x -> Big_int_Z.succ_big_int (Big_int_Z.mult_int_big_int 2 x))
    ((fun x -> Big_int_Z.succ_big_int (Big_int_Z.mult_int_big_int 2 x))
    ((fun x -> Big_int_Z.succ_big_int (Big_int_Z.mult_int_big_int 2 x))
    Big_int_Z.unit_big_int)))))
| X3d ->
  ((fun x -> Big_int_Z.succ_big_int (Big_int_Z.mult_int_big_int 2 x))
    (Big_int_Z.mult_int_big_int 2
    ((fun x -> Big_int_Z.succ_big_int (Big_int_Z.mult_int_big_int 2 x))
    ((fun x -> Big_int_Z.succ_big_int (Big_int_Z.mult_int_big_int 2 x))
    ((fun x -> Big_int_Z.succ_big_int (Big_int_Z.mult_int_big_int 2 x))
    Big_int_Z.unit_big_int)))))
| X3e ->
  (Big_int_Z.mult_int_big_int 2
    ((fun x -> Big_int_Z.succ_big_int (Big_int_Z.mult_int_big_int 2 x))
    ((fun x -> Big_int_Z.succ_big_int (Big_int_Z.mult_int_big_int 2 x))
    ((fun x -> Big_int_Z.succ_big_int (Big_int_Z.mult_int_big_int 2 x))
    ((fun x -> Big_int_Z.succ_big_int (Big_int_Z.mult_int_big_int 2 x))
    Big_int_Z.unit_big_int)))))
| X3f ->
  ((fun x -> Big_int_Z.succ_big_int (Big_int_Z.mult_int_big_int 2 x))
    ((fun x -> Big_int_Z.succ_big_int (Big_int_Z.mult_int_big_int 2 x))
    ((fun x -> Big_int_Z.succ_big_int (Big_int_Z.mult_int_big_int 2 x))
    ((fun x -> Big_int_Z.succ_big_int (Big_int_Z.mult_int_big_int 2 x))
    ((fun x -> Big_int_Z.succ_big_int (Big_int_Z.mult_int_big_int 2 x))
    Big_int_Z.unit_big_int)))))
| X40 ->
  (Big_int_Z.mult_int_big_int 2 (Big_int_Z.mult_int_big_int 2
    (Big_int_Z.mult_int_big_int 2 (Big_int_Z.mult_int_big_int 2
    (Big_int_Z.mult_int_big_int 2 (Big_int_Z.mult_int_big_int 2
    Big_int_Z.unit_big_int))))))
| X41 ->
  ((fun x -> Big_int_Z.succ_big_int (Big_int_Z.mult_int_big_int 2 x))
    (Big_int_Z.mult_int_big_int 2 (Big_int_Z.mult_int_big_int 2
    (Big_int_Z.mult_int_big_int 2 (Big_int_Z.mult_int_big_int 2
    (Big_int_Z.mult_int_big_int 2 Big_int_Z.unit_big_int))))))
| X42 ->
  (Big_int_Z.mult_int_big_int 2
    ((fun x -> Big_int_Z.succ_big_int (Big_int_Z.mult_int_big_int 2 x))
    (Big_int_Z.mult_int_big_int 2 (Big_int_Z.mult_int_big_int 2
    (Big_int_Z.mult_int_big_int 2 (Big_int_Z.mult_int_big_int 2
    Big_int_Z.unit_big_int))))))
| X43 ->
  ((fun x -> Big_int_Z.succ_big_int (Big_int_Z.mult_int_big_int 2 x))
    ((fun x -> Big_int_Z.succ_big_int (Big_int_Z.mult_int_big_int 2 x))
    (Big_int_Z.mult_int_big_int 2 (Big_int_Z.mult_int_big_int 2
    (Big_int_Z.mult_int_big_int 2 (Big_int_Z.mult_int_big_int 2
    Big_int_Z.unit_big_int))))))
| X44 ->
  (Big_int_Z.mult_int_big_int 2 (Big_int_Z.mult_int_big_int 2
    ((fun x -> Big_int_Z.succ_big_int (Big_int_Z.mult_int_big_int 2 x))
    (Big_int_Z.mult_int_big_int 2 (Big_int_Z.mult_int_big_int 2
    (Big_int_Z.mult_int_big_int 2 Big_int_Z.unit_big_int))))))
| X45 ->
  ((fun x -> Big_int_Z.succ_big_int (Big_int_Z.mult_int_big_int 2 x))
    (Big_int_Z.mult_int_big_int 2
    ((fun x -> Big_int_Z.succ_big_int (Big_int_Z.mult_int_big_int 2 x))
    (Big_int_Z.mult_int_big_int 2 (Big_int_Z.mult_int_big_int 2
    (Big_int_Z.mult_int_big_int 2 Big_int_Z.unit_big_int))))))
| X46 ->
  (Big_int_Z.mult_int_big_int 2
    ((fun x -> Big_int_Z.succ_big_int (Big_int_Z.mult_int_big_int 2 x))
    ((fun x -> Big_int_Z.succ_big_int (Big_int_Z.mult_int_big_int 2 x))
    (Big_int_Z.mult_int_big_int 2 (Big_int_Z.mult_int_big_int 2
    (Big_int_Z.mult_int_big_int 2 Big_int_Z.unit_big_int))))))
| X47 ->
  ((fun x -> Big_int_Z.succ_big_int (Big_int_Z.mult_int_big_int 2 x))
    ((fun x -> Big_int_Z.succ_big_int (Big_int_Z.mult_int_big_int 2 x))
    ((fun x -> Big_int_Z.succ_big_int (Big_int_Z.mult_int_big_int 2 x))
    (Big_int_Z.mult_int_big_int 2 (Big_int_Z.mult_int_big_int 2
    (Big_int_Z.mult_int_big_int 2 Big_int_Z.unit_big_int))))))
| X48 ->
  (Big_int_Z.mult_int_big_int 2 (Big_int_Z.mult_int_big_int 2
    (Big_int_Z.mult_int_big_int 2
    ((fun x -> Big_int_Z.succ_big_int (Big_int_Z.mult_int_big_int 2 x))
    (Big_int_Z.mult_int_big_int 2 (Big_int_Z.mult_int_big_int 2
    Big_int_Z.unit_big_int))))))
| X49 ->
  ((fun x -> Big_int_Z.succ_big_int (Big_int_Z.mult_int_big_int 2 x))
    (Big_int_Z.mult_int_big_int 2 (Big_int_Z.mult_int_big_int 2
    ((fun x -> Big_int_Z.succ_big_int (Big_int_Z.mult_int_big_int 2 x))
    (Big_int_Z.mult_int_big_int 2 (Big_int_Z.mult_int_big_int 2
    Big_int_Z.unit_big_int))))))
| X4a ->
  (Big_int_Z.mult_int_big_int 2
    ((fun x -> Big_int_Z.succ_big_int (Big_int_Z.mult_int_big_int 2 x))
    (Big_int_Z.mult_int_big_int 2
    ((fun x -> Big_int_Z.succ_big_int (Big_int_Z.mult_int_big_int 2 x))
    (Big_int_Z.mult_int_big_int 2 (Big_int_Z.mult_int_big_int 2
    Big_int_Z.unit_big_int))))))
| X4b ->
  ((fun x -> Big_int_Z.succ_big_int (Big_int_Z.mult_int_big_int 2 x))
    ((fun x -> Big_int_Z.succ_big_int (Big_int_Z.mult_int_big_int 2 x))
    (Big_int_Z.mult_int_big_int 2
    ((fun x -> Big_int_Z.succ_big_int (Big_int_Z.mult_int_big_int 2 x))
    (Big_int_Z.mult_int_big_int 2 (Big_int_Z.mult_int_big_int 2
    Big_int_Z.unit_big_int))))))
| X4c ->
  (Big_int_Z.mult_int_big_int 2 (Big_int_Z.mult_int_big_int 2
    ((fun x -> Big_int_Z.succ_big_int (Big_int_Z.mult_int_big_int 2 x))
    ((fun x -> Big_int_Z.succ_big_int (Big_int_Z.mult_int_big_int 2 x))
    (Big_int_Z.mult_int_big_int 2 (Big_int_Z.mult_int_big_int 2
    Big_int_Z.unit_big_int))))))
| X4d ->
  ((fun x -> Big_int_Z.succ_big_int (Big_int_Z.mult_int_big_int 2 x))
    (Big_int_Z.mult_int_big_int 2
    ((fun x -> Big_int_Z.succ_big_int (Big_int_Z.mult_int_big_int 2 x))
    ((fun x -> Big_int_Z.succ_big_int (Big_int_Z.mult_int_big_int 2 x))
    (Big_int_Z.mult_int_big_int 2 (Big_int_Z.mult_int_big_int 2
    Big_int_Z.unit_big_int))))))
| X4e ->
  (Big_int_Z.mult_int_big_int 2
    ((fun x -> Big_int_Z.succ_big_int (Big_int_Z.mult_int_big_int 2 x))
    ((fun x -> Big_int_Z.succ_big_int (Big_int_Z.mult_int_big_int 2 x))
    ((fun x -> Big_int_Z.succ_big_int (Big_int_Z.mult_int_big_int 2 x))
    (Big_int_Z.mult_int_big_int 2 (Big_int_Z.mult_int_big_int 2
    Big_int_Z.unit_big_int))))))
| X4f ->
  ((fun x -> Big_int_Z.succ_big_int (Big_int_Z.mult_int_big_int 2 x))
    ((fun x -> Big_int_Z.succ_big_int (Big_int_Z.mult_int_big_int 2 x))
    ((fun x -> Big_int_Z.succ_big_int (Big_int_Z.mult_int_big_int 2 x))
    ((fun x -> Big_int_Z.succ_big_int (Big_int_Z.mult_int_big_int 2 x))
    (Big_int_Z.mult_int_big_int 2 (Big_int_Z.mult_int_big_int 2
    Big_int_Z.unit_big_int))))))
| X50 ->
  (Big_int_Z.mult_int_big_int 2 (Big_int_Z.mult_int_big_int 2
    (Big_int_Z.mult_int_big_int 2 (Big_int_Z.mult_int_big_int 2
    ((fun x -> Big_int_Z.succ_big_int (Big_int_Z.mult_int_big_int 2 x))
    (Big_int_Z.mult_int_big_int 2 Big_int_Z.unit_big_int))))))
| X51 ->
  ((fun x -> Big_int_Z.succ_big_int (Big_int_Z.mult_int_big_int 2 x))
    (Big_int_Z.mult_int_big_int 2 (Big_int_Z.mult_int_big_int 2
    (Big_int_Z.mult_int_big_int 2
    ((fun x -> Big_int_Z.succ_big_int (Big_int_Z.mult_int_big_int 2 x))
    (Big_int_Z.mult_int_big_int 2 Big_int_Z.unit_big_int))))))
| X52 ->
  (Big_int_Z.mult_int_big_int 2
    ((fun x -> Big_int_Z.succ_big_int (Big_int_Z.mult_int_big_int 2 x))
    (Big_int_Z.mult_int_big_int 2 (Big_int_Z.mult_int_big_int 2
    ((fun x -> Big_int_Z.succ_big_int (Big_int_Z.mult_int_big_int 2 x))
    (Big_int_Z.mult_int_big_int 2 Big_int_Z.unit_big_int))))))
| X53 ->
  ((fun x -> Big_int_Z.succ_big_int (Big_int_Z.mult_int_big_int 2 x))
    ((fun x -> Big_int_Z.succ_big_int (Big_int_Z.mult_int_big_int 2 x))
    (Big_int_Z.mult_int_big_int 2 (Big_int_Z.mult_int_big_int 2
    ((fun x -> Big_int_Z.succ_big_int (Big_int_Z.mult_int_big_int 2 x))
    (Big_int_Z.mult_int_big_int 2 Big_int_Z.unit_big_int))))))
| X54 ->
  (Big_int_Z.mult_int_big_int 2 (Big_int_Z.mult_int_big_int 2
    ((fun x -> Big_int_Z.succ_big_int (Big_int_Z.mult_int_big_int 2 x))
    (Big_int_Z.mult_int_big_int 2
    ((fun x -> Big_int_Z.succ_big_int (Big_int_Z.mult_int_big_int 2 x))
    (Big_int_Z.mult_int_big_int 2 Big_int_Z.unit_big_int))))))
| X55 ->
  ((fun x -> Big_int_Z.succ_big_int (Big_int_Z.mult_int_big_int 2 x))
    (Big_int_Z.mult_int_big_int 2
    ((fun x -> Big_int_Z.succ_big_int (Big_int_Z.mult_int_big_int 2 x))
    (Big_int_Z.mult_int_big_int 2
    ((fun x -> Big_int_Z.succ_big_int (Big_int_Z.mult_int_big_int 2 x))
    (Big_int_Z.mult_int_big_int 2 Big_int_Z.unit_big_int))))))
| X56 ->
  (Big_int_Z.mult_int_big_int 2
    ((fun x -> Big_int_Z.succ_big_int (Big_int_Z.mult_int_big_int 2 x))
    ((fun x -> Big_int_Z.succ_big_int (Big_int_Z.mult_int_big_int 2 x))
    (Big_int_Z.mult_int_big_int 2
    ((fun x -> Big_int_Z.succ_big_int (Big_int_Z.mult_int_big_int 2 x))
    (Big_int_Z.mult_int_big_int 2 Big_int_Z.unit_big_int))))))
| X57 ->
  ((fun x -> Big_int_Z.succ_big_int (Big_int_Z.mult_int_big_int 2 x))
    ((fun x -> Big_int_Z.succ_big_int (Big_int_Z.mult_int_big_int 2 x))
    ((fun x -> Big_int_Z.succ_big_int (Big_int_Z.mult_int_big_int 2 x))
    (Big_int_Z.mult_int_big_int 2
    ((fun x -> Big_int_Z.succ_big_int (Big_int_Z.mult_int_big_int 2 x))
    (Big_int_Z.mult_int_big_int 2 Big_int_Z.unit_big_int))))))
| X58 ->
  (Big_int_Z.mult_int_big_int 2 (Big_int_Z.mult_int_big_int 2
    (Big_int_Z.mult_int_big_int 2
    ((fun x -> Big_int_Z.succ_big_int (Big_int_Z.mult_int_big_int 2 x))
    ((fun x -> Big_int_Z.succ_big_int (Big_int_Z.mult_int_big_int 2 x))
    (Big_int_Z.mult_int_big_int 2 Big_int_Z.unit_big_int))))))
| X59 ->
  ((fun x -> Big_int_Z.succ_big_int (Big_int_Z.mult_int_big_int 2 x))
    (Big_int_Z.mult_int_big_int 2 (Big_int_Z.mult_int_big_int 2
    ((fun x -> Big_int_Z.succ_big_int (Big_int_Z.mult_int_big_int 2 x))
    ((fun x -> Big_int_Z.succ_big_int (Big_int_Z.mult_int_big_int 2 x))
    (Big_int_Z.mult_int_big_int 2 Big_int_Z.unit_big_int))))))
| X5a ->
  (Big_int_Z.mult_int_big_int 2
    ((fun x -> Big_int_Z.succ_big_int (Big_int_Z.mult_int_big_int 2 x))
    (Big_int_Z.mult_int_big_int 2
    ((fun x -> Big_int_Z.succ_big_int (Big_int_Z.mult_int_big_int 2 x))
    ((fun x -> Big_int_Z.succ_big_int (Big_int_Z.mult_int_big_int 2 x))
    (Big_int_Z.mult_int_big_int 2 Big_int_Z.unit_big_int))))))
| X5b ->
  ((fun x -> Big_int_Z.succ_big_int (Big_int_Z.mult_int_big_int 2 x))
    ((fun x -> Big_int_Z.succ_big_int (Big_int_Z.mult_int_big_int 2 x))
    (Big_int_Z.mult_int_big_int 2
    ((fun x -> Big_int_Z.succ_big_int (Big_int_Z.mult_int_big_int 2 x))
    ((fun x -> Big_int_Z.succ_big_int (Big_int_Z.mult_int_big_int 2 x))
    (Big_int_Z.mult_int_big_int 2 Big_int_Z.unit_big_int))))))
| X5c ->
  (Big_int_Z.mult_int_big_int 2 (Big_int_Z.mult_int_big_int 2
    ((fun x -> Big_int_Z.succ_big_int (Big_int_Z.mult_int_big_int 2 x))
    ((fun x -> Big_int_Z.succ_big_int (Big_int_Z.mult_int_big_int 2 x))
    ((fun x -> Big_int_Z.succ_big_int (Big_int_Z.mult_int_big_int 2 x))
    (Big_int_Z.mult_int_big_int 2 Big_int_Z.unit_big_int))))))
| X5d ->
  ((fun x -> Big_int_Z.succ_big_int (Big_int_Z.mult_int_big_int 2 x))
    (Big_int_Z.mult_int_big_int 2
    ((fun x -> Big_int_Z.succ_big_int (Big_int_Z.mult_int_big_int 2 x))
    ((fun x -> Big_int_Z.succ_big_int (Big_int_Z.mult_int_big_int 2 x))
    ((fun x -> Big_int_Z.succ_big_int (Big_int_Z.mult_int_big_int 2 x))
    (Big_int_Z.mult_int_big_int 2 Big_int_Z.unit_big_int))))))
| X5e ->
  (Big_int_Z.mult_int_big_int 2
    ((fun x -> Big_int_Z.succ_big_int (Big_int_Z.mult_int_big_int 2 x))
    ((fun x -> Big_int_Z.succ_big_int (Big_int_Z.mult_int_big_int 2 x))
    ((fun x -> Big_int_Z.succ_big_int (Big_int_Z.mult_int_big_int 2 x))
    ((fun x -> Big_int_Z.succ_big_int (Big_int_Z.mult_int_big_int 2 x))
    (Big_int_Z.mult_int_big_int 2 Big_int_Z.unit_big_int))))))
| X5f ->
  ((fun x -> Big_int_Z.succ_big_int (Big_int_Z.mult_int_big_int 2 x))
    ((fun x -> Big_int_Z.succ_big_int (Big_int_Z.mult_int_big_int 2 x))
    ((fun x -> Big_int_Z.succ_big_int (Big_int_Z.mult_int_big_int 2 x))
    ((fun x -> Big_int_Z.succ_big_int (Big_int_Z.mult_int_big_int 2 x))
    ((fun x -> Big_int_Z.succ_big_int (Big_int_Z.mult_int_big_int 2 x))
    (Big_int_Z.mult_int_big_int 2 Big_int_Z.unit_big_int))))))
| X60 ->
  (Big_int_Z.mult_int_big_int 2 (Big_int_Z.mult_int_big_int 2
    (Big_int_Z.mult_int_big_int 2 (Big_int_Z.mult_int_big_int 2
    (Big_int_Z.mult_int_big_int 2
    ((fun x -> Big_int_Z.succ_big_int (Big_int_Z.mult_int_big_int 2 x))
    Big_int_Z.unit_big_int))))))
| X61 ->
  ((fun x -> Big_int_Z.succ_big_int (Big_int_Z.mult_int_big_int 2 x))
    (Big_int_Z.mult_int_big_int 2 (Big_int_Z.mult_int_big_int 2
    (Big_int_Z.mult_int_big_int 2 (Big_int_Z.mult_int_big_int 2
    ((fun x -> Big_int_Z.succ_big_int (Big_int_Z.mult_int_big_int 2 x))
    Big_int_Z.unit_big_int))))))
| X62 ->
  (Big_int_Z.mult_int_big_int 2
    ((fun x -> Big_int_Z.succ_big_int (Big_int_Z.mult_int_big_int 2 x))
    (Big_int_Z.mult_int_big_int 2 (Big_int_Z.mult_int_big_int 2
    (Big_int_Z.mult_int_big_int 2
    ((fun x -> Big_int_Z.succ_big_int (Big_int_Z.mult_int_big_int 2 x))
    Big_int_Z.unit_big_int))))))
| X63 ->
  ((fun x -> Big_int_Z.succ_big_int (Big_int_Z.mult_int_big_int 2 x))
    ((fun x -> Big_int_Z.succ_big_int (Big_int_Z.mult_int_big_int 2 x))
    (Big_int_Z.mult_int_big_int 2 (Big_int_Z.mult_int_big_int 2
    (Big_int_Z.mult_int_big_int 2
    ((fun x -> Big_int_Z.succ_big_int (Big_int_Z.mult_int_big_int 2 x))
    Big_int_Z.unit_big_int))))))
| X64 ->
  (Big_int_Z.mult_int_big_int 2 (Big_int_Z.mult_int_big_int 2
    ((fun x -> Big_int_Z.succ_big_int (Big_int_Z.mult_int_big_int 2 x))
    (Big_int_Z.mult_int_big_int 2 (Big_int_Z.mult_int_big_int 2
    ((fun x -> Big_int_Z.succ_big_int (Big_int_Z.mult_int_big_int 2 x))
    Big_int_Z.unit_big_int))))))
| X65 ->
  ((fun x -> Big_int_Z.succ_big_int (Big_int_Z.mult_int_big_int 2 x))
    (Big_int_Z.mult_int_big_int 2
    ((fun x -> Big_int_Z.succ_big_int (Big_int_Z.mult_int_big_int 2 x))
    (Big_int_Z.mult_int_big_int 2 (Big_int_Z.mult_int_big_int 2
    ((fun x -> Big_int_Z.succ_big_int (Big_int_Z.mult_int_big_int 2 x))
    Big_int_Z.unit_big_int))))))
| X66 ->
  (Big_int_Z.mult_int_big_int 2
    ((fun x -> Big_int_Z.succ_big_int (Big_int_Z.mult_int_big_int 2 x))
    ((fun x -> Big_int_Z.succ_big_int (Big_int_Z.mult_int_big_int 2 x))
    (Big_int_Z.mult_int_big_int 2 (Big_int_Z.mult_int_big_int 2
    ((fun x -> Big_int_Z.succ_big_int (Big_int_Z.mult_int_big_int 2 x))
    Big_int_Z.unit_big_int))))))
| X67 ->
  ((fun x -> Big_int_Z.succ_big_int (Big_int_Z.mult_int_big_int 2 x))
    ((fun x -> Big_int_Z.succ_big_int (Big_int_Z.mult_int_big_int 2 x))
    ((fun x -> Big_int_Z.succ_big_int (Big_int_Z.mult_int_big_int 2 x))
    (Big_int_Z.mult_int_big_int 2 (Big_int_Z.mult_int_big_int 2
    ((fun x -> Big_int_Z.succ_big_int (Big_int_Z.mult_int_big_int 2 x))
    Big_int_Z.unit_big_int))))))
| X68 ->
  (Big_int_Z.mult_int_big_int 2 (Big_int_Z.mult_int_big_int 2
    (Big_int_Z.mult_int_big_int 2
    ((fun x -> Big_int_Z.succ_big_int (Big_int_Z.mult_int_big_int 2 x))
    (Big_int_Z.mult_int_big_int 2
    ((fun x -> Big_int_Z.succ_big_int (Big_int_Z.mult_int_big_int 2 x))
    Big_int_Z.unit_big_int))))))
| X69 ->
  ((fun x -> Big_int_Z.succ_big_int (Big_int_Z.mult_int_big_int 2 x))
    (Big_int_Z.mult_int_big_int 2 (Big_int_Z.mult_int_big_int 2
    ((fun x -> Big_int_Z.succ_big_int (Big_int_Z.mult_int_big_int 2 x))
    (Big_int_Z.mult_int_big_int 2
    ((fun x -> Big_int_Z.succ_big_int (Big_int_Z.mult_int_big_int 2 x))
    Big_int_Z.unit_big_int))))))
| X6a ->
  (Big_int_Z.mult_int_big_int 2
    ((fun x -> Big_int_Z.succ_big_int (Big_int_Z.mult_int_big_int 2 x))
    (Big_int_Z.mult_int_big_int 2
    ((fun x -> Big_int_Z.succ_big_int (Big_int_Z.mult_int_big_int 2 x))
    (Big_int_Z.mult_int_big_int 2
    ((fun x -> Big_int_Z.succ_big_int (Big_int_Z.mult_int_big_int 2 x))
    Big_int_Z.unit_big_int))))))
| X6b ->
  ((fun x -> Big_int_Z.succ_big_int (Big_int_Z.mult_int_big_int 2 x))
    ((fun x -> Big_int_Z.succ_big_int (Big_int_Z.mult_int_big_int 2 x))
    (Big_int_Z.mult_int_big_int 2
    ((fun x -> Big_int_Z.succ_big_int (Big_int_Z.mult_int_big_int 2 x))
    (Big_int_Z.mult_int_big_int 2
    ((fun x -> Big_int_Z.succ_big_int (Big_int_Z.mult_int_big_int 2 x))
    Big_int_Z.unit_big_int))))))
| X6c ->
  (Big_int_Z.mult_int_big_int 2 (Big_int_Z.mult_int_big_int 2
    ((fun x -> Big_int_Z.succ_big_int (Big_int_Z.mult_int_big_int 2 x))
    ((fun x -> Big_int_Z.succ_big_int (Big_int_Z.mult_int_big_int 2 x))
    (Big_int_Z.mult_int_big_int 2
    ((fun x -> Big_int_Z.succ_big_int (Big_int_Z.mult_int_big_int 2 x))
    Big_int_Z.unit_big_int))))))
| X6d ->
  ((fun x -> Big_int_Z.succ_big_int (Big_int_Z.mult_int_big_int 2 x))
    (Big_int_Z.mult_int_big_int 2
    ((fun x -> Big_int_Z.succ_big_int (Big_int_Z.mult_int_big_int 2 x))
    ((fun x -> Big_int_Z.succ_big_int (Big_int_Z.mult_int_big_int 2 x))
    (Big_int_Z.mult_int_big_int 2
    ((fun x -> Big_int_Z.succ_big_int (Big_int_Z.mult_int_big_int 2 x))
    Big_int_Z.unit_big_int))))))
| X6e ->
  (Big_int_Z.mult_int_big_int 2
    ((fun x -> Big_int_Z.succ_big_int (Big_int_Z.mult_int_big_int 2 x))
    ((fun x -> Big_int_Z.succ_big_int (Big_int_Z.mult_int_big_int 2 x))
    ((fun x -> Big_int_Z.succ_big_int (Big_int_Z.mult_int_big_int 2 x))
    (Big_int_Z.mult_int_big_int 2
    ((fun x -> Big_int_Z.succ_big_int (Big_int_Z.mult_int_big_int 2 x))
    Big_int_Z.unit_big_int))))))
| X6f ->
  ((fun x -> Big_int_Z.succ_big_int (Big_int_Z.mult_int_big_int 2 x))
    ((fun x -> Big_int_Z.succ_big_int (Big_int_Z.mult_int_big_int 2 x))
    ((fun x -> Big_int_Z.succ_big_int (Big_int_Z.mult_int_big_int 2 x))
    ((fun x -> Big_int_Z.succ_big_int (Big_int_Z.mult_int_big_int 2 x))
    (Big_int_Z.mult_int_big_int 2
    ((fun x -> Big_int_Z.succ_big_int (Big_int_Z.mult_int_big_int 2 x))
    Big_int_Z.unit_big_int))))))
| X70 ->
  (Big_int_Z.mult_int_big_int 2 (Big_int_Z.mult_int_big_int 2
    (Big_int_Z.mult_int_big_int 2 (Big_int_Z.mult_int_big_int 2
    ((fun x -> Big_int_Z.succ_big_int (Big_int_Z.mult_int_big_int 2 x))
    ((fun x -> Big_int_Z.succ_big_int (Big_int_Z.mult_int_big_int 2 x))
    Big_int_Z.unit_big_int))))))
| X71 ->
  ((fun x -> Big_int_Z.succ_big_int (Big_int_Z.mult_int_big_int 2 x))
    (Big_int_Z.mult_int_big_int 2 (Big_int_Z.mult_int_big_int 2
    (Big_int_Z.mult_int_big_int 2
    ((fun x -> Big_int_Z.succ_big_int (Big_int_Z.mult_int_big_int 2 x))
    ((fun x -> Big_int_Z.succ_big_int (Big_int_Z.mult_int_big_int 2 x))
    Big_int_Z.unit_big_int))))))
| X72 ->
  (Big_int_Z.mult_int_big_int 2
    ((fun x -> Big_int_Z.succ_big_int (Big_int_Z.mult_int_big_int 2 x))
    (Big_int_Z.mult_int_big_int 2 (Big_int_Z.mult_int_big_int 2
    ((fun x -> Big_int_Z.succ_big_int (Big_int_Z.mult_int_big_int 2 x))
    ((fun x -> Big_int_Z.succ_big_int (Big_int_Z.mult_int_big_int 2 x))
    Big_int_Z.unit_big_int))))))
| X73 ->
  ((fun x -> Big_int_Z.succ_big_int (Big_int_Z.mult_int_big_int 2 x))
    ((fun x -> Big_int_Z.succ_big_int (Big_int_Z.mult_int_big_int 2 x))
    (Big_int_Z.mult_int_big_int 2 (Big_int_Z.mult_int_big_int 2
    ((fun x -> Big_int_Z.succ_big_int (Big_int_Z.mult_int_big_int 2 x))
    ((fun x -> Big_int_Z.succ_big_int (Big_int_Z.mult_int_big_int 2 x))
    Big_int_Z.unit_big_int))))))
| X74 ->
  (Big_int_Z.mult_int_big_int 2 (Big_int_Z.mult_int_big_int 2
    ((fun x -> Big_int_Z.succ_big_int (Big_int_Z.mult_int_big_int 2 x))
    (Big_int_Z.mult_int_big_int 2
    ((fun x -> Big_int_Z.succ_big_int (Big_int_Z.mult_int_big_int 2 x))
    ((fun x -> Big_int_Z.succ_big_int (Big_int_Z.mult_int_big_int 2 x))
    Big_int_Z.unit_big_int))))))
| X75 ->
  ((fun x -> Big_int_Z.succ_big_int (Big_int_Z.mult_int_big_int 2 x))
    (Big_int_Z.mult_int_big_int 2
    ((fun x -> Big_int_Z.succ_big_int (Big_int_Z.mult_int_big_int 2 x))
    (Big_int_Z.mult_int_big_int 2
    ((fun x -> Big_int_Z.succ_big_int (Big_int_Z.mult_int_big_int 2 x))
    ((fun x -> Big_int_Z.succ_big_int (Big_int_Z.mult_int_big_int 2 x))
    Big_int_Z.unit_big_int))))))
| X76 ->
  (Big_int_Z.mult_int_big_int 2
    ((fun x -> Big_int_Z.succ_big_int (Big_int_Z.mult_int_big_int 2 x))
    ((fun x -> Big_int_Z.succ_big_int (Big_int_Z.mult_int_big_int 2 x))
    (Big_int_Z.mult_int_big_int 2
    ((fun x -> Big_int_Z.succ_big_int (Big_int_Z.mult_int_big_int 2 x))
    ((fun x -> Big_int_Z.succ_big_int (Big_int_Z.mult_int_big_int 2 x))
    Big_int_Z.unit_big_int))))))
| X77 ->
  ((fun x -> Big_int_Z.succ_big_int (Big_int_Z.mult_int_big_int 2 x))
    ((fun x -> Big_int_Z.succ_big_int (Big_int_Z.mult_int_big_int 2 x))
    ((fun x -> Big_int_Z.succ_big_int (Big_int_Z.mult_int_big_int 2 x))
    (Big_int_Z.mult_int_big_int 2
    ((fun x -> Big_int_Z.succ_big_int (Big_int_Z.mult_int_big_int 2 x))
    ((fun x -> Big_int_Z.succ_big_int (Big_int_Z.mult_int_big_int 2 x))
    Big_int_Z.unit_big_int))))))
| X78 ->
  (Big_int_Z.mult_int_big_int 2 (Big_int_Z.mult_int_big_int 2
    (Big_int_Z.mult_int_big_int 2
    ((fun x -> Big_int_Z.succ_big_int (Big_int_Z.mult_int_big_int 2 x))
    ((fun x -> Big_int_Z.succ_big_int (Big_int_Z.mult_int_big_int 2 x))
    ((fun x -> Big_int_Z.succ_big_int (Big_int_Z.mult_int_big_int 2 x))
    Big_int_Z.unit_big_int))))))
| X79 ->
  ((fun x -> Big_int_Z.succ_big_int (Big_int_Z.mult_int_big_int 2 x))
    (Big_int_Z.mult_int_big_int 2 (Big_int_Z.mult_int_big_int 2
    ((fun x -> Big_int_Z.succ_big_int (Big_int_Z.mult_int_big_int 2 x))
    ((fun x -> Big_int_Z.succ_big_int (Big_int_Z.mult_int_big_int 2 x))
    ((fun x -> Big_int_Z.succ_big_int (Big_int_Z.mult_int_big_int 2 x))
    Big_int_Z.unit_big_int))))))
| X7a ->
  (Big_int_Z.mult_int_big_int 2
    ((fun x -> Big_int_Z.succ_big_int (Big_int_Z.mult_int_big_int 2 x))
    (Big_int_Z.mult_int_big_int 2
    ((fun x -> Big_int_Z.succ_big_int (Big_int_Z.mult_int_big_int 2 x))
    ((fun x -> Big_int_Z.succ_big_int (Big_int_Z.mult_int_big_int 2 x))
    ((fun x -> Big_int_Z.succ_big_int (Big_int_Z.mult_int_big_int 2 x))
    Big_int_Z.unit_big_int))))))
| X7b ->
  ((fun x -> Big_int_Z.succ_big_int (Big_int_Z.mult_int_big_int 2 x))
    ((fun x -> Big_int_Z.succ_big_int (Big_int_Z.mult_int_big_int 2 x))
    (Big_int_Z.mult_int_big_int 2
    ((fun x -> Big_int_Z.succ_big_int (Big_int_Z.mult_int_big_int 2 x))
    ((fun x -> Big_int_Z.succ_big_int (Big_int_Z.mult_int_big_int 2 x))
    ((fun x -> Big_int_Z.succ_big_int (Big_int_Z.mult_int_big_int 2 x))
    Big_int_Z.unit_big_int))))))
| X7c ->
  (Big_int_Z.mult_int_big_int 2 (Big_int_Z.mult_int_big_int 2
    ((fun x -> Big_int_Z.succ_big_int (Big_int_Z.mult_int_big_int 2 x))
    ((fun x -> Big_int_Z.succ_big_int (Big_int_Z.mult_int_big_int 2 x))
    ((fun x -> Big_int_Z.succ_big_int (Big_int_Z.mult_int_big_int 2 x))
    ((fun x -> Big_int_Z.succ_big_int (Big_int_Z.mult_int_big_int 2 x))
    Big_int_Z.unit_big_int))))))
| X7d ->
  ((fun x -> Big_int_Z.succ_big_int (Big_int_Z.mult_int_big_int 2 x))
    (Big_int_Z.mult_int_big_int 2
    ((fun x -> Big_int_Z.succ_big_int (Big_int_Z.mult_int_big_int 2 x))
    ((fun x -> Big_int_Z.succ_big_int (Big_int_Z.mult_int_big_int 2 x))
    ((fun x -> Big_int_Z.succ_big_int (Big_int_Z.mult_int_big_int 2 x))
    ((fun x -> Big_int_Z.succ_big_int (Big_int_Z.mult_int_big_int 2 x))
    Big_int_Z.unit_big_int))))))
| X7e ->
  (Big_int_Z.mult_int_big_int 2
    ((fun x -> Big_int_Z.succ_big_int (Big_int_Z.mult_int_big_int 2 x))
    ((fun x -> Big_int_Z.succ_big_int (Big_int_Z.mult_int_big_int 2 x))
    ((fun x -> Big_int_Z.succ_big_int (Big_int_Z.mult_int_big_int 2 x))
    ((fun x -> Big_int_Z.succ_big_int (Big_int_Z.mult_int_big_int 2 x))
    ((fun x -> Big_int_Z.succ_big_int (Big_int_Z.mult_int_big_int 2 x))
    Big_int_Z.unit_big_int))))))
| X7f ->
  ((fun x -> Big_int_Z.succ_big_int (Big_int_Z.mult_int_big_int 2 x))
    ((fun x -> Big_int_Z.succ_big_int (Big_int_Z.mult_int_big_int 2 x))
    ((fun x -> Big_int_Z.succ_big_int (Big_int_Z.mult_int_big_int 2 x))
    ((fun x -> Big_int_Z.succ_big_int (Big_int_Z.mult_int_big_int 2 x))
    ((fun x -> Big_int_Z.succ_big_int (Big_int_Z.mult_int_big_int 2 x))
    ((fun x -> Big_int_Z.succ_big_int (Big_int_Z.mult_int_big_int 2 x))
    Big_int_Z.unit_big_int))))))
| X80 ->
  (Big_int_Z.mult_int_big_int 2 (Big_int_Z.mult_int_big_int 2
    (Big_int_Z.mult_int_big_int 2 (Big_int_Z.mult_int_big_int 2
    (Big_int_Z.mult_int_big_int 2 (Big_int_Z.mult_int_big_int 2
    (Big_int_Z.mult_int_big_int 2 Big_int_Z.unit_big_int)))))))
| X81 ->
  ((fun x -> Big_int_Z.succ_big_int (Big_int_Z.mult_int_big_int 2 x))
    (Big_int_Z.mult_int_big_int 2 (Big_int_Z.mult_int_big_int 2
    (Big_int_Z.mult_int_big_int 2 (Big_int_Z.mult_int_big_int 2
    (Big_int_Z.mult_int_big_int 2 (Big_int_Z.mult_int_big_int 2
    Big_int_Z.unit_big_int)))))))
| X82 ->
  (Big_int_Z.mult_int_big_int 2
    ((fun x -> Big_int_Z.succ_big_int (Big_int_Z.mult_int_big_int 2 x))
    (Big_int_Z.mult_int_big_int 2 (Big_int_Z.mult_int_big_int 2
    (Big_int_Z.mult_int_big_int 2 (Big_int_Z.mult_int_big_int 2
    (Big_int_Z.mult_int_big_int 2 Big_int_Z.unit_big_int)))))))
| X83 ->
  ((fun x -> Big_int_Z.succ_big_int (Big_int_Z.mult_int_big_int 2 x))
    ((fun x -> Big_int_Z.succ_big_int (Big_int_Z.mult_int_big_int 2 x))
    (Big_int_Z.mult_int_big_int 2 (Big_int_Z.mult_int_big_int 2
    (Big_int_Z.mult_int_big_int 2 (Big_int_Z.mult_int_big_int 2
    (Big_int_Z.mult_int_big_int 2 Big_int_Z.unit_big_int)))))))
| X84 ->
  (Big_int_Z.mult_int_big_int 2 (Big_int_Z.mult_int_big_int 2
    ((fun x -> Big_int_Z.succ_big_int (Big_int_Z.mult_int_big_int 2 x))
    (Big_int_Z.mult_int_big_int 2 (Big_int_Z.mult_int_big_int 2
    (Big_int_Z.mult_int_big_int 2 (Big_int_Z.mult_int_big_int 2
    Big_int_Z.unit_big_int)))))))
| X85 ->
  ((fun x -> Big_int_Z.succ_big_int (Big_int_Z.mult_int_big_int 2 x))
    (Big_int_Z.mult_int_big_int 2
    ((fun x -> Big_int_Z.succ_big_int (Big_int_Z.mult_int_big_int 2 x))
    (Big_int_Z.mult_int_big_int 2 (Big_int_Z.mult_int_big_int 2
    (Big_int_Z.mult_int_big_int 2 (Big_int_Z.mult_int_big_int 2
    Big_int_Z.unit_big_int)))))))
| X86 ->
  (Big_int_Z.mult_int_big_int 2
    ((fun x -> Big_int_Z.succ_big_int (Big_int_Z.mult_int_big_int 2 x))
    ((fun x -> Big_int_Z.succ_big_int (Big_int_Z.mult_int_big_int 2 x))
    (Big_int_Z.mult_int_big_int 2 (Big_int_Z.mult_int_big_int 2
    (Big_int_Z.mult_int_big_int 2 (Big_int_Z.mult_int_big_int 2
    Big_int_Z.unit_big_int)))))))
| X87 ->
  ((fun x -> Big_int_Z.succ_big_int (Big_int_Z.mult_int_big_int 2 x))
    ((fun x -> Big_int_Z.succ_big_int (Big_int_Z.mult_int_big_int 2 x))
    ((fun x -> Big_int_Z.succ_big_int (Big_int_Z.mult_int_big_int 2 x))
    (Big_int_Z.mult_int_big_int 2 (Big_int_Z.mult_int_big_int 2
    (Big_int_Z.mult_int_big_int 2 (Big_int_Z.mult_int_big_int 2
    Big_int_Z.unit_big_int)))))))
| X88 ->
  (Big_int_Z.mult_int_big_int 2 (Big_int_Z.mult_int_big_int 2
    (Big_int_Z.mult_int_big_int 2
    ((fun x -> Big_int_Z.succ_big_int (Big_int_Z.mult_int_big_int 2 x))
    (Big_int_Z.mult_int_big_int 2 (Big_int_Z.mult_int_big_int 2
    (Big_int_Z.mult_int_big_int 2 Big_int_Z.unit_big_int)))))))
| X89 ->
  ((fun x -> Big_int_Z.succ_big_int (Big_int_Z.mult_int_big_int 2 x))
    (Big_int_Z.mult_int_big_int 2 (Big_int_Z.mult_int_big_int 2
    ((fun x -> Big_int_Z.succ_big_int (Big_int_Z.mult_int_big_int 2 x))
    (Big_int_Z.mult_int_big_int 2 (Big_int_Z.mult_int_big_int 2
    (Big_int_Z.mult_int_big_int 2 Big_int_Z.unit_big_int)))))))
| X8a ->
  (Big_int_Z.mult_int_big_int 2
    ((fun x -> Big_int_Z.succ_big_int (Big_int_Z.mult_int_big_int 2 x))
    (Big_int_Z.mult_int_big_int 2
    ((fun x -> Big_int_Z.succ_big_int (Big_int_Z.mult_int_big_int 2 x))
    (Big_int_Z.mult_int_big_int 2 (Big_int_Z.mult_int_big_int 2
    (Big_int_Z.mult_int_big_int 2 Big_int_Z.unit_big_int)))))))
| X8b ->
  ((fun x -> Big_int_Z.succ_big_int (Big_int_Z.mult_int_big_int 2 x))
    ((fun x -> Big_int_Z.succ_big_int (Big_int_Z.mult_int_big_int 2 x))
    (Big_int_Z.mult_int_big_int 2
    ((fun x -> Big_int_Z.succ_big_int (Big_int_Z.mult_int_big_int 2 x))
    (Big_int_Z.mult_int_big_int 2 (Big_int_Z.mult_int_big_int 2
    (Big_int_Z.mult_int_big_int 2 Big_int_Z.unit_big_int)))))))
| X8c ->
  (Big_int_Z.mult_int_big_int 2 (Big_int_Z.mult_int_big_int 2
    ((fun x -> Big_int_Z.succ_big_int (Big_int_Z.mult_int_big_int 2 x))
    ((fun x -> Big_int_Z.succ_big_int (Big_int_Z.mult_int_big_int 2 x))
    (Big_int_Z.mult_int_big_int 2 (Big_int_Z.mult_int_big_int 2
    (Big_int_Z.mult_int_big_int 2 Big_int_Z.unit_big_int)))))))
| X8d ->
  ((fun x -> Big_int_Z.succ_big_int (Big_int_Z.mult_int_big_int 2 x))
    (Big_int_Z.mult_int_big_int 2
    ((fun x -> Big_int_Z.succ_big_int (Big_int_Z.mult_int_big_int 2 x))
    ((fun x -> Big_int_Z.succ_big_int (Big_int_Z.mult_int_big_int 2 x))
    (Big_int_Z.mult_int_big_int 2 (Big_int_Z.mult_int_big_int 2
    (Big_int_Z.mult_int_big_int 2 Big_int_Z.unit_big_int)))))))
| X8e ->
  (Big_int_Z.mult_int_big_int 2
    ((fun x -> Big_int_Z.succ_big_int (Big_int_Z.mult_int_big_int 2 x))
    ((fun x -> Big_int_Z.succ_big_int (Big_int_Z.mult_int_big_int 2 x))
    ((fun x -> Big_int_Z.succ_big_int (Big_int_Z.mult_int_big_int 2 x))
    (Big_int_Z.mult_int_big_int 2 (Big_int_Z.mult_int_big_int 2
    (Big_int_Z.mult_int_big_int 2 Big_int_Z.unit_big_int)))))))
| X8f ->
  ((fun x -> Big_int_Z.succ_big_int (Big_int_Z.mult_int_big_int 2 x))
    ((fun x -> Big_int_Z.succ_big_int (Big_int_Z.mult_int_big_int 2 x))
    ((fun x -> Big_int_Z.succ_big_int (Big_int_Z.mult_int_big_int 2 x))
    ((fun x -> Big_int_Z.succ_big_int (Big_int_Z.mult_int_big_int 2 x))
    (Big_int_Z.mult_int_big_int 2 (Big_int_Z.mult_int_big_int 2
    (Big_int_Z.mult_int_big_int 2 Big_int_Z.unit_big_int)))))))
| X90 ->
  (Big_int_Z.mult_int_big_int 2 (Big_int_Z.mult_int_big_int 2
    (Big_int_Z.mult_int_big_int 2 (Big_int_Z.mult_int_big_int 2
    ((fun x -> Big_int_Z.succ_big_int (Big_int_Z.mult_int_big_int 2 x))
    (Big_int_Z.mult_int_big_int 2 (Big_int_Z.mult_int_big_int 2
    Big_int_Z.unit_big_int)))))))
| X91 ->
  ((fun x -> Big_int_Z.succ_big_int (Big_int_Z.mult_int_big_int 2 x))
    (Big_int_Z.mult_int_big_int 2 (Big_int_Z.mult_int_big_int 2
    (Big_int_Z.mult_int_big_int 2
    ((fun x -> Big_int_Z.succ_big_int (Big_int_Z.mult_int_big_int 2 x))
    (Big_int_Z.mult_int_big_int 2 (Big_int_Z.mult_int_big_int 2
    Big_int_Z.unit_big_int)))))))
| X92 ->
  (Big_int_Z.mult_int_big_int 2
    ((fun x -> Big_int_Z.succ_big_int (Big_int_Z.mult_int_big_int 2 x))
    (Big_int_Z.mult_int_big_int 2 (Big_int_Z.mult_int_big_int 2
    ((fun x -> Big_int_Z.succ_big_int (Big_int_Z.mult_int_big_int 2 x))
    (Big_int_Z.mult_int_big_int 2 (Big_int_Z.mult_int_big_int 2
    Big_int_Z.unit_big_int)))))))
| X93 ->
  ((fun x -> Big_int_Z.succ_big_int (Big_int_Z.mult_int_big_int 2 x))
    ((fun x -> Big_int_Z.succ_big_int (Big_int_Z.mult_int_big_int 2 x))
    (Big_int_Z.mult_int_big_int 2 (Big_int_Z.mult_int_big_int 2
    ((fun x -> Big_int_Z.succ_big_int (Big_int_Z.mult_int_big_int 2 x))
    (Big_int_Z.mult_int_big_int 2 (Big_int_Z.mult_int_big_int 2
    Big_int_Z.unit_big_int)))))))
| X94 ->
  (Big_int_Z.mult_int_big_int 2 (Big_int_Z.mult_int_big_int 2
    ((fun x -> Big_int_Z.succ_big_int (Big_int_Z.mult_int_big_int 2 x))
    (Big_int_Z.mult_int_big_int 2
    ((fun x -> Big_int_Z.succ_big_int (Big_int_Z.mult_int_big_int 2 x))
    (Big_int_Z.mult_int_big_int 2 (Big_int_Z.mult_int_big_int 2
    Big_int_Z.unit_big_int)))))))
| X95 ->
  ((fun x -> Big_int_Z.succ_big_int (Big_int_Z.mult_int_big_int 2 x))
    (Big_int_Z.mult_int_big_int 2
    ((fun x -> Big_int_Z.succ_big_int (Big_int_Z.mult_int_big_int 2 x))
    (Big_int_Z.mult_int_big_int 2
    ((fun x -> Big_int_Z.succ_big_int (Big_int_Z.mult_int_big_int 2 x))
    (Big_int_Z.mult_int_big_int 2 (Big_int_Z.mult_int_big_int 2
    Big_int_Z.unit_big_int)))))))
| X96 ->
  (Big_int_Z.mult_int_big_int 2
    ((fun x -> Big_int_Z.succ_big_int (Big_int_Z.mult_int_big_int 2 x))
    ((fun x -> Big_int_Z.succ_big_int (Big_int_Z.mult_int_big_int 2 x))
    (Big_int_Z.mult_int_big_int 2
    ((fun x -> Big_int_Z.succ_big_int (Big_int_Z.mult_int_big_int 2 x))
    (Big_int_Z.mult_int_big_int 2 (Big_int_Z.mult_int_big_int 2
    Big_int_Z.unit_big_int)))))))
| X97 ->
  ((fun x -> Big_int_Z.succ_big_int (Big_int_Z.mult_int_big_int 2 x))
    ((fun x -> Big_int_Z.succ_big_int (Big_int_Z.mult_int_big_int 2 x))
    ((fun x -> Big_int_Z.succ_big_int (Big_int_Z.mult_int_big_int 2 x))
    (Big_int_Z.mult_int_big_int 2
    ((fun x -> Big_int_Z.succ_big_int (Big_int_Z.mult_int_big_int 2 x))
    (Big_int_Z.mult_int_big_int 2 (Big_int_Z.mult_int_big_int 2
    Big_int_Z.unit_big_int)))))))
| X98 ->
  (Big_int_Z.mult_int_big_int 2 (Big_int_Z.mult_int_big_int 2
    (Big_int_Z.mult_int_big_int 2
    ((fun x -> Big_int_Z.succ_big_int (Big_int_Z.mult_int_big_int 2 x))
    ((fun x -> Big_int_Z.succ_big_int (Big_int_Z.mult_int_big_int 2 x))
    (Big_int_Z.mult_int_big_int 2 (Big_int_Z.mult_int_big_int 2
    Big_int_Z.unit_big_int)))))))
| X99 ->
  ((fun x -> Big_int_Z.succ_big_int (Big_int_Z.mult_int_big_int 2 x))
    (Big_int_Z.mult_int_big_int 2 (Big_int_Z.mult_int_big_int 2
    ((fun x -> Big_int_Z.succ_big_int (Big_int_Z.mult_int_big_int 2 x))
    ((fun x -> Big_int_Z.succ_big_int (Big_int_Z.mult_int_big_int 2 x))
    (Big_int_Z.mult_int_big_int 2 (Big_int_Z.mult_int_big_int 2
    Big_int_Z.unit_big_int)))))))
| X9a ->
  (Big_int_Z.mult_int_big_int 2
    ((fun x -> Big_int_Z.succ_big_int (Big_int_Z.mult_int_big_int 2 x))
    (Big_int_Z.mult_int_big_int 2
    ((fun x -> Big_int_Z.succ_big_int (Big_int_Z.mult_int_big_int 2 x))
    ((fun x -> Big_int_Z.succ_big_int (Big_int_Z.mult_int_big_int 2 x))
    (Big_int_Z.mult_int_big_int 2 (Big_int_Z.mult_int_big_int 2
    Big_int_Z.unit_big_int)))))))
| X9b ->
  ((fun x -> Big_int_Z.succ_big_int (Big_int_Z.mult_int_big_int 2 x))
    ((fun x -> Big_int_Z.succ_big_int (Big_int_Z.mult_int_big_int 2 x))
    (Big_int_Z.mult_int_big_int 2
    ((fun x -> Big_int_Z.succ_big_int (Big_int_Z.mult_int_big_int 2 x))
    ((fun x -> Big_int_Z.succ_big_int (Big_int_Z.mult_int_big_int 2 x))
    (Big_int_Z.mult_int_big_int 2 (Big_int_Z.mult_int_big_int 2
    Big_int_Z.unit_big_int)))))))
| X9c ->
  (Big_int_Z.mult_int_big_int 2 (Big_int_Z.mult_int_big_int 2
    ((fun x -> Big_int_Z.succ_big_int (Big_int_Z.mult_int_big_int 2 x))
    ((fun x -> Big_int_Z.succ_big_int (Big_int_Z.mult_int_big_int 2 x))
    ((fun x -> Big_int_Z.succ_big_int (Big_int_Z.mult_int_big_int 2 x))
    (Big_int_Z.mult_int_big_int 2 (Big_int_Z.mult_int_big_int 2
    Big_int_Z.unit_big_int)))))))
| X9d ->
  ((fun x -> Big_int_Z.succ_big_int (Big_int_Z.mult_int_big_int 2 x))
    (Big_int_Z.mult_int_big_int 2
    ((fun x -> Big_int_Z.succ_big_int (Big_int_Z.mult_int_big_int 2 x))
    ((fun x -> Big_int_Z.succ_big_int (Big_int_Z.mult_int_big_int 2 x))
    ((fun x -> Big_int_Z.succ_big_int (Big_int_Z.mult_int_big_int 2 x))
    (Big_int_Z.mult_int_big_int 2 (Big_int_Z.mult_int_big_int 2
    Big_int_Z.unit_big_int)))))))
| X9e ->
  (Big_int_Z.mult_int_big_int 2
    ((fun x -> Big_int_Z.succ_big_int (Big_int_Z.mult_int_big_int 2 x))
    ((fun x -> Big_int_Z.succ_big_int (Big_int_Z.mult_int_big_int 2 x))
    ((fun x -> Big_int_Z.succ_big_int (Big_int_Z.mult_int_big_int 2 x))
    ((fun x -> Big_int_Z.succ_big_int (Big_int_Z.mult_int_big_int 2 x))
    (Big_int_Z.mult_int_big_int 2 (Big_int_Z.mult_int_big_int 2
    Big_int_Z.unit_big_int)))))))
| X9f ->
  ((fun x -> Big_int_Z.succ_big_int (Big_int_Z.mult_int_big_int 2 x))
    ((fun x -> Big_int_Z.succ_big_int (Big_int_Z.mult_int_big_int 2 x))
    ((fun x -> Big_int_Z.succ_big_int (Big_int_Z.mult_int_big_int 2 x))
    ((fun x -> Big_int_Z.succ_big_int (Big_int_Z.mult_int_big_int 2 x))
    ((fun x -> Big_int_Z.succ_big_int (Big_int_Z.mult_int_big_int 2 x))
    (Big_int_Z.mult_int_big_int 2 (Big_int_Z.mult_int_big_int 2
    Big_int_Z.unit_big_int)))))))
| Xa0 ->
  (Big_int_Z.mult_int_big_int 2 (Big_int_Z.mult_int_big_int 2
    (Big_int_Z.mult_int_big_int 2 (Big_int_Z.mult_int_big_int 2
    (Big_int_Z.mult_int_big_int 2
    ((fun x -> Big_int_Z.succ_big_int (Big_int_Z.mult_int_big_int 2 x))
    (Big_int_Z.mult_int_big_int 2 Big_int_Z.unit_big_int)))))))
| Xa1 ->
  ((fun x -> Big_int_Z.succ_big_int (Big_int_Z.mult_int_big_int 2 x))
    (Big_int_Z.mult_int_big_int 2 (Big_int_Z.mult_int_big_int 2
    (Big_int_Z.mult_int_big_int 2 (Big_int_Z.mult_int_big_int 2
    ((fun x -> Big_int_Z.succ_big_int (Big_int_Z.mult_int_big_int 2 x))
    (Big_int_Z.mult_int_big_int 2 Big_int_Z.unit_big_int)))))))
| Xa2 ->
  (Big_int_Z.mult_int_big_int 2
    ((fun x -> Big_int_Z.succ_big_int (Big_int_Z.mult_int_big_int 2 x))
    (Big_int_Z.mult_int_big_int 2 (Big_int_Z.mult_int_big_int 2
    (Big_int_Z.mult_int_big_int 2
    ((fun x -> Big_int_Z.succ_big_int (Big_int_Z.mult_int_big_int 2 x))
    (Big_int_Z.mult_int_big_int 2 Big_int_Z.unit_big_int)))))))
| Xa3 ->
  ((fun x -> Big_int_Z.succ_big_int (Big_int_Z.mult_int_big_int 2 x))
    ((fun x -> Big_int_Z.succ_big_int (Big_int_Z.mult_int_big_int 2 x))
    (Big_int_Z.mult_int_big_int 2 (Big_int_Z.mult_int_big_int 2
    (Big_int_Z.mult_int_big_int 2
    ((fun x -> Big_int_Z.succ_big_int (Big_int_Z.mult_int_big_int 2 x))
    (Big_int_Z.mult_int_big_int 2 Big_int_Z.unit_big_int)))))))
| Xa4 ->
  (Big_int_Z.mult_int_big_int 2 (Big_int_Z.mult_int_big_int 2
    ((fun x -> Big_int_Z.succ_big_int (Big_int_Z.mult_int_big_int 2 x))
    (Big_int_Z.mult_int_big_int 2 (Big_int_Z.mult_int_big_int 2
    ((fun x -> Big_int_Z.succ_big_int (Big_int_Z.mult_int_big_int 2 x))
    (Big_int_Z.mult_int_big_int 2 Big_int_Z.unit_big_int)))))))
| Xa5 ->
  ((fun x -> Big_int_Z.succ_big_int (Big_int_Z.mult_int_big_int 2 x))
    (Big_int_Z.mult_int_big_int 2
    ((fun x -> Big_int_Z.succ_big_int (Big_int_Z.mult_int_big_int 2 x))
    (Big_int_Z.mult_int_big_int 2 (Big_int_Z.mult_int_big_int 2
    ((fun x -> Big_int_Z.succ_big_int (Big_int_Z.mult_int_big_int 2 x))
    (Big_int_Z.mult_int_big_int 2 Big_int_Z.unit_big_int)))))))
| Xa6 ->
  (Big_int_Z.mult_int_big_int 2
    ((fun x -> Big_int_Z.succ_big_int (Big_int_Z.mult_int_big_int 2 x))
    ((fun x -> Big_int_Z.succ_big_int (Big_int_Z.mult_int_big_int 2 x))
    (Big_int_Z.mult_int_big_int 2 (Big_int_Z.mult_int_big_int 2
    ((fun x -> Big_int_Z.succ_big_int (Big_int_Z.mult_int_big_int 2 x))
    (Big_int_Z.mult_int_big_int 2 Big_int_Z.unit_big_int)))))))
| Xa7 ->
  ((fun x -> Big_int_Z.succ_big_int (Big_int_Z.mult_int_big_int 2 x))
    ((fun x -> Big_int_Z.succ_big_int (Big_int_Z.mult_int_big_int 2 x))
    ((fun x -> Big_int_Z.succ_big_int (Big_int_Z.mult_int_big_int 2 x))
    (Big_int_Z.mult_int_big_int 2 (Big_int_Z.mult_int_big_int 2
    ((fun x -> Big_int_Z.succ_big_int (Big_int_Z.mult_int_big_int 2 x))
    (Big_int_Z.mult_int_big_int 2 Big_int_Z.unit_big_int)))))))
| Xa8 ->
  (Big_int_Z.mult_int_big_int 2 (Big_int_Z.mult_int_big_int 2
    (Big_int_Z.mult_int_big_int 2
    ((fun x -> Big_int_Z.succ_big_int (Big_int_Z.mult_int_big_int 2 x))
    (Big_int_Z.mult_int_big_int 2
    ((fun x -> Big_int_Z.succ_big_int (Big_int_Z.mult_int_big_int 2 x))
    (Big_int_Z.mult_int_big_int 2 Big_int_Z.unit_big_int)))))))
| Xa9 ->
  ((fun x -> Big_int_Z.succ_big_int (Big_int_Z.mult_int_big_int 2 x))
    (Big_int_Z.mult_int_big_int 2 (Big_int_Z.mult_int_big_int 2
    ((fun x -> Big_int_Z.succ_big_int (Big_int_Z.mult_int_big_int 2 x))
    (Big_int_Z.mult_int_big_int 2
    ((fun x -> Big_int_Z.succ_big_int (Big_int_Z.mult_int_big_int 2 x))
    (Big_int_Z.mult_int_big_int 2 Big_int_Z.unit_big_int)))))))
| Xaa ->
  (Big_int_Z.mult_int_big_int 2
    ((fun x -> Big_int_Z.succ_big_int (Big_int_Z.mult_int_big_int 2 x))
    (Big_int_Z.mult_int_big_int 2
    ((fun x -> Big_int_Z.succ_big_int (Big_int_Z.mult_int_big_int 2 x))
    (Big_int_Z.mult_int_big_int 2
    ((fun x -> Big_int_Z.succ_big_int (Big_int_Z.mult_int_big_int 2 x))
    (Big_int_Z.mult_int_big_int 2 Big_int_Z.unit_big_int)))))))
| Xab ->
  ((fun x -> Big_int_Z.succ_big_int (Big_int_Z.mult_int_big_int 2 x))
    ((fun x -> Big_int_Z.succ_big_int (Big_int_Z.mult_int_big_int 2 x))
    (Big_int_Z.mult_int_big_int 2
    ((fun x -> Big_int_Z.succ_big_int (Big_int_Z.mult_int_big_int 2 x))
    (Big_int_Z.mult_int_big_int 2
    ((fun x -> Big_int_Z.succ_big_int (Big_int_Z.mult_int_big_int 2 x))
    (Big_int_Z.mult_int_big_int 2 Big_int_Z.unit_big_int)))))))
| Xac ->
  (Big_int_Z.mult_int_big_int 2 (Big_int_Z.mult_int_big_int 2
    ((fun x -> Big_int_Z.succ_big_int (Big_int_Z.mult_int_big_int 2 x))
    ((fun x -> Big_int_Z.succ_big_int (Big_int_Z.mult_int_big_int 2 x))
    (Big_int_Z.mult_int_big_int 2
    ((fun x -> Big_int_Z.succ_big_int (Big_int_Z.mult_int_big_int 2 x))
    (Big_int_Z.mult_int_big_int 2 Big_int_Z.unit_big_int)))))))
| Xad ->
  ((fun x -> Big_int_Z.succ_big_int (Big_int_Z.mult_int_big_int 2 x))
    (Big_int_Z.mult_int_big_int 2
    ((fun x -> Big_int_Z.succ_big_int (Big_int_Z.mult_int_big_int 2 x))
    ((fun x -> Big_int_Z.succ_big_int (Big_int_Z.mult_int_big_int 2 x))
    (Big_int_Z.mult_int_big_int 2
    ((fun x -> Big_int_Z.succ_big_int (Big_int_Z.mult_int_big_int 2 x))
    (Big_int_Z.mult_int_big_int 2 Big_int_Z.unit_big_int)))))))
| Xae ->
  (Big_int_Z.mult_int_big_int 2
    ((fun x -> Big_int_Z.succ_big_int (Big_int_Z.mult_int_big_int 2 x))
    ((fun x -> Big_int_Z.succ_big_int (Big_int_Z.mult_int_big_int 2 x))
    ((fun x -> Big_int_Z.succ_big_int (Big_int_Z.mult_int_big_int 2 x))
    (Big_int_Z.mult_int_big_int 2
    ((fun x -> Big_int_Z.succ_big_int (Big_int_Z.mult_int_big_int 2 x))
    (Big_int_Z.mult_int_big_int 2 Big_int_Z.unit_big_int)))))))
| Xaf ->
  ((fun x -> Big_int_Z.succ_big_int (Big_int_Z.mult_int_big_int 2 x))
    ((fun x -> Big_int_Z.succ_big_int (Big_int_Z.mult_int_big_int 2 x))
    ((fun x -> Big_int_Z.succ_big_int (Big_int_Z.mult_int_big_int 2 x))
    ((fun x -> Big_int_Z.succ_big_int (Big_int_Z.mult_int_big_int 2 x))
    (Big_int_Z.mult_int_big_int 2
    ((fun x -> Big_int_Z.succ_big_int (Big_int_Z.mult_int_big_int 2 x))
    (Big_int_Z.mult_int_big_int 2 Big_int_Z.unit_big_int)))))))
| Xb0 ->
  (Big_int_Z.mult_int_big_int 2 (Big_int_Z.mult_int_big_int 2
    (Big_int_Z.mult_int_big_int 2 (Big_int_Z.mult_int_big_int 2
    ((fun x -> Big_int_Z.succ_big_int (Big_int_Z.mult_int_big_int 2 x))
    ((fun x -> Big_int_Z.succ_big_int (Big_int_Z.mult_int_big_int 2 x))
    (Big_int_Z.mult_int_big_int 2 Big_int_Z.unit_big_int)))))))
| Xb1 ->
  ((fun x -> Big_int_Z.succ_big_int (Big_int_Z.mult_int_big_int 2 x))
    (Big_int_Z.mult_int_big_int 2 (Big_int_Z.mult_int_big_int 2
    (Big_int_Z.mult_int_big_int 2
    ((fun x -> Big_int_Z.succ_big_int (Big_int_Z.mult_int_big_int 2 x))
    ((fun x -> Big_int_Z.succ_big_int (Big_int_Z.mult_int_big_int 2 x))
    (Big_int_Z.mult_int_big_int 2 Big_int_Z.unit_big_int)))))))
| Xb2 ->
  (Big_int_Z.mult_int_big_int 2
    ((fun x -> Big_int_Z.succ_big_int (Big_int_Z.mult_int_big_int 2 x))
    (Big_int_Z.mult_int_big_int 2 (Big_int_Z.mult_int_big_int 2
    ((fun x -> Big_int_Z.succ_big_int (Big_int_Z.mult_int_big_int 2 x))
    ((fun x -> Big_int_Z.succ_big_int (Big_int_Z.mult_int_big_int 2 x))
    (Big_int_Z.mult_int_big_int 2 Big_int_Z.unit_big_int)))))))
| Xb3 ->
  ((fun x -> Big_int_Z.succ_big_int (Big_int_Z.mult_int_big_int 2 x))
    ((fun x -> Big_int_Z.succ_big_int (Big_int_Z.mult_int_big_int 2 x))
    (Big_int_Z.mult_int_big_int 2 (Big_int_Z.mult_int_big_int 2
    ((fun x -> Big_int_Z.succ_big_int (Big_int_Z.mult_int_big_int 2 x))
    ((fun x -> Big_int_Z.succ_big_int (Big_int_Z.mult_int_big_int 2 x))
    (Big_int_Z.mult_int_big_int 2 Big_int_Z.unit_big_int)))))))
| Xb4 ->
  (Big_int_Z.mult_int_big_int 2 (Big_int_Z.mult_int_big_int 2
    ((fun x -> Big_int_Z.succ_big_int (Big_int_Z.mult_int_big_int 2 x))
    (Big_int_Z.mult_int_big_int 2
    ((fun x -> Big_int_Z.succ_big_int (Big_int_Z.mult_int_big_int 2 x))
    ((fun x -> Big_int_Z.succ_big_int (Big_int_Z.mult_int_big_int 2 x))
    (Big_int_Z.mult_int_big_int 2 Big_int_Z.unit_big_int)))))))
| Xb5 ->
  ((fun x -> Big_int_Z.succ_big_int (Big_int_Z.mult_int_big_int 2 x))
    (Big_int_Z.mult_int_big_int 2
    ((fun x -> Big_int_Z.succ_big_int (Big_int_Z.mult_int_big_int 2 x))
    (Big_int_Z.mult_int_big_int 2
    ((fun x -> Big_int_Z.succ_big_int (Big_int_Z.mult_int_big_int 2 x))
    ((fun x -> Big_int_Z.succ_big_int (Big_int_Z.mult_int_big_int 2 x))
    (Big_int_Z.mult_int_big_int 2 Big_int_Z.unit_big_int)))))))
| Xb6 ->
  (Big_int_Z.mult_int_big_int 2
    ((fun x -> Big_int_Z.succ_big_int (Big_int_Z.mult_int_big_int 2 x))
    ((fun x -> Big_int_Z.succ_big_int (Big_int_Z.mult_int_big_int 2 x))
    (Big_int_Z.mult_int_big_int 2
    ((fun x -> Big_int_Z.succ_big_int (Big_int_Z.mult_int_big_int 2 x))
    ((fun x -> Big_int_Z.succ_big_int (Big_int_Z.mult_int_big_int 2 x))
    (Big_int_Z.mult_int_big_int 2 Big_int_Z.unit_big_int)))))))
| Xb7 ->
  ((fun x -> Big_int_Z.succ_big_int (Big_int_Z.mult_int_big_int 2 x))
    ((fun x -> Big_int_Z.succ_big_int (Big_int_Z.mult_int_big_int 2 x))
    ((fun x -> Big_int_Z.succ_big_int (Big_int_Z.mult_int_big_int 2 x))
    (Big_int_Z.mult_int_big_int 2
    ((fun x -> Big_int_Z.succ_big_int (Big_int_Z.mult_int_big_int 2 x))
    ((fun x -> Big_int_Z.succ_big_int (Big_int_Z.mult_int_big_int 2 x))
    (Big_int_Z.mult_int_big_int 2 Big_int_Z.unit_big_int)))))))
| Xb8 ->
  (Big_int_Z.mult_int_big_int 2 (Big_int_Z.mult_int_big_int 2
    (Big_int_Z.mult_int_big_int 2
    ((fun x -> Big_int_Z.succ_big_int (Big_int_Z.mult_int_big_int 2 x))
    ((fun x -> Big_int_Z.succ_big_int (Big_int_Z.mult_int_big_int 2 x))
    ((fun x -> Big_int_Z.succ_big_int (Big_int_Z.mult_int_big_int 2 x))
    (Big_int_Z.mult_int_big_int 2 Big_int_Z.unit_big_int)))))))
| Xb9 ->
  ((fun x -> Big_int_Z.succ_big_int (Big_int_Z.mult_int_big_int 2 x))
    (Big_int_Z.mult_int_big_int 2 (Big_int_Z.mult_int_big_int 2
    ((fun x -> Big_int_Z.succ_big_int (Big_int_Z.mult_int_big_int 2 x))
    ((fun x -> Big_int_Z.succ_big_int (Big_int_Z.mult_int_big_int 2 x))
    ((fun x -> Big_int_Z.succ_big_int (Big_int_Z.mult_int_big_int 2 x))
    (Big_int_Z.mult_int_big_int 2 Big_int_Z.unit_big_int)))))))
| Xba ->
  (Big_int_Z.mult_int_big_int 2
    ((fun x -> Big_int_Z.succ_big_int (Big_int_Z.mult_int_big_int 2 x))
    (Big_int_Z.mult_int_big_int 2
    ((fun x -> Big_int_Z.succ_big_int (Big_int_Z.mult_int_big_int 2 x))
    ((fun x -> Big_int_Z.succ_big_int (Big_int_Z.mult_int_big_int 2 x))
    ((fun x -> Big_int_Z.succ_big_int (Big_int_Z.mult_int_big_int 2 x))
    (Big_int_Z.mult_int_big_int 2 Big_int_Z.unit_big_int)))))))
| Xbb ->
  ((fun x -> Big_int_Z.succ_big_int (Big_int_Z.mult_int_big_int 2 x))
    ((fun x -> Big_int_Z.succ_big_int (Big_int_Z.mult_int_big_int 2 x))
    (Big_int_Z.mult_int_big_int 2
    ((fun x -> Big_int_Z.succ_big_int (Big_int_Z.mult_int_big_int 2 x))
    ((fun x -> Big_int_Z.succ_big_int (Big_int_Z.mult_int_big_int 2 x))
    ((fun x -> Big_int_Z.succ_big_int (Big_int_Z.mult_int_big_int 2 x))
    (Big_int_Z.mult_int_big_int 2 Big_int_Z.unit_big_int)))))))
| Xbc ->
  (Big_int_Z.mult_int_big_int 2 (Big_int_Z.mult_int_big_int 2
    ((fun x -> Big_int_Z.succ_big_int (Big_int_Z.mult_int_big_int 2 x))
    ((fun x -> Big_int_Z.succ_big_int (Big_int_Z.mult_int_big_int 2 x))
    ((fun x -> Big_int_Z.succ_big_int (Big_int_Z.mult_int_big_int 2 x))
    ((fun x -> Big_int_Z.succ_big_int (Big_int_Z.mult_int_big_int 2 x))
    (Big_int_Z.mult_int_big_int 2 Big_int_Z.unit_big_int)))))))
| Xbd ->
  ((fun x -> Big_int_Z.succ_big_int (Big_int_Z.mult_int_big_int 2 x))
    (Big_int_Z.mult_int_big_int 2
    ((fun x -> Big_int_Z.succ_big_int (Big_int_Z.mult_int_big_int 2 x))
    ((fun x -> Big_int_Z.succ_big_int (Big_int_Z.mult_int_big_int 2 x))
    ((fun x -> Big_int_Z.succ_big_int (Big_int_Z.mult_int_big_int 2 x))
    ((fun x -> Big_int_Z.succ_big_int (Big_int_Z.mult_int_big_int 2 x))
    (Big_int_Z.mult_int_big_int 2 Big_int_Z.unit_big_int)))))))
| Xbe ->
  (Big_int_Z.mult_int_big_int 2
    ((fun x -> Big_int_Z.succ_big_int (Big_int_Z.mult_int_big_int 2 x))
    ((fun x -> Big_int_Z.succ_big_int (Big_int_Z.mult_int_big_int 2 x))
    ((fun x -> Big_int_Z.succ_big_int (Big_int_Z.mult_int_big_int 2 x))
    ((fun x -> Big_int_Z.succ_big_int (Big_int_Z.mult_int_big_int 2 x))
    ((fun x -> Big_int_Z.succ_big_int (Big_int_Z.mult_int_big_int 2 x))
    (Big_int_Z.mult_int_big_int 2 Big_int_Z.unit_big_int)))))))
| Xbf ->
  ((fun x -> Big_int_Z.succ_big_int (Big_int_Z.mult_int_big_int 2 x))
    ((fun x -> Big_int_Z.succ_big_int (Big_int_Z.mult_int_big_int 2 x))
    ((fun x -> Big_int_Z.succ_big_int (Big_int_Z.mult_int_big_int 2 x))
    ((fun x -> Big_int_Z.succ_big_int (Big_int_Z.mult_int_big_int 2 x))
    ((fun x -> Big_int_Z.succ_big_int (Big_int_Z.mult_int_big_int 2 x))
    ((fun x -> Big_int_Z.succ_big_int (Big_int_Z.mult_int_big_int 2 x))
    (Big_int_Z.mult_int_big_int 2 Big_int_Z.unit_big_int)))))))
| Xc0 ->
  (Big_int_Z.mult_int_big_int 2 (Big_int_Z.mult_int_big_int 2
    (Big_int_Z.mult_int_big_int 2 (Big_int_Z.mult_int_big_int 2
    (Big_int_Z.mult_int_big_int 2 (Big_int_Z.mult_int_big_int 2
    ((fun x -> Big_int_Z.succ_big_int (Big_int_Z.mult_int_big_int 2 x))
    Big_int_Z.unit_big_int)))))))
| Xc1 ->
  ((fun x -> Big_int_Z.succ_big_int (Big_int_Z.mult_int_big_int 2 x))
    (Big_int_Z.mult_int_big_int 2 (Big_int_Z.mult_int_big_int 2
    (Big_int_Z.mult_int_big_int 2 (Big_int_Z.mult_int_big_int 2
    (Big_int_Z.mult_int_big_int 2
    ((fun x -> Big_int_Z.succ_big_int (Big_int_Z.mult_int_big_int 2 x))
    Big_int_Z.unit_big_int)))))))
| Xc2 ->
  (Big_int_Z.mult_int_big_int 2
    ((fun x -> Big_int_Z.succ_big_int (Big_int_Z.mult_int_big_int 2 x))
    (Big_int_Z.mult_int_big_int 2 (Big_int_Z.mult_int_big_int 2
    (Big_int_Z.mult_int_big_int 2 (Big_int_Z.mult_int_big_int 2
    ((fun x -> Big_int_Z.succ_big_int (Big_int_Z.mult_int_big_int 2 x))
    Big_int_Z.unit_big_int)))))))
| Xc3 ->
  ((fun x -> Big_int_Z.succ_big_int (Big_int_Z.mult_int_big_int 2 x))
    ((fun x -> Big_int_Z.succ_big_int (Big_int_Z.mult_int_big_int 2 x))
    (Big_int_Z.mult_int_big_int 2 (Big_int_Z.mult_int_big_int 2
    (Big_int_Z.mult_int_big_int 2 (Big_int_Z.mult_int_big_int 2
    ((fun x -> Big_int_Z.succ_big_int (Big_int_Z.mult_int_big_int 2 x))
    Big_int_Z.unit_big_int)))))))
| Xc4 ->
  (Big_int_Z.mult_int_big_int 2 (Big_int_Z.mult_int_big_int 2
    ((fun x -> Big_int_Z.succ_big_int (Big_int_Z.mult_int_big_int 2 x))
    (Big_int_Z.mult_int_big_int 2 (Big_int_Z.mult_int_big_int 2
    (Big_int_Z.mult_int_big_int 2
    ((fun x -> Big_int_Z.succ_big_int (Big_int_Z.mult_int_big_int 2 x))
    Big_int_Z.unit_big_int)))))))
| Xc5 ->
  ((fun x -> Big_int_Z.succ_big_int (Big_int_Z.mult_int_big_int 2 x))
    (Big_int_Z.mult_int_big_int 2
    ((fun x -> Big_int_Z.succ_big_int (Big_int_Z.mult_int_big_int 2 x))
    (Big_int_Z.mult_int_big_int 2 (Big_int_Z.mult_int_big_int 2
    (Big_int_Z.mult_int_big_int 2
    ((fun x -> Big_int_Z.succ_big_int (Big_int_Z.mult_int_big_int 2 x))
    Big_int_Z.unit_big_int)))))))
| Xc6 ->
  (Big_int_Z.mult_int_big_int 2
    ((fun x -> Big_int_Z.succ_big_int (Big_int_Z.mult_int_big_int 2 x))
    ((fun x -> Big_int_Z.succ_big_int (Big_int_Z.mult_int_big_int 2 x))
    (Big_int_Z.mult_int_big_int 2 (Big_int_Z.mult_int_big_int 2
    (Big_int_Z.mult_int_big_int 2
    ((fun x -> Big_int_Z.succ_big_int (Big_int_Z.mult_int_big_int 2 x))
    Big_int_Z.unit_big_int)))))))
| Xc7 ->
  ((fun x -> Big_int_Z.succ_big_int (Big_int_Z.mult_int_big_int 2 x))
    ((fun x -> Big_int_Z.succ_big_int (Big_int_Z.mult_int_big_int 2 x))
    ((fun x -> Big_int_Z.succ_big_int (Big_int_Z.mult_int_big_int 2 x))
    (Big_int_Z.mult_int_big_int 2 (Big_int_Z.mult_int_big_int 2
    (Big_int_Z.mult_int_big_int 2
    ((fun x -> Big_int_Z.succ_big_int (Big_int_Z.mult_int_big_int 2 x))
    Big_int_Z.unit_big_int)))))))
| Xc8 ->
  (Big_int_Z.mult_int_big_int 2 (Big_int_Z.mult_int_big_int 2
    (Big_int_Z.mult_int_big_int 2
    ((fun x -> Big_int_Z.succ_big_int (Big_int_Z.mult_int_big_int 2 x))
    (Big_int_Z.mult_int_big_int 2 (Big_int_Z.mult_int_big_int 2
    ((fun x -> Big_int_Z.succ_big_int (Big_int_Z.mult_int_big_int 2 x))
    Big_int_Z.unit_big_int)))))))
| Xc9 ->
  ((fun x -> Big_int_Z.succ_big_int (Big_int_Z.mult_int_big_int 2 x))
    (Big_int_Z.mult_int_big_int 2 (Big_int_Z.mult_int_big_int 2
    ((fun x -> Big_int_Z.succ_big_int (Big_int_Z.mult_int_big_int 2 x))
    (Big_int_Z.mult_int_big_int 2 (Big_int_Z.mult_int_big_int 2
    ((fun x -> Big_int_Z.succ_big_int (Big_int_Z.mult_int_big_int 2 x))
    Big_int_Z.unit_big_int)))))))
| Xca ->
  (Big_int_Z.mult_int_big_int 2
    ((fun x -> Big_int_Z.succ_big_int (Big_int_Z.mult_int_big_int 2 x))
    (Big_int_Z.mult_int_big_int 2
    ((fun x -> Big_int_Z.succ_big_int (Big_int_Z.mult_int_big_int 2 x))
    (Big_int_Z.mult_int_big_int 2 (Big_int_Z.mult_int_big_int 2
    ((fun x -> Big_int_Z.succ_big_int (Big_int_Z.mult_int_big_int 2 x))
    Big_int_Z.unit_big_int)))))))
| Xcb ->
  ((fun x -> Big_int_Z.succ_big_int (Big_int_Z.mult_int_big_int 2 x))
    ((fun x -> Big_int_Z.succ_big_int (Big_int_Z.mult_int_big_int 2 x))
    (Big_int_Z.mult_int_big_int 2
    ((fun x -> Big_int_Z.succ_big_int (Big_int_Z.mult_int_big_int 2 x))
    (Big_int_Z.mult_int_big_int 2 (Big_int_Z.mult_int_big_int 2
    ((fun x -> Big_int_Z.succ_big_int (Big_int_Z.mult_int_big_int 2 x))
    Big_int_Z.unit_big_int)))))))
| Xcc ->
  (Big_int_Z.mult_int_big_int 2 (Big_int_Z.mult_int_big_int 2
    ((fun x -> Big_int_Z.succ_big_int (Big_int_Z.mult_int_big_int 2 x))
    ((fun x -> Big_int_Z.succ_big_int (Big_int_Z.mult_int_big_int 2 x))
    (Big_int_Z.mult_int_big_int 2 (Big_int_Z.mult_int_big_int 2
    ((fun x -> Big_int_Z.succ_big_int (Big_int_Z.mult_int_big_int 2 x))
    Big_int_Z.unit_big_int)))))))
| Xcd ->
  ((fun x -> Big_int_Z.succ_big_int (Big_int_Z.mult_int_big_int 2 x))
    (Big_int_Z.mult_int_big_int 2
    ((fun x -> Big_int_Z.succ_big_int (Big_int_Z.mult_int_big_int 2 x))
    ((fun x -> Big_int_Z.succ_big_int (Big_int_Z.mult_int_big_int 2 x))
    (Big_int_Z.mult_int_big_int 2 (Big_int_Z.mult_int_big_int 2
    ((fun x -> Big_int_Z.succ_big_int (Big_int_Z.mult_int_big_int 2 x))
    Big_int_Z.unit_big_int)))))))
| Xce ->
  (Big_int_Z.mult_int_big_int 2
    ((fun x -> Big_int_Z.succ_big_int (Big_int_Z.mult_int_big_int 2 x))
    ((fun x -> Big_int_Z.succ_big_int (Big_int_Z.mult_int_big_int 2 x))
    ((fun x -> Big_int_Z.succ_big_int (Big_int_Z.mult_int_big_int 2 x))
    (Big_int_Z.mult_int_big_int 2 (Big_int_Z.mult_int_big_int 2
    ((fun x -> Big_int_Z.succ_big_int (Big_int_Z.mult_int_big_int 2 x))
    Big_int_Z.unit_big_int)))))))
| Xcf ->
  ((fun x -> Big_int_Z.succ_big_int (Big_int_Z.mult_int_big_int 2 x))
    ((fun x -> Big_int_Z.succ_big_int (Big_int_Z.mult_int_big_int 2 x))
    ((fun x -> Big_int_Z.succ_big_int (Big_int_Z.mult_int_big_int 2 x))
    ((fun x -> Big_int_Z.succ_big_int (Big_int_Z.mult_int_big_int 2 x))
    (Big_int_Z.mult_int_big_int 2 (Big_int_Z.mult_int_big_int 2
    ((fun x -> Big_int_Z.succ_big_int (Big_int_Z.mult_int_big_int 2 x))
    Big_int_Z.unit_big_int)))))))
| Xd0 ->
  (Big_int_Z.mult_int_big_int 2 (Big_int_Z.mult_int_big_int 2
    (Big_int_Z.mult_int_big_int 2 (Big_int_Z.mult_int_big_int 2
    ((fun x -> Big_int_Z.succ_big_int (Big_int_Z.mult_int_big_int 2 x))
    (Big_int_Z.mult_int_big_int 2
    ((fun x -> Big_int_Z.succ_big_int (Big_int_Z.mult_int_big_int 2 x))
    Big_int_Z.unit_big_int)))))))
| Xd1 ->
  ((fun x -> Big_int_Z.succ_big_int (Big_int_Z.mult_int_big_int 2 x))
    (Big_int_Z.mult_int_big_int 2 (Big_int_Z.mult_int_big_int 2
    (Big_int_Z.mult_int_big_int 2
    ((fun x -> Big_int_Z.succ_big_int (Big_int_Z.mult_int_big_int 2 x))
    (Big_int_Z.mult_int_big_int 2
    ((fun x -> Big_int_Z.succ_big_int (Big_int_Z.mult_int_big_int 2 x))
    Big_int_Z.unit_big_int)))))))
| Xd2 ->
  (Big_int_Z.mult_int_big_int 2
    ((fun x -> Big_int_Z.succ_big_int (Big_int_Z.mult_int_big_int 2 x))
    (Big_int_Z.mult_int_big_int 2 (Big_int_Z.mult_int_big_int 2
    ((fun x -> Big_int_Z.succ_big_int (Big_int_Z.mult_int_big_int 2 x))
    (Big_int_Z.mult_int_big_int 2
    ((fun x -> Big_int_Z.succ_big_int (Big_int_Z.mult_int_big_int 2 x))
    Big_int_Z.unit_big_int)))))))
| Xd3 ->
  ((fun x -> Big_int_Z.succ_big_int (Big_int_Z.mult_int_big_int 2 x))
    ((fun x -> Big_int_Z.succ_big_int (Big_int_Z.mult_int_big_int 2 x))
    (Big_int_Z.mult_int_big_int 2 (Big_int_Z.mult_int_big_int 2
    ((fun x -> Big_int_Z.succ_big_int (Big_int_Z.mult_int_big_int 2 x))
    (Big_int_Z.mult_int_big_int 2
    ((fun x -> Big_int_Z.succ_big_int (Big_int_Z.mult_int_big_int 2 x))
    Big_int_Z.unit_big_int)))))))
| Xd4 ->
  (Big_int_Z.mult_int_big_int 2 (Big_int_Z.mult_int_big_int 2
    ((fun x -> Big_int_Z.succ_big_int (Big_int_Z.mult_int_big_int 2 x))
    (Big_int_Z.mult_int_big_int 2
    ((fun x -> Big_int_Z.succ_big_int (Big_int_Z.mult_int_big_int 2 x))
    (Big_int_Z.mult_int_big_int 2
    ((fun x -> Big_int_Z.succ_big_int (Big_int_Z.mult_int_big_int 2 x))
    Big_int_Z.unit_big_int)))))))
| Xd5 ->
  ((fun x -> Big_int_Z.succ_big_int (Big_int_Z.mult_int_big_int 2 x))
    (Big_int_Z.mult_int_big_int 2
    ((fun x -> Big_int_Z.succ_big_int (Big_int_Z.mult_int_big_int 2 x))
    (Big_int_Z.mult_int_big_int 2
    ((fun x -> Big_int_Z.succ_big_int (Big_int_Z.mult_int_big_int 2 x))
    (Big_int_Z.mult_int_big_int 2
    ((fun x -> Big_int_Z.succ_big_int (Big_int_Z.mult_int_big_int 2 x))
    Big_int_Z.unit_big_int)))))))
| Xd6 ->
  (Big_int_Z.mult_int_big_int 2
    ((fun x -> Big_int_Z.succ_big_int (Big_int_Z.mult_int_big_int 2 x))
    ((fun x -> Big_int_Z.succ_big_int (Big_int_Z.mult_int_big_int 2 x))
    (Big_int_Z.mult_int_big_int 2
    ((fun x -> Big_int_Z.succ_big_int (Big_int_Z.mult_int_big_int 2 x))
    (Big_int_Z.mult_int_big_int 2
    ((fun x -> Big_int_Z.succ_big_int (Big_int_Z.mult_int_big_int 2 x))
    Big_int_Z.unit_big_int)))))))
| Xd7 ->
  ((fun x -> Big_int_Z.succ_big_int (Big_int_Z.mult_int_big_int 2 x))
    ((fun x -> Big_int_Z.succ_big_int (Big_int_Z.mult_int_big_int 2 x))
    ((fun x -> Big_int_Z.succ_big_int (Big_int_Z.mult_int_big_int 2 x))
    (Big_int_Z.mult_int_big_int 2
    ((fun x -> Big_int_Z.succ_big_int (Big_int_Z.mult_int_big_int 2 x))
    (Big_int_Z.mult_int_big_int 2
    ((fun x -> Big_int_Z.succ_big_int (Big_int_Z.mult_int_big_int 2 x))
    Big_int_Z.unit_big_int)))))))
| Xd8 ->
  (Big_int_Z.mult_int_big_int 2 (Big_int_Z.mult_int_big_int 2
    (Big_int_Z.mult_int_big_int 2
    ((fun x -> Big_int_Z.succ_big_int (Big_int_Z.mult_int_big_int 2 x))
    ((fun x -> Big_int_Z.succ_big_int (Big_int_Z.mult_int_big_int 2 x))
    (Big_int_Z.mult_int_big_int 2
    ((fun x -> Big_int_Z.succ_big_int (Big_int_Z.mult_int_big_int 2 x))
    Big_int_Z.unit_big_int)))))))
| Xd9 ->
  ((fun x -> Big_int_Z.succ_big_int (Big_int_Z.mult_int_big_int 2 x))
    (Big_int_Z.mult_int_big_int 2 (Big_int_Z.mult_int_big_int 2
    ((fun x -> Big_int_Z.succ_big_int (Big_int_Z.mult_int_big_int 2 x))
    ((fun x -> Big_int_Z.succ_big_int (Big_int_Z.mult_int_big_int 2 x))
    (Big_int_Z.mult_int_big_int 2
    ((fun x -> Big_int_Z.succ_big_int (Big_int_Z.mult_int_big_int 2 x))
    Big_int_Z.unit_big_int)))))))
| Xda ->
  (Big_int_Z.mult_int_big_int 2
    ((fun x -> Big_int_Z.succ_big_int (Big_int_Z.mult_int_big_int 2 x))
    (Big_int_Z.mult_int_big_int 2
    ((fun x -> Big_int_Z.succ_big_int (Big_int_Z.mult_int_big_int 2 x))
    ((fun x -> Big_int_Z.succ_big_int (Big_int_Z.mult_int_big_int 2 x))
    (Big_int_Z.mult_int_big_int 2
    ((fun x -> Big_int_Z.succ_big_int (Big_int_Z.mult_int_big_int 2 x))
    Big_int_Z.unit_big_int)))))))
| Xdb ->
  ((fun x -> Big_int_Z.succ_big_int (Big_int_Z.mult_int_big_int 2 x))
    ((fun x -> Big_int_Z.succ_big_int (Big_int_Z.mult_int_big_int 2 x))
    (Big_int_Z.mult_int_big_int 2
    ((fun x -> Big_int_Z.succ_big_int (Big_int_Z.mult_int_big_int 2 x))
    ((fun x -> Big_int_Z.succ_big_int (Big_int_Z.mult_int_big_int 2 x))
    (Big_int_Z.mult_int_big_int 2
    ((fun x -> Big_int_Z.succ_big_int (Big_int_Z.mult_int_big_int 2 x))
    Big_int_Z.unit_big_int)))))))
| Xdc ->
  (Big_int_Z.mult_int_big_int 2 (Big_int_Z.mult_int_big_int 2
    ((fun x -> Big_int_Z.succ_big_int (Big_int_Z.mult_int_big_int 2 x))
    ((fun x -> Big_int_Z.succ_big_int (Big_int_Z.mult_int_big_int 2 x))
    ((fun x -> Big_int_Z.succ_big_int (Big_int_Z.mult_int_big_int 2 x))
    (Big_int_Z.mult_int_big_int 2
    ((fun x -> Big_int_Z.succ_big_int (Big_int_Z.mult_int_big_int 2 x))
    Big_int_Z.unit_big_int)))))))
| Xdd ->
  ((fun x -> Big_int_Z.succ_big_int (Big_int_Z.mult_int_big_int 2 x))
    (Big_int_Z.mult_int_big_int 2
    ((fun x -> Big_int_Z.succ_big_int (Big_int_Z.mult_int_big_int 2 x))
    ((fun x -> Big_int_Z.succ_big_int (Big_int_Z.mult_int_big_int 2 x))
    ((fun x -> Big_int_Z.succ_big_int (Big_int_Z.mult_int_big_int 2 x))
    (Big_int_Z.mult_int_big_int 2
    ((fun x -> Big_int_Z.succ_big_int (Big_int_Z.mult_int_big_int 2 x))
    Big_int_Z.unit_big_int)))))))
| Xde ->
  (Big_int_Z.mult_int_big_int 2
    ((fun x -> Big_int_Z.succ_big_int (Big_int_Z.mult_int_big_int 2 x))
    ((fun x -> Big_int_Z.succ_big_int (Big_int_Z.mult_int_big_int 2 x))
    ((fun x -> Big_int_Z.succ_big_int (Big_int_Z.mult_int_big_int 2 x))
    ((fun x -> Big_int_Z.succ_big_int (Big_int_Z.mult_int_big_int 2 x))
    (Big_int_Z.mult_int_big_int 2
    ((fun x -> Big_int_Z.succ_big_int (Big_int_Z.mult_int_big_int 2 x))
    Big_int_Z.unit_big_int)))))))
| Xdf ->
  ((fun x -> Big_int_Z.succ_big_int (Big_int_Z.mult_int_big_int 2 x))
    ((fun x -> Big_int_Z.succ_big_int (Big_int_Z.mult_int_big_int 2 x))
    ((fun x -> Big_int_Z.succ_big_int (Big_int_Z.mult_int_big_int 2 x))
    ((fun x -> Big_int_Z.succ_big_int (Big_int_Z.mult_int_big_int 2 x))
    ((fun x -> Big_int_Z.succ_big_int (Big_int_Z.mult_int_big_int 2 x))
    (Big_int_Z.mult_int_big_int 2
    ((fun x -> Big_int_Z.succ_big_int (Big_int_Z.mult_int_big_int 2 x))
    Big_int_Z.unit_big_int)))))))
| Xe0 ->
  (Big_int_Z.mult_int_big_int 2 (Big_int_Z.mult_int_big_int 2
    (Big_int_Z.mult_int_big_int 2 (Big_int_Z.mult_int_big_int 2
    (Big_int_Z.mult_int_big_int 2
    ((fun x -> Big_int_Z.succ_big_int (Big_int_Z.mult_int_big_int 2 x))
    ((fun x -> Big_int_Z.succ_big_int (Big_int_Z.mult_int_big_int 2 x))
    Big_int_Z.unit_big_int)))))))
| Xe1 ->
  ((fun x -> Big_int_Z.succ_big_int (Big_int_Z.mult_int_big_int 2 x))
    (Big_int_Z.mult_int_big_int 2 (Big_int_Z.mult_int_big_int 2
    (Big_int_Z.mult_int_big_int 2 (Big_int_Z.mult_int_big_int 2
    ((fun x -> Big_int_Z.succ_big_int (Big_int_Z.mult_int_big_int 2 x))
    ((fun x -> Big_int_Z.succ_big_int (Big_int_Z.mult_int_big_int 2 x))
    Big_int_Z.unit_big_int)))))))
| Xe2 ->
  (Big_int_Z.mult_int_big_int 2
    ((fun x -> Big_int_Z.succ_big_int (Big_int_Z.mult_int_big_int 2 x))
    (Big_int_Z.mult_int_big_int 2 (Big_int_Z.mult_int_big_int 2
    (Big_int_Z.mult_int_big_int 2
    ((fun x -> Big_int_Z.succ_big_int (Big_int_Z.mult_int_big_int 2 x))
    ((fun x -> Big_int_Z.succ_big_int (Big_int_Z.mult_int_big_int 2 x))
    Big_int_Z.unit_big_int)))))))
| Xe3 ->
  ((fun x -> Big_int_Z.succ_big_int (Big_int_Z.mult_int_big_int 2 x))
    ((fun x -> Big_int_Z.succ_big_int (Big_int_Z.mult_int_big_int 2 x))
    (Big_int_Z.mult_int_big_int 2 (Big_int_Z.mult_int_big_int 2
    (Big_int_Z.mult_int_big_int 2
    ((fun x -> Big_int_Z.succ_big_int (Big_int_Z.mult_int_big_int 2 x))
    ((fun x -> Big_int_Z.succ_big_int (Big_int_Z.mult_int_big_int 2 x))
    Big_int_Z.unit_big_int)))))))
| Xe4 ->
  (Big_int_Z.mult_int_big_int 2 (Big_int_Z.mult_int_big_int 2
    ((fun x -> Big_int_Z.succ_big_int (Big_int_Z.mult_int_big_int 2 x))
    (Big_int_Z.mult_int_big_int 2 (Big_int_Z.mult_int_big_int 2
    ((fun x -> Big_int_Z.succ_big_int (Big_int_Z.mult_int_big_int 2 x))
    ((fun x -> Big_int_Z.succ_big_int (Big_int_Z.mult_int_big_int 2 x))
    Big_int_Z.unit_big_int)))))))
| Xe5 ->
  ((fun x -> Big_int_Z.succ_big_int (Big_int_Z.mult_int_big_int 2 x))
    (Big_int_Z.mult_int_big_int 2
    ((fun x -> Big_int_Z.succ_big_int (Big_int_Z.mult_int_big_int 2 x))
    (Big_int_Z.mult_int_big_int 2 (Big_int_Z.mult_int_big_int 2
    ((fun x -> Big_int_Z.succ_big_int (Big_int_Z.mult_int_big_int 2 x))
    ((fun x -> Big_int_Z.succ_big_int (Big_int_Z.mult_int_big_int 2 x))
    Big_int_Z.unit_big_int)))))))
| Xe6 ->
  (Big_int_Z.mult_int_big_int 2
    ((fun x -> Big_int_Z.succ_big_int (Big_int_Z.mult_int_big_int 2 x))
    ((fun x -> Big_int_Z.succ_big_int (Big_int_Z.mult_int_big_int 2 x))
    (Big_int_Z.mult_int_big_int 2 (Big_int_Z.mult_int_big_int 2
    ((fun x -> Big_int_Z.succ_big_int (Big_int_Z.mult_int_big_int 2 x))
    ((fun x -> Big_int_Z.succ_big_int (Big_int_Z.mult_int_big_int 2 x))
    Big_int_Z.unit_big_int)))))))
| Xe7 ->
  ((fun x -> Big_int_Z.succ_big_int (Big_int_Z.mult_int_big_int 2 x))
    ((fun x -> Big_int_Z.succ_big_int (Big_int_Z.mult_int_big_int 2 x))
    ((fun x -> Big_int_Z.succ_big_int (Big_int_Z.mult_int_big_int 2 x))
    (Big_int_Z.mult_int_big_int 2 (Big_int_Z.mult_int_big_int 2
    ((fun x -> Big_int_Z.succ_big_int (Big_int_Z.mult_int_big_int 2 x))
    ((fun x -> Big_int_Z.succ_big_int (Big_int_Z.mult_int_big_int 2 x))
    Big_int_Z.unit_big_int)))))))
| Xe8 ->
  (Big_int_Z.mult_int_big_int 2 (Big_int_Z.mult_int_big_int 2
    (Big_int_Z.mult_int_big_int 2
    ((fun x -> Big_int_Z.succ_big_int (Big_int_Z.mult_int_big_int 2 x))
    (Big_int_Z.mult_int_big_int 2
    ((fun x -> Big_int_Z.succ_big_int (Big_int_Z.mult_int_big_int 2 x))
    ((fun x -> Big_int_Z.succ_big_int (Big_int_Z.mult_int_big_int 2 x))
    Big_int_Z.unit_big_int)))))))
| Xe9 ->
  ((fun x -> Big_int_Z.succ_big_int (Big_int_Z.mult_int_big_int 2 x))
    (Big_int_Z.mult_int_big_int 2 (Big_int_Z.mult_int_big_int 2
    ((fun x -> Big_int_Z.succ_big_int (Big_int_Z.mult_int_big_int 2 x))
    (Big_int_Z.mult_int_big_int 2
    ((fun x -> Big_int_Z.succ_big_int (Big_int_Z.mult_int_big_int 2 x))
    ((fun x -> Big_int_Z.succ_big_int (Big_int_Z.mult_int_big_int 2 x))
    Big_int_Z.unit_big_int)))))))
| Xea ->
  (Big_int_Z.mult_int_big_int 2
    ((fun x -> Big_int_Z.succ_big_int (Big_int_Z.mult_int_big_int 2 x))
    (Big_int_Z.mult_int_big_int 2
    ((fun x -> Big_int_Z.succ_big_int (Big_int_Z.mult_int_big_int 2 x))
    (Big_int_Z.mult_int_big_int 2
    ((fun x -> Big_int_Z.succ_big_int (Big_int_Z.mult_int_big_int 2 x))
    ((fun x -> Big_int_Z.succ_big_int (Big_int_Z.mult_int_big_int 2 x))
    Big_int_Z.unit_big_int)))))))
| Xeb ->
  ((fun x -> Big_int_Z.succ_big_int (Big_int_Z.mult_int_big_int 2 x))
    ((fun x -> Big_int_Z.succ_big_int (Big_int_Z.mult_int_big_int 2 x))
    (Big_int_Z.mult_int_big_int 2
    ((fun x -> Big_int_Z.succ_big_int (Big_int_Z.mult_int_big_int 2 x))
    (Big_int_Z.mult_int_big_int 2
    ((fun x -> Big_int_Z.succ_big_int (Big_int_Z.mult_int_big_int 2 x))
    ((fun x -> Big_int_Z.succ_big_int (Big_int_Z.mult_int_big_int 2 x))
    Big_int_Z.unit_big_int)))))))
| Xec ->
  (Big_int_Z.mult_int_big_int 2 (Big_int_Z.mult_int_big_int 2
    ((fun x -> Big_int_Z.succ_big_int (Big_int_Z.mult_int_big_int 2 x))
    ((fun x -> Big_int_Z.succ_big_int (Big_int_Z.mult_int_big_int 2 x))
    (Big_int_Z.mult_int_big_int 2
    ((fun x -> Big_int_Z.succ_big_int (Big_int_Z.mult_int_big_int 2 x))
    ((fun x -> Big_int_Z.succ_big_int (Big_int_Z.mult_int_big_int 2 x))
    Big_int_Z.unit_big_int)))))))
| Xed ->
  ((fun x -> Big_int_Z.succ_big_int (Big_int_Z.mult_int_big_int 2 x))
    (Big_int_Z.mult_int_big_int 2
    ((fun x -> Big_int_Z.succ_big_int (Big_int_Z.mult_int_big_int 2 x))
    ((fun x -> Big_int_Z.succ_big_int (Big_int_Z.mult_int_big_int 2 x))
    (Big_int_Z.mult_int_big_int 2
    ((fun x -> Big_int_Z.succ_big_int (Big_int_Z.mult_int_big_int 2 x))
    ((fun x -> Big_int_Z.succ_big_int (Big_int_Z.mult_int_big_int 2 x))
    Big_int_Z.unit_big_int)))))))
| Xee ->
  (Big_int_Z.mult_int_big_int 2
    ((fun x -> Big_int_Z.succ_big_int (Big_int_Z.mult_int_big_int 2 x))
    ((fun x -> Big_int_Z.succ_big_int (Big_int_Z.mult_int_big_int 2 x))
    ((fun x -> Big_int_Z.succ_big_int (Big_int_Z.mult_int_big_int 2 x))
    (Big_int_Z.mult_int_big_int 2
    ((fun x -> Big_int_Z.succ_big_int (Big_int_Z.mult_int_big_int 2 x))
    ((fun x -> Big_int_Z.succ_big_int (Big_int_Z.mult_int_big_int 2 x))
    Big_int_Z.unit_big_int)))))))
| Xef ->
  ((fun x -> Big_int_Z.succ_big_int (Big_int_Z.mult_int_big_int 2 x))
    ((fun x -> Big_int_Z.succ_big_int (Big_int_Z.mult_int_big_int 2 x))
    ((fun x -> Big_int_Z.succ_big_int (Big_int_Z.mult_int_big_int 2 x))
    ((fun x -> Big_int_Z.succ_big_int (Big_int_Z.mult_int_big_int 2 x))
    (Big_int_Z.mult_int_big_int 2
    ((fun x -> Big_int_Z.succ_big_int (Big_int_Z.mult_int_big_int 2 x))
    ((fun x -> Big_int_Z.succ_big_int (Big_int_Z.mult_int_big_int 2 x))
    Big_int_Z.unit_big_int)))))))
| Xf0 ->
  (Big_int_Z.mult_int_big_int 2 (Big_int_Z.mult_int_big_int 2
    (Big_int_Z.mult_int_big_int 2 (Big_int_Z.mult_int_big_int 2
    ((fun x -> Big_int_Z.succ_big_int (Big_int_Z.mult_int_big_int 2 x))
    ((fun x -> Big_int_Z.succ_big_int (Big_int_Z.mult_int_big_int 2 x))
    ((fun x -> Big_int_Z.succ_big_int (Big_int_Z.mult_int_big_int 2 x))
    Big_int_Z.unit_big_int)))))))
| Xf1 ->
  ((fun x -> Big_int_Z.succ_big_int (Big_int_Z.mult_int_big_int 2 x))
    (Big_int_Z.mult_int_big_int 2 (Big_int_Z.mult_int_big_int 2
    (Big_int_Z.mult_int_big_int 2
    ((fun x -> Big_int_Z.succ_big_int (Big_int_Z.mult_int_big_int 2 x))
    ((fun x -> Big_int_Z.succ_big_int (Big_int_Z.mult_int_big_int 2 x))
    ((fun x -> Big_int_Z.succ_big_int (Big_int_Z.mult_int_big_int 2 x))
    Big_int_Z.unit_big_int)))))))
| Xf2 ->
  (Big_int_Z.mult_int_big_int 2
    ((fun x -> Big_int_Z.succ_big_int (Big_int_Z.mult_int_big_int 2 x))
    (Big_int_Z.mult_int_big_int 2 (Big_int_Z.mult_int_big_int 2
    ((fun x -> Big_int_Z.succ_big_int (Big_int_Z.mult_int_big_int 2 x))
    ((fun x -> Big_int_Z.succ_big_int (Big_int_Z.mult_int_big_int 2 x))
    ((fun x -> Big_int_Z.succ_big_int (Big_int_Z.mult_int_big_int 2 x))
    Big_int_Z.unit_big_int)))))))
| Xf3 ->
  ((fun x -> Big_int_Z.succ_big_int (Big_int_Z.mult_int_big_int 2 x))
    ((fun x -> Big_int_Z.succ_big_int (Big_int_Z.mult_int_big_int 2 x))
    (Big_int_Z.mult_int_big_int 2 (Big_int_Z.mult_int_big_int 2
    ((fun x -> Big_int_Z.succ_big_int (Big_int_Z.mult_int_big_int 2 x))
    ((fun x -> Big_int_Z.succ_big_int (Big_int_Z.mult_int_big_int 2 x))
    ((fun x -> Big_int_Z.succ_big_int (Big_int_Z.mult_int_big_int 2 x))
    Big_int_Z.unit_big_int)))))))
| Xf4 ->
  (Big_int_Z.mult_int_big_int 2 (Big_int_Z.mult_int_big_int 2
    ((fun x -> Big_int_Z.succ_big_int (Big_int_Z.mult_int_big_int 2 x))
    (Big_int_Z.mult_int_big_int 2
    ((fun x -> Big_int_Z.succ_big_int (Big_int_Z.mult_int_big_int 2 x))
    ((fun x -> Big_int_Z.succ_big_int (Big_int_Z.mult_int_big_int 2 x))
    ((fun x -> Big_int_Z.succ_big_int (Big_int_Z.mult_int_big_int 2 x))
    Big_int_Z.unit_big_int)))))))
| Xf5 ->
  ((fun x -> Big_int_Z.succ_big_int (Big_int_Z.mult_int_big_int 2 x))
    (Big_int_Z.mult_int_big_int 2
    ((fun x -> Big_int_Z.succ_big_int (Big_int_Z.mult_int_big_int 2 x))
    (Big_int_Z.mult_int_big_int 2
    ((fun x -> Big_int_Z.succ_big_int (Big_int_Z.mult_int_big_int 2 x))
    ((fun x -> Big_int_Z.succ_big_int (Big_int_Z.mult_int_big_int 2 x))
    ((fun x -> Big_int_Z.succ_big_int (Big_int_Z.mult_int_big_int 2 x))
    Big_int_Z.unit_big_int)))))))
| Xf6 ->
  (Big_int_Z.mult_int_big_int 2
    ((fun x -> Big_int_Z.succ_big_int (Big_int_Z.mult_int_big_int 2 x))
    ((fun x -> Big_int_Z.succ_big_int (Big_int_Z.mult_int_big_int 2 x))
    (Big_int_Z.mult_int_big_int 2
    ((fun x -> Big_int_Z.succ_big_int (Big_int_Z.mult_int_big_int 2 x))
    ((fun x -> Big_int_Z.succ_big_int (Big_int_Z.mult_int_big_int 2 x))
    ((fun x -> Big_int_Z.succ_big_int (Big_int_Z.mult_int_big_int 2 x))
    Big_int_Z.unit_big_int)))))))
| Xf7 ->
  ((fun x -> Big_int_Z.succ_big_int (Big_int_Z.mult_int_big_int 2 x))
    ((fun x -> Big_int_Z.succ_big_int (Big_int_Z.mult_int_big_int 2 x))
    ((fun x -> Big_int_Z.succ_big_int (Big_int_Z.mult_int_big_int 2 x))
    (Big_int_Z.mult_int_big_int 2
    ((fun x -> Big_int_Z.succ_big_int (Big_int_Z.mult_int_big_int 2 x))
    ((fun x -> Big_int_Z.succ_big_int (Big_int_Z.mult_int_big_int 2 x))
    ((fun x -> Big_int_Z.succ_big_int (Big_int_Z.mult_int_big_int 2 x))
    Big_int_Z.unit_big_int)))))))
| Xf8 ->
  (Big_int_Z.mult_int_big_int 2 (Big_int_Z.mult_int_big_int 2
    (Big_int_Z.mult_int_big_int 2
    ((fun x -> Big_int_Z.succ_big_int (Big_int_Z.mult_int_big_int 2 x))
    ((fun x -> Big_int_Z.succ_big_int (Big_int_Z.mult_int_big_int 2 x))
    ((fun x -> Big_int_Z.succ_big_int (Big_int_Z.mult_int_big_int 2 x))
    ((fun x -> Big_int_Z.succ_big_int (Big_int_Z.mult_int_big_int 2 x))
    Big_int_Z.unit_big_int)))))))
| Xf9 ->
  ((fun x -> Big_int_Z.succ_big_int (Big_int_Z.mult_int_big_int 2 x))
    (Big_int_Z.mult_int_big_int 2 (Big_int_Z.mult_int_big_int 2
    ((fun x -> Big_int_Z.succ_big_int (Big_int_Z.mult_int_big_int 2 x))
    ((fun x -> Big_int_Z.succ_big_int (Big_int_Z.mult_int_big_int 2 x))
    ((fun x -> Big_int_Z.succ_big_int (Big_int_Z.mult_int_big_int 2 x))
    ((fun x -> Big_int_Z.succ_big_int (Big_int_Z.mult_int_big_int 2 x))
    Big_int_Z.unit_big_int)))))))
| Xfa ->
  (Big_int_Z.mult_int_big_int 2
    ((fun x -> Big_int_Z.succ_big_int (Big_int_Z.mult_int_big_int 2 x))
    (Big_int_Z.mult_int_big_int 2
    ((fun x -> Big_int_Z.succ_big_int (Big_int_Z.mult_int_big_int 2 x))
    ((fun x -> Big_int_Z.succ_big_int (Big_int_Z.mult_int_big_int 2 x))
    ((fun x -> Big_int_Z.succ_big_int (Big_int_Z.mult_int_big_int 2 x))
    ((fun x -> Big_int_Z.succ_big_int (Big_int_Z.mult_int_big_int 2 x))
    Big_int_Z.unit_big_int)))))))
| Xfb ->
  ((fun x -> Big_int_Z.succ_big_int (Big_int_Z.mult_int_big_int 2 x))
    ((fun x -> Big_int_Z.succ_big_int (Big_int_Z.mult_int_big_int 2 x))
    (Big_int_Z.mult_int_big_int 2
    ((fun x -> Big_int_Z.succ_big_int (Big_int_Z.mult_int_big_int 2 x))
    ((fun x -> Big_int_Z.succ_big_int (Big_int_Z.mult_int_big_int 2 x))
    ((fun x -> Big_int_Z.succ_big_int (Big_int_Z.mult_int_big_int 2 x))
    ((fun x -> Big_int_Z.succ_big_int (Big_int_Z.mult_int_big_int 2 x))
    Big_int_Z.unit_big_int)))))))
| Xfc ->
  (Big_int_Z.mult_int_big_int 2 (Big_int_Z.mult_int_big_int 2
    ((fun x -> Big_int_Z.succ_big_int (Big_int_Z.mult_int_big_int 2 x))
    ((fun x -> Big_int_Z.succ_big_int (Big_int_Z.mult_int_big_int 2 x))
    ((fun x -> Big_int_Z.succ_big_int (Big_int_Z.mult_int_big_int 2 x))
    ((fun x -> Big_int_Z.succ_big_int (Big_int_Z.mult_int_big_int 2 x))
    ((fun x -> Big_int_Z.succ_big_int (Big_int_Z.mult_int_big_int 2 x))
    Big_int_Z.unit_big_int)))))))
| Xfd ->
  ((fun x -> Big_int_Z.succ_big_int (Big_int_Z.mult_int_big_int 2 x))
    (Big_int_Z.mult_int_big_int 2
    ((fun x -> Big_int_Z.succ_big_int (Big_int_Z.mult_int_big_int 2 x))
    ((fun x -> Big_int_Z.succ_big_int (Big_int_Z.mult_int_big_int 2 x))
    ((fun x -> Big_int_Z.succ_big_int (Big_int_Z.mult_int_big_int 2 x))
    ((fun x -> Big_int_Z.succ_big_int (Big_int_Z.mult_int_big_int 2 x))
    ((fun x -> Big_int_Z.succ_big_int (Big_int_Z.mult_int_big_int 2 x))
    Big_int_Z.unit_big_int)))))))
| Xfe ->
  (Big_int_Z.mult_int_big_int 2
    ((fun x -> Big_int_Z.succ_big_int (Big_int_Z.mult_int_big_int 2 x))
    ((fun x -> Big_int_Z.succ_big_int (Big_int_Z.mult_int_big_int 2 x))
    ((fun x -> Big_int_Z.succ_big_int (Big_int_Z.mult_int_big_int 2 x))
    ((fun x -> Big_int_Z.succ_big_int (Big_int_Z.mult_int_big_int 2 x))
    ((fun x -> Big_int_Z.succ_big_int (Big_int_Z.mult_int_big_int 2 x))
    ((fun x -> Big_int_Z.succ_big_int (Big_int_Z.mult_int_big_int 2 x))
    Big_int_Z.unit_big_int)))))))
| Xff ->
  ((fun x -> Big_int_Z.succ_big_int (Big_int_Z.mult_int_big_int 2 x))
    ((fun x -> Big_int_Z.succ_big_int (Big_int_Z.mult_int_big_int 2 x))
    ((fun x -> Big_int_Z.succ_big_int (Big_int_Z.mult_int_big_int 2 x))
    ((fun x -> Big_int_Z.succ_big_int (Big_int_Z.mult_int_big_int 2 x))
    ((fun x -> Big_int_Z.succ_big_int (Big_int_Z.mult_int_big_int 2 x))
    ((fun x -> Big_int_Z.succ_big_int (Big_int_Z.mult_int_big_int 2 x))
    ((fun x -> Big_int_Z.succ_big_int (Big_int_Z.mult_int_big_int 2 x))
    Big_int_Z.unit_big_int)))))))

type exn =
| Trunc
| SerErr
| ExtraData
| StructError
| ValueError
| AssertionError
| IndexError
| KeyError
| AttributeError
| TypeError
| ZeroDivision
| InvalidScript
| TruncatedPush
| EvalErr
| VerifyErr
| CheckTxErr
| CheckBlockErr
| CheckHeaderErr
| CheckPowErr
| Base58Invalid
| Base58Checksum
| Bech32Err
| AddressErr
| SecretErr
| RpcErr
| OutOfFuel
| OtherErr
| ValidationErr

(** val exn_code : exn -> Big_int_Z.big_int **)

let exn_code = function
| Trunc -> Big_int_Z.unit_big_int
| SerErr -> (Big_int_Z.mult_int_big_int 2 Big_int_Z.unit_big_int)
| ExtraData ->
  ((fun x -> Big_int_Z.succ_big_int (Big_int_Z.mult_int_big_int 2 x))
    Big_int_Z.unit_big_int)
| StructError ->
  (Big_int_Z.mult_int_big_int 2 (Big_int_Z.mult_int_big_int 2
    Big_int_Z.unit_big_int))
| ValueError ->
  ((fun x -> Big_int_Z.succ_big_int (Big_int_Z.mult_int_big_int 2 x))
    (Big_int_Z.mult_int_big_int 2 Big_int_Z.unit_big_int))
| AssertionError ->
  (Big_int_Z.mult_int_big_int 2
    ((fun x -> Big_int_Z.succ_big_int (Big_int_Z.mult_int_big_int 2 x))
    Big_int_Z.unit_big_int))
| IndexError ->
  ((fun x -> Big_int_Z.succ_big_int (Big_int_Z.mult_int_big_int 2 x))
    ((fun x -> Big_int_Z.succ_big_int (Big_int_Z.mult_int_big_int 2 x))
    Big_int_Z.unit_big_int))
| KeyError ->
  (Big_int_Z.mult_int_big_int 2 (Big_int_Z.mult_int_big_int 2
    (Big_int_Z.mult_int_big_int 2 Big_int_Z.unit_big_int)))
| AttributeError ->
  ((fun x -> Big_int_Z.succ_big_int (Big_int_Z.mult_int_big_int 2 x))
    (Big_int_Z.mult_int_big_int 2 (Big_int_Z.mult_int_big_int 2
    Big_int_Z.unit_big_int)))
| TypeError ->
  (Big_int_Z.mult_int_big_int 2
    ((fun x -> Big_int_Z.succ_big_int (Big_int_Z.mult_int_big_int 2 x))
    (Big_int_Z.mult_int_big_int 2 Big_int_Z.unit_big_int)))
| ZeroDivision ->
  ((fun x -> Big_int_Z.succ_big_int (Big_int_Z.mult_int_big_int 2 x))
    ((fun x -> Big_int_Z.succ_big_int (Big_int_Z.mult_int_big_int 2 x))
    (Big_int_Z.mult_int_big_int 2 Big_int_Z.unit_big_int)))
| InvalidScript ->
  (Big_int_Z.mult_int_big_int 2 (Big_int_Z.mult_int_big_int 2
    ((fun x -> Big_int_Z.succ_big_int (Big_int_Z.mult_int_big_int 2 x))
    Big_int_Z.unit_big_int)))
| TruncatedPush ->
  ((fun x -> Big_int_Z.succ_big_int (Big_int_Z.mult_int_big_int 2 x))
    (Big_int_Z.mult_int_big_int 2
    ((fun x -> Big_int_Z.succ_big_int (Big_int_Z.mult_int_big_int 2 x))
    Big_int_Z.unit_big_int)))
| EvalErr ->
  (Big_int_Z.mult_int_big_int 2
    ((fun x -> Big_int_Z.succ_big_int (Big_int_Z.mult_int_big_int 2 x))
    ((fun x -> Big_int_Z.succ_big_int (Big_int_Z.mult_int_big_int 2 x))
    Big_int_Z.unit_big_int)))
| VerifyErr ->
  ((fun x -> Big_int_Z.succ_big_int (Big_int_Z.mult_int_big_int 2 x))
    ((fun x -> Big_int_Z.succ_big_int (Big_int_Z.mult_int_big_int 2 x))
    ((fun x -> Big_int_Z.succ_big_int (Big_int_Z.mult_int_big_int 2 x))
    Big_int_Z.unit_big_int)))
| CheckTxErr ->
  (Big_int_Z.mult_int_big_int 2 (Big_int_Z.mult_int_big_int 2
    (Big_int_Z.mult_int_big_int 2 (Big_int_Z.mult_int_big_int 2
    Big_int_Z.unit_big_int))))
| CheckBlockErr ->
  ((fun x -> Big_int_Z.succ_big_int (Big_int_Z.mult_int_big_int 2 x))
    (Big_int_Z.mult_int_big_int 2 (Big_int_Z.mult_int_big_int 2
    (Big_int_Z.mult_int_big_int 2 Big_int_Z.unit_big_int))))
| CheckHeaderErr ->
  (Big_int_Z.mult_int_big_int 2
    ((fun x -> Big_int_Z.succ_big_int (Big_int_Z.mult_int_big_int 2 x))
    (Big_int_Z.mult_int_big_int 2 (Big_int_Z.mult_int_big_int 2
    Big_int_Z.unit_big_int))))
| CheckPowErr ->
  ((fun x -> Big_int_Z.succ_big_int (Big_int_Z.mult_int_big_int 2 x))
    ((fun x -> Big_int_Z.succ_big_int (Big_int_Z.mult_int_big_int 2 x))
    (Big_int_Z.mult_int_big_int 2 (Big_int_Z.mult_int_big_int 2
    Big_int_Z.unit_big_int))))
| Base58Invalid ->
  (Big_int_Z.mult_int_big_int 2 (Big_int_Z.mult_int_big_int 2
    ((fun x -> Big_int_Z.succ_big_int (Big_int_Z.mult_int_big_int 2 x))
    (Big_int_Z.mult_int_big_int 2 Big_int_Z.unit_big_int))))
| Base58Checksum ->
  ((fun x -> Big_int_Z.succ_big_int (Big_int_Z.mult_int_big_int 2 x))
    (Big_int_Z.mult_int_big_int 2
    ((fun x -> Big_int_Z.succ_big_int (Big_int_Z.mult_int_big_int 2 x))
    (Big_int_Z.mult_int_big_int 2 Big_int_Z.unit_big_int))))
| Bech32Err ->
  (Big_int_Z.mult_int_big_int 2
    ((fun x -> Big_int_Z.succ_big_int (Big_int_Z.mult_int_big_int 2 x))
    ((fun x -> Big_int_Z.succ_big_int (Big_int_Z.mult_int_big_int 2 x))
    (Big_int_Z.mult_int_big_int 2 Big_int_Z.unit_big_int))))
| AddressErr ->
  ((fun x -> Big_int_Z.succ_big_int (Big_int_Z.mult_int_big_int 2 x))
    ((fun x -> Big_int_Z.succ_big_int (Big_int_Z.mult_int_big_int 2 x))
    ((fun x -> Big_int_Z.succ_big_int (Big_int_Z.mult_int_big_int 2 x))
    (Big_int_Z.mult_int_big_int 2 Big_int_Z.unit_big_int))))
| SecretErr ->
  (Big_int_Z.mult_int_big_int 2 (Big_int_Z.mult_int_big_int 2
    (Big_int_Z.mult_int_big_int 2
    ((fun x -> Big_int_Z.succ_big_int (Big_int_Z.mult_int_big_int 2 x))
    Big_int_Z.unit_big_int))))
| RpcErr ->
  ((fun x -> Big_int_Z.succ_big_int (Big_int_Z.mult_int_big_int 2 x))
    (Big_int_Z.mult_int_big_int 2 (Big_int_Z.mult_int_big_int 2
    ((fun x -> Big_int_Z.succ_big_int (Big_int_Z.mult_int_big_int 2 x))
    Big_int_Z.unit_big_int))))
| OutOfFuel ->
  (Big_int_Z.mult_int_big_int 2
    ((fun x -> Big_int_Z.succ_big_int (Big_int_Z.mult_int_big_int 2 x))
    (Big_int_Z.mult_int_big_int 2
    ((fun x -> Big_int_Z.succ_big_int (Big_int_Z.mult_int_big_int 2 x))
    Big_int_Z.unit_big_int))))
| OtherErr ->
  ((fun x -> Big_int_Z.succ_big_int (Big_int_Z.mult_int_big_int 2 x))
    ((fun x -> Big_int_Z.succ_big_int (Big_int_Z.mult_int_big_int 2 x))
    (Big_int_Z.mult_int_big_int 2
    ((fun x -> Big_int_Z.succ_big_int (Big_int_Z.mult_int_big_int 2 x))
    Big_int_Z.unit_big_int))))
| ValidationErr ->
  (Big_int_Z.mult_int_big_int 2 (Big_int_Z.mult_int_big_int 2
    ((fun x -> Big_int_Z.succ_big_int (Big_int_Z.mult_int_big_int 2 x))
    ((fun x -> Big_int_Z.succ_big_int (Big_int_Z.mult_int_big_int 2 x))
    Big_int_Z.unit_big_int))))

type 'a res =
| Ok of 'a
| Err of exn

(** val bind : 'a1 res -> ('a1 -> 'a2 res) -> 'a2 res **)

let bind r f =
  match r with
  | Ok a -> f a
  | Err e -> Err e

type bytes = byte list

(** val b2z : byte -> Big_int_Z.big_int **)

let b2z b =
  Z.of_N (to_N b)

(** val le_dec : bytes -> Big_int_Z.big_int **)

let rec le_dec = function
| [] -> Big_int_Z.zero_big_int
| b :: t ->
  Z.add (b2z b)
    (Z.mul (Big_int_Z.mult_int_big_int 2 (Big_int_Z.mult_int_big_int 2
      (Big_int_Z.mult_int_big_int 2 (Big_int_Z.mult_int_big_int 2
      (Big_int_Z.mult_int_big_int 2 (Big_int_Z.mult_int_big_int 2
      (Big_int_Z.mult_int_big_int 2 (Big_int_Z.mult_int_big_int 2
      Big_int_Z.unit_big_int)))))))) (le_dec t))

type val0 =
| VInt of Big_int_Z.big_int
| VBytes of bytes
| VList of val0 list
| VErr of Big_int_Z.big_int

(** val verr : exn -> val0 **)

let verr e =
  VErr (exn_code e)

(** val vbool : bool -> val0 **)

let vbool b =
  VInt (if b then Big_int_Z.unit_big_int else Big_int_Z.zero_big_int)

(** val vres : ('a1 -> val0) -> 'a1 res -> val0 **)

let vres f = function
| Ok a -> f a
| Err e -> verr e

(** val bit_length : Big_int_Z.big_int -> Big_int_Z.big_int **)

let bit_length v =
  if Z.eqb v Big_int_Z.zero_big_int
  then Big_int_Z.zero_big_int
  else Z.add (Z.log2 v) Big_int_Z.unit_big_int

(** val from_compact : Big_int_Z.big_int -> Big_int_Z.big_int **)

let from_compact c =
  let nbytes =
    Z.coq_land
      (Z.shiftr c (Big_int_Z.mult_int_big_int 2 (Big_int_Z.mult_int_big_int 2
        (Big_int_Z.mult_int_big_int 2
        ((fun x -> Big_int_Z.succ_big_int (Big_int_Z.mult_int_big_int 2 x))
        Big_int_Z.unit_big_int)))))
      ((fun x -> Big_int_Z.succ_big_int (Big_int_Z.mult_int_big_int 2 x))
      ((fun x -> Big_int_Z.succ_big_int (Big_int_Z.mult_int_big_int 2 x))
      ((fun x -> Big_int_Z.succ_big_int (Big_int_Z.mult_int_big_int 2 x))
      ((fun x -> Big_int_Z.succ_big_int (Big_int_Z.mult_int_big_int 2 x))
      ((fun x -> Big_int_Z.succ_big_int (Big_int_Z.mult_int_big_int 2 x))
      ((fun x -> Big_int_Z.succ_big_int (Big_int_Z.mult_int_big_int 2 x))
      ((fun x -> Big_int_Z.succ_big_int (Big_int_Z.mult_int_big_int 2 x))
      Big_int_Z.unit_big_int)))))))
  in
  if Z.leb nbytes
       ((fun x -> Big_int_Z.succ_big_int (Big_int_Z.mult_int_big_int 2 x))
       Big_int_Z.unit_big_int)
  then Z.shiftr
         (Z.coq_land c
           ((fun x -> Big_int_Z.succ_big_int (Big_int_Z.mult_int_big_int 2 x))
           ((fun x -> Big_int_Z.succ_big_int (Big_int_Z.mult_int_big_int 2 x))
           ((fun x -> Big_int_Z.succ_big_int (Big_int_Z.mult_int_big_int 2 x))
           ((fun x -> Big_int_Z.succ_big_int (Big_int_Z.mult_int_big_int 2 x))
           ((fun x -> Big_int_Z.succ_big_int (Big_int_Z.mult_int_big_int 2 x))
           ((fun x -> Big_int_Z.succ_big_int (Big_int_Z.mult_int_big_int 2 x))
           ((fun x -> Big_int_Z.succ_big_int (Big_int_Z.mult_int_big_int 2 x))
           ((fun x -> Big_int_Z.succ_big_int (Big_int_Z.mult_int_big_int 2 x))
           ((fun x -> Big_int_Z.succ_big_int (Big_int_Z.mult_int_big_int 2 x))
           ((fun x -> Big_int_Z.succ_big_int (Big_int_Z.mult_int_big_int 2 x))
           ((fun x -> Big_int_Z.succ_big_int (Big_int_Z.mult_int_big_int 2 x))
           ((fun x -> Big_int_Z.succ_big_int (Big_int_Z.mult_int_big_int 2 x))
           ((fun x -> Big_int_Z.succ_big_int (Big_int_Z.mult_int_big_int 2 x))
           ((fun x -> Big_int_Z.succ_big_int (Big_int_Z.mult_int_big_int 2 x))
           ((fun x -> Big_int_Z.succ_big_int (Big_int_Z.mult_int_big_int 2 x))
           ((fun x -> Big_int_Z.succ_big_int (Big_int_Z.mult_int_big_int 2 x))
           ((fun x -> Big_int_Z.succ_big_int (Big_int_Z.mult_int_big_int 2 x))
           ((fun x -> Big_int_Z.succ_big_int (Big_int_Z.mult_int_big_int 2 x))
           ((fun x -> Big_int_Z.succ_big_int (Big_int_Z.mult_int_big_int 2 x))
           ((fun x -> Big_int_Z.succ_big_int (Big_int_Z.mult_int_big_int 2 x))
           ((fun x -> Big_int_Z.succ_big_int (Big_int_Z.mult_int_big_int 2 x))
           ((fun x -> Big_int_Z.succ_big_int (Big_int_Z.mult_int_big_int 2 x))
           ((fun x -> Big_int_Z.succ_big_int (Big_int_Z.mult_int_big_int 2 x))
           Big_int_Z.unit_big_int))))))))))))))))))))))))
         (Z.mul (Big_int_Z.mult_int_big_int 2 (Big_int_Z.mult_int_big_int 2
           (Big_int_Z.mult_int_big_int 2 Big_int_Z.unit_big_int)))
           (Z.sub
             ((fun x -> Big_int_Z.succ_big_int (Big_int_Z.mult_int_big_int 2 x))
             Big_int_Z.unit_big_int) nbytes))
  else Z.shiftl
         (Z.coq_land c
           ((fun x -> Big_int_Z.succ_big_int (Big_int_Z.mult_int_big_int 2 x))
           ((fun x -> Big_int_Z.succ_big_int (Big_int_Z.mult_int_big_int 2 x))
           ((fun x -> Big_int_Z.succ_big_int (Big_int_Z.mult_int_big_int 2 x))
           ((fun x -> Big_int_Z.succ_big_int (Big_int_Z.mult_int_big_int 2 x))
           ((fun x -> Big_int_Z.succ_big_int (Big_int_Z.mult_int_big_int 2 x))
           ((fun x -> Big_int_Z.succ_big_int (Big_int_Z.mult_int_big_int 2 x))
           ((fun x -> Big_int_Z.succ_big_int (Big_int_Z.mult_int_big_int 2 x))
           ((fun x -> Big_int_Z.succ_big_int (Big_int_Z.mult_int_big_int 2 x))
           ((fun x -> Big_int_Z.succ_big_int (Big_int_Z.mult_int_big_int 2 x))
           ((fun x -> Big_int_Z.succ_big_int (Big_int_Z.mult_int_big_int 2 x))
           ((fun x -> Big_int_Z.succ_big_int (Big_int_Z.mult_int_big_int 2 x))
           ((fun x -> Big_int_Z.succ_big_int (Big_int_Z.mult_int_big_int 2 x))
           ((fun x -> Big_int_Z.succ_big_int (Big_int_Z.mult_int_big_int 2 x))
           ((fun x -> Big_int_Z.succ_big_int (Big_int_Z.mult_int_big_int 2 x))
           ((fun x -> Big_int_Z.succ_big_int (Big_int_Z.mult_int_big_int 2 x))
           ((fun x -> Big_int_Z.succ_big_int (Big_int_Z.mult_int_big_int 2 x))
           ((fun x -> Big_int_Z.succ_big_int (Big_int_Z.mult_int_big_int 2 x))
           ((fun x -> Big_int_Z.succ_big_int (Big_int_Z.mult_int_big_int 2 x))
           ((fun x -> Big_int_Z.succ_big_int (Big_int_Z.mult_int_big_int 2 x))
           ((fun x -> Big_int_Z.succ_big_int (Big_int_Z.mult_int_big_int 2 x))
           ((fun x -> Big_int_Z.succ_big_int (Big_int_Z.mult_int_big_int 2 x))
           ((fun x -> Big_int_Z.succ_big_int (Big_int_Z.mult_int_big_int 2 x))
           ((fun x -> Big_int_Z.succ_big_int (Big_int_Z.mult_int_big_int 2 x))
           Big_int_Z.unit_big_int))))))))))))))))))))))))
         (Z.mul (Big_int_Z.mult_int_big_int 2 (Big_int_Z.mult_int_big_int 2
           (Big_int_Z.mult_int_big_int 2 Big_int_Z.unit_big_int)))
           (Z.sub nbytes
             ((fun x -> Big_int_Z.succ_big_int (Big_int_Z.mult_int_big_int 2 x))
             Big_int_Z.unit_big_int)))

(** val to_compact : Big_int_Z.big_int -> Big_int_Z.big_int **)

let to_compact v =
  let nbytes =
    Z.shiftr
      (Z.add (bit_length v)
        ((fun x -> Big_int_Z.succ_big_int (Big_int_Z.mult_int_big_int 2 x))
        ((fun x -> Big_int_Z.succ_big_int (Big_int_Z.mult_int_big_int 2 x))
        Big_int_Z.unit_big_int)))
      ((fun x -> Big_int_Z.succ_big_int (Big_int_Z.mult_int_big_int 2 x))
      Big_int_Z.unit_big_int)
  in
  let compact =
    if Z.leb nbytes
         ((fun x -> Big_int_Z.succ_big_int (Big_int_Z.mult_int_big_int 2 x))
         Big_int_Z.unit_big_int)
    then Z.shiftl
           (Z.coq_land v
             ((fun x -> Big_int_Z.succ_big_int (Big_int_Z.mult_int_big_int 2 x))
             ((fun x -> Big_int_Z.succ_big_int (Big_int_Z.mult_int_big_int 2 x))
             ((fun x -> Big_int_Z.succ_big_int (Big_int_Z.mult_int_big_int 2 x))
             ((fun x -> Big_int_Z.succ_big_int (Big_int_Z.mult_int_big_int 2 x))
             ((fun x -> Big_int_Z.succ_big_int (Big_int_Z.mult_int_big_int 2 x))
             ((fun x -> Big_int_Z.succ_big_int (Big_int_Z.mult_int_big_int 2 x))
             ((fun x -> Big_int_Z.succ_big_int (Big_int_Z.mult_int_big_int 2 x))
             ((fun x -> Big_int_Z.succ_big_int (Big_int_Z.mult_int_big_int 2 x))
             ((fun x -> Big_int_Z.succ_big_int (Big_int_Z.mult_int_big_int 2 x))
             ((fun x -> Big_int_Z.succ_big_int (Big_int_Z.mult_int_big_int 2 x))
             ((fun x -> Big_int_Z.succ_big_int (Big_int_Z.mult_int_big_int 2 x))
             ((fun x -> Big_int_Z.succ_big_int (Big_int_Z.mult_int_big_int 2 x))
             ((fun x -> Big_int_Z.succ_big_int (Big_int_Z.mult_int_big_int 2 x))
             ((fun x -> Big_int_Z.succ_big_int (Big_int_Z.mult_int_big_int 2 x))
             ((fun x -> Big_int_Z.succ_big_int (Big_int_Z.mult_int_big_int 2 x))
             ((fun x -> Big_int_Z.succ_big_int (Big_int_Z.mult_int_big_int 2 x))
             ((fun x -> Big_int_Z.succ_big_int (Big_int_Z.mult_int_big_int 2 x))
             ((fun x -> Big_int_Z.succ_big_int (Big_int_Z.mult_int_big_int 2 x))
             ((fun x -> Big_int_Z.succ_big_int (Big_int_Z.mult_int_big_int 2 x))
             ((fun x -> Big_int_Z.succ_big_int (Big_int_Z.mult_int_big_int 2 x))
             ((fun x -> Big_int_Z.succ_big_int (Big_int_Z.mult_int_big_int 2 x))
             ((fun x -> Big_int_Z.succ_big_int (Big_int_Z.mult_int_big_int 2 x))
             ((fun x -> Big_int_Z.succ_big_int (Big_int_Z.mult_int_big_int 2 x))
             Big_int_Z.unit_big_int))))))))))))))))))))))))
           (Z.mul (Big_int_Z.mult_int_big_int 2 (Big_int_Z.mult_int_big_int 2
             (Big_int_Z.mult_int_big_int 2 Big_int_Z.unit_big_int)))
             (Z.sub
               ((fun x -> Big_int_Z.succ_big_int (Big_int_Z.mult_int_big_int 2 x))
               Big_int_Z.unit_big_int) nbytes))
    else Z.coq_land
           (Z.shiftr v
             (Z.mul (Big_int_Z.mult_int_big_int 2
               (Big_int_Z.mult_int_big_int 2 (Big_int_Z.mult_int_big_int 2
               Big_int_Z.unit_big_int)))
               (Z.sub nbytes
                 ((fun x -> Big_int_Z.succ_big_int (Big_int_Z.mult_int_big_int 2 x))
                 Big_int_Z.unit_big_int))))
           ((fun x -> Big_int_Z.succ_big_int (Big_int_Z.mult_int_big_int 2 x))
           ((fun x -> Big_int_Z.succ_big_int (Big_int_Z.mult_int_big_int 2 x))
           ((fun x -> Big_int_Z.succ_big_int (Big_int_Z.mult_int_big_int 2 x))
           ((fun x -> Big_int_Z.succ_big_int (Big_int_Z.mult_int_big_int 2 x))
           ((fun x -> Big_int_Z.succ_big_int (Big_int_Z.mult_int_big_int 2 x))
           ((fun x -> Big_int_Z.succ_big_int (Big_int_Z.mult_int_big_int 2 x))
           ((fun x -> Big_int_Z.succ_big_int (Big_int_Z.mult_int_big_int 2 x))
           ((fun x -> Big_int_Z.succ_big_int (Big_int_Z.mult_int_big_int 2 x))
           ((fun x -> Big_int_Z.succ_big_int (Big_int_Z.mult_int_big_int 2 x))
           ((fun x -> Big_int_Z.succ_big_int (Big_int_Z.mult_int_big_int 2 x))
           ((fun x -> Big_int_Z.succ_big_int (Big_int_Z.mult_int_big_int 2 x))
           ((fun x -> Big_int_Z.succ_big_int (Big_int_Z.mult_int_big_int 2 x))
           ((fun x -> Big_int_Z.succ_big_int (Big_int_Z.mult_int_big_int 2 x))
           ((fun x -> Big_int_Z.succ_big_int (Big_int_Z.mult_int_big_int 2 x))
           ((fun x -> Big_int_Z.succ_big_int (Big_int_Z.mult_int_big_int 2 x))
           ((fun x -> Big_int_Z.succ_big_int (Big_int_Z.mult_int_big_int 2 x))
           ((fun x -> Big_int_Z.succ_big_int (Big_int_Z.mult_int_big_int 2 x))
           ((fun x -> Big_int_Z.succ_big_int (Big_int_Z.mult_int_big_int 2 x))
           ((fun x -> Big_int_Z.succ_big_int (Big_int_Z.mult_int_big_int 2 x))
           ((fun x -> Big_int_Z.succ_big_int (Big_int_Z.mult_int_big_int 2 x))
           ((fun x -> Big_int_Z.succ_big_int (Big_int_Z.mult_int_big_int 2 x))
           ((fun x -> Big_int_Z.succ_big_int (Big_int_Z.mult_int_big_int 2 x))
           ((fun x -> Big_int_Z.succ_big_int (Big_int_Z.mult_int_big_int 2 x))
           Big_int_Z.unit_big_int)))))))))))))))))))))))
  in
  if negb
       (Z.eqb
         (Z.coq_land compact (Big_int_Z.mult_int_big_int 2
           (Big_int_Z.mult_int_big_int 2 (Big_int_Z.mult_int_big_int 2
           (Big_int_Z.mult_int_big_int 2 (Big_int_Z.mult_int_big_int 2
           (Big_int_Z.mult_int_big_int 2 (Big_int_Z.mult_int_big_int 2
           (Big_int_Z.mult_int_big_int 2 (Big_int_Z.mult_int_big_int 2
           (Big_int_Z.mult_int_big_int 2 (Big_int_Z.mult_int_big_int 2
           (Big_int_Z.mult_int_big_int 2 (Big_int_Z.mult_int_big_int 2
           (Big_int_Z.mult_int_big_int 2 (Big_int_Z.mult_int_big_int 2
           (Big_int_Z.mult_int_big_int 2 (Big_int_Z.mult_int_big_int 2
           (Big_int_Z.mult_int_big_int 2 (Big_int_Z.mult_int_big_int 2
           (Big_int_Z.mult_int_big_int 2 (Big_int_Z.mult_int_big_int 2
           (Big_int_Z.mult_int_big_int 2 (Big_int_Z.mult_int_big_int 2
           Big_int_Z.unit_big_int))))))))))))))))))))))))
         Big_int_Z.zero_big_int)
  then let compact0 =
         Z.shiftr compact (Big_int_Z.mult_int_big_int 2
           (Big_int_Z.mult_int_big_int 2 (Big_int_Z.mult_int_big_int 2
           Big_int_Z.unit_big_int)))
       in
       let nbytes0 = Z.add nbytes Big_int_Z.unit_big_int in
       Z.coq_lor compact0
         (Z.shiftl nbytes0 (Big_int_Z.mult_int_big_int 2
           (Big_int_Z.mult_int_big_int 2 (Big_int_Z.mult_int_big_int 2
           ((fun x -> Big_int_Z.succ_big_int (Big_int_Z.mult_int_big_int 2 x))
           Big_int_Z.unit_big_int)))))
  else Z.coq_lor compact
         (Z.shiftl nbytes (Big_int_Z.mult_int_big_int 2
           (Big_int_Z.mult_int_big_int 2 (Big_int_Z.mult_int_big_int 2
           ((fun x -> Big_int_Z.succ_big_int (Big_int_Z.mult_int_big_int 2 x))
           Big_int_Z.unit_big_int)))))

(** val uint256_from_str : bytes -> Big_int_Z.big_int res **)

let uint256_from_str s =
  let s32 =
    firstn (S (S (S (S (S (S (S (S (S (S (S (S (S (S (S (S (S (S (S (S (S (S
      (S (S (S (S (S (S (S (S (S (S O)))))))))))))))))))))))))))))))) s
  in
  if Nat.eqb (length s32) (S (S (S (S (S (S (S (S (S (S (S (S (S (S (S (S (S
       (S (S (S (S (S (S (S (S (S (S (S (S (S (S (S
       O))))))))))))))))))))))))))))))))
  then Ok (le_dec s32)
  else Err StructError

(** val check_pow :
    Big_int_Z.big_int -> bytes -> Big_int_Z.big_int -> unit res **)

let check_pow limit hash nBits =
  let target = from_compact nBits in
  if (||)
       (negb
         (Z.eqb
           (Z.coq_land nBits (Big_int_Z.mult_int_big_int 2
             (Big_int_Z.mult_int_big_int 2 (Big_int_Z.mult_int_big_int 2
             (Big_int_Z.mult_int_big_int 2 (Big_int_Z.mult_int_big_int 2
             (Big_int_Z.mult_int_big_int 2 (Big_int_Z.mult_int_big_int 2
             (Big_int_Z.mult_int_big_int 2 (Big_int_Z.mult_int_big_int 2
             (Big_int_Z.mult_int_big_int 2 (Big_int_Z.mult_int_big_int 2
             (Big_int_Z.mult_int_big_int 2 (Big_int_Z.mult_int_big_int 2
             (Big_int_Z.mult_int_big_int 2 (Big_int_Z.mult_int_big_int 2
             (Big_int_Z.mult_int_big_int 2 (Big_int_Z.mult_int_big_int 2
             (Big_int_Z.mult_int_big_int 2 (Big_int_Z.mult_int_big_int 2
             (Big_int_Z.mult_int_big_int 2 (Big_int_Z.mult_int_big_int 2
             (Big_int_Z.mult_int_big_int 2 (Big_int_Z.mult_int_big_int 2
             Big_int_Z.unit_big_int))))))))))))))))))))))))
           Big_int_Z.zero_big_int))
       (negb
         ((&&) (Z.ltb Big_int_Z.zero_big_int target) (Z.leb target limit)))
  then Err CheckPowErr
  else bind (uint256_from_str hash) (fun h ->
         if Z.gtb h target then Err CheckPowErr else Ok ())

(** val nbits : Big_int_Z.big_int -> Big_int_Z.big_int **)

let nbits v =
  if Z.eqb v Big_int_Z.zero_big_int
  then Big_int_Z.zero_big_int
  else Z.add (Z.log2 v) Big_int_Z.unit_big_int

(** val c_exp : Big_int_Z.big_int -> Big_int_Z.big_int **)

let c_exp c =
  Z.div c
    (Z.pow (Big_int_Z.mult_int_big_int 2 Big_int_Z.unit_big_int)
      (Big_int_Z.mult_int_big_int 2 (Big_int_Z.mult_int_big_int 2
      (Big_int_Z.mult_int_big_int 2
      ((fun x -> Big_int_Z.succ_big_int (Big_int_Z.mult_int_big_int 2 x))
      Big_int_Z.unit_big_int)))))

(** val c_mant : Big_int_Z.big_int -> Big_int_Z.big_int **)

let c_mant c =
  Z.modulo c
    (Z.pow (Big_int_Z.mult_int_big_int 2 Big_int_Z.unit_big_int)
      ((fun x -> Big_int_Z.succ_big_int (Big_int_Z.mult_int_big_int 2 x))
      ((fun x -> Big_int_Z.succ_big_int (Big_int_Z.mult_int_big_int 2 x))
      ((fun x -> Big_int_Z.succ_big_int (Big_int_Z.mult_int_big_int 2 x))
      (Big_int_Z.mult_int_big_int 2 Big_int_Z.unit_big_int)))))

(** val c_sign : Big_int_Z.big_int -> bool **)

let c_sign c =
  Z.leb
    (Z.pow (Big_int_Z.mult_int_big_int 2 Big_int_Z.unit_big_int)
      ((fun x -> Big_int_Z.succ_big_int (Big_int_Z.mult_int_big_int 2 x))
      ((fun x -> Big_int_Z.succ_big_int (Big_int_Z.mult_int_big_int 2 x))
      ((fun x -> Big_int_Z.succ_big_int (Big_int_Z.mult_int_big_int 2 x))
      (Big_int_Z.mult_int_big_int 2 Big_int_Z.unit_big_int)))))
    (Z.modulo c
      (Z.pow (Big_int_Z.mult_int_big_int 2 Big_int_Z.unit_big_int)
        (Big_int_Z.mult_int_big_int 2 (Big_int_Z.mult_int_big_int 2
        (Big_int_Z.mult_int_big_int 2
        ((fun x -> Big_int_Z.succ_big_int (Big_int_Z.mult_int_big_int 2 x))
        Big_int_Z.unit_big_int))))))

(** val denote :
    Big_int_Z.big_int -> Big_int_Z.big_int -> Big_int_Z.big_int **)

let denote e m =
  if Z.leb e
       ((fun x -> Big_int_Z.succ_big_int (Big_int_Z.mult_int_big_int 2 x))
       Big_int_Z.unit_big_int)
  then Z.div m
         (Z.pow (Big_int_Z.mult_int_big_int 2 (Big_int_Z.mult_int_big_int 2
           (Big_int_Z.mult_int_big_int 2 (Big_int_Z.mult_int_big_int 2
           (Big_int_Z.mult_int_big_int 2 (Big_int_Z.mult_int_big_int 2
           (Big_int_Z.mult_int_big_int 2 (Big_int_Z.mult_int_big_int 2
           Big_int_Z.unit_big_int))))))))
           (Z.sub
             ((fun x -> Big_int_Z.succ_big_int (Big_int_Z.mult_int_big_int 2 x))
             Big_int_Z.unit_big_int) e))
  else Z.mul m
         (Z.pow (Big_int_Z.mult_int_big_int 2 (Big_int_Z.mult_int_big_int 2
           (Big_int_Z.mult_int_big_int 2 (Big_int_Z.mult_int_big_int 2
           (Big_int_Z.mult_int_big_int 2 (Big_int_Z.mult_int_big_int 2
           (Big_int_Z.mult_int_big_int 2 (Big_int_Z.mult_int_big_int 2
           Big_int_Z.unit_big_int))))))))
           (Z.sub e
             ((fun x -> Big_int_Z.succ_big_int (Big_int_Z.mult_int_big_int 2 x))
             Big_int_Z.unit_big_int)))

(** val spec_decode : Big_int_Z.big_int -> Big_int_Z.big_int **)

let spec_decode c =
  denote (c_exp c) (c_mant c)

(** val size_padded : Big_int_Z.big_int -> Big_int_Z.big_int **)

let size_padded v =
  Z.add
    (Z.div (nbits v) (Big_int_Z.mult_int_big_int 2
      (Big_int_Z.mult_int_big_int 2 (Big_int_Z.mult_int_big_int 2
      Big_int_Z.unit_big_int)))) Big_int_Z.unit_big_int

(** val trunc3 : Big_int_Z.big_int -> Big_int_Z.big_int **)

let trunc3 v =
  let k = size_padded v in
  if Z.leb k
       ((fun x -> Big_int_Z.succ_big_int (Big_int_Z.mult_int_big_int 2 x))
       Big_int_Z.unit_big_int)
  then v
  else Z.mul
         (Z.div v
           (Z.pow (Big_int_Z.mult_int_big_int 2 (Big_int_Z.mult_int_big_int 2
             (Big_int_Z.mult_int_big_int 2 (Big_int_Z.mult_int_big_int 2
             (Big_int_Z.mult_int_big_int 2 (Big_int_Z.mult_int_big_int 2
             (Big_int_Z.mult_int_big_int 2 (Big_int_Z.mult_int_big_int 2
             Big_int_Z.unit_big_int))))))))
             (Z.sub k
               ((fun x -> Big_int_Z.succ_big_int (Big_int_Z.mult_int_big_int 2 x))
               Big_int_Z.unit_big_int))))
         (Z.pow (Big_int_Z.mult_int_big_int 2 (Big_int_Z.mult_int_big_int 2
           (Big_int_Z.mult_int_big_int 2 (Big_int_Z.mult_int_big_int 2
           (Big_int_Z.mult_int_big_int 2 (Big_int_Z.mult_int_big_int 2
           (Big_int_Z.mult_int_big_int 2 (Big_int_Z.mult_int_big_int 2
           Big_int_Z.unit_big_int))))))))
           (Z.sub k
             ((fun x -> Big_int_Z.succ_big_int (Big_int_Z.mult_int_big_int 2 x))
             Big_int_Z.unit_big_int)))

(** val canonical : Big_int_Z.big_int -> bool **)

let canonical c =
  (||) (Z.eqb c Big_int_Z.zero_big_int)
    (let e = c_exp c in
     let m =
       Z.modulo c
         (Z.pow (Big_int_Z.mult_int_big_int 2 Big_int_Z.unit_big_int)
           (Big_int_Z.mult_int_big_int 2 (Big_int_Z.mult_int_big_int 2
           (Big_int_Z.mult_int_big_int 2
           ((fun x -> Big_int_Z.succ_big_int (Big_int_Z.mult_int_big_int 2 x))
           Big_int_Z.unit_big_int)))))
     in
     (&&)
       ((&&)
         ((&&)
           ((&&) (Z.leb Big_int_Z.unit_big_int e)
             (Z.leb e
               ((fun x -> Big_int_Z.succ_big_int (Big_int_Z.mult_int_big_int 2 x))
               ((fun x -> Big_int_Z.succ_big_int (Big_int_Z.mult_int_big_int 2 x))
               ((fun x -> Big_int_Z.succ_big_int (Big_int_Z.mult_int_big_int 2 x))
               ((fun x -> Big_int_Z.succ_big_int (Big_int_Z.mult_int_big_int 2 x))
               ((fun x -> Big_int_Z.succ_big_int (Big_int_Z.mult_int_big_int 2 x))
               ((fun x -> Big_int_Z.succ_big_int (Big_int_Z.mult_int_big_int 2 x))
               ((fun x -> Big_int_Z.succ_big_int (Big_int_Z.mult_int_big_int 2 x))
               Big_int_Z.unit_big_int)))))))))
           (Z.ltb m
             (Z.pow (Big_int_Z.mult_int_big_int 2 Big_int_Z.unit_big_int)
               ((fun x -> Big_int_Z.succ_big_int (Big_int_Z.mult_int_big_int 2 x))
               ((fun x -> Big_int_Z.succ_big_int (Big_int_Z.mult_int_big_int 2 x))
               ((fun x -> Big_int_Z.succ_big_int (Big_int_Z.mult_int_big_int 2 x))
               (Big_int_Z.mult_int_big_int 2 Big_int_Z.unit_big_int)))))))
         (Z.leb
           (Z.pow (Big_int_Z.mult_int_big_int 2 Big_int_Z.unit_big_int)
             ((fun x -> Big_int_Z.succ_big_int (Big_int_Z.mult_int_big_int 2 x))
             ((fun x -> Big_int_Z.succ_big_int (Big_int_Z.mult_int_big_int 2 x))
             ((fun x -> Big_int_Z.succ_big_int (Big_int_Z.mult_int_big_int 2 x))
             Big_int_Z.unit_big_int)))) m))
       (if Z.leb e (Big_int_Z.mult_int_big_int 2 Big_int_Z.unit_big_int)
        then Z.eqb
               (Z.modulo m
                 (Z.pow (Big_int_Z.mult_int_big_int 2
                   (Big_int_Z.mult_int_big_int 2
                   (Big_int_Z.mult_int_big_int 2
                   (Big_int_Z.mult_int_big_int 2
                   (Big_int_Z.mult_int_big_int 2
                   (Big_int_Z.mult_int_big_int 2
                   (Big_int_Z.mult_int_big_int 2
                   (Big_int_Z.mult_int_big_int 2
                   Big_int_Z.unit_big_int))))))))
                   (Z.sub
                     ((fun x -> Big_int_Z.succ_big_int (Big_int_Z.mult_int_big_int 2 x))
                     Big_int_Z.unit_big_int) e))) Big_int_Z.zero_big_int
        else true))

(** val le256 : bytes -> Big_int_Z.big_int **)

let le256 =
  le_dec

(** val pow_okb : Big_int_Z.big_int -> bytes -> Big_int_Z.big_int -> bool **)

let pow_okb limit hash c =
  (&&)
    ((&&)
      ((&&)
        ((&&) (negb (c_sign c))
          (Z.ltb Big_int_Z.zero_big_int (spec_decode c)))
        (Z.ltb (spec_decode c)
          (Z.pow (Big_int_Z.mult_int_big_int 2 Big_int_Z.unit_big_int)
            (Big_int_Z.mult_int_big_int 2 (Big_int_Z.mult_int_big_int 2
            (Big_int_Z.mult_int_big_int 2 (Big_int_Z.mult_int_big_int 2
            (Big_int_Z.mult_int_big_int 2 (Big_int_Z.mult_int_big_int 2
            (Big_int_Z.mult_int_big_int 2 (Big_int_Z.mult_int_big_int 2
            Big_int_Z.unit_big_int))))))))))) (Z.leb (spec_decode c) limit))
    (Z.leb (le256 hash) (spec_decode c))

type chain_params = { cp_name : Big_int_Z.big_int list;
                      cp_pow_limit : Big_int_Z.big_int;
                      cp_max_money : Big_int_Z.big_int; cp_magic : bytes;
                      cp_pubkey_addr : Big_int_Z.big_int;
                      cp_script_addr : Big_int_Z.big_int;
                      cp_secret_key : Big_int_Z.big_int;
                      cp_hrp : Big_int_Z.big_int list }

(** val chains : chain_params list **)

let chains =
  { cp_name =
    (((fun x -> Big_int_Z.succ_big_int (Big_int_Z.mult_int_big_int 2 x))
    (Big_int_Z.mult_int_big_int 2
    ((fun x -> Big_int_Z.succ_big_int (Big_int_Z.mult_int_big_int 2 x))
    ((fun x -> Big_int_Z.succ_big_int (Big_int_Z.mult_int_big_int 2 x))
    (Big_int_Z.mult_int_big_int 2
    ((fun x -> Big_int_Z.succ_big_int (Big_int_Z.mult_int_big_int 2 x))
    Big_int_Z.unit_big_int)))))) :: (((fun x -> Big_int_Z.succ_big_int (Big_int_Z.mult_int_big_int 2 x))
    (Big_int_Z.mult_int_big_int 2 (Big_int_Z.mult_int_big_int 2
    (Big_int_Z.mult_int_big_int 2 (Big_int_Z.mult_int_big_int 2
    ((fun x -> Big_int_Z.succ_big_int (Big_int_Z.mult_int_big_int 2 x))
    Big_int_Z.unit_big_int)))))) :: (((fun x -> Big_int_Z.succ_big_int (Big_int_Z.mult_int_big_int 2 x))
    (Big_int_Z.mult_int_big_int 2 (Big_int_Z.mult_int_big_int 2
    ((fun x -> Big_int_Z.succ_big_int (Big_int_Z.mult_int_big_int 2 x))
    (Big_int_Z.mult_int_big_int 2
    ((fun x -> Big_int_Z.succ_big_int (Big_int_Z.mult_int_big_int 2 x))
    Big_int_Z.unit_big_int)))))) :: ((Big_int_Z.mult_int_big_int 2
    ((fun x -> Big_int_Z.succ_big_int (Big_int_Z.mult_int_big_int 2 x))
    ((fun x -> Big_int_Z.succ_big_int (Big_int_Z.mult_int_big_int 2 x))
    ((fun x -> Big_int_Z.succ_big_int (Big_int_Z.mult_int_big_int 2 x))
    (Big_int_Z.mult_int_big_int 2
    ((fun x -> Big_int_Z.succ_big_int (Big_int_Z.mult_int_big_int 2 x))
    Big_int_Z.unit_big_int)))))) :: ((Big_int_Z.mult_int_big_int 2
    ((fun x -> Big_int_Z.succ_big_int (Big_int_Z.mult_int_big_int 2 x))
    ((fun x -> Big_int_Z.succ_big_int (Big_int_Z.mult_int_big_int 2 x))
    ((fun x -> Big_int_Z.succ_big_int (Big_int_Z.mult_int_big_int 2 x))
    (Big_int_Z.mult_int_big_int 2
    ((fun x -> Big_int_Z.succ_big_int (Big_int_Z.mult_int_big_int 2 x))
    Big_int_Z.unit_big_int)))))) :: (((fun x -> Big_int_Z.succ_big_int (Big_int_Z.mult_int_big_int 2 x))
    (Big_int_Z.mult_int_big_int 2
    ((fun x -> Big_int_Z.succ_big_int (Big_int_Z.mult_int_big_int 2 x))
    (Big_int_Z.mult_int_big_int 2 (Big_int_Z.mult_int_big_int 2
    ((fun x -> Big_int_Z.succ_big_int (Big_int_Z.mult_int_big_int 2 x))
    Big_int_Z.unit_big_int)))))) :: ((Big_int_Z.mult_int_big_int 2
    (Big_int_Z.mult_int_big_int 2
    ((fun x -> Big_int_Z.succ_big_int (Big_int_Z.mult_int_big_int 2 x))
    (Big_int_Z.mult_int_big_int 2
    ((fun x -> Big_int_Z.succ_big_int (Big_int_Z.mult_int_big_int 2 x))
    ((fun x -> Big_int_Z.succ_big_int (Big_int_Z.mult_int_big_int 2 x))
    Big_int_Z.unit_big_int)))))) :: []))))))); cp_pow_limit =
    ((fun x -> Big_int_Z.succ_big_int (Big_int_Z.mult_int_big_int 2 x))
    ((fun x -> Big_int_Z.succ_big_int (Big_int_Z.mult_int_big_int 2 x))
    ((fun x -> Big_int_Z.succ_big_int (Big_int_Z.mult_int_big_int 2 x))
    ((fun x -> Big_int_Z.succ_big_int (Big_int_Z.mult_int_big_int 2 x))
    ((fun x -> Big_int_Z.succ_big_int (Big_int_Z.mult_int_big_int 2 x))
    ((fun x -> Big_int_Z.succ_big_int (Big_int_Z.mult_int_big_int 2 x))
    ((fun x -> Big_int_Z.succ_big_int (Big_int_Z.mult_int_big_int 2 x))
    ((fun x -> Big_int_Z.succ_big_int (Big_int_Z.mult_int_big_int 2 x))
    ((fun x -> Big_int_Z.succ_big_int (Big_int_Z.mult_int_big_int 2 x))
    ((fun x -> Big_int_Z.succ_big_int (Big_int_Z.mult_int_big_int 2 x))
    ((fun x -> Big_int_Z.succ_big_int (Big_int_Z.mult_int_big_int 2 x))
    ((fun x -> Big_int_Z.succ_big_int (Big_int_Z.mult_int_big_int 2 x))
    ((fun x -> Big_int_Z.succ_big_int (Big_int_Z.mult_int_big_int 2 x))
    ((fun x -> Big_int_Z.succ_big_int (Big_int_Z.mult_int_big_int 2 x))
    ((fun x -> Big_int_Z.succ_big_int (Big_int_Z.mult_int_big_int 2 x))
    ((fun x -> Big_int_Z.succ_big_int (Big_int_Z.mult_int_big_int 2 x))
    ((fun x -> Big_int_Z.succ_big_int (Big_int_Z.mult_int_big_int 2 x))
    ((fun x -> Big_int_Z.succ_big_int (Big_int_Z.mult_int_big_int 2 x))
    ((fun x -> Big_int_Z.succ_big_int (Big_int_Z.mult_int_big_int 2 x))
    ((fun x -> Big_int_Z.succ_big_int (Big_int_Z.mult_int_big_int 2 x))
    ((fun x -> Big_int_Z.succ_big_int (Big_int_Z.mult_int_big_int 2 x))
    ((fun x -> Big_int_Z.succ_big_int (Big_int_Z.mult_int_big_int 2 x))
    ((fun x -> Big_int_Z.succ_big_int (Big_int_Z.mult_int_big_int 2 x))
    ((fun x -> Big_int_Z.succ_big_int (Big_int_Z.mult_int_big_int 2 x))
    ((fun x -> Big_int_Z.succ_big_int (Big_int_Z.mult_int_big_int 2 x))
    ((fun x -> Big_int_Z.succ_big_int (Big_int_Z.mult_int_big_int 2 x))
    ((fun x -> Big_int_Z.succ_big_int (Big_int_Z.mult_int_big_int 2 x))
    ((fun x -> Big_int_Z.succ_big_int (Big_int_Z.mult_int_big_int 2 x))
    ((fun x -> Big_int_Z.succ_big_int (Big_int_Z.mult_int_big_int 2 x))
    ((fun x -> Big_int_Z.succ_big_int (Big_int_Z.mult_int_big_int 2 x))
    ((fun x -> Big_int_Z.succ_big_int (Big_int_Z.mult_int_big_int 2 x))
    ((fun x -> Big_int_Z.succ_big_int (Big_int_Z.mult_int_big_int 2 x))
    ((fun x -> Big_int_Z.succ_big_int (Big_int_Z.mult_int_big_int 2 x))
    ((fun x -> Big_int_Z.succ_big_int (Big_int_Z.mult_int_big_int 2 x))
    ((fun x -> Big_int_Z.succ_big_int (Big_int_Z.mult_int_big_int 2 x))
    ((fun x -> Big_int_Z.succ_big_int (Big_int_Z.mult_int_big_int 2 x))
    ((fun x -> Big_int_Z.succ_big_int (Big_int_Z.mult_int_big_int 2 x))
    ((fun x -> Big_int_Z.succ_big_int (Big_int_Z.mult_int_big_int 2 x))
    ((fun x -> Big_int_Z.succ_big_int (Big_int_Z.mult_int_big_int 2 x))
    ((fun x -> Big_int_Z.succ_big_int (Big_int_Z.mult_int_big_int 2 x))
    ((fun x -> Big_int_Z.succ_big_int (Big_int_Z.mult_int_big_int 2 x))
    ((fun x -> Big_int_Z.succ_big_int (Big_int_Z.mult_int_big_int 2 x))
    ((fun x -> Big_int_Z.succ_big_int (Big_int_Z.mult_int_big_int 2 x))
    ((fun x -> Big_int_Z.succ_big_int (Big_int_Z.mult_int_big_int 2 x))
    ((fun x -> Big_int_Z.succ_big_int (Big_int_Z.mult_int_big_int 2 x))
    ((fun x -> Big_int_Z.succ_big_int (Big_int_Z.mult_int_big_int 2 x))
    ((fun x -> Big_int_Z.succ_big_int (Big_int_Z.mult_int_big_int 2 x))
    ((fun x -> Big_int_Z.succ_big_int (Big_int_Z.mult_int_big_int 2 x))
    ((fun x -> Big_int_Z.succ_big_int (Big_int_Z.mult_int_big_int 2 x))
    ((fun x -> Big_int_Z.succ_big_int (Big_int_Z.mult_int_big_int 2 x))
    ((fun x -> Big_int_Z.succ_big_int (Big_int_Z.mult_int_big_int 2 x))
    ((fun x -> Big_int_Z.succ_big_int (Big_int_Z.mult_int_big_int 2 x))
    ((fun x -> Big_int_Z.succ_big_int (Big_int_Z.mult_int_big_int 2 x))
    ((fun x -> Big_int_Z.succ_big_int (Big_int_Z.mult_int_big_int 2 x))
    ((fun x -> Big_int_Z.succ_big_int (Big_int_Z.mult_int_big_int 2 x))
    ((fun x -> Big_int_Z.succ_big_int (Big_int_Z.mult_int_big_int 2 x))
    ((fun x -> Big_int_Z.succ_big_int (Big_int_Z.mult_int_big_int 2 x))
    ((fun x -> Big_int_Z.succ_big_int (Big_int_Z.mult_int_big_int 2 x))
    ((fun x -> Big_int_Z.succ_big_int (Big_int_Z.mult_int_big_int 2 x))
    ((fun x -> Big_int_Z.succ_big_int (Big_int_Z.mult_int_big_int 2 x))
    ((fun x -> Big_int_Z.succ_big_int (Big_int_Z.mult_int_big_int 2 x))
    ((fun x -> Big_int_Z.succ_big_int (Big_int_Z.mult_int_big_int 2 x))
    ((fun x -> Big_int_Z.succ_big_int (Big_int_Z.mult_int_big_int 2 x))
    ((fun x -> Big_int_Z.succ_big_int (Big_int_Z.mult_int_big_int 2 x))
    ((fun x -> Big_int_Z.succ_big_int (Big_int_Z.mult_int_big_int 2 x))
    ((fun x -> Big_int_Z.succ_big_int (Big_int_Z.mult_int_big_int 2 x))
    ((fun x -> Big_int_Z.succ_big_int (Big_int_Z.mult_int_big_int 2 x))
    ((fun x -> Big_int_Z.succ_big_int (Big_int_Z.mult_int_big_int 2 x))
    ((fun x -> Big_int_Z.succ_big_int (Big_int_Z.mult_int_big_int 2 x))
    ((fun x -> Big_int_Z.succ_big_int (Big_int_Z.mult_int_big_int 2 x))
    ((fun x -> Big_int_Z.succ_big_int (Big_int_Z.mult_int_big_int 2 x))
    ((fun x -> Big_int_Z.succ_big_int (Big_int_Z.mult_int_big_int 2 x))
    ((fun x -> Big_int_Z.succ_big_int (Big_int_Z.mult_int_big_int 2 x))
    ((fun x -> Big_int_Z.succ_big_int (Big_int_Z.mult_int_big_int 2 x))
    ((fun x -> Big_int_Z.succ_big_int (Big_int_Z.mult_int_big_int 2 x))
    ((fun x -> Big_int_Z.succ_big_int (Big_int_Z.mult_int_big_int 2 x))
    ((fun x -> Big_int_Z.succ_big_int (Big_int_Z.mult_int_big_int 2 x))
    ((fun x -> Big_int_Z.succ_big_int (Big_int_Z.mult_int_big_int 2 x))
    ((fun x -> Big_int_Z.succ_big_int (Big_int_Z.mult_int_big_int 2 x))
    ((fun x -> Big_int_Z.succ_big_int (Big_int_Z.mult_int_big_int 2 x))
    ((fun x -> Big_int_Z.succ_big_int (Big_int_Z.mult_int_big_int 2 x))
    ((fun x -> Big_int_Z.succ_big_int (Big_int_Z.mult_int_big_int 2 x))
    ((fun x -> Big_int_Z.succ_big_int (Big_int_Z.mult_int_big_int 2 x))
    ((fun x -> Big_int_Z.succ_big_int (Big_int_Z.mult_int_big_int 2 x))
    ((fun x -> Big_int_Z.succ_big_int (Big_int_Z.mult_int_big_int 2 x))
    ((fun x -> Big_int_Z.succ_big_int (Big_int_Z.mult_int_big_int 2 x))
    ((fun x -> Big_int_Z.succ_big_int (Big_int_Z.mult_int_big_int 2 x))
    ((fun x -> Big_int_Z.succ_big_int (Big_int_Z.mult_int_big_int 2 x))
    ((fun x -> Big_int_Z.succ_big_int (Big_int_Z.mult_int_big_int 2 x))
    ((fun x -> Big_int_Z.succ_big_int (Big_int_Z.mult_int_big_int 2 x))
    ((fun x -> Big_int_Z.succ_big_int (Big_int_Z.mult_int_big_int 2 x))
    ((fun x -> Big_int_Z.succ_big_int (Big_int_Z.mult_int_big_int 2 x))
    ((fun x -> Big_int_Z.succ_big_int (Big_int_Z.mult_int_big_int 2 x))
    ((fun x -> Big_int_Z.succ_big_int (Big_int_Z.mult_int_big_int 2 x))
    ((fun x -> Big_int_Z.succ_big_int (Big_int_Z.mult_int_big_int 2 x))
    ((fun x -> Big_int_Z.succ_big_int (Big_int_Z.mult_int_big_int 2 x))
    ((fun x -> Big_int_Z.succ_big_int (Big_int_Z.mult_int_big_int 2 x))
    ((fun x -> Big_int_Z.succ_big_int (Big_int_Z.mult_int_big_int 2 x))
    ((fun x -> Big_int_Z.succ_big_int (Big_int_Z.mult_int_big_int 2 x))
    ((fun x -> Big_int_Z.succ_big_int (Big_int_Z.mult_int_big_int 2 x))
    ((fun x -> Big_int_Z.succ_big_int (Big_int_Z.mult_int_big_int 2 x))
    ((fun x -> Big_int_Z.succ_big_int (Big_int_Z.mult_int_big_int 2 x))
    ((fun x -> Big_int_Z.succ_big_int (Big_int_Z.mult_int_big_int 2 x))
    ((fun x -> Big_int_Z.succ_big_int (Big_int_Z.mult_int_big_int 2 x))
    ((fun x -> Big_int_Z.succ_big_int (Big_int_Z.mult_int_big_int 2 x))
    ((fun x -> Big_int_Z.succ_big_int (Big_int_Z.mult_int_big_int 2 x))
    ((fun x -> Big_int_Z.succ_big_int (Big_int_Z.mult_int_big_int 2 x))
    ((fun x -> Big_int_Z.succ_big_int (Big_int_Z.mult_int_big_int 2 x))
    ((fun x -> Big_int_Z.succ_big_int (Big_int_Z.mult_int_big_int 2 x))
    ((fun x -> Big_int_Z.succ_big_int (Big_int_Z.mult_int_big_int 2 x))
    ((fun x -> Big_int_Z.succ_big_int (Big_int_Z.mult_int_big_int 2 x))
    ((fun x -> Big_int_Z.succ_big_int (Big_int_Z.mult_int_big_int 2 x))
    ((fun x -> Big_int_Z.succ_big_int (Big_int_Z.mult_int_big_int 2 x))
    ((fun x -> Big_int_Z.succ_big_int (Big_int_Z.mult_int_big_int 2 x))
    ((fun x -> Big_int_Z.succ_big_int (Big_int_Z.mult_int_big_int 2 x))
    ((fun x -> Big_int_Z.succ_big_int (Big_int_Z.mult_int_big_int 2 x))
    ((fun x -> Big_int_Z.succ_big_int (Big_int_Z.mult_int_big_int 2 x))
    ((fun x -> Big_int_Z.succ_big_int (Big_int_Z.mult_int_big_int 2 x))
    ((fun x -> Big_int_Z.succ_big_int (Big_int_Z.mult_int_big_int 2 x))
    ((fun x -> Big_int_Z.succ_big_int (Big_int_Z.mult_int_big_int 2 x))
    ((fun x -> Big_int_Z.succ_big_int (Big_int_Z.mult_int_big_int 2 x))
    ((fun x -> Big_int_Z.succ_big_int (Big_int_Z.mult_int_big_int 2 x))
    ((fun x -> Big_int_Z.succ_big_int (Big_int_Z.mult_int_big_int 2 x))
    ((fun x -> Big_int_Z.succ_big_int (Big_int_Z.mult_int_big_int 2 x))
    ((fun x -> Big_int_Z.succ_big_int (Big_int_Z.mult_int_big_int 2 x))
    ((fun x -> Big_int_Z.succ_big_int (Big_int_Z.mult_int_big_int 2 x))
    ((fun x -> Big_int_Z.succ_big_int (Big_int_Z.mult_int_big_int 2 x))
    ((fun x -> Big_int_Z.succ_big_int (Big_int_Z.mult_int_big_int 2 x))
    ((fun x -> Big_int_Z.succ_big_int (Big_int_Z.mult_int_big_int 2 x))
    ((fun x -> Big_int_Z.succ_big_int (Big_int_Z.mult_int_big_int 2 x))
    ((fun x -> Big_int_Z.succ_big_int (Big_int_Z.mult_int_big_int 2 x))
    ((fun x -> Big_int_Z.succ_big_int (Big_int_Z.mult_int_big_int 2 x))
    ((fun x -> Big_int_Z.succ_big_int (Big_int_Z.mult_int_big_int 2 x))
    ((fun x -> Big_int_Z.succ_big_int (Big_int_Z.mult_int_big_int 2 x))
    ((fun x -> Big_int_Z.succ_big_int (Big_int_Z.mult_int_big_int 2 x))
    ((fun x -> Big_int_Z.succ_big_int (Big_int_Z.mult_int_big_int 2 x))
    ((fun x -> Big_int_Z.succ_big_int (Big_int_Z.mult_int_big_int 2 x))
    ((fun x -> Big_int_Z.succ_big_int (Big_int_Z.mult_int_big_int 2 x))
    ((fun x -> Big_int_Z.succ_big_int (Big_int_Z.mult_int_big_int 2 x))
    ((fun x -> Big_int_Z.succ_big_int (Big_int_Z.mult_int_big_int 2 x))
    ((fun x -> Big_int_Z.succ_big_int (Big_int_Z.mult_int_big_int 2 x))
    ((fun x -> Big_int_Z.succ_big_int (Big_int_Z.mult_int_big_int 2 x))
    ((fun x -> Big_int_Z.succ_big_int (Big_int_Z.mult_int_big_int 2 x))
    ((fun x -> Big_int_Z.succ_big_int (Big_int_Z.mult_int_big_int 2 x))
    ((fun x -> Big_int_Z.succ_big_int (Big_int_Z.mult_int_big_int 2 x))
    ((fun x -> Big_int_Z.succ_big_int (Big_int_Z.mult_int_big_int 2 x))
    ((fun x -> Big_int_Z.succ_big_int (Big_int_Z.mult_int_big_int 2 x))
    ((fun x -> Big_int_Z.succ_big_int (Big_int_Z.mult_int_big_int 2 x))
    ((fun x -> Big_int_Z.succ_big_int (Big_int_Z.mult_int_big_int 2 x))
    ((fun x -> Big_int_Z.succ_big_int (Big_int_Z.mult_int_big_int 2 x))
    ((fun x -> Big_int_Z.succ_big_int (Big_int_Z.mult_int_big_int 2 x))
    ((fun x -> Big_int_Z.succ_big_int (Big_int_Z.mult_int_big_int 2 x))
    ((fun x -> Big_int_Z.succ_big_int (Big_int_Z.mult_int_big_int 2 x))
    ((fun x -> Big_int_Z.succ_big_int (Big_int_Z.mult_int_big_int 2 x))
    ((fun x -> Big_int_Z.succ_big_int (Big_int_Z.mult_int_big_int 2 x))
    ((fun x -> Big_int_Z.succ_big_int (Big_int_Z.mult_int_big_int 2 x))
    ((fun x -> Big_int_Z.succ_big_int (Big_int_Z.mult_int_big_int 2 x))
    ((fun x -> Big_int_Z.succ_big_int (Big_int_Z.mult_int_big_int 2 x))
    ((fun x -> Big_int_Z.succ_big_int (Big_int_Z.mult_int_big_int 2 x))
    ((fun x -> Big_int_Z.succ_big_int (Big_int_Z.mult_int_big_int 2 x))
    ((fun x -> Big_int_Z.succ_big_int (Big_int_Z.mult_int_big_int 2 x))
    ((fun x -> Big_int_Z.succ_big_int (Big_int_Z.mult_int_big_int 2 x))
    ((fun x -> Big_int_Z.succ_big_int (Big_int_Z.mult_int_big_int 2 x))
    ((fun x -> Big_int_Z.succ_big_int (Big_int_Z.mult_int_big_int 2 x))
    ((fun x -> Big_int_Z.succ_big_int (Big_int_Z.mult_int_big_int 2 x))
    ((fun x -> Big_int_Z.succ_big_int (Big_int_Z.mult_int_big_int 2 x))
    ((fun x -> Big_int_Z.succ_big_int (Big_int_Z.mult_int_big_int 2 x))
    ((fun x -> Big_int_Z.succ_big_int (Big_int_Z.mult_int_big_int 2 x))
    ((fun x -> Big_int_Z.succ_big_int (Big_int_Z.mult_int_big_int 2 x))
    ((fun x -> Big_int_Z.succ_big_int (Big_int_Z.mult_int_big_int 2 x))
    ((fun x -> Big_int_Z.succ_big_int (Big_int_Z.mult_int_big_int 2 x))
    ((fun x -> Big_int_Z.succ_big_int (Big_int_Z.mult_int_big_int 2 x))
    ((fun x -> Big_int_Z.succ_big_int (Big_int_Z.mult_int_big_int 2 x))
    ((fun x -> Big_int_Z.succ_big_int (Big_int_Z.mult_int_big_int 2 x))
    ((fun x -> Big_int_Z.succ_big_int (Big_int_Z.mult_int_big_int 2 x))
    ((fun x -> Big_int_Z.succ_big_int (Big_int_Z.mult_int_big_int 2 x))
    ((fun x -> Big_int_Z.succ_big_int (Big_int_Z.mult_int_big_int 2 x))
    ((fun x -> Big_int_Z.succ_big_int (Big_int_Z.mult_int_big_int 2 x))
    ((fun x -> Big_int_Z.succ_big_int (Big_int_Z.mult_int_big_int 2 x))
    ((fun x -> Big_int_Z.succ_big_int (Big_int_Z.mult_int_big_int 2 x))
    ((fun x -> Big_int_Z.succ_big_int (Big_int_Z.mult_int_big_int 2 x))
    ((fun x -> Big_int_Z.succ_big_int (Big_int_Z.mult_int_big_int 2 x))
    ((fun x -> Big_int_Z.succ_big_int (Big_int_Z.mult_int_big_int 2 x))
    ((fun x -> Big_int_Z.succ_big_int (Big_int_Z.mult_int_big_int 2 x))
    ((fun x -> Big_int_Z.succ_big_int (Big_int_Z.mult_int_big_int 2 x))
    ((fun x -> Big_int_Z.succ_big_int (Big_int_Z.mult_int_big_int 2 x))
    ((fun x -> Big_int_Z.succ_big_int (Big_int_Z.mult_int_big_int 2 x))
    ((fun x -> Big_int_Z.succ_big_int (Big_int_Z.mult_int_big_int 2 x))
    ((fun x -> Big_int_Z.succ_big_int (Big_int_Z.mult_int_big_int 2 x))
    ((fun x -> Big_int_Z.succ_big_int (Big_int_Z.mult_int_big_int 2 x))
    ((fun x -> Big_int_Z.succ_big_int (Big_int_Z.mult_int_big_int 2 x))
    ((fun x -> Big_int_Z.succ_big_int (Big_int_Z.mult_int_big_int 2 x))
    ((fun x -> Big_int_Z.succ_big_int (Big_int_Z.mult_int_big_int 2 x))
    ((fun x -> Big_int_Z.succ_big_int (Big_int_Z.mult_int_big_int 2 x))
    ((fun x -> Big_int_Z.succ_big_int (Big_int_Z.mult_int_big_int 2 x))
    ((fun x -> Big_int_Z.succ_big_int (Big_int_Z.mult_int_big_int 2 x))
    ((fun x -> Big_int_Z.succ_big_int (Big_int_Z.mult_int_big_int 2 x))
    ((fun x -> Big_int_Z.succ_big_int (Big_int_Z.mult_int_big_int 2 x))
    ((fun x -> Big_int_Z.succ_big_int (Big_int_Z.mult_int_big_int 2 x))
    ((fun x -> Big_int_Z.succ_big_int (Big_int_Z.mult_int_big_int 2 x))
    ((fun x -> Big_int_Z.succ_big_int (Big_int_Z.mult_int_big_int 2 x))
    ((fun x -> Big_int_Z.succ_big_int (Big_int_Z.mult_int_big_int 2 x))
    ((fun x -> Big_int_Z.succ_big_int (Big_int_Z.mult_int_big_int 2 x))
    ((fun x -> Big_int_Z.succ_big_int (Big_int_Z.mult_int_big_int 2 x))
    ((fun x -> Big_int_Z.succ_big_int (Big_int_Z.mult_int_big_int 2 x))
    ((fun x -> Big_int_Z.succ_big_int (Big_int_Z.mult_int_big_int 2 x))
    ((fun x -> Big_int_Z.succ_big_int (Big_int_Z.mult_int_big_int 2 x))
    ((fun x -> Big_int_Z.succ_big_int (Big_int_Z.mult_int_big_int 2 x))
    ((fun x -> Big_int_Z.succ_big_int (Big_int_Z.mult_int_big_int 2 x))
    ((fun x -> Big_int_Z.succ_big_int (Big_int_Z.mult_int_big_int 2 x))
    ((fun x -> Big_int_Z.succ_big_int (Big_int_Z.mult_int_big_int 2 x))
    ((fun x -> Big_int_Z.succ_big_int (Big_int_Z.mult_int_big_int 2 x))
    ((fun x -> Big_int_Z.succ_big_int (Big_int_Z.mult_int_big_int 2 x))
    ((fun x -> Big_int_Z.succ_big_int (Big_int_Z.mult_int_big_int 2 x))
    ((fun x -> Big_int_Z.succ_big_int (Big_int_Z.mult_int_big_int 2 x))
    ((fun x -> Big_int_Z.succ_big_int (Big_int_Z.mult_int_big_int 2 x))
    ((fun x -> Big_int_Z.succ_big_int (Big_int_Z.mult_int_big_int 2 x))
    ((fun x -> Big_int_Z.succ_big_int (Big_int_Z.mult_int_big_int 2 x))
    ((fun x -> Big_int_Z.succ_big_int (Big_int_Z.mult_int_big_int 2 x))
    ((fun x -> Big_int_Z.succ_big_int (Big_int_Z.mult_int_big_int 2 x))
    ((fun x -> Big_int_Z.succ_big_int (Big_int_Z.mult_int_big_int 2 x))
    ((fun x -> Big_int_Z.succ_big_int (Big_int_Z.mult_int_big_int 2 x))
    ((fun x -> Big_int_Z.succ_big_int (Big_int_Z.mult_int_big_int 2 x))
    Big_int_Z.unit_big_int)))))))))))))))))))))))))))))))))))))))))))))))))))))))))))))))))))))))))))))))))))))))))))))))))))))))))))))))))))))))))))))))))))))))))))))))))))))))))))))))))))))))))))))))))))))))))))))))))))))))))))))))))))))))))))))));
    cp_max_money = (Big_int_Z.mult_int_big_int 2
    (Big_int_Z.mult_int_big_int 2 (Big_int_Z.mult_int_big_int 2
    (Big_int_Z.mult_int_big_int 2 (Big_int_Z.mult_int_big_int 2
    (Big_int_Z.mult_int_big_int 2 (Big_int_Z.mult_int_big_int 2
    (Big_int_Z.mult_int_big_int 2 (Big_int_Z.mult_int_big_int 2
    (Big_int_Z.mult_int_big_int 2 (Big_int_Z.mult_int_big_int 2
    (Big_int_Z.mult_int_big_int 2 (Big_int_Z.mult_int_big_int 2
    (Big_int_Z.mult_int_big_int 2
    ((fun x -> Big_int_Z.succ_big_int (Big_int_Z.mult_int_big_int 2 x))
    (Big_int_Z.mult_int_big_int 2
    ((fun x -> Big_int_Z.succ_big_int (Big_int_Z.mult_int_big_int 2 x))
    ((fun x -> Big_int_Z.succ_big_int (Big_int_Z.mult_int_big_int 2 x))
    ((fun x -> Big_int_Z.succ_big_int (Big_int_Z.mult_int_big_int 2 x))
    (Big_int_Z.mult_int_big_int 2 (Big_int_Z.mult_int_big_int 2
    (Big_int_Z.mult_int_big_int 2 (Big_int_Z.mult_int_big_int 2
    (Big_int_Z.mult_int_big_int 2 (Big_int_Z.mult_int_big_int 2
    ((fun x -> Big_int_Z.succ_big_int (Big_int_Z.mult_int_big_int 2 x))
    (Big_int_Z.mult_int_big_int 2
    ((fun x -> Big_int_Z.succ_big_int (Big_int_Z.mult_int_big_int 2 x))
    ((fun x -> Big_int_Z.succ_big_int (Big_int_Z.mult_int_big_int 2 x))
    (Big_int_Z.mult_int_big_int 2
    ((fun x -> Big_int_Z.succ_big_int (Big_int_Z.mult_int_big_int 2 x))
    (Big_int_Z.mult_int_big_int 2 (Big_int_Z.mult_int_big_int 2
    (Big_int_Z.mult_int_big_int 2 (Big_int_Z.mult_int_big_int 2
    (Big_int_Z.mult_int_big_int 2
    ((fun x -> Big_int_Z.succ_big_int (Big_int_Z.mult_int_big_int 2 x))
    ((fun x -> Big_int_Z.succ_big_int (Big_int_Z.mult_int_big_int 2 x))
    ((fun x -> Big_int_Z.succ_big_int (Big_int_Z.mult_int_big_int 2 x))
    ((fun x -> Big_int_Z.succ_big_int (Big_int_Z.mult_int_big_int 2 x))
    ((fun x -> Big_int_Z.succ_big_int (Big_int_Z.mult_int_big_int 2 x))
    (Big_int_Z.mult_int_big_int 2
    ((fun x -> Big_int_Z.succ_big_int (Big_int_Z.mult_int_big_int 2 x))
    (Big_int_Z.mult_int_big_int 2
    ((fun x -> Big_int_Z.succ_big_int (Big_int_Z.mult_int_big_int 2 x))
    ((fun x -> Big_int_Z.succ_big_int (Big_int_Z.mult_int_big_int 2 x))
    ((fun x -> Big_int_Z.succ_big_int (Big_int_Z.mult_int_big_int 2 x))
    (Big_int_Z.mult_int_big_int 2
    ((fun x -> Big_int_Z.succ_big_int (Big_int_Z.mult_int_big_int 2 x))
    ((fun x -> Big_int_Z.succ_big_int (Big_int_Z.mult_int_big_int 2 x))
    Big_int_Z.unit_big_int))))))))))))))))))))))))))))))))))))))))))))))))));
    cp_magic = (Xf9 :: (Xbe :: (Xb4 :: (Xd9 :: [])))); cp_pubkey_addr =
    Big_int_Z.zero_big_int; cp_script_addr =
    ((fun x -> Big_int_Z.succ_big_int (Big_int_Z.mult_int_big_int 2 x))
    (Big_int_Z.mult_int_big_int 2 Big_int_Z.unit_big_int)); cp_secret_key =
    (Big_int_Z.mult_int_big_int 2 (Big_int_Z.mult_int_big_int 2
    (Big_int_Z.mult_int_big_int 2 (Big_int_Z.mult_int_big_int 2
    (Big_int_Z.mult_int_big_int 2 (Big_int_Z.mult_int_big_int 2
    (Big_int_Z.mult_int_big_int 2 Big_int_Z.unit_big_int))))))); cp_hrp =
    ((Big_int_Z.mult_int_big_int 2
    ((fun x -> Big_int_Z.succ_big_int (Big_int_Z.mult_int_big_int 2 x))
    (Big_int_Z.mult_int_big_int 2 (Big_int_Z.mult_int_big_int 2
    (Big_int_Z.mult_int_big_int 2
    ((fun x -> Big_int_Z.succ_big_int (Big_int_Z.mult_int_big_int 2 x))
    Big_int_Z.unit_big_int)))))) :: (((fun x -> Big_int_Z.succ_big_int (Big_int_Z.mult_int_big_int 2 x))
    ((fun x -> Big_int_Z.succ_big_int (Big_int_Z.mult_int_big_int 2 x))
    (Big_int_Z.mult_int_big_int 2 (Big_int_Z.mult_int_big_int 2
    (Big_int_Z.mult_int_big_int 2
    ((fun x -> Big_int_Z.succ_big_int (Big_int_Z.mult_int_big_int 2 x))
    Big_int_Z.unit_big_int)))))) :: [])) } :: ({ cp_name =
    ((Big_int_Z.mult_int_big_int 2 (Big_int_Z.mult_int_big_int 2
    ((fun x -> Big_int_Z.succ_big_int (Big_int_Z.mult_int_big_int 2 x))
    (Big_int_Z.mult_int_big_int 2
    ((fun x -> Big_int_Z.succ_big_int (Big_int_Z.mult_int_big_int 2 x))
    ((fun x -> Big_int_Z.succ_big_int (Big_int_Z.mult_int_big_int 2 x))
    Big_int_Z.unit_big_int)))))) :: (((fun x -> Big_int_Z.succ_big_int (Big_int_Z.mult_int_big_int 2 x))
    (Big_int_Z.mult_int_big_int 2
    ((fun x -> Big_int_Z.succ_big_int (Big_int_Z.mult_int_big_int 2 x))
    (Big_int_Z.mult_int_big_int 2 (Big_int_Z.mult_int_big_int 2
    ((fun x -> Big_int_Z.succ_big_int (Big_int_Z.mult_int_big_int 2 x))
    Big_int_Z.unit_big_int)))))) :: (((fun x -> Big_int_Z.succ_big_int (Big_int_Z.mult_int_big_int 2 x))
    ((fun x -> Big_int_Z.succ_big_int (Big_int_Z.mult_int_big_int 2 x))
    (Big_int_Z.mult_int_big_int 2 (Big_int_Z.mult_int_big_int 2
    ((fun x -> Big_int_Z.succ_big_int (Big_int_Z.mult_int_big_int 2 x))
    ((fun x -> Big_int_Z.succ_big_int (Big_int_Z.mult_int_big_int 2 x))
    Big_int_Z.unit_big_int)))))) :: ((Big_int_Z.mult_int_big_int 2
    (Big_int_Z.mult_int_big_int 2
    ((fun x -> Big_int_Z.succ_big_int (Big_int_Z.mult_int_big_int 2 x))
    (Big_int_Z.mult_int_big_int 2
    ((fun x -> Big_int_Z.succ_big_int (Big_int_Z.mult_int_big_int 2 x))
    ((fun x -> Big_int_Z.succ_big_int (Big_int_Z.mult_int_big_int 2 x))
    Big_int_Z.unit_big_int)))))) :: ((Big_int_Z.mult_int_big_int 2
    ((fun x -> Big_int_Z.succ_big_int (Big_int_Z.mult_int_big_int 2 x))
    ((fun x -> Big_int_Z.succ_big_int (Big_int_Z.mult_int_big_int 2 x))
    ((fun x -> Big_int_Z.succ_big_int (Big_int_Z.mult_int_big_int 2 x))
    (Big_int_Z.mult_int_big_int 2
    ((fun x -> Big_int_Z.succ_big_int (Big_int_Z.mult_int_big_int 2 x))
    Big_int_Z.unit_big_int)))))) :: (((fun x -> Big_int_Z.succ_big_int (Big_int_Z.mult_int_big_int 2 x))
    (Big_int_Z.mult_int_big_int 2
    ((fun x -> Big_int_Z.succ_big_int (Big_int_Z.mult_int_big_int 2 x))
    (Big_int_Z.mult_int_big_int 2 (Big_int_Z.mult_int_big_int 2
    ((fun x -> Big_int_Z.succ_big_int (Big_int_Z.mult_int_big_int 2 x))
    Big_int_Z.unit_big_int)))))) :: ((Big_int_Z.mult_int_big_int 2
    (Big_int_Z.mult_int_big_int 2
    ((fun x -> Big_int_Z.succ_big_int (Big_int_Z.mult_int_big_int 2 x))
    (Big_int_Z.mult_int_big_int 2
    ((fun x -> Big_int_Z.succ_big_int (Big_int_Z.mult_int_big_int 2 x))
    ((fun x -> Big_int_Z.succ_big_int (Big_int_Z.mult_int_big_int 2 x))
    Big_int_Z.unit_big_int)))))) :: []))))))); cp_pow_limit =
    ((fun x -> Big_int_Z.succ_big_int (Big_int_Z.mult_int_big_int 2 x))
    ((fun x -> Big_int_Z.succ_big_int (Big_int_Z.mult_int_big_int 2 x))
    ((fun x -> Big_int_Z.succ_big_int (Big_int_Z.mult_int_big_int 2 x))
    ((fun x -> Big_int_Z.succ_big_int (Big_int_Z.mult_int_big_int 2 x))
    ((fun x -> Big_int_Z.succ_big_int (Big_int_Z.mult_int_big_int 2 x))
    ((fun x -> Big_int_Z.succ_big_int (Big_int_Z.mult_int_big_int 2 x))
    ((fun x -> Big_int_Z.succ_big_int (Big_int_Z.mult_int_big_int 2 x))
    ((fun x -> Big_int_Z.succ_big_int (Big_int_Z.mult_int_big_int 2 x))
    ((fun x -> Big_int_Z.succ_big_int (Big_int_Z.mult_int_big_int 2 x))
    ((fun x -> Big_int_Z.succ_big_int (Big_int_Z.mult_int_big_int 2 x))
    ((fun x -> Big_int_Z.succ_big_int (Big_int_Z.mult_int_big_int 2 x))
    ((fun x -> Big_int_Z.succ_big_int (Big_int_Z.mult_int_big_int 2 x))
    ((fun x -> Big_int_Z.succ_big_int (Big_int_Z.mult_int_big_int 2 x))
    ((fun x -> Big_int_Z.succ_big_int (Big_int_Z.mult_int_big_int 2 x))
    ((fun x -> Big_int_Z.succ_big_int (Big_int_Z.mult_int_big_int 2 x))
    ((fun x -> Big_int_Z.succ_big_int (Big_int_Z.mult_int_big_int 2 x))
    ((fun x -> Big_int_Z.succ_big_int (Big_int_Z.mult_int_big_int 2 x))
    ((fun x -> Big_int_Z.succ_big_int (Big_int_Z.mult_int_big_int 2 x))
    ((fun x -> Big_int_Z.succ_big_int (Big_int_Z.mult_int_big_int 2 x))
    ((fun x -> Big_int_Z.succ_big_int (Big_int_Z.mult_int_big_int 2 x))
    ((fun x -> Big_int_Z.succ_big_int (Big_int_Z.mult_int_big_int 2 x))
    ((fun x -> Big_int_Z.succ_big_int (Big_int_Z.mult_int_big_int 2 x))
    ((fun x -> Big_int_Z.succ_big_int (Big_int_Z.mult_int_big_int 2 x))
    ((fun x -> Big_int_Z.succ_big_int (Big_int_Z.mult_int_big_int 2 x))
    ((fun x -> Big_int_Z.succ_big_int (Big_int_Z.mult_int_big_int 2 x))
    ((fun x -> Big_int_Z.succ_big_int (Big_int_Z.mult_int_big_int 2 x))
    ((fun x -> Big_int_Z.succ_big_int (Big_int_Z.mult_int_big_int 2 x))
    ((fun x -> Big_int_Z.succ_big_int (Big_int_Z.mult_int_big_int 2 x))
    ((fun x -> Big_int_Z.succ_big_int (Big_int_Z.mult_int_big_int 2 x))
    ((fun x -> Big_int_Z.succ_big_int (Big_int_Z.mult_int_big_int 2 x))
    ((fun x -> Big_int_Z.succ_big_int (Big_int_Z.mult_int_big_int 2 x))
    ((fun x -> Big_int_Z.succ_big_int (Big_int_Z.mult_int_big_int 2 x))
    ((fun x -> Big_int_Z.succ_big_int (Big_int_Z.mult_int_big_int 2 x))
    ((fun x -> Big_int_Z.succ_big_int (Big_int_Z.mult_int_big_int 2 x))
    ((fun x -> Big_int_Z.succ_big_int (Big_int_Z.mult_int_big_int 2 x))
    ((fun x -> Big_int_Z.succ_big_int (Big_int_Z.mult_int_big_int 2 x))
    ((fun x -> Big_int_Z.succ_big_int (Big_int_Z.mult_int_big_int 2 x))
    ((fun x -> Big_int_Z.succ_big_int (Big_int_Z.mult_int_big_int 2 x))
    ((fun x -> Big_int_Z.succ_big_int (Big_int_Z.mult_int_big_int 2 x))
    ((fun x -> Big_int_Z.succ_big_int (Big_int_Z.mult_int_big_int 2 x))
    ((fun x -> Big_int_Z.succ_big_int (Big_int_Z.mult_int_big_int 2 x))
    ((fun x -> Big_int_Z.succ_big_int (Big_int_Z.mult_int_big_int 2 x))
    ((fun x -> Big_int_Z.succ_big_int (Big_int_Z.mult_int_big_int 2 x))
    ((fun x -> Big_int_Z.succ_big_int (Big_int_Z.mult_int_big_int 2 x))
    ((fun x -> Big_int_Z.succ_big_int (Big_int_Z.mult_int_big_int 2 x))
    ((fun x -> Big_int_Z.succ_big_int (Big_int_Z.mult_int_big_int 2 x))
    ((fun x -> Big_int_Z.succ_big_int (Big_int_Z.mult_int_big_int 2 x))
    ((fun x -> Big_int_Z.succ_big_int (Big_int_Z.mult_int_big_int 2 x))
    ((fun x -> Big_int_Z.succ_big_int (Big_int_Z.mult_int_big_int 2 x))
    ((fun x -> Big_int_Z.succ_big_int (Big_int_Z.mult_int_big_int 2 x))
    ((fun x -> Big_int_Z.succ_big_int (Big_int_Z.mult_int_big_int 2 x))
    ((fun x -> Big_int_Z.succ_big_int (Big_int_Z.mult_int_big_int 2 x))
    ((fun x -> Big_int_Z.succ_big_int (Big_int_Z.mult_int_big_int 2 x))
    ((fun x -> Big_int_Z.succ_big_int (Big_int_Z.mult_int_big_int 2 x))
    ((fun x -> Big_int_Z.succ_big_int (Big_int_Z.mult_int_big_int 2 x))
    ((fun x -> Big_int_Z.succ_big_int (Big_int_Z.mult_int_big_int 2 x))
    ((fun x -> Big_int_Z.succ_big_int (Big_int_Z.mult_int_big_int 2 x))
    ((fun x -> Big_int_Z.succ_big_int (Big_int_Z.mult_int_big_int 2 x))
    ((fun x -> Big_int_Z.succ_big_int (Big_int_Z.mult_int_big_int 2 x))
    ((fun x -> Big_int_Z.succ_big_int (Big_int_Z.mult_int_big_int 2 x))
    ((fun x -> Big_int_Z.succ_big_int (Big_int_Z.mult_int_big_int 2 x))
    ((fun x -> Big_int_Z.succ_big_int (Big_int_Z.mult_int_big_int 2 x))
    ((fun x -> Big_int_Z.succ_big_int (Big_int_Z.mult_int_big_int 2 x))
    ((fun x -> Big_int_Z.succ_big_int (Big_int_Z.mult_int_big_int 2 x))
    ((fun x -> Big_int_Z.succ_big_int (Big_int_Z.mult_int_big_int 2 x))
    ((fun x -> Big_int_Z.succ_big_int (Big_int_Z.mult_int_big_int 2 x))
    ((fun x -> Big_int_Z.succ_big_int (Big_int_Z.mult_int_big_int 2 x))
    ((fun x -> Big_int_Z.succ_big_int (Big_int_Z.mult_int_big_int 2 x))
    ((fun x -> Big_int_Z.succ_big_int (Big_int_Z.mult_int_big_int 2 x))
    ((fun x -> Big_int_Z.succ_big_int (Big_int_Z.mult_int_big_int 2 x))
    ((fun x -> Big_int_Z.succ_big_int (Big_int_Z.mult_int_big_int 2 x))
    ((fun x -> Big_int_Z.succ_big_int (Big_int_Z.mult_int_big_int 2 x))
    ((fun x -> Big_int_Z.succ_big_int (Big_int_Z.mult_int_big_int 2 x))
    ((fun x -> Big_int_Z.succ_big_int (Big_int_Z.mult_int_big_int 2 x))
    ((fun x -> Big_int_Z.succ_big_int (Big_int_Z.mult_int_big_int 2 x))
    ((fun x -> Big_int_Z.succ_big_int (Big_int_Z.mult_int_big_int 2 x))
    ((fun x -> Big_int_Z.succ_big_int (Big_int_Z.mult_int_big_int 2 x))
    ((fun x -> Big_int_Z.succ_big_int (Big_int_Z.mult_int_big_int 2 x))
    ((fun x -> Big_int_Z.succ_big_int (Big_int_Z.mult_int_big_int 2 x))
    ((fun x -> Big_int_Z.succ_big_int (Big_int_Z.mult_int_big_int 2 x))
    ((fun x -> Big_int_Z.succ_big_int (Big_int_Z.mult_int_big_int 2 x))
    ((fun x -> Big_int_Z.succ_big_int (Big_int_Z.mult_int_big_int 2 x))
    ((fun x -> Big_int_Z.succ_big_int (Big_int_Z.mult_int_big_int 2 x))
    ((fun x -> Big_int_Z.succ_big_int (Big_int_Z.mult_int_big_int 2 x))
    ((fun x -> Big_int_Z.succ_big_int (Big_int_Z.mult_int_big_int 2 x))
    ((fun x -> Big_int_Z.succ_big_int (Big_int_Z.mult_int_big_int 2 x))
    ((fun x -> Big_int_Z.succ_big_int (Big_int_Z.mult_int_big_int 2 x))
    ((fun x -> Big_int_Z.succ_big_int (Big_int_Z.mult_int_big_int 2 x))
    ((fun x -> Big_int_Z.succ_big_int (Big_int_Z.mult_int_big_int 2 x))
    ((fun x -> Big_int_Z.succ_big_int (Big_int_Z.mult_int_big_int 2 x))
    ((fun x -> Big_int_Z.succ_big_int (Big_int_Z.mult_int_big_int 2 x))
    ((fun x -> Big_int_Z.succ_big_int (Big_int_Z.mult_int_big_int 2 x))
    ((fun x -> Big_int_Z.succ_big_int (Big_int_Z.mult_int_big_int 2 x))
    ((fun x -> Big_int_Z.succ_big_int (Big_int_Z.mult_int_big_int 2 x))
    ((fun x -> Big_int_Z.succ_big_int (Big_int_Z.mult_int_big_int 2 x))
    ((fun x -> Big_int_Z.succ_big_int (Big_int_Z.mult_int_big_int 2 x))
    ((fun x -> Big_int_Z.succ_big_int (Big_int_Z.mult_int_big_int 2 x))
    ((fun x -> Big_int_Z.succ_big_int (Big_int_Z.mult_int_big_int 2 x))
    ((fun x -> Big_int_Z.succ_big_int (Big_int_Z.mult_int_big_int 2 x))
    ((fun x -> Big_int_Z.succ_big_int (Big_int_Z.mult_int_big_int 2 x))
    ((fun x -> Big_int_Z.succ_big_int (Big_int_Z.mult_int_big_int 2 x))
    ((fun x -> Big_int_Z.succ_big_int (Big_int_Z.mult_int_big_int 2 x))
    ((fun x -> Big_int_Z.succ_big_int (Big_int_Z.mult_int_big_int 2 x))
    ((fun x -> Big_int_Z.succ_big_int (Big_int_Z.mult_int_big_int 2 x))
    ((fun x -> Big_int_Z.succ_big_int (Big_int_Z.mult_int_big_int 2 x))
    ((fun x -> Big_int_Z.succ_big_int (Big_int_Z.mult_int_big_int 2 x))
    ((fun x -> Big_int_Z.succ_big_int (Big_int_Z.mult_int_big_int 2 x))
    ((fun x -> Big_int_Z.succ_big_int (Big_int_Z.mult_int_big_int 2 x))
    ((fun x -> Big_int_Z.succ_big_int (Big_int_Z.mult_int_big_int 2 x))
    ((fun x -> Big_int_Z.succ_big_int (Big_int_Z.mult_int_big_int 2 x))
    ((fun x -> Big_int_Z.succ_big_int (Big_int_Z.mult_int_big_int 2 x))
    ((fun x -> Big_int_Z.succ_big_int (Big_int_Z.mult_int_big_int 2 x))
    ((fun x -> Big_int_Z.succ_big_int (Big_int_Z.mult_int_big_int 2 x))
    ((fun x -> Big_int_Z.succ_big_int (Big_int_Z.mult_int_big_int 2 x))
    ((fun x -> Big_int_Z.succ_big_int (Big_int_Z.mult_int_big_int 2 x))
    ((fun x -> Big_int_Z.succ_big_int (Big_int_Z.mult_int_big_int 2 x))
    ((fun x -> Big_int_Z.succ_big_int (Big_int_Z.mult_int_big_int 2 x))
    ((fun x -> Big_int_Z.succ_big_int (Big_int_Z.mult_int_big_int 2 x))
    ((fun x -> Big_int_Z.succ_big_int (Big_int_Z.mult_int_big_int 2 x))
    ((fun x -> Big_int_Z.succ_big_int (Big_int_Z.mult_int_big_int 2 x))
    ((fun x -> Big_int_Z.succ_big_int (Big_int_Z.mult_int_big_int 2 x))
    ((fun x -> Big_int_Z.succ_big_int (Big_int_Z.mult_int_big_int 2 x))
    ((fun x -> Big_int_Z.succ_big_int (Big_int_Z.mult_int_big_int 2 x))
    ((fun x -> Big_int_Z.succ_big_int (Big_int_Z.mult_int_big_int 2 x))
    ((fun x -> Big_int_Z.succ_big_int (Big_int_Z.mult_int_big_int 2 x))
    ((fun x -> Big_int_Z.succ_big_int (Big_int_Z.mult_int_big_int 2 x))
    ((fun x -> Big_int_Z.succ_big_int (Big_int_Z.mult_int_big_int 2 x))
    ((fun x -> Big_int_Z.succ_big_int (Big_int_Z.mult_int_big_int 2 x))
    ((fun x -> Big_int_Z.succ_big_int (Big_int_Z.mult_int_big_int 2 x))
    ((fun x -> Big_int_Z.succ_big_int (Big_int_Z.mult_int_big_int 2 x))
    ((fun x -> Big_int_Z.succ_big_int (Big_int_Z.mult_int_big_int 2 x))
    ((fun x -> Big_int_Z.succ_big_int (Big_int_Z.mult_int_big_int 2 x))
    ((fun x -> Big_int_Z.succ_big_int (Big_int_Z.mult_int_big_int 2 x))
    ((fun x -> Big_int_Z.succ_big_int (Big_int_Z.mult_int_big_int 2 x))
    ((fun x -> Big_int_Z.succ_big_int (Big_int_Z.mult_int_big_int 2 x))
    ((fun x -> Big_int_Z.succ_big_int (Big_int_Z.mult_int_big_int 2 x))
    ((fun x -> Big_int_Z.succ_big_int (Big_int_Z.mult_int_big_int 2 x))
    ((fun x -> Big_int_Z.succ_big_int (Big_int_Z.mult_int_big_int 2 x))
    ((fun x -> Big_int_Z.succ_big_int (Big_int_Z.mult_int_big_int 2 x))
    ((fun x -> Big_int_Z.succ_big_int (Big_int_Z.mult_int_big_int 2 x))
    ((fun x -> Big_int_Z.succ_big_int (Big_int_Z.mult_int_big_int 2 x))
    ((fun x -> Big_int_Z.succ_big_int (Big_int_Z.mult_int_big_int 2 x))
    ((fun x -> Big_int_Z.succ_big_int (Big_int_Z.mult_int_big_int 2 x))
    ((fun x -> Big_int_Z.succ_big_int (Big_int_Z.mult_int_big_int 2 x))
    ((fun x -> Big_int_Z.succ_big_int (Big_int_Z.mult_int_big_int 2 x))
    ((fun x -> Big_int_Z.succ_big_int (Big_int_Z.mult_int_big_int 2 x))
    ((fun x -> Big_int_Z.succ_big_int (Big_int_Z.mult_int_big_int 2 x))
    ((fun x -> Big_int_Z.succ_big_int (Big_int_Z.mult_int_big_int 2 x))
    ((fun x -> Big_int_Z.succ_big_int (Big_int_Z.mult_int_big_int 2 x))
    ((fun x -> Big_int_Z.succ_big_int (Big_int_Z.mult_int_big_int 2 x))
    ((fun x -> Big_int_Z.succ_big_int (Big_int_Z.mult_int_big_int 2 x))
    ((fun x -> Big_int_Z.succ_big_int (Big_int_Z.mult_int_big_int 2 x))
    ((fun x -> Big_int_Z.succ_big_int (Big_int_Z.mult_int_big_int 2 x))
    ((fun x -> Big_int_Z.succ_big_int (Big_int_Z.mult_int_big_int 2 x))
    ((fun x -> Big_int_Z.succ_big_int (Big_int_Z.mult_int_big_int 2 x))
    ((fun x -> Big_int_Z.succ_big_int (Big_int_Z.mult_int_big_int 2 x))
    ((fun x -> Big_int_Z.succ_big_int (Big_int_Z.mult_int_big_int 2 x))
    ((fun x -> Big_int_Z.succ_big_int (Big_int_Z.mult_int_big_int 2 x))
    ((fun x -> Big_int_Z.succ_big_int (Big_int_Z.mult_int_big_int 2 x))
    ((fun x -> Big_int_Z.succ_big_int (Big_int_Z.mult_int_big_int 2 x))
    ((fun x -> Big_int_Z.succ_big_int (Big_int_Z.mult_int_big_int 2 x))
    ((fun x -> Big_int_Z.succ_big_int (Big_int_Z.mult_int_big_int 2 x))
    ((fun x -> Big_int_Z.succ_big_int (Big_int_Z.mult_int_big_int 2 x))
    ((fun x -> Big_int_Z.succ_big_int (Big_int_Z.mult_int_big_int 2 x))
    ((fun x -> Big_int_Z.succ_big_int (Big_int_Z.mult_int_big_int 2 x))
    ((fun x -> Big_int_Z.succ_big_int (Big_int_Z.mult_int_big_int 2 x))
    ((fun x -> Big_int_Z.succ_big_int (Big_int_Z.mult_int_big_int 2 x))
    ((fun x -> Big_int_Z.succ_big_int (Big_int_Z.mult_int_big_int 2 x))
    ((fun x -> Big_int_Z.succ_big_int (Big_int_Z.mult_int_big_int 2 x))
    ((fun x -> Big_int_Z.succ_big_int (Big_int_Z.mult_int_big_int 2 x))
    ((fun x -> Big_int_Z.succ_big_int (Big_int_Z.mult_int_big_int 2 x))
    ((fun x -> Big_int_Z.succ_big_int (Big_int_Z.mult_int_big_int 2 x))
    ((fun x -> Big_int_Z.succ_big_int (Big_int_Z.mult_int_big_int 2 x))
    ((fun x -> Big_int_Z.succ_big_int (Big_int_Z.mult_int_big_int 2 x))
    ((fun x -> Big_int_Z.succ_big_int (Big_int_Z.mult_int_big_int 2 x))
    ((fun x -> Big_int_Z.succ_big_int (Big_int_Z.mult_int_big_int 2 x))
    ((fun x -> Big_int_Z.succ_big_int (Big_int_Z.mult_int_big_int 2 x))
    ((fun x -> Big_int_Z.succ_big_int (Big_int_Z.mult_int_big_int 2 x))
    ((fun x -> Big_int_Z.succ_big_int (Big_int_Z.mult_int_big_int 2 x))
    ((fun x -> Big_int_Z.succ_big_int (Big_int_Z.mult_int_big_int 2 x))
    ((fun x -> Big_int_Z.succ_big_int (Big_int_Z.mult_int_big_int 2 x))
    ((fun x -> Big_int_Z.succ_big_int (Big_int_Z.mult_int_big_int 2 x))
    ((fun x -> Big_int_Z.succ_big_int (Big_int_Z.mult_int_big_int 2 x))
    ((fun x -> Big_int_Z.succ_big_int (Big_int_Z.mult_int_big_int 2 x))
    ((fun x -> Big_int_Z.succ_big_int (Big_int_Z.mult_int_big_int 2 x))
    ((fun x -> Big_int_Z.succ_big_int (Big_int_Z.mult_int_big_int 2 x))
    ((fun x -> Big_int_Z.succ_big_int (Big_int_Z.mult_int_big_int 2 x))
    ((fun x -> Big_int_Z.succ_big_int (Big_int_Z.mult_int_big_int 2 x))
    ((fun x -> Big_int_Z.succ_big_int (Big_int_Z.mult_int_big_int 2 x))
    ((fun x -> Big_int_Z.succ_big_int (Big_int_Z.mult_int_big_int 2 x))
    ((fun x -> Big_int_Z.succ_big_int (Big_int_Z.mult_int_big_int 2 x))
    ((fun x -> Big_int_Z.succ_big_int (Big_int_Z.mult_int_big_int 2 x))
    ((fun x -> Big_int_Z.succ_big_int (Big_int_Z.mult_int_big_int 2 x))
    ((fun x -> Big_int_Z.succ_big_int (Big_int_Z.mult_int_big_int 2 x))
    ((fun x -> Big_int_Z.succ_big_int (Big_int_Z.mult_int_big_int 2 x))
    ((fun x -> Big_int_Z.succ_big_int (Big_int_Z.mult_int_big_int 2 x))
    ((fun x -> Big_int_Z.succ_big_int (Big_int_Z.mult_int_big_int 2 x))
    ((fun x -> Big_int_Z.succ_big_int (Big_int_Z.mult_int_big_int 2 x))
    ((fun x -> Big_int_Z.succ_big_int (Big_int_Z.mult_int_big_int 2 x))
    ((fun x -> Big_int_Z.succ_big_int (Big_int_Z.mult_int_big_int 2 x))
    ((fun x -> Big_int_Z.succ_big_int (Big_int_Z.mult_int_big_int 2 x))
    ((fun x -> Big_int_Z.succ_big_int (Big_int_Z.mult_int_big_int 2 x))
    ((fun x -> Big_int_Z.succ_big_int (Big_int_Z.mult_int_big_int 2 x))
    ((fun x -> Big_int_Z.succ_big_int (Big_int_Z.mult_int_big_int 2 x))
    ((fun x -> Big_int_Z.succ_big_int (Big_int_Z.mult_int_big_int 2 x))
    ((fun x -> Big_int_Z.succ_big_int (Big_int_Z.mult_int_big_int 2 x))
    ((fun x -> Big_int_Z.succ_big_int (Big_int_Z.mult_int_big_int 2 x))
    ((fun x -> Big_int_Z.succ_big_int (Big_int_Z.mult_int_big_int 2 x))
    ((fun x -> Big_int_Z.succ_big_int (Big_int_Z.mult_int_big_int 2 x))
    ((fun x -> Big_int_Z.succ_big_int (Big_int_Z.mult_int_big_int 2 x))
    ((fun x -> Big_int_Z.succ_big_int (Big_int_Z.mult_int_big_int 2 x))
    ((fun x -> Big_int_Z.succ_big_int (Big_int_Z.mult_int_big_int 2 x))
    ((fun x -> Big_int_Z.succ_big_int (Big_int_Z.mult_int_big_int 2 x))
    ((fun x -> Big_int_Z.succ_big_int (Big_int_Z.mult_int_big_int 2 x))
    ((fun x -> Big_int_Z.succ_big_int (Big_int_Z.mult_int_big_int 2 x))
    ((fun x -> Big_int_Z.succ_big_int (Big_int_Z.mult_int_big_int 2 x))
    ((fun x -> Big_int_Z.succ_big_int (Big_int_Z.mult_int_big_int 2 x))
    ((fun x -> Big_int_Z.succ_big_int (Big_int_Z.mult_int_big_int 2 x))
    ((fun x -> Big_int_Z.succ_big_int (Big_int_Z.mult_int_big_int 2 x))
    ((fun x -> Big_int_Z.succ_big_int (Big_int_Z.mult_int_big_int 2 x))
    ((fun x -> Big_int_Z.succ_big_int (Big_int_Z.mult_int_big_int 2 x))
    ((fun x -> Big_int_Z.succ_big_int (Big_int_Z.mult_int_big_int 2 x))
    ((fun x -> Big_int_Z.succ_big_int (Big_int_Z.mult_int_big_int 2 x))
    Big_int_Z.unit_big_int)))))))))))))))))))))))))))))))))))))))))))))))))))))))))))))))))))))))))))))))))))))))))))))))))))))))))))))))))))))))))))))))))))))))))))))))))))))))))))))))))))))))))))))))))))))))))))))))))))))))))))))))))))))))))))))));
    cp_max_money = (Big_int_Z.mult_int_big_int 2
    (Big_int_Z.mult_int_big_int 2 (Big_int_Z.mult_int_big_int 2
    (Big_int_Z.mult_int_big_int 2 (Big_int_Z.mult_int_big_int 2
    (Big_int_Z.mult_int_big_int 2 (Big_int_Z.mult_int_big_int 2
    (Big_int_Z.mult_int_big_int 2 (Big_int_Z.mult_int_big_int 2
    (Big_int_Z.mult_int_big_int 2 (Big_int_Z.mult_int_big_int 2
    (Big_int_Z.mult_int_big_int 2 (Big_int_Z.mult_int_big_int 2
    (Big_int_Z.mult_int_big_int 2
    ((fun x -> Big_int_Z.succ_big_int (Big_int_Z.mult_int_big_int 2 x))
    (Big_int_Z.mult_int_big_int 2
    ((fun x -> Big_int_Z.succ_big_int (Big_int_Z.mult_int_big_int 2 x))
    ((fun x -> Big_int_Z.succ_big_int (Big_int_Z.mult_int_big_int 2 x))
    ((fun x -> Big_int_Z.succ_big_int (Big_int_Z.mult_int_big_int 2 x))
    (Big_int_Z.mult_int_big_int 2 (Big_int_Z.mult_int_big_int 2
    (Big_int_Z.mult_int_big_int 2 (Big_int_Z.mult_int_big_int 2
    (Big_int_Z.mult_int_big_int 2 (Big_int_Z.mult_int_big_int 2
    ((fun x -> Big_int_Z.succ_big_int (Big_int_Z.mult_int_big_int 2 x))
    (Big_int_Z.mult_int_big_int 2
    ((fun x -> Big_int_Z.succ_big_int (Big_int_Z.mult_int_big_int 2 x))
    ((fun x -> Big_int_Z.succ_big_int (Big_int_Z.mult_int_big_int 2 x))
    (Big_int_Z.mult_int_big_int 2
    ((fun x -> Big_int_Z.succ_big_int (Big_int_Z.mult_int_big_int 2 x))
    (Big_int_Z.mult_int_big_int 2 (Big_int_Z.mult_int_big_int 2
    (Big_int_Z.mult_int_big_int 2 (Big_int_Z.mult_int_big_int 2
    (Big_int_Z.mult_int_big_int 2
    ((fun x -> Big_int_Z.succ_big_int (Big_int_Z.mult_int_big_int 2 x))
    ((fun x -> Big_int_Z.succ_big_int (Big_int_Z.mult_int_big_int 2 x))
    ((fun x -> Big_int_Z.succ_big_int (Big_int_Z.mult_int_big_int 2 x))
    ((fun x -> Big_int_Z.succ_big_int (Big_int_Z.mult_int_big_int 2 x))
    ((fun x -> Big_int_Z.succ_big_int (Big_int_Z.mult_int_big_int 2 x))
    (Big_int_Z.mult_int_big_int 2
    ((fun x -> Big_int_Z.succ_big_int (Big_int_Z.mult_int_big_int 2 x))
    (Big_int_Z.mult_int_big_int 2
    ((fun x -> Big_int_Z.succ_big_int (Big_int_Z.mult_int_big_int 2 x))
    ((fun x -> Big_int_Z.succ_big_int (Big_int_Z.mult_int_big_int 2 x))
    ((fun x -> Big_int_Z.succ_big_int (Big_int_Z.mult_int_big_int 2 x))
    (Big_int_Z.mult_int_big_int 2
    ((fun x -> Big_int_Z.succ_big_int (Big_int_Z.mult_int_big_int 2 x))
    ((fun x -> Big_int_Z.succ_big_int (Big_int_Z.mult_int_big_int 2 x))
    Big_int_Z.unit_big_int))))))))))))))))))))))))))))))))))))))))))))))))));
    cp_magic = (X0b :: (X11 :: (X09 :: (X07 :: [])))); cp_pubkey_addr =
    ((fun x -> Big_int_Z.succ_big_int (Big_int_Z.mult_int_big_int 2 x))
    ((fun x -> Big_int_Z.succ_big_int (Big_int_Z.mult_int_big_int 2 x))
    ((fun x -> Big_int_Z.succ_big_int (Big_int_Z.mult_int_big_int 2 x))
    ((fun x -> Big_int_Z.succ_big_int (Big_int_Z.mult_int_big_int 2 x))
    (Big_int_Z.mult_int_big_int 2
    ((fun x -> Big_int_Z.succ_big_int (Big_int_Z.mult_int_big_int 2 x))
    Big_int_Z.unit_big_int)))))); cp_script_addr =
    (Big_int_Z.mult_int_big_int 2 (Big_int_Z.mult_int_big_int 2
    ((fun x -> Big_int_Z.succ_big_int (Big_int_Z.mult_int_big_int 2 x))
    (Big_int_Z.mult_int_big_int 2 (Big_int_Z.mult_int_big_int 2
    (Big_int_Z.mult_int_big_int 2
    ((fun x -> Big_int_Z.succ_big_int (Big_int_Z.mult_int_big_int 2 x))
    Big_int_Z.unit_big_int))))))); cp_secret_key =
    ((fun x -> Big_int_Z.succ_big_int (Big_int_Z.mult_int_big_int 2 x))
    ((fun x -> Big_int_Z.succ_big_int (Big_int_Z.mult_int_big_int 2 x))
    ((fun x -> Big_int_Z.succ_big_int (Big_int_Z.mult_int_big_int 2 x))
    ((fun x -> Big_int_Z.succ_big_int (Big_int_Z.mult_int_big_int 2 x))
    (Big_int_Z.mult_int_big_int 2
    ((fun x -> Big_int_Z.succ_big_int (Big_int_Z.mult_int_big_int 2 x))
    ((fun x -> Big_int_Z.succ_big_int (Big_int_Z.mult_int_big_int 2 x))
    Big_int_Z.unit_big_int))))))); cp_hrp = ((Big_int_Z.mult_int_big_int 2
    (Big_int_Z.mult_int_big_int 2
    ((fun x -> Big_int_Z.succ_big_int (Big_int_Z.mult_int_big_int 2 x))
    (Big_int_Z.mult_int_big_int 2
    ((fun x -> Big_int_Z.succ_big_int (Big_int_Z.mult_int_big_int 2 x))
    ((fun x -> Big_int_Z.succ_big_int (Big_int_Z.mult_int_big_int 2 x))
    Big_int_Z.unit_big_int)))))) :: ((Big_int_Z.mult_int_big_int 2
    ((fun x -> Big_int_Z.succ_big_int (Big_int_Z.mult_int_big_int 2 x))
    (Big_int_Z.mult_int_big_int 2 (Big_int_Z.mult_int_big_int 2
    (Big_int_Z.mult_int_big_int 2
    ((fun x -> Big_int_Z.succ_big_int (Big_int_Z.mult_int_big_int 2 x))
    Big_int_Z.unit_big_int)))))) :: [])) } :: ({ cp_name =
    (((fun x -> Big_int_Z.succ_big_int (Big_int_Z.mult_int_big_int 2 x))
    ((fun x -> Big_int_Z.succ_big_int (Big_int_Z.mult_int_big_int 2 x))
    (Big_int_Z.mult_int_big_int 2 (Big_int_Z.mult_int_big_int 2
    ((fun x -> Big_int_Z.succ_big_int (Big_int_Z.mult_int_big_int 2 x))
    ((fun x -> Big_int_Z.succ_big_int (Big_int_Z.mult_int_big_int 2 x))
    Big_int_Z.unit_big_int)))))) :: (((fun x -> Big_int_Z.succ_big_int (Big_int_Z.mult_int_big_int 2 x))
    (Big_int_Z.mult_int_big_int 2 (Big_int_Z.mult_int_big_int 2
    ((fun x -> Big_int_Z.succ_big_int (Big_int_Z.mult_int_big_int 2 x))
    (Big_int_Z.mult_int_big_int 2
    ((fun x -> Big_int_Z.succ_big_int (Big_int_Z.mult_int_big_int 2 x))
    Big_int_Z.unit_big_int)))))) :: (((fun x -> Big_int_Z.succ_big_int (Big_int_Z.mult_int_big_int 2 x))
    ((fun x -> Big_int_Z.succ_big_int (Big_int_Z.mult_int_big_int 2 x))
    ((fun x -> Big_int_Z.succ_big_int (Big_int_Z.mult_int_big_int 2 x))
    (Big_int_Z.mult_int_big_int 2 (Big_int_Z.mult_int_big_int 2
    ((fun x -> Big_int_Z.succ_big_int (Big_int_Z.mult_int_big_int 2 x))
    Big_int_Z.unit_big_int)))))) :: ((Big_int_Z.mult_int_big_int 2
    ((fun x -> Big_int_Z.succ_big_int (Big_int_Z.mult_int_big_int 2 x))
    ((fun x -> Big_int_Z.succ_big_int (Big_int_Z.mult_int_big_int 2 x))
    ((fun x -> Big_int_Z.succ_big_int (Big_int_Z.mult_int_big_int 2 x))
    (Big_int_Z.mult_int_big_int 2
    ((fun x -> Big_int_Z.succ_big_int (Big_int_Z.mult_int_big_int 2 x))
    Big_int_Z.unit_big_int)))))) :: (((fun x -> Big_int_Z.succ_big_int (Big_int_Z.mult_int_big_int 2 x))
    (Big_int_Z.mult_int_big_int 2
    ((fun x -> Big_int_Z.succ_big_int (Big_int_Z.mult_int_big_int 2 x))
    (Big_int_Z.mult_int_big_int 2 (Big_int_Z.mult_int_big_int 2
    ((fun x -> Big_int_Z.succ_big_int (Big_int_Z.mult_int_big_int 2 x))
    Big_int_Z.unit_big_int)))))) :: ((Big_int_Z.mult_int_big_int 2
    (Big_int_Z.mult_int_big_int 2
    ((fun x -> Big_int_Z.succ_big_int (Big_int_Z.mult_int_big_int 2 x))
    (Big_int_Z.mult_int_big_int 2
    ((fun x -> Big_int_Z.succ_big_int (Big_int_Z.mult_int_big_int 2 x))
    ((fun x -> Big_int_Z.succ_big_int (Big_int_Z.mult_int_big_int 2 x))
    Big_int_Z.unit_big_int)))))) :: [])))))); cp_pow_limit =
    ((fun x -> Big_int_Z.succ_big_int (Big_int_Z.mult_int_big_int 2 x))
    ((fun x -> Big_int_Z.succ_big_int (Big_int_Z.mult_int_big_int 2 x))
    ((fun x -> Big_int_Z.succ_big_int (Big_int_Z.mult_int_big_int 2 x))
    ((fun x -> Big_int_Z.succ_big_int (Big_int_Z.mult_int_big_int 2 x))
    ((fun x -> Big_int_Z.succ_big_int (Big_int_Z.mult_int_big_int 2 x))
    ((fun x -> Big_int_Z.succ_big_int (Big_int_Z.mult_int_big_int 2 x))
    ((fun x -> Big_int_Z.succ_big_int (Big_int_Z.mult_int_big_int 2 x))
    ((fun x -> Big_int_Z.succ_big_int (Big_int_Z.mult_int_big_int 2 x))
    ((fun x -> Big_int_Z.succ_big_int (Big_int_Z.mult_int_big_int 2 x))
    ((fun x -> Big_int_Z.succ_big_int (Big_int_Z.mult_int_big_int 2 x))
    ((fun x -> Big_int_Z.succ_big_int (Big_int_Z.mult_int_big_int 2 x))
    ((fun x -> Big_int_Z.succ_big_int (Big_int_Z.mult_int_big_int 2 x))
    ((fun x -> Big_int_Z.succ_big_int (Big_int_Z.mult_int_big_int 2 x))
    ((fun x -> Big_int_Z.succ_big_int (Big_int_Z.mult_int_big_int 2 x))
    ((fun x -> Big_int_Z.succ_big_int (Big_int_Z.mult_int_big_int 2 x))
    ((fun x -> Big_int_Z.succ_big_int (Big_int_Z.mult_int_big_int 2 x))
    ((fun x -> Big_int_Z.succ_big_int (Big_int_Z.mult_int_big_int 2 x))
    ((fun x -> Big_int_Z.succ_big_int (Big_int_Z.mult_int_big_int 2 x))
    ((fun x -> Big_int_Z.succ_big_int (Big_int_Z.mult_int_big_int 2 x))
    ((fun x -> Big_int_Z.succ_big_int (Big_int_Z.mult_int_big_int 2 x))
    ((fun x -> Big_int_Z.succ_big_int (Big_int_Z.mult_int_big_int 2 x))
    ((fun x -> Big_int_Z.succ_big_int (Big_int_Z.mult_int_big_int 2 x))
    ((fun x -> Big_int_Z.succ_big_int (Big_int_Z.mult_int_big_int 2 x))
    ((fun x -> Big_int_Z.succ_big_int (Big_int_Z.mult_int_big_int 2 x))
    ((fun x -> Big_int_Z.succ_big_int (Big_int_Z.mult_int_big_int 2 x))
    ((fun x -> Big_int_Z.succ_big_int (Big_int_Z.mult_int_big_int 2 x))
    ((fun x -> Big_int_Z.succ_big_int (Big_int_Z.mult_int_big_int 2 x))
    ((fun x -> Big_int_Z.succ_big_int (Big_int_Z.mult_int_big_int 2 x))
    ((fun x -> Big_int_Z.succ_big_int (Big_int_Z.mult_int_big_int 2 x))
    ((fun x -> Big_int_Z.succ_big_int (Big_int_Z.mult_int_big_int 2 x))
    ((fun x -> Big_int_Z.succ_big_int (Big_int_Z.mult_int_big_int 2 x))
    ((fun x -> Big_int_Z.succ_big_int (Big_int_Z.mult_int_big_int 2 x))
    ((fun x -> Big_int_Z.succ_big_int (Big_int_Z.mult_int_big_int 2 x))
    ((fun x -> Big_int_Z.succ_big_int (Big_int_Z.mult_int_big_int 2 x))
    ((fun x -> Big_int_Z.succ_big_int (Big_int_Z.mult_int_big_int 2 x))
    ((fun x -> Big_int_Z.succ_big_int (Big_int_Z.mult_int_big_int 2 x))
    ((fun x -> Big_int_Z.succ_big_int (Big_int_Z.mult_int_big_int 2 x))
    ((fun x -> Big_int_Z.succ_big_int (Big_int_Z.mult_int_big_int 2 x))
    ((fun x -> Big_int_Z.succ_big_int (Big_int_Z.mult_int_big_int 2 x))
    ((fun x -> Big_int_Z.succ_big_int (Big_int_Z.mult_int_big_int 2 x))
    ((fun x -> Big_int_Z.succ_big_int (Big_int_Z.mult_int_big_int 2 x))
    ((fun x -> Big_int_Z.succ_big_int (Big_int_Z.mult_int_big_int 2 x))
    ((fun x -> Big_int_Z.succ_big_int (Big_int_Z.mult_int_big_int 2 x))
    ((fun x -> Big_int_Z.succ_big_int (Big_int_Z.mult_int_big_int 2 x))
    ((fun x -> Big_int_Z.succ_big_int (Big_int_Z.mult_int_big_int 2 x))
    ((fun x -> Big_int_Z.succ_big_int (Big_int_Z.mult_int_big_int 2 x))
    ((fun x -> Big_int_Z.succ_big_int (Big_int_Z.mult_int_big_int 2 x))
    ((fun x -> Big_int_Z.succ_big_int (Big_int_Z.mult_int_big_int 2 x))
    ((fun x -> Big_int_Z.succ_big_int (Big_int_Z.mult_int_big_int 2 x))
    ((fun x -> Big_int_Z.succ_big_int (Big_int_Z.mult_int_big_int 2 x))
    ((fun x -> Big_int_Z.succ_big_int (Big_int_Z.mult_int_big_int 2 x))
    ((fun x -> Big_int_Z.succ_big_int (Big_int_Z.mult_int_big_int 2 x))
    ((fun x -> Big_int_Z.succ_big_int (Big_int_Z.mult_int_big_int 2 x))
    ((fun x -> Big_int_Z.succ_big_int (Big_int_Z.mult_int_big_int 2 x))
    ((fun x -> Big_int_Z.succ_big_int (Big_int_Z.mult_int_big_int 2 x))
    ((fun x -> Big_int_Z.succ_big_int (Big_int_Z.mult_int_big_int 2 x))
    ((fun x -> Big_int_Z.succ_big_int (Big_int_Z.mult_int_big_int 2 x))
    ((fun x -> Big_int_Z.succ_big_int (Big_int_Z.mult_int_big_int 2 x))
    ((fun x -> Big_int_Z.succ_big_int (Big_int_Z.mult_int_big_int 2 x))
    ((fun x -> Big_int_Z.succ_big_int (Big_int_Z.mult_int_big_int 2 x))
    ((fun x -> Big_int_Z.succ_big_int (Big_int_Z.mult_int_big_int 2 x))
    ((fun x -> Big_int_Z.succ_big_int (Big_int_Z.mult_int_big_int 2 x))
    ((fun x -> Big_int_Z.succ_big_int (Big_int_Z.mult_int_big_int 2 x))
    ((fun x -> Big_int_Z.succ_big_int (Big_int_Z.mult_int_big_int 2 x))
    ((fun x -> Big_int_Z.succ_big_int (Big_int_Z.mult_int_big_int 2 x))
    ((fun x -> Big_int_Z.succ_big_int (Big_int_Z.mult_int_big_int 2 x))
    ((fun x -> Big_int_Z.succ_big_int (Big_int_Z.mult_int_big_int 2 x))
    ((fun x -> Big_int_Z.succ_big_int (Big_int_Z.mult_int_big_int 2 x))
    ((fun x -> Big_int_Z.succ_big_int (Big_int_Z.mult_int_big_int 2 x))
    ((fun x -> Big_int_Z.succ_big_int (Big_int_Z.mult_int_big_int 2 x))
    ((fun x -> Big_int_Z.succ_big_int (Big_int_Z.mult_int_big_int 2 x))
    ((fun x -> Big_int_Z.succ_big_int (Big_int_Z.mult_int_big_int 2 x))
    ((fun x -> Big_int_Z.succ_big_int (Big_int_Z.mult_int_big_int 2 x))
    ((fun x -> Big_int_Z.succ_big_int (Big_int_Z.mult_int_big_int 2 x))
    ((fun x -> Big_int_Z.succ_big_int (Big_int_Z.mult_int_big_int 2 x))
    ((fun x -> Big_int_Z.succ_big_int (Big_int_Z.mult_int_big_int 2 x))
    ((fun x -> Big_int_Z.succ_big_int (Big_int_Z.mult_int_big_int 2 x))
    ((fun x -> Big_int_Z.succ_big_int (Big_int_Z.mult_int_big_int 2 x))
    ((fun x -> Big_int_Z.succ_big_int (Big_int_Z.mult_int_big_int 2 x))
    ((fun x -> Big_int_Z.succ_big_int (Big_int_Z.mult_int_big_int 2 x))
    ((fun x -> Big_int_Z.succ_big_int (Big_int_Z.mult_int_big_int 2 x))
    ((fun x -> Big_int_Z.succ_big_int (Big_int_Z.mult_int_big_int 2 x))
    ((fun x -> Big_int_Z.succ_big_int (Big_int_Z.mult_int_big_int 2 x))
    ((fun x -> Big_int_Z.succ_big_int (Big_int_Z.mult_int_big_int 2 x))
    ((fun x -> Big_int_Z.succ_big_int (Big_int_Z.mult_int_big_int 2 x))
    ((fun x -> Big_int_Z.succ_big_int (Big_int_Z.mult_int_big_int 2 x))
    ((fun x -> Big_int_Z.succ_big_int (Big_int_Z.mult_int_big_int 2 x))
    ((fun x -> Big_int_Z.succ_big_int (Big_int_Z.mult_int_big_int 2 x))
    ((fun x -> Big_int_Z.succ_big_int (Big_int_Z.mult_int_big_int 2 x))
    ((fun x -> Big_int_Z.succ_big_int (Big_int_Z.mult_int_big_int 2 x))
    ((fun x -> Big_int_Z.succ_big_int (Big_int_Z.mult_int_big_int 2 x))
    ((fun x -> Big_int_Z.succ_big_int (Big_int_Z.mult_int_big_int 2 x))
    ((fun x -> Big_int_Z.succ_big_int (Big_int_Z.mult_int_big_int 2 x))
    ((fun x -> Big_int_Z.succ_big_int (Big_int_Z.mult_int_big_int 2 x))
    ((fun x -> Big_int_Z.succ_big_int (Big_int_Z.mult_int_big_int 2 x))
    ((fun x -> Big_int_Z.succ_big_int (Big_int_Z.mult_int_big_int 2 x))
    ((fun x -> Big_int_Z.succ_big_int (Big_int_Z.mult_int_big_int 2 x))
    ((fun x -> Big_int_Z.succ_big_int (Big_int_Z.mult_int_big_int 2 x))
    ((fun x -> Big_int_Z.succ_big_int (Big_int_Z.mult_int_big_int 2 x))
    ((fun x -> Big_int_Z.succ_big_int (Big_int_Z.mult_int_big_int 2 x))
    ((fun x -> Big_int_Z.succ_big_int (Big_int_Z.mult_int_big_int 2 x))
    ((fun x -> Big_int_Z.succ_big_int (Big_int_Z.mult_int_big_int 2 x))
    ((fun x -> Big_int_Z.succ_big_int (Big_int_Z.mult_int_big_int 2 x))
    ((fun x -> Big_int_Z.succ_big_int (Big_int_Z.mult_int_big_int 2 x))
    ((fun x -> Big_int_Z.succ_big_int (Big_int_Z.mult_int_big_int 2 x))
    ((fun x -> Big_int_Z.succ_big_int (Big_int_Z.mult_int_big_int 2 x))
    ((fun x -> Big_int_Z.succ_big_int (Big_int_Z.mult_int_big_int 2 x))
    ((fun x -> Big_int_Z.succ_big_int (Big_int_Z.mult_int_big_int 2 x))
    ((fun x -> Big_int_Z.succ_big_int (Big_int_Z.mult_int_big_int 2 x))
    ((fun x -> Big_int_Z.succ_big_int (Big_int_Z.mult_int_big_int 2 x))
    ((fun x -> Big_int_Z.succ_big_int (Big_int_Z.mult_int_big_int 2 x))
    ((fun x -> Big_int_Z.succ_big_int (Big_int_Z.mult_int_big_int 2 x))
    ((fun x -> Big_int_Z.succ_big_int (Big_int_Z.mult_int_big_int 2 x))
    ((fun x -> Big_int_Z.succ_big_int (Big_int_Z.mult_int_big_int 2 x))
    ((fun x -> Big_int_Z.succ_big_int (Big_int_Z.mult_int_big_int 2 x))
    ((fun x -> Big_int_Z.succ_big_int (Big_int_Z.mult_int_big_int 2 x))
    ((fun x -> Big_int_Z.succ_big_int (Big_int_Z.mult_int_big_int 2 x))
    ((fun x -> Big_int_Z.succ_big_int (Big_int_Z.mult_int_big_int 2 x))
    ((fun x -> Big_int_Z.succ_big_int (Big_int_Z.mult_int_big_int 2 x))
    ((fun x -> Big_int_Z.succ_big_int (Big_int_Z.mult_int_big_int 2 x))
    ((fun x -> Big_int_Z.succ_big_int (Big_int_Z.mult_int_big_int 2 x))
    ((fun x -> Big_int_Z.succ_big_int (Big_int_Z.mult_int_big_int 2 x))
    ((fun x -> Big_int_Z.succ_big_int (Big_int_Z.mult_int_big_int 2 x))
    ((fun x -> Big_int_Z.succ_big_int (Big_int_Z.mult_int_big_int 2 x))
    ((fun x -> Big_int_Z.succ_big_int (Big_int_Z.mult_int_big_int 2 x))
    ((fun x -> Big_int_Z.succ_big_int (Big_int_Z.mult_int_big_int 2 x))
    ((fun x -> Big_int_Z.succ_big_int (Big_int_Z.mult_int_big_int 2 x))
    ((fun x -> Big_int_Z.succ_big_int (Big_int_Z.mult_int_big_int 2 x))
    ((fun x -> Big_int_Z.succ_big_int (Big_int_Z.mult_int_big_int 2 x))
    ((fun x -> Big_int_Z.succ_big_int (Big_int_Z.mult_int_big_int 2 x))
    ((fun x -> Big_int_Z.succ_big_int (Big_int_Z.mult_int_big_int 2 x))
    ((fun x -> Big_int_Z.succ_big_int (Big_int_Z.mult_int_big_int 2 x))
    ((fun x -> Big_int_Z.succ_big_int (Big_int_Z.mult_int_big_int 2 x))
    ((fun x -> Big_int_Z.succ_big_int (Big_int_Z.mult_int_big_int 2 x))
    ((fun x -> Big_int_Z.succ_big_int (Big_int_Z.mult_int_big_int 2 x))
    ((fun x -> Big_int_Z.succ_big_int (Big_int_Z.mult_int_big_int 2 x))
    ((fun x -> Big_int_Z.succ_big_int (Big_int_Z.mult_int_big_int 2 x))
    ((fun x -> Big_int_Z.succ_big_int (Big_int_Z.mult_int_big_int 2 x))
    ((fun x -> Big_int_Z.succ_big_int (Big_int_Z.mult_int_big_int 2 x))
    ((fun x -> Big_int_Z.succ_big_int (Big_int_Z.mult_int_big_int 2 x))
    ((fun x -> Big_int_Z.succ_big_int (Big_int_Z.mult_int_big_int 2 x))
    ((fun x -> Big_int_Z.succ_big_int (Big_int_Z.mult_int_big_int 2 x))
    ((fun x -> Big_int_Z.succ_big_int (Big_int_Z.mult_int_big_int 2 x))
    ((fun x -> Big_int_Z.succ_big_int (Big_int_Z.mult_int_big_int 2 x))
    ((fun x -> Big_int_Z.succ_big_int (Big_int_Z.mult_int_big_int 2 x))
    ((fun x -> Big_int_Z.succ_big_int (Big_int_Z.mult_int_big_int 2 x))
    ((fun x -> Big_int_Z.succ_big_int (Big_int_Z.mult_int_big_int 2 x))
    ((fun x -> Big_int_Z.succ_big_int (Big_int_Z.mult_int_big_int 2 x))
    ((fun x -> Big_int_Z.succ_big_int (Big_int_Z.mult_int_big_int 2 x))
    ((fun x -> Big_int_Z.succ_big_int (Big_int_Z.mult_int_big_int 2 x))
    ((fun x -> Big_int_Z.succ_big_int (Big_int_Z.mult_int_big_int 2 x))
    ((fun x -> Big_int_Z.succ_big_int (Big_int_Z.mult_int_big_int 2 x))
    ((fun x -> Big_int_Z.succ_big_int (Big_int_Z.mult_int_big_int 2 x))
    ((fun x -> Big_int_Z.succ_big_int (Big_int_Z.mult_int_big_int 2 x))
    ((fun x -> Big_int_Z.succ_big_int (Big_int_Z.mult_int_big_int 2 x))
    ((fun x -> Big_int_Z.succ_big_int (Big_int_Z.mult_int_big_int 2 x))
    ((fun x -> Big_int_Z.succ_big_int (Big_int_Z.mult_int_big_int 2 x))
    ((fun x -> Big_int_Z.succ_big_int (Big_int_Z.mult_int_big_int 2 x))
    ((fun x -> Big_int_Z.succ_big_int (Big_int_Z.mult_int_big_int 2 x))
    ((fun x -> Big_int_Z.succ_big_int (Big_int_Z.mult_int_big_int 2 x))
    ((fun x -> Big_int_Z.succ_big_int (Big_int_Z.mult_int_big_int 2 x))
    ((fun x -> Big_int_Z.succ_big_int (Big_int_Z.mult_int_big_int 2 x))
    ((fun x -> Big_int_Z.succ_big_int (Big_int_Z.mult_int_big_int 2 x))
    ((fun x -> Big_int_Z.succ_big_int (Big_int_Z.mult_int_big_int 2 x))
    ((fun x -> Big_int_Z.succ_big_int (Big_int_Z.mult_int_big_int 2 x))
    ((fun x -> Big_int_Z.succ_big_int (Big_int_Z.mult_int_big_int 2 x))
    ((fun x -> Big_int_Z.succ_big_int (Big_int_Z.mult_int_big_int 2 x))
    ((fun x -> Big_int_Z.succ_big_int (Big_int_Z.mult_int_big_int 2 x))
    ((fun x -> Big_int_Z.succ_big_int (Big_int_Z.mult_int_big_int 2 x))
    ((fun x -> Big_int_Z.succ_big_int (Big_int_Z.mult_int_big_int 2 x))
    ((fun x -> Big_int_Z.succ_big_int (Big_int_Z.mult_int_big_int 2 x))
    ((fun x -> Big_int_Z.succ_big_int (Big_int_Z.mult_int_big_int 2 x))
    ((fun x -> Big_int_Z.succ_big_int (Big_int_Z.mult_int_big_int 2 x))
    ((fun x -> Big_int_Z.succ_big_int (Big_int_Z.mult_int_big_int 2 x))
    ((fun x -> Big_int_Z.succ_big_int (Big_int_Z.mult_int_big_int 2 x))
    ((fun x -> Big_int_Z.succ_big_int (Big_int_Z.mult_int_big_int 2 x))
    ((fun x -> Big_int_Z.succ_big_int (Big_int_Z.mult_int_big_int 2 x))
    ((fun x -> Big_int_Z.succ_big_int (Big_int_Z.mult_int_big_int 2 x))
    ((fun x -> Big_int_Z.succ_big_int (Big_int_Z.mult_int_big_int 2 x))
    ((fun x -> Big_int_Z.succ_big_int (Big_int_Z.mult_int_big_int 2 x))
    ((fun x -> Big_int_Z.succ_big_int (Big_int_Z.mult_int_big_int 2 x))
    ((fun x -> Big_int_Z.succ_big_int (Big_int_Z.mult_int_big_int 2 x))
    ((fun x -> Big_int_Z.succ_big_int (Big_int_Z.mult_int_big_int 2 x))
    ((fun x -> Big_int_Z.succ_big_int (Big_int_Z.mult_int_big_int 2 x))
    ((fun x -> Big_int_Z.succ_big_int (Big_int_Z.mult_int_big_int 2 x))
    ((fun x -> Big_int_Z.succ_big_int (Big_int_Z.mult_int_big_int 2 x))
    ((fun x -> Big_int_Z.succ_big_int (Big_int_Z.mult_int_big_int 2 x))
    ((fun x -> Big_int_Z.succ_big_int (Big_int_Z.mult_int_big_int 2 x))
    ((fun x -> Big_int_Z.succ_big_int (Big_int_Z.mult_int_big_int 2 x))
    ((fun x -> Big_int_Z.succ_big_int (Big_int_Z.mult_int_big_int 2 x))
    ((fun x -> Big_int_Z.succ_big_int (Big_int_Z.mult_int_big_int 2 x))
    ((fun x -> Big_int_Z.succ_big_int (Big_int_Z.mult_int_big_int 2 x))
    ((fun x -> Big_int_Z.succ_big_int (Big_int_Z.mult_int_big_int 2 x))
    ((fun x -> Big_int_Z.succ_big_int (Big_int_Z.mult_int_big_int 2 x))
    ((fun x -> Big_int_Z.succ_big_int (Big_int_Z.mult_int_big_int 2 x))
    ((fun x -> Big_int_Z.succ_big_int (Big_int_Z.mult_int_big_int 2 x))
    ((fun x -> Big_int_Z.succ_big_int (Big_int_Z.mult_int_big_int 2 x))
    ((fun x -> Big_int_Z.succ_big_int (Big_int_Z.mult_int_big_int 2 x))
    ((fun x -> Big_int_Z.succ_big_int (Big_int_Z.mult_int_big_int 2 x))
    ((fun x -> Big_int_Z.succ_big_int (Big_int_Z.mult_int_big_int 2 x))
    ((fun x -> Big_int_Z.succ_big_int (Big_int_Z.mult_int_big_int 2 x))
    ((fun x -> Big_int_Z.succ_big_int (Big_int_Z.mult_int_big_int 2 x))
    ((fun x -> Big_int_Z.succ_big_int (Big_int_Z.mult_int_big_int 2 x))
    ((fun x -> Big_int_Z.succ_big_int (Big_int_Z.mult_int_big_int 2 x))
    ((fun x -> Big_int_Z.succ_big_int (Big_int_Z.mult_int_big_int 2 x))
    ((fun x -> Big_int_Z.succ_big_int (Big_int_Z.mult_int_big_int 2 x))
    ((fun x -> Big_int_Z.succ_big_int (Big_int_Z.mult_int_big_int 2 x))
    ((fun x -> Big_int_Z.succ_big_int (Big_int_Z.mult_int_big_int 2 x))
    ((fun x -> Big_int_Z.succ_big_int (Big_int_Z.mult_int_big_int 2 x))
    ((fun x -> Big_int_Z.succ_big_int (Big_int_Z.mult_int_big_int 2 x))
    ((fun x -> Big_int_Z.succ_big_int (Big_int_Z.mult_int_big_int 2 x))
    ((fun x -> Big_int_Z.succ_big_int (Big_int_Z.mult_int_big_int 2 x))
    ((fun x -> Big_int_Z.succ_big_int (Big_int_Z.mult_int_big_int 2 x))
    ((fun x -> Big_int_Z.succ_big_int (Big_int_Z.mult_int_big_int 2 x))
    ((fun x -> Big_int_Z.succ_big_int (Big_int_Z.mult_int_big_int 2 x))
    ((fun x -> Big_int_Z.succ_big_int (Big_int_Z.mult_int_big_int 2 x))
    ((fun x -> Big_int_Z.succ_big_int (Big_int_Z.mult_int_big_int 2 x))
    ((fun x -> Big_int_Z.succ_big_int (Big_int_Z.mult_int_big_int 2 x))
    ((fun x -> Big_int_Z.succ_big_int (Big_int_Z.mult_int_big_int 2 x))
    ((fun x -> Big_int_Z.succ_big_int (Big_int_Z.mult_int_big_int 2 x))
    ((fun x -> Big_int_Z.succ_big_int (Big_int_Z.mult_int_big_int 2 x))
    ((fun x -> Big_int_Z.succ_big_int (Big_int_Z.mult_int_big_int 2 x))
    ((fun x -> Big_int_Z.succ_big_int (Big_int_Z.mult_int_big_int 2 x))
    Big_int_Z.unit_big_int)))))))))))))))))))))))))))))))))))))))))))))))))))))))))))))))))))))))))))))))))))))))))))))))))))))))))))))))))))))))))))))))))))))))))))))))))))))))))))))))))))))))))))))))))))))))))))))))))))))))))))))))))))))))))))))));
    cp_max_money = (Big_int_Z.mult_int_big_int 2
    (Big_int_Z.mult_int_big_int 2 (Big_int_Z.mult_int_big_int 2
    (Big_int_Z.mult_int_big_int 2 (Big_int_Z.mult_int_big_int 2
    (Big_int_Z.mult_int_big_int 2 (Big_int_Z.mult_int_big_int 2
    (Big_int_Z.mult_int_big_int 2 (Big_int_Z.mult_int_big_int 2
    (Big_int_Z.mult_int_big_int 2 (Big_int_Z.mult_int_big_int 2
    (Big_int_Z.mult_int_big_int 2 (Big_int_Z.mult_int_big_int 2
    (Big_int_Z.mult_int_big_int 2
    ((fun x -> Big_int_Z.succ_big_int (Big_int_Z.mult_int_big_int 2 x))
    (Big_int_Z.mult_int_big_int 2
    ((fun x -> Big_int_Z.succ_big_int (Big_int_Z.mult_int_big_int 2 x))
    ((fun x -> Big_int_Z.succ_big_int (Big_int_Z.mult_int_big_int 2 x))
    ((fun x -> Big_int_Z.succ_big_int (Big_int_Z.mult_int_big_int 2 x))
    (Big_int_Z.mult_int_big_int 2 (Big_int_Z.mult_int_big_int 2
    (Big_int_Z.mult_int_big_int 2 (Big_int_Z.mult_int_big_int 2
    (Big_int_Z.mult_int_big_int 2 (Big_int_Z.mult_int_big_int 2
    ((fun x -> Big_int_Z.succ_big_int (Big_int_Z.mult_int_big_int 2 x))
    (Big_int_Z.mult_int_big_int 2
    ((fun x -> Big_int_Z.succ_big_int (Big_int_Z.mult_int_big_int 2 x))
    ((fun x -> Big_int_Z.succ_big_int (Big_int_Z.mult_int_big_int 2 x))
    (Big_int_Z.mult_int_big_int 2
    ((fun x -> Big_int_Z.succ_big_int (Big_int_Z.mult_int_big_int 2 x))
    (Big_int_Z.mult_int_big_int 2 (Big_int_Z.mult_int_big_int 2
    (Big_int_Z.mult_int_big_int 2 (Big_int_Z.mult_int_big_int 2
    (Big_int_Z.mult_int_big_int 2
    ((fun x -> Big_int_Z.succ_big_int (Big_int_Z.mult_int_big_int 2 x))
    ((fun x -> Big_int_Z.succ_big_int (Big_int_Z.mult_int_big_int 2 x))
    ((fun x -> Big_int_Z.succ_big_int (Big_int_Z.mult_int_big_int 2 x))
    ((fun x -> Big_int_Z.succ_big_int (Big_int_Z.mult_int_big_int 2 x))
    ((fun x -> Big_int_Z.succ_big_int (Big_int_Z.mult_int_big_int 2 x))
    (Big_int_Z.mult_int_big_int 2
    ((fun x -> Big_int_Z.succ_big_int (Big_int_Z.mult_int_big_int 2 x))
    (Big_int_Z.mult_int_big_int 2
    ((fun x -> Big_int_Z.succ_big_int (Big_int_Z.mult_int_big_int 2 x))
    ((fun x -> Big_int_Z.succ_big_int (Big_int_Z.mult_int_big_int 2 x))
    ((fun x -> Big_int_Z.succ_big_int (Big_int_Z.mult_int_big_int 2 x))
    (Big_int_Z.mult_int_big_int 2
    ((fun x -> Big_int_Z.succ_big_int (Big_int_Z.mult_int_big_int 2 x))
    ((fun x -> Big_int_Z.succ_big_int (Big_int_Z.mult_int_big_int 2 x))
    Big_int_Z.unit_big_int))))))))))))))))))))))))))))))))))))))))))))))))));
    cp_magic = (X0a :: (X03 :: (Xcf :: (X40 :: [])))); cp_pubkey_addr =
    ((fun x -> Big_int_Z.succ_big_int (Big_int_Z.mult_int_big_int 2 x))
    ((fun x -> Big_int_Z.succ_big_int (Big_int_Z.mult_int_big_int 2 x))
    ((fun x -> Big_int_Z.succ_big_int (Big_int_Z.mult_int_big_int 2 x))
    ((fun x -> Big_int_Z.succ_big_int (Big_int_Z.mult_int_big_int 2 x))
    (Big_int_Z.mult_int_big_int 2
    ((fun x -> Big_int_Z.succ_big_int (Big_int_Z.mult_int_big_int 2 x))
    Big_int_Z.unit_big_int)))))); cp_script_addr =
    (Big_int_Z.mult_int_big_int 2 (Big_int_Z.mult_int_big_int 2
    ((fun x -> Big_int_Z.succ_big_int (Big_int_Z.mult_int_big_int 2 x))
    (Big_int_Z.mult_int_big_int 2 (Big_int_Z.mult_int_big_int 2
    (Big_int_Z.mult_int_big_int 2
    ((fun x -> Big_int_Z.succ_big_int (Big_int_Z.mult_int_big_int 2 x))
    Big_int_Z.unit_big_int))))))); cp_secret_key =
    ((fun x -> Big_int_Z.succ_big_int (Big_int_Z.mult_int_big_int 2 x))
    ((fun x -> Big_int_Z.succ_big_int (Big_int_Z.mult_int_big_int 2 x))
    ((fun x -> Big_int_Z.succ_big_int (Big_int_Z.mult_int_big_int 2 x))
    ((fun x -> Big_int_Z.succ_big_int (Big_int_Z.mult_int_big_int 2 x))
    (Big_int_Z.mult_int_big_int 2
    ((fun x -> Big_int_Z.succ_big_int (Big_int_Z.mult_int_big_int 2 x))
    ((fun x -> Big_int_Z.succ_big_int (Big_int_Z.mult_int_big_int 2 x))
    Big_int_Z.unit_big_int))))))); cp_hrp = ((Big_int_Z.mult_int_big_int 2
    (Big_int_Z.mult_int_big_int 2
    ((fun x -> Big_int_Z.succ_big_int (Big_int_Z.mult_int_big_int 2 x))
    (Big_int_Z.mult_int_big_int 2
    ((fun x -> Big_int_Z.succ_big_int (Big_int_Z.mult_int_big_int 2 x))
    ((fun x -> Big_int_Z.succ_big_int (Big_int_Z.mult_int_big_int 2 x))
    Big_int_Z.unit_big_int)))))) :: ((Big_int_Z.mult_int_big_int 2
    ((fun x -> Big_int_Z.succ_big_int (Big_int_Z.mult_int_big_int 2 x))
    (Big_int_Z.mult_int_big_int 2 (Big_int_Z.mult_int_big_int 2
    (Big_int_Z.mult_int_big_int 2
    ((fun x -> Big_int_Z.succ_big_int (Big_int_Z.mult_int_big_int 2 x))
    Big_int_Z.unit_big_int)))))) :: [])) } :: ({ cp_name =
    ((Big_int_Z.mult_int_big_int 2
    ((fun x -> Big_int_Z.succ_big_int (Big_int_Z.mult_int_big_int 2 x))
    (Big_int_Z.mult_int_big_int 2 (Big_int_Z.mult_int_big_int 2
    ((fun x -> Big_int_Z.succ_big_int (Big_int_Z.mult_int_big_int 2 x))
    ((fun x -> Big_int_Z.succ_big_int (Big_int_Z.mult_int_big_int 2 x))
    Big_int_Z.unit_big_int)))))) :: (((fun x -> Big_int_Z.succ_big_int (Big_int_Z.mult_int_big_int 2 x))
    (Big_int_Z.mult_int_big_int 2
    ((fun x -> Big_int_Z.succ_big_int (Big_int_Z.mult_int_big_int 2 x))
    (Big_int_Z.mult_int_big_int 2 (Big_int_Z.mult_int_big_int 2
    ((fun x -> Big_int_Z.succ_big_int (Big_int_Z.mult_int_big_int 2 x))
    Big_int_Z.unit_big_int)))))) :: (((fun x -> Big_int_Z.succ_big_int (Big_int_Z.mult_int_big_int 2 x))
    ((fun x -> Big_int_Z.succ_big_int (Big_int_Z.mult_int_big_int 2 x))
    ((fun x -> Big_int_Z.succ_big_int (Big_int_Z.mult_int_big_int 2 x))
    (Big_int_Z.mult_int_big_int 2 (Big_int_Z.mult_int_big_int 2
    ((fun x -> Big_int_Z.succ_big_int (Big_int_Z.mult_int_big_int 2 x))
    Big_int_Z.unit_big_int)))))) :: ((Big_int_Z.mult_int_big_int 2
    (Big_int_Z.mult_int_big_int 2
    ((fun x -> Big_int_Z.succ_big_int (Big_int_Z.mult_int_big_int 2 x))
    (Big_int_Z.mult_int_big_int 2
    ((fun x -> Big_int_Z.succ_big_int (Big_int_Z.mult_int_big_int 2 x))
    ((fun x -> Big_int_Z.succ_big_int (Big_int_Z.mult_int_big_int 2 x))
    Big_int_Z.unit_big_int)))))) :: (((fun x -> Big_int_Z.succ_big_int (Big_int_Z.mult_int_big_int 2 x))
    (Big_int_Z.mult_int_big_int 2
    ((fun x -> Big_int_Z.succ_big_int (Big_int_Z.mult_int_big_int 2 x))
    (Big_int_Z.mult_int_big_int 2 (Big_int_Z.mult_int_big_int 2
    ((fun x -> Big_int_Z.succ_big_int (Big_int_Z.mult_int_big_int 2 x))
    Big_int_Z.unit_big_int)))))) :: (((fun x -> Big_int_Z.succ_big_int (Big_int_Z.mult_int_big_int 2 x))
    ((fun x -> Big_int_Z.succ_big_int (Big_int_Z.mult_int_big_int 2 x))
    (Big_int_Z.mult_int_big_int 2 (Big_int_Z.mult_int_big_int 2
    ((fun x -> Big_int_Z.succ_big_int (Big_int_Z.mult_int_big_int 2 x))
    ((fun x -> Big_int_Z.succ_big_int (Big_int_Z.mult_int_big_int 2 x))
    Big_int_Z.unit_big_int)))))) :: ((Big_int_Z.mult_int_big_int 2
    (Big_int_Z.mult_int_big_int 2
    ((fun x -> Big_int_Z.succ_big_int (Big_int_Z.mult_int_big_int 2 x))
    (Big_int_Z.mult_int_big_int 2
    ((fun x -> Big_int_Z.succ_big_int (Big_int_Z.mult_int_big_int 2 x))
    ((fun x -> Big_int_Z.succ_big_int (Big_int_Z.mult_int_big_int 2 x))
    Big_int_Z.unit_big_int)))))) :: []))))))); cp_pow_limit =
    ((fun x -> Big_int_Z.succ_big_int (Big_int_Z.mult_int_big_int 2 x))
    ((fun x -> Big_int_Z.succ_big_int (Big_int_Z.mult_int_big_int 2 x))
    ((fun x -> Big_int_Z.succ_big_int (Big_int_Z.mult_int_big_int 2 x))
    ((fun x -> Big_int_Z.succ_big_int (Big_int_Z.mult_int_big_int 2 x))
    ((fun x -> Big_int_Z.succ_big_int (Big_int_Z.mult_int_big_int 2 x))
    ((fun x -> Big_int_Z.succ_big_int (Big_int_Z.mult_int_big_int 2 x))
    ((fun x -> Big_int_Z.succ_big_int (Big_int_Z.mult_int_big_int 2 x))
    ((fun x -> Big_int_Z.succ_big_int (Big_int_Z.mult_int_big_int 2 x))
    ((fun x -> Big_int_Z.succ_big_int (Big_int_Z.mult_int_big_int 2 x))
    ((fun x -> Big_int_Z.succ_big_int (Big_int_Z.mult_int_big_int 2 x))
    ((fun x -> Big_int_Z.succ_big_int (Big_int_Z.mult_int_big_int 2 x))
    ((fun x -> Big_int_Z.succ_big_int (Big_int_Z.mult_int_big_int 2 x))
    ((fun x -> Big_int_Z.succ_big_int (Big_int_Z.mult_int_big_int 2 x))
    ((fun x -> Big_int_Z.succ_big_int (Big_int_Z.mult_int_big_int 2 x))
    ((fun x -> Big_int_Z.succ_big_int (Big_int_Z.mult_int_big_int 2 x))
    ((fun x -> Big_int_Z.succ_big_int (Big_int_Z.mult_int_big_int 2 x))
    ((fun x -> Big_int_Z.succ_big_int (Big_int_Z.mult_int_big_int 2 x))
    ((fun x -> Big_int_Z.succ_big_int (Big_int_Z.mult_int_big_int 2 x))
    ((fun x -> Big_int_Z.succ_big_int (Big_int_Z.mult_int_big_int 2 x))
    ((fun x -> Big_int_Z.succ_big_int (Big_int_Z.mult_int_big_int 2 x))
    ((fun x -> Big_int_Z.succ_big_int (Big_int_Z.mult_int_big_int 2 x))
    ((fun x -> Big_int_Z.succ_big_int (Big_int_Z.mult_int_big_int 2 x))
    ((fun x -> Big_int_Z.succ_big_int (Big_int_Z.mult_int_big_int 2 x))
    ((fun x -> Big_int_Z.succ_big_int (Big_int_Z.mult_int_big_int 2 x))
    ((fun x -> Big_int_Z.succ_big_int (Big_int_Z.mult_int_big_int 2 x))
    ((fun x -> Big_int_Z.succ_big_int (Big_int_Z.mult_int_big_int 2 x))
    ((fun x -> Big_int_Z.succ_big_int (Big_int_Z.mult_int_big_int 2 x))
    ((fun x -> Big_int_Z.succ_big_int (Big_int_Z.mult_int_big_int 2 x))
    ((fun x -> Big_int_Z.succ_big_int (Big_int_Z.mult_int_big_int 2 x))
    ((fun x -> Big_int_Z.succ_big_int (Big_int_Z.mult_int_big_int 2 x))
    ((fun x -> Big_int_Z.succ_big_int (Big_int_Z.mult_int_big_int 2 x))
    ((fun x -> Big_int_Z.succ_big_int (Big_int_Z.mult_int_big_int 2 x))
    ((fun x -> Big_int_Z.succ_big_int (Big_int_Z.mult_int_big_int 2 x))
    ((fun x -> Big_int_Z.succ_big_int (Big_int_Z.mult_int_big_int 2 x))
    ((fun x -> Big_int_Z.succ_big_int (Big_int_Z.mult_int_big_int 2 x))
    ((fun x -> Big_int_Z.succ_big_int (Big_int_Z.mult_int_big_int 2 x))
    ((fun x -> Big_int_Z.succ_big_int (Big_int_Z.mult_int_big_int 2 x))
    ((fun x -> Big_int_Z.succ_big_int (Big_int_Z.mult_int_big_int 2 x))
    ((fun x -> Big_int_Z.succ_big_int (Big_int_Z.mult_int_big_int 2 x))
    ((fun x -> Big_int_Z.succ_big_int (Big_int_Z.mult_int_big_int 2 x))
    ((fun x -> Big_int_Z.succ_big_int (Big_int_Z.mult_int_big_int 2 x))
    ((fun x -> Big_int_Z.succ_big_int (Big_int_Z.mult_int_big_int 2 x))
    ((fun x -> Big_int_Z.succ_big_int (Big_int_Z.mult_int_big_int 2 x))
    ((fun x -> Big_int_Z.succ_big_int (Big_int_Z.mult_int_big_int 2 x))
    ((fun x -> Big_int_Z.succ_big_int (Big_int_Z.mult_int_big_int 2 x))
    ((fun x -> Big_int_Z.succ_big_int (Big_int_Z.mult_int_big_int 2 x))
    ((fun x -> Big_int_Z.succ_big_int (Big_int_Z.mult_int_big_int 2 x))
    ((fun x -> Big_int_Z.succ_big_int (Big_int_Z.mult_int_big_int 2 x))
    ((fun x -> Big_int_Z.succ_big_int (Big_int_Z.mult_int_big_int 2 x))
    ((fun x -> Big_int_Z.succ_big_int (Big_int_Z.mult_int_big_int 2 x))
    ((fun x -> Big_int_Z.succ_big_int (Big_int_Z.mult_int_big_int 2 x))
    ((fun x -> Big_int_Z.succ_big_int (Big_int_Z.mult_int_big_int 2 x))
    ((fun x -> Big_int_Z.succ_big_int (Big_int_Z.mult_int_big_int 2 x))
    ((fun x -> Big_int_Z.succ_big_int (Big_int_Z.mult_int_big_int 2 x))
    ((fun x -> Big_int_Z.succ_big_int (Big_int_Z.mult_int_big_int 2 x))
    ((fun x -> Big_int_Z.succ_big_int (Big_int_Z.mult_int_big_int 2 x))
    ((fun x -> Big_int_Z.succ_big_int (Big_int_Z.mult_int_big_int 2 x))
    ((fun x -> Big_int_Z.succ_big_int (Big_int_Z.mult_int_big_int 2 x))
    ((fun x -> Big_int_Z.succ_big_int (Big_int_Z.mult_int_big_int 2 x))
    ((fun x -> Big_int_Z.succ_big_int (Big_int_Z.mult_int_big_int 2 x))
    ((fun x -> Big_int_Z.succ_big_int (Big_int_Z.mult_int_big_int 2 x))
    ((fun x -> Big_int_Z.succ_big_int (Big_int_Z.mult_int_big_int 2 x))
    ((fun x -> Big_int_Z.succ_big_int (Big_int_Z.mult_int_big_int 2 x))
    ((fun x -> Big_int_Z.succ_big_int (Big_int_Z.mult_int_big_int 2 x))
    ((fun x -> Big_int_Z.succ_big_int (Big_int_Z.mult_int_big_int 2 x))
    ((fun x -> Big_int_Z.succ_big_int (Big_int_Z.mult_int_big_int 2 x))
    ((fun x -> Big_int_Z.succ_big_int (Big_int_Z.mult_int_big_int 2 x))
    ((fun x -> Big_int_Z.succ_big_int (Big_int_Z.mult_int_big_int 2 x))
    ((fun x -> Big_int_Z.succ_big_int (Big_int_Z.mult_int_big_int 2 x))
    ((fun x -> Big_int_Z.succ_big_int (Big_int_Z.mult_int_big_int 2 x))
    ((fun x -> Big_int_Z.succ_big_int (Big_int_Z.mult_int_big_int 2 x))
    ((fun x -> Big_int_Z.succ_big_int (Big_int_Z.mult_int_big_int 2 x))
    ((fun x -> Big_int_Z.succ_big_int (Big_int_Z.mult_int_big_int 2 x))
    ((fun x -> Big_int_Z.succ_big_int (Big_int_Z.mult_int_big_int 2 x))
    ((fun x -> Big_int_Z.succ_big_int (Big_int_Z.mult_int_big_int 2 x))
    ((fun x -> Big_int_Z.succ_big_int (Big_int_Z.mult_int_big_int 2 x))
    ((fun x -> Big_int_Z.succ_big_int (Big_int_Z.mult_int_big_int 2 x))
    ((fun x -> Big_int_Z.succ_big_int (Big_int_Z.mult_int_big_int 2 x))
    ((fun x -> Big_int_Z.succ_big_int (Big_int_Z.mult_int_big_int 2 x))
    ((fun x -> Big_int_Z.succ_big_int (Big_int_Z.mult_int_big_int 2 x))
    ((fun x -> Big_int_Z.succ_big_int (Big_int_Z.mult_int_big_int 2 x))
    ((fun x -> Big_int_Z.succ_big_int (Big_int_Z.mult_int_big_int 2 x))
    ((fun x -> Big_int_Z.succ_big_int (Big_int_Z.mult_int_big_int 2 x))
    ((fun x -> Big_int_Z.succ_big_int (Big_int_Z.mult_int_big_int 2 x))
    ((fun x -> Big_int_Z.succ_big_int (Big_int_Z.mult_int_big_int 2 x))
    ((fun x -> Big_int_Z.succ_big_int (Big_int_Z.mult_int_big_int 2 x))
    ((fun x -> Big_int_Z.succ_big_int (Big_int_Z.mult_int_big_int 2 x))
    ((fun x -> Big_int_Z.succ_big_int (Big_int_Z.mult_int_big_int 2 x))
    ((fun x -> Big_int_Z.succ_big_int (Big_int_Z.mult_int_big_int 2 x))
    ((fun x -> Big_int_Z.succ_big_int (Big_int_Z.mult_int_big_int 2 x))
    ((fun x -> Big_int_Z.succ_big_int (Big_int_Z.mult_int_big_int 2 x))
    ((fun x -> Big_int_Z.succ_big_int (Big_int_Z.mult_int_big_int 2 x))
    ((fun x -> Big_int_Z.succ_big_int (Big_int_Z.mult_int_big_int 2 x))
    ((fun x -> Big_int_Z.succ_big_int (Big_int_Z.mult_int_big_int 2 x))
    ((fun x -> Big_int_Z.succ_big_int (Big_int_Z.mult_int_big_int 2 x))
    ((fun x -> Big_int_Z.succ_big_int (Big_int_Z.mult_int_big_int 2 x))
    ((fun x -> Big_int_Z.succ_big_int (Big_int_Z.mult_int_big_int 2 x))
    ((fun x -> Big_int_Z.succ_big_int (Big_int_Z.mult_int_big_int 2 x))
    ((fun x -> Big_int_Z.succ_big_int (Big_int_Z.mult_int_big_int 2 x))
    ((fun x -> Big_int_Z.succ_big_int (Big_int_Z.mult_int_big_int 2 x))
    ((fun x -> Big_int_Z.succ_big_int (Big_int_Z.mult_int_big_int 2 x))
    ((fun x -> Big_int_Z.succ_big_int (Big_int_Z.mult_int_big_int 2 x))
    ((fun x -> Big_int_Z.succ_big_int (Big_int_Z.mult_int_big_int 2 x))
    ((fun x -> Big_int_Z.succ_big_int (Big_int_Z.mult_int_big_int 2 x))
    ((fun x -> Big_int_Z.succ_big_int (Big_int_Z.mult_int_big_int 2 x))
    ((fun x -> Big_int_Z.succ_big_int (Big_int_Z.mult_int_big_int 2 x))
    ((fun x -> Big_int_Z.succ_big_int (Big_int_Z.mult_int_big_int 2 x))
    ((fun x -> Big_int_Z.succ_big_int (Big_int_Z.mult_int_big_int 2 x))
    ((fun x -> Big_int_Z.succ_big_int (Big_int_Z.mult_int_big_int 2 x))
    ((fun x -> Big_int_Z.succ_big_int (Big_int_Z.mult_int_big_int 2 x))
    ((fun x -> Big_int_Z.succ_big_int (Big_int_Z.mult_int_big_int 2 x))
    ((fun x -> Big_int_Z.succ_big_int (Big_int_Z.mult_int_big_int 2 x))
    ((fun x -> Big_int_Z.succ_big_int (Big_int_Z.mult_int_big_int 2 x))
    ((fun x -> Big_int_Z.succ_big_int (Big_int_Z.mult_int_big_int 2 x))
    ((fun x -> Big_int_Z.succ_big_int (Big_int_Z.mult_int_big_int 2 x))
    ((fun x -> Big_int_Z.succ_big_int (Big_int_Z.mult_int_big_int 2 x))
    ((fun x -> Big_int_Z.succ_big_int (Big_int_Z.mult_int_big_int 2 x))
    ((fun x -> Big_int_Z.succ_big_int (Big_int_Z.mult_int_big_int 2 x))
    ((fun x -> Big_int_Z.succ_big_int (Big_int_Z.mult_int_big_int 2 x))
    ((fun x -> Big_int_Z.succ_big_int (Big_int_Z.mult_int_big_int 2 x))
    ((fun x -> Big_int_Z.succ_big_int (Big_int_Z.mult_int_big_int 2 x))
    ((fun x -> Big_int_Z.succ_big_int (Big_int_Z.mult_int_big_int 2 x))
    ((fun x -> Big_int_Z.succ_big_int (Big_int_Z.mult_int_big_int 2 x))
    ((fun x -> Big_int_Z.succ_big_int (Big_int_Z.mult_int_big_int 2 x))
    ((fun x -> Big_int_Z.succ_big_int (Big_int_Z.mult_int_big_int 2 x))
    ((fun x -> Big_int_Z.succ_big_int (Big_int_Z.mult_int_big_int 2 x))
    ((fun x -> Big_int_Z.succ_big_int (Big_int_Z.mult_int_big_int 2 x))
    ((fun x -> Big_int_Z.succ_big_int (Big_int_Z.mult_int_big_int 2 x))
    ((fun x -> Big_int_Z.succ_big_int (Big_int_Z.mult_int_big_int 2 x))
    ((fun x -> Big_int_Z.succ_big_int (Big_int_Z.mult_int_big_int 2 x))
    ((fun x -> Big_int_Z.succ_big_int (Big_int_Z.mult_int_big_int 2 x))
    ((fun x -> Big_int_Z.succ_big_int (Big_int_Z.mult_int_big_int 2 x))
    ((fun x -> Big_int_Z.succ_big_int (Big_int_Z.mult_int_big_int 2 x))
    ((fun x -> Big_int_Z.succ_big_int (Big_int_Z.mult_int_big_int 2 x))
    ((fun x -> Big_int_Z.succ_big_int (Big_int_Z.mult_int_big_int 2 x))
    ((fun x -> Big_int_Z.succ_big_int (Big_int_Z.mult_int_big_int 2 x))
    ((fun x -> Big_int_Z.succ_big_int (Big_int_Z.mult_int_big_int 2 x))
    ((fun x -> Big_int_Z.succ_big_int (Big_int_Z.mult_int_big_int 2 x))
    ((fun x -> Big_int_Z.succ_big_int (Big_int_Z.mult_int_big_int 2 x))
    ((fun x -> Big_int_Z.succ_big_int (Big_int_Z.mult_int_big_int 2 x))
    ((fun x -> Big_int_Z.succ_big_int (Big_int_Z.mult_int_big_int 2 x))
    ((fun x -> Big_int_Z.succ_big_int (Big_int_Z.mult_int_big_int 2 x))
    ((fun x -> Big_int_Z.succ_big_int (Big_int_Z.mult_int_big_int 2 x))
    ((fun x -> Big_int_Z.succ_big_int (Big_int_Z.mult_int_big_int 2 x))
    ((fun x -> Big_int_Z.succ_big_int (Big_int_Z.mult_int_big_int 2 x))
    ((fun x -> Big_int_Z.succ_big_int (Big_int_Z.mult_int_big_int 2 x))
    ((fun x -> Big_int_Z.succ_big_int (Big_int_Z.mult_int_big_int 2 x))
    ((fun x -> Big_int_Z.succ_big_int (Big_int_Z.mult_int_big_int 2 x))
    ((fun x -> Big_int_Z.succ_big_int (Big_int_Z.mult_int_big_int 2 x))
    ((fun x -> Big_int_Z.succ_big_int (Big_int_Z.mult_int_big_int 2 x))
    ((fun x -> Big_int_Z.succ_big_int (Big_int_Z.mult_int_big_int 2 x))
    ((fun x -> Big_int_Z.succ_big_int (Big_int_Z.mult_int_big_int 2 x))
    ((fun x -> Big_int_Z.succ_big_int (Big_int_Z.mult_int_big_int 2 x))
    ((fun x -> Big_int_Z.succ_big_int (Big_int_Z.mult_int_big_int 2 x))
    ((fun x -> Big_int_Z.succ_big_int (Big_int_Z.mult_int_big_int 2 x))
    ((fun x -> Big_int_Z.succ_big_int (Big_int_Z.mult_int_big_int 2 x))
    ((fun x -> Big_int_Z.succ_big_int (Big_int_Z.mult_int_big_int 2 x))
    ((fun x -> Big_int_Z.succ_big_int (Big_int_Z.mult_int_big_int 2 x))
    ((fun x -> Big_int_Z.succ_big_int (Big_int_Z.mult_int_big_int 2 x))
    ((fun x -> Big_int_Z.succ_big_int (Big_int_Z.mult_int_big_int 2 x))
    ((fun x -> Big_int_Z.succ_big_int (Big_int_Z.mult_int_big_int 2 x))
    ((fun x -> Big_int_Z.succ_big_int (Big_int_Z.mult_int_big_int 2 x))
    ((fun x -> Big_int_Z.succ_big_int (Big_int_Z.mult_int_big_int 2 x))
    ((fun x -> Big_int_Z.succ_big_int (Big_int_Z.mult_int_big_int 2 x))
    ((fun x -> Big_int_Z.succ_big_int (Big_int_Z.mult_int_big_int 2 x))
    ((fun x -> Big_int_Z.succ_big_int (Big_int_Z.mult_int_big_int 2 x))
    ((fun x -> Big_int_Z.succ_big_int (Big_int_Z.mult_int_big_int 2 x))
    ((fun x -> Big_int_Z.succ_big_int (Big_int_Z.mult_int_big_int 2 x))
    ((fun x -> Big_int_Z.succ_big_int (Big_int_Z.mult_int_big_int 2 x))
    ((fun x -> Big_int_Z.succ_big_int (Big_int_Z.mult_int_big_int 2 x))
    ((fun x -> Big_int_Z.succ_big_int (Big_int_Z.mult_int_big_int 2 x))
    ((fun x -> Big_int_Z.succ_big_int (Big_int_Z.mult_int_big_int 2 x))
    ((fun x -> Big_int_Z.succ_big_int (Big_int_Z.mult_int_big_int 2 x))
    ((fun x -> Big_int_Z.succ_big_int (Big_int_Z.mult_int_big_int 2 x))
    ((fun x -> Big_int_Z.succ_big_int (Big_int_Z.mult_int_big_int 2 x))
    ((fun x -> Big_int_Z.succ_big_int (Big_int_Z.mult_int_big_int 2 x))
    ((fun x -> Big_int_Z.succ_big_int (Big_int_Z.mult_int_big_int 2 x))
    ((fun x -> Big_int_Z.succ_big_int (Big_int_Z.mult_int_big_int 2 x))
    ((fun x -> Big_int_Z.succ_big_int (Big_int_Z.mult_int_big_int 2 x))
    ((fun x -> Big_int_Z.succ_big_int (Big_int_Z.mult_int_big_int 2 x))
    ((fun x -> Big_int_Z.succ_big_int (Big_int_Z.mult_int_big_int 2 x))
    ((fun x -> Big_int_Z.succ_big_int (Big_int_Z.mult_int_big_int 2 x))
    ((fun x -> Big_int_Z.succ_big_int (Big_int_Z.mult_int_big_int 2 x))
    ((fun x -> Big_int_Z.succ_big_int (Big_int_Z.mult_int_big_int 2 x))
    ((fun x -> Big_int_Z.succ_big_int (Big_int_Z.mult_int_big_int 2 x))
    ((fun x -> Big_int_Z.succ_big_int (Big_int_Z.mult_int_big_int 2 x))
    ((fun x -> Big_int_Z.succ_big_int (Big_int_Z.mult_int_big_int 2 x))
    ((fun x -> Big_int_Z.succ_big_int (Big_int_Z.mult_int_big_int 2 x))
    ((fun x -> Big_int_Z.succ_big_int (Big_int_Z.mult_int_big_int 2 x))
    ((fun x -> Big_int_Z.succ_big_int (Big_int_Z.mult_int_big_int 2 x))
    ((fun x -> Big_int_Z.succ_big_int (Big_int_Z.mult_int_big_int 2 x))
    ((fun x -> Big_int_Z.succ_big_int (Big_int_Z.mult_int_big_int 2 x))
    ((fun x -> Big_int_Z.succ_big_int (Big_int_Z.mult_int_big_int 2 x))
    ((fun x -> Big_int_Z.succ_big_int (Big_int_Z.mult_int_big_int 2 x))
    ((fun x -> Big_int_Z.succ_big_int (Big_int_Z.mult_int_big_int 2 x))
    ((fun x -> Big_int_Z.succ_big_int (Big_int_Z.mult_int_big_int 2 x))
    ((fun x -> Big_int_Z.succ_big_int (Big_int_Z.mult_int_big_int 2 x))
    ((fun x -> Big_int_Z.succ_big_int (Big_int_Z.mult_int_big_int 2 x))
    ((fun x -> Big_int_Z.succ_big_int (Big_int_Z.mult_int_big_int 2 x))
    ((fun x -> Big_int_Z.succ_big_int (Big_int_Z.mult_int_big_int 2 x))
    ((fun x -> Big_int_Z.succ_big_int (Big_int_Z.mult_int_big_int 2 x))
    ((fun x -> Big_int_Z.succ_big_int (Big_int_Z.mult_int_big_int 2 x))
    ((fun x -> Big_int_Z.succ_big_int (Big_int_Z.mult_int_big_int 2 x))
    ((fun x -> Big_int_Z.succ_big_int (Big_int_Z.mult_int_big_int 2 x))
    ((fun x -> Big_int_Z.succ_big_int (Big_int_Z.mult_int_big_int 2 x))
    ((fun x -> Big_int_Z.succ_big_int (Big_int_Z.mult_int_big_int 2 x))
    ((fun x -> Big_int_Z.succ_big_int (Big_int_Z.mult_int_big_int 2 x))
    ((fun x -> Big_int_Z.succ_big_int (Big_int_Z.mult_int_big_int 2 x))
    ((fun x -> Big_int_Z.succ_big_int (Big_int_Z.mult_int_big_int 2 x))
    ((fun x -> Big_int_Z.succ_big_int (Big_int_Z.mult_int_big_int 2 x))
    ((fun x -> Big_int_Z.succ_big_int (Big_int_Z.mult_int_big_int 2 x))
    ((fun x -> Big_int_Z.succ_big_int (Big_int_Z.mult_int_big_int 2 x))
    ((fun x -> Big_int_Z.succ_big_int (Big_int_Z.mult_int_big_int 2 x))
    ((fun x -> Big_int_Z.succ_big_int (Big_int_Z.mult_int_big_int 2 x))
    ((fun x -> Big_int_Z.succ_big_int (Big_int_Z.mult_int_big_int 2 x))
    ((fun x -> Big_int_Z.succ_big_int (Big_int_Z.mult_int_big_int 2 x))
    ((fun x -> Big_int_Z.succ_big_int (Big_int_Z.mult_int_big_int 2 x))
    ((fun x -> Big_int_Z.succ_big_int (Big_int_Z.mult_int_big_int 2 x))
    ((fun x -> Big_int_Z.succ_big_int (Big_int_Z.mult_int_big_int 2 x))
    ((fun x -> Big_int_Z.succ_big_int (Big_int_Z.mult_int_big_int 2 x))
    ((fun x -> Big_int_Z.succ_big_int (Big_int_Z.mult_int_big_int 2 x))
    ((fun x -> Big_int_Z.succ_big_int (Big_int_Z.mult_int_big_int 2 x))
    ((fun x -> Big_int_Z.succ_big_int (Big_int_Z.mult_int_big_int 2 x))
    ((fun x -> Big_int_Z.succ_big_int (Big_int_Z.mult_int_big_int 2 x))
    ((fun x -> Big_int_Z.succ_big_int (Big_int_Z.mult_int_big_int 2 x))
    ((fun x -> Big_int_Z.succ_big_int (Big_int_Z.mult_int_big_int 2 x))
    ((fun x -> Big_int_Z.succ_big_int (Big_int_Z.mult_int_big_int 2 x))
    ((fun x -> Big_int_Z.succ_big_int (Big_int_Z.mult_int_big_int 2 x))
    ((fun x -> Big_int_Z.succ_big_int (Big_int_Z.mult_int_big_int 2 x))
    ((fun x -> Big_int_Z.succ_big_int (Big_int_Z.mult_int_big_int 2 x))
    ((fun x -> Big_int_Z.succ_big_int (Big_int_Z.mult_int_big_int 2 x))
    ((fun x -> Big_int_Z.succ_big_int (Big_int_Z.mult_int_big_int 2 x))
    ((fun x -> Big_int_Z.succ_big_int (Big_int_Z.mult_int_big_int 2 x))
    ((fun x -> Big_int_Z.succ_big_int (Big_int_Z.mult_int_big_int 2 x))
    ((fun x -> Big_int_Z.succ_big_int (Big_int_Z.mult_int_big_int 2 x))
    ((fun x -> Big_int_Z.succ_big_int (Big_int_Z.mult_int_big_int 2 x))
    ((fun x -> Big_int_Z.succ_big_int (Big_int_Z.mult_int_big_int 2 x))
    ((fun x -> Big_int_Z.succ_big_int (Big_int_Z.mult_int_big_int 2 x))
    ((fun x -> Big_int_Z.succ_big_int (Big_int_Z.mult_int_big_int 2 x))
    ((fun x -> Big_int_Z.succ_big_int (Big_int_Z.mult_int_big_int 2 x))
    ((fun x -> Big_int_Z.succ_big_int (Big_int_Z.mult_int_big_int 2 x))
    ((fun x -> Big_int_Z.succ_big_int (Big_int_Z.mult_int_big_int 2 x))
    ((fun x -> Big_int_Z.succ_big_int (Big_int_Z.mult_int_big_int 2 x))
    ((fun x -> Big_int_Z.succ_big_int (Big_int_Z.mult_int_big_int 2 x))
    ((fun x -> Big_int_Z.succ_big_int (Big_int_Z.mult_int_big_int 2 x))
    ((fun x -> Big_int_Z.succ_big_int (Big_int_Z.mult_int_big_int 2 x))
    ((fun x -> Big_int_Z.succ_big_int (Big_int_Z.mult_int_big_int 2 x))
    ((fun x -> Big_int_Z.succ_big_int (Big_int_Z.mult_int_big_int 2 x))
    ((fun x -> Big_int_Z.succ_big_int (Big_int_Z.mult_int_big_int 2 x))
    ((fun x -> Big_int_Z.succ_big_int (Big_int_Z.mult_int_big_int 2 x))
    ((fun x -> Big_int_Z.succ_big_int (Big_int_Z.mult_int_big_int 2 x))
    ((fun x -> Big_int_Z.succ_big_int (Big_int_Z.mult_int_big_int 2 x))
    ((fun x -> Big_int_Z.succ_big_int (Big_int_Z.mult_int_big_int 2 x))
    ((fun x -> Big_int_Z.succ_big_int (Big_int_Z.mult_int_big_int 2 x))
    Big_int_Z.unit_big_int))))))))))))))))))))))))))))))))))))))))))))))))))))))))))))))))))))))))))))))))))))))))))))))))))))))))))))))))))))))))))))))))))))))))))))))))))))))))))))))))))))))))))))))))))))))))))))))))))))))))))))))))))))))))))))))))))))))))))))))))))))))))))))));
    cp_max_money = (Big_int_Z.mult_int_big_int 2
    (Big_int_Z.mult_int_big_int 2 (Big_int_Z.mult_int_big_int 2
    (Big_int_Z.mult_int_big_int 2 (Big_int_Z.mult_int_big_int 2
    (Big_int_Z.mult_int_big_int 2 (Big_int_Z.mult_int_big_int 2
    (Big_int_Z.mult_int_big_int 2 (Big_int_Z.mult_int_big_int 2
    (Big_int_Z.mult_int_big_int 2 (Big_int_Z.mult_int_big_int 2
    (Big_int_Z.mult_int_big_int 2 (Big_int_Z.mult_int_big_int 2
    (Big_int_Z.mult_int_big_int 2
    ((fun x -> Big_int_Z.succ_big_int (Big_int_Z.mult_int_big_int 2 x))
    (Big_int_Z.mult_int_big_int 2
    ((fun x -> Big_int_Z.succ_big_int (Big_int_Z.mult_int_big_int 2 x))
    ((fun x -> Big_int_Z.succ_big_int (Big_int_Z.mult_int_big_int 2 x))
    ((fun x -> Big_int_Z.succ_big_int (Big_int_Z.mult_int_big_int 2 x))
    (Big_int_Z.mult_int_big_int 2 (Big_int_Z.mult_int_big_int 2
    (Big_int_Z.mult_int_big_int 2 (Big_int_Z.mult_int_big_int 2
    (Big_int_Z.mult_int_big_int 2 (Big_int_Z.mult_int_big_int 2
    ((fun x -> Big_int_Z.succ_big_int (Big_int_Z.mult_int_big_int 2 x))
    (Big_int_Z.mult_int_big_int 2
    ((fun x -> Big_int_Z.succ_big_int (Big_int_Z.mult_int_big_int 2 x))
    ((fun x -> Big_int_Z.succ_big_int (Big_int_Z.mult_int_big_int 2 x))
    (Big_int_Z.mult_int_big_int 2
    ((fun x -> Big_int_Z.succ_big_int (Big_int_Z.mult_int_big_int 2 x))
    (Big_int_Z.mult_int_big_int 2 (Big_int_Z.mult_int_big_int 2
    (Big_int_Z.mult_int_big_int 2 (Big_int_Z.mult_int_big_int 2
    (Big_int_Z.mult_int_big_int 2
    ((fun x -> Big_int_Z.succ_big_int (Big_int_Z.mult_int_big_int 2 x))
    ((fun x -> Big_int_Z.succ_big_int (Big_int_Z.mult_int_big_int 2 x))
    ((fun x -> Big_int_Z.succ_big_int (Big_int_Z.mult_int_big_int 2 x))
    ((fun x -> Big_int_Z.succ_big_int (Big_int_Z.mult_int_big_int 2 x))
    ((fun x -> Big_int_Z.succ_big_int (Big_int_Z.mult_int_big_int 2 x))
    (Big_int_Z.mult_int_big_int 2
    ((fun x -> Big_int_Z.succ_big_int (Big_int_Z.mult_int_big_int 2 x))
    (Big_int_Z.mult_int_big_int 2
    ((fun x -> Big_int_Z.succ_big_int (Big_int_Z.mult_int_big_int 2 x))
    ((fun x -> Big_int_Z.succ_big_int (Big_int_Z.mult_int_big_int 2 x))
    ((fun x -> Big_int_Z.succ_big_int (Big_int_Z.mult_int_big_int 2 x))
    (Big_int_Z.mult_int_big_int 2
    ((fun x -> Big_int_Z.succ_big_int (Big_int_Z.mult_int_big_int 2 x))
    ((fun x -> Big_int_Z.succ_big_int (Big_int_Z.mult_int_big_int 2 x))
    Big_int_Z.unit_big_int))))))))))))))))))))))))))))))))))))))))))))))))));
    cp_magic = (Xfa :: (Xbf :: (Xb5 :: (Xda :: [])))); cp_pubkey_addr =
    ((fun x -> Big_int_Z.succ_big_int (Big_int_Z.mult_int_big_int 2 x))
    ((fun x -> Big_int_Z.succ_big_int (Big_int_Z.mult_int_big_int 2 x))
    ((fun x -> Big_int_Z.succ_big_int (Big_int_Z.mult_int_big_int 2 x))
    ((fun x -> Big_int_Z.succ_big_int (Big_int_Z.mult_int_big_int 2 x))
    (Big_int_Z.mult_int_big_int 2
    ((fun x -> Big_int_Z.succ_big_int (Big_int_Z.mult_int_big_int 2 x))
    Big_int_Z.unit_big_int)))))); cp_script_addr =
    (Big_int_Z.mult_int_big_int 2 (Big_int_Z.mult_int_big_int 2
    ((fun x -> Big_int_Z.succ_big_int (Big_int_Z.mult_int_big_int 2 x))
    (Big_int_Z.mult_int_big_int 2 (Big_int_Z.mult_int_big_int 2
    (Big_int_Z.mult_int_big_int 2
    ((fun x -> Big_int_Z.succ_big_int (Big_int_Z.mult_int_big_int 2 x))
    Big_int_Z.unit_big_int))))))); cp_secret_key =
    ((fun x -> Big_int_Z.succ_big_int (Big_int_Z.mult_int_big_int 2 x))
    ((fun x -> Big_int_Z.succ_big_int (Big_int_Z.mult_int_big_int 2 x))
    ((fun x -> Big_int_Z.succ_big_int (Big_int_Z.mult_int_big_int 2 x))
    ((fun x -> Big_int_Z.succ_big_int (Big_int_Z.mult_int_big_int 2 x))
    (Big_int_Z.mult_int_big_int 2
    ((fun x -> Big_int_Z.succ_big_int (Big_int_Z.mult_int_big_int 2 x))
    ((fun x -> Big_int_Z.succ_big_int (Big_int_Z.mult_int_big_int 2 x))
    Big_int_Z.unit_big_int))))))); cp_hrp = ((Big_int_Z.mult_int_big_int 2
    ((fun x -> Big_int_Z.succ_big_int (Big_int_Z.mult_int_big_int 2 x))
    (Big_int_Z.mult_int_big_int 2 (Big_int_Z.mult_int_big_int 2
    (Big_int_Z.mult_int_big_int 2
    ((fun x -> Big_int_Z.succ_big_int (Big_int_Z.mult_int_big_int 2 x))
    Big_int_Z.unit_big_int)))))) :: (((fun x -> Big_int_Z.succ_big_int (Big_int_Z.mult_int_big_int 2 x))
    ((fun x -> Big_int_Z.succ_big_int (Big_int_Z.mult_int_big_int 2 x))
    (Big_int_Z.mult_int_big_int 2 (Big_int_Z.mult_int_big_int 2
    (Big_int_Z.mult_int_big_int 2
    ((fun x -> Big_int_Z.succ_big_int (Big_int_Z.mult_int_big_int 2 x))
    Big_int_Z.unit_big_int)))))) :: ((Big_int_Z.mult_int_big_int 2
    ((fun x -> Big_int_Z.succ_big_int (Big_int_Z.mult_int_big_int 2 x))
    (Big_int_Z.mult_int_big_int 2 (Big_int_Z.mult_int_big_int 2
    ((fun x -> Big_int_Z.succ_big_int (Big_int_Z.mult_int_big_int 2 x))
    ((fun x -> Big_int_Z.succ_big_int (Big_int_Z.mult_int_big_int 2 x))
    Big_int_Z.unit_big_int)))))) :: ((Big_int_Z.mult_int_big_int 2
    (Big_int_Z.mult_int_big_int 2
    ((fun x -> Big_int_Z.succ_big_int (Big_int_Z.mult_int_big_int 2 x))
    (Big_int_Z.mult_int_big_int 2
    ((fun x -> Big_int_Z.succ_big_int (Big_int_Z.mult_int_big_int 2 x))
    ((fun x -> Big_int_Z.succ_big_int (Big_int_Z.mult_int_big_int 2 x))
    Big_int_Z.unit_big_int)))))) :: [])))) } :: [])))

(** val unconstrained : val0 **)

let unconstrained =
  VErr Big_int_Z.zero_big_int

(** val bad_args : val0 **)

let bad_args =
  VErr (Big_int_Z.mult_int_big_int 2
    ((fun x -> Big_int_Z.succ_big_int (Big_int_Z.mult_int_big_int 2 x))
    ((fun x -> Big_int_Z.succ_big_int (Big_int_Z.mult_int_big_int 2 x))
    (Big_int_Z.mult_int_big_int 2 (Big_int_Z.mult_int_big_int 2
    ((fun x -> Big_int_Z.succ_big_int (Big_int_Z.mult_int_big_int 2 x))
    ((fun x -> Big_int_Z.succ_big_int (Big_int_Z.mult_int_big_int 2 x))
    ((fun x -> Big_int_Z.succ_big_int (Big_int_Z.mult_int_big_int 2 x))
    ((fun x -> Big_int_Z.succ_big_int (Big_int_Z.mult_int_big_int 2 x))
    Big_int_Z.unit_big_int)))))))))

(** val run_C17 : Big_int_Z.big_int -> val0 list -> val0 **)

let run_C17 op args =
  (fun fO fp fn z -> let s = Big_int_Z.sign_big_int z in
  if s = 0 then fO () else if s > 0 then fp z
  else fn (Big_int_Z.minus_big_int z))
    (fun _ -> bad_args)
    (fun p ->
    (fun f2p1 f2p f1 p ->
  if Big_int_Z.le_big_int p Big_int_Z.unit_big_int then f1 () else
  let (q,r) = Big_int_Z.quomod_big_int p (Big_int_Z.big_int_of_int 2) in
  if Big_int_Z.eq_big_int r Big_int_Z.zero_big_int then f2p q else f2p1 q)
      (fun p0 ->
      (fun f2p1 f2p f1 p ->
  if Big_int_Z.le_big_int p Big_int_Z.unit_big_int then f1 () else
  let (q,r) = Big_int_Z.quomod_big_int p (Big_int_Z.big_int_of_int 2) in
  if Big_int_Z.eq_big_int r Big_int_Z.zero_big_int then f2p q else f2p1 q)
        (fun _ -> bad_args)
        (fun _ -> bad_args)
        (fun _ ->
        match args with
        | [] -> bad_args
        | v :: l ->
          (match v with
           | VInt chain ->
             (match l with
              | [] -> bad_args
              | v0 :: l0 ->
                (match v0 with
                 | VBytes h ->
                   (match l0 with
                    | [] -> bad_args
                    | v1 :: l1 ->
                      (match v1 with
                       | VInt c ->
                         (match l1 with
                          | [] ->
                            (match nth_error chains (Z.to_nat chain) with
                             | Some p1 ->
                               VList
                                 ((vres (fun _ -> VInt
                                    Big_int_Z.zero_big_int)
                                    (check_pow p1.cp_pow_limit h c)) :: ((
                                 if (&&)
                                      ((&&)
                                        (Nat.eqb (length h) (S (S (S (S (S (S
                                          (S (S (S (S (S (S (S (S (S (S (S (S
                                          (S (S (S (S (S (S (S (S (S (S (S (S
                                          (S (S
                                          O)))))))))))))))))))))))))))))))))
                                        (Z.leb Big_int_Z.zero_big_int c))
                                      (Z.ltb c
                                        (Z.pow (Big_int_Z.mult_int_big_int 2
                                          Big_int_Z.unit_big_int)
                                          (Big_int_Z.mult_int_big_int 2
                                          (Big_int_Z.mult_int_big_int 2
                                          (Big_int_Z.mult_int_big_int 2
                                          (Big_int_Z.mult_int_big_int 2
                                          (Big_int_Z.mult_int_big_int 2
                                          Big_int_Z.unit_big_int)))))))
                                 then if pow_okb p1.cp_pow_limit h c
                                      then VInt Big_int_Z.zero_big_int
                                      else verr CheckPowErr
                                 else unconstrained) :: []))
                             | None -> bad_args)
                          | _ :: _ -> bad_args)
                       | _ -> bad_args))
                 | _ -> bad_args))
           | _ -> bad_args))
        p0)
      (fun p0 ->
      (fun f2p1 f2p f1 p ->
  if Big_int_Z.le_big_int p Big_int_Z.unit_big_int then f1 () else
  let (q,r) = Big_int_Z.quomod_big_int p (Big_int_Z.big_int_of_int 2) in
  if Big_int_Z.eq_big_int r Big_int_Z.zero_big_int then f2p q else f2p1 q)
        (fun _ -> bad_args)
        (fun p1 ->
        (fun f2p1 f2p f1 p ->
  if Big_int_Z.le_big_int p Big_int_Z.unit_big_int then f1 () else
  let (q,r) = Big_int_Z.quomod_big_int p (Big_int_Z.big_int_of_int 2) in
  if Big_int_Z.eq_big_int r Big_int_Z.zero_big_int then f2p q else f2p1 q)
          (fun _ -> bad_args)
          (fun _ -> bad_args)
          (fun _ ->
          match args with
          | [] -> bad_args
          | v :: l ->
            (match v with
             | VBytes s ->
               (match l with
                | [] ->
                  VList
                    ((vres (fun x -> VInt x) (uint256_from_str s)) :: ((
                    if Nat.eqb (length s) (S (S (S (S (S (S (S (S (S (S (S (S
                         (S (S (S (S (S (S (S (S (S (S (S (S (S (S (S (S (S
                         (S (S (S O))))))))))))))))))))))))))))))))
                    then VInt (le256 s)
                    else unconstrained) :: []))
                | _ :: _ -> bad_args)
             | _ -> bad_args))
          p1)
        (fun _ ->
        match args with
        | [] -> bad_args
        | v0 :: l ->
          (match v0 with
           | VInt v ->
             (match l with
              | [] ->
                let c = to_compact v in
                VList ((VInt
                c) :: ((if (&&) (Z.leb Big_int_Z.zero_big_int v)
                             (Z.ltb v
                               (Z.pow (Big_int_Z.mult_int_big_int 2
                                 Big_int_Z.unit_big_int)
                                 (Big_int_Z.mult_int_big_int 2
                                 (Big_int_Z.mult_int_big_int 2
                                 (Big_int_Z.mult_int_big_int 2
                                 (Big_int_Z.mult_int_big_int 2
                                 (Big_int_Z.mult_int_big_int 2
                                 (Big_int_Z.mult_int_big_int 2
                                 (Big_int_Z.mult_int_big_int 2
                                 (Big_int_Z.mult_int_big_int 2
                                 Big_int_Z.unit_big_int))))))))))
                        then VList
                               ((vbool (canonical c)) :: ((vbool (c_sign c)) :: ((VInt
                               (trunc3 v)) :: [])))
                        else unconstrained) :: ((VInt
                (from_compact c)) :: [])))
              | _ :: _ -> bad_args)
           | _ -> bad_args))
        p0)
      (fun _ ->
      match args with
      | [] -> bad_args
      | v :: l ->
        (match v with
         | VInt c ->
           (match l with
            | [] ->
              VList ((VInt
                (from_compact c)) :: ((if (&&)
                                            ((&&)
                                              (Z.leb Big_int_Z.zero_big_int c)
                                              (Z.ltb c
                                                (Z.pow
                                                  (Big_int_Z.mult_int_big_int 2
                                                  Big_int_Z.unit_big_int)
                                                  (Big_int_Z.mult_int_big_int 2
                                                  (Big_int_Z.mult_int_big_int 2
                                                  (Big_int_Z.mult_int_big_int 2
                                                  (Big_int_Z.mult_int_big_int 2
                                                  (Big_int_Z.mult_int_big_int 2
                                                  Big_int_Z.unit_big_int))))))))
                                            (negb (c_sign c))
                                       then VInt (spec_decode c)
                                       else unconstrained) :: []))
            | _ :: _ -> bad_args)
         | _ -> bad_args))
      p)
    (fun _ -> bad_args)
    op

(** val dispatch : Big_int_Z.big_int -> val0 list -> val0 **)

let dispatch engine args =
  let prop =
    Z.div engine (Big_int_Z.mult_int_big_int 2 (Big_int_Z.mult_int_big_int 2
      ((fun x -> Big_int_Z.succ_big_int (Big_int_Z.mult_int_big_int 2 x))
      (Big_int_Z.mult_int_big_int 2 (Big_int_Z.mult_int_big_int 2
      ((fun x -> Big_int_Z.succ_big_int (Big_int_Z.mult_int_big_int 2 x))
      Big_int_Z.unit_big_int))))))
  in
  let op =
    Z.modulo engine (Big_int_Z.mult_int_big_int 2
      (Big_int_Z.mult_int_big_int 2
      ((fun x -> Big_int_Z.succ_big_int (Big_int_Z.mult_int_big_int 2 x))
      (Big_int_Z.mult_int_big_int 2 (Big_int_Z.mult_int_big_int 2
      ((fun x -> Big_int_Z.succ_big_int (Big_int_Z.mult_int_big_int 2 x))
      Big_int_Z.unit_big_int))))))
  in
  if Z.eqb prop
       ((fun x -> Big_int_Z.succ_big_int (Big_int_Z.mult_int_big_int 2 x))
       (Big_int_Z.mult_int_big_int 2 (Big_int_Z.mult_int_big_int 2
       (Big_int_Z.mult_int_big_int 2 Big_int_Z.unit_big_int))))
  then run_C17 op args
  else VErr
         ((fun x -> Big_int_Z.succ_big_int (Big_int_Z.mult_int_big_int 2 x))
         (Big_int_Z.mult_int_big_int 2
         ((fun x -> Big_int_Z.succ_big_int (Big_int_Z.mult_int_big_int 2 x))
         (Big_int_Z.mult_int_big_int 2 (Big_int_Z.mult_int_big_int 2
         ((fun x -> Big_int_Z.succ_big_int (Big_int_Z.mult_int_big_int 2 x))
         ((fun x -> Big_int_Z.succ_big_int (Big_int_Z.mult_int_big_int 2 x))
         ((fun x -> Big_int_Z.succ_big_int (Big_int_Z.mult_int_big_int 2 x))
         ((fun x -> Big_int_Z.succ_big_int (Big_int_Z.mult_int_big_int 2 x))
         Big_int_Z.unit_big_int)))))))))
