(* Run/C03.v – correspondence engines for C03 (legacy signature hash), H = double SHA-256.
   301  raw form     [script; tx; idx; hashtype]  ->  [digest; error flag]   (or the exception)
   302  cooked form  [script; tx; idx; hashtype]  ->  digest | e<ValueError> | e<...>
   The verdict is computed from Spec/Sighash.v (legacy_sighash) alone and only inside the
   property's quantifier: fields in wire range, a subscript that parses (reference walk),
   idx >= 0, hash type a byte.  IMPL appends nothing else; an IMPL that modified its
   argument reports a different shape (see tools/impl/C03.py) and so disagrees with both. *)
From BV Require Import Common.Base Common.Hash Common.Codec Common.Tx Spec.Wire Spec.Script Spec.Sighash
  Model.Sighash Run.TxVal.

Definition sighash_tx_okb (t : tx) : bool :=
  in_ib 4 (tx_version t) && in_ub 4 (tx_lock t) &&
  forallb (fun x => (length (op_hash (ti_prevout x)) =? 32)%nat && in_ub 4 (op_n (ti_prevout x)) && in_ub 4 (ti_seq x)) (tx_vin t) &&
  forallb (fun o => in_ib 8 (to_value o)) (tx_vout t).
Definition c03_constrained (script : bytes) (t : tx) (idx ht : Z) : bool :=
  sighash_tx_okb t && parses script && (0 <=? idx) && (0 <=? ht) && (ht <? 256).
Definition raw_val (r : bytes * bool) : val := VList [VBytes (fst r); vbool (snd r)].
Definition witness_shaped (script : bytes) : bool := ref_is_witness script.

Definition run_C03 (op : Z) (args : list val) : val :=
  match op, args with
  | 1, [VBytes script; tv; VInt idx; VInt ht; impl] =>
      match tx_of_val tv with
      | Some t =>
          VList [vres raw_val (raw_sighash sha256d script t idx ht);
                 if c03_constrained script t idx ht
                 then judge impl (raw_val (legacy_sighash sha256d script t (Z.to_nat idx) ht))
                 else unconstrained]
      | None => bad_args end
  | 2, [VBytes script; tv; VInt idx; VInt ht; impl] =>
      match tx_of_val tv with
      | Some t =>
          VList [vres VBytes (signature_hash sha256d script t idx ht);
                 if c03_constrained script t idx ht
                 then let r := legacy_sighash sha256d script t (Z.to_nat idx) ht in
                      judge impl (if snd r then verr ValueError else VBytes (fst r))
                 else unconstrained;
                 vbool (witness_shaped script)]
      | None => bad_args end
  | _, _ => bad_args
  end.
