(* Run/C07.v – correspondence engine for C07: VerifyScript on arbitrary byte strings with the
   REAL _CheckSig (wrapped only to record its answers as the oracle table), real
   transactions, in- and out-of-range input indices.  IMPL's observation is
     [outcome; oracle table; side-effect flag; captured error state]
   the model echoes the oracle table and the side-effect flag (it is a pure function),
   recomputes the outcome (Model/ScriptEval.v verify_script) and recomputes the captured error
   state with the instrumented interpreter (Model/ScriptEvalSt.v verify_script_st):
     [len(e.stack) + len(e.altstack); e.nOpCount; e.pbegincodehash; e.sop_pc; len(e.scriptIn)]
   for an EvalScriptError raised through err_raiser by whichever of the three evaluations
   failed, [] otherwise (normal return, VerifyScriptError, or an EvalScriptError raised outside
   the loop, whose altstack / nOpCount / sop_pc are None).  So the state that
   C07_error_state_bounds bounds is compared with IMPL's on every case. *)
From BV Require Import Common.Base Common.Hash Common.Tx Common.ScriptFlags Model.Script Model.ScriptEval Model.ScriptEvalSt Spec.ScriptRef Run.TxVal Run.C06.

(* the limits of Props/C07.v C07_error_state_bounds (1000 + 3, 201 + 20: both attained) *)
Definition err_state_ok (v : val) : bool :=
  match v with
  | VList [] => true                                  (* no EvalScriptError state captured *)
  | VList [VInt items; VInt nop; VInt pbegin; VInt pc; VInt slen] =>
      (items <=? 1000 + 3) && (0 <=? nop) && (nop <=? 201 + 20) && (0 <=? pbegin) && (pbegin <=? pc) && (pc <? slen) && (slen <=? 10000)
  | _ => false
  end.

Definition cap_val {A} (r : xres A) : val :=
  match r with
  | XFail c => VList [VInt (c_stack c + c_alt c); VInt (c_nop c); VInt (c_pb c); VInt (c_pc c); VInt (c_len c)]
  | _ => VList []
  end.

Definition run_C07 (op : Z) (args : list val) : val :=
  match op, args with
  | 1, [VBytes ssig; VBytes spk; VInt f; VInt _; VList [io; VList tbl; VInt side; es]] =>
      let cs := lookup tbl in
      let fl := flags_of f in
      let m := verify_script cs ripemd160_ref sha1 sha256 fl ssig spk in
      let x := verify_script_st cs ripemd160_ref sha1 sha256 fl ssig spk in
      VList [VList [vres (fun _ => VInt 0) m; VList tbl; VInt side; cap_val x];
             vbool ((val_eqb io (VInt 0) || is_validation_val io) && (side =? 1) && err_state_ok es)]
  | _, _ => bad_args
  end.
