(* Run/C07.v – correspondence engine for C07: VerifyScript on arbitrary byte strings with the
   REAL _CheckSig (wrapped only to record its answers as the oracle table), real
   transactions, in- and out-of-range input indices.  IMPL's observation is
     [outcome; oracle table; side-effect flag; captured error state]
   the model echoes the last three (it is a pure function) and recomputes the outcome. *)
From BV Require Import Common.Base Common.Hash Common.Tx Common.ScriptFlags Model.Script Model.ScriptEval Spec.ScriptRef Run.TxVal Run.C06.

Definition err_state_ok (v : val) : bool :=
  match v with
  | VList [] => true                                  (* no EvalScriptError state captured *)
  | VList [VInt items; VInt nop; VInt pbegin; VInt pc; VInt slen] =>
      (items <=? 1000 + 3) && (nop <=? 201 + 21) && (0 <=? pbegin) && (pbegin <=? pc) && (pc <? slen) && (slen <=? 10000)
  | _ => false
  end.

Definition run_C07 (op : Z) (args : list val) : val :=
  match op, args with
  | 1, [VBytes ssig; VBytes spk; VInt f; VInt _; VList [io; VList tbl; VInt side; es]] =>
      let cs := lookup tbl in
      let fl := flags_of f in
      let m := verify_script cs ripemd160_ref sha1 sha256 fl ssig spk in
      VList [VList [vres (fun _ => VInt 0) m; VList tbl; VInt side; es];
             vbool ((val_eqb io (VInt 0) || is_validation_val io) && (side =? 1) && err_state_ok es)]
  | _, _ => bad_args
  end.
