(* Run/C04.v – correspondence engine for C04 (BIP143), H = double SHA-256 *)
From BV Require Import Common.Base Common.Hash Common.Codec Common.Tx Spec.Wire Spec.Bip143 Model.Bip143 Run.TxVal.

Definition run_C04 (op : Z) (args : list val) : val :=
  match op, args with
  | 1, [VBytes script; tv; VInt idx; VInt ht; VInt amount; impl] =>
      match tx_of_val tv with
      | Some t =>
          VList [vres VBytes (bip143 sha256d script t idx ht amount);
                 if in_ib 4 (tx_version t) && forallb (fun y => in_ub 4 (ti_seq y)) (tx_vin t) && in_ub 4 (tx_lock t)
                    && (0 <=? idx) && (idx <? lenZ (tx_vin t)) && (0 <=? amount) && (amount <? 2^63) && (0 <=? ht) && (ht <? 256)
                 then match bip143_digest sha256d script t (Z.to_nat idx) ht amount with
                      | Some d => judge impl (VBytes d) | None => unconstrained end
                 else unconstrained]
      | None => bad_args end
  | _, _ => bad_args
  end.
